(* ApiProofs.v — lemmas about model/RunApi.v (the relational specifications the `api` engine is
   compared with).
   Part 1 (peer store, C11): for a burst of announces with pairwise distinct (infohash, raw ip) keys the
           store after the burst does not depend on the order in which the lock serialised them; every
           announcer of the burst comes back from GetPeers, and nothing else does.
   Part 2 (routing table, C05): the acceptance relation implies the well-formedness clauses of C05, and
           every sequential history of offers produces an accepted table (so the relation admits every
           linearisation of overlapping callers; it rejects exactly what no serial order explains). *)
From Dht Require Import Base Int160 Msg Server ServerDefs Int160Proofs ServerC10 ServerC11 RunApi.
From DhtGen Require Import Params.
From Coq Require Import List NArith ZArith Bool Permutation Lia PeanoNat.
Import ListNotations.

(* ================================================================ Part 1: the peer store *)

Inductive distinct_keys : list peer -> Prop :=
| dk_nil : distinct_keys []
| dk_cons x l : (forall y, In y l -> ~ same_key y x) -> distinct_keys l -> distinct_keys (x :: l).

Lemma distinct_keys_perm l l' : Permutation l l' -> distinct_keys l -> distinct_keys l'.
Proof.
  induction 1 as [|x l l' HP IH|x y l|l l' l'' HP1 IH1 HP2 IH2]; intros H.
  - exact H.
  - inversion H as [|x0 l0 Hx Hl]; subst. constructor.
    + intros z Hz. apply Hx. apply (Permutation_in _ (Permutation_sym HP)). exact Hz.
    + apply IH. exact Hl.
  - inversion H as [|x0 l0 Hy Hl]; subst. inversion Hl as [|x1 l1 Hx Hl']; subst.
    constructor.
    + intros z [<-|Hz]; [|apply Hx; exact Hz].
      intros Hk. apply (Hy x); [left; reflexivity | apply same_key_sym; exact Hk].
    + constructor; [|exact Hl']. intros z Hz. apply Hy. right. exact Hz.
  - apply IH2, IH1, H.
Qed.

(* membership in the store after a burst with distinct keys, from any earlier store [ps] *)
Lemma fold_add_char l ps q :
  distinct_keys l ->
  (In q (fold_left add_peer l ps) <-> In q l \/ (In q ps /\ forall x, In x l -> ~ same_key q x)).
Proof.
  intros Hd. revert ps. induction Hd as [|x l Hx Hd IH]; intros ps; cbn [fold_left].
  - split; [intros H; right; split; [exact H | intros x []] | intros [[]|[H _]]; exact H].
  - rewrite IH, in_add_peer. split.
    + intros [H|[[->|[Hq Hnx]] Hl]].
      * left. right. exact H.
      * left. left. reflexivity.
      * right. split; [exact Hq|]. intros y [<-|Hy]; [exact Hnx | apply Hl; exact Hy].
    + intros [[<-|H]|[Hq Hl]].
      * right. split; [left; reflexivity|]. intros y Hy Hk. apply (Hx y Hy). apply same_key_sym. exact Hk.
      * left. exact H.
      * right. split.
        -- right. split; [exact Hq | apply Hl; left; reflexivity].
        -- intros y Hy. apply Hl. right. exact Hy.
Qed.

(* the interleaving of a burst with distinct keys does not matter *)
Theorem ra_fold_perm l l' ps q :
  Permutation l l' -> distinct_keys l ->
  (In q (fold_left add_peer l ps) <-> In q (fold_left add_peer l' ps)).
Proof.
  intros HP Hd. rewrite (fold_add_char l ps q Hd).
  rewrite (fold_add_char l' ps q (distinct_keys_perm l l' HP Hd)).
  split; (intros [H|[Hq Hl]]; [left | right; split; [exact Hq|]]).
  - apply (Permutation_in _ HP). exact H.
  - intros x Hx. apply Hl. apply (Permutation_in _ (Permutation_sym HP)). exact Hx.
  - apply (Permutation_in _ (Permutation_sym HP)). exact H.
  - intros x Hx. apply Hl. apply (Permutation_in _ HP). exact Hx.
Qed.

Theorem ra_peers_perm l l' q :
  Permutation l l' -> distinct_keys l -> (In q (ra_peers l) <-> In q (ra_peers l')).
Proof. intros HP Hd. unfold ra_peers. apply ra_fold_perm; assumption. Qed.

(* two bursts one after the other, each with distinct keys (the second may re-announce hosts of the
   first): still independent of the order inside each burst *)
Theorem ra_two_bursts_perm l1 l1' l2 l2' q :
  Permutation l1 l1' -> Permutation l2 l2' -> distinct_keys l1 -> distinct_keys l2 ->
  (In q (ra_peers (l1 ++ l2)) <-> In q (ra_peers (l1' ++ l2'))).
Proof.
  intros H1 H2 D1 D2. unfold ra_peers. rewrite !fold_left_app.
  rewrite (ra_fold_perm l2 l2' _ q H2 D2).
  rewrite !(fold_add_char l2' _ q (distinct_keys_perm l2 l2' H2 D2)).
  rewrite (ra_fold_perm l1 l1' [] q H1 D1). reflexivity.
Qed.

Lemma in_store_get ih anns a :
  In a (ra_store_get ih anns) <-> exists p, In p (ra_peers anns) /\ p_ih p = ih /\ a = mkNA (p_ip p) (p_port p).
Proof.
  unfold ra_store_get. rewrite in_map_iff. split.
  - intros (p & <- & Hp). apply filter_In in Hp. destruct Hp as [Hp He]. apply bytes_eqb_eq in He.
    exists p. repeat split; assumption.
  - intros (p & Hp & He & ->). exists p. split; [reflexivity|]. apply filter_In. split; [exact Hp|].
    apply bytes_eqb_eq. exact He.
Qed.

Theorem ra_store_get_perm ih l l' a :
  Permutation l l' -> distinct_keys l -> (In a (ra_store_get ih l) <-> In a (ra_store_get ih l')).
Proof.
  intros HP Hd. rewrite !in_store_get.
  split; intros (p & Hp & He); exists p; (split; [|exact He]).
  - apply (ra_peers_perm l l' p HP Hd). exact Hp.
  - apply (ra_peers_perm l l' p HP Hd). exact Hp.
Qed.

(* every announcer of a burst of first announces comes back from GetPeers ... *)
Theorem ra_burst_complete anns p :
  distinct_keys anns -> In p anns -> In (mkNA (p_ip p) (p_port p)) (ra_store_get (p_ih p) anns).
Proof.
  intros Hd Hp. apply in_store_get. exists p. split; [|split; reflexivity].
  unfold ra_peers. apply (fold_add_char anns [] p Hd). left. exact Hp.
Qed.

(* ... and only announced endpoints do (any announces, distinct or not) *)
Theorem ra_store_get_only ih anns a :
  In a (ra_store_get ih anns) -> exists p, In p anns /\ p_ih p = ih /\ a = mkNA (p_ip p) (p_port p).
Proof.
  intros H. apply in_store_get in H. destruct H as (p & Hp & He). exists p. split; [|exact He].
  unfold ra_peers in Hp. apply fold_add_in in Hp. destruct Hp as [[]|Hp]. exact Hp.
Qed.

(* one listing per host: GetPeers never lists two endpoints of one (infohash, raw ip) *)
Lemma fold_add_one_per_key l ps :
  (forall p q, In p ps -> In q ps -> same_key p q -> p = q) ->
  forall p q, In p (fold_left add_peer l ps) -> In q (fold_left add_peer l ps) -> same_key p q -> p = q.
Proof.
  revert ps. induction l as [|x l IH]; intros ps Hps; cbn [fold_left]; [exact Hps|].
  apply IH. intros p q Hp Hq Hk. apply in_add_peer in Hp. apply in_add_peer in Hq.
  destruct Hp as [->|[Hp Hnp]], Hq as [->|[Hq Hnq]].
  - reflexivity.
  - exfalso. apply Hnq. apply same_key_sym. exact Hk.
  - exfalso. apply Hnp. exact Hk.
  - apply Hps; assumption.
Qed.

Theorem ra_store_one_per_host anns p q :
  In p (ra_peers anns) -> In q (ra_peers anns) -> same_key p q -> p = q.
Proof. unfold ra_peers. apply fold_add_one_per_key. intros ? ? []. Qed.

(* floods (srv_api_flood.go): a flood of announces with distinct keys and, once the store is at rest, a
   second flood in which some of the hosts re-announce with new ports. Whatever the order inside each
   flood: every announce of the second flood is listed with its own port, an announce of the first
   flood is still listed unless its host re-announced, ... *)
Theorem ra_two_floods_complete l1 l2 p :
  distinct_keys l1 -> distinct_keys l2 ->
  (In p l2 \/ (In p l1 /\ forall x, In x l2 -> ~ same_key p x)) ->
  In (mkNA (p_ip p) (p_port p)) (ra_store_get (p_ih p) (l1 ++ l2)).
Proof.
  intros D1 D2 H. apply in_store_get. exists p. split; [|split; reflexivity].
  unfold ra_peers. rewrite fold_left_app. apply (fold_add_char l2 _ p D2).
  destruct H as [H|[H Hn]]; [left; exact H | right; split; [|exact Hn]].
  apply (fold_add_char l1 [] p D1). left. exact H.
Qed.

(* ... and the endpoint a re-announce replaced is gone (an older port never wins) *)
Theorem ra_reannounce_replaces l1 l2 p q :
  distinct_keys l2 -> In q l2 -> same_key p q -> p <> q -> ~ In p (ra_peers (l1 ++ l2)).
Proof.
  intros D2 Hq Hk Hne Hin. apply Hne. apply (ra_store_one_per_host (l1 ++ l2) p q Hin); [|exact Hk].
  unfold ra_peers. rewrite fold_left_app. apply (fold_add_char l2 _ q D2). left. exact Hq.
Qed.

(* ================================================================ Part 2: the routing table *)

Lemma ra_ent_eqb_eq a b : ra_ent_eqb a b = true <-> a = b.
Proof.
  destruct a as [i1 a1 p1], b as [i2 a2 p2]. unfold ra_ent_eqb. cbn [ra_id ra_ip ra_port].
  rewrite !andb_true_iff, !N.eqb_eq, bytes_eqb_eq. split.
  - intros [[-> ->] ->]. reflexivity.
  - intros H. injection H as -> -> ->. repeat split.
Qed.

Lemma ra_mem_In e l : ra_mem e l = true <-> In e l.
Proof.
  unfold ra_mem. rewrite existsb_exists. split.
  - intros (x & Hx & He). apply ra_ent_eqb_eq in He. subst. exact Hx.
  - intros H. exists e. split; [exact H | apply ra_ent_eqb_eq; reflexivity].
Qed.

Lemma ra_mem_false e l : ra_mem e l = false <-> ~ In e l.
Proof. rewrite <- ra_mem_In. destruct (ra_mem e l); split; congruence. Qed.

Lemma ra_nodup_NoDup l : ra_nodup l = true <-> NoDup l.
Proof.
  induction l as [|x l IH]; cbn [ra_nodup].
  - split; [constructor | reflexivity].
  - rewrite andb_true_iff, negb_true_iff, ra_mem_false, IH. split.
    + intros [H1 H2]. constructor; assumption.
    + intros H. inversion H; subst. split; assumption.
Qed.

Lemma ra_count_app root b l1 l2 : ra_count root b (l1 ++ l2) = (ra_count root b l1 + ra_count root b l2)%nat.
Proof. unfold ra_count. rewrite filter_app, app_length. reflexivity. Qed.

Lemma ra_count_pos root b l : (0 < ra_count root b l)%nat -> exists e, In e l /\ ra_bucket root e = b.
Proof.
  unfold ra_count. intros H. destruct (filter (fun e => Nat.eqb (ra_bucket root e) b) l) as [|e r] eqn:E.
  - cbn in H. lia.
  - assert (Hin : In e (filter (fun e => Nat.eqb (ra_bucket root e) b) l)) by (rewrite E; left; reflexivity).
    apply filter_In in Hin. destruct Hin as [Hi Hb]. apply Nat.eqb_eq in Hb. exists e. split; assumption.
Qed.

Lemma ra_admissible_spec root e : ra_admissible root e = true <-> ra_id e <> root /\ ra_id e <> 0%N.
Proof.
  unfold ra_admissible. rewrite andb_true_iff, !negb_true_iff, !N.eqb_neq. reflexivity.
Qed.

(* what an accepted observation satisfies: the clauses of C05 on the entries, plus completeness *)
Theorem ra_accept_wf root must may obs :
  ra_accept root must may obs = true ->
  NoDup (map fst obs) /\
  (forall e b, In (e, b) obs ->
     ra_id e <> root /\ ra_id e <> 0%N /\ b = bucket_index root (ra_id e) /\ (In e must \/ In e may)) /\
  (forall b, (ra_count root b (map fst obs) <= K)%nat) /\
  (forall e, In e must -> ra_id e <> root -> ra_id e <> 0%N ->
     In e (map fst obs) \/ (K <= ra_count root (ra_bucket root e) (map fst obs))%nat).
Proof.
  unfold ra_accept. rewrite !andb_true_iff. intros [[[H1 H2] H3] H4].
  rewrite forallb_forall in H2, H3, H4. split; [|split; [|split]].
  - apply ra_nodup_NoDup. exact H1.
  - intros e b Hin. specialize (H2 (e, b) Hin). cbn [fst snd] in H2.
    rewrite !andb_true_iff, orb_true_iff, !ra_mem_In, Nat.eqb_eq, ra_admissible_spec in H2.
    destruct H2 as [[[Ha Hz] Hb] Hm]. repeat split; assumption.
  - intros b. destruct (ra_count root b (map fst obs)) as [|n] eqn:E; [lia|].
    destruct (ra_count_pos root b (map fst obs)) as (e & He & Hb); [lia|].
    specialize (H3 e He). apply Nat.leb_le in H3. rewrite Hb in H3. lia.
  - intros e He Hr Hz. specialize (H4 e He).
    rewrite !orb_true_iff, negb_true_iff, ra_mem_In, Nat.leb_le in H4.
    destruct H4 as [[H|H]|H]; [|left; exact H | right; exact H].
    exfalso. assert (Ha : ra_admissible root e = true) by (apply ra_admissible_spec; split; assumption).
    congruence.
Qed.

(* the invariant of sequential offers: S = the candidates offered so far *)
Definition ra_inv (root : N) (tbl : list ra_ent) (S : ra_ent -> Prop) : Prop :=
  NoDup tbl /\
  (forall e, In e tbl -> ra_admissible root e = true /\ S e) /\
  (forall b, (ra_count root b tbl <= K)%nat) /\
  (forall e, S e -> ra_admissible root e = true ->
     In e tbl \/ (K <= ra_count root (ra_bucket root e) tbl)%nat).

Lemma ra_inv_step root tbl S e :
  ra_inv root tbl S -> ra_inv root (ra_add root tbl e) (fun x => S x \/ x = e).
Proof.
  intros (Hnd & Hin & Hc & Hcomp). unfold ra_add.
  destruct (ra_admissible root e) eqn:Ha; cbn [andb].
  - destruct (ra_mem e tbl) eqn:Hm; cbn [negb andb].
    + (* already there *)
      apply ra_mem_In in Hm. repeat split; try assumption.
      * apply Hin; assumption.
      * left. apply Hin. assumption.
      * intros x [Hx| ->] Hax; [apply Hcomp; assumption | left; exact Hm].
    + apply ra_mem_false in Hm.
      destruct (Nat.ltb (ra_count root (ra_bucket root e) tbl) K) eqn:Hl.
      * (* inserted *)
        apply Nat.ltb_lt in Hl. repeat split.
        -- apply (Permutation_NoDup (Permutation_cons_append tbl e)). constructor; assumption.
        -- apply in_app_or in H. destruct H as [H|[<-|[]]]; [apply Hin; exact H | exact Ha].
        -- apply in_app_or in H. destruct H as [H|[<-|[]]]; [left; apply Hin; exact H | right; reflexivity].
        -- intros b. rewrite ra_count_app. unfold ra_count at 2. cbn [filter].
           destruct (Nat.eqb (ra_bucket root e) b) eqn:Eb; cbn [length].
           ++ apply Nat.eqb_eq in Eb. subst b. lia.
           ++ specialize (Hc b). lia.
        -- intros x [Hx| ->] Hax.
           ++ destruct (Hcomp x Hx Hax) as [H|H]; [left; apply in_or_app; left; exact H|].
              right. rewrite ra_count_app. lia.
           ++ left. apply in_or_app. right. left. reflexivity.
      * (* the bucket is full *)
        apply Nat.ltb_ge in Hl. repeat split; try assumption.
        -- apply Hin; assumption.
        -- left. apply Hin. assumption.
        -- intros x [Hx| ->] Hax; [apply Hcomp; assumption | right; exact Hl].
  - (* own or zero id: refused *)
    repeat split; try assumption.
    + apply Hin; assumption.
    + left. apply Hin. assumption.
    + intros x [Hx| ->] Hax; [apply Hcomp; assumption | congruence].
Qed.

Lemma ra_inv_ext root tbl (S S' : ra_ent -> Prop) :
  (forall x, S x <-> S' x) -> ra_inv root tbl S -> ra_inv root tbl S'.
Proof.
  intros HS (Hnd & Hin & Hc & Hcomp). repeat split; try assumption.
  - apply Hin; assumption.
  - apply HS. apply Hin. assumption.
  - intros e He Ha. apply Hcomp; [apply HS; exact He | exact Ha].
Qed.

Lemma ra_inv_fold root l tbl S :
  ra_inv root tbl S -> ra_inv root (fold_left (ra_add root) l tbl) (fun x => S x \/ In x l).
Proof.
  revert tbl S. induction l as [|e l IH]; intros tbl S H; cbn [fold_left].
  - apply (ra_inv_ext root tbl S); [|exact H]. intros x. cbn [In]. tauto.
  - apply (ra_inv_ext root _ (fun x => (S x \/ x = e) \/ In x l)).
    + intros x. cbn [In]. split; [intros [[H1|H1]|H1]; auto | intros [H1|[H1|H1]]; auto].
    + apply IH. apply ra_inv_step. exact H.
Qed.

Lemma ra_inv_init root : ra_inv root [] (fun _ => False).
Proof.
  repeat split.
  - constructor.
  - destruct H.
  - destruct H.
  - intros b. cbn. lia.
  - intros e [].
Qed.

(* every sequential history of offers (AddNode calls, queries, in any serial order) is accepted, with
   all of them counted as certainly offered: the relation admits every linearisation *)
Theorem ra_seq_accept root offers :
  ra_accept root offers [] (ra_observe root (ra_run root offers)) = true.
Proof.
  pose proof (ra_inv_fold root offers [] _ (ra_inv_init root)) as (Hnd & Hin & Hc & Hcomp).
  fold (ra_run root offers) in Hnd, Hin, Hc, Hcomp.
  set (tbl := ra_run root offers) in *.
  assert (Hmap : map fst (ra_observe root tbl) = tbl).
  { unfold ra_observe. rewrite map_map. cbn [fst]. apply map_id. }
  unfold ra_accept. rewrite Hmap. rewrite !andb_true_iff. repeat split.
  - apply ra_nodup_NoDup. exact Hnd.
  - apply forallb_forall. intros o Ho. unfold ra_observe in Ho. apply in_map_iff in Ho.
    destruct Ho as (e & <- & He). cbn [fst snd]. destruct (Hin e He) as [Ha [[]|Hs]].
    rewrite Ha, Nat.eqb_refl. cbn [andb]. apply orb_true_iff. left. apply ra_mem_In. exact Hs.
  - apply forallb_forall. intros e He. apply Nat.leb_le. apply Hc.
  - apply forallb_forall. intros e He. destruct (ra_admissible root e) eqn:Ha; cbn [negb orb]; [|reflexivity].
    destruct (Hcomp e (or_intror He) Ha) as [H|H].
    + apply ra_mem_In in H. rewrite H. reflexivity.
    + apply Nat.leb_le in H. rewrite H. apply orb_true_r.
Qed.

(* and the tables it produces are well formed *)
Corollary ra_run_wf root offers :
  NoDup (ra_run root offers) /\
  (forall e, In e (ra_run root offers) -> ra_id e <> root /\ ra_id e <> 0%N /\ In e offers) /\
  (forall b, (ra_count root b (ra_run root offers) <= K)%nat).
Proof.
  pose proof (ra_inv_fold root offers [] _ (ra_inv_init root)) as (Hnd & Hin & Hc & _).
  fold (ra_run root offers) in Hnd, Hin, Hc. split; [exact Hnd|]. split; [|exact Hc].
  intros e He. destruct (Hin e He) as [Ha [[]|Hs]]. apply ra_admissible_spec in Ha.
  destruct Ha. repeat split; assumption.
Qed.

(* ================================================================ Part 2b: a node that enforces the security extension *)

Lemma forallb_filter_guard3 {A} (p q r : A -> bool) l :
  forallb (fun e => negb (p e) || q e || r e) (filter p l) = forallb (fun e => negb (p e) || q e || r e) l.
Proof.
  induction l as [|x l IH]; cbn [filter forallb]; [reflexivity|].
  destruct (p x) eqn:E; cbn [forallb negb orb]; rewrite ?E; cbn [negb orb]; rewrite IH; reflexivity.
Qed.

Lemma forallb_ext' {A} (f g : A -> bool) l : (forall x, f x = g x) -> forallb f l = forallb g l.
Proof. intros H. induction l as [|x l IH]; cbn [forallb]; [reflexivity|]. rewrite H, IH. reflexivity. Qed.

Lemma ra_mem_filter (p : ra_ent -> bool) e l : p e = true -> ra_mem e (filter p l) = ra_mem e l.
Proof.
  intros Hp. apply eq_iff_eq_true. rewrite !ra_mem_In, filter_In. split; [intros [H _]; exact H | intros H; split; assumption].
Qed.

(* the candidates that cannot enter anyway do not matter to the relation *)
Lemma ra_accept_filter_admissible root must may obs :
  ra_accept root (filter (ra_admissible root) must) may obs = ra_accept root must may obs.
Proof.
  unfold ra_accept.
  rewrite (forallb_filter_guard3 (ra_admissible root) (fun e => ra_mem e (map fst obs))
             (fun e => Nat.leb K (ra_count root (ra_bucket root e) (map fst obs))) must).
  f_equal. f_equal. f_equal. apply forallb_ext'. intros o.
  destruct (ra_admissible root (fst o)) eqn:E; cbn [andb]; [|reflexivity].
  rewrite (ra_mem_filter (ra_admissible root) (fst o) must E). reflexivity.
Qed.

Lemma ra_accept_obs_admissible root must may obs :
  ra_accept root must may obs = true -> forallb (fun o => ra_admissible root (fst o)) obs = true.
Proof.
  unfold ra_accept. rewrite !andb_true_iff. intros [[[_ H2] _] _].
  rewrite forallb_forall in H2. apply forallb_forall. intros o Ho. specialize (H2 o Ho).
  rewrite !andb_true_iff in H2. tauto.
Qed.

(* with the security extension off the relation is the one of Part 2 *)
Theorem ra_accept_s_nosec root must may obs :
  ra_accept_s true root must may obs = ra_accept root must may obs.
Proof.
  unfold ra_accept_s.
  change (fun o : ra_ent * nat => ra_adm_s true root (fst o)) with (fun o : ra_ent * nat => ra_admissible root (fst o)).
  change (ra_adm_s true root) with (ra_admissible root).
  rewrite ra_accept_filter_admissible.
  destruct (ra_accept root must may obs) eqn:E; [|apply andb_false_r].
  rewrite (ra_accept_obs_admissible root must may obs E). reflexivity.
Qed.

Lemma ra_run_s_filter nosec root l tbl :
  fold_left (ra_add_s nosec root) l tbl = fold_left (ra_add root) (filter (ra_adm_s nosec root) l) tbl.
Proof.
  revert tbl. induction l as [|e l IH]; intros tbl; cbn [fold_left filter]; [reflexivity|].
  unfold ra_add_s at 2. destruct (ra_adm_s nosec root e); cbn [fold_left]; apply IH.
Qed.

(* every serial order of offers to a node with or without the security extension is accepted *)
Theorem ra_seq_accept_s nosec root offers :
  ra_accept_s nosec root offers [] (ra_observe root (ra_run_s nosec root offers)) = true.
Proof.
  unfold ra_accept_s, ra_run_s. rewrite ra_run_s_filter.
  fold (ra_run root (filter (ra_adm_s nosec root) offers)).
  rewrite ra_seq_accept, andb_true_r.
  apply forallb_forall. intros o Ho. unfold ra_observe in Ho. apply in_map_iff in Ho.
  destruct Ho as (e & <- & He). cbn [fst].
  destruct (ra_run_wf root (filter (ra_adm_s nosec root) offers)) as (_ & Hin & _).
  destruct (Hin e He) as (_ & _ & Hf). apply filter_In in Hf. apply Hf.
Qed.

(* what an accepted table of an enforcing node satisfies: no entry whose id is not valid for its
   address, no own / zero id, and the clauses of ra_accept_wf for the candidates that may enter *)
Theorem ra_accept_s_wf root must may obs :
  ra_accept_s false root must may obs = true ->
  (forall e b, In (e, b) obs -> ra_secure e = true /\ ra_id e <> root /\ ra_id e <> 0%N) /\
  NoDup (map fst obs) /\
  (forall b, (ra_count root b (map fst obs) <= K)%nat) /\
  (forall e, In e must -> ra_id e <> root -> ra_id e <> 0%N -> ra_secure e = true ->
     In e (map fst obs) \/ (K <= ra_count root (ra_bucket root e) (map fst obs))%nat).
Proof.
  unfold ra_accept_s. rewrite andb_true_iff. intros [Ho Ha].
  apply ra_accept_wf in Ha. destruct Ha as (Hnd & _ & Hc & Hcomp).
  rewrite forallb_forall in Ho. split; [|split; [exact Hnd|split; [exact Hc|]]].
  - intros e b Hin. specialize (Ho (e, b) Hin). cbn [fst ra_adm_s] in Ho.
    apply andb_true_iff in Ho. destruct Ho as [Had Hs]. apply ra_admissible_spec in Had.
    destruct Had. repeat split; assumption.
  - intros e He Hr Hz Hs. apply Hcomp; try assumption. apply filter_In. split; [exact He|].
    cbn [ra_adm_s]. rewrite Hs, andb_true_r. apply ra_admissible_spec. split; assumption.
Qed.

(* ================================================================ Part 3: the API's counters *)

Lemma filter_map_length {A B} (f : A -> B) (p : B -> bool) l :
  length (filter p (map f l)) = length (filter (fun x => p (f x)) l).
Proof.
  induction l as [|x l IH]; cbn [map filter]; [reflexivity|].
  destruct (p (f x)); cbn [length]; rewrite IH; reflexivity.
Qed.

(* ra_counts on the (good, bad) classification of the model's entries is what the model's API views
   report: num_nodes counts bad entries too, num_good the good ones, exported_nodes the non-bad ones *)
Theorem ra_counts_model (Store : Type) (id_secure : N -> bytes -> bool) (cfg : config) (s : sstate Store) :
  ra_counts (map (fun n => (node_good id_secure cfg (s_now Store s) n, node_bad id_secure cfg n)) (s_nodes Store s))
  = (num_nodes Store s, num_good Store id_secure cfg s, length (exported_nodes Store id_secure cfg s)).
Proof.
  unfold ra_counts, num_nodes, num_good, exported_nodes.
  rewrite !map_length, !filter_map_length. cbn [fst snd]. reflexivity.
Qed.

Example ra_counts_example :
  ra_counts [(true, false); (false, true); (false, false); (false, true)] = (4, 1, 2)%nat.
Proof. reflexivity. Qed.

(* ---- non-vacuity: concrete tables. root = 1; ids 2 and 3 share 158 leading bits with it *)
Definition ex_e (i p : N) : ra_ent := mkRaEnt i [x01; x02; x03; x04]%byte p.

(* an all-zero id written into the table by a loader that skips the server's admission (a nodes file
   with a record of unknown id) is rejected with and without the security extension; an id that is
   not valid for its address is rejected exactly when the extension is enforced *)
Example ra_rejects_zero_and_insecure :
  ra_accept_s true 1 [ex_e 0 7; ex_e 2 7] [] [(ex_e 2 7, 158%nat)] = true /\
  ra_accept_s true 1 [ex_e 0 7; ex_e 2 7] [] [(ex_e 2 7, 158%nat); (ex_e 0 7, 159%nat)] = false /\
  ra_why_s true 1 [ex_e 0 7; ex_e 2 7] [] [(ex_e 2 7, 158%nat); (ex_e 0 7, 159%nat)] = 2%nat /\
  ra_secure (ex_e 2 7) = false /\
  ra_accept_s false 1 [ex_e 2 7] [] [(ex_e 2 7, 158%nat)] = false /\
  ra_why_s false 1 [ex_e 2 7] [] [(ex_e 2 7, 158%nat)] = 7%nat /\
  ra_accept_s false 1 [ex_e 2 7] [] [] = true /\
  ra_run_s false 1 [ex_e 2 7; ex_e 0 7; ex_e 1 7] = [] /\
  ra_run_s true 1 [ex_e 2 7; ex_e 0 7; ex_e 1 7] = [ex_e 2 7].
Proof. vm_compute. repeat split. Qed.

(* a duplicated (id, address) pair — what overlapping AddNode calls leave behind when the insertion
   does not re-check under the write lock — is rejected, for any candidate lists *)
Example ra_rejects_duplicate :
  ra_accept 1 [ex_e 2 7] [] [(ex_e 2 7, 158%nat)] = true /\
  ra_accept 1 [ex_e 2 7] [] [(ex_e 2 7, 158%nat); (ex_e 2 7, 158%nat)] = false /\
  ra_why 1 [ex_e 2 7] [] [(ex_e 2 7, 158%nat); (ex_e 2 7, 158%nat)] = 1%nat.
Proof. vm_compute. repeat split. Qed.

(* a lost insertion (candidate absent, bucket not full), a stranger, a wrong bucket, the own id *)
Example ra_rejects_others :
  ra_accept 1 [ex_e 2 7; ex_e 3 8] [] [(ex_e 2 7, 158%nat)] = false /\
  ra_accept 1 [ex_e 2 7] [] [(ex_e 2 7, 158%nat); (ex_e 3 8, 158%nat)] = false /\
  ra_accept 1 [ex_e 2 7] [] [(ex_e 2 7, 157%nat)] = false /\
  ra_accept 1 [ex_e 1 7] [] [(ex_e 1 7, 160%nat)] = false /\
  ra_accept 1 [ex_e 1 7; ex_e 0 9] [ex_e 3 8] [(ex_e 3 8, 158%nat)] = true.
Proof. vm_compute. repeat split. Qed.

(* nine candidates for one bucket: any eight of them are accepted, seven are not *)
Example ra_full_bucket :
  let c := map (fun i => ex_e 2 i) [1; 2; 3; 4; 5; 6; 7; 8; 9]%N in
  ra_accept 1 c [] (ra_observe 1 (ra_run 1 c)) = true /\
  length (ra_run 1 c) = 8%nat /\
  ra_accept 1 c [] (ra_observe 1 (ra_run 1 (rev c))) = true /\
  ra_accept 1 c [] (ra_observe 1 (firstn 7 (ra_run 1 c))) = false.
Proof. vm_compute. repeat split. Qed.

(* the peer store: a burst of three first announces in two orders *)
Example ra_burst_example :
  let a := mkPeer [x01]%byte [x0a; x00; x00; x01]%byte 1111 in
  let b := mkPeer [x01]%byte [x0a; x00; x00; x02]%byte 2222 in
  let c := mkPeer [x02]%byte [x0a; x00; x00; x01]%byte 3333 in
  ra_store_get [x01]%byte [a; b; c] = [mkNA [x0a; x00; x00; x01]%byte 1111; mkNA [x0a; x00; x00; x02]%byte 2222] /\
  ra_store_get [x01]%byte [c; b; a] = [mkNA [x0a; x00; x00; x02]%byte 2222; mkNA [x0a; x00; x00; x01]%byte 1111] /\
  distinct_keys [a; b; c].
Proof.
  cbv zeta. split; [vm_compute; reflexivity|]. split; [vm_compute; reflexivity|].
  repeat constructor; intros y Hy [H1 H2]; cbn [In] in Hy;
    repeat (destruct Hy as [<-|Hy]; [cbn in H1, H2; congruence|]); destruct Hy.
Qed.
