(* KrpcRecProofs.v — the record projections of model/Krpc.v by Go field name (the get and set functions): setting
   one field leaves the others alone, and a record is determined by its fields.  Brute force over the
   generated field tables. *)
From Coq Require Import String.
From Dht Require Import Base Msg Compact Bencode Krpc Int160Proofs CompactProofs BencodeProofs KrpcProofs.
From DhtGen Require Import KrpcSchema.
From Coq Require Import Lia Arith.
Close Scope string_scope.

(* ================================================================================================
   Record projections by Go field name: setting one field, reading them all
   ================================================================================================ *)
(* the nil-ness flag of a byte slice: a nil slice has no bytes *)
Definition inv_args (x : xargs) : Prop := snd x = false -> a_salt (fst x) = [].
Definition inv_ret (x : xret) : Prop := snd x = false -> r_v (fst x) = [].
Definition inv_msg (x : xmsg) : Prop :=
  (m_a (x_msg x) = None -> x_salt_nn x = false) /\ (m_r (x_msg x) = None -> x_rv_nn x = false).

Ltac other_fields H' Hne :=
  each_in H' ltac:(first [ exfalso; apply Hne; reflexivity | vm_compute; reflexivity ]).

Lemma args_set_law x fd fv :
  In fd argsF -> get_args (f_name fd) x = Some fv ->
  forall acc, inv_args acc ->
  exists acc', set_args (f_name fd) fv acc = Some acc' /\ inv_args acc' /\ get_args (f_name fd) acc' = Some fv /\
    (forall fd', In fd' argsF -> f_name fd' <> f_name fd -> get_args (f_name fd') acc' = get_args (f_name fd') acc).
Proof.
  intros H Hg acc Hi. destruct x as [a nn]. destruct acc as [a' nn']. unfold argsF in H. unfold inv_args in *. cbn [fst snd] in *.
  destruct nn;
  each_in H ltac:(
    vm_compute in Hg; injection Hg as <-;
    eexists; split; [vm_compute; reflexivity|];
    split; [cbn [fst snd a_salt]; first [exact Hi | intros; congruence | reflexivity]|];
    split; [vm_compute; reflexivity|];
    let fd' := fresh "fd'" in let H' := fresh "H'" in let Hne := fresh "Hne" in
    intros fd' H' Hne; unfold argsF in H'; other_fields H' Hne).
Qed.

Lemma ret_set_law x fd fv :
  In fd retF -> get_ret (f_name fd) x = Some fv ->
  forall acc, inv_ret acc ->
  exists acc', set_ret (f_name fd) fv acc = Some acc' /\ inv_ret acc' /\ get_ret (f_name fd) acc' = Some fv /\
    (forall fd', In fd' retF -> f_name fd' <> f_name fd -> get_ret (f_name fd') acc' = get_ret (f_name fd') acc).
Proof.
  intros H Hg acc Hi. destruct x as [a nn]. destruct acc as [a' nn']. unfold retF in H. unfold inv_ret in *. cbn [fst snd] in *.
  destruct nn;
  each_in H ltac:(
    vm_compute in Hg; injection Hg as <-;
    eexists; split; [vm_compute; reflexivity|];
    split; [cbn [fst snd r_v]; first [exact Hi | intros; congruence | reflexivity]|];
    split; [vm_compute; reflexivity|];
    let fd' := fresh "fd'" in let H' := fresh "H'" in let Hne := fresh "Hne" in
    intros fd' H' Hne; unfold retF in H'; other_fields H' Hne).
Qed.

Lemma msg_set_law x fd fv :
  In fd msgF -> get_msg (f_name fd) x = Some fv ->
  forall acc, inv_msg acc ->
  exists acc', set_msg (f_name fd) fv acc = Some acc' /\ inv_msg acc' /\ get_msg (f_name fd) acc' = Some fv /\
    (forall fd', In fd' msgF -> f_name fd' <> f_name fd -> get_msg (f_name fd') acc' = get_msg (f_name fd') acc).
Proof.
  intros H Hg acc Hi. destruct x as [[q a t y r e ip ro v] ipnn snn rnn].
  destruct acc as [[q' a' t' y' r' e' ip' ro' v'] ipnn' snn' rnn'].
  unfold msgF in H. unfold inv_msg in *. cbn [x_msg m_a m_r x_salt_nn x_rv_nn] in *. destruct Hi as [Hi1 Hi2].
  destruct a as [a|]; destruct r as [r|];
  each_in H ltac:(
    vm_compute in Hg; injection Hg as <-;
    eexists; split; [vm_compute; reflexivity|];
    split; [cbn [x_msg m_a m_r x_salt_nn x_rv_nn option_map fst];
            split; first [exact Hi1 | exact Hi2 | intros; reflexivity | intros; discriminate]|];
    split; [vm_compute; reflexivity|];
    let fd' := fresh "fd'" in let H' := fresh "H'" in let Hne := fresh "Hne" in
    intros fd' H' Hne; unfold msgF in H'; other_fields H' Hne).
Qed.

Ltac in_literal := cbn [In]; repeat (first [left; reflexivity | right]).

Ltac spec_each H l :=
  lazymatch l with
  | nil => idtac
  | cons ?fd ?l' =>
      let Hn := fresh "Hf" in
      assert (Hn := H fd ltac:(in_literal)); vm_compute in Hn; spec_each H l'
  end.

Ltac inj_all :=
  repeat match goal with
         | Hf : Some _ = Some _ |- _ => first [discriminate Hf | injection Hf; clear Hf; intros]
         end.

Lemma args_ext x acc :
  inv_args x -> inv_args acc ->
  (forall fd, In fd argsF -> get_args (f_name fd) acc = get_args (f_name fd) x) -> acc = x.
Proof.
  intros Hx Ha H.
  destruct x as [[id ih tg tok port imp want noseed scrape v seq cas k salt sg] nn].
  destruct acc as [[id' ih' tg' tok' port' imp' want' noseed' scrape' v' seq' cas' k' salt' sg'] nn'].
  unfold inv_args in *. cbn [fst snd a_salt] in *. unfold argsF in H.
  let l := eval unfold argsF in argsF in spec_each H l.
  clear H.
  destruct nn, nn'; try specialize (Hx eq_refl); try specialize (Ha eq_refl); inj_all; subst;
    first [reflexivity | discriminate | congruence].
Qed.

Lemma ret_ext x acc :
  inv_ret x -> inv_ret acc ->
  (forall fd, In fd retF -> get_ret (f_name fd) acc = get_ret (f_name fd) x) -> acc = x.
Proof.
  intros Hx Ha H.
  destruct x as [[id nodes nodes6 tok values bfsd bfpe interval num samples v k sg seq] nn].
  destruct acc as [[id' nodes' nodes6' tok' values' bfsd' bfpe' interval' num' samples' v' k' sg' seq'] nn'].
  unfold inv_ret in *. cbn [fst snd r_v] in *. unfold retF in H.
  let l := eval unfold retF in retF in spec_each H l.
  clear H.
  destruct nn, nn'; try specialize (Hx eq_refl); try specialize (Ha eq_refl); inj_all; subst;
    first [reflexivity | discriminate | congruence].
Qed.

Lemma msg_ext x acc :
  inv_msg x -> inv_msg acc ->
  (forall fd, In fd msgF -> get_msg (f_name fd) acc = get_msg (f_name fd) x) -> acc = x.
Proof.
  intros Hx Ha H.
  destruct x as [[q a t y r e ip ro v] ipnn snn rnn].
  destruct acc as [[q' a' t' y' r' e' ip' ro' v'] ipnn' snn' rnn'].
  unfold inv_msg in *. cbn [x_msg m_a m_r x_salt_nn x_rv_nn] in *. unfold msgF in H.
  destruct Hx as [Hx1 Hx2]. destruct Ha as [Ha1 Ha2].
  let l := eval unfold msgF in msgF in spec_each H l.
  clear H.
  destruct a, a', r, r'; cbn [option_map] in *;
    try specialize (Hx1 eq_refl); try specialize (Hx2 eq_refl);
    try specialize (Ha1 eq_refl); try specialize (Ha2 eq_refl); inj_all; subst;
    first [reflexivity | discriminate | congruence].
Qed.

(* ---- the same laws, read from a successful assignment (used for what the decoder builds) ---- *)
Ltac split_fv fv :=
  destruct fv;
  try match goal with o : option _ |- _ => destruct o as [?|] end;
  try match goal with p : (_ * _)%type |- _ => destruct p end;
  try match goal with p : xargs |- _ => destruct p end;
  try match goal with p : xret |- _ => destruct p end.

Lemma args_set_ok fd fv acc acc' :
  In fd argsF -> set_args (f_name fd) fv acc = Some acc' -> inv_args acc ->
  inv_args acc' /\ get_args (f_name fd) acc' = Some fv /\
  (forall fd', In fd' argsF -> f_name fd' <> f_name fd -> get_args (f_name fd') acc' = get_args (f_name fd') acc).
Proof.
  intros H. revert acc acc'. split_fv fv; intros acc acc' Hs Hi;
  destruct acc as [a' nn']; unfold argsF in H; unfold inv_args in *; cbn [fst snd] in *;
  each_in H ltac:(
    vm_compute in Hs; first [discriminate Hs | (injection Hs as <-;
    split; [cbn [fst snd a_salt]; first [exact Hi | intros; congruence | reflexivity]|];
    split; [vm_compute; reflexivity|];
    let fd' := fresh "fd'" in let H' := fresh "H'" in let Hne := fresh "Hne" in
    intros fd' H' Hne; unfold argsF in H'; other_fields H' Hne)]).
Qed.

Lemma ret_set_ok fd fv acc acc' :
  In fd retF -> set_ret (f_name fd) fv acc = Some acc' -> inv_ret acc ->
  inv_ret acc' /\ get_ret (f_name fd) acc' = Some fv /\
  (forall fd', In fd' retF -> f_name fd' <> f_name fd -> get_ret (f_name fd') acc' = get_ret (f_name fd') acc).
Proof.
  intros H. revert acc acc'. split_fv fv; intros acc acc' Hs Hi;
  destruct acc as [a' nn']; unfold retF in H; unfold inv_ret in *; cbn [fst snd] in *;
  each_in H ltac:(
    vm_compute in Hs; first [discriminate Hs | (injection Hs as <-;
    split; [cbn [fst snd r_v]; first [exact Hi | intros; congruence | reflexivity]|];
    split; [vm_compute; reflexivity|];
    let fd' := fresh "fd'" in let H' := fresh "H'" in let Hne := fresh "Hne" in
    intros fd' H' Hne; unfold retF in H'; other_fields H' Hne)]).
Qed.

Lemma msg_set_ok fd fv acc acc' :
  In fd msgF -> set_msg (f_name fd) fv acc = Some acc' -> inv_msg acc ->
  inv_msg acc' /\ get_msg (f_name fd) acc' = Some fv /\
  (forall fd', In fd' msgF -> f_name fd' <> f_name fd -> get_msg (f_name fd') acc' = get_msg (f_name fd') acc).
Proof.
  intros H. revert acc acc'. split_fv fv; intros acc acc' Hs Hi;
  destruct acc as [[q' a' t' y' r' e' ip' ro' v'] ipnn' snn' rnn'];
  unfold msgF in H; unfold inv_msg in *; cbn [x_msg m_a m_r x_salt_nn x_rv_nn] in *; destruct Hi as [Hi1 Hi2];
  each_in H ltac:(
    vm_compute in Hs; first [discriminate Hs | (injection Hs as <-;
    split; [cbn [x_msg m_a m_r x_salt_nn x_rv_nn option_map fst];
            split; first [exact Hi1 | exact Hi2 | intros; reflexivity | intros; discriminate]|];
    split; [vm_compute; reflexivity|];
    let fd' := fresh "fd'" in let H' := fresh "H'" in let Hne := fresh "Hne" in
    intros fd' H' Hne; unfold msgF in H'; other_fields H' Hne)]).
Qed.
