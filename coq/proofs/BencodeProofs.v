(* BencodeProofs.v — proofs about model/Bencode.v: tokens, decimal round trip, the strict value
   parser reads back what `benc` writes, fuel = input length suffices, the raw scanner. *)
From Dht Require Import Base Msg Bencode Int160Proofs.
From Coq Require Import Lia ZifyN ZifyNat ZifyBool Arith.
Local Open Scope N_scope.

(* ---------------------------------------------------------------- bytes *)
Lemma byte_eqb_eq a b : byte_eqb a b = true <-> a = b.
Proof.
  unfold byte_eqb. rewrite N.eqb_eq. split; [apply to_N_inj | intros ->; reflexivity].
Qed.
Lemma byte_eqb_refl a : byte_eqb a a = true.
Proof. apply byte_eqb_eq. reflexivity. Qed.
Lemma byte_eqb_neq a b : byte_eqb a b = false <-> a <> b.
Proof.
  destruct (byte_eqb a b) eqn:E.
  - apply byte_eqb_eq in E. split; [discriminate | congruence].
  - split; [intros _ H; apply byte_eqb_eq in H; congruence | reflexivity].
Qed.
Lemma bytes_eqb_refl a : bytes_eqb a a = true.
Proof. apply bytes_eqb_eq. reflexivity. Qed.

(* ---------------------------------------------------------------- read_until *)
Lemma read_until_app sep s r :
  ~ In sep s -> read_until sep (s ++ sep :: r) = Some (s, r).
Proof.
  induction s as [|x s IH]; simpl; intros H.
  - rewrite byte_eqb_refl. reflexivity.
  - destruct (byte_eqb x sep) eqn:E.
    + apply byte_eqb_eq in E. subst. exfalso. apply H. left. reflexivity.
    + rewrite IH; [reflexivity|]. intros Hin. apply H. right. exact Hin.
Qed.

Lemma read_until_spec sep b s r :
  read_until sep b = Some (s, r) -> b = s ++ sep :: r /\ ~ In sep s.
Proof.
  revert s r. induction b as [|x b IH]; simpl; intros s r; [discriminate|].
  destruct (byte_eqb x sep) eqn:E.
  - intros [= <- <-]. apply byte_eqb_eq in E. subst. split; [reflexivity | intros []].
  - destruct (read_until sep b) as [[s' r']|] eqn:R; [|discriminate].
    intros [= <- <-]. destruct (IH _ _ eq_refl) as (-> & Hn).
    split; [reflexivity|]. intros [->|Hin]; [|exact (Hn Hin)].
    rewrite byte_eqb_refl in E. discriminate.
Qed.

Lemma read_until_ext sep b s r rest :
  read_until sep b = Some (s, r) -> read_until sep (b ++ rest) = Some (s, r ++ rest).
Proof.
  intros H. apply read_until_spec in H. destruct H as (-> & Hn).
  rewrite <- app_assoc. simpl. apply read_until_app. exact Hn.
Qed.

(* ---------------------------------------------------------------- take_str *)
Lemma take_str_app s r : take_str (N.of_nat (length s)) (s ++ r) = Some (s, r).
Proof.
  induction s as [|x s IH].
  - simpl. destruct r; reflexivity.
  - cbn [length app take_str].
    destruct (N.eqb_spec (N.of_nat (S (length s))) 0); [lia|].
    replace (N.pred (N.of_nat (S (length s)))) with (N.of_nat (length s)) by lia.
    rewrite IH. reflexivity.
Qed.

Lemma take_str_spec n b s r :
  take_str n b = Some (s, r) -> b = s ++ r /\ N.of_nat (length s) = n.
Proof.
  revert n s r. induction b as [|x b IH]; intros n s r.
  - simpl. destruct (N.eqb_spec n 0); [|discriminate]. intros [= <- <-]. split; [reflexivity | simpl; lia].
  - cbn [take_str]. destruct (N.eqb_spec n 0).
    + intros [= <- <-]. split; [reflexivity | simpl; lia].
    + destruct (take_str (N.pred n) b) as [[s' t]|] eqn:T; [|discriminate].
      intros [= <- <-]. destruct (IH _ _ _ T) as (-> & L). split; [reflexivity | simpl; lia].
Qed.

Lemma take_str_ext n b s r rest : take_str n b = Some (s, r) -> take_str n (b ++ rest) = Some (s, r ++ rest).
Proof.
  intros H. apply take_str_spec in H. destruct H as (-> & <-).
  rewrite <- app_assoc. apply take_str_app.
Qed.

(* ---------------------------------------------------------------- decimal digits *)
Definition all_digits (s : bytes) : Prop := Forall (fun c => is_digit c = true) s.

Lemma digit_byte_to_N d : d < 10 -> Byte.to_N (digit_byte d) = 48 + d.
Proof. intros H. unfold digit_byte. rewrite to_N_byte_of_N. apply N.mod_small. lia. Qed.

Lemma digit_byte_is_digit d : d < 10 -> is_digit (digit_byte d) = true.
Proof. intros H. unfold is_digit. rewrite digit_byte_to_N by exact H. lia. Qed.

Lemma digit_byte_val d : d < 10 -> digit_val (digit_byte d) = d.
Proof. intros H. unfold digit_val. rewrite digit_byte_to_N by exact H. lia. Qed.

Lemma digit_byte_19 d : 0 < d -> d < 10 -> is_19 (digit_byte d) = true.
Proof. intros H0 H. unfold is_19. rewrite digit_byte_to_N by exact H. lia. Qed.

(* value of a digit string, most significant first *)
Definition dval (s : bytes) : N := fold_left (fun a c => a * 10 + digit_val c) s 0.

Lemma digits_val_spec s : all_digits s -> forall a, digits_val a s = Some (fold_left (fun a c => a * 10 + digit_val c) s a).
Proof.
  induction 1 as [|c s Hc Hs IH]; intros a; simpl; [reflexivity|].
  rewrite Hc. apply IH.
Qed.

Lemma fold_digits_app s t a :
  fold_left (fun a c => a * 10 + digit_val c) (s ++ t) a =
  fold_left (fun a c => a * 10 + digit_val c) t (fold_left (fun a c => a * 10 + digit_val c) s a).
Proof. apply fold_left_app. Qed.

Lemma dec_pos_fuel_S f n acc :
  dec_pos_fuel (S f) n acc =
  if N.ltb n 10 then digit_byte n :: acc else dec_pos_fuel f (n / 10) (digit_byte (n mod 10) :: acc).
Proof. reflexivity. Qed.

(* dec_pos_fuel writes the digits of n in front of acc *)
Lemma dec_pos_fuel_spec f : forall n acc, n < 2 ^ N.of_nat f ->
  exists s, dec_pos_fuel (S f) n acc = s ++ acc /\ all_digits s /\ s <> [] /\ dval s = n /\
            (0 < n -> exists c s', s = c :: s' /\ is_19 c = true).
Proof.
  induction f as [|f IH]; intros n acc Hn.
  - simpl in Hn. assert (n = 0) by lia. subst. exists [digit_byte 0].
    split; [reflexivity|]. split; [|split; [|split]].
    + constructor; [apply digit_byte_is_digit; lia | constructor].
    + discriminate.
    + unfold dval. simpl. rewrite digit_byte_val; lia.
    + intros; lia.
  - rewrite dec_pos_fuel_S. destruct (N.ltb_spec n 10) as [Hlt|Hge].
    + exists [digit_byte n]. split; [reflexivity|]. split; [|split; [|split]].
      * constructor; [apply digit_byte_is_digit; lia | constructor].
      * discriminate.
      * unfold dval. simpl. rewrite digit_byte_val; lia.
      * intros Hp. exists (digit_byte n), []. split; [reflexivity | apply digit_byte_19; lia].
    + assert (Hd : n / 10 < 2 ^ N.of_nat f).
      { apply N.div_lt_upper_bound; [lia|].
        replace (N.of_nat (S f)) with (N.succ (N.of_nat f)) in Hn by lia.
        rewrite N.pow_succ_r' in Hn. lia. }
      destruct (IH (n / 10) (digit_byte (n mod 10) :: acc) Hd) as (s & E & Hs & Hne & Hv & Hh).
      assert (Hm : n mod 10 < 10) by (apply N.mod_lt; lia).
      exists (s ++ [digit_byte (n mod 10)]).
      rewrite E, <- app_assoc. split; [reflexivity|]. split; [|split; [|split]].
      * apply Forall_app. split; [exact Hs|]. constructor; [apply digit_byte_is_digit; exact Hm | constructor].
      * destruct s; discriminate.
      * unfold dval in *. rewrite fold_digits_app, Hv. simpl. rewrite digit_byte_val by exact Hm.
        pose proof (N.div_mod n 10 ltac:(lia)). lia.
      * intros _. destruct Hh as (c & s' & -> & Hc).
        { apply N.div_str_pos. lia. }
        exists c, (s' ++ [digit_byte (n mod 10)]). split; [reflexivity | exact Hc].
Qed.

Lemma dec_N_spec n :
  all_digits (dec_N n) /\ dec_N n <> [] /\ dval (dec_N n) = n /\
  (0 < n -> exists c s', dec_N n = c :: s' /\ is_19 c = true).
Proof.
  unfold dec_N.
  destruct (dec_pos_fuel_spec (N.to_nat (N.size n)) n []) as (s & E & H).
  { rewrite N2Nat.id. apply N.size_gt. }
  rewrite E, app_nil_r. exact H.
Qed.

Lemma dec_N_0 : dec_N 0 = [digit_byte 0].
Proof. reflexivity. Qed.

Theorem parse_udec_dec_N n : parse_udec (dec_N n) = Some n.
Proof.
  destruct (dec_N_spec n) as (Hd & Hne & Hv & _).
  unfold parse_udec. destruct (dec_N n) eqn:E; [congruence|].
  rewrite <- E in *. rewrite digits_val_spec by exact Hd. f_equal. exact Hv.
Qed.

Lemma is_digit_not c x : is_digit c = true -> is_digit x = false -> c <> x.
Proof. intros H1 H2 ->. congruence. Qed.

Lemma all_digits_not_in s x : all_digits s -> is_digit x = false -> ~ In x s.
Proof.
  intros H Hx Hin. unfold all_digits in H. rewrite Forall_forall in H. apply H in Hin. congruence.
Qed.

Lemma dec_N_no_colon n : ~ In ch_colon (dec_N n).
Proof. apply all_digits_not_in; [apply dec_N_spec | reflexivity]. Qed.
Lemma dec_N_no_e n : ~ In ch_e (dec_N n).
Proof. apply all_digits_not_in; [apply dec_N_spec | reflexivity]. Qed.

Lemma check_buffered_int_dec_N n : check_buffered_int (dec_N n) = true.
Proof.
  destruct (N.eq_dec n 0) as [->|Hn]; [reflexivity|].
  destruct (dec_N_spec n) as (Hd & _ & _ & Hh).
  destruct Hh as (c & s' & E & Hc); [lia|]. rewrite E.
  unfold check_buffered_int. destruct s'; [reflexivity|].
  destruct (byte_eqb c ch_minus) eqn:Em.
  - apply byte_eqb_eq in Em. subst c. discriminate.
  - exact Hc.
Qed.

Lemma dec_N_head_digit n : exists c s', dec_N n = c :: s' /\ is_digit c = true.
Proof.
  destruct (dec_N_spec n) as (Hd & Hne & _).
  destruct (dec_N n) as [|c s']; [congruence|]. inversion Hd; subst. eauto.
Qed.

(* ---------------------------------------------------------------- integers *)
Lemma dec_Z_no_e z : ~ In ch_e (dec_Z z).
Proof.
  destruct z; simpl.
  - intros [H|[]]. discriminate.
  - apply dec_N_no_e.
  - intros [H|H]; [discriminate | exact (dec_N_no_e _ H)].
Qed.

Theorem int_text_dec_Z z : int_text_any (dec_Z z) = Some z.
Proof.
  unfold int_text_any. destruct z as [|p|p].
  - reflexivity.
  - change (dec_Z (Z.pos p)) with (dec_N (N.pos p)).
    rewrite check_buffered_int_dec_N.
    unfold parse_sdec. destruct (dec_N_spec (N.pos p)) as (_ & _ & _ & Hh).
    destruct Hh as (c & s' & E & Hc); [lia|].
    pose proof (parse_udec_dec_N (N.pos p)) as P. rewrite E in *.
    destruct (byte_eqb c ch_minus) eqn:E1; [apply byte_eqb_eq in E1; subst; discriminate|].
    destruct (byte_eqb c ch_plus) eqn:E2; [apply byte_eqb_eq in E2; subst; discriminate|].
    rewrite P. reflexivity.
  - change (dec_Z (Z.neg p)) with (ch_minus :: dec_N (N.pos p)).
    destruct (dec_N_spec (N.pos p)) as (_ & _ & _ & Hh).
    destruct Hh as (c & s' & E & Hc); [lia|].
    pose proof (parse_udec_dec_N (N.pos p)) as P.
    unfold check_buffered_int. rewrite E. rewrite byte_eqb_refl. rewrite Hc.
    unfold parse_sdec. rewrite byte_eqb_refl. rewrite <- E, P. reflexivity.
Qed.

Lemma check_buffered_int_dec_Z z : check_buffered_int (dec_Z z) = true.
Proof.
  pose proof (int_text_dec_Z z) as H. unfold int_text_any in H.
  destruct (check_buffered_int (dec_Z z)); [reflexivity | discriminate].
Qed.

Lemma parse_sdec_dec_Z z : parse_sdec (dec_Z z) = Some z.
Proof.
  pose proof (int_text_dec_Z z) as H. unfold int_text_any in H.
  rewrite check_buffered_int_dec_Z in H. exact H.
Qed.

(* ---------------------------------------------------------------- string tokens *)
Theorem parse_str_tok_benc s rest : str_ok s = true -> parse_str_tok (benc_str s ++ rest) = Some (s, rest).
Proof.
  intros Hs. unfold parse_str_tok, benc_str.
  rewrite <- app_assoc. simpl.
  rewrite read_until_app by apply dec_N_no_colon.
  rewrite check_buffered_int_dec_N, parse_udec_dec_N.
  unfold str_ok in Hs. rewrite Hs. apply take_str_app.
Qed.

Lemma benc_str_head s : exists c t, benc_str s = c :: t /\ is_digit c = true.
Proof.
  unfold benc_str. destruct (dec_N_head_digit (N.of_nat (length s))) as (c & s' & E & Hc).
  rewrite E. simpl. eauto.
Qed.

Lemma is_digit_chars c : is_digit c = true ->
  byte_eqb c ch_i = false /\ byte_eqb c ch_l = false /\ byte_eqb c ch_d = false /\ byte_eqb c ch_e = false.
Proof.
  intros H. repeat split; apply byte_eqb_neq; intros ->; discriminate.
Qed.

(* ---------------------------------------------------------------- induction principle for bval *)
Section BvalInd.
  Variable P : bval -> Prop.
  Hypothesis Hint : forall z, P (BInt z).
  Hypothesis Hstr : forall s, P (BStr s).
  Hypothesis Hlist : forall l, Forall P l -> P (BList l).
  Hypothesis Hdict : forall d, Forall (fun kv => P (snd kv)) d -> P (BDict d).

  Fixpoint bval_ind' (v : bval) : P v :=
    match v with
    | BInt z => Hint z
    | BStr s => Hstr s
    | BList l =>
        Hlist l ((fix go (l : list bval) : Forall P l :=
                    match l with [] => Forall_nil _ | x :: l' => Forall_cons _ (bval_ind' x) (go l') end) l)
    | BDict d =>
        Hdict d ((fix go (d : list (bytes * bval)) : Forall (fun kv => P (snd kv)) d :=
                    match d with [] => Forall_nil _ | x :: d' => Forall_cons _ (bval_ind' (snd x)) (go d') end) d)
    end.
End BvalInd.

(* ---------------------------------------------------------------- the strict parser reads back benc *)
Lemma benc_length_pos v : (1 <= length (benc v))%nat.
Proof. destruct v; simpl; try lia. unfold benc_str. rewrite app_length. simpl. lia. Qed.

Definition dict_body (d : list (bytes * bval)) : bytes :=
  flat_map (fun kv => benc_str (fst kv) ++ benc (snd kv)) d.

Lemma benc_str_length_pos s : (1 <= length (benc_str s))%nat.
Proof. unfold benc_str. rewrite app_length. simpl. lia. Qed.

Theorem parse_value_benc v :
  canonb v = true ->
  forall fuel rest, (length (benc v) <= fuel)%nat ->
  parse_value_fuel fuel false (benc v ++ rest) = Some (v, rest).
Proof.
  induction v as [z|s|l IHl|d IHd] using bval_ind'; intros Hc fuel rest Hf.
  - (* int *)
    destruct fuel as [|f]; [pose proof (benc_length_pos (BInt z)); lia|].
    cbn [benc benc_int app parse_value_fuel].
    change (byte_eqb "i" ch_i) with true. cbv iota.
    rewrite <- app_assoc. simpl app.
    rewrite read_until_app by apply dec_Z_no_e.
    rewrite int_text_dec_Z. reflexivity.
  - (* string *)
    destruct fuel as [|f]; [pose proof (benc_length_pos (BStr s)); lia|].
    cbn [benc]. destruct (benc_str_head s) as (c & t & E & Hd).
    cbn [parse_value_fuel]. rewrite E. cbn [app].
    destruct (is_digit_chars c Hd) as (E1 & E2 & E3 & _). rewrite E1, E2, E3, Hd.
    rewrite (app_comm_cons t rest c), <- E.
    rewrite parse_str_tok_benc by exact Hc. reflexivity.
  - (* list *)
    cbn [canonb] in Hc.
    assert (L : forall l, Forall (fun v => canonb v = true ->
                  forall fuel rest, (length (benc v) <= fuel)%nat ->
                  parse_value_fuel fuel false (benc v ++ rest) = Some (v, rest)) l ->
                forallb canonb l = true ->
                forall fuel rest, (length (flat_map benc l) + 1 <= fuel)%nat ->
                parse_list_fuel fuel false (flat_map benc l ++ ch_e :: rest) = Some (l, rest)).
    { clear. induction l as [|x l IH]; intros HF Hc fuel rest Hf.
      - destruct fuel; [simpl in Hf; lia|]. simpl. reflexivity.
      - destruct fuel as [|f]; [lia|].
        apply Forall_cons_iff in HF. destruct HF as [Hx Hl].
        simpl in Hc. apply andb_prop in Hc. destruct Hc as [Hcx Hcl].
        cbn [flat_map]. rewrite <- app_assoc.
        pose proof (benc_length_pos x) as Lx.
        cbn [flat_map] in Hf. rewrite app_length in Hf.
        destruct (benc x ++ flat_map benc l ++ ch_e :: rest) as [|c r] eqn:Eb.
        { apply (f_equal (@length _)) in Eb. rewrite app_length in Eb. simpl in Eb. lia. }
        cbn [parse_list_fuel].
        assert (Ece : byte_eqb c ch_e = false).
        { destruct x; cbn [benc benc_int] in Eb; try (injection Eb as <- _; reflexivity).
          destruct (benc_str_head s) as (c' & t & E & Hd). rewrite E in Eb. injection Eb as <- _.
          apply (is_digit_chars _ Hd). }
        rewrite Ece, <- Eb.
        rewrite (Hx Hcx) by lia.
        rewrite (IH Hl Hcl) by lia. reflexivity. }
    destruct fuel as [|f]; [pose proof (benc_length_pos (BList l)); lia|].
    cbn [benc app parse_value_fuel].
    change (byte_eqb "l" ch_i) with false. change (byte_eqb "l" ch_l) with true. cbv iota.
    rewrite <- app_assoc. cbn [app].
    cbn [benc length] in Hf. rewrite app_length in Hf. simpl in Hf.
    rewrite (L l IHl Hc) by lia. reflexivity.
  - (* dict *)
    cbn [canonb] in Hc. apply andb_prop in Hc. destruct Hc as [Hk Hv].
    assert (L : forall d last, Forall (fun kv => canonb (snd kv) = true ->
                  forall fuel rest, (length (benc (snd kv)) <= fuel)%nat ->
                  parse_value_fuel fuel false (benc (snd kv) ++ rest) = Some (snd kv, rest)) d ->
                keys_asc last (map fst d) = true ->
                forallb (fun kv => str_ok (fst kv) && canonb (snd kv)) d = true ->
                forall fuel rest, (length (dict_body d) + 1 <= fuel)%nat ->
                parse_dict_fuel fuel false last (dict_body d ++ ch_e :: rest) = Some (d, rest)).
    { clear. induction d as [|[k v] d IH]; intros last HF Hk Hc fuel rest Hf.
      - destruct fuel; [simpl in Hf; lia|]. simpl. reflexivity.
      - destruct fuel as [|f]; [lia|].
        apply Forall_cons_iff in HF. destruct HF as [Hx Hl]. cbn [snd] in Hx.
        cbn [map fst keys_asc] in Hk. apply andb_prop in Hk. destruct Hk as [Hk1 Hk2].
        cbn [forallb fst snd] in Hc. apply andb_prop in Hc. destruct Hc as [Hc1 Hcl].
        apply andb_prop in Hc1. destruct Hc1 as [Hsk Hcv].
        unfold dict_body in *. cbn [flat_map fst snd] in *.
        rewrite <- !app_assoc.
        rewrite !app_length in Hf.
        pose proof (benc_length_pos v) as Lv. pose proof (benc_str_length_pos k) as Lk.
        destruct (benc_str_head k) as (c & t & E & Hd).
        cbn [parse_dict_fuel]. rewrite E. cbn [app].
        destruct (is_digit_chars c Hd) as (_ & _ & _ & E4). rewrite E4, Hd.
        rewrite (app_comm_cons t _ c), <- E.
        rewrite parse_str_tok_benc by exact Hsk.
        rewrite Hk1.
        rewrite (Hx Hcv) by lia.
        rewrite (IH (Some k) Hl Hk2 Hcl) by lia. reflexivity. }
    destruct fuel as [|f]; [pose proof (benc_length_pos (BDict d)); lia|].
    cbn [benc app parse_value_fuel].
    change (byte_eqb "d" ch_i) with false. change (byte_eqb "d" ch_l) with false.
    change (byte_eqb "d" ch_d) with true. cbv iota.
    rewrite <- app_assoc. cbn [app].
    cbn [benc length] in Hf. rewrite app_length in Hf. simpl in Hf.
    fold (dict_body d) in *.
    rewrite (L d None IHd Hk Hv) by lia. reflexivity.
Qed.

(* the top-level function, with its own fuel *)
Theorem parse_value_benc_top v rest : canonb v = true -> parse_value (benc v ++ rest) = Some (v, rest).
Proof.
  intros H. unfold parse_value, parse_value_d. apply parse_value_benc; [exact H|].
  rewrite app_length. lia.
Qed.

(* ================================================================================================
   Fuel: one-step unfoldings, monotonicity, and "the consumed length is enough fuel"
   ================================================================================================ *)
Lemma pv_S f dirty b :
  parse_value_fuel (S f) dirty b =
  match b with
  | [] => None
  | c :: r =>
      if byte_eqb c ch_i then
        if dirty then None
        else match read_until ch_e r with
             | None => None
             | Some (txt, r') => match int_text_any txt with Some z => Some (BInt z, r') | None => None end
             end
      else if byte_eqb c ch_l then
        match parse_list_fuel f dirty r with Some (l, r') => Some (BList l, r') | None => None end
      else if byte_eqb c ch_d then
        match parse_dict_fuel f dirty None r with Some (d, r') => Some (BDict d, r') | None => None end
      else if is_digit c then
        if dirty then None
        else match parse_str_tok b with Some (s, r') => Some (BStr s, r') | None => None end
      else None
  end.
Proof. reflexivity. Qed.

Lemma pl_S f dirty b :
  parse_list_fuel (S f) dirty b =
  match b with
  | [] => None
  | c :: r =>
      if byte_eqb c ch_e then Some ([], r)
      else match parse_value_fuel f dirty b with
           | None => None
           | Some (v, b1) =>
               match parse_list_fuel f dirty b1 with Some (l, b2) => Some (v :: l, b2) | None => None end
           end
  end.
Proof. reflexivity. Qed.

Lemma pd_S f dirty last b :
  parse_dict_fuel (S f) dirty last b =
  match b with
  | [] => None
  | c :: r =>
      if byte_eqb c ch_e then Some ([], r)
      else if is_digit c then
        if dirty then None
        else match parse_str_tok b with
             | None => None
             | Some (k, b1) =>
                 if key_after last k then
                   match parse_value_fuel f dirty b1 with
                   | None => None
                   | Some (v, b2) =>
                       match parse_dict_fuel f dirty (Some k) b2 with
                       | Some (d, b3) => Some ((k, v) :: d, b3)
                       | None => None
                       end
                   end
                 else None
             end
      else None
  end.
Proof. reflexivity. Qed.

Lemma parse_str_tok_spec b s r :
  parse_str_tok b = Some (s, r) -> exists pre, b = pre ++ r /\ pre <> [] /\ str_ok s = true.
Proof.
  unfold parse_str_tok. destruct (read_until ch_colon b) as [[txt r0]|] eqn:R; [|discriminate].
  destruct (check_buffered_int txt); [|discriminate].
  destruct (parse_udec txt) as [n|]; [|discriminate].
  destruct (N.leb_spec n max_str_len) as [Hn|]; [|discriminate].
  intros T. apply read_until_spec in R. destruct R as (-> & _).
  apply take_str_spec in T. destruct T as (-> & L).
  exists (txt ++ ch_colon :: s). split; [rewrite <- app_assoc; reflexivity|].
  split; [destruct txt; discriminate|]. unfold str_ok. apply N.leb_le. lia.
Qed.

Lemma parse_str_tok_ext b s r rest :
  parse_str_tok b = Some (s, r) -> parse_str_tok (b ++ rest) = Some (s, r ++ rest).
Proof.
  unfold parse_str_tok. destruct (read_until ch_colon b) as [[txt r0]|] eqn:R; [|discriminate].
  rewrite (read_until_ext _ _ _ _ rest R).
  destruct (check_buffered_int txt); [|discriminate].
  destruct (parse_udec txt) as [n|]; [|discriminate].
  destruct (N.leb n max_str_len); [|discriminate].
  apply take_str_ext.
Qed.

(* more fuel never changes a result *)
Lemma parse_mono f :
  (forall d b x, parse_value_fuel f d b = Some x -> parse_value_fuel (S f) d b = Some x) /\
  (forall d b x, parse_list_fuel f d b = Some x -> parse_list_fuel (S f) d b = Some x) /\
  (forall d last b x, parse_dict_fuel f d last b = Some x -> parse_dict_fuel (S f) d last b = Some x).
Proof.
  induction f as [|f (IHv & IHl & IHd)].
  - repeat split; intros; discriminate.
  - split; [|split].
    + intros d b x. rewrite (pv_S (S f)), (pv_S f). destruct b as [|c r]; [discriminate|].
      destruct (byte_eqb c ch_i); [auto|].
      destruct (byte_eqb c ch_l).
      { destruct (parse_list_fuel f d r) as [[l r']|] eqn:E; [|discriminate].
        rewrite (IHl _ _ _ E). auto. }
      destruct (byte_eqb c ch_d).
      { destruct (parse_dict_fuel f d None r) as [[l r']|] eqn:E; [|discriminate].
        rewrite (IHd _ _ _ _ E). auto. }
      auto.
    + intros d b x. rewrite (pl_S (S f)), (pl_S f). destruct b as [|c r]; [discriminate|].
      destruct (byte_eqb c ch_e); [auto|].
      destruct (parse_value_fuel f d (c :: r)) as [[v b1]|] eqn:E; [|discriminate].
      rewrite (IHv _ _ _ E).
      destruct (parse_list_fuel f d b1) as [[l b2]|] eqn:E2; [|discriminate].
      rewrite (IHl _ _ _ E2). auto.
    + intros d last b x. rewrite (pd_S (S f)), (pd_S f). destruct b as [|c r]; [discriminate|].
      destruct (byte_eqb c ch_e); [auto|].
      destruct (is_digit c); [|auto]. destruct d; [auto|].
      destruct (parse_str_tok (c :: r)) as [[k b1]|]; [|auto].
      destruct (key_after last k); [|auto].
      destruct (parse_value_fuel f false b1) as [[v b2]|] eqn:E; [|discriminate].
      rewrite (IHv _ _ _ E).
      destruct (parse_dict_fuel f false (Some k) b2) as [[dd b3]|] eqn:E2; [|discriminate].
      rewrite (IHd _ _ _ _ E2). auto.
Qed.

Lemma parse_value_mono_le f f' d b x :
  (f <= f')%nat -> parse_value_fuel f d b = Some x -> parse_value_fuel f' d b = Some x.
Proof. intros Hle; induction Hle; [auto|]. intros H0. apply parse_mono. auto. Qed.
Lemma parse_list_mono_le f f' d b x :
  (f <= f')%nat -> parse_list_fuel f d b = Some x -> parse_list_fuel f' d b = Some x.
Proof. intros Hle; induction Hle; [auto|]. intros H0. apply parse_mono. auto. Qed.
Lemma parse_dict_mono_le f f' d last b x :
  (f <= f')%nat -> parse_dict_fuel f d last b = Some x -> parse_dict_fuel f' d last b = Some x.
Proof. intros Hle; induction Hle; [auto|]. intros H0. apply parse_mono. auto. Qed.

(* a successful parse consumed a prefix, and that prefix's length is enough fuel *)
Lemma parse_consumed f :
  (forall d b v r, parse_value_fuel f d b = Some (v, r) ->
     exists pre, b = pre ++ r /\ parse_value_fuel (length pre) d b = Some (v, r)) /\
  (forall d b l r, parse_list_fuel f d b = Some (l, r) ->
     exists pre, b = pre ++ r /\ parse_list_fuel (length pre) d b = Some (l, r)) /\
  (forall d last b l r, parse_dict_fuel f d last b = Some (l, r) ->
     exists pre, b = pre ++ r /\ parse_dict_fuel (length pre) d last b = Some (l, r)).
Proof.
  induction f as [|f (IHv & IHl & IHd)].
  - repeat split; intros; discriminate.
  - split; [|split].
    + intros d b v r. rewrite pv_S. destruct b as [|c r0]; [discriminate|].
      destruct (byte_eqb c ch_i) eqn:Ei.
      { destruct d; [discriminate|].
        destruct (read_until ch_e r0) as [[txt r']|] eqn:R; [|discriminate].
        destruct (int_text_any txt) as [z|] eqn:T; [|discriminate]. intros [= <- <-].
        pose proof (read_until_spec _ _ _ _ R) as (-> & _).
        exists (c :: txt ++ [ch_e]). split; [simpl; rewrite <- app_assoc; reflexivity|].
        cbn [length]. rewrite pv_S, Ei, R, T. reflexivity. }
      destruct (byte_eqb c ch_l) eqn:El.
      { destruct (parse_list_fuel f d r0) as [[l r']|] eqn:E; [|discriminate]. intros [= <- <-].
        destruct (IHl _ _ _ _ E) as (pre & -> & P).
        exists (c :: pre). split; [reflexivity|]. cbn [length]. rewrite pv_S, Ei, El, P. reflexivity. }
      destruct (byte_eqb c ch_d) eqn:Ed.
      { destruct (parse_dict_fuel f d None r0) as [[l r']|] eqn:E; [|discriminate]. intros [= <- <-].
        destruct (IHd _ _ _ _ _ E) as (pre & -> & P).
        exists (c :: pre). split; [reflexivity|]. cbn [length]. rewrite pv_S, Ei, El, Ed, P. reflexivity. }
      destruct (is_digit c) eqn:Edg; [|discriminate]. destruct d; [discriminate|].
      destruct (parse_str_tok (c :: r0)) as [[s r']|] eqn:T; [|discriminate]. intros [= <- <-].
      destruct (parse_str_tok_spec _ _ _ T) as (pre & E & Hne & _).
      exists pre. split; [exact E|].
      destruct pre as [|p pre']; [congruence|]. cbn [length].
      rewrite pv_S, Ei, El, Ed, Edg, T. reflexivity.
    + intros d b l r. rewrite pl_S. destruct b as [|c r0]; [discriminate|].
      destruct (byte_eqb c ch_e) eqn:Ee.
      { intros [= <- <-]. exists [c]. split; [reflexivity|]. cbn [length]. rewrite pl_S, Ee. reflexivity. }
      destruct (parse_value_fuel f d (c :: r0)) as [[v b1]|] eqn:E; [|discriminate].
      destruct (parse_list_fuel f d b1) as [[l' b2]|] eqn:E2; [|discriminate]. intros [= <- <-].
      destruct (IHv _ _ _ _ E) as (p1 & E1 & P1). destruct (IHl _ _ _ _ E2) as (p2 & -> & P2).
      exists (p1 ++ p2). split; [rewrite <- app_assoc; exact E1|].
      destruct p1 as [|x1 p1']; [simpl in P1; discriminate|].
      destruct p2 as [|x2 p2']; [simpl in P2; discriminate|].
      rewrite app_length. cbn [length]. rewrite Nat.add_succ_r.
      change (S (S (length p1') + length p2')) with (S (S (length p1' + length p2'))).
      rewrite pl_S, Ee.
      erewrite (parse_value_mono_le _ (S (length p1' + length p2'))); [| | exact P1]; [| cbn [length]; lia].
      cbv beta iota.
      erewrite (parse_list_mono_le _ (S (length p1' + length p2'))); [| | exact P2]; [| cbn [length]; lia].
      reflexivity.
    + intros d last b l r. rewrite pd_S. destruct b as [|c r0]; [discriminate|].
      destruct (byte_eqb c ch_e) eqn:Ee.
      { intros [= <- <-]. exists [c]. split; [reflexivity|]. cbn [length]. rewrite pd_S, Ee. reflexivity. }
      destruct (is_digit c) eqn:Edg; [|discriminate]. destruct d; [discriminate|].
      destruct (parse_str_tok (c :: r0)) as [[k b1]|] eqn:T; [|discriminate].
      destruct (key_after last k) eqn:K; [|discriminate].
      destruct (parse_value_fuel f false b1) as [[v b2]|] eqn:E; [|discriminate].
      destruct (parse_dict_fuel f false (Some k) b2) as [[dd b3]|] eqn:E2; [|discriminate]. intros [= <- <-].
      destruct (parse_str_tok_spec _ _ _ T) as (p0 & E0 & Hne & _).
      destruct (IHv _ _ _ _ E) as (p1 & -> & P1). destruct (IHd _ _ _ _ _ E2) as (p2 & -> & P2).
      exists (p0 ++ p1 ++ p2). split; [rewrite <- !app_assoc; exact E0|].
      destruct p0 as [|x0 p0']; [congruence|].
      destruct p1 as [|x1 p1']; [simpl in P1; discriminate|].
      destruct p2 as [|x2 p2']; [simpl in P2; discriminate|].
      rewrite !app_length. cbn [length].
      replace (S (length p0') + (S (length p1') + S (length p2')))%nat
        with (S (S (S (length p0' + length p1' + length p2')))) by lia.
      rewrite pd_S, Ee, Edg, T, K.
      erewrite (parse_value_mono_le _ (S (S (length p0' + length p1' + length p2')))); [| | exact P1]; [| cbn [length]; lia].
      cbv beta iota.
      erewrite (parse_dict_mono_le _ (S (S (length p0' + length p1' + length p2')))); [| | exact P2]; [| cbn [length]; lia].
      reflexivity.
Qed.

(* fuel = length of the input suffices: any larger fuel gives the same result *)
Theorem parse_value_fuel_enough f d b :
  (length b <= f)%nat -> parse_value_fuel f d b = parse_value_fuel (length b) d b.
Proof.
  intros Hf. destruct (parse_value_fuel f d b) as [[v r]|] eqn:E.
  - destruct (proj1 (parse_consumed f) _ _ _ _ E) as (pre & Eb & P).
    symmetry. eapply parse_value_mono_le; [|exact P]. rewrite Eb, app_length. lia.
  - destruct (parse_value_fuel (length b) d b) as [x|] eqn:E2; [|reflexivity].
    rewrite (parse_value_mono_le _ f _ _ _ Hf E2) in E. discriminate.
Qed.

Theorem parse_value_d_spec d b v r :
  parse_value_d d b = Some (v, r) -> exists pre, b = pre ++ r /\ pre <> [].
Proof.
  unfold parse_value_d. intros H.
  destruct (proj1 (parse_consumed _) _ _ _ _ H) as (pre & E & P).
  exists pre. split; [exact E|]. destruct pre; [simpl in P; discriminate | discriminate].
Qed.

(* appending bytes after a parsed value does not disturb it *)
Lemma parse_ext f :
  (forall d b v r rest, parse_value_fuel f d b = Some (v, r) -> parse_value_fuel f d (b ++ rest) = Some (v, r ++ rest)) /\
  (forall d b l r rest, parse_list_fuel f d b = Some (l, r) -> parse_list_fuel f d (b ++ rest) = Some (l, r ++ rest)) /\
  (forall d last b l r rest, parse_dict_fuel f d last b = Some (l, r) -> parse_dict_fuel f d last (b ++ rest) = Some (l, r ++ rest)).
Proof.
  induction f as [|f (IHv & IHl & IHd)].
  - repeat split; intros; discriminate.
  - split; [|split].
    + intros d b v r rest. rewrite !pv_S. destruct b as [|c r0]; [discriminate|]. cbn [app].
      destruct (byte_eqb c ch_i).
      { destruct d; [discriminate|].
        destruct (read_until ch_e r0) as [[txt r']|] eqn:R; [|discriminate].
        rewrite (read_until_ext _ _ _ _ rest R).
        destruct (int_text_any txt); [|discriminate]. intros [= <- <-]. reflexivity. }
      destruct (byte_eqb c ch_l).
      { destruct (parse_list_fuel f d r0) as [[l r']|] eqn:E; [|discriminate]. intros [= <- <-].
        rewrite (IHl _ _ _ _ rest E). reflexivity. }
      destruct (byte_eqb c ch_d).
      { destruct (parse_dict_fuel f d None r0) as [[l r']|] eqn:E; [|discriminate]. intros [= <- <-].
        rewrite (IHd _ _ _ _ _ rest E). reflexivity. }
      destruct (is_digit c); [|discriminate]. destruct d; [discriminate|].
      destruct (parse_str_tok (c :: r0)) as [[s r']|] eqn:T; [|discriminate]. intros [= <- <-].
      change (c :: r0 ++ rest) with ((c :: r0) ++ rest).
      rewrite (parse_str_tok_ext _ _ _ rest T). reflexivity.
    + intros d b l r rest. rewrite !pl_S. destruct b as [|c r0]; [discriminate|]. cbn [app].
      destruct (byte_eqb c ch_e); [intros [= <- <-]; reflexivity|].
      destruct (parse_value_fuel f d (c :: r0)) as [[v b1]|] eqn:E; [|discriminate].
      destruct (parse_list_fuel f d b1) as [[l' b2]|] eqn:E2; [|discriminate]. intros [= <- <-].
      change (c :: r0 ++ rest) with ((c :: r0) ++ rest).
      rewrite (IHv _ _ _ _ rest E), (IHl _ _ _ _ rest E2). reflexivity.
    + intros d last b l r rest. rewrite !pd_S. destruct b as [|c r0]; [discriminate|]. cbn [app].
      destruct (byte_eqb c ch_e); [intros [= <- <-]; reflexivity|].
      destruct (is_digit c); [|discriminate]. destruct d; [discriminate|].
      destruct (parse_str_tok (c :: r0)) as [[k b1]|] eqn:T; [|discriminate].
      change (c :: r0 ++ rest) with ((c :: r0) ++ rest).
      rewrite (parse_str_tok_ext _ _ _ rest T).
      destruct (key_after last k); [|discriminate].
      destruct (parse_value_fuel f false b1) as [[v b2]|] eqn:E; [|discriminate].
      destruct (parse_dict_fuel f false (Some k) b2) as [[dd b3]|] eqn:E2; [|discriminate]. intros [= <- <-].
      rewrite (IHv _ _ _ _ rest E), (IHd _ _ _ _ _ rest E2). reflexivity.
Qed.

(* ================================================================================================
   What the strict parser returns is canonical, and its canonical encoding is what it consumed
   ================================================================================================ *)
Lemma parse_canon f :
  (forall d b v r, parse_value_fuel f d b = Some (v, r) -> canonb v = true) /\
  (forall d b l r, parse_list_fuel f d b = Some (l, r) -> forallb canonb l = true) /\
  (forall d last b l r, parse_dict_fuel f d last b = Some (l, r) ->
     keys_asc last (map fst l) = true /\ forallb (fun kv => str_ok (fst kv) && canonb (snd kv)) l = true).
Proof.
  induction f as [|f (IHv & IHl & IHd)].
  - repeat split; intros; discriminate.
  - split; [|split].
    + intros d b v r. rewrite pv_S. destruct b as [|c r0]; [discriminate|].
      destruct (byte_eqb c ch_i).
      { destruct d; [discriminate|]. destruct (read_until ch_e r0) as [[txt r']|]; [|discriminate].
        destruct (int_text_any txt); [|discriminate]. intros [= <- <-]. reflexivity. }
      destruct (byte_eqb c ch_l).
      { destruct (parse_list_fuel f d r0) as [[l r']|] eqn:E; [|discriminate]. intros [= <- <-].
        exact (IHl _ _ _ _ E). }
      destruct (byte_eqb c ch_d).
      { destruct (parse_dict_fuel f d None r0) as [[l r']|] eqn:E; [|discriminate]. intros [= <- <-].
        destruct (IHd _ _ _ _ _ E) as (K & V). cbn [canonb]. rewrite K, V. reflexivity. }
      destruct (is_digit c); [|discriminate]. destruct d; [discriminate|].
      destruct (parse_str_tok (c :: r0)) as [[s r']|] eqn:T; [|discriminate]. intros [= <- <-].
      destruct (parse_str_tok_spec _ _ _ T) as (_ & _ & _ & Hs). exact Hs.
    + intros d b l r. rewrite pl_S. destruct b as [|c r0]; [discriminate|].
      destruct (byte_eqb c ch_e); [intros [= <- <-]; reflexivity|].
      destruct (parse_value_fuel f d (c :: r0)) as [[v b1]|] eqn:E; [|discriminate].
      destruct (parse_list_fuel f d b1) as [[l' b2]|] eqn:E2; [|discriminate]. intros [= <- <-].
      cbn [forallb]. rewrite (IHv _ _ _ _ E), (IHl _ _ _ _ E2). reflexivity.
    + intros d last b l r. rewrite pd_S. destruct b as [|c r0]; [discriminate|].
      destruct (byte_eqb c ch_e); [intros [= <- <-]; split; reflexivity|].
      destruct (is_digit c); [|discriminate]. destruct d; [discriminate|].
      destruct (parse_str_tok (c :: r0)) as [[k b1]|] eqn:T; [|discriminate].
      destruct (key_after last k) eqn:K; [|discriminate].
      destruct (parse_value_fuel f false b1) as [[v b2]|] eqn:E; [|discriminate].
      destruct (parse_dict_fuel f false (Some k) b2) as [[dd b3]|] eqn:E2; [|discriminate]. intros [= <- <-].
      destruct (IHd _ _ _ _ _ E2) as (K2 & V2).
      destruct (parse_str_tok_spec _ _ _ T) as (_ & _ & _ & Hs).
      cbn [map fst snd keys_asc forallb]. rewrite K, K2, Hs, (IHv _ _ _ _ E), V2. split; reflexivity.
Qed.

Theorem parse_value_d_canon d b v r : parse_value_d d b = Some (v, r) -> canonb v = true.
Proof. apply (proj1 (parse_canon _)). Qed.

Theorem parse_value_canon b v r : parse_value b = Some (v, r) -> canonb v = true.
Proof. apply (proj1 (parse_canon _)). Qed.

(* ================================================================================================
   The raw scanner
   ================================================================================================ *)
Lemma sv_S f b :
  scan_value_fuel (S f) b =
  match b with
  | [] => None
  | c :: r =>
      if byte_eqb c ch_d || byte_eqb c ch_l then
        match scan_items_fuel f r with Some (body, r') => Some (c :: body, r') | None => None end
      else if byte_eqb c ch_i then
        match read_until ch_e r with Some (txt, r') => Some (c :: txt ++ [ch_e], r') | None => None end
      else if is_digit c then
        match read_until ch_colon b with
        | None => None
        | Some (txt, r1) =>
            match parse_udec txt with
            | None => None
            | Some n =>
                if Z.leb (Z.of_N n) int64_max then
                  match take_str n r1 with Some (s, r2) => Some (txt ++ ch_colon :: s, r2) | None => None end
                else None
            end
        end
      else None
  end.
Proof. reflexivity. Qed.

Lemma si_S f b :
  scan_items_fuel (S f) b =
  match b with
  | [] => None
  | c :: r =>
      if byte_eqb c ch_e then Some ([ch_e], r)
      else match scan_value_fuel f b with
           | None => None
           | Some (raw, b1) =>
               match scan_items_fuel f b1 with Some (body, b2) => Some (raw ++ body, b2) | None => None end
           end
  end.
Proof. reflexivity. Qed.

Lemma scan_mono f :
  (forall b x, scan_value_fuel f b = Some x -> scan_value_fuel (S f) b = Some x) /\
  (forall b x, scan_items_fuel f b = Some x -> scan_items_fuel (S f) b = Some x).
Proof.
  induction f as [|f (IHv & IHi)].
  - split; intros; discriminate.
  - split.
    + intros b x. rewrite (sv_S (S f)), (sv_S f). destruct b as [|c r]; [discriminate|].
      destruct (byte_eqb c ch_d || byte_eqb c ch_l).
      { destruct (scan_items_fuel f r) as [[body r']|] eqn:E; [|discriminate]. rewrite (IHi _ _ E). auto. }
      auto.
    + intros b x. rewrite (si_S (S f)), (si_S f). destruct b as [|c r]; [discriminate|].
      destruct (byte_eqb c ch_e); [auto|].
      destruct (scan_value_fuel f (c :: r)) as [[raw b1]|] eqn:E; [|discriminate]. rewrite (IHv _ _ E).
      destruct (scan_items_fuel f b1) as [[body b2]|] eqn:E2; [|discriminate]. rewrite (IHi _ _ E2). auto.
Qed.

Lemma scan_value_mono_le f f' b x : (f <= f')%nat -> scan_value_fuel f b = Some x -> scan_value_fuel f' b = Some x.
Proof. intros Hle; induction Hle; [auto|]. intros H0. apply scan_mono. auto. Qed.
Lemma scan_items_mono_le f f' b x : (f <= f')%nat -> scan_items_fuel f b = Some x -> scan_items_fuel f' b = Some x.
Proof. intros Hle; induction Hle; [auto|]. intros H0. apply scan_mono. auto. Qed.

(* the scanner returns the consumed prefix itself; that prefix alone scans to itself with fuel = its
   length; and bytes appended after it do not matter *)
Lemma scan_consumed f :
  (forall b raw r, scan_value_fuel f b = Some (raw, r) ->
     b = raw ++ r /\ scan_value_fuel (length raw) raw = Some (raw, []) /\
     (forall rest, scan_value_fuel (length raw) (raw ++ rest) = Some (raw, rest))) /\
  (forall b body r, scan_items_fuel f b = Some (body, r) ->
     b = body ++ r /\ scan_items_fuel (length body) body = Some (body, []) /\
     (forall rest, scan_items_fuel (length body) (body ++ rest) = Some (body, rest))).
Proof.
  induction f as [|f (IHv & IHi)].
  - split; intros; discriminate.
  - split.
    + intros b raw r. rewrite sv_S. destruct b as [|c r0]; [discriminate|].
      destruct (byte_eqb c ch_d || byte_eqb c ch_l) eqn:Edl.
      { destruct (scan_items_fuel f r0) as [[body r']|] eqn:E; [|discriminate]. intros [= <- <-].
        destruct (IHi _ _ _ E) as (-> & P1 & P2).
        split; [reflexivity|]. cbn [length].
        split; [|intros rest]; rewrite sv_S; cbn [app]; rewrite Edl.
        - rewrite P1. reflexivity.
        - rewrite P2. reflexivity. }
      destruct (byte_eqb c ch_i) eqn:Ei.
      { destruct (read_until ch_e r0) as [[txt r']|] eqn:R; [|discriminate]. intros [= <- <-].
        pose proof (read_until_spec _ _ _ _ R) as (-> & Hn).
        split; [simpl; rewrite <- app_assoc; reflexivity|]. cbn [length].
        split; [|intros rest]; rewrite sv_S; cbn [app]; rewrite Edl, Ei.
        - rewrite (read_until_app ch_e txt [] Hn). reflexivity.
        - rewrite <- app_assoc. cbn [app]. rewrite (read_until_app ch_e txt rest Hn). reflexivity. }
      destruct (is_digit c) eqn:Edg; [|discriminate].
      destruct (read_until ch_colon (c :: r0)) as [[txt r1]|] eqn:R; [|discriminate].
      destruct (parse_udec txt) as [n|] eqn:U; [|discriminate].
      destruct (Z.leb (Z.of_N n) int64_max) eqn:I; [|discriminate].
      destruct (take_str n r1) as [[s r2]|] eqn:T; [|discriminate]. intros [= <- <-].
      pose proof (read_until_spec _ _ _ _ R) as (Eb & Hn).
      pose proof (take_str_spec _ _ _ _ T) as (-> & L).
      split; [rewrite Eb, <- app_assoc; reflexivity|].
      destruct txt as [|t0 txt']; [discriminate|].
      cbn [app] in Eb. injection Eb as <- _.
      assert (Hlen : length ((c :: txt') ++ ch_colon :: s) = S (length (txt' ++ ch_colon :: s))) by reflexivity.
      rewrite Hlen.
      split; [|intros rest]; rewrite sv_S; cbn [app]; rewrite Edl, Ei, Edg.
      * change (c :: txt' ++ ch_colon :: s) with ((c :: txt') ++ ch_colon :: s).
        rewrite (read_until_app ch_colon (c :: txt') s Hn), U, I.
        subst n. pose proof (take_str_app s []) as TT. rewrite app_nil_r in TT. rewrite TT. reflexivity.
      * replace ((c :: (txt' ++ ch_colon :: s) ++ rest)) with ((c :: txt') ++ ch_colon :: (s ++ rest))
          by (cbn [app]; rewrite <- app_assoc; reflexivity).
        rewrite (read_until_app ch_colon (c :: txt') (s ++ rest) Hn), U, I.
        subst n. rewrite take_str_app. reflexivity.
    + intros b body r. rewrite si_S. destruct b as [|c r0]; [discriminate|].
      destruct (byte_eqb c ch_e) eqn:Ee.
      { intros [= <- <-]. apply byte_eqb_eq in Ee. subst c.
        split; [reflexivity|]. split; [reflexivity | intros rest; reflexivity]. }
      destruct (scan_value_fuel f (c :: r0)) as [[raw b1]|] eqn:E; [|discriminate].
      destruct (scan_items_fuel f b1) as [[body' b2]|] eqn:E2; [|discriminate]. intros [= <- <-].
      destruct (IHv _ _ _ E) as (E1 & P1 & Q1). destruct (IHi _ _ _ E2) as (-> & P2 & Q2).
      split; [rewrite <- app_assoc; exact E1|].
      destruct raw as [|x1 raw']; [simpl in P1; discriminate|].
      destruct body' as [|x2 body'']; [simpl in P2; discriminate|].
      assert (Hc : x1 = c) by (cbn [app] in E1; congruence). subst x1.
      assert (Hlen : length ((c :: raw') ++ x2 :: body'') = S (S (length raw' + length body''))).
      { rewrite app_length. cbn [length]. lia. }
      rewrite Hlen.
      split; [|intros rest]; rewrite si_S; cbn [app]; rewrite Ee.
      * change (c :: raw' ++ x2 :: body'') with ((c :: raw') ++ x2 :: body'').
        erewrite (scan_value_mono_le _ (S (length raw' + length body''))); [| | exact (Q1 (x2 :: body''))]; [| cbn [length]; lia].
        cbv beta iota.
        erewrite (scan_items_mono_le _ (S (length raw' + length body''))); [| | exact P2]; [| cbn [length]; lia].
        reflexivity.
      * replace (c :: (raw' ++ x2 :: body'') ++ rest) with ((c :: raw') ++ (x2 :: body'') ++ rest)
          by (cbn [app]; rewrite <- app_assoc; reflexivity).
        erewrite (scan_value_mono_le _ (S (length raw' + length body''))); [| | exact (Q1 ((x2 :: body'') ++ rest))]; [| cbn [length]; lia].
        cbv beta iota.
        erewrite (scan_items_mono_le _ (S (length raw' + length body''))); [| | exact (Q2 rest)]; [| cbn [length]; lia].
        reflexivity.
Qed.

Theorem scan_value_fuel_enough f b : (length b <= f)%nat -> scan_value_fuel f b = scan_value_fuel (length b) b.
Proof.
  intros Hf. destruct (scan_value_fuel f b) as [[raw r]|] eqn:E.
  - destruct (proj1 (scan_consumed f) _ _ _ E) as (Eb & _ & Q).
    symmetry. rewrite Eb. eapply scan_value_mono_le; [|exact (Q r)]. rewrite app_length. lia.
  - destruct (scan_value_fuel (length b) b) as [x|] eqn:E2; [|reflexivity].
    rewrite (scan_value_mono_le _ f _ _ Hf E2) in E. discriminate.
Qed.

(* one raw value: a byte string that the scanner consumes exactly *)
Definition one_raw_value (raw : bytes) : Prop := scan_value raw = Some (raw, []).

Theorem scan_value_spec b raw r :
  scan_value b = Some (raw, r) -> b = raw ++ r /\ raw <> [] /\ one_raw_value raw.
Proof.
  unfold scan_value, one_raw_value. intros H.
  destruct (proj1 (scan_consumed _) _ _ _ H) as (E & P & _).
  split; [exact E|]. split; [destruct raw; [simpl in P; discriminate | discriminate] | exact P].
Qed.

Theorem scan_value_raw_app raw rest : one_raw_value raw -> scan_value (raw ++ rest) = Some (raw, rest).
Proof.
  unfold one_raw_value, scan_value. intros H.
  destruct (proj1 (scan_consumed _) _ _ _ H) as (_ & _ & Q).
  eapply scan_value_mono_le; [|exact (Q rest)]. rewrite app_length. lia.
Qed.

