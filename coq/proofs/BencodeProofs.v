(* BencodeProofs.v — proofs about model/Bencode.v: tokens, decimal round trip, the strict value
   parser reads back what `benc` writes, fuel = input length suffices, the raw scanner. *)
From Dht Require Import Base Msg Bencode Int160Proofs.
From Coq Require Import Lia ZifyN ZifyNat ZifyBool Arith.
Local Open Scope N_scope.

(* ---------------------------------------------------------------- bytes *)
Lemma byte_eqb_eq a b : byte_eqb a b = true <-> a = b.
Proof.
  unfold byte_eqb. rewrite N.eqb_eq. split; [apply to_N_inj | intros ->; reflexivity].
Qed.
Lemma byte_eqb_refl a : byte_eqb a a = true.
Proof. apply byte_eqb_eq. reflexivity. Qed.
Lemma byte_eqb_neq a b : byte_eqb a b = false <-> a <> b.
Proof.
  destruct (byte_eqb a b) eqn:E.
  - apply byte_eqb_eq in E. split; [discriminate | congruence].
  - split; [intros _ H; apply byte_eqb_eq in H; congruence | reflexivity].
Qed.
Lemma bytes_eqb_refl a : bytes_eqb a a = true.
Proof. apply bytes_eqb_eq. reflexivity. Qed.

(* ---------------------------------------------------------------- read_until *)
Lemma read_until_app sep s r :
  ~ In sep s -> read_until sep (s ++ sep :: r) = Some (s, r).
Proof.
  induction s as [|x s IH]; simpl; intros H.
  - rewrite byte_eqb_refl. reflexivity.
  - destruct (byte_eqb x sep) eqn:E.
    + apply byte_eqb_eq in E. subst. exfalso. apply H. left. reflexivity.
    + rewrite IH; [reflexivity|]. intros Hin. apply H. right. exact Hin.
Qed.

Lemma read_until_spec sep b s r :
  read_until sep b = Some (s, r) -> b = s ++ sep :: r /\ ~ In sep s.
Proof.
  revert s r. induction b as [|x b IH]; simpl; intros s r; [discriminate|].
  destruct (byte_eqb x sep) eqn:E.
  - intros [= <- <-]. apply byte_eqb_eq in E. subst. split; [reflexivity | intros []].
  - destruct (read_until sep b) as [[s' r']|] eqn:R; [|discriminate].
    intros [= <- <-]. destruct (IH _ _ eq_refl) as (-> & Hn).
    split; [reflexivity|]. intros [->|Hin]; [|exact (Hn Hin)].
    rewrite byte_eqb_refl in E. discriminate.
Qed.

Lemma read_until_ext sep b s r rest :
  read_until sep b = Some (s, r) -> read_until sep (b ++ rest) = Some (s, r ++ rest).
Proof.
  intros H. apply read_until_spec in H. destruct H as (-> & Hn).
  rewrite <- app_assoc. simpl. apply read_until_app. exact Hn.
Qed.

(* ---------------------------------------------------------------- take_str *)
Lemma take_str_app s r : take_str (N.of_nat (length s)) (s ++ r) = Some (s, r).
Proof.
  induction s as [|x s IH].
  - simpl. destruct r; reflexivity.
  - cbn [length app take_str].
    destruct (N.eqb_spec (N.of_nat (S (length s))) 0); [lia|].
    replace (N.pred (N.of_nat (S (length s)))) with (N.of_nat (length s)) by lia.
    rewrite IH. reflexivity.
Qed.

Lemma take_str_spec n b s r :
  take_str n b = Some (s, r) -> b = s ++ r /\ N.of_nat (length s) = n.
Proof.
  revert n s r. induction b as [|x b IH]; intros n s r.
  - simpl. destruct (N.eqb_spec n 0); [|discriminate]. intros [= <- <-]. split; [reflexivity | simpl; lia].
  - cbn [take_str]. destruct (N.eqb_spec n 0).
    + intros [= <- <-]. split; [reflexivity | simpl; lia].
    + destruct (take_str (N.pred n) b) as [[s' t]|] eqn:T; [|discriminate].
      intros [= <- <-]. destruct (IH _ _ _ T) as (-> & L). split; [reflexivity | simpl; lia].
Qed.

Lemma take_str_ext n b s r rest : take_str n b = Some (s, r) -> take_str n (b ++ rest) = Some (s, r ++ rest).
Proof.
  intros H. apply take_str_spec in H. destruct H as (-> & <-).
  rewrite <- app_assoc. apply take_str_app.
Qed.

(* ---------------------------------------------------------------- decimal digits *)
Definition all_digits (s : bytes) : Prop := Forall (fun c => is_digit c = true) s.

Lemma digit_byte_to_N d : d < 10 -> Byte.to_N (digit_byte d) = 48 + d.
Proof. intros H. unfold digit_byte. rewrite to_N_byte_of_N. apply N.mod_small. lia. Qed.

Lemma digit_byte_is_digit d : d < 10 -> is_digit (digit_byte d) = true.
Proof. intros H. unfold is_digit. rewrite digit_byte_to_N by exact H. lia. Qed.

Lemma digit_byte_val d : d < 10 -> digit_val (digit_byte d) = d.
Proof. intros H. unfold digit_val. rewrite digit_byte_to_N by exact H. lia. Qed.

Lemma digit_byte_19 d : 0 < d -> d < 10 -> is_19 (digit_byte d) = true.
Proof. intros H0 H. unfold is_19. rewrite digit_byte_to_N by exact H. lia. Qed.

(* value of a digit string, most significant first *)
Definition dval (s : bytes) : N := fold_left (fun a c => a * 10 + digit_val c) s 0.

Lemma digits_val_spec s : all_digits s -> forall a, digits_val a s = Some (fold_left (fun a c => a * 10 + digit_val c) s a).
Proof.
  induction 1 as [|c s Hc Hs IH]; intros a; simpl; [reflexivity|].
  rewrite Hc. apply IH.
Qed.

Lemma fold_digits_app s t a :
  fold_left (fun a c => a * 10 + digit_val c) (s ++ t) a =
  fold_left (fun a c => a * 10 + digit_val c) t (fold_left (fun a c => a * 10 + digit_val c) s a).
Proof. apply fold_left_app. Qed.

Lemma dec_pos_fuel_S f n acc :
  dec_pos_fuel (S f) n acc =
  if N.ltb n 10 then digit_byte n :: acc else dec_pos_fuel f (n / 10) (digit_byte (n mod 10) :: acc).
Proof. reflexivity. Qed.

(* dec_pos_fuel writes the digits of n in front of acc *)
Lemma dec_pos_fuel_spec f : forall n acc, n < 2 ^ N.of_nat f ->
  exists s, dec_pos_fuel (S f) n acc = s ++ acc /\ all_digits s /\ s <> [] /\ dval s = n /\
            (0 < n -> exists c s', s = c :: s' /\ is_19 c = true).
Proof.
  induction f as [|f IH]; intros n acc Hn.
  - simpl in Hn. assert (n = 0) by lia. subst. exists [digit_byte 0].
    split; [reflexivity|]. split; [|split; [|split]].
    + constructor; [apply digit_byte_is_digit; lia | constructor].
    + discriminate.
    + unfold dval. simpl. rewrite digit_byte_val; lia.
    + intros; lia.
  - rewrite dec_pos_fuel_S. destruct (N.ltb_spec n 10) as [Hlt|Hge].
    + exists [digit_byte n]. split; [reflexivity|]. split; [|split; [|split]].
      * constructor; [apply digit_byte_is_digit; lia | constructor].
      * discriminate.
      * unfold dval. simpl. rewrite digit_byte_val; lia.
      * intros Hp. exists (digit_byte n), []. split; [reflexivity | apply digit_byte_19; lia].
    + assert (Hd : n / 10 < 2 ^ N.of_nat f).
      { apply N.div_lt_upper_bound; [lia|].
        replace (N.of_nat (S f)) with (N.succ (N.of_nat f)) in Hn by lia.
        rewrite N.pow_succ_r' in Hn. lia. }
      destruct (IH (n / 10) (digit_byte (n mod 10) :: acc) Hd) as (s & E & Hs & Hne & Hv & Hh).
      assert (Hm : n mod 10 < 10) by (apply N.mod_lt; lia).
      exists (s ++ [digit_byte (n mod 10)]).
      rewrite E, <- app_assoc. split; [reflexivity|]. split; [|split; [|split]].
      * apply Forall_app. split; [exact Hs|]. constructor; [apply digit_byte_is_digit; exact Hm | constructor].
      * destruct s; discriminate.
      * unfold dval in *. rewrite fold_digits_app, Hv. simpl. rewrite digit_byte_val by exact Hm.
        pose proof (N.div_mod n 10 ltac:(lia)). lia.
      * intros _. destruct Hh as (c & s' & -> & Hc).
        { apply N.div_str_pos. lia. }
        exists c, (s' ++ [digit_byte (n mod 10)]). split; [reflexivity | exact Hc].
Qed.

Lemma dec_N_spec n :
  all_digits (dec_N n) /\ dec_N n <> [] /\ dval (dec_N n) = n /\
  (0 < n -> exists c s', dec_N n = c :: s' /\ is_19 c = true).
Proof.
  unfold dec_N.
  destruct (dec_pos_fuel_spec (N.to_nat (N.size n)) n []) as (s & E & H).
  { rewrite N2Nat.id. apply N.size_gt. }
  rewrite E, app_nil_r. exact H.
Qed.

Lemma dec_N_0 : dec_N 0 = [digit_byte 0].
Proof. reflexivity. Qed.

Theorem parse_udec_dec_N n : parse_udec (dec_N n) = Some n.
Proof.
  destruct (dec_N_spec n) as (Hd & Hne & Hv & _).
  unfold parse_udec. destruct (dec_N n) eqn:E; [congruence|].
  rewrite <- E in *. rewrite digits_val_spec by exact Hd. f_equal. exact Hv.
Qed.

Lemma is_digit_not c x : is_digit c = true -> is_digit x = false -> c <> x.
Proof. intros H1 H2 ->. congruence. Qed.

Lemma all_digits_not_in s x : all_digits s -> is_digit x = false -> ~ In x s.
Proof.
  intros H Hx Hin. unfold all_digits in H. rewrite Forall_forall in H. apply H in Hin. congruence.
Qed.

Lemma dec_N_no_colon n : ~ In ch_colon (dec_N n).
Proof. apply all_digits_not_in; [apply dec_N_spec | reflexivity]. Qed.
Lemma dec_N_no_e n : ~ In ch_e (dec_N n).
Proof. apply all_digits_not_in; [apply dec_N_spec | reflexivity]. Qed.

Lemma check_buffered_int_dec_N n : check_buffered_int (dec_N n) = true.
Proof.
  destruct (N.eq_dec n 0) as [->|Hn]; [reflexivity|].
  destruct (dec_N_spec n) as (Hd & _ & _ & Hh).
  destruct Hh as (c & s' & E & Hc); [lia|]. rewrite E.
  unfold check_buffered_int. destruct s'; [reflexivity|].
  destruct (byte_eqb c ch_minus) eqn:Em.
  - apply byte_eqb_eq in Em. subst c. discriminate.
  - exact Hc.
Qed.

Lemma dec_N_head_digit n : exists c s', dec_N n = c :: s' /\ is_digit c = true.
Proof.
  destruct (dec_N_spec n) as (Hd & Hne & _).
  destruct (dec_N n) as [|c s']; [congruence|]. inversion Hd; subst. eauto.
Qed.

(* ---------------------------------------------------------------- integers *)
Lemma dec_Z_no_e z : ~ In ch_e (dec_Z z).
Proof.
  destruct z; simpl.
  - intros [H|[]]. discriminate.
  - apply dec_N_no_e.
  - intros [H|H]; [discriminate | exact (dec_N_no_e _ H)].
Qed.

Theorem int_text_dec_Z z : int_text_any (dec_Z z) = Some z.
Proof.
  unfold int_text_any. destruct z as [|p|p].
  - reflexivity.
  - change (dec_Z (Z.pos p)) with (dec_N (N.pos p)).
    rewrite check_buffered_int_dec_N.
    unfold parse_sdec. destruct (dec_N_spec (N.pos p)) as (_ & _ & _ & Hh).
    destruct Hh as (c & s' & E & Hc); [lia|].
    pose proof (parse_udec_dec_N (N.pos p)) as P. rewrite E in *.
    destruct (byte_eqb c ch_minus) eqn:E1; [apply byte_eqb_eq in E1; subst; discriminate|].
    destruct (byte_eqb c ch_plus) eqn:E2; [apply byte_eqb_eq in E2; subst; discriminate|].
    rewrite P. reflexivity.
  - change (dec_Z (Z.neg p)) with (ch_minus :: dec_N (N.pos p)).
    destruct (dec_N_spec (N.pos p)) as (_ & _ & _ & Hh).
    destruct Hh as (c & s' & E & Hc); [lia|].
    pose proof (parse_udec_dec_N (N.pos p)) as P.
    unfold check_buffered_int. rewrite E. rewrite byte_eqb_refl. rewrite Hc.
    unfold parse_sdec. rewrite byte_eqb_refl. rewrite <- E, P. reflexivity.
Qed.

Lemma check_buffered_int_dec_Z z : check_buffered_int (dec_Z z) = true.
Proof.
  pose proof (int_text_dec_Z z) as H. unfold int_text_any in H.
  destruct (check_buffered_int (dec_Z z)); [reflexivity | discriminate].
Qed.

Lemma parse_sdec_dec_Z z : parse_sdec (dec_Z z) = Some z.
Proof.
  pose proof (int_text_dec_Z z) as H. unfold int_text_any in H.
  rewrite check_buffered_int_dec_Z in H. exact H.
Qed.

(* ---------------------------------------------------------------- string tokens *)
Theorem parse_str_tok_benc s rest : str_ok s = true -> parse_str_tok (benc_str s ++ rest) = Some (s, rest).
Proof.
  intros Hs. unfold parse_str_tok, benc_str.
  rewrite <- app_assoc. simpl.
  rewrite read_until_app by apply dec_N_no_colon.
  rewrite check_buffered_int_dec_N, parse_udec_dec_N.
  unfold str_ok in Hs. rewrite Hs. apply take_str_app.
Qed.

Lemma benc_str_head s : exists c t, benc_str s = c :: t /\ is_digit c = true.
Proof.
  unfold benc_str. destruct (dec_N_head_digit (N.of_nat (length s))) as (c & s' & E & Hc).
  rewrite E. simpl. eauto.
Qed.

Lemma is_digit_chars c : is_digit c = true ->
  byte_eqb c ch_i = false /\ byte_eqb c ch_l = false /\ byte_eqb c ch_d = false /\ byte_eqb c ch_e = false.
Proof.
  intros H. repeat split; apply byte_eqb_neq; intros ->; discriminate.
Qed.

(* ---------------------------------------------------------------- induction principle for bval *)
Section BvalInd.
  Variable P : bval -> Prop.
  Hypothesis Hint : forall z, P (BInt z).
  Hypothesis Hstr : forall s, P (BStr s).
  Hypothesis Hlist : forall l, Forall P l -> P (BList l).
  Hypothesis Hdict : forall d, Forall (fun kv => P (snd kv)) d -> P (BDict d).

  Fixpoint bval_ind' (v : bval) : P v :=
    match v with
    | BInt z => Hint z
    | BStr s => Hstr s
    | BList l =>
        Hlist l ((fix go (l : list bval) : Forall P l :=
                    match l with [] => Forall_nil _ | x :: l' => Forall_cons _ (bval_ind' x) (go l') end) l)
    | BDict d =>
        Hdict d ((fix go (d : list (bytes * bval)) : Forall (fun kv => P (snd kv)) d :=
                    match d with [] => Forall_nil _ | x :: d' => Forall_cons _ (bval_ind' (snd x)) (go d') end) d)
    end.
End BvalInd.

(* ---------------------------------------------------------------- the strict parser reads back benc *)
Lemma benc_length_pos v : (1 <= length (benc v))%nat.
Proof. destruct v; simpl; try lia. unfold benc_str. rewrite app_length. simpl. lia. Qed.

Definition dict_body (d : list (bytes * bval)) : bytes :=
  flat_map (fun kv => benc_str (fst kv) ++ benc (snd kv)) d.

Lemma benc_str_length_pos s : (1 <= length (benc_str s))%nat.
Proof. unfold benc_str. rewrite app_length. simpl. lia. Qed.

Theorem parse_value_benc v :
  canonb v = true ->
  forall fuel rest, (length (benc v) <= fuel)%nat ->
  parse_value_fuel fuel false (benc v ++ rest) = Some (v, rest).
Proof.
  induction v as [z|s|l IHl|d IHd] using bval_ind'; intros Hc fuel rest Hf.
  - (* int *)
    destruct fuel as [|f]; [pose proof (benc_length_pos (BInt z)); lia|].
    cbn [benc benc_int app parse_value_fuel].
    change (byte_eqb "i" ch_i) with true. cbv iota.
    rewrite <- app_assoc. simpl app.
    rewrite read_until_app by apply dec_Z_no_e.
    rewrite int_text_dec_Z. reflexivity.
  - (* string *)
    destruct fuel as [|f]; [pose proof (benc_length_pos (BStr s)); lia|].
    cbn [benc]. destruct (benc_str_head s) as (c & t & E & Hd).
    cbn [parse_value_fuel]. rewrite E. cbn [app].
    destruct (is_digit_chars c Hd) as (E1 & E2 & E3 & _). rewrite E1, E2, E3, Hd.
    rewrite (app_comm_cons t rest c), <- E.
    rewrite parse_str_tok_benc by exact Hc. reflexivity.
  - (* list *)
    cbn [canonb] in Hc.
    assert (L : forall l, Forall (fun v => canonb v = true ->
                  forall fuel rest, (length (benc v) <= fuel)%nat ->
                  parse_value_fuel fuel false (benc v ++ rest) = Some (v, rest)) l ->
                forallb canonb l = true ->
                forall fuel rest, (length (flat_map benc l) + 1 <= fuel)%nat ->
                parse_list_fuel fuel false (flat_map benc l ++ ch_e :: rest) = Some (l, rest)).
    { clear. induction l as [|x l IH]; intros HF Hc fuel rest Hf.
      - destruct fuel; [simpl in Hf; lia|]. simpl. reflexivity.
      - destruct fuel as [|f]; [lia|].
        apply Forall_cons_iff in HF. destruct HF as [Hx Hl].
        simpl in Hc. apply andb_prop in Hc. destruct Hc as [Hcx Hcl].
        cbn [flat_map]. rewrite <- app_assoc.
        pose proof (benc_length_pos x) as Lx.
        cbn [flat_map] in Hf. rewrite app_length in Hf.
        destruct (benc x ++ flat_map benc l ++ ch_e :: rest) as [|c r] eqn:Eb.
        { apply (f_equal (@length _)) in Eb. rewrite app_length in Eb. simpl in Eb. lia. }
        cbn [parse_list_fuel].
        assert (Ece : byte_eqb c ch_e = false).
        { destruct x; cbn [benc benc_int] in Eb; try (injection Eb as <- _; reflexivity).
          destruct (benc_str_head s) as (c' & t & E & Hd). rewrite E in Eb. injection Eb as <- _.
          apply (is_digit_chars _ Hd). }
        rewrite Ece, <- Eb.
        rewrite (Hx Hcx) by lia.
        rewrite (IH Hl Hcl) by lia. reflexivity. }
    destruct fuel as [|f]; [pose proof (benc_length_pos (BList l)); lia|].
    cbn [benc app parse_value_fuel].
    change (byte_eqb "l" ch_i) with false. change (byte_eqb "l" ch_l) with true. cbv iota.
    rewrite <- app_assoc. cbn [app].
    cbn [benc length] in Hf. rewrite app_length in Hf. simpl in Hf.
    rewrite (L l IHl Hc) by lia. reflexivity.
  - (* dict *)
    cbn [canonb] in Hc. apply andb_prop in Hc. destruct Hc as [Hk Hv].
    assert (L : forall d last, Forall (fun kv => canonb (snd kv) = true ->
                  forall fuel rest, (length (benc (snd kv)) <= fuel)%nat ->
                  parse_value_fuel fuel false (benc (snd kv) ++ rest) = Some (snd kv, rest)) d ->
                keys_asc last (map fst d) = true ->
                forallb (fun kv => str_ok (fst kv) && canonb (snd kv)) d = true ->
                forall fuel rest, (length (dict_body d) + 1 <= fuel)%nat ->
                parse_dict_fuel fuel false last (dict_body d ++ ch_e :: rest) = Some (d, rest)).
    { clear. induction d as [|[k v] d IH]; intros last HF Hk Hc fuel rest Hf.
      - destruct fuel; [simpl in Hf; lia|]. simpl. reflexivity.
      - destruct fuel as [|f]; [lia|].
        apply Forall_cons_iff in HF. destruct HF as [Hx Hl]. cbn [snd] in Hx.
        cbn [map fst keys_asc] in Hk. apply andb_prop in Hk. destruct Hk as [Hk1 Hk2].
        cbn [forallb fst snd] in Hc. apply andb_prop in Hc. destruct Hc as [Hc1 Hcl].
        apply andb_prop in Hc1. destruct Hc1 as [Hsk Hcv].
        unfold dict_body in *. cbn [flat_map fst snd] in *.
        rewrite <- !app_assoc.
        rewrite !app_length in Hf.
        pose proof (benc_length_pos v) as Lv. pose proof (benc_str_length_pos k) as Lk.
        destruct (benc_str_head k) as (c & t & E & Hd).
        cbn [parse_dict_fuel]. rewrite E. cbn [app].
        destruct (is_digit_chars c Hd) as (_ & _ & _ & E4). rewrite E4, Hd.
        rewrite (app_comm_cons t _ c), <- E.
        rewrite parse_str_tok_benc by exact Hsk.
        rewrite Hk1.
        rewrite (Hx Hcv) by lia.
        rewrite (IH (Some k) Hl Hk2 Hcl) by lia. reflexivity. }
    destruct fuel as [|f]; [pose proof (benc_length_pos (BDict d)); lia|].
    cbn [benc app parse_value_fuel].
    change (byte_eqb "d" ch_i) with false. change (byte_eqb "d" ch_l) with false.
    change (byte_eqb "d" ch_d) with true. cbv iota.
    rewrite <- app_assoc. cbn [app].
    cbn [benc length] in Hf. rewrite app_length in Hf. simpl in Hf.
    fold (dict_body d) in *.
    rewrite (L d None IHd Hk Hv) by lia. reflexivity.
Qed.

(* the top-level function, with its own fuel *)
Theorem parse_value_benc_top v rest : canonb v = true -> parse_value (benc v ++ rest) = Some (v, rest).
Proof.
  intros H. unfold parse_value, parse_value_d. apply parse_value_benc; [exact H|].
  rewrite app_length. lia.
Qed.
