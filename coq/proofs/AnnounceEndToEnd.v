(* AnnounceEndToEnd.v — the END-TO-END announce property that links two separately verified models:
     model/Server.v   one node B: get_peers hands out a token, announce_peer is accepted with a
                      token that validates, the peer store serves what was announced (C08, C10, C11)
     model/Lookups.v  the owner of an announce: every announce_peer it issues goes to a member d of
                      the final closest set with the token d returned in this traversal (C16)
   (an extra, not one of the 20 listed properties).  Nothing of the two developments is changed; this
   file only composes their theorems:

   Part 0  what a history does to B's clock / closed flag / blocklist ([run] of ServerDefs.v): the
           clock is the start time plus the sum of the EAdvance events, the server is closed only by
           EClose, the blocklist changes only by ESetBlocklist.
   Part 1  get_peers at time t  ->  ANY history lasting less than token_max_delta * token_interval
           (10 min)  ->  announce_peer with the token of the reply, from the same IP (any port, 4-byte
           or v4-mapped form)  ->  exactly one reply echoing t, the endpoint stored, and served by
           every later get_peers for the infohash until an accepted announce of the same (infohash,
           raw IP) replaces it:  C10_issue + [run_now] + C10_window_lower + the announce handler +
           C08_exactly_one_form + C11 step_peers / C11_roundtrip, chained over [run].
           The step of B that takes the announce exists (some choice is accepted) in every state that
           satisfies the table invariant, e.g. every reachable one: [E2E_announce_possible].
   Part 2  the link to C16: the announce_peer issued by the Lookups.v owner for a closest-set member
           d, when d behaves as the Server.v model of B.  What connects the two models is stated as
           explicit premises named net_*: the token of each reply the owner logged from d is the token
           of a reply B sent (to the owner's IP, less than 10 min before the announce arrives), and
           the fields of the announce_peer datagram B decodes are those of the owner's send record.

   Generic in the Section parameters; sha1 stays abstract (no hypothesis on it anywhere). *)
From Dht Require Import Base Int160 Msg Lookups LookupsProofs.
From Dht Require Import Server ServerDefs Int160Proofs ServerInv ServerInv2 ServerC08 ServerC10 ServerC11.
From DhtGen Require Import Params.
From Coq Require Import Permutation ZifyN ZifyNat ZifyBool.

Local Open Scope Z_scope.

Local Arguments s_now {Store}.
Local Arguments s_nodes {Store}.
Local Arguments s_index {Store}.
Local Arguments s_pending {Store}.
Local Arguments s_peers {Store}.
Local Arguments s_store {Store}.
Local Arguments s_blocklist {Store}.
Local Arguments s_closed {Store}.
Local Arguments s_next_t {Store}.
Local Arguments s_budget {Store}.

(* ------------------------------------------------------------------ vocabulary *)
(* time that passes during a history: only EAdvance moves B's clock *)
Definition ev_elapsed (e : event) : Z := match e with EAdvance d => d | _ => 0 end.

Fixpoint elapsed (evs : list (event * choice)) : Z :=
  match evs with
  | [] => 0
  | (e, _) :: r => ev_elapsed e + elapsed r
  end.

Definition ev_closes (e : event) : bool := match e with EClose => true | _ => false end.
Definition ev_sets_blocklist (e : event) : bool := match e with ESetBlocklist _ => true | _ => false end.

(* histories in which the server is not closed / the blocklist is not replaced *)
Definition never_closes (evs : list (event * choice)) : bool := forallb (fun ec => negb (ev_closes (fst ec))) evs.
Definition keeps_blocklist (evs : list (event * choice)) : bool :=
  forallb (fun ec => negb (ev_sets_blocklist (fst ec))) evs.

(* how long a token is honoured at least: token_max_delta rotation intervals = 10 minutes *)
Definition token_window_ns : Z := token_max_delta * token_interval_ns.

Definition is_some {A} (o : option A) : bool := match o with Some _ => true | None => false end.

Lemma elapsed_app a b : elapsed (a ++ b) = elapsed a + elapsed b.
Proof.
  induction a as [|[e ch] a IH]; cbn [app elapsed]; [reflexivity|]. rewrite IH. apply Z.add_assoc.
Qed.

(* net.IP.To4 of the v4-mapped form gives the 4 bytes back *)
Lemma to4_mapped b : length b = 4%nat -> to4 (v4_prefix ++ b) = Some b.
Proof.
  destruct b as [|b0 [|b1 [|b2 [|b3 [|b4 b]]]]]; try discriminate. intros _. reflexivity.
Qed.

(* destruct every if / match scrutinee of hypothesis H *)
Ltac break_hyp H :=
  repeat (match type of H with
          | context [if ?b then _ else _] => destruct b eqn:?
          | context [match ?x with _ => _ end] => destruct x eqn:?
          end; try discriminate H).

Section E2E.
  Variable Store : Type.
  Variable w_put : Store -> witem -> Z -> Store * put_result.
  Variable w_get : Store -> bytes -> Z -> Store * get_result.
  Variable sha1 : bytes -> bytes.
  Variable id_secure : N -> bytes -> bool.
  Variable cfg : config.

  Notation sstate := (sstate Store).
  Notation step := (step Store w_put w_get sha1 id_secure cfg).
  Notation run := (ServerDefs.run Store w_put w_get sha1 id_secure cfg).
  Notation dispatch := (dispatch Store w_put w_get sha1 id_secure cfg).
  Notation update_node := (update_node Store id_secure cfg).
  Notation token_for := (token_for sha1 cfg).
  Notation create_token := (create_token sha1 cfg).
  Notation valid_token := (valid_token sha1 cfg).
  Notation passes := (passes Store cfg).
  Notation open_gate := (open_gate Store cfg).
  Notation announce_of := (announce_of Store sha1 cfg).
  Notation announced := (announced Store w_put w_get sha1 id_secure cfg).
  Notation get_peers_of := (get_peers_of Store).
  Notation SR := (SR Store).

  (* ================================================================ Part 0: clock, closed, blocklist *)

  Lemma step_frame s e ch s' out :
    step s e ch = SR s' out ->
    s_now s' = s_now s + ev_elapsed e /\
    s_closed s' = (s_closed s || ev_closes e)%bool /\
    s_blocklist s' = match e with ESetBlocklist bl => bl | _ => s_blocklist s end.
  Proof.
    intros H.
    assert (Hupd : forall s0 a id ta u v s1 r,
              update_node s0 a id ta u v = Ok _ (s1, r) ->
              s_now s1 = s_now s0 /\ s_closed s1 = s_closed s0 /\ s_blocklist s1 = s_blocklist s0).
    { intros s0 a id ta u v s1 r Hu. apply update_node_rest in Hu.
      destruct Hu as (U1 & _ & _ & _ & U5 & U6 & _). repeat split; assumption. }
    destruct e as [src size dec | d | i p id | qid dst q a rated t | qid | a id | bl | ];
      cbn [ev_elapsed ev_closes]; rewrite ?Z.add_0_r, ?orb_false_r, ?orb_true_r.
    - (* a datagram *)
      cbn [Server.step] in H.
      destruct (N.eqb size (Z.to_N udp_buf)); [injection H as <- _; repeat split|].
      destruct (N.eqb (port src) 0); [injection H as <- _; repeat split|].
      destruct (s_closed s) eqn:Hc; [injection H as <- _; repeat split; exact Hc|].
      destruct (blocked (s_blocklist s) (ip src)); [injection H as <- _; repeat split; exact Hc|].
      destruct dec as [m|]; [|injection H as <- _; repeat split; exact Hc].
      destruct (bytes_eqb (m_y m) s_q).
      + destruct (handle_query Store w_put w_get sha1 id_secure cfg s src m ch) as [s1 o| |] eqn:Hq;
          try discriminate. injection H as <- _.
        apply handle_query_frame in Hq. destruct Hq as (_ & _ & Q3 & Q4 & Q5 & _).
        repeat split; congruence.
      + destruct (find (txn_match (addr_key src) (m_t m)) (s_pending s)) as [x|];
          [|injection H as <- _; repeat split; exact Hc].
        match type of H with context [Server.update_node _ _ _ ?s1 ?a ?id ?ta ?u ?v] =>
          destruct (update_node s1 a id ta u v) as [[s2 r]|] eqn:Hu; [|discriminate] end.
        apply Hupd in Hu. cbn [Server.s_now Server.s_closed Server.s_blocklist with_pending] in Hu.
        destruct Hu as (U1 & U2 & U3).
        destruct r; try discriminate; injection H as <- _; repeat split; congruence.
    - cbn [Server.step] in H. injection H as <- _. cbn. repeat split.
    - cbn [Server.step] in H.
      destruct (update_node s (mkAddr i p) (Some id) true UNone (ch_victim ch)) as [[s1 r]|] eqn:Hu; [|discriminate].
      apply Hupd in Hu. destruct r; try discriminate; injection H as <- _; exact Hu.
    - cbn [Server.step] in H. break_hyp H; injection H as <- _; cbn; repeat split; assumption.
    - cbn [Server.step] in H. break_hyp H; injection H as <- _; cbn; repeat split.
    - cbn [Server.step] in H.
      destruct (update_node s a (Some id) false UFailedPing None) as [[s1 r]|] eqn:Hu; [|discriminate].
      apply Hupd in Hu. injection H as <- _. exact Hu.
    - cbn [Server.step] in H. injection H as <- _. cbn. repeat split.
    - cbn [Server.step] in H. injection H as <- _. cbn. repeat split.
  Qed.

  (* B's clock after a history: the start time plus the EAdvance events *)
  Theorem run_now evs : forall s s' outs,
    run s evs = Some (s', outs) -> s_now s' = s_now s + elapsed evs.
  Proof.
    induction evs as [|[e ch] evs IH]; intros s s' outs H; cbn [ServerDefs.run elapsed] in *.
    - injection H as <- _. lia.
    - destruct (step s e ch) as [s1 out| |] eqn:Hs; try discriminate.
      destruct (run s1 evs) as [[s2 outs']|] eqn:Hr; [|discriminate]. injection H as <- _.
      rewrite (IH _ _ _ Hr). destruct (step_frame _ _ _ _ _ Hs) as (E & _). rewrite E. lia.
  Qed.

  (* the server is closed by EClose only *)
  Theorem run_closed evs : forall s s' outs,
    run s evs = Some (s', outs) -> never_closes evs = true -> s_closed s' = s_closed s.
  Proof.
    unfold never_closes.
    induction evs as [|[e ch] evs IH]; intros s s' outs H Hn; cbn [ServerDefs.run forallb fst] in *.
    - injection H as <- _. reflexivity.
    - destruct (step s e ch) as [s1 out| |] eqn:Hs; try discriminate.
      destruct (run s1 evs) as [[s2 outs']|] eqn:Hr; [|discriminate]. injection H as <- _.
      apply andb_true_iff in Hn. destruct Hn as [Hn1 Hn2]. apply negb_true_iff in Hn1.
      rewrite (IH _ _ _ Hr Hn2). destruct (step_frame _ _ _ _ _ Hs) as (_ & E & _).
      rewrite E, Hn1. apply orb_false_r.
  Qed.

  (* the blocklist is replaced by ESetBlocklist only *)
  Theorem run_blocklist evs : forall s s' outs,
    run s evs = Some (s', outs) -> keeps_blocklist evs = true -> s_blocklist s' = s_blocklist s.
  Proof.
    unfold keeps_blocklist.
    induction evs as [|[e ch] evs IH]; intros s s' outs H Hn; cbn [ServerDefs.run forallb fst] in *.
    - injection H as <- _. reflexivity.
    - destruct (step s e ch) as [s1 out| |] eqn:Hs; try discriminate.
      destruct (run s1 evs) as [[s2 outs']|] eqn:Hr; [|discriminate]. injection H as <- _.
      apply andb_true_iff in Hn. destruct Hn as [Hn1 Hn2].
      rewrite (IH _ _ _ Hr Hn2). destruct (step_frame _ _ _ _ _ Hs) as (_ & _ & E).
      rewrite E. destruct e; try reflexivity. discriminate Hn1.
  Qed.

  (* a quiet history (no Close, no SetBlocklist) of a server without a send limiter leaves the three
     gates of the write routine as they were *)
  Corollary run_gates_stay_open evs s s' outs a :
    run s evs = Some (s', outs) -> never_closes evs = true -> keeps_blocklist evs = true ->
    s_closed s = false -> blocked (s_blocklist s) (ip a) = false -> s_budget s = None ->
    s_closed s' = false /\ blocked (s_blocklist s') (ip a) = false /\ s_budget s' <> Some 0%N.
  Proof.
    intros H Hc Hb H1 H2 H3.
    rewrite (run_closed _ _ _ _ H Hc), (run_blocklist _ _ _ _ H Hb).
    destruct (C20_run_unlimited Store w_put w_get sha1 id_secure cfg evs s s' outs H H3) as [E _].
    rewrite E. repeat split; [assumption | assumption | discriminate].
  Qed.

  (* ================================================================ Part 1: one node *)

  (* ---- link 1: the token of a reply stays valid for 10 minutes of ANY history (C10_issue,
          run_now, C10_window_lower) ---- *)

  (* B, in state s0 (its clock reads s_now s0), answers a get_peers (or BEP 44 get) query from
     address A with a reply that carries the token [tok]; s1 is B's state afterwards *)
  Definition answers_with_token (s0 : sstate) (A : addr) (tok : bytes) (s1 : sstate) : Prop :=
    exists size mg chg outg d rm k r,
      m_y mg = s_q /\ (m_q mg = s_get_peers \/ m_q mg = s_get) /\
      step s0 (EPacket A size (Some mg)) chg = SR s1 outg /\
      In (ESend d rm k) outg /\ m_r rm = Some r /\ r_token r = Some tok.

  (* [tok] is the token of a reply that B sent, to an address whose 16-byte form is x, at a time
     t >= 0 (after 1970) less than 10 minutes before B reached the state s2, whatever happened at B
     in between *)
  Definition fresh_token (x tok : bytes) (s2 : sstate) : Prop :=
    exists s0 A s1 mid outs,
      to16 (ip A) = Some x /\ 0 <= s_now s0 /\ answers_with_token s0 A tok s1 /\
      run s1 mid = Some (s2, outs) /\ 0 <= elapsed mid < token_window_ns.

  Lemma answer_token s0 A tok s1 x :
    c_peer_store cfg = true -> answers_with_token s0 A tok s1 -> to16 (ip A) = Some x ->
    tok = token_for x (token_idx (s_now s0)) /\ create_token A (s_now s0) = Some tok /\ s_now s1 = s_now s0.
  Proof.
    intros Hps (size & mg & chg & outg & d & rm & k & r & Hy & Hq & Hs & Hin & Hr & Ht) Hx.
    assert (Hq' : m_q mg = s_get_peers /\ c_peer_store cfg = true \/ m_q mg = s_get) by tauto.
    destruct (C10_issue Store w_put w_get sha1 id_secure cfg s0 A size mg chg s1 outg d rm k r Hy Hq' Hs Hin Hr)
      as (x' & Hx' & Ht1 & Ht2).
    rewrite Hx in Hx'. injection Hx' as <-. rewrite Ht in Ht1, Ht2. injection Ht1 as ->.
    repeat split; [symmetry; exact Ht2|].
    destruct (step_frame _ _ _ _ _ Hs) as (E & _). cbn [ev_elapsed] in E. lia.
  Qed.

  Theorem fresh_token_valid x tok s2 A' :
    c_peer_store cfg = true -> fresh_token x tok s2 -> to16 (ip A') = Some x ->
    valid_token tok A' (s_now s2) = Some true.
  Proof.
    intros Hps (s0 & A & s1 & mid & outs & Hx & Ht & Hans & Hrun & Hel) Hx'.
    destruct (answer_token s0 A tok s1 x Hps Hans Hx) as (_ & Hc & Hn1).
    pose proof (run_now _ _ _ _ Hrun) as Hn2. unfold token_window_ns in Hel.
    apply (C10_window_lower sha1 cfg A A' x (s_now s0) (s_now s2) tok); try assumption. lia.
  Qed.

  (* ---- link 2: an announce_peer with a valid token at open gates (the announce handler of
          server.go, dispatch_announce + step_query_inv): the exact output, the store ---- *)

  Lemma open_gate_passes s src size m : open_gate s src size m -> passes s src size m = true.
  Proof.
    intros (G1 & G2 & G3 & G4 & G5 & G6 & G7). unfold ServerC10.passes. unfold udp_buf_n in G1.
    apply N.eqb_neq in G1. apply N.eqb_neq in G2. rewrite G1, G2, G3, G4, G6, G7. reflexivity.
  Qed.

  Definition announce_effects (src : addr) (m : msg) (a : msg_args) : list effect :=
    (if c_announce_cb cfg
     then [EAnnounceCb (a_info_hash a) (ip src) (chosen_port src a) (a_implied_port a || is_some (a_port a))]
     else []) ++
    [EPeerAdd (a_info_hash a) (ip src) (chosen_port src a);
     ESend src (reply_msg cfg src (m_t m) empty_return) SReply].

  Lemma announce_step_accepted s src size m a ch s' out :
    c_peer_store cfg = true ->
    m_y m = s_q -> m_q m = s_announce_peer -> m_a m = Some a ->
    open_gate s src size m ->
    valid_token (a_token a) src (s_now s) = Some true ->
    step s (EPacket src size (Some m)) ch = SR s' out ->
    out = announce_effects src m a /\
    s_peers s' = add_peer (s_peers s) (mkPeer (a_info_hash a) (ip src) (chosen_port src a)).
  Proof.
    intros Hps Hy Hq Ha Hg Hv H.
    pose proof (open_gate_passes _ _ _ _ Hg) as Hp.
    destruct Hg as (_ & _ & Hc & Hb & Hbud & _ & _).
    assert (Hy' : bytes_eqb (m_y m) s_q = true) by (apply bytes_eqb_eq; exact Hy).
    destruct (step_query_inv Store w_put w_get sha1 id_secure cfg s src size m ch s' out Hy' H) as (s1 & Hr & Hd).
    rewrite Hp in Hd. destruct Hr as (R1 & _ & R3 & _ & R5 & R6 & _ & R8).
    rewrite (dispatch_announce Store w_put w_get sha1 id_secure cfg s1 src m ch Hq), Ha, R1, Hv in Hd.
    cbv zeta in Hd. rewrite Hps in Hd.
    unfold reply, write_rated in Hd.
    cbn [Server.s_closed Server.s_blocklist Server.s_budget with_peers] in Hd.
    rewrite R6, Hc, R5, Hb, R8 in Hd.
    assert (Hout : forall p1 : Z * bool,
              p1 = (if a_implied_port a then (Z.of_N (port src), true)
                    else match a_port a with Some p => (p, true) | None => (0, false) end) ->
              fst p1 = chosen_port src a /\ snd p1 = (a_implied_port a || is_some (a_port a))%bool).
    { intros p1 ->. unfold chosen_port. destruct (a_implied_port a); [split; reflexivity|].
      destruct (a_port a); split; reflexivity. }
    match type of Hd with context [fst ?p] => destruct (Hout p eq_refl) as [E1 E2] end.
    rewrite E1, E2 in Hd. unfold announce_effects.
    destruct (s_budget s) as [[|b]|]; [contradiction Hbud; reflexivity| |];
      injection Hd as <- <-; (split; [reflexivity|]);
      cbn [Server.s_peers with_peers with_budget]; rewrite R3; reflexivity.
  Qed.

  (* some choice is accepted: the announce is processed (the step exists) in every state that
     satisfies the routing-table invariant, in particular in every reachable one *)
  Theorem E2E_announce_possible s src size m a :
    wf_cfg cfg -> Inv Store cfg s ->
    m_y m = s_q -> m_q m = s_announce_peer -> m_a m = Some a ->
    open_gate s src size m ->
    valid_token (a_token a) src (s_now s) = Some true ->
    exists ch s' out, step s (EPacket src size (Some m)) ch = SR s' out.
  Proof.
    intros Hwc Hi Hy Hq Ha (G1 & G2 & G3 & G4 & G5 & G6 & G7) Hv.
    unfold udp_buf_n in G1. apply N.eqb_neq in G1. apply N.eqb_neq in G2.
    assert (Hy' : bytes_eqb (m_y m) s_q = true) by (apply bytes_eqb_eq; exact Hy).
    set (v := pick_victim Store id_secure cfg s src (option_map id_of (sender_id m)) (negb (m_ro m)) UQuery).
    exists (mkChoice v [] [] []).
    unfold Server.step. rewrite G1, G2, G3, G4, Hy'.
    unfold Server.handle_query. cbn [ch_victim].
    destruct (update_node s src (option_map id_of (sender_id m)) (negb (m_ro m)) UQuery v) as [[s1 r]|] eqn:Hu;
      [|exfalso; exact (update_node_ok Store id_secure cfg _ _ _ _ _ _ Hwc Hi Hu)].
    pose proof (update_node_pick Store id_secure cfg _ _ _ _ _ _ _ Hu) as Hr.
    apply update_node_rest in Hu. destruct Hu as (R1 & _).
    rewrite G6, G7. cbn [negb].
    rewrite (dispatch_announce Store w_put w_get sha1 id_secure cfg s1 src m _ Hq), Ha, R1, Hv.
    cbv zeta.
    match goal with |- context [Server.reply ?S ?c ?s ?d ?t ?r] => destruct (Server.reply S c s d t r) as [s2 o] end.
    destruct r; try (contradiction Hr; reflexivity); eexists; eexists; reflexivity.
  Qed.

  (* ---- link 3: what was stored is served (step_peers, C11_roundtrip, get_peers_reply,
          C08_exactly_one_form) ---- *)
  Lemma announce_served s2 ea cha s3 outa p later s4 outs' R sizeg mg' ag' chg' s5 outg' v :
    step s2 ea cha = SR s3 outa -> announce_of s2 ea = Some p ->
    run s3 later = Some (s4, outs') ->
    (forall q, In q (announced s3 later) -> ~ same_key q p) ->
    m_y mg' = s_q -> m_q mg' = s_get_peers -> m_a mg' = Some ag' -> a_info_hash ag' = p_ih p ->
    step s4 (EPacket R sizeg (Some mg')) chg' = SR s5 outg' ->
    filter_peer (should_return_nodes (want_list ag') (ip R)) (should_return_nodes6 (want_list ag') (ip R)) p = Some v ->
    (forall d rm k, In (ESend d rm k) outg' ->
       d = R /\ k = SReply /\ m_t rm = m_t mg' /\
       exists r vs tok, m_r rm = Some r /\ r_values r = Some vs /\
         In (mkNA (na_ip v) (wire_port (na_port v))) vs /\ r_token r = Some tok) /\
    (open_gate s4 R sizeg mg' -> exists rm, sends outg' = [ESend R rm SReply]).
  Proof.
    intros Hsa Hann Hrun Hno Hy Hq Ha Hih Hsg Hf.
    assert (Hall : forall d rm k, In (ESend d rm k) outg' ->
              d = R /\ k = SReply /\ m_t rm = m_t mg' /\
              exists r vs tok, m_r rm = Some r /\ r_values r = Some vs /\
                In (mkNA (na_ip v) (wire_port (na_port v))) vs /\ r_token r = Some tok).
    { intros d rm k Hin.
      destruct (get_peers_reply Store w_put w_get sha1 id_secure cfg s4 R sizeg mg' ag' chg' s5 outg' d rm k
                  Hy Hq Ha Hsg Hin) as (Hd & Hk & _).
      destruct (C08_dest_and_t Store w_put w_get sha1 id_secure cfg s4 R sizeg (Some mg') chg' s5 outg' d rm k Hsg Hin)
        as (_ & m0 & Hm0 & _ & Ht). injection Hm0 as <-.
      split; [exact Hd|]. split; [exact Hk|]. split; [exact Ht|].
      exact (C11_roundtrip Store w_put w_get sha1 id_secure cfg s2 ea cha s3 outa p later s4 outs' R sizeg mg' ag'
               chg' s5 outg' v d rm k Hsa Hann Hrun Hno Hy Hq Ha Hih Hsg Hf Hin). }
    split; [exact Hall|].
    intros Hg.
    assert (Htok : tokens_ok Store sha1 cfg s4 R mg').
    { apply tokens_ok_other; rewrite Hq; discriminate. }
    destruct (C08_exactly_one_form Store w_put w_get sha1 id_secure cfg s4 R sizeg mg' chg' s5 outg' Hsg Hy Hg Htok)
      as (rm & k & Hs & _).
    assert (Hin : In (ESend R rm k) outg') by (apply in_sends; rewrite Hs; left; reflexivity).
    destruct (Hall R rm k Hin) as (_ & -> & _). exists rm. exact Hs.
  Qed.

  (* ================================================================ the end-to-end theorem *)
  (* B answers a get_peers (or get) query of A at time t = s_now s0 >= 0 with a reply carrying [tok];
     after ANY history [mid] of B during which less than 10 minutes pass, an announce_peer carrying
     that token arrives from an address A' with A's IP (any port; 4-byte or v4-mapped form), at open
     gates (datagram not oversize, source port not 0, server not closed, A' not blocked, send budget
     not exhausted, hook not vetoing, not passive).  Then, for every outcome of that step:
       1  tok is the token for (To16 of A's IP, interval index of t): C10_issue
       2  it validates for A' at the time of the announce: C10_window_lower over run_now
       3  B's output is [callback if configured; peer-store call; ONE reply to A' echoing t]: C08
       4  the announce is an accepted announce in the sense of C11 and the store holds
          (infohash, raw IP of A', chosen port): exactly one entry for that (infohash, raw IP)
       5  for every later history without another accepted announce of that (infohash, raw IP), every
          get_peers for the infohash from a requester R to which the endpoint is representable
          ([filter_peer] gives [v]) that is answered has the endpoint among its values (port as
          uint16) and carries a token; at open gates it IS answered, by exactly one reply to R. *)
  Theorem E2E_announce_end_to_end
      s0 A size mg chg s1 outg d rm k r tok
      mid s2 outs
      A' size' ma aa cha s3 outa x :
    c_peer_store cfg = true ->
    (* B answers A's get_peers at time t = s_now s0 *)
    0 <= s_now s0 ->
    m_y mg = s_q -> (m_q mg = s_get_peers \/ m_q mg = s_get) ->
    step s0 (EPacket A size (Some mg)) chg = SR s1 outg ->
    In (ESend d rm k) outg -> m_r rm = Some r -> r_token r = Some tok ->
    (* any history, less than 10 minutes *)
    run s1 mid = Some (s2, outs) -> 0 <= elapsed mid < token_window_ns ->
    (* the announce: same IP, the token of the reply, open gates *)
    to16 (ip A) = Some x -> to16 (ip A') = Some x ->
    m_y ma = s_q -> m_q ma = s_announce_peer -> m_a ma = Some aa -> a_token aa = tok ->
    open_gate s2 A' size' ma ->
    step s2 (EPacket A' size' (Some ma)) cha = SR s3 outa ->
    let p := mkPeer (a_info_hash aa) (ip A') (chosen_port A' aa) in
    tok = token_for x (token_idx (s_now s0)) /\
    (s_now s2 = s_now s0 + elapsed mid /\ valid_token tok A' (s_now s2) = Some true) /\
    (outa = announce_effects A' ma aa /\
     sends outa = [ESend A' (reply_msg cfg A' (m_t ma) empty_return) SReply] /\
     m_t (reply_msg cfg A' (m_t ma) empty_return) = m_t ma /\ length (sends outa) = 1%nat) /\
    (announce_of s2 (EPacket A' size' (Some ma)) = Some p /\
     s_peers s3 = add_peer (s_peers s2) p /\ In p (get_peers_of s3 (a_info_hash aa)) /\
     (forall q, In q (s_peers s3) -> same_key q p -> q = p)) /\
    (forall later s4 outs' R sizeg mg' ag' chg' s5 outg' v,
       run s3 later = Some (s4, outs') ->
       (forall q, In q (announced s3 later) -> ~ same_key q p) ->
       m_y mg' = s_q -> m_q mg' = s_get_peers -> m_a mg' = Some ag' -> a_info_hash ag' = a_info_hash aa ->
       step s4 (EPacket R sizeg (Some mg')) chg' = SR s5 outg' ->
       filter_peer (should_return_nodes (want_list ag') (ip R)) (should_return_nodes6 (want_list ag') (ip R)) p = Some v ->
       (forall d' rm' k', In (ESend d' rm' k') outg' ->
          d' = R /\ k' = SReply /\ m_t rm' = m_t mg' /\
          exists r' vs tok', m_r rm' = Some r' /\ r_values r' = Some vs /\
            In (mkNA (na_ip v) (wire_port (na_port v))) vs /\ r_token r' = Some tok') /\
       (open_gate s4 R sizeg mg' -> exists rm', sends outg' = [ESend R rm' SReply])).
  Proof.
    intros Hps Ht Hy Hq Hsg Hin Hr Htok Hrun Hel Hx Hx' Hya Hqa Haa Hta Hg Hsa p.
    assert (Hans : answers_with_token s0 A tok s1).
    { exists size, mg, chg, outg, d, rm, k, r. repeat split; assumption. }
    destruct (answer_token s0 A tok s1 x Hps Hans Hx) as (E1 & _ & Hn1).
    assert (Hfresh : fresh_token x tok s2).
    { exists s0, A, s1, mid, outs. repeat split; try assumption; apply Hel. }
    pose proof (fresh_token_valid x tok s2 A' Hps Hfresh Hx') as Hv.
    assert (Hv' : valid_token (a_token aa) A' (s_now s2) = Some true) by (rewrite Hta; exact Hv).
    destruct (announce_step_accepted s2 A' size' ma aa cha s3 outa Hps Hya Hqa Haa Hg Hv' Hsa) as (Hout & Hpeers).
    assert (Hann : announce_of s2 (EPacket A' size' (Some ma)) = Some p).
    { apply announce_of_spec. exists A', size', ma, aa. repeat split; try assumption.
      apply open_gate_passes. exact Hg. }
    split; [exact E1|]. split.
    { split; [|exact Hv]. rewrite (run_now _ _ _ _ Hrun). lia. }
    split.
    { split; [exact Hout|]. rewrite Hout. unfold announce_effects.
      destruct (c_announce_cb cfg); repeat split. }
    split.
    { split; [exact Hann|]. split; [exact Hpeers|].
      destruct (add_peer_lookup (s_peers s2) p) as (L1 & _ & L3). split.
      - unfold Server.get_peers_of. rewrite Hpeers. exact L1.
      - rewrite Hpeers. exact L3. }
    intros later s4 outs' R sizeg mg' ag' chg' s5 outg' v Hrun' Hno Hy' Hq' Ha' Hih Hsg' Hf.
    exact (announce_served s2 _ cha s3 outa p later s4 outs' R sizeg mg' ag' chg' s5 outg' v
             Hsa Hann Hrun' Hno Hy' Hq' Ha' Hih Hsg' Hf).
  Qed.

  (* "a requester that wants A's family": the stored endpoint is returned as it is — raw IP of the
     announce's source, the chosen port (modulo 2^16, i.e. unchanged for a real port) *)
  Theorem E2E_same_family_endpoint A' aa ws rip :
    (should_return_nodes ws rip = true /\ length (ip A') = 4%nat) \/
    (should_return_nodes6 ws rip = true /\ length (ip A') = 16%nat) ->
    filter_peer (should_return_nodes ws rip) (should_return_nodes6 ws rip)
                (mkPeer (a_info_hash aa) (ip A') (chosen_port A' aa))
    = Some (mkNA (ip A') (chosen_port A' aa)) /\
    (0 <= chosen_port A' aa < 65536 -> wire_port (chosen_port A' aa) = chosen_port A' aa).
  Proof.
    intros H. split; [|apply wire_port_id].
    exact (filter_peer_same_family _ _ (mkPeer (a_info_hash aa) (ip A') (chosen_port A' aa)) H).
  Qed.

  (* an announce that arrived from the v4-mapped form of an IPv4 address is stored under the 16-byte
     form; a requester that wants IPv4 only gets the 4-byte form back *)
  Theorem E2E_mapped_source_served_as_v4 ih b po :
    length b = 4%nat -> filter_peer true false (mkPeer ih (v4_prefix ++ b) po) = Some (mkNA b po).
  Proof.
    intros H. unfold filter_peer. cbn [p_ip p_port andb].
    replace (Nat.eqb (length (v4_prefix ++ b)) 4) with false by (rewrite app_length, H; reflexivity).
    rewrite (to4_mapped b H). reflexivity.
  Qed.

  (* the port that is stored: the announced port, or the UDP source port when implied_port is set *)
  Lemma chosen_port_spec A' aa po :
    a_port aa = Some po ->
    chosen_port A' aa = if a_implied_port aa then Z.of_N (port A') else po.
  Proof. intros H. unfold chosen_port. rewrite H. reflexivity. Qed.

  (* ================================================================ Part 2: the link to C16 *)
  Section Link.
    (* the owner of the announce: Lookups.v *)
    Variable ed_verify : bytes -> bytes -> bytes -> bool.
    Variable node_ok : Lookups.addr -> N -> bool.
    Variable push : list elem -> elem -> list elem.
    Hypothesis push_incl : forall l e x, In x (push l e) -> x = e \/ In x l.
    Variable c : lcfg.

    Notation lreachable := (LookupsProofs.reachable sha1 ed_verify node_ok push c).

    (* the arguments Server.announcePeer (server.go) puts into the announce_peer query of one send record *)
    Definition announce_args_of (sr : sendrec) : msg_args :=
      mkArgs zero20 (ofN 20 (sr_ih sr)) zero20 (sr_token sr) (Some (sr_port sr)) (sr_implied sr)
             None 0 0 None None 0 zero32 [] zero64.

    (* the datagram the owner's server (any configuration cfgA, Server.v's [query_msg]) sends for it
       carries exactly the record's fields *)
    Lemma owner_datagram_fields cfgA sr t :
      let m := query_msg cfgA s_announce_peer (announce_args_of sr) t in
      m_y m = s_q /\ m_q m = s_announce_peer /\ m_t m = t /\
      exists aa, m_a m = Some aa /\ a_token aa = sr_token sr /\ a_info_hash aa = ofN 20 (sr_ih sr) /\
                 a_port aa = Some (sr_port sr) /\ a_implied_port aa = sr_implied sr.
    Proof. cbn. repeat split. eexists. repeat split. Qed.

    (* The announce_peer the Lookups.v owner issues for a member d = sr_dest sr of its closest set,
       when d is the Server.v node B.
         owner side (C16_tokens): the record's token is the token of a get_peers reply the owner
           logged from d in THIS traversal, its infohash the lookup's target, its port / implied
           port the configured ones;
         net_reply_token: every reply with an "r" dictionary and a token that the owner logged from
           d is a reply B sent — same token bytes — to an address with the owner's IP (16-byte form
           x), at a time >= 0 less than 10 minutes before B takes the announce (state s2);
         net_announce_*: the announce_peer datagram B decodes comes from the owner's IP and carries
           the record's token, infohash, port and implied_port flag (the network transports these
           fields unchanged).
       Then B accepts it: one reply echoing the transaction id, the endpoint
       (target, raw source IP, configured port or UDP source port when implied) is stored and served
       (conclusions 3-5 of E2E_announce_end_to_end). *)
    Theorem E2E_owner_announce_accepted
        ls sr x s2 A' size' ma aa cha s3 outa :
      c_peer_store cfg = true ->
      (* the owner *)
      lreachable ls -> is_announce c = true -> In sr (l_sends ls) ->
      forall
        (net_reply_token : forall q r tok, In (q, sr_dest sr, r) (l_log ls) -> gr_has_r r = true ->
                                           gr_token r = Some tok -> fresh_token x tok s2)
        (net_announce_ip : to16 (ip A') = Some x)
        (net_announce_query : m_y ma = s_q /\ m_q ma = s_announce_peer /\ m_a ma = Some aa)
        (net_announce_token : a_token aa = sr_token sr)
        (net_announce_infohash : a_info_hash aa = ofN 20 (sr_ih sr))
        (net_announce_port : a_port aa = Some (sr_port sr) /\ a_implied_port aa = sr_implied sr),
      (* B takes the datagram at open gates *)
      open_gate s2 A' size' ma ->
      step s2 (EPacket A' size' (Some ma)) cha = SR s3 outa ->
      let port := if sr_implied sr then Z.of_N (Server.port A') else sr_port sr in
      let p := mkPeer (ofN 20 (lc_target c)) (ip A') port in
      lc_ann c = Some (sr_port sr, sr_implied sr) /\
      valid_token (sr_token sr) A' (s_now s2) = Some true /\
      (sends outa = [ESend A' (reply_msg cfg A' (m_t ma) empty_return) SReply] /\
       In (EPeerAdd (ofN 20 (lc_target c)) (ip A') port) outa) /\
      (announce_of s2 (EPacket A' size' (Some ma)) = Some p /\
       s_peers s3 = add_peer (s_peers s2) p /\ In p (get_peers_of s3 (ofN 20 (lc_target c)))) /\
      (forall later s4 outs' R sizeg mg' ag' chg' s5 outg' v,
         run s3 later = Some (s4, outs') ->
         (forall q, In q (announced s3 later) -> ~ same_key q p) ->
         m_y mg' = s_q -> m_q mg' = s_get_peers -> m_a mg' = Some ag' -> a_info_hash ag' = ofN 20 (lc_target c) ->
         step s4 (EPacket R sizeg (Some mg')) chg' = SR s5 outg' ->
         filter_peer (should_return_nodes (want_list ag') (ip R)) (should_return_nodes6 (want_list ag') (ip R)) p = Some v ->
         (forall d' rm' k', In (ESend d' rm' k') outg' ->
            d' = R /\ k' = SReply /\ m_t rm' = m_t mg' /\
            exists r' vs tok', m_r rm' = Some r' /\ r_values r' = Some vs /\
              In (mkNA (na_ip v) (wire_port (na_port v))) vs /\ r_token r' = Some tok') /\
         (open_gate s4 R sizeg mg' -> exists rm', sends outg' = [ESend R rm' SReply])).
    Proof.
      intros Hps Hreach Hann Hsr net_reply_token net_announce_ip (Hya & Hqa & Haa)
             net_announce_token net_announce_infohash (Hpo & Him) Hg Hsa port p.
      destruct (announce_tokens sha1 ed_verify node_ok push push_incl c ls sr Hreach Hann Hsr)
        as (_ & _ & e & _ & _ & _ & Hih & Hopts & q & r & Hlog & Hhas & _ & Htok).
      pose proof (net_reply_token q r (sr_token sr) Hlog Hhas Htok) as Hfresh.
      pose proof (fresh_token_valid x (sr_token sr) s2 A' Hps Hfresh net_announce_ip) as Hv.
      assert (Hv' : valid_token (a_token aa) A' (s_now s2) = Some true) by (rewrite net_announce_token; exact Hv).
      destruct (announce_step_accepted s2 A' size' ma aa cha s3 outa Hps Hya Hqa Haa Hg Hv' Hsa) as (Hout & Hpeers).
      assert (Hport : chosen_port A' aa = port).
      { rewrite (chosen_port_spec A' aa _ Hpo), Him. reflexivity. }
      assert (Hinfo : a_info_hash aa = ofN 20 (lc_target c)) by (rewrite net_announce_infohash, Hih; reflexivity).
      rewrite Hinfo, Hport in Hpeers. fold p in Hpeers.
      assert (Hann' : announce_of s2 (EPacket A' size' (Some ma)) = Some p).
      { apply announce_of_spec. exists A', size', ma, aa. repeat split; try assumption.
        - apply open_gate_passes. exact Hg.
        - unfold p. rewrite Hinfo, Hport. reflexivity. }
      split; [exact Hopts|]. split; [exact Hv|]. split.
      { rewrite Hout. unfold announce_effects. rewrite Hinfo, Hport.
        destruct (c_announce_cb cfg); cbn; repeat split; auto. }
      split.
      { split; [exact Hann'|]. split; [exact Hpeers|].
        destruct (add_peer_lookup (s_peers s2) p) as (L1 & _). unfold Server.get_peers_of.
        rewrite Hpeers. exact L1. }
      intros later s4 outs' R sizeg mg' ag' chg' s5 outg' v Hrun' Hno Hy' Hq' Ha' Hih' Hsg' Hf.
      exact (announce_served s2 _ cha s3 outa p later s4 outs' R sizeg mg' ag' chg' s5 outg' v
               Hsa Hann' Hrun' Hno Hy' Hq' Ha' Hih' Hsg' Hf).
    Qed.

    (* the same with ONE transport premise for the announce: B decodes the very message the owner's
       server built (Server.v's [query_msg] of any configuration cfgA and transaction id t) *)
    Corollary E2E_owner_announce_accepted_unchanged
        ls sr x s2 A' size' ma cha s3 outa cfgA t :
      c_peer_store cfg = true ->
      lreachable ls -> is_announce c = true -> In sr (l_sends ls) ->
      forall
        (net_reply_token : forall q r tok, In (q, sr_dest sr, r) (l_log ls) -> gr_has_r r = true ->
                                           gr_token r = Some tok -> fresh_token x tok s2)
        (net_announce_ip : to16 (ip A') = Some x)
        (net_announce_unchanged : ma = query_msg cfgA s_announce_peer (announce_args_of sr) t),
      open_gate s2 A' size' ma ->
      step s2 (EPacket A' size' (Some ma)) cha = SR s3 outa ->
      let port := if sr_implied sr then Z.of_N (Server.port A') else sr_port sr in
      let p := mkPeer (ofN 20 (lc_target c)) (ip A') port in
      valid_token (sr_token sr) A' (s_now s2) = Some true /\
      sends outa = [ESend A' (reply_msg cfg A' t empty_return) SReply] /\
      s_peers s3 = add_peer (s_peers s2) p /\ In p (get_peers_of s3 (ofN 20 (lc_target c))).
    Proof.
      intros Hps Hreach Hann Hsr net_reply_token net_announce_ip net_announce_unchanged Hg Hsa port p.
      destruct (owner_datagram_fields cfgA sr t) as (F1 & F2 & F3 & aa & F4 & F5 & F6 & F7 & F8).
      rewrite <- net_announce_unchanged in F1, F2, F3, F4.
      destruct (E2E_owner_announce_accepted ls sr x s2 A' size' ma aa cha s3 outa Hps Hreach Hann Hsr
                  net_reply_token net_announce_ip (conj F1 (conj F2 F4)) F5 F6 (conj F7 F8) Hg Hsa)
        as (_ & Hv & (Hs & _) & (_ & Hp & Hin) & _).
      rewrite F3 in Hs. repeat split; assumption.
    Qed.
  End Link.
End E2E.
