(* Bep44Proofs.v — sequential theory of the BEP 44 store model (C12 store + client side, C13
   decision table / monotonicity / served / expiry / seq-gated get).  The concurrent theory is in
   Bep44SchedProofs.v.  Every lemma is parametric in [sha1] and [ed_verify]. *)
From Dht Require Import Base Bep44 Int160Proofs.
From DhtGen Require Import Params.
From Coq Require Import ZifyBool.
Local Open Scope Z_scope.

(* ---------- byte-string equality ---------- *)
Lemma bytes_eqb_refl a : bytes_eqb a a = true.
Proof. apply bytes_eqb_eq. reflexivity. Qed.

Lemma bytes_eqb_neq a b : bytes_eqb a b = false <-> a <> b.
Proof.
  split.
  - intros H E. subst. rewrite bytes_eqb_refl in H. discriminate.
  - intros H. destruct (bytes_eqb a b) eqn:E; [|reflexivity]. apply bytes_eqb_eq in E. contradiction.
Qed.

Lemma bytes_eqb_spec a b : reflect (a = b) (bytes_eqb a b).
Proof.
  destruct (bytes_eqb a b) eqn:E; constructor.
  - apply bytes_eqb_eq. exact E.
  - apply bytes_eqb_neq. exact E.
Qed.

Lemma bytes_eqb_sym a b : bytes_eqb a b = bytes_eqb b a.
Proof.
  destruct (bytes_eqb_spec a b) as [->|H]; [symmetry; apply bytes_eqb_refl|].
  symmetry. apply bytes_eqb_neq. congruence.
Qed.

(* ---------- the store is a finite map ---------- *)
Lemma store_get_del_same t s : store_get t (store_del t s) = None.
Proof.
  induction s as [|[t' i] s IH]; cbn [store_del store_get]; [reflexivity|].
  destruct (bytes_eqb t t') eqn:E; [exact IH|]. cbn [store_get]. rewrite E. exact IH.
Qed.

Lemma store_get_del_other t t' s : t <> t' -> store_get t' (store_del t s) = store_get t' s.
Proof.
  intros Hne. induction s as [|[u i] s IH]; cbn [store_del store_get]; [reflexivity|].
  destruct (bytes_eqb_spec t u) as [->|Htu].
  - rewrite IH. destruct (bytes_eqb_spec t' u) as [->|_]; [congruence|reflexivity].
  - cbn [store_get]. rewrite IH. reflexivity.
Qed.

Lemma store_get_del t t' s :
  store_get t' (store_del t s) = if bytes_eqb t' t then None else store_get t' s.
Proof.
  destruct (bytes_eqb_spec t' t) as [->|H].
  - apply store_get_del_same.
  - apply store_get_del_other. congruence.
Qed.

Lemma store_get_put t t' i s :
  store_get t' (store_put t i s) = if bytes_eqb t' t then Some i else store_get t' s.
Proof.
  unfold store_put. cbn [store_get]. destruct (bytes_eqb_spec t' t) as [->|H]; [reflexivity|].
  apply store_get_del_other. congruence.
Qed.

Lemma store_get_put_same t i s : store_get t (store_put t i s) = Some i.
Proof. rewrite store_get_put, bytes_eqb_refl. reflexivity. Qed.

Lemma seq_of_some t s a : seq_of t s = Some a <-> exists i, store_get t s = Some i /\ it_seq i = a.
Proof.
  unfold seq_of. destruct (store_get t s) as [i|]; cbn [option_map]; split.
  - intros H. injection H as <-. eauto.
  - intros [j [H1 H2]]. injection H1 as <-. congruence.
  - discriminate.
  - intros [j [H1 _]]. discriminate.
Qed.

(* ---------- decimal rendering is exact (no digit is lost) ---------- *)
Definition undec (l : bytes) : N := fold_left (fun a d => a * 10 + (Byte.to_N d - 48))%N l 0%N.

Lemma undec_acc l a :
  fold_left (fun a d => a * 10 + (Byte.to_N d - 48))%N l a
  = (a * 10 ^ N.of_nat (length l) + undec l)%N.
Proof.
  unfold undec. revert a. induction l as [|d l IH]; intros a.
  - cbn. lia.
  - cbn [fold_left length]. rewrite (IH (a * 10 + _)%N), (IH (0 * 10 + _)%N).
    rewrite Nat2N.inj_succ, N.pow_succ_r'. lia.
Qed.

Lemma digit_roundtrip d : (d < 10)%N -> (Byte.to_N (byte_of_N (48 + d)) - 48 = d)%N.
Proof.
  intros H. unfold byte_of_N. rewrite N.mod_small by lia.
  destruct (Byte.of_N (48 + d)) as [b|] eqn:E.
  - apply Byte.to_of_N in E. lia.
  - apply Byte.of_N_None_iff in E. lia.
Qed.

Lemma dec_aux_spec fuel : forall n acc,
  (n < 2 ^ N.of_nat fuel)%N -> fuel <> O ->
  exists ds, dec_aux fuel n acc = ds ++ acc /\ undec ds = n /\ ds <> [].
Proof.
  induction fuel as [|f IH]; intros n acc Hn Hf; [congruence|].
  cbn [dec_aux]. destruct (N.ltb_spec n 10) as [Hlt|Hge].
  - exists [byte_of_N (48 + n mod 10)]. split; [reflexivity|]. split; [|discriminate].
    unfold undec. cbn [fold_left]. rewrite N.mod_small by lia. rewrite digit_roundtrip by lia. lia.
  - assert (Hf' : f <> O).
    { intros ->. cbn in Hn. lia. }
    assert (Hn' : (n / 10 < 2 ^ N.of_nat f)%N).
    { rewrite Nat2N.inj_succ, N.pow_succ_r' in Hn.
      apply N.div_lt_upper_bound; [lia|]. lia. }
    destruct (IH (n / 10)%N (byte_of_N (48 + n mod 10) :: acc) Hn' Hf') as [ds [E [U Hne]]].
    exists (ds ++ [byte_of_N (48 + n mod 10)]). split; [|split].
    + rewrite E, <- app_assoc. reflexivity.
    + unfold undec. rewrite fold_left_app. fold (undec ds). rewrite U. cbn [fold_left].
      rewrite digit_roundtrip by (apply N.mod_lt; lia).
      pose proof (N.div_mod n 10). lia.
    + destruct ds; discriminate.
Qed.

Theorem dec_N_roundtrip n : undec (dec_N n) = n.
Proof.
  unfold dec_N.
  destruct (dec_aux_spec (S (N.to_nat (N.size n))) n []) as [ds [E [U _]]].
  - rewrite Nat2N.inj_succ, N2Nat.id. pose proof (N.size_gt n).
    rewrite N.pow_succ_r'. lia.
  - congruence.
  - rewrite E, app_nil_r. exact U.
Qed.

Theorem dec_N_inj a b : dec_N a = dec_N b -> a = b.
Proof. intros H. rewrite <- (dec_N_roundtrip a), <- (dec_N_roundtrip b), H. reflexivity. Qed.

Section Proofs.
  Variable sha1 : bytes -> bytes.
  Variable ed_verify : bytes -> bytes -> bytes -> bool.

  Notation target := (target sha1).
  Notation check := (check ed_verify).
  Notation wrapper_put := (wrapper_put sha1 ed_verify).
  Notation wrapper_get := (wrapper_get).
  Notation handle_put := (handle_put sha1 ed_verify).
  Notation server_put_local := (server_put_local sha1 ed_verify).
  Notation seq_step := (seq_step sha1 ed_verify).
  Notation seq_run := (seq_run sha1 ed_verify).

  (* ================= C12: what may be in the store ================= *)

  (* the item [i] is a legitimate content of slot [t] *)
  Definition item_ok (t : bytes) (i : item) : Prop :=
    blen (it_bv i) <= bep44_max_v /\
    (is_mutable i = true ->
       ed_verify (it_k i) (buffer_to_sign (it_salt i) (it_bv i) (it_seq i)) (it_sig i) = true /\
       blen (it_salt i) <= bep44_max_salt /\
       t = sha1 (it_k i ++ it_salt i)) /\
    (is_mutable i = false -> t = sha1 (it_bv i)).

  Definition store_ok (s : store) : Prop := forall t i, store_get t s = Some i -> item_ok t i.

  (* exact characterisation of Check, with the code's priority *)
  Lemma check_spec i :
    (check i = Some bep44_ErrValueFieldTooBig <-> bep44_max_v < blen (it_bv i)) /\
    (check i = Some bep44_ErrSaltFieldTooBig <->
       blen (it_bv i) <= bep44_max_v /\ is_mutable i = true /\ bep44_max_salt < blen (it_salt i)) /\
    (check i = Some bep44_ErrInvalidSignature <->
       blen (it_bv i) <= bep44_max_v /\ is_mutable i = true /\ blen (it_salt i) <= bep44_max_salt /\
       verify_item ed_verify i = false) /\
    (check i = None <->
       blen (it_bv i) <= bep44_max_v /\
       (is_mutable i = true -> blen (it_salt i) <= bep44_max_salt /\ verify_item ed_verify i = true)) /\
    (forall e, check i = Some e ->
       e = bep44_ErrValueFieldTooBig \/ e = bep44_ErrSaltFieldTooBig \/ e = bep44_ErrInvalidSignature).
  Proof.
    unfold Bep44.check.
    destruct (Z.ltb_spec bep44_max_v (blen (it_bv i))) as [Hv|Hv];
      [|destruct (is_mutable i) eqn:Hm; cbn [negb];
        [destruct (Z.ltb_spec bep44_max_salt (blen (it_salt i))) as [Hs|Hs];
         [|destruct (verify_item ed_verify i) eqn:Hy; cbn [negb]]|]];
      (split; [|split; [|split; [|split]]]);
      try (intros e He; first [discriminate He | injection He as <-; auto]; fail);
      (split; intros H; try discriminate H; try lia; try reflexivity;
       try (intuition (try discriminate; try lia; try congruence); fail)).
  Qed.

  Lemma check_none_ok i : check i = None -> item_ok (target i) i.
  Proof.
    intros H. apply (proj1 (proj2 (proj2 (proj2 (check_spec i))))) in H. destruct H as [Hv Hm].
    unfold item_ok, Bep44.target, mutable_target. split; [exact Hv|]. split.
    - intros M. rewrite M. destruct (Hm M) as [Hs Hy]. repeat split; auto.
    - intros M. rewrite M. reflexivity.
  Qed.

  Lemma item_ok_stamp t now i : item_ok t i -> item_ok t (stamp now i).
  Proof. intros H. exact H. Qed.

  Lemma target_stamp now i : target (stamp now i) = target i.
  Proof. reflexivity. Qed.

  (* ---- Wrapper.Put: shape of every outcome ---- *)
  Lemma wrapper_put_cases v now i s :
    (exists e, wrapper_put v now i s = (PErr e, s)) \/
    (wrapper_put v now i s = (POk, store_put (target i) (stamp now i) s) /\ check i = None /\
     match store_get (target i) s with
     | None => True
     | Some st => check_incoming v st i = None
     end).
  Proof.
    unfold Bep44.wrapper_put. destruct (check i) as [e|] eqn:C; [left; eauto|].
    destruct (store_get (target i) s) as [st|] eqn:G.
    - destruct (check_incoming v st i) as [e|] eqn:CI; [left; eauto|]. right. auto.
    - right. auto.
  Qed.

  Theorem wrapper_put_rejected_unchanged v now i s r s' :
    wrapper_put v now i s = (r, s') -> r <> POk -> s' = s.
  Proof.
    intros H Hr. destruct (wrapper_put_cases v now i s) as [[e E]|[E _]]; rewrite E in H.
    - injection H as _ <-. reflexivity.
    - injection H as <- _. congruence.
  Qed.

  Theorem wrapper_put_never_other v now i s : fst (wrapper_put v now i s) <> POther.
  Proof.
    destruct (wrapper_put_cases v now i s) as [[e E]|[E _]]; rewrite E; discriminate.
  Qed.

  Lemma wrapper_put_check_failed v now i s e :
    check i = Some e -> wrapper_put v now i s = (PErr e, s).
  Proof. intros H. unfold Bep44.wrapper_put. rewrite H. reflexivity. Qed.

  Lemma store_ok_put t i s : store_ok s -> item_ok t i -> store_ok (store_put t i s).
  Proof.
    intros Hs Hi t' j. rewrite store_get_put. destruct (bytes_eqb_spec t' t) as [->|_].
    - intros H. injection H as <-. exact Hi.
    - apply Hs.
  Qed.

  Lemma store_ok_del t s : store_ok s -> store_ok (store_del t s).
  Proof.
    intros Hs t' j. rewrite store_get_del. destruct (bytes_eqb t' t); [discriminate|apply Hs].
  Qed.

  Lemma wrapper_put_ok_inv v now i s : store_ok s -> store_ok (snd (wrapper_put v now i s)).
  Proof.
    intros Hs. destruct (wrapper_put_cases v now i s) as [[e E]|[E [C _]]]; rewrite E; cbn [snd]; auto.
    apply store_ok_put; auto. apply item_ok_stamp, check_none_ok, C.
  Qed.

  (* ---- Wrapper.Get ---- *)
  Lemma wrapper_get_cases exp now t s :
    (store_get t s = None /\ wrapper_get exp now t s = (None, s)) \/
    (exists i, store_get t s = Some i /\ now < it_created i + exp /\ wrapper_get exp now t s = (Some i, s)) \/
    (exists i, store_get t s = Some i /\ it_created i + exp <= now /\
               wrapper_get exp now t s = (None, store_del t s)).
  Proof.
    unfold Bep44.wrapper_get. destruct (store_get t s) as [i|]; [|left; auto]. right.
    destruct (Z.ltb_spec now (it_created i + exp)); [left|right]; exists i; auto.
  Qed.

  Lemma wrapper_get_ok_inv exp now t s : store_ok s -> store_ok (snd (wrapper_get exp now t s)).
  Proof.
    intros Hs.
    destruct (wrapper_get_cases exp now t s) as [[_ E]|[[i [_ [_ E]]]|[i [_ [_ E]]]]]; rewrite E; cbn [snd]; auto.
    apply store_ok_del, Hs.
  Qed.

  (* what a get returns is the stored item of that target, still within its lifetime *)
  Theorem wrapper_get_served exp now t s i s' :
    wrapper_get exp now t s = (Some i, s') ->
    store_get t s = Some i /\ s' = s /\ now < it_created i + exp.
  Proof.
    intros H.
    destruct (wrapper_get_cases exp now t s) as [[_ E]|[[j [G [L E]]]|[j [_ [_ E]]]]]; rewrite E in H;
      try discriminate.
    injection H as <- <-. auto.
  Qed.

  Theorem handle_get_served exp now t sq s g s' :
    Bep44.handle_get exp now t sq s = (g, s') ->
    (forall q, gr_seq g = Some q -> exists i, store_get t s = Some i /\ it_seq i = q /\ now < it_created i + exp) /\
    (forall bv k sg, gr_val g = Some (bv, k, sg) ->
       exists i, store_get t s = Some i /\ now < it_created i + exp /\
                 bv = it_bv i /\ k = it_k i /\ sg = it_sig i /\ gr_seq g = Some (it_seq i)).
  Proof.
    unfold Bep44.handle_get. intros H.
    destruct (Bep44.wrapper_get exp now t s) as [[i|] s1] eqn:W.
    - apply wrapper_get_served in W. destruct W as [G [-> L]]. injection H as <- <-. cbn [gr_seq gr_val]. split.
      + intros q Hq. injection Hq as <-. eauto.
      + intros bv k sg Hv. exists i.
        destruct (match sq with Some n => it_seq i <=? n | None => false end); [discriminate|].
        injection Hv as <- <- <-. auto 10.
    - injection H as <- <-. cbn [gr_seq gr_val]. split; intros; discriminate.
  Qed.

  (* ---- histories ---- *)
  Lemma seq_step_store_ok v exp st e : store_ok (s_store st) -> store_ok (s_store (fst (seq_step v exp st e))).
  Proof.
    intros Hs. destruct e as [i|t|d|a|t sq|p]; unfold Bep44.seq_step.
    - pose proof (wrapper_put_ok_inv v (s_clock st) i _ Hs) as H.
      destruct (wrapper_put v (s_clock st) i (s_store st)). exact H.
    - pose proof (wrapper_get_ok_inv exp (s_clock st) t _ Hs) as H.
      destruct (Bep44.wrapper_get exp (s_clock st) t (s_store st)). exact H.
    - exact Hs.
    - unfold Bep44.handle_put. destruct (pa_seq a) as [q|]; [|exact Hs].
      pose proof (wrapper_put_ok_inv v (s_clock st) (item_of_args a q) _ Hs) as H.
      destruct (wrapper_put v (s_clock st) (item_of_args a q) (s_store st)). exact H.
    - unfold Bep44.handle_get.
      pose proof (wrapper_get_ok_inv exp (s_clock st) t _ Hs) as H.
      destruct (Bep44.wrapper_get exp (s_clock st) t (s_store st)) as [[i|] s1]; exact H.
    - unfold Bep44.server_put_local.
      pose proof (wrapper_put_ok_inv v (s_clock st) (put_to_item p) _ Hs) as H.
      destruct (wrapper_put v (s_clock st) (put_to_item p) (s_store st)) as [[| |] s1]; exact H.
  Qed.

  Theorem seq_run_store_ok v exp evs st : store_ok (s_store st) -> store_ok (s_store (seq_run v exp evs st)).
  Proof.
    revert st. induction evs as [|e evs IH]; intros st Hs; [exact Hs|].
    cbn [Bep44.seq_run fold_left]. apply IH, seq_step_store_ok, Hs.
  Qed.

  Lemma store_ok_empty : store_ok [].
  Proof. intros t i H. discriminate. Qed.

  (* a rejected put (any entry point) leaves the store unchanged *)
  Theorem handle_put_rejected_unchanged v now a s c s' :
    handle_put v now a s = (SError c, s') -> s' = s.
  Proof.
    unfold Bep44.handle_put. destruct (pa_seq a) as [q|].
    - destruct (wrapper_put v now (item_of_args a q) s) as [r s1] eqn:W. intros H. injection H as H <-.
      apply (wrapper_put_rejected_unchanged _ _ _ _ _ _ W). intros ->. discriminate.
    - intros H. injection H as _ <-. reflexivity.
  Qed.

  Theorem server_put_local_rejected_unchanged v now p s r s' :
    server_put_local v now p s = (LErr r, s') -> s' = s /\ r <> POk.
  Proof.
    unfold Bep44.server_put_local.
    destruct (wrapper_put v now (put_to_item p) s) as [r1 s1] eqn:W. intros H.
    destruct r1; try discriminate; injection H as <- <-;
      (split; [apply (wrapper_put_rejected_unchanged _ _ _ _ _ _ W)|]; discriminate).
  Qed.

  (* the local API sends the query only after the local store accepted the item *)
  Theorem server_put_local_query v now p s a s' :
    server_put_local v now p s = (LQuery a, s') ->
    wrapper_put v now (put_to_item p) s = (POk, s') /\ a = args_of_put p.
  Proof.
    unfold Bep44.server_put_local.
    destruct (wrapper_put v now (put_to_item p) s) as [r1 s1] eqn:W. intros H.
    destruct r1; try discriminate. injection H as <- <-. auto.
  Qed.

  (* the wire error of a put: exactly the code of Check / CheckIncoming; 203 without seq *)
  Theorem handle_put_codes v now a s :
    (pa_seq a = None -> handle_put v now a s = (SError err_ProtocolError, s)) /\
    (forall q, pa_seq a = Some q ->
       handle_put v now a s =
       (put_result_to_wire (fst (wrapper_put v now (item_of_args a q) s)),
        snd (wrapper_put v now (item_of_args a q) s))).
  Proof.
    unfold Bep44.handle_put. split.
    - intros ->. reflexivity.
    - intros q ->. destruct (wrapper_put v now (item_of_args a q) s). reflexivity.
  Qed.

  (* ================= C13: sequential ================= *)

  (* the decision table of a put against a stored item (repaired rule) *)
  Definition decision (st i : item) : put_res :=
    if (it_seq i <? it_seq st) || ((it_seq i =? it_seq st) && negb (bytes_eqb (it_bv st) (it_bv i)))
    then PErr bep44_ErrSequenceNumberLessThanCurrent
    else if negb (it_cas i =? 0) && negb (it_cas i =? it_seq st)
    then PErr bep44_ErrCasHashMismatched
    else POk.

  Lemma check_incoming_decision st i :
    match check_incoming Repaired st i with Some e => PErr e | None => POk end = decision st i.
  Proof.
    unfold check_incoming, decision, same_version.
    destruct (bytes_eqb (it_bv st) (it_bv i)); cbn [negb andb orb];
      destruct (Z.eqb_spec (it_seq st) (it_seq i)); destruct (Z.eqb_spec (it_seq i) (it_seq st));
      destruct (Z.leb_spec (it_seq i) (it_seq st)); destruct (Z.ltb_spec (it_seq i) (it_seq st));
      cbn [negb andb orb]; try lia; try reflexivity;
      destruct (negb (it_cas i =? 0) && negb (it_cas i =? it_seq st)); reflexivity.
  Qed.

  Theorem wrapper_put_decision now i s st :
    check i = None -> store_get (target i) s = Some st ->
    wrapper_put Repaired now i s =
      (decision st i,
       match decision st i with POk => store_put (target i) (stamp now i) s | _ => s end).
  Proof.
    intros C G. unfold Bep44.wrapper_put. rewrite C, G. rewrite <- check_incoming_decision.
    destruct (check_incoming Repaired st i); reflexivity.
  Qed.

  Theorem wrapper_put_fresh v now i s :
    check i = None -> store_get (target i) s = None ->
    wrapper_put v now i s = (POk, store_put (target i) (stamp now i) s).
  Proof. intros C G. unfold Bep44.wrapper_put. rewrite C, G. reflexivity. Qed.

  (* the same table in propositional form *)
  Theorem wrapper_put_decision_prop now i s st :
    check i = None -> store_get (target i) s = Some st ->
    let lower := it_seq i < it_seq st \/ (it_seq i = it_seq st /\ it_bv i <> it_bv st) in
    let casbad := it_cas i <> 0 /\ it_cas i <> it_seq st in
    (lower -> wrapper_put Repaired now i s = (PErr bep44_ErrSequenceNumberLessThanCurrent, s)) /\
    (~ lower -> casbad -> wrapper_put Repaired now i s = (PErr bep44_ErrCasHashMismatched, s)) /\
    (~ lower -> ~ casbad ->
       wrapper_put Repaired now i s = (POk, store_put (target i) (stamp now i) s)).
  Proof.
    intros C G. cbv zeta. rewrite (wrapper_put_decision now i s st C G). unfold decision.
    destruct (bytes_eqb_spec (it_bv st) (it_bv i)) as [Eb|Eb]; cbn [negb andb orb];
      destruct (Z.ltb_spec (it_seq i) (it_seq st)); destruct (Z.eqb_spec (it_seq i) (it_seq st));
      destruct (Z.eqb_spec (it_cas i) 0); destruct (Z.eqb_spec (it_cas i) (it_seq st));
      cbn [negb andb orb];
      (split; [|split]); intros; try reflexivity; exfalso;
      repeat match goal with
             | H : _ \/ _ |- _ => destruct H
             | H : _ /\ _ |- _ => destruct H
             end; try lia; try congruence;
      try (match goal with H : ~ (_ \/ _) |- _ => apply H; try (left; lia); try (right; split; [lia|congruence]) end; fail);
      try (match goal with H : ~ (_ /\ _) |- _ => apply H; split; lia end; fail).
  Qed.

  (* in both variants an accepted put never lowers the sequence number *)
  Lemma check_incoming_none_seq v st i : check_incoming v st i = None -> it_seq st <= it_seq i.
  Proof.
    destruct v; unfold check_incoming, same_version.
    - destruct (Z.eqb_spec (it_seq st) (it_seq i)); [lia|]. cbn [andb].
      destruct (Z.leb_spec (it_seq i) (it_seq st)); [discriminate|lia].
    - destruct (Z.eqb_spec (it_seq st) (it_seq i)); [lia|]. cbn [andb negb].
      destruct (Z.leb_spec (it_seq i) (it_seq st)); [discriminate|lia].
  Qed.

  (* one put: no slot disappears, no sequence number decreases *)
  Lemma wrapper_put_mono v now i s t a :
    seq_of t s = Some a -> exists b, seq_of t (snd (wrapper_put v now i s)) = Some b /\ a <= b.
  Proof.
    intros Ha. destruct (wrapper_put_cases v now i s) as [[e E]|[E [_ CI]]]; rewrite E; cbn [snd].
    - exists a. split; [exact Ha|lia].
    - unfold seq_of in *. rewrite store_get_put. destruct (bytes_eqb_spec t (target i)) as [->|_].
      + cbn [option_map stamp it_seq]. destruct (store_get (target i) s) as [st|]; [|discriminate].
        cbn [option_map] in Ha. injection Ha as <-. eexists. split; [reflexivity|].
        apply (check_incoming_none_seq v), CI.
      + exists a. split; [exact Ha|lia].
  Qed.

  (* one get: a slot is unchanged, or deleted because it expired *)
  Lemma wrapper_get_frame exp now t s t' :
    store_get t' (snd (wrapper_get exp now t s)) = store_get t' s \/
    (t' = t /\ store_get t' (snd (wrapper_get exp now t s)) = None /\
     exists i, store_get t s = Some i /\ it_created i + exp <= now).
  Proof.
    destruct (wrapper_get_cases exp now t s) as [[_ E]|[[i [_ [_ E]]]|[i [G [L E]]]]]; rewrite E; cbn [snd];
      auto.
    rewrite store_get_del. destruct (bytes_eqb_spec t' t) as [->|_]; [right|left]; eauto.
  Qed.

  (* every event: a present slot either keeps/raises its seq, or was deleted by an expired get *)
  Lemma seq_step_mono v exp st e t a :
    seq_of t (s_store st) = Some a ->
    (exists b, seq_of t (s_store (fst (seq_step v exp st e))) = Some b /\ a <= b) \/
    (seq_of t (s_store (fst (seq_step v exp st e))) = None /\
     (e = EGet t \/ exists sq, e = EWireGet t sq) /\
     exists i, store_get t (s_store st) = Some i /\ it_created i + exp <= s_clock st).
  Proof.
    intros Ha.
    assert (Hget : forall tt, let r := Bep44.wrapper_get exp (s_clock st) tt (s_store st) in
       (exists b, seq_of t (snd r) = Some b /\ a <= b) \/
       (seq_of t (snd r) = None /\ t = tt /\
        exists i, store_get t (s_store st) = Some i /\ it_created i + exp <= s_clock st)).
    { intros tt r. subst r.
      destruct (wrapper_get_frame exp (s_clock st) tt (s_store st) t) as [E|[-> [E X]]].
      - left. exists a. unfold seq_of in *. rewrite E. split; [exact Ha|lia].
      - right. unfold seq_of. rewrite E. auto. }
    destruct e as [i|tt|d|ar|tt sq|p]; unfold Bep44.seq_step.
    - left. pose proof (wrapper_put_mono v (s_clock st) i _ t a Ha) as H.
      destruct (wrapper_put v (s_clock st) i (s_store st)). exact H.
    - specialize (Hget tt). cbv zeta in Hget.
      destruct (Bep44.wrapper_get exp (s_clock st) tt (s_store st)) as [r s1]. cbn [snd fst s_store] in *.
      destruct Hget as [H|[H1 [-> H3]]]; [left; exact H|right]. auto.
    - left. exists a. split; [exact Ha|lia].
    - left. unfold Bep44.handle_put. destruct (pa_seq ar) as [q|].
      + pose proof (wrapper_put_mono v (s_clock st) (item_of_args ar q) _ t a Ha) as H.
        destruct (wrapper_put v (s_clock st) (item_of_args ar q) (s_store st)). exact H.
      + exists a. split; [exact Ha|lia].
    - specialize (Hget tt). cbv zeta in Hget. unfold Bep44.handle_get.
      destruct (Bep44.wrapper_get exp (s_clock st) tt (s_store st)) as [[i|] s1]; cbn [snd fst s_store] in *;
        (destruct Hget as [H|[H1 [-> H3]]]; [left; exact H|right]; eauto).
    - left. unfold Bep44.server_put_local.
      pose proof (wrapper_put_mono v (s_clock st) (put_to_item p) _ t a Ha) as H.
      destruct (wrapper_put v (s_clock st) (put_to_item p) (s_store st)) as [[| |] s1]; exact H.
  Qed.

  (* the slot [t] stays occupied during the whole history *)
  Fixpoint alive_run (v : variant) (exp : Z) (t : bytes) (evs : list event) (st : sstate) : Prop :=
    match evs with
    | [] => True
    | e :: r =>
        let st' := fst (seq_step v exp st e) in
        seq_of t (s_store st') <> None /\ alive_run v exp t r st'
    end.

  (* over every history: while the item lives its seq never decreases *)
  Theorem seq_run_monotone v exp t evs : forall st a,
    seq_of t (s_store st) = Some a -> alive_run v exp t evs st ->
    exists b, seq_of t (s_store (seq_run v exp evs st)) = Some b /\ a <= b.
  Proof.
    induction evs as [|e evs IH]; intros st a Ha Hal.
    - exists a. split; [exact Ha|lia].
    - cbn [alive_run] in Hal. destruct Hal as [Hne Hal]. cbn [Bep44.seq_run fold_left].
      destruct (seq_step_mono v exp st e t a Ha) as [[b [Hb Hab]]|[Hn _]]; [|contradiction].
      destruct (IH _ b Hb Hal) as [c [Hc Hbc]]. exists c. split; [exact Hc|lia].
  Qed.

  (* ---- an accepted put is what later gets return ---- *)
  Definition accepted_put_on (t : bytes) (e : event) (o : obs) : bool :=
    match e, o with
    | EPut i, OPut POk => bytes_eqb (target i) t
    | EWirePut a, OWirePut SReply =>
        match pa_seq a with Some q => bytes_eqb (target (item_of_args a q)) t | None => false end
    | ELocalPut p, OLocal (LQuery _) => bytes_eqb (target (put_to_item p)) t
    | _, _ => false
    end.

  (* no later accepted put on [t], and the clock stays before [deadline] *)
  Fixpoint quiet_run (v : variant) (exp : Z) (t : bytes) (deadline : Z) (evs : list event) (st : sstate) : Prop :=
    match evs with
    | [] => True
    | e :: r =>
        s_clock st < deadline /\
        accepted_put_on t e (snd (seq_step v exp st e)) = false /\
        quiet_run v exp t deadline r (fst (seq_step v exp st e))
    end.

  Fixpoint seq_trace (v : variant) (exp : Z) (evs : list event) (st : sstate) : list (sstate * event * obs) :=
    match evs with
    | [] => []
    | e :: r => (st, e, snd (seq_step v exp st e)) :: seq_trace v exp r (fst (seq_step v exp st e))
    end.

  Lemma wrapper_put_frame v now i s t :
    let r := wrapper_put v now i s in
    store_get t (snd r) = store_get t s \/ (fst r = POk /\ target i = t).
  Proof.
    cbv zeta. destruct (wrapper_put_cases v now i s) as [[e E]|[E _]]; rewrite E; cbn [fst snd]; auto.
    rewrite store_get_put. destruct (bytes_eqb_spec t (target i)) as [->|_]; auto.
  Qed.

  Lemma seq_step_quiet v exp st e t x :
    store_get t (s_store st) = Some x -> s_clock st < it_created x + exp ->
    accepted_put_on t e (snd (seq_step v exp st e)) = false ->
    store_get t (s_store (fst (seq_step v exp st e))) = Some x /\
    (e = EGet t -> snd (seq_step v exp st e) = OGet (Some x)) /\
    (forall sq, e = EWireGet t sq ->
       snd (seq_step v exp st e) =
       OWireGet (mkGetReply (Some (it_seq x))
                   (if match sq with Some n => it_seq x <=? n | None => false end then None
                    else Some (it_bv x, it_k x, it_sig x)))).
  Proof.
    intros G L Q.
    assert (Hget : forall tt, store_get t (snd (Bep44.wrapper_get exp (s_clock st) tt (s_store st))) = Some x /\
                              (tt = t -> Bep44.wrapper_get exp (s_clock st) tt (s_store st) = (Some x, s_store st))).
    { intros tt. split.
      - destruct (wrapper_get_frame exp (s_clock st) tt (s_store st) t) as [E|[-> [_ [i [Gi Li]]]]].
        + rewrite E. exact G.
        + rewrite G in Gi. injection Gi as <-. lia.
      - intros ->. unfold Bep44.wrapper_get. rewrite G.
        destruct (Z.ltb_spec (s_clock st) (it_created x + exp)); [reflexivity|lia]. }
    destruct e as [i|tt|d|ar|tt sq|p]; unfold Bep44.seq_step in *; cbn [accepted_put_on] in Q.
    - pose proof (wrapper_put_frame v (s_clock st) i (s_store st) t) as F. cbv zeta in F.
      destruct (wrapper_put v (s_clock st) i (s_store st)) as [r s1]. cbn [fst snd s_store] in *.
      split; [|split; intros; discriminate].
      destruct F as [F|[-> F]]; [rewrite F; exact G|]. rewrite F, bytes_eqb_refl in Q. discriminate.
    - destruct (Hget tt) as [H1 H2].
      destruct (Bep44.wrapper_get exp (s_clock st) tt (s_store st)) as [r s1]. cbn [fst snd s_store] in *.
      split; [exact H1|]. split; [|intros; discriminate].
      intros E. injection E as ->. specialize (H2 eq_refl). injection H2 as -> _. reflexivity.
    - cbn [fst snd s_store]. split; [exact G|]. split; intros; discriminate.
    - unfold Bep44.handle_put in *. destruct (pa_seq ar) as [q|].
      + pose proof (wrapper_put_frame v (s_clock st) (item_of_args ar q) (s_store st) t) as F. cbv zeta in F.
        destruct (wrapper_put v (s_clock st) (item_of_args ar q) (s_store st)) as [r s1]. cbn [fst snd s_store] in *.
        split; [|split; intros; discriminate].
        destruct F as [F|[-> F]]; [rewrite F; exact G|]. cbn [put_result_to_wire] in Q.
        rewrite F, bytes_eqb_refl in Q. discriminate.
      + cbn [fst snd s_store]. split; [exact G|]. split; intros; discriminate.
    - unfold Bep44.handle_get in *. destruct (Hget tt) as [H1 H2].
      destruct (Bep44.wrapper_get exp (s_clock st) tt (s_store st)) as [[i|] s1] eqn:W; cbn [fst snd s_store] in *.
      + split; [exact H1|]. split; [intros; discriminate|].
        intros sq' E. injection E as -> <-. specialize (H2 eq_refl). injection H2 as -> _. reflexivity.
      + split; [exact H1|]. split; [intros; discriminate|].
        intros sq' E. injection E as -> <-. specialize (H2 eq_refl). discriminate.
    - unfold Bep44.server_put_local in *.
      pose proof (wrapper_put_frame v (s_clock st) (put_to_item p) (s_store st) t) as F. cbv zeta in F.
      destruct (wrapper_put v (s_clock st) (put_to_item p) (s_store st)) as [r s1]. cbn [fst snd s_store] in *.
      destruct F as [F|[-> F]].
      + destruct r; cbn [fst snd s_store]; (split; [rewrite F; exact G|split; intros; discriminate]).
      + cbn [fst snd] in Q. rewrite F, bytes_eqb_refl in Q. discriminate.
  Qed.

  Theorem quiet_run_served v exp t x evs : forall st,
    store_get t (s_store st) = Some x ->
    quiet_run v exp t (it_created x + exp) evs st ->
    store_get t (s_store (seq_run v exp evs st)) = Some x /\
    Forall (fun '(st', e, o) =>
              (e = EGet t -> o = OGet (Some x)) /\
              (forall sq, e = EWireGet t sq ->
                 o = OWireGet (mkGetReply (Some (it_seq x))
                        (if match sq with Some n => it_seq x <=? n | None => false end then None
                         else Some (it_bv x, it_k x, it_sig x)))))
           (seq_trace v exp evs st).
  Proof.
    induction evs as [|e evs IH]; intros st G Q.
    - split; [exact G|constructor].
    - cbn [quiet_run] in Q. destruct Q as [L [Q1 Q2]].
      destruct (seq_step_quiet v exp st e t x G L Q1) as [G' [H1 H2]].
      destruct (IH _ G' Q2) as [G'' F]. cbn [Bep44.seq_run fold_left seq_trace]. split; [exact G''|].
      constructor; [split; assumption|exact F].
  Qed.

  Lemma wrapper_put_accepted_stored v now i s s' :
    wrapper_put v now i s = (POk, s') -> store_get (target i) s' = Some (stamp now i).
  Proof.
    intros H. destruct (wrapper_put_cases v now i s) as [[e E]|[E _]]; rewrite E in H; [discriminate|].
    injection H as <-. apply store_get_put_same.
  Qed.

  (* an accepted put is what every later get returns, until a later accepted put or the expiry *)
  Theorem accepted_is_served v exp now i s s1 evs :
    wrapper_put v now i s = (POk, s1) ->
    quiet_run v exp (target i) (now + exp) evs (mkSState now s1) ->
    let x := stamp now i in
    store_get (target i) (s_store (seq_run v exp evs (mkSState now s1))) = Some x /\
    Forall (fun '(st', e, o) =>
              (e = EGet (target i) -> o = OGet (Some x)) /\
              (forall sq, e = EWireGet (target i) sq ->
                 o = OWireGet (mkGetReply (Some (it_seq i))
                        (if match sq with Some n => it_seq i <=? n | None => false end then None
                         else Some (it_bv i, it_k i, it_sig i)))))
           (seq_trace v exp evs (mkSState now s1)).
  Proof.
    intros W Q. cbv zeta. apply wrapper_put_accepted_stored in W.
    apply (quiet_run_served v exp (target i) (stamp now i) evs (mkSState now s1) W Q).
  Qed.

  (* ---- expiry ---- *)
  Theorem wrapper_get_expired exp now t s i :
    store_get t s = Some i -> it_created i + exp <= now ->
    wrapper_get exp now t s = (None, store_del t s) /\
    forall now', wrapper_get exp now' t (store_del t s) = (None, store_del t s).
  Proof.
    intros G L. split.
    - unfold Bep44.wrapper_get. rewrite G. destruct (Z.ltb_spec now (it_created i + exp)); [lia|reflexivity].
    - intros now'. unfold Bep44.wrapper_get. rewrite store_get_del_same. reflexivity.
  Qed.

  Theorem handle_get_expired exp now t sq s i :
    store_get t s = Some i -> it_created i + exp <= now ->
    Bep44.handle_get exp now t sq s = (mkGetReply None None, store_del t s).
  Proof.
    intros G L. unfold Bep44.handle_get.
    rewrite (proj1 (wrapper_get_expired exp now t s i G L)). reflexivity.
  Qed.

  (* ---- seq-gated get ---- *)
  Theorem handle_get_seq exp now t sq s :
    (gr_val (fst (Bep44.handle_get exp now t sq s)) <> None <->
     exists i, store_get t s = Some i /\ now < it_created i + exp /\
               match sq with Some n => n < it_seq i | None => True end).
  Proof.
    unfold Bep44.handle_get.
    destruct (wrapper_get_cases exp now t s) as [[G E]|[[i [G [L E]]]|[i [G [L E]]]]]; rewrite E; cbn [fst gr_val].
    - split; [congruence|]. intros [i [Gi _]]. congruence.
    - destruct sq as [n|].
      + destruct (Z.leb_spec (it_seq i) n) as [Hle|Hgt].
        * split; [congruence|]. intros [j [Gj [_ Hj]]]. rewrite G in Gj. injection Gj as <-. lia.
        * split; [intros _; exists i; auto|intros _; discriminate].
      + split; [intros _; exists i; auto|intros _; discriminate].
    - split; [congruence|]. intros [j [Gj [Lj _]]]. rewrite G in Gj. injection Gj as <-. lia.
  Qed.

  (* ================= C12: client side ================= *)
  Notation client_accept := (client_accept sha1 ed_verify).
  Notation client_get := (client_get sha1 ed_verify).
  Notation client_autoseq := (client_autoseq sha1 ed_verify).

  (* [g] is a value the requested target vouches for *)
  Definition vouched (tgt salt : bytes) (g : get_result) : Prop :=
    (res_mutable g = false /\ sha1 (res_v g) = tgt) \/
    (res_mutable g = true /\
     exists k, sha1 (k ++ salt) = tgt /\
               ed_verify k (buffer_to_sign salt (res_v g) (res_seq g)) (res_sig g) = true).

  Lemma client_accept_sound v tgt salt r :
    match client_accept v tgt salt r with
    | AccImm g => res_mutable g = false /\ sha1 (res_v g) = tgt /\ res_v g = r_v r /\ res_sig g = r_sig r
    | AccMut g =>
        res_mutable g = true /\ sha1 (r_k r ++ salt) = tgt /\ r_seq r = Some (res_seq g) /\
        res_v g = r_v r /\ res_sig g = r_sig r /\
        ed_verify (r_k r) (buffer_to_sign salt (res_v g) (res_seq g)) (res_sig g) = true
    | AccPanic => v = Pinned /\ sha1 (r_k r ++ salt) = tgt /\ r_seq r = None /\ sha1 (r_v r) <> tgt
    | AccNone => True
    end.
  Proof.
    unfold Bep44.client_accept.
    destruct (bytes_eqb_spec (sha1 (r_v r)) tgt) as [E1|E1]; [cbn; auto|].
    destruct (bytes_eqb_spec (sha1 (r_k r ++ salt)) tgt) as [E2|E2]; [|exact I].
    destruct (r_seq r) as [q|].
    - destruct (ed_verify (r_k r) (buffer_to_sign salt (r_v r) q) (r_sig r)) eqn:V; [|exact I].
      cbn. auto 10.
    - destruct v; [auto|exact I].
  Qed.

  Lemma client_accept_vouched v tgt salt r g :
    client_accept v tgt salt r = AccImm g \/ client_accept v tgt salt r = AccMut g -> vouched tgt salt g.
  Proof.
    pose proof (client_accept_sound v tgt salt r) as H. intros [E|E]; rewrite E in H.
    - left. tauto.
    - right. split; [tauto|]. exists (r_k r). tauto.
  Qed.

  (* the repaired rule never panics; the pinned one does exactly on "right key, no seq" *)
  Lemma client_accept_repaired_no_panic tgt salt r : client_accept Repaired tgt salt r <> AccPanic.
  Proof.
    pose proof (client_accept_sound Repaired tgt salt r) as H. intros E. rewrite E in H.
    destruct H. discriminate.
  Qed.

  (* generalised over the running value [cur] *)
  Lemma client_get_spec v tgt salt replies : forall cur g,
    client_get v tgt salt replies cur = COResult (Some g) ->
    (* provenance *)
    (cur = Some g \/
     exists r, In r replies /\ (client_accept v tgt salt r = AccImm g \/ client_accept v tgt salt r = AccMut g)) /\
    (* maximality among the mutable values when the result is mutable *)
    (res_mutable g = true ->
       (forall c, cur = Some c -> res_seq c <= res_seq g) /\
       forall r g', In r replies -> client_accept v tgt salt r = AccMut g' -> res_seq g' <= res_seq g).
  Proof.
    induction replies as [|r rest IH]; intros cur g H.
    - cbn [Bep44.client_get] in H. injection H as ->. split; [left; reflexivity|].
      intros _. split.
      + intros c E. injection E as <-. lia.
      + intros r g' [].
    - cbn [Bep44.client_get] in H.
      pose proof (client_accept_sound v tgt salt r) as S.
      destruct (client_accept v tgt salt r) as [|gi|gm|] eqn:A.
      + destruct (IH _ _ H) as [P M]. split.
        * destruct P as [P|[r' [I' P]]]; [left; exact P|right; exists r'; split; [right; exact I'|exact P]].
        * intros Hm. destruct (M Hm) as [M1 M2]. split; [exact M1|].
          intros r' g' [<-|I'] A'; [congruence|eauto].
      + injection H as <-. split.
        * right. exists r. split; [left; reflexivity|left; exact A].
        * intros Hm. destruct S as [S _]. congruence.
      + destruct (IH _ _ H) as [P M]. split.
        * destruct P as [P|[r' [I' P]]].
          -- destruct cur as [c|].
             ++ destruct (res_seq c <=? res_seq gm).
                ** injection P as <-. right. exists r. split; [left; reflexivity|right; exact A].
                ** left. exact P.
             ++ injection P as <-. right. exists r. split; [left; reflexivity|right; exact A].
          -- right. exists r'. split; [right; exact I'|exact P].
        * intros Hm. destruct (M Hm) as [M1 M2]. split.
          -- intros c E. subst cur. destruct (Z.leb_spec (res_seq c) (res_seq gm)).
             ++ specialize (M1 _ eq_refl). lia.
             ++ apply M1. reflexivity.
          -- intros r' g' [<-|I'] A'; [|eauto]. rewrite A in A'. injection A' as <-.
             destruct cur as [c|].
             ++ destruct (Z.leb_spec (res_seq c) (res_seq gm)).
                ** apply M1. reflexivity.
                ** specialize (M1 _ eq_refl). lia.
             ++ apply M1. reflexivity.
      + discriminate.
  Qed.

  (* a value handed to the caller is vouched for by the requested target *)
  Theorem client_get_sound v tgt salt replies g :
    client_get v tgt salt replies None = COResult (Some g) ->
    vouched tgt salt g /\ exists r, In r replies /\ res_v g = r_v r /\ res_sig g = r_sig r.
  Proof.
    intros H. destruct (client_get_spec v tgt salt replies None g H) as [[P|[r [I' P]]] _]; [discriminate|].
    split; [apply (client_accept_vouched v tgt salt r g P)|].
    exists r. split; [exact I'|].
    pose proof (client_accept_sound v tgt salt r) as S. destruct P as [E|E]; rewrite E in S; tauto.
  Qed.

  (* ... and among the accepted mutable values it has the greatest seq *)
  Theorem client_get_max v tgt salt replies g :
    client_get v tgt salt replies None = COResult (Some g) -> res_mutable g = true ->
    forall r g', In r replies -> client_accept v tgt salt r = AccMut g' -> res_seq g' <= res_seq g.
  Proof.
    intros H Hm. destruct (client_get_spec v tgt salt replies None g H) as [_ M]. apply (M Hm).
  Qed.

  (* an immutable result is the first accepted immutable value; nothing accepted -> nothing returned *)
  Theorem client_get_none v tgt salt replies :
    client_get v tgt salt replies None = COResult None ->
    forall r, In r replies -> client_accept v tgt salt r = AccNone.
  Proof.
    assert (G : forall cur, client_get v tgt salt replies cur = COResult None ->
                            cur = None /\ forall r, In r replies -> client_accept v tgt salt r = AccNone).
    { induction replies as [|r rest IH]; intros cur H.
      - cbn in H. injection H as ->. split; [reflexivity|intros r []].
      - cbn [Bep44.client_get] in H. destruct (client_accept v tgt salt r) as [|gi|gm|] eqn:A.
        + destruct (IH _ H) as [-> F]. split; [reflexivity|]. intros r' [<-|I']; auto.
        + discriminate.
        + destruct (IH _ H) as [E _]. destruct cur as [c|]; [destruct (res_seq c <=? res_seq gm)|]; discriminate.
        + discriminate. }
    intros H. apply (G None H).
  Qed.

  Theorem client_get_repaired_total tgt salt replies cur : client_get Repaired tgt salt replies cur <> COPanic.
  Proof.
    revert cur. induction replies as [|r rest IH]; intros cur; cbn [Bep44.client_get]; [discriminate|].
    pose proof (client_accept_repaired_no_panic tgt salt r) as NP.
    destruct (client_accept Repaired tgt salt r); try apply IH; try discriminate. congruence.
  Qed.

  (* Put's autoSeq: an upper bound of every accepted mutable seq, and either 0 or one of them *)
  Theorem client_autoseq_spec v tgt salt replies : forall cur q,
    client_autoseq v tgt salt replies cur = Some q ->
    cur <= q /\
    (forall r g, In r replies -> client_accept v tgt salt r = AccMut g -> res_seq g <= q) /\
    (q = cur \/ exists r g, In r replies /\ client_accept v tgt salt r = AccMut g /\ res_seq g = q).
  Proof.
    induction replies as [|r rest IH]; intros cur q H.
    - cbn in H. injection H as <-. split; [lia|]. split; [intros r g []|left; reflexivity].
    - cbn [Bep44.client_autoseq] in H. destruct (client_accept v tgt salt r) as [|gi|gm|] eqn:A.
      + destruct (IH _ _ H) as [L [U P]]. split; [exact L|]. split.
        * intros r' g [<-|I'] A'; [congruence|eauto].
        * destruct P as [P|[r' [g [I' P]]]]; [left; exact P|right; exists r', g; split; [right; exact I'|exact P]].
      + destruct (IH _ _ H) as [L [U P]]. split; [exact L|]. split.
        * intros r' g [<-|I'] A'; [congruence|eauto].
        * destruct P as [P|[r' [g [I' P]]]]; [left; exact P|right; exists r', g; split; [right; exact I'|exact P]].
      + destruct (IH _ _ H) as [L [U P]]. destruct (Z.ltb_spec cur (res_seq gm)).
        * split; [lia|]. split.
          -- intros r' g [<-|I'] A'; [|eauto]. rewrite A in A'. injection A' as <-. exact L.
          -- destruct P as [P|[r' [g [I' P]]]].
             ++ right. exists r, gm. split; [left; reflexivity|]. split; [exact A|congruence].
             ++ right. exists r', g. split; [right; exact I'|exact P].
        * split; [exact L|]. split.
          -- intros r' g [<-|I'] A'; [|eauto]. rewrite A in A'. injection A' as <-. lia.
          -- destruct P as [P|[r' [g [I' P]]]]; [left; exact P|right; exists r', g; split; [right; exact I'|exact P]].
      + discriminate.
  Qed.
End Proofs.
