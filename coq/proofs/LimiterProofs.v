(* LimiterProofs.v — the abstract token bucket (model/Limiter.v) never grants more than
   burst + rate * window in any window, and a rate-0 bucket grants exactly its burst. *)
From Dht Require Import Base Limiter.
Local Open Scope Z_scope.

(* calls arrive at non-decreasing times, none before the bucket's last update *)
Fixpoint nondecreasing_from (t0 : Z) (times : list Z) : Prop :=
  match times with
  | [] => True
  | t :: r => t0 <= t /\ nondecreasing_from t r
  end.

Definition wf_bucket (b : bucket) : Prop :=
  0 <= bk_tokens b /\ 0 < bk_per b /\ 0 <= bk_burst b /\ 0 <= bk_level b <= bk_cap b.

Lemma new_bucket_wf tokens per burst now :
  0 <= tokens -> 0 < per -> 0 <= burst -> wf_bucket (new_bucket tokens per burst now).
Proof.
  intros Ht Hp Hb. unfold wf_bucket, new_bucket, bk_cap; cbn.
  assert (0 <= burst * per) by (apply Z.mul_nonneg_nonneg; lia). lia.
Qed.

Lemma mul_mono T a b : 0 <= T -> a <= b -> T * a <= T * b.
Proof. intros. apply Z.mul_le_mono_nonneg_l; assumption. Qed.

Lemma allow_params b t :
  bk_tokens (fst (allow b t)) = bk_tokens b /\ bk_per (fst (allow b t)) = bk_per b /\
  bk_burst (fst (allow b t)) = bk_burst b /\ bk_last (fst (allow b t)) = Z.max (bk_last b) t.
Proof. unfold allow. destruct (Z.leb (bk_per b) (refill b t)); cbn; auto. Qed.

Lemma refill_bounds b t : wf_bucket b -> 0 <= refill b t <= bk_cap b.
Proof.
  intros (Ht & Hp & Hb & Hl). unfold refill.
  assert (Hm : 0 <= Z.max 0 (t - bk_last b) * bk_tokens b) by (apply Z.mul_nonneg_nonneg; lia).
  lia.
Qed.

Lemma allow_wf b t : wf_bucket b -> wf_bucket (fst (allow b t)).
Proof.
  intros Hwf. pose proof (refill_bounds b t Hwf) as Hr.
  destruct Hwf as (Ht & Hp & Hb & Hl).
  unfold allow. destruct (Z.leb (bk_per b) (refill b t)) eqn:Hg; unfold wf_bucket, bk_cap in *; cbn.
  - apply Z.leb_le in Hg. lia.
  - lia.
Qed.

(* the level a grant is taken from *)
Lemma allow_level b t :
  bk_level (fst (allow b t)) = refill b t - (if snd (allow b t) then bk_per b else 0).
Proof. unfold allow. destruct (Z.leb (bk_per b) (refill b t)); cbn; lia. Qed.

Lemma allow_granted b t : snd (allow b t) = Z.leb (bk_per b) (refill b t).
Proof. unfold allow. destruct (Z.leb (bk_per b) (refill b t)); reflexivity. Qed.

(* what can still be granted inside (t1, t2] from state b on *)
Definition potential (t1 t2 : Z) (b : bucket) : Z :=
  if Z.ltb t2 (bk_last b) then 0
  else if Z.leb t1 (bk_last b) then bk_level b + bk_tokens b * (t2 - bk_last b)
  else bk_cap b + bk_tokens b * (t2 - t1).

Lemma potential_nonneg t1 t2 b : wf_bucket b -> t1 <= t2 -> 0 <= potential t1 t2 b.
Proof.
  intros (Ht & Hp & Hb & Hl) H12. unfold potential.
  destruct (Z.ltb t2 (bk_last b)) eqn:E1; [lia|]. apply Z.ltb_ge in E1.
  destruct (Z.leb t1 (bk_last b)) eqn:E2.
  - assert (0 <= bk_tokens b * (t2 - bk_last b)) by (apply Z.mul_nonneg_nonneg; lia). lia.
  - assert (0 <= bk_tokens b * (t2 - t1)) by (apply Z.mul_nonneg_nonneg; lia). lia.
Qed.

Lemma potential_le_bound t1 t2 b :
  wf_bucket b -> t1 <= t2 -> potential t1 t2 b <= bk_cap b + bk_tokens b * (t2 - t1).
Proof.
  intros (Ht & Hp & Hb & Hl) H12. unfold potential.
  assert (H0 : 0 <= bk_tokens b * (t2 - t1)) by (apply Z.mul_nonneg_nonneg; lia).
  destruct (Z.ltb t2 (bk_last b)) eqn:E1; [lia|]. apply Z.ltb_ge in E1.
  destruct (Z.leb t1 (bk_last b)) eqn:E2; [|lia]. apply Z.leb_le in E2.
  assert (bk_tokens b * (t2 - bk_last b) <= bk_tokens b * (t2 - t1)) by (apply mul_mono; lia). lia.
Qed.

(* one call: what it grants inside the window is paid for by the potential *)
Lemma potential_step t1 t2 b t :
  wf_bucket b -> t1 <= t2 -> bk_last b <= t ->
  (if granted_in t1 t2 (t, snd (allow b t)) then bk_per b else 0) + potential t1 t2 (fst (allow b t))
  <= potential t1 t2 b.
Proof.
  intros Hwf H12 HLt.
  pose proof (potential_nonneg t1 t2 b Hwf H12) as Hnn.
  pose proof (refill_bounds b t Hwf) as Hr.
  pose proof (allow_wf b t Hwf) as Hwf'.
  destruct (allow_params b t) as (Pt & Pp & Pb & Pl).
  pose proof (allow_level b t) as Plv.
  destruct Hwf as (Ht & Hp & Hb & Hl).
  assert (Hrf : refill b t <= bk_level b + bk_tokens b * (t - bk_last b)).
  { unfold refill. rewrite Z.max_r by lia. rewrite (Z.mul_comm (t - bk_last b)). lia. }
  unfold potential at 1. rewrite Pl, Pt, Plv. rewrite Z.max_r by lia.
  unfold granted_in; cbn [fst snd].
  destruct (Z.ltb t2 t) eqn:E1.
  - (* the call is after the window *)
    apply Z.ltb_lt in E1. replace (Z.leb t t2) with false by (symmetry; apply Z.leb_gt; lia).
    rewrite andb_false_r. lia.
  - apply Z.ltb_ge in E1. replace (Z.leb t t2) with true by (symmetry; apply Z.leb_le; lia).
    rewrite andb_true_r.
    unfold potential.
    replace (Z.ltb t2 (bk_last b)) with false by (symmetry; apply Z.ltb_ge; lia).
    unfold bk_cap in *. rewrite Pb, Pp.
    destruct (Z.leb t1 t) eqn:E2.
    + apply Z.leb_le in E2.
      destruct (Z.ltb t1 t) eqn:E3.
      * (* inside the window: a grant is counted *)
        apply Z.ltb_lt in E3. rewrite andb_true_r.
        assert (Hm : bk_tokens b * (t2 - t) <= bk_tokens b * (t2 - t1)) by (apply mul_mono; lia).
        destruct (Z.leb t1 (bk_last b)) eqn:E4.
        -- destruct (snd (allow b t)); lia.
        -- destruct (snd (allow b t)); lia.
      * (* exactly at the window's open end: not counted *)
        apply Z.ltb_ge in E3. assert (t = t1) by lia. subst t. rewrite andb_false_r.
        destruct (Z.leb t1 (bk_last b)) eqn:E4.
        -- apply Z.leb_le in E4. assert (bk_last b = t1) by lia.
           destruct (snd (allow b t1)); lia.
        -- destruct (snd (allow b t1)); lia.
    + (* before the window *)
      apply Z.leb_gt in E2. replace (Z.ltb t1 t) with false by (symmetry; apply Z.ltb_ge; lia).
      rewrite andb_false_r.
      replace (Z.leb t1 (bk_last b)) with false by (symmetry; apply Z.leb_gt; lia). lia.
Qed.

Lemma grants_in_cons t1 t2 p tr :
  grants_in t1 t2 (p :: tr) = (if granted_in t1 t2 p then 1 else 0) + grants_in t1 t2 tr.
Proof. unfold grants_in. cbn [filter]. destruct (granted_in t1 t2 p); cbn [length]; lia. Qed.

Lemma bucket_bound_potential t1 t2 :
  t1 <= t2 -> forall times b, wf_bucket b -> nondecreasing_from (bk_last b) times ->
  grants_in t1 t2 (run_allow b times) * bk_per b <= potential t1 t2 b.
Proof.
  intros H12. induction times as [|t r IH]; intros b Hwf Hnd.
  - cbn. apply potential_nonneg; assumption.
  - destruct Hnd as [HLt Hnd]. cbn [run_allow]. rewrite grants_in_cons.
    pose proof (potential_step t1 t2 b t Hwf H12 HLt) as Hs.
    destruct (allow_params b t) as (Pt & Pp & Pb & Pl).
    assert (Hnd' : nondecreasing_from (bk_last (fst (allow b t))) r).
    { rewrite Pl, Z.max_r by lia. exact Hnd. }
    pose proof (IH (fst (allow b t)) (allow_wf b t Hwf) Hnd') as IH'.
    rewrite Pp in IH'.
    destruct (granted_in t1 t2 (t, snd (allow b t))); lia.
Qed.

(* C20: in any window (t1, t2] the bucket grants at most burst + rate * (t2 - t1) tokens, for
   every sequence of Allow calls at non-decreasing times, from any well-formed bucket state *)
Theorem bucket_bound b times t1 t2 :
  wf_bucket b -> nondecreasing_from (bk_last b) times -> t1 <= t2 ->
  grants_in t1 t2 (run_allow b times) * bk_per b <= bk_burst b * bk_per b + bk_tokens b * (t2 - t1).
Proof.
  intros Hwf Hnd H12.
  pose proof (bucket_bound_potential t1 t2 H12 times b Hwf Hnd) as H1.
  pose proof (potential_le_bound t1 t2 b Hwf H12) as H2. unfold bk_cap in H2. lia.
Qed.

(* the bound is also a bound on the whole history seen from its start *)
Corollary bucket_bound_total b times t2 :
  wf_bucket b -> nondecreasing_from (bk_last b) times ->
  Forall (fun t => t <= t2) times -> bk_last b <= t2 ->
  grants (run_allow b times) * bk_per b <= bk_level b + bk_tokens b * (t2 - bk_last b).
Proof.
  intros Hwf Hnd Hall HL.
  (* every call is strictly after bk_last b - 1, so the window (bk_last b - 1, t2] sees all grants,
     and the potential of that window at b is level + tokens * (t2 - last) *)
  assert (Hw : grants (run_allow b times) = grants_in (bk_last b - 1) t2 (run_allow b times)).
  { clear HL Hwf. revert b Hnd. induction Hall as [|t r Ht Hall IH]; intros b Hnd; [reflexivity|].
    destruct Hnd as [HLt Hnd]. cbn [run_allow]. rewrite grants_in_cons.
    unfold grants in *. cbn [filter snd]. unfold granted_in at 1. cbn [fst snd].
    replace (Z.ltb (bk_last b - 1) t) with true by (symmetry; apply Z.ltb_lt; lia).
    replace (Z.leb t t2) with true by (symmetry; apply Z.leb_le; lia).
    rewrite !andb_true_r.
    destruct (allow_params b t) as (_ & _ & _ & Pl).
    assert (Hnd' : nondecreasing_from (bk_last (fst (allow b t))) r).
    { rewrite Pl, Z.max_r by lia. exact Hnd. }
    specialize (IH (fst (allow b t)) Hnd').
    (* the window of the tail may start later; both count every grant of the tail *)
    assert (Hsame : forall tr lo, Forall (fun p : Z * bool => lo < fst p <= t2) tr ->
                     grants_in lo t2 tr = Z.of_nat (length (filter (fun p : Z * bool => snd p) tr))).
    { clear. intros tr lo H. induction H as [|p tr Hp H IH]; [reflexivity|].
      rewrite grants_in_cons, IH. cbn [filter]. unfold granted_in.
      replace (Z.ltb lo (fst p)) with true by (symmetry; apply Z.ltb_lt; lia).
      replace (Z.leb (fst p) t2) with true by (symmetry; apply Z.leb_le; lia).
      rewrite !andb_true_r. destruct (snd p); cbn [length]; lia. }
    assert (Htr : forall r0 b0 lo, Forall (fun t => t <= t2) r0 -> nondecreasing_from (bk_last b0) r0 ->
                   lo < bk_last b0 -> Forall (fun p : Z * bool => lo < fst p <= t2) (run_allow b0 r0)).
    { clear. induction r0 as [|x r0 IH]; intros b0 lo Hall Hnd Hlo; [constructor|].
      inversion Hall as [|? ? Hx Hall']; subst. destruct Hnd as [H1 H2]. cbn [run_allow].
      constructor; [cbn; lia|].
      destruct (allow_params b0 x) as (_ & _ & _ & Pl).
      apply IH; [assumption| rewrite Pl, Z.max_r by lia; assumption | rewrite Pl; lia]. }
    rewrite (Hsame (run_allow (fst (allow b t)) r) (bk_last b - 1)).
    - destruct (snd (allow b t)); cbn [length]; lia.
    - apply Htr; [assumption|assumption| rewrite Pl; lia]. }
  rewrite Hw.
  assert (H12 : bk_last b - 1 <= t2) by lia.
  pose proof (bucket_bound_potential (bk_last b - 1) t2 H12 times b Hwf Hnd) as H1.
  unfold potential in H1.
  replace (Z.ltb t2 (bk_last b)) with false in H1 by (symmetry; apply Z.ltb_ge; lia).
  replace (Z.leb (bk_last b - 1) (bk_last b)) with true in H1 by (symmetry; apply Z.leb_le; lia).
  exact H1.
Qed.

(* ---- rate 0: exactly the burst ---- *)
Lemma grants_cons p tr : grants (p :: tr) = (if snd p then 1 else 0) + grants tr.
Proof. unfold grants. cbn [filter]. destruct (snd p); cbn [length]; lia. Qed.

Lemma zero_rate_level times : forall b k,
  0 < bk_per b -> bk_tokens b = 0 -> 0 <= k <= bk_burst b -> bk_level b = k * bk_per b ->
  grants (run_allow b times) = Z.min (Z.of_nat (length times)) k /\
  bk_level (final_bucket b times) = (k - Z.min (Z.of_nat (length times)) k) * bk_per b.
Proof.
  induction times as [|t r IH]; intros b k Hp Ht Hk Hl.
  - cbn [run_allow final_bucket length]. unfold grants. cbn. split; [lia|].
    rewrite Z.min_l by lia. rewrite Hl. lia.
  - cbn [run_allow final_bucket]. rewrite grants_cons. cbn [snd].
    destruct (allow_params b t) as (Pt & Pp & Pb & Pl).
    pose proof (allow_level b t) as Plv. pose proof (allow_granted b t) as Pg.
    assert (Hrf : refill b t = k * bk_per b).
    { unfold refill, bk_cap. rewrite Ht, Z.mul_0_r, Z.add_0_r, Hl.
      apply Z.min_r. apply Z.mul_le_mono_nonneg_r; lia. }
    rewrite Hrf in Plv, Pg.
    assert (Hlen : Z.of_nat (length (t :: r)) = 1 + Z.of_nat (length r)) by (cbn [length]; lia).
    rewrite Hlen.
    destruct (Z.eq_dec k 0) as [Hk0 | Hk0].
    + (* empty: denied, stays empty *)
      subst k. assert (Hg : snd (allow b t) = false).
      { rewrite Pg. apply Z.leb_gt. lia. }
      rewrite Hg in *.
      assert (A1 : 0 < bk_per (fst (allow b t))) by (rewrite Pp; assumption).
      assert (A2 : bk_tokens (fst (allow b t)) = 0) by (rewrite Pt; assumption).
      assert (A3 : 0 <= 0 <= bk_burst (fst (allow b t))) by (rewrite Pb; lia).
      assert (A4 : bk_level (fst (allow b t)) = 0 * bk_per (fst (allow b t))) by (rewrite Plv, Pp; lia).
      destruct (IH (fst (allow b t)) 0 A1 A2 A3 A4) as [IH1 IH2].
      rewrite IH1, IH2, Pp. split; lia.
    + assert (Hg : snd (allow b t) = true).
      { rewrite Pg. apply Z.leb_le.
        assert (1 * bk_per b <= k * bk_per b) by (apply Z.mul_le_mono_nonneg_r; lia). lia. }
      rewrite Hg in *.
      assert (A1 : 0 < bk_per (fst (allow b t))) by (rewrite Pp; assumption).
      assert (A2 : bk_tokens (fst (allow b t)) = 0) by (rewrite Pt; assumption).
      assert (A3 : 0 <= k - 1 <= bk_burst (fst (allow b t))) by (rewrite Pb; lia).
      assert (A4 : bk_level (fst (allow b t)) = (k - 1) * bk_per (fst (allow b t))) by (rewrite Plv, Pp; lia).
      destruct (IH (fst (allow b t)) (k - 1) A1 A2 A3 A4) as [IH1 IH2].
      rewrite IH1, IH2, Pp. split; [lia|].
      f_equal. lia.
Qed.

(* C20: rate.NewLimiter(0, burst): whatever the call times, exactly the first [burst] calls are
   granted — min(calls, burst) grants in total, and the bucket stays empty afterwards *)
Theorem zero_rate_exact per burst now times :
  0 < per -> 0 <= burst ->
  grants (run_allow (new_bucket 0 per burst now) times) = Z.min (Z.of_nat (length times)) burst.
Proof.
  intros Hp Hb.
  apply (zero_rate_level times (new_bucket 0 per burst now) burst); cbn; try lia.
Qed.

Lemma final_bucket_params l : forall b,
  bk_tokens (final_bucket b l) = bk_tokens b /\ bk_per (final_bucket b l) = bk_per b.
Proof.
  induction l as [|x l IHl]; intros b; [split; reflexivity|]. cbn [final_bucket].
  destruct (allow_params b x) as (Pt & Pp & _ & _). destruct (IHl (fst (allow b x))) as [A B].
  rewrite A, B, Pt, Pp. split; reflexivity.
Qed.

Corollary zero_rate_exhausted per burst now times :
  0 < per -> 0 <= burst -> burst <= Z.of_nat (length times) ->
  grants (run_allow (new_bucket 0 per burst now) times) = burst /\
  forall t, snd (allow (final_bucket (new_bucket 0 per burst now) times) t) = false.
Proof.
  intros Hp Hb Hlen.
  destruct (zero_rate_level times (new_bucket 0 per burst now) burst) as [H1 H2]; cbn; try lia.
  split; [rewrite H1; lia|].
  intros t. rewrite allow_granted.
  destruct (final_bucket_params times (new_bucket 0 per burst now)) as [Ft Fp].
  cbn in Ft, Fp.
  apply Z.leb_gt. unfold refill. rewrite Ft, Z.mul_0_r, Z.add_0_r, H2, Fp.
  rewrite (Z.min_r (Z.of_nat (length times)) burst) by lia.
  cbn [bk_per new_bucket].
  replace ((burst - burst) * per) with 0 by lia. lia.
Qed.

(* ---- the server model's send budget is the rate-0 bucket ----
   model/Server.v keeps `s_budget = Some n`: one token per rated write, never refilled (the
   correspondence harness runs the real server with rate.NewLimiter(0, n)).  That counter and the
   rate-0 bucket holding n tokens grant and deny alike, at every time. *)
Definition budget_take (n : N) : N * bool :=
  match n with 0%N => (0%N, false) | _ => (N.pred n, true) end.

Theorem zero_rate_is_counter per burst last n now :
  0 < per -> Z.of_N n <= burst ->
  allow (mkBucket 0 per burst (Z.of_N n * per) last) now =
  (mkBucket 0 per burst (Z.of_N (fst (budget_take n)) * per) (Z.max last now), snd (budget_take n)).
Proof.
  intros Hp Hn. unfold allow, refill, bk_cap. cbn [bk_tokens bk_per bk_burst bk_level bk_last].
  rewrite Z.mul_0_r, Z.add_0_r.
  assert (Hle : Z.of_N n * per <= burst * per) by (apply Z.mul_le_mono_nonneg_r; lia).
  rewrite Z.min_r by exact Hle.
  destruct n as [|p].
  - cbn [budget_take fst snd]. replace (Z.leb per (Z.of_N 0 * per)) with false by (symmetry; apply Z.leb_gt; lia).
    reflexivity.
  - assert (H1 : 1 * per <= Z.of_N (N.pos p) * per) by (apply Z.mul_le_mono_nonneg_r; lia).
    replace (Z.leb per (Z.of_N (N.pos p) * per)) with true by (symmetry; apply Z.leb_le; lia).
    unfold budget_take. cbn [fst snd]. f_equal. f_equal. rewrite N2Z.inj_pred by lia. lia.
Qed.
