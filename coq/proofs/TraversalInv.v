(* TraversalInv.v — the invariant of the traversal LTS (model/Traversal.v, repaired algorithm
   prune_front = true) and its preservation by every label (DESIGN.md section 10).
   Used by TraversalC04.v, TraversalC03.v, TraversalC02.v. *)
From Dht Require Import Base Int160 Order OrderProofs Traversal.
From Coq Require Import Sorting.Sorted ZifyN ZifyNat ZifyBool.

Local Arguments ap_mem : simpl never.
Local Arguments Nat.ltb : simpl never.
Local Arguments kn_run : simpl never.
Local Arguments kn_push : simpl never.
Local Arguments have_query_on : simpl never.

(* ------------------------------------------------------------------ small list facts *)

Lemma ap_mem_In a l : ap_mem a l = true <-> In a l.
Proof.
  unfold ap_mem. rewrite existsb_exists. split.
  - intros [x [Hx He]]. apply ap_eqb_eq in He. subst x. exact Hx.
  - intros H. exists a. split; [exact H|]. apply ap_eqb_eq. reflexivity.
Qed.

Lemma ap_mem_false a l : ap_mem a l = false <-> ~ In a l.
Proof.
  rewrite <- ap_mem_In. destruct (ap_mem a l); split; intros H; congruence.
Qed.

Lemma ap_add_In a l x : In x (ap_add a l) <-> x = a \/ In x l.
Proof.
  unfold ap_add. destruct (ap_mem a l) eqn:E.
  - apply ap_mem_In in E. split; [intros H; right; exact H|].
    intros [->|H]; assumption.
  - simpl. split; intros [H|H]; auto.
Qed.

Lemma ap_eq_dec (a b : addrport) : {a = b} + {a <> b}.
Proof.
  destruct (ap_eqb a b) eqn:E.
  - left. apply ap_eqb_eq. exact E.
  - right. intros H. apply ap_eqb_eq in H. congruence.
Defined.   (* transparent: nodup ap_eq_dec computes in the examples *)

(* ---- prune ---- *)

Lemma prune_split q l :
  exists pre, l = pre ++ prune q l /\ forall c, In c pre -> In (ami_addr c) q.
Proof.
  induction l as [|c l IH]; simpl.
  - exists []. split; [reflexivity|]. intros c [].
  - destruct (ap_mem (ami_addr c) q) eqn:E.
    + destruct IH as [pre [Hl Hp]]. exists (c :: pre). split.
      * simpl. f_equal. exact Hl.
      * intros x [Hx|Hx]; [subst x; apply ap_mem_In; exact E|exact (Hp x Hx)].
    + exists []. split; [reflexivity|]. intros x [].
Qed.

Lemma prune_incl q l c : In c (prune q l) -> In c l.
Proof.
  destruct (prune_split q l) as [pre [Hl _]]. intros H. rewrite Hl.
  apply in_or_app. right. exact H.
Qed.

Lemma prune_In_or q l c : In c l -> In (ami_addr c) q \/ In c (prune q l).
Proof.
  destruct (prune_split q l) as [pre [Hl Hp]]. intros H. rewrite Hl in H.
  apply in_app_or in H. destruct H as [H|H]; [left; exact (Hp c H)|right; exact H].
Qed.

Lemma prune_head q l c r : prune q l = c :: r -> ~ In (ami_addr c) q.
Proof.
  induction l as [|x l IH]; simpl; [discriminate|].
  destruct (ap_mem (ami_addr x) q) eqn:E; [exact IH|].
  intros H. injection H as -> _. apply ap_mem_false. exact E.
Qed.

Lemma prune_idem q l : prune q (prune q l) = prune q l.
Proof.
  induction l as [|x l IH]; simpl; [reflexivity|].
  destruct (ap_mem (ami_addr x) q) eqn:E; [exact IH|].
  simpl. rewrite E. reflexivity.
Qed.

Lemma sorted_app_r t l1 l2 : ss_sorted t (l1 ++ l2) -> ss_sorted t l2.
Proof.
  induction l1 as [|x l1 IH]; simpl; intros H; [exact H|].
  apply IH. apply ss_sorted_inv in H. exact (proj1 H).
Qed.

Lemma prune_sorted t q l : ss_sorted t l -> ss_sorted t (prune q l).
Proof.
  destruct (prune_split q l) as [pre [Hl _]]. intros H. rewrite Hl in H.
  exact (sorted_app_r _ _ _ H).
Qed.

(* the head of a sorted list is not after any member *)
Lemma sorted_head_le t c r x :
  ss_sorted t (c :: r) -> In x (c :: r) -> closer_cmp t c x <> Gt.
Proof.
  intros Hs [Hx|Hx].
  - subst x. rewrite closer_cmp_refl. discriminate.
  - apply ss_sorted_inv in Hs. rewrite (proj2 Hs x Hx). discriminate.
Qed.

(* ---- in-flight list ---- *)
Section Q.
  Variable D : Type.
  Notation query := (query D).

  Lemma find_q_In i (l : list query) q : find_q i l = Some q -> In q l /\ q_id q = i.
  Proof.
    unfold find_q. intros H. apply find_some in H. destruct H as [Hin He].
    apply Nat.eqb_eq in He. split; assumption.
  Qed.

  Lemma find_q_None i (l : list query) : find_q i l = None -> forall q, In q l -> q_id q <> i.
  Proof.
    unfold find_q. intros H q Hq He.
    apply (find_none _ _ H) in Hq. apply Nat.eqb_neq in Hq. contradiction.
  Qed.

  Lemma In_find_q (l : list query) q :
    NoDup (map q_id l) -> In q l -> find_q (q_id q) l = Some q.
  Proof.
    unfold find_q. induction l as [|x l IH]; simpl; intros Hnd Hin; [destruct Hin|].
    inversion Hnd as [|? ? Hx Hnd']; subst.
    destruct Hin as [->|Hin].
    - rewrite Nat.eqb_refl. reflexivity.
    - destruct (Nat.eqb (q_id x) (q_id q)) eqn:E.
      + exfalso. apply Hx. apply Nat.eqb_eq in E. rewrite E. apply in_map. exact Hin.
      + apply IH; assumption.
  Qed.

  Lemma upd_q_length i f (l : list query) : length (upd_q D i f l) = length l.
  Proof. unfold upd_q. apply map_length. Qed.

  Lemma upd_q_ids i f (l : list query) :
    (forall q, q_id (f q) = q_id q) -> map q_id (upd_q D i f l) = map q_id l.
  Proof.
    intros Hf. unfold upd_q. rewrite map_map. apply map_ext. intros q.
    destruct (Nat.eqb (q_id q) i); [apply Hf|reflexivity].
  Qed.

  Lemma In_upd_q i f (l : list query) q' :
    In q' (upd_q D i f l) -> exists q, In q l /\ (q' = q \/ (q_id q = i /\ q' = f q)).
  Proof.
    unfold upd_q. rewrite in_map_iff. intros [q [He Hq]]. exists q. split; [exact Hq|].
    destruct (Nat.eqb (q_id q) i) eqn:E.
    - right. apply Nat.eqb_eq in E. split; [exact E|symmetry; exact He].
    - left. symmetry. exact He.
  Qed.

  Lemma upd_q_In i f (l : list query) q :
    In q l -> In (if Nat.eqb (q_id q) i then f q else q) (upd_q D i f l).
  Proof. intros H. unfold upd_q. apply in_map_iff. exists q. split; [reflexivity|exact H]. Qed.

  Lemma find_q_upd_q i j f (l : list query) :
    (forall q, q_id (f q) = q_id q) ->
    find_q j (upd_q D i f l) =
      match find_q j l with
      | Some q => Some (if Nat.eqb (q_id q) i then f q else q)
      | None => None
      end.
  Proof.
    intros Hf. unfold find_q, upd_q. induction l as [|x l IH]; simpl; [reflexivity|].
    destruct (Nat.eqb (q_id x) i) eqn:E.
    - rewrite Hf. destruct (Nat.eqb (q_id x) j) eqn:E2; [rewrite E; reflexivity|exact IH].
    - destruct (Nat.eqb (q_id x) j) eqn:E2; [rewrite E; reflexivity|exact IH].
  Qed.

  Lemma del_q_incl i (l : list query) q : In q (del_q D i l) -> In q l.
  Proof.
    unfold del_q. induction l as [|x l IH]; simpl; [tauto|].
    destruct (Nat.eqb (q_id x) i); simpl; intros H.
    - right. exact H.
    - destruct H as [H|H]; [left; exact H|right; exact (IH H)].
  Qed.

  Lemma del_q_length i (l : list query) q :
    find_q i l = Some q -> length (del_q D i l) = pred (length l).
  Proof.
    unfold del_q, find_q. induction l as [|x l IH]; simpl; [discriminate|].
    destruct (Nat.eqb (q_id x) i); [reflexivity|].
    intros H. simpl. rewrite (IH H).
    destruct l; [discriminate H|reflexivity].
  Qed.

  Lemma del_q_ids_nodup i (l : list query) :
    NoDup (map q_id l) -> NoDup (map q_id (del_q D i l)).
  Proof.
    unfold del_q. induction l as [|x l IH]; simpl; intros H; [exact H|].
    inversion H as [|? ? Hx Hnd]; subst.
    destruct (Nat.eqb (q_id x) i); [exact Hnd|].
    simpl. constructor; [|exact (IH Hnd)].
    intros Hin. apply Hx. apply in_map_iff in Hin. destruct Hin as [q [He Hq]].
    apply in_map_iff. exists q. split; [exact He|exact (del_q_incl _ _ _ Hq)].
  Qed.

  (* with unique ids, the deleted query is gone *)
  Lemma del_q_not_in i (l : list query) q :
    NoDup (map q_id l) -> In q (del_q D i l) -> q_id q <> i.
  Proof.
    unfold del_q. induction l as [|x l IH]; simpl; intros Hnd Hin; [destruct Hin|].
    inversion Hnd as [|? ? Hx Hnd']; subst.
    destruct (Nat.eqb (q_id x) i) eqn:E.
    - apply Nat.eqb_eq in E. intros He. apply Hx. rewrite E, <- He. apply in_map. exact Hin.
    - destruct Hin as [Hin|Hin].
      + subst x. apply Nat.eqb_neq. exact E.
      + exact (IH Hnd' Hin).
  Qed.
End Q.

(* ------------------------------------------------------------------ K-nearest: a push never
   lets a farther candidate qualify (haveQuery is antitone in the closest set) *)

Section InsBound.
  Variable A : Type.
  Variable cmp : A -> A -> comparison.
  Context (cmp_antisym : forall a b, cmp b a = CompOpp (cmp a b)).
  Context (cmp_trans : forall a b c, cmp a b = Lt -> cmp b c = Lt -> cmp a c = Lt).
  Context (cmp_eq_l : forall a b c, cmp a b = Eq -> cmp a c = cmp b c).

  Lemma cmp_lt_le a b c : cmp a b = Lt -> cmp b c <> Gt -> cmp a c <> Gt.
  Proof.
    intros Hab Hbc. destruct (cmp b c) eqn:E.
    - assert (Hcb : cmp c b = Eq) by (rewrite (cmp_antisym b c), E; reflexivity).
      assert (Hca : cmp c a = Gt).
      { rewrite (cmp_eq_l c b a Hcb). rewrite (cmp_antisym a b), Hab. reflexivity. }
      rewrite (cmp_antisym c a), Hca. discriminate.
    - rewrite (cmp_trans a b c Hab E). discriminate.
    - contradiction.
  Qed.

  Lemma ins_firstn_bound x l f :
    srt cmp l -> (forall z, In z l -> cmp z f <> Gt) ->
    forall y, In y (firstn (length l) (ins cmp x l)) -> cmp y f <> Gt.
  Proof.
    induction l as [|a l IH]; intros Hs Hb y Hy; [destruct Hy|].
    destruct (srt_inv _ cmp _ _ Hs) as [Hl Ha].
    assert (Hbl : forall z, In z l -> cmp z f <> Gt) by (intros z Hz; apply Hb; right; exact Hz).
    assert (Haf : cmp a f <> Gt) by (apply Hb; left; reflexivity).
    simpl ins in Hy. destruct (cmp x a) eqn:E.
    - simpl in Hy. destruct Hy as [Hy|Hy].
      + subst y. rewrite (cmp_eq_l x a f E). exact Haf.
      + rewrite firstn_all in Hy. apply Hbl. exact Hy.
    - change (length (a :: l)) with (S (length l)) in Hy.
      change (firstn (S (length l)) (x :: a :: l)) with (x :: firstn (length l) (a :: l)) in Hy.
      destruct Hy as [Hy|Hy].
      + subst y. exact (cmp_lt_le x a f E Haf).
      + apply Hb. exact (In_firstn _ _ _ _ Hy).
    - simpl in Hy. destruct Hy as [Hy|Hy].
      + subst y. exact Haf.
      + exact (IH Hl Hbl y Hy).
  Qed.

End InsBound.

Lemma ins_length_ge (A : Type) (cmp : A -> A -> comparison) x l :
  (length l <= length (ins cmp x l))%nat.
Proof.
  induction l as [|a l IH]; simpl; [lia|].
  destruct (cmp x a); simpl; lia.
Qed.

Section KNMono.
  Variable D : Type.
  Variable tb : addrport -> addrport -> comparison.
  Hypothesis tb_refl : forall a, tb a a = Eq.
  Hypothesis tb_eq : forall a b, tb a b = Eq -> a = b.
  Hypothesis tb_antisym : forall a b, tb b a = CompOpp (tb a b).
  Hypothesis tb_trans : forall a b c, tb a b = Lt -> tb b c = Lt -> tb a c = Lt.
  Variable target : N.
  Variable k : nat.

  Notation kelem := (kelem D).
  Notation kcmp := (@k_cmp D tb target).
  Notation ksorted := (kn_sorted D tb target).
  Notation push := (@kn_push D tb target k).

  Lemma kcmp_le_dist (a b : kelem) : kcmp a b <> Gt -> (dist (k_id a) target <= dist (k_id b) target)%N.
  Proof.
    unfold k_cmp.
    destruct (N.compare_spec (dist (k_id a) target) (dist (k_id b) target)) as [E|L|G];
      intros H; try lia. exfalso. apply H. reflexivity.
  Qed.

  Lemma kn_farthest_app (l : list kelem) x : kn_farthest (l ++ [x]) = Some x.
  Proof.
    unfold kn_farthest. rewrite map_app. simpl. apply last_last.
  Qed.

  Lemma kn_farthest_In (l : list kelem) f : kn_farthest l = Some f -> In f l.
  Proof.
    destruct l as [|x l] using rev_ind; [discriminate|].
    rewrite kn_farthest_app. intros H. injection H as ->. apply in_or_app. right. left. reflexivity.
  Qed.

  Lemma kn_farthest_nonempty (l : list kelem) : l <> [] -> exists f, kn_farthest l = Some f.
  Proof.
    destruct l as [|x l] using rev_ind; [congruence|].
    intros _. exists x. apply kn_farthest_app.
  Qed.

  Lemma kn_farthest_bound (l : list kelem) f :
    ksorted l -> kn_farthest l = Some f -> forall z, In z l -> kcmp z f <> Gt.
  Proof.
    destruct l as [|x l] using rev_ind; [discriminate|].
    rewrite kn_farthest_app. intros Hs H z Hz. injection H as ->.
    apply in_app_or in Hz. destruct Hz as [Hz|[Hz|[]]].
    - rewrite (srt_app _ kcmp l [f] z f Hs Hz (or_introl eq_refl)). discriminate.
    - subst z. assert (E : kcmp f f = Eq).
      { apply (kcmp_eq_same_key D tb tb_refl tb_eq). split; reflexivity. }
      rewrite E. discriminate.
  Qed.

  Lemma kn_push_full (l : list kelem) x : kn_full k l = true -> kn_full k (push l x) = true.
  Proof.
    unfold kn_full, kn_push. rewrite !Nat.leb_le, firstn_length. intros H.
    rewrite (kn_insert_ins D tb). pose proof (ins_length_ge _ kcmp x l). lia.
  Qed.

  Lemma kn_push_farthest (l : list kelem) x f f' :
    ksorted l -> length l = k ->
    kn_farthest l = Some f -> kn_farthest (push l x) = Some f' ->
    (dist (k_id f') target <= dist (k_id f) target)%N.
  Proof.
    intros Hs Hlen Hf Hf'. apply kcmp_le_dist.
    apply kn_farthest_In in Hf'. unfold kn_push in Hf'.
    rewrite (kn_insert_ins D tb) in Hf'. rewrite <- Hlen in Hf'.
    apply (ins_firstn_bound _ kcmp
             (kcmp_antisym D tb tb_antisym target) (kcmp_trans D tb tb_trans target)
             (kcmp_eq_l D tb tb_refl tb_eq target) x l f Hs).
    - exact (kn_farthest_bound l f Hs Hf).
    - exact Hf'.
  Qed.

  (* haveQuery can only turn from true to false when a responder is pushed *)
  Lemma have_query_on_push (u : list ami) (cl : list kelem) x :
    ksorted cl -> (length cl <= k)%nat ->
    have_query_on D target k u (push cl x) = true -> have_query_on D target k u cl = true.
  Proof.
    intros Hs Hlen. unfold have_query_on. destruct u as [|cu u]; [trivial|].
    destruct (kn_full k cl) eqn:Fu; [|reflexivity].
    rewrite (kn_push_full cl x Fu). simpl.
    destruct (ami_id cu) as [i|]; [|trivial].
    destruct (kn_farthest (push cl x)) as [f'|] eqn:F'; [|discriminate].
    assert (Hk : length cl = k).
    { unfold kn_full in Fu. apply Nat.leb_le in Fu. lia. }
    assert (Hne : cl <> []).
    { intros ->. simpl in Hk. subst k. unfold kn_push in F'. simpl in F'. discriminate. }
    destruct (kn_farthest_nonempty cl Hne) as [f F]. rewrite F.
    pose proof (kn_push_farthest cl x f f' Hs Hk F F') as Hd.
    rewrite !N.leb_le. lia.
  Qed.

  Lemma kn_run_ksorted (p : list kelem) : ksorted (kn_run D tb target k p).
  Proof.
    rewrite (kn_run_spec D tb tb_refl tb_eq tb_antisym tb_trans).
    apply (srt_firstn _ kcmp). apply (kn_all_sorted D tb tb_refl tb_eq tb_antisym tb_trans).
  Qed.

  Lemma kn_run_le (p : list kelem) : (length (kn_run D tb target k p) <= k)%nat.
  Proof.
    rewrite (kn_run_length D tb tb_refl tb_eq tb_antisym tb_trans). lia.
  Qed.
End KNMono.

(* ------------------------------------------------------------------ the invariant *)

Lemma NoDup_snoc {A} (l : list A) a : NoDup l -> ~ In a l -> NoDup (l ++ [a]).
Proof.
  intros Hl Ha. induction l as [|x l IH]; simpl.
  - constructor; [intros []|constructor].
  - inversion Hl as [|? ? Hx Hl']; subst. constructor.
    + intros Hin. apply in_app_or in Hin. destruct Hin as [Hin|[Hin|[]]].
      * exact (Hx Hin).
      * subst a. apply Ha. left. reflexivity.
    + apply IH; [exact Hl'|]. intros Hin. apply Ha. right. exact Hin.
Qed.

Section Inv.
  Variable D : Type.
  Variable node_filter : ami -> bool.
  Variable data_filter : D -> bool.
  Variable tb : addrport -> addrport -> comparison.
  Hypothesis tb_refl : forall a, tb a a = Eq.
  Hypothesis tb_eq : forall a b, tb a b = Eq -> a = b.
  Hypothesis tb_antisym : forall a b, tb b a = CompOpp (tb a b).
  Hypothesis tb_trans : forall a b c, tb a b = Lt -> tb b c = Lt -> tb a c = Lt.
  Variable target : N.
  Variable k : nat.
  Variable alpha : nat.

  Notation state := (state D).
  Notation label := (label D).
  Notation hq := (have_query D true target k).
  Notation hqon := (have_query_on D target k).
  Notation add_node := (add_node D node_filter target).
  Notation add_nodes := (add_nodes D node_filter target).
  Notation add_closest := (add_closest D node_filter data_filter tb target k).
  Notation do_prune := (do_prune D true).
  Notation start_query := (start_query D).
  Notation start_loop := (start_loop D true target k alpha).
  Notation run_body := (run_body D true target k alpha).
  Notation run_step := (run_step D true target k alpha).
  Notation enabled := (enabled D).
  Notation step := (step D node_filter data_filter tb true target k alpha).
  Notation step_en := (step_en D node_filter data_filter tb true target k alpha).
  Notation exec := (exec D node_filter data_filter tb true target k alpha).
  Notation run := (run D node_filter data_filter tb true target k alpha).

  (* what the sleeping loop decided is still right *)
  Definition wait_valid (s : state) (o : bool) : Prop :=
    Nat.ltb (st_out s) alpha && hq s = false /\
    o = (negb (hq s) || Nat.eqb alpha 0) && Nat.eqb (st_out s) 0.

  Record TInv (s : state) : Prop := mkTInv {
    inv_sorted : ss_sorted target (st_unq s);
    inv_out : st_out s = length (st_inflight s);
    inv_alpha : st_out s <= alpha;
    inv_qids : NoDup (map q_id (st_inflight s));
    inv_qfresh : forall q, In q (st_inflight s) -> q_id q < length (st_started s);
    inv_qcand : forall q, In q (st_inflight s) -> In (q_cand q) (st_started s);
    inv_qcancel : forall q, In q (st_inflight s) -> q_pc q <> QWait -> q_cancelled q = true;
    inv_started_nodup : NoDup (map ami_addr (st_started s));
    inv_queried : forall a, In a (st_queried s) <-> In a (map ami_addr (st_started s));
    inv_started_filter : forall c, In c (st_started s) -> node_filter c = true;
    inv_started_offered : forall c, In c (st_started s) -> In c (st_offered s);
    inv_unq : forall c, In c (st_unq s) -> node_filter c = true /\ In c (st_offered s);
    inv_learned : forall c, In c (st_offered s) -> node_filter c = true ->
                  In (ami_addr c) (st_queried s) \/ In c (st_unq s);
    inv_closest : st_closest s = kn_run D tb target k (st_pushed s);
    inv_pushed : forall e, In e (st_pushed s) ->
                 exists n d, e = kel_of D n d /\ In (n, d) (st_responded s) /\
                             node_filter (ni_ami n) = true /\ data_filter d = true;
    inv_gen : forall g o, st_loop s = Waiting g o ->
              g <= st_gen s /\ (g = st_gen s -> wait_valid s o);
    inv_stopped : st_stopped s = true -> st_stopping s = true /\ st_out s = 0;
    inv_exited : st_loop s = Exited -> st_stopping s = true;
    inv_pushed_all : forall x, In x (st_responded s) ->
                     node_filter (ni_ami (fst x)) = true -> data_filter (snd x) = true ->
                     In (kel_of D (fst x) (snd x)) (st_pushed s) }.

  Ltac inv_open H :=
    destruct H as [Hsorted Hout Halpha Hqids Hqfresh Hqcand Hqcancel Hsnd Hqueried Hsf Hso
                   Hunq Hlearned Hclosest Hpushed Hgen Hstopped Hexited Hpall].

  Lemma hq_eq (s : state) : hq s = hqon (prune (st_queried s) (st_unq s)) (st_closest s).
  Proof. reflexivity. Qed.

  Lemma wait_valid_ext (s s' : state) o :
    st_out s' = st_out s -> st_unq s' = st_unq s -> st_queried s' = st_queried s ->
    st_closest s' = st_closest s -> wait_valid s o -> wait_valid s' o.
  Proof.
    unfold wait_valid. rewrite !hq_eq. intros -> -> -> ->. trivial.
  Qed.

  Lemma TInv_init : TInv init.
  Proof.
    constructor; simpl; try tauto; try (intros; discriminate); try constructor; try lia.
  Qed.

  (* ---- addNodeLocked ---- *)
  Lemma add_node_frame s c :
    st_inflight (add_node s c) = st_inflight s /\ st_out (add_node s c) = st_out s /\
    st_queried (add_node s c) = st_queried s /\ st_closest (add_node s c) = st_closest s /\
    st_started (add_node s c) = st_started s /\ st_pushed (add_node s c) = st_pushed s /\
    st_responded (add_node s c) = st_responded s /\ st_loop (add_node s c) = st_loop s /\
    st_stopping (add_node s c) = st_stopping s /\ st_stopped (add_node s c) = st_stopped s /\
    st_offered (add_node s c) = st_offered s ++ [c] /\ st_gen s <= st_gen (add_node s c).
  Proof.
    unfold Traversal.add_node. cbn.
    destruct (ap_mem (ami_addr c) (st_queried s)); [cbn; repeat split; lia|].
    destruct (node_filter c); cbn; repeat split; lia.
  Qed.

  Lemma inv_add_node s c : TInv s -> TInv (add_node s c).
  Proof.
    intros H. inv_open H.
    unfold Traversal.add_node. cbn.
    destruct (ap_mem (ami_addr c) (st_queried s)) eqn:Eq; [|destruct (node_filter c) eqn:Ef]; cbn.
    - (* already queried *)
      constructor; cbn; try assumption.
      + intros x Hx. apply in_or_app. left. exact (Hso x Hx).
      + intros x Hx. destruct (Hunq x Hx) as [H1 H2]. split; [exact H1|]. apply in_or_app. left. exact H2.
      + intros x Hx Hf. apply in_app_or in Hx. destruct Hx as [Hx|[Hx|[]]].
        * exact (Hlearned x Hx Hf).
        * subst x. left. apply ap_mem_In. exact Eq.
    - (* accepted *)
      constructor; cbn; try assumption.
      + apply ss_add_sorted. exact Hsorted.
      + intros x Hx. apply in_or_app. left. exact (Hso x Hx).
      + intros x Hx. apply (ss_add_in target c _ x Hsorted) in Hx. destruct Hx as [->|Hx].
        * split; [exact Ef|]. apply in_or_app. right. left. reflexivity.
        * destruct (Hunq x Hx) as [H1 H2]. split; [exact H1|]. apply in_or_app. left. exact H2.
      + intros x Hx Hf. apply in_app_or in Hx. destruct Hx as [Hx|[Hx|[]]].
        * destruct (Hlearned x Hx Hf) as [Hl|Hl]; [left; exact Hl|].
          right. apply (ss_add_in target c _ x Hsorted). right. exact Hl.
        * subst x. right. apply (ss_add_in target c _ c Hsorted). left. reflexivity.
      + intros g o Hg. destruct (Hgen g o Hg) as [Hle _]. split; [lia|]. intros ->. lia.
    - (* failed filter *)
      constructor; cbn; try assumption.
      + intros x Hx. apply in_or_app. left. exact (Hso x Hx).
      + intros x Hx. destruct (Hunq x Hx) as [H1 H2]. split; [exact H1|]. apply in_or_app. left. exact H2.
      + intros x Hx Hf. apply in_app_or in Hx. destruct Hx as [Hx|[Hx|[]]].
        * exact (Hlearned x Hx Hf).
        * subst x. congruence.
  Qed.

  Lemma inv_add_nodes ns : forall s, TInv s -> TInv (add_nodes s ns).
  Proof.
    unfold Traversal.add_nodes. induction ns as [|c ns IH]; simpl; intros s H; [exact H|].
    apply IH. apply inv_add_node. exact H.
  Qed.

  Lemma add_nodes_frame ns : forall s,
    st_inflight (add_nodes s ns) = st_inflight s /\ st_out (add_nodes s ns) = st_out s /\
    st_queried (add_nodes s ns) = st_queried s /\ st_closest (add_nodes s ns) = st_closest s /\
    st_started (add_nodes s ns) = st_started s /\ st_pushed (add_nodes s ns) = st_pushed s /\
    st_responded (add_nodes s ns) = st_responded s /\ st_loop (add_nodes s ns) = st_loop s /\
    st_stopping (add_nodes s ns) = st_stopping s /\ st_stopped (add_nodes s ns) = st_stopped s /\
    st_offered (add_nodes s ns) = st_offered s ++ ns /\ st_gen s <= st_gen (add_nodes s ns).
  Proof.
    unfold Traversal.add_nodes. induction ns as [|c ns IH]; simpl; intros s.
    - rewrite app_nil_r. repeat split. lia.
    - destruct (IH (add_node s c)) as [H1 [H2 [H3 [H4 [H5 [H6 [H7 [H8 [H9 [H10 [H11 H12]]]]]]]]]]].
      destruct (add_node_frame s c) as [G1 [G2 [G3 [G4 [G5 [G6 [G7 [G8 [G9 [G10 [G11 G12]]]]]]]]]]].
      rewrite H1, H2, H3, H4, H5, H6, H7, H8, H9, H10, H11, G1, G2, G3, G4, G5, G6, G7, G8, G9, G10, G11.
      rewrite <- app_assoc. repeat split. lia.
  Qed.

  (* ---- addClosest ---- *)
  Lemma add_closest_frame s x :
    st_inflight (add_closest s x) = st_inflight s /\ st_out (add_closest s x) = st_out s /\
    st_queried (add_closest s x) = st_queried s /\ st_unq (add_closest s x) = st_unq s /\
    st_started (add_closest s x) = st_started s /\ st_offered (add_closest s x) = st_offered s /\
    st_gen (add_closest s x) = st_gen s /\ st_loop (add_closest s x) = st_loop s /\
    st_stopping (add_closest s x) = st_stopping s /\ st_stopped (add_closest s x) = st_stopped s /\
    st_responded (add_closest s x) = st_responded s ++ [x].
  Proof.
    unfold Traversal.add_closest. cbn.
    destruct (node_filter (ni_ami (fst x)) && data_filter (snd x)); cbn; repeat split.
  Qed.

  Lemma inv_add_closest s x : TInv s -> 1 <= st_out s -> TInv (add_closest s x).
  Proof.
    intros H Hpos. inv_open H.
    unfold Traversal.add_closest. cbn.
    destruct (node_filter (ni_ami (fst x)) && data_filter (snd x)) eqn:Ef; cbn.
    - apply andb_true_iff in Ef. destruct Ef as [Ef1 Ef2].
      constructor; cbn; try assumption.
      + rewrite (kn_run_snoc D tb). rewrite <- Hclosest. reflexivity.
      + intros e He. apply in_app_or in He. destruct He as [He|[He|[]]].
        * destruct (Hpushed e He) as [n [d [H1 [H2 [H3 H4]]]]].
          exists n, d. repeat split; try assumption. apply in_or_app. left. exact H2.
        * subst e. exists (fst x), (snd x). repeat split; try assumption.
          apply in_or_app. right. left. destruct x; reflexivity.
      + intros g o Hg. destruct (Hgen g o Hg) as [Hle Hv]. split; [exact Hle|].
        intros He. specialize (Hv He). destruct Hv as [Hv1 Hv2].
        unfold wait_valid. rewrite !hq_eq in *. cbn.
        assert (Hzero : Nat.eqb (st_out s) 0 = false) by (apply Nat.eqb_neq; lia).
        rewrite Hzero in *. rewrite andb_false_r in *. split; [|exact Hv2].
        destruct (Nat.ltb (st_out s) alpha) eqn:El; [|reflexivity].
        rewrite andb_true_l in *.
        destruct (hqon (prune (st_queried s) (st_unq s))
                   (kn_push tb target k (st_closest s) (kel_of D (fst x) (snd x)))) eqn:Eh;
          [|reflexivity].
        rewrite Hclosest in Eh.
        apply (have_query_on_push D tb tb_refl tb_eq tb_antisym tb_trans target k) in Eh.
        * rewrite Hclosest in Hv1. congruence.
        * apply (kn_run_ksorted D tb tb_refl tb_eq tb_antisym tb_trans).
        * apply (kn_run_le D tb tb_refl tb_eq tb_antisym tb_trans).
      + intros y Hy Hy1 Hy2. apply in_or_app. apply in_app_or in Hy.
        destruct Hy as [Hy|[Hy|[]]]; [left; exact (Hpall y Hy Hy1 Hy2)|].
        subst y. right. left. reflexivity.
    - constructor; cbn; try assumption.
      + intros e He. destruct (Hpushed e He) as [n [d [H1 [H2 [H3 H4]]]]].
        exists n, d. repeat split; try assumption. apply in_or_app. left. exact H2.
      + intros y Hy Hy1 Hy2. apply in_app_or in Hy.
        destruct Hy as [Hy|[Hy|[]]]; [exact (Hpall y Hy Hy1 Hy2)|].
        subst y. rewrite Hy1, Hy2 in Ef. discriminate.
  Qed.

  (* ---- a sub-step of an in-flight query ---- *)
  Lemma inv_upd_q s i f :
    TInv s ->
    (forall q, q_id (f q) = q_id q) -> (forall q, q_cand (f q) = q_cand q) ->
    (forall q, In q (st_inflight s) -> q_id q = i -> q_pc (f q) <> QWait -> q_cancelled (f q) = true) ->
    TInv (set_inflight s (upd_q D i f (st_inflight s))).
  Proof.
    intros H Hid Hcand Hcanc. inv_open H.
    constructor; cbn; try assumption.
    - rewrite upd_q_length. exact Hout.
    - rewrite (upd_q_ids D i f _ Hid). exact Hqids.
    - intros q' Hq'. apply In_upd_q in Hq'. destruct Hq' as [q [Hq [->|[_ ->]]]].
      + exact (Hqfresh q Hq).
      + rewrite Hid. exact (Hqfresh q Hq).
    - intros q' Hq'. apply In_upd_q in Hq'. destruct Hq' as [q [Hq [->|[_ ->]]]].
      + exact (Hqcand q Hq).
      + rewrite Hcand. exact (Hqcand q Hq).
    - intros q' Hq'. apply In_upd_q in Hq'. destruct Hq' as [q [Hq [->|[Hi ->]]]].
      + exact (Hqcancel q Hq).
      + exact (Hcanc q Hq Hi).
  Qed.

  (* ---- pruning the front of the frontier ---- *)
  Lemma hq_do_prune s : hq (do_prune s) = hq s.
  Proof. rewrite !hq_eq. cbn. rewrite prune_idem. reflexivity. Qed.

  Lemma hqon_do_prune s : hqon (st_unq (do_prune s)) (st_closest (do_prune s)) = hq s.
  Proof. rewrite hq_eq. reflexivity. Qed.

  Lemma inv_do_prune s : TInv s -> TInv (do_prune s).
  Proof.
    intros H. inv_open H.
    constructor; cbn; try assumption.
    - apply prune_sorted. exact Hsorted.
    - intros c Hc. apply Hunq. exact (prune_incl _ _ _ Hc).
    - intros c Hc Hf. destruct (Hlearned c Hc Hf) as [Hl|Hl]; [left; exact Hl|].
      exact (prune_In_or (st_queried s) _ c Hl).
    - intros g o Hg. destruct (Hgen g o Hg) as [Hle Hv]. split; [exact Hle|].
      intros He. specialize (Hv He). unfold wait_valid in *.
      rewrite (hq_do_prune s). exact Hv.
  Qed.

  (* ---- startQuery ---- *)
  Lemma inv_start_query s c u :
    TInv s -> st_unq s = c :: u -> ~ In (ami_addr c) (st_queried s) ->
    st_out s < alpha -> st_loop s = Awake -> st_stopping s = false ->
    TInv (start_query s).
  Proof.
    intros H Hu Hnq Hlt Hawake Hns. inv_open H.
    unfold Traversal.start_query. rewrite Hu.
    assert (Hcu : In c (st_unq s)) by (rewrite Hu; left; reflexivity).
    destruct (Hunq c Hcu) as [Hcf Hco].
    constructor; cbn; try assumption.
    - rewrite Hu in Hsorted. exact (proj1 (ss_sorted_inv _ _ _ Hsorted)).
    - rewrite app_length. simpl. lia.
    - rewrite map_app. simpl. apply NoDup_snoc; [exact Hqids|].
      intros Hin. apply in_map_iff in Hin. destruct Hin as [q [He Hq]].
      specialize (Hqfresh q Hq). lia.
    - intros q Hq. rewrite app_length. simpl. apply in_app_or in Hq.
      destruct Hq as [Hq|[Hq|[]]]; [specialize (Hqfresh q Hq); lia|subst q; simpl; lia].
    - intros q Hq. apply in_or_app. apply in_app_or in Hq.
      destruct Hq as [Hq|[Hq|[]]]; [left; exact (Hqcand q Hq)|subst q; right; left; reflexivity].
    - intros q Hq. apply in_app_or in Hq.
      destruct Hq as [Hq|[Hq|[]]]; [exact (Hqcancel q Hq)|subst q; simpl; congruence].
    - rewrite map_app. simpl. apply NoDup_snoc; [exact Hsnd|].
      intros Hin. apply Hnq. apply Hqueried. exact Hin.
    - intros a. rewrite ap_add_In, map_app, in_app_iff, Hqueried. simpl. intuition.
    - intros x Hx. apply in_app_or in Hx.
      destruct Hx as [Hx|[Hx|[]]]; [exact (Hsf x Hx)|subst x; exact Hcf].
    - intros x Hx. apply in_app_or in Hx.
      destruct Hx as [Hx|[Hx|[]]]; [exact (Hso x Hx)|subst x; exact Hco].
    - intros x Hx. apply Hunq. rewrite Hu. right. exact Hx.
    - intros x Hx Hf. destruct (Hlearned x Hx Hf) as [Hl|Hl].
      + left. apply ap_add_In. right. exact Hl.
      + rewrite Hu in Hl. destruct Hl as [Hl|Hl].
        * subst x. left. apply ap_add_In. left. reflexivity.
        * right. exact Hl.
    - intros g o Hg. rewrite Hawake in Hg. discriminate.
    - intros Hst. destruct (Hstopped Hst) as [Hst' _]. congruence.
  Qed.

  Lemma start_query_frame s c u :
    st_unq s = c :: u ->
    st_out (start_query s) = S (st_out s) /\ st_loop (start_query s) = st_loop s /\
    st_stopping (start_query s) = st_stopping s /\ st_gen (start_query s) = st_gen s.
  Proof. intros Hu. unfold Traversal.start_query. rewrite Hu. cbn. repeat split. Qed.

  Lemma hqon_nil cl : hqon [] cl = false.
  Proof. reflexivity. Qed.

  (* ---- the start loop of Operation.run ---- *)
  Lemma start_loop_S f s :
    start_loop (S f) s =
      if Nat.ltb (st_out s) alpha then
        if hqon (st_unq (do_prune s)) (st_closest (do_prune s))
        then start_loop f (start_query (do_prune s)) else do_prune s
      else s.
  Proof. reflexivity. Qed.

  Lemma inv_start_loop fuel : forall s,
    TInv s -> st_loop s = Awake -> st_stopping s = false ->
    TInv (start_loop fuel s) /\ st_loop (start_loop fuel s) = Awake /\
    st_stopping (start_loop fuel s) = false /\ st_gen (start_loop fuel s) = st_gen s.
  Proof.
    induction fuel as [|f IH]; intros s H Hawake Hns; [simpl; auto|].
    rewrite start_loop_S.
    destruct (Nat.ltb (st_out s) alpha) eqn:El; [|auto].
    apply Nat.ltb_lt in El.
    destruct (hqon (st_unq (do_prune s)) (st_closest (do_prune s))) eqn:Eh.
    - pose proof (inv_do_prune s H) as H1.
      destruct (st_unq (do_prune s)) as [|c u] eqn:Eu; [rewrite hqon_nil in Eh; discriminate|].
      assert (Hnq : ~ In (ami_addr c) (st_queried (do_prune s))).
      { cbn in Eu |- *. exact (prune_head _ _ _ _ Eu). }
      pose proof (inv_start_query (do_prune s) c u H1 Eu Hnq El Hawake Hns) as H2.
      destruct (start_query_frame (do_prune s) c u Eu) as [_ [F2 [F3 F4]]].
      destruct (IH (start_query (do_prune s)) H2) as [I1 [I2 [I3 I4]]].
      + rewrite F2. exact Hawake.
      + rewrite F3. exact Hns.
      + split; [exact I1|]. split; [exact I2|]. split; [exact I3|].
        rewrite I4, F4. reflexivity.
    - split; [apply inv_do_prune; exact H|]. split; [exact Hawake|]. split; [exact Hns|reflexivity].
  Qed.

  (* when the loop stops starting queries, none can be started *)
  Lemma start_loop_post fuel : forall s,
    alpha - st_out s <= fuel ->
    Nat.ltb (st_out (start_loop fuel s)) alpha && hq (start_loop fuel s) = false.
  Proof.
    induction fuel as [|f IH]; intros s Hf.
    - simpl. assert (E : Nat.ltb (st_out s) alpha = false) by (apply Nat.ltb_ge; lia).
      rewrite E. reflexivity.
    - rewrite start_loop_S.
      destruct (Nat.ltb (st_out s) alpha) eqn:El; [|rewrite El; reflexivity].
      apply Nat.ltb_lt in El.
      destruct (hqon (st_unq (do_prune s)) (st_closest (do_prune s))) eqn:Eh.
      + destruct (st_unq (do_prune s)) as [|c u] eqn:Eu; [rewrite hqon_nil in Eh; discriminate|].
        apply IH. destruct (start_query_frame (do_prune s) c u Eu) as [F1 _].
        rewrite F1. cbn. lia.
      + rewrite hq_do_prune. rewrite hqon_do_prune in Eh. rewrite Eh. apply andb_false_r.
  Qed.

  Lemma inv_run_body s :
    TInv s -> st_loop s = Awake -> st_stopping s = false -> TInv (run_body s).
  Proof.
    intros H Hawake Hns. unfold Traversal.run_body.
    destruct (inv_start_loop alpha s H Hawake Hns) as [H1 [L1 [S1 G1]]].
    pose proof (start_loop_post alpha s ltac:(lia)) as Hpost.
    set (s1 := start_loop alpha s) in *.
    pose proof (inv_do_prune s1 H1) as H2.
    rewrite hqon_do_prune.
    inv_open H2.
    constructor; cbn; try assumption.
    - intros g o Hg. injection Hg as <- <-. split; [lia|]. intros _.
      unfold wait_valid. cbn.
      change (have_query D true target k
                (set_loop (Traversal.do_prune D true s1) (Waiting (st_gen s1)
                   ((negb (hq s1) || Nat.eqb alpha 0) && Nat.eqb (st_out s1) 0))))
        with (hq (do_prune s1)).
      rewrite hq_do_prune. split; [exact Hpost|reflexivity].
    - intros He. discriminate.
  Qed.

  (* ---- the remaining primitive updates ---- *)
  Lemma inv_set_loop_awake s : TInv s -> TInv (set_loop s Awake).
  Proof.
    intros H. inv_open H. constructor; cbn; try assumption; intros; discriminate.
  Qed.

  Lemma inv_set_loop_exited s : TInv s -> st_stopping s = true -> TInv (set_loop s Exited).
  Proof.
    intros H Hst. inv_open H. constructor; cbn; try assumption.
    - intros; discriminate.
    - intros _. exact Hst.
  Qed.

  Lemma inv_set_stall_taken s b : TInv s -> TInv (set_stall_taken s b).
  Proof. intros H. inv_open H. constructor; cbn; assumption. Qed.

  Lemma inv_set_stopping s : TInv s -> TInv (set_stopping s true).
  Proof.
    intros H. inv_open H. constructor; cbn; try assumption.
    - intros Hst. split; [reflexivity|]. exact (proj2 (Hstopped Hst)).
    - intros _. reflexivity.
  Qed.

  Lemma inv_set_stopped s :
    TInv s -> st_stopping s = true -> st_out s = 0 -> TInv (set_stopped s true).
  Proof.
    intros H Hst Ho. inv_open H. constructor; cbn; try assumption.
    intros _. split; assumption.
  Qed.

  Lemma inv_done s i q :
    TInv s -> find_q i (st_inflight s) = Some q ->
    TInv (set_gen (set_out (set_inflight s (del_q D i (st_inflight s))) (pred (st_out s)))
                  (S (st_gen s))).
  Proof.
    intros H Hf. inv_open H. constructor; cbn; try assumption.
    - rewrite (del_q_length D i _ q Hf). rewrite Hout. reflexivity.
    - lia.
    - apply del_q_ids_nodup. exact Hqids.
    - intros x Hx. apply Hqfresh. exact (del_q_incl D i _ x Hx).
    - intros x Hx. apply Hqcand. exact (del_q_incl D i _ x Hx).
    - intros x Hx. apply Hqcancel. exact (del_q_incl D i _ x Hx).
    - intros g o Hg. destruct (Hgen g o Hg) as [Hle _]. split; [lia|]. intros ->. lia.
    - intros Hst. destruct (Hstopped Hst) as [H1 H2]. split; [exact H1|]. rewrite H2. reflexivity.
  Qed.

  Lemma qpc_eqb_eq a b : qpc_eqb a b = true <-> a = b.
  Proof. destruct a, b; simpl; split; intros H; try reflexivity; try discriminate. Qed.

  Lemma q_at_find (s : state) i p :
    q_at D s i p = true -> exists q, find_q i (st_inflight s) = Some q /\ q_pc q = p.
  Proof.
    unfold q_at. destruct (find_q i (st_inflight s)) as [q|]; [|discriminate].
    intros H. exists q. split; [reflexivity|]. apply qpc_eqb_eq. exact H.
  Qed.

  (* the query with a given id is unique *)
  Lemma inflight_unique (s : state) i q q' :
    TInv s -> find_q i (st_inflight s) = Some q -> In q' (st_inflight s) -> q_id q' = i -> q' = q.
  Proof.
    intros H Hf Hq' Hi. pose proof (In_find_q D _ q' (inv_qids s H) Hq') as E.
    rewrite Hi, Hf in E. congruence.
  Qed.

  Lemma inv_substep s s1 i p p' :
    TInv s -> TInv s1 -> st_inflight s1 = st_inflight s ->
    q_at D s i p = true -> p <> QWait ->
    TInv (set_inflight s1 (upd_q D i (q_set_pc D p') (st_inflight s1))).
  Proof.
    intros H H1 Hi Hat Hp.
    destruct (q_at_find s i p Hat) as [q [Hf Hpc]].
    apply inv_upd_q; try exact H1; try reflexivity.
    intros q' Hq' Hid _. cbn. rewrite Hi in Hq'.
    rewrite (inflight_unique s i q q' H Hf Hq' Hid).
    apply (inv_qcancel s H q); [exact (proj1 (find_q_In D i _ q Hf))|congruence].
  Qed.

  (* ---- every enabled label preserves the invariant ---- *)
  Theorem inv_step s l : TInv s -> enabled s l = true -> TInv (step s l).
  Proof.
    intros H En. destruct l as [| | |i r|i|i|i|i|ns| | |i]; cbn [Traversal.step Traversal.enabled] in *.
    - (* LRun *)
      destruct (st_loop s) eqn:El; try discriminate.
      unfold Traversal.run_step. destruct (st_stopping s) eqn:Es.
      + apply inv_set_loop_exited; assumption.
      + apply inv_run_body; assumption.
    - (* LWake *) apply inv_set_loop_awake. exact H.
    - (* LTakeStall *) apply inv_set_stall_taken. apply inv_set_loop_awake. exact H.
    - (* LDoQueryReturn *)
      apply inv_upd_q; try exact H; reflexivity.
    - (* LResp *)
      destruct (q_at_find s i QResp En) as [q [Hf Hpc]].
      assert (Hpos : 1 <= st_out s).
      { rewrite (inv_out s H). destruct (find_q_In D i _ q Hf) as [Hin _].
        destruct (st_inflight s); [destruct Hin|simpl; lia]. }
      destruct (r_from (resp_of D s i)) as [x|].
      + apply (inv_substep s _ i QResp QAddN H); try assumption; try discriminate.
        * apply inv_add_closest; assumption.
        * exact (proj1 (add_closest_frame s x)).
      + apply (inv_substep s s i QResp QAddN H H eq_refl En). discriminate.
    - (* LAddN *)
      apply (inv_substep s _ i QAddN QAddN6 H); try assumption; try discriminate.
      + apply inv_add_nodes. exact H.
      + exact (proj1 (add_nodes_frame _ s)).
    - (* LAddN6 *)
      apply (inv_substep s _ i QAddN6 QDone H); try assumption; try discriminate.
      + apply inv_add_nodes. exact H.
      + exact (proj1 (add_nodes_frame _ s)).
    - (* LDone *)
      destruct (q_at_find s i QDone En) as [q [Hf _]]. exact (inv_done s i q H Hf).
    - (* LAddNodes *) apply inv_add_nodes. exact H.
    - (* LStop *) apply inv_set_stopping. exact H.
    - (* LStopWait *)
      apply andb_true_iff in En. destruct En as [En Ho]. apply andb_true_iff in En.
      destruct En as [Es _]. apply Nat.eqb_eq in Ho. apply inv_set_stopped; assumption.
    - (* LCancel *)
      apply inv_upd_q; try exact H; reflexivity.
  Qed.

  Theorem inv_step_en s l : TInv s -> TInv (step_en s l).
  Proof.
    intros H. unfold Traversal.step_en. destruct (enabled s l) eqn:En; [|exact H].
    apply inv_step; assumption.
  Qed.

  Theorem inv_exec ls : forall s, TInv s -> TInv (exec s ls).
  Proof.
    unfold Traversal.exec. induction ls as [|l ls IH]; simpl; intros s H; [exact H|].
    apply IH. apply inv_step_en. exact H.
  Qed.

  (* every reachable state satisfies the invariant *)
  Theorem inv_run ls : TInv (run ls).
  Proof. apply inv_exec. apply TInv_init. Qed.
End Inv.

Print Assumptions inv_run.
