(* CompactProofs.v — proofs about model/Compact.v: ports, NodeAddr / NodeInfo binary codecs, the five
   compact list codecs (length characterisation, re-encoding to identical bytes, inverse on
   well-formed lists, absence of panics) and the nodes file. *)
From Dht Require Import Base Msg Compact Int160Proofs.
From DhtGen Require Import Params.
From Coq Require Import Lia ZifyN ZifyNat ZifyBool Arith.
Local Arguments firstn : simpl never.
Local Arguments skipn : simpl never.

(* ---------------------------------------------------------------- small list facts *)
Lemma len2_inv {A} (l : list A) : length l = 2%nat -> exists a b, l = [a; b].
Proof.
  destruct l as [|a [|b [|c l]]]; simpl; intros H; try discriminate.
  eauto.
Qed.

Lemma firstn_len {A} n (l : list A) : (n <= length l)%nat -> length (firstn n l) = n.
Proof. intros H. rewrite firstn_length. lia. Qed.

Lemma skipn_len {A} n (l : list A) : length (skipn n l) = (length l - n)%nat.
Proof. apply skipn_length. Qed.

Lemma firstn_app_exact {A} (a b : list A) : firstn (length a) (a ++ b) = a.
Proof. rewrite firstn_app, Nat.sub_diag, firstn_all. simpl. apply app_nil_r. Qed.

Lemma skipn_app_exact {A} (a b : list A) : skipn (length a) (a ++ b) = b.
Proof. rewrite skipn_app, Nat.sub_diag, skipn_all. reflexivity. Qed.

Lemma firstn_app_n {A} n (a b : list A) : length a = n -> firstn n (a ++ b) = a.
Proof. intros <-. apply firstn_app_exact. Qed.

Lemma skipn_app_n {A} n (a b : list A) : length a = n -> skipn n (a ++ b) = b.
Proof. intros <-. apply skipn_app_exact. Qed.

(* ---------------------------------------------------------------- ports *)
Lemma byte_of_N_mod v : byte_of_N v = byte_of_N (v mod 256).
Proof. unfold byte_of_N. rewrite N.mod_mod by lia. reflexivity. Qed.

Lemma port_enc_length p : length (port_enc p) = 2%nat.
Proof. reflexivity. Qed.

Theorem port_dec_enc p : port_ok p -> port_dec (port_enc p) = p.
Proof.
  unfold port_ok, port_enc, port_dec. intros H.
  rewrite !to_N_byte_of_N.
  rewrite Z.mod_small by lia.
  set (q := Z.to_N p).
  assert (Hq : (q < 65536)%N) by lia.
  assert (Hd : (q / 256 < 256)%N) by (apply N.div_lt_upper_bound; lia).
  rewrite (N.mod_small (q / 256)) by exact Hd.
  pose proof (N.div_mod q 256 ltac:(lia)) as E.
  lia.
Qed.

Theorem port_enc_dec hi lo : port_enc (port_dec [hi; lo]) = [hi; lo].
Proof.
  unfold port_enc, port_dec.
  pose proof (byte_lt hi) as Hh. pose proof (byte_lt lo) as Hl.
  set (v := (256 * Byte.to_N hi + Byte.to_N lo)%N).
  assert (Hv : (v < 65536)%N) by (unfold v; lia).
  rewrite Z.mod_small by lia.
  rewrite N2Z.id.
  assert (E1 : (v / 256 = Byte.to_N hi)%N).
  { unfold v. rewrite N.mul_comm, N.div_add_l by lia. rewrite N.div_small by lia. lia. }
  assert (E2 : (v mod 256 = Byte.to_N lo)%N).
  { unfold v. rewrite N.add_comm, N.mul_comm, N.mod_add by lia. apply N.mod_small; lia. }
  rewrite E1, byte_of_to_N.
  rewrite (byte_of_N_mod v), E2, byte_of_to_N. reflexivity.
Qed.

Lemma port_dec_ok b : port_ok (port_dec b).
Proof.
  unfold port_ok, port_dec.
  destruct b as [|hi [|lo [|x b]]]; try lia.
  pose proof (byte_lt hi). pose proof (byte_lt lo). lia.
Qed.

(* ---------------------------------------------------------------- NodeAddr *)
Lemma nodeaddr_marshal_length a : length (nodeaddr_marshal a) = (length (na_ip a) + 2)%nat.
Proof. unfold nodeaddr_marshal. rewrite app_length. reflexivity. Qed.

Theorem nodeaddr_unmarshal_short b : (length b < 2)%nat -> nodeaddr_unmarshal b = CErr.
Proof.
  intros H. unfold nodeaddr_unmarshal.
  destruct (Nat.ltb_spec (length b) 2); [reflexivity | lia].
Qed.

Theorem nodeaddr_unmarshal_ok b :
  (2 <= length b)%nat ->
  exists a, nodeaddr_unmarshal b = COk a /\ nodeaddr_marshal a = b /\
            length (na_ip a) = (length b - 2)%nat /\ port_ok (na_port a).
Proof.
  intros H. unfold nodeaddr_unmarshal.
  destruct (Nat.ltb_spec (length b) 2); [lia|].
  eexists; split; [reflexivity|].
  unfold nodeaddr_marshal; simpl.
  assert (L : length (skipn (length b - 2) b) = 2%nat) by (rewrite skipn_len; lia).
  destruct (len2_inv _ L) as (hi & lo & E).
  split; [|split].
  - rewrite E, port_enc_dec, <- E. apply firstn_skipn.
  - apply firstn_len. lia.
  - apply port_dec_ok.
Qed.

Theorem nodeaddr_roundtrip a : port_ok (na_port a) -> nodeaddr_unmarshal (nodeaddr_marshal a) = COk a.
Proof.
  intros Hp. unfold nodeaddr_unmarshal.
  rewrite nodeaddr_marshal_length.
  destruct (Nat.ltb_spec (length (na_ip a) + 2) 2); [lia|].
  replace (length (na_ip a) + 2 - 2)%nat with (length (na_ip a)) by lia.
  unfold nodeaddr_marshal.
  rewrite firstn_app_exact, skipn_app_exact, port_dec_enc by exact Hp.
  destruct a; reflexivity.
Qed.

Theorem nodeaddr_unmarshal_no_panic b : nodeaddr_unmarshal b <> CPanic.
Proof. unfold nodeaddr_unmarshal. destruct (Nat.ltb _ _); discriminate. Qed.

(* ---------------------------------------------------------------- NodeInfo *)
Lemma nodeinfo_marshal_length n :
  length (nodeinfo_marshal n) = (length (ni_id n) + length (na_ip (ni_addr n)) + 2)%nat.
Proof. unfold nodeinfo_marshal. rewrite app_length, nodeaddr_marshal_length. lia. Qed.

Theorem nodeinfo_unmarshal_ok b :
  (22 <= length b)%nat ->
  exists n, nodeinfo_unmarshal b = COk n /\ nodeinfo_unmarshal_pinned b = COk n /\ nodeinfo_marshal n = b /\
            length (ni_id n) = 20%nat /\ length (na_ip (ni_addr n)) = (length b - 22)%nat /\
            port_ok (na_port (ni_addr n)).
Proof.
  intros H. unfold nodeinfo_unmarshal, nodeinfo_unmarshal_pinned.
  destruct (Nat.ltb_spec (length b) 20); [lia|].
  destruct (nodeaddr_unmarshal_ok (skipn 20 b)) as (a & E & M & L & P).
  { rewrite skipn_len. lia. }
  rewrite E. eexists. split; [reflexivity|]. split; [reflexivity|].
  split; [|split; [|split]].
  - unfold nodeinfo_marshal; simpl. rewrite M. apply firstn_skipn.
  - simpl. apply firstn_len. lia.
  - simpl. rewrite L, skipn_len. lia.
  - exact P.
Qed.

Theorem nodeinfo_unmarshal_short b : (length b < 22)%nat -> nodeinfo_unmarshal b = CErr.
Proof.
  intros H. unfold nodeinfo_unmarshal.
  destruct (Nat.ltb_spec (length b) 20); [reflexivity|].
  rewrite nodeaddr_unmarshal_short; [reflexivity|]. rewrite skipn_len. lia.
Qed.

Theorem nodeinfo_roundtrip n :
  length (ni_id n) = 20%nat -> port_ok (na_port (ni_addr n)) ->
  nodeinfo_unmarshal (nodeinfo_marshal n) = COk n /\ nodeinfo_unmarshal_pinned (nodeinfo_marshal n) = COk n.
Proof.
  intros Hid Hp. unfold nodeinfo_unmarshal, nodeinfo_unmarshal_pinned.
  rewrite nodeinfo_marshal_length.
  destruct (Nat.ltb_spec (length (ni_id n) + length (na_ip (ni_addr n)) + 2) 20); [lia|].
  unfold nodeinfo_marshal.
  rewrite (skipn_app_n 20) by exact Hid. rewrite (firstn_app_n 20) by exact Hid.
  rewrite nodeaddr_roundtrip by exact Hp.
  destruct n; split; reflexivity.
Qed.

(* the repaired decoder never panics; the pinned one does (defect D9) *)
Theorem nodeinfo_unmarshal_no_panic b : nodeinfo_unmarshal b <> CPanic.
Proof.
  unfold nodeinfo_unmarshal. destruct (Nat.ltb _ _); [discriminate|].
  pose proof (nodeaddr_unmarshal_no_panic (skipn 20 b)).
  destruct (nodeaddr_unmarshal (skipn 20 b)); congruence.
Qed.

Theorem nodeinfo_unmarshal_pinned_panics : exists b, nodeinfo_unmarshal_pinned b = CPanic.
Proof. exists []. reflexivity. Qed.

Theorem nodeinfo_unmarshal_pinned_panic_iff b : nodeinfo_unmarshal_pinned b = CPanic <-> (length b < 20)%nat.
Proof.
  unfold nodeinfo_unmarshal_pinned. destruct (Nat.ltb_spec (length b) 20).
  - split; [intros _; assumption | reflexivity].
  - pose proof (nodeaddr_unmarshal_no_panic (skipn 20 b)).
    destruct (nodeaddr_unmarshal (skipn 20 b)); split; intros; try congruence; lia.
Qed.

(* ---------------------------------------------------------------- generic compact lists *)
Section Generic.
  Context {A : Type}.
  Variable w : nat.
  Variable g : bytes -> cresult A.
  Hypothesis w_pos : (0 < w)%nat.

  Lemma mod_sub_w n : (w <= n)%nat -> ((n - w) mod w = n mod w)%nat.
  Proof.
    intros H. replace n with ((n - w) + 1 * w)%nat at 2 by lia.
    rewrite Nat.mod_add by lia. reflexivity.
  Qed.

  (* the element decoder accepts every w-byte chunk *)
  Hypothesis g_total : forall c, length c = w -> exists x, g c = COk x.

  Lemma dec_fuel_iff fuel b :
    (length b <= fuel)%nat ->
    ((exists l, compact_dec_fuel fuel w g b = COk l) <-> (length b mod w = 0)%nat) /\
    ((length b mod w <> 0)%nat -> compact_dec_fuel fuel w g b = CErr).
  Proof.
    revert b. induction fuel as [|fuel IH]; intros b Hb.
    - destruct b; [|simpl in Hb; lia]. simpl. rewrite Nat.mod_0_l by lia. split; [split; eauto | congruence].
    - destruct b as [|x b']; [simpl; rewrite Nat.mod_0_l by lia; split; [split; eauto | congruence]|].
      set (b := x :: b') in *.
      change (compact_dec_fuel (S fuel) w g b) with
        (if Nat.ltb (length b) w then CErr
         else match g (firstn w b) with
              | COk y => match compact_dec_fuel fuel w g (skipn w b) with COk l => COk (y :: l) | o => o end
              | CErr => CErr
              | CPanic => CPanic
              end).
      destruct (Nat.ltb_spec (length b) w) as [Hlt | Hge].
      + rewrite Nat.mod_small by exact Hlt.
        assert (length b <> 0)%nat by (subst b; simpl; lia).
        split; [split; [intros (l & E); discriminate | lia] | reflexivity].
      + destruct (g_total (firstn w b)) as (y & Ey); [apply firstn_len; exact Hge|].
        rewrite Ey.
        destruct (IH (skipn w b)) as (I1 & I2); [rewrite skipn_len; lia|].
        rewrite skipn_len, mod_sub_w in I1, I2 by exact Hge.
        split; [split|].
        * intros (l & E). apply I1.
          destruct (compact_dec_fuel fuel w g (skipn w b)); try discriminate. eauto.
        * intros Hm. apply I1 in Hm. destruct Hm as (l & E). rewrite E. eauto.
        * intros Hm. rewrite (I2 Hm). reflexivity.
  Qed.

  Theorem compact_dec_iff b : (exists l, compact_dec w g b = COk l) <-> (length b mod w = 0)%nat.
  Proof. apply (dec_fuel_iff (length b) b). lia. Qed.

  Theorem compact_dec_bad_length b : (length b mod w <> 0)%nat -> compact_dec w g b = CErr.
  Proof. apply (dec_fuel_iff (length b) b). lia. Qed.

  Theorem compact_dec_no_panic b : compact_dec w g b <> CPanic.
  Proof.
    destruct (Nat.eq_dec (length b mod w) 0) as [E | E].
    - apply compact_dec_iff in E. destruct E as (l & ->). discriminate.
    - rewrite compact_dec_bad_length by exact E. discriminate.
  Qed.

  (* re-encoding what was decoded gives the identical bytes *)
  Variable f : A -> bytes.
  Hypothesis fg : forall c x, length c = w -> g c = COk x -> f x = c.

  Lemma dec_fuel_reencode fuel b l :
    compact_dec_fuel fuel w g b = COk l -> compact_enc w f l = COk b.
  Proof.
    revert b l. induction fuel as [|fuel IH]; intros b l.
    - destruct b; simpl; [intros [= <-]; reflexivity | discriminate].
    - destruct b as [|x b']; [simpl; intros [= <-]; reflexivity|].
      set (b := x :: b').
      change (compact_dec_fuel (S fuel) w g b) with
        (if Nat.ltb (length b) w then CErr
         else match g (firstn w b) with
              | COk y => match compact_dec_fuel fuel w g (skipn w b) with COk l => COk (y :: l) | o => o end
              | CErr => CErr
              | CPanic => CPanic
              end).
      destruct (Nat.ltb_spec (length b) w) as [Hlt | Hge]; [discriminate|].
      destruct (g (firstn w b)) as [y| |] eqn:Ey; try discriminate.
      destruct (compact_dec_fuel fuel w g (skipn w b)) as [l'| |] eqn:El; try discriminate.
      intros [= <-]. simpl.
      assert (Hc : length (firstn w b) = w) by (apply firstn_len; exact Hge).
      rewrite (fg _ _ Hc Ey), Hc, Nat.eqb_refl, (IH _ _ El), firstn_skipn. reflexivity.
  Qed.

  Theorem compact_dec_reencode b l : compact_dec w g b = COk l -> compact_enc w f l = COk b.
  Proof. apply dec_fuel_reencode. Qed.
End Generic.

Section GenericInverse.
  Context {A : Type}.
  Variable w : nat.
  Variable f : A -> bytes.
  Variable g : bytes -> cresult A.
  Hypothesis w_pos : (0 < w)%nat.

  Lemma enc_length l b : compact_enc w f l = COk b -> length b = (length l * w)%nat.
  Proof.
    revert b. induction l as [|x l IH]; simpl; intros b.
    - intros [= <-]. reflexivity.
    - destruct (Nat.eqb_spec (length (f x)) w) as [E|]; [|discriminate].
      destruct (compact_enc w f l) as [r| |]; try discriminate.
      intros [= <-]. rewrite app_length, (IH r eq_refl). lia.
  Qed.

  (* encoding then decoding gives the list back, when each element survives its own round trip *)
  Theorem compact_enc_dec l b :
    compact_enc w f l = COk b -> Forall (fun x => g (f x) = COk x) l -> compact_dec w g b = COk l.
  Proof.
    unfold compact_dec.
    assert (G : forall fuel l b, (length b <= fuel)%nat -> compact_enc w f l = COk b ->
                Forall (fun x => g (f x) = COk x) l -> compact_dec_fuel fuel w g b = COk l).
    { clear l b. induction fuel as [|fuel IH]; intros l b Hb He Hf.
      - destruct b; [|simpl in Hb; lia].
        destruct l as [|x l]; [reflexivity|]. apply enc_length in He. simpl in He. lia.
      - destruct l as [|x l]; simpl in He.
        + injection He as <-. reflexivity.
        + destruct (Nat.eqb_spec (length (f x)) w) as [E|]; [|discriminate].
          destruct (compact_enc w f l) as [r| |] eqn:Er; try discriminate.
          injection He as <-. apply Forall_cons_iff in Hf. destruct Hf as [Hx Hl].
          destruct (f x ++ r) as [|c rest] eqn:Eb.
          { apply (f_equal (@length _)) in Eb. rewrite app_length in Eb. simpl in Eb. lia. }
          rewrite <- Eb in *.
          change (compact_dec_fuel (S fuel) w g (f x ++ r)) with
            (match f x ++ r with
             | [] => COk []
             | _ => if Nat.ltb (length (f x ++ r)) w then CErr
                    else match g (firstn w (f x ++ r)) with
                         | COk y => match compact_dec_fuel fuel w g (skipn w (f x ++ r)) with COk l => COk (y :: l) | o => o end
                         | CErr => CErr
                         | CPanic => CPanic
                         end
             end).
          rewrite Eb, <- Eb.
          destruct (Nat.ltb_spec (length (f x ++ r)) w) as [Hlt|_]; [rewrite app_length in Hlt; lia|].
          rewrite (firstn_app_n w) by exact E. rewrite (skipn_app_n w) by exact E.
          rewrite Hx, (IH l r); [reflexivity| |exact Er|exact Hl].
          rewrite app_length in Hb. lia. }
    intros. apply G; auto.
  Qed.
End GenericInverse.

(* ---------------------------------------------------------------- element widths as found in the source *)
Lemma w_addr4_eq : w_addr4 = 6%nat. Proof. reflexivity. Qed.
Lemma w_addr6_eq : w_addr6 = 18%nat. Proof. reflexivity. Qed.
Lemma w_info4_eq : w_info4 = 26%nat. Proof. reflexivity. Qed.
Lemma w_info6_eq : w_info6 = 38%nat. Proof. reflexivity. Qed.
Lemma w_hash_eq : w_hash = 20%nat. Proof. reflexivity. Qed.

(* ---------------------------------------------------------------- To4 / To16 *)
Lemma to4_len4 ip : length ip = 4%nat -> to4 ip = Some ip.
Proof. intros H. unfold to4. rewrite H. reflexivity. Qed.

Lemma to16_len16 ip : length ip = 16%nat -> to16 ip = Some ip.
Proof. intros H. unfold to16. rewrite H. reflexivity. Qed.

(* element-level facts for the four contact list types *)
Lemma addr_total n c : (2 <= n)%nat -> length c = n -> exists x, nodeaddr_unmarshal c = COk x.
Proof. intros H L. destruct (nodeaddr_unmarshal_ok c) as (a & E & _); [lia | eauto]. Qed.

Lemma addr4_fg c x : length c = 6%nat -> nodeaddr_unmarshal c = COk x -> nodeaddr_marshal (addr4_conv x) = c.
Proof.
  intros L E. destruct (nodeaddr_unmarshal_ok c) as (a & E' & M & Lip & _); [lia|].
  rewrite E in E'. injection E' as <-.
  unfold addr4_conv. rewrite to4_len4 by lia. destruct x; exact M.
Qed.

Lemma addr6_fg c x : length c = 18%nat -> nodeaddr_unmarshal c = COk x -> nodeaddr_marshal (addr6_conv x) = c.
Proof.
  intros L E. destruct (nodeaddr_unmarshal_ok c) as (a & E' & M & Lip & _); [lia|].
  rewrite E in E'. injection E' as <-.
  unfold addr6_conv. rewrite to16_len16 by lia. destruct x; exact M.
Qed.

Section InfoElems.
  (* either NodeInfo decoder: they agree on inputs of at least 22 bytes *)
  Variable ni : bytes -> cresult node_info.
  Hypothesis ni_long : forall b, (22 <= length b)%nat -> ni b = nodeinfo_unmarshal b.

  Lemma info_total n c : (22 <= n)%nat -> length c = n -> exists x, ni c = COk x.
  Proof.
    intros H L. rewrite ni_long by lia.
    destruct (nodeinfo_unmarshal_ok c) as (x & E & _); [lia | eauto].
  Qed.

  Lemma info4_fg c x : length c = 26%nat -> ni c = COk x -> nodeinfo_marshal (info4_conv x) = c.
  Proof.
    intros L E. rewrite ni_long in E by lia.
    destruct (nodeinfo_unmarshal_ok c) as (a & E' & _ & M & _ & Lip & _); [lia|].
    rewrite E in E'. injection E' as <-.
    unfold info4_conv. rewrite to4_len4 by lia. destruct x as [id [ip p]]; exact M.
  Qed.

  Lemma info6_fg c x : length c = 38%nat -> ni c = COk x -> nodeinfo_marshal (info6_conv x) = c.
  Proof.
    intros L E. rewrite ni_long in E by lia.
    destruct (nodeinfo_unmarshal_ok c) as (a & E' & _ & M & _ & Lip & _); [lia|].
    rewrite E in E'. injection E' as <-.
    unfold info6_conv. rewrite to16_len16 by lia. destruct x as [id [ip p]]; exact M.
  Qed.
End InfoElems.

Lemma fixed_long b : (22 <= length b)%nat -> nodeinfo_unmarshal b = nodeinfo_unmarshal b.
Proof. reflexivity. Qed.

Lemma pinned_long b : (22 <= length b)%nat -> nodeinfo_unmarshal_pinned b = nodeinfo_unmarshal b.
Proof.
  intros H. destruct (nodeinfo_unmarshal_ok b H) as (n & E1 & E2 & _). congruence.
Qed.

(* ---------------------------------------------------------------- the five types *)
(* decode succeeds exactly on multiples of the width; otherwise it is an error, never a panic *)
Theorem addrs4_iff b : (exists l, addrs4_dec b = COk l) <-> (length b mod 6 = 0)%nat.
Proof.
  unfold addrs4_dec. rewrite w_addr4_eq.
  apply compact_dec_iff; [lia|]. intros c. apply (addr_total 6). lia.
Qed.
Theorem addrs6_iff b : (exists l, addrs6_dec b = COk l) <-> (length b mod 18 = 0)%nat.
Proof.
  unfold addrs6_dec. rewrite w_addr6_eq.
  apply compact_dec_iff; [lia|]. intros c. apply (addr_total 18). lia.
Qed.
Theorem infos4_iff b : (exists l, infos4_dec b = COk l) <-> (length b mod 26 = 0)%nat.
Proof.
  unfold infos4_dec. rewrite w_info4_eq.
  apply compact_dec_iff; [lia|]. intros c. apply (info_total _ fixed_long 26). lia.
Qed.
Theorem infos6_iff b : (exists l, infos6_dec b = COk l) <-> (length b mod 38 = 0)%nat.
Proof.
  unfold infos6_dec. rewrite w_info6_eq.
  apply compact_dec_iff; [lia|]. intros c. apply (info_total _ fixed_long 38). lia.
Qed.
Theorem infos4_pinned_iff b : (exists l, infos4_dec_pinned b = COk l) <-> (length b mod 26 = 0)%nat.
Proof.
  unfold infos4_dec_pinned. rewrite w_info4_eq.
  apply compact_dec_iff; [lia|]. intros c. apply (info_total _ pinned_long 26). lia.
Qed.
Theorem infos6_pinned_iff b : (exists l, infos6_dec_pinned b = COk l) <-> (length b mod 38 = 0)%nat.
Proof.
  unfold infos6_dec_pinned. rewrite w_info6_eq.
  apply compact_dec_iff; [lia|]. intros c. apply (info_total _ pinned_long 38). lia.
Qed.
Lemma hash_total c : length c = 20%nat -> exists x, hash_elem c = COk x.
Proof. intros _. unfold hash_elem. rewrite w_hash_eq. simpl. eauto. Qed.
Theorem hashes_iff b : (exists l, hashes_dec b = COk l) <-> (length b mod 20 = 0)%nat.
Proof.
  unfold hashes_dec. rewrite w_hash_eq. apply compact_dec_iff; [lia|]. exact hash_total.
Qed.

Theorem addrs4_bad_length b : (length b mod 6 <> 0)%nat -> addrs4_dec b = CErr.
Proof. unfold addrs4_dec. rewrite w_addr4_eq. apply compact_dec_bad_length; [lia|]. intros c. apply (addr_total 6). lia. Qed.
Theorem addrs6_bad_length b : (length b mod 18 <> 0)%nat -> addrs6_dec b = CErr.
Proof. unfold addrs6_dec. rewrite w_addr6_eq. apply compact_dec_bad_length; [lia|]. intros c. apply (addr_total 18). lia. Qed.
Theorem infos4_bad_length b : (length b mod 26 <> 0)%nat -> infos4_dec b = CErr.
Proof. unfold infos4_dec. rewrite w_info4_eq. apply compact_dec_bad_length; [lia|]. intros c. apply (info_total _ fixed_long 26). lia. Qed.
Theorem infos6_bad_length b : (length b mod 38 <> 0)%nat -> infos6_dec b = CErr.
Proof. unfold infos6_dec. rewrite w_info6_eq. apply compact_dec_bad_length; [lia|]. intros c. apply (info_total _ fixed_long 38). lia. Qed.
Theorem hashes_bad_length b : (length b mod 20 <> 0)%nat -> hashes_dec b = CErr.
Proof. unfold hashes_dec. rewrite w_hash_eq. apply compact_dec_bad_length; [lia|]. exact hash_total. Qed.

Theorem addrs4_no_panic b : addrs4_dec b <> CPanic.
Proof. unfold addrs4_dec. rewrite w_addr4_eq. apply compact_dec_no_panic; [lia|]. intros c. apply (addr_total 6). lia. Qed.
Theorem addrs6_no_panic b : addrs6_dec b <> CPanic.
Proof. unfold addrs6_dec. rewrite w_addr6_eq. apply compact_dec_no_panic; [lia|]. intros c. apply (addr_total 18). lia. Qed.
Theorem infos4_no_panic b : infos4_dec b <> CPanic.
Proof. unfold infos4_dec. rewrite w_info4_eq. apply compact_dec_no_panic; [lia|]. intros c. apply (info_total _ fixed_long 26). lia. Qed.
Theorem infos6_no_panic b : infos6_dec b <> CPanic.
Proof. unfold infos6_dec. rewrite w_info6_eq. apply compact_dec_no_panic; [lia|]. intros c. apply (info_total _ fixed_long 38). lia. Qed.
(* inside a list every element has the full width, so even the pinned NodeInfo decoder is safe there *)
Theorem infos4_pinned_no_panic b : infos4_dec_pinned b <> CPanic.
Proof. unfold infos4_dec_pinned. rewrite w_info4_eq. apply compact_dec_no_panic; [lia|]. intros c. apply (info_total _ pinned_long 26). lia. Qed.
Theorem infos6_pinned_no_panic b : infos6_dec_pinned b <> CPanic.
Proof. unfold infos6_dec_pinned. rewrite w_info6_eq. apply compact_dec_no_panic; [lia|]. intros c. apply (info_total _ pinned_long 38). lia. Qed.
Theorem hashes_no_panic b : hashes_dec b <> CPanic.
Proof. unfold hashes_dec. rewrite w_hash_eq. apply compact_dec_no_panic; [lia|]. exact hash_total. Qed.

(* what decodes re-encodes to the identical bytes *)
Theorem addrs4_reencode b l : addrs4_dec b = COk l -> addrs4_enc l = COk b.
Proof.
  unfold addrs4_dec, addrs4_enc. rewrite w_addr4_eq.
  apply (compact_dec_reencode 6 nodeaddr_unmarshal (fun a => nodeaddr_marshal (addr4_conv a))). exact addr4_fg.
Qed.
Theorem addrs6_reencode b l : addrs6_dec b = COk l -> addrs6_enc l = COk b.
Proof.
  unfold addrs6_dec, addrs6_enc. rewrite w_addr6_eq.
  apply (compact_dec_reencode 18 nodeaddr_unmarshal (fun a => nodeaddr_marshal (addr6_conv a))). exact addr6_fg.
Qed.
Theorem infos4_reencode b l : infos4_dec b = COk l -> infos4_enc l = COk b.
Proof.
  unfold infos4_dec, infos4_enc. rewrite w_info4_eq.
  apply (compact_dec_reencode 26 nodeinfo_unmarshal (fun n => nodeinfo_marshal (info4_conv n))). exact (info4_fg _ fixed_long).
Qed.
Theorem infos6_reencode b l : infos6_dec b = COk l -> infos6_enc l = COk b.
Proof.
  unfold infos6_dec, infos6_enc. rewrite w_info6_eq.
  apply (compact_dec_reencode 38 nodeinfo_unmarshal (fun n => nodeinfo_marshal (info6_conv n))). exact (info6_fg _ fixed_long).
Qed.
Theorem infos4_pinned_reencode b l : infos4_dec_pinned b = COk l -> infos4_enc l = COk b.
Proof.
  unfold infos4_dec_pinned, infos4_enc. rewrite w_info4_eq.
  apply (compact_dec_reencode 26 nodeinfo_unmarshal_pinned (fun n => nodeinfo_marshal (info4_conv n))). exact (info4_fg _ pinned_long).
Qed.
Theorem infos6_pinned_reencode b l : infos6_dec_pinned b = COk l -> infos6_enc l = COk b.
Proof.
  unfold infos6_dec_pinned, infos6_enc. rewrite w_info6_eq.
  apply (compact_dec_reencode 38 nodeinfo_unmarshal_pinned (fun n => nodeinfo_marshal (info6_conv n))). exact (info6_fg _ pinned_long).
Qed.

Lemma hashes_dec_concat fuel b l : compact_dec_fuel fuel w_hash hash_elem b = COk l -> concat l = b.
Proof.
  rewrite w_hash_eq. revert b l. induction fuel as [|fuel IH]; intros b l.
  - destruct b; simpl; [intros [= <-]; reflexivity | discriminate].
  - destruct b as [|x b']; [simpl; intros [= <-]; reflexivity|].
    set (b := x :: b').
    change (compact_dec_fuel (S fuel) 20 hash_elem b) with
      (if Nat.ltb (length b) 20 then CErr
       else match hash_elem (firstn 20 b) with
            | COk y => match compact_dec_fuel fuel 20 hash_elem (skipn 20 b) with COk l => COk (y :: l) | o => o end
            | CErr => CErr
            | CPanic => CPanic
            end).
    destruct (Nat.ltb (length b) 20); [discriminate|].
    assert (He : forall c, hash_elem c = COk c) by (intros c; unfold hash_elem; rewrite w_hash_eq; reflexivity).
    rewrite He.
    destruct (compact_dec_fuel fuel 20 hash_elem (skipn 20 b)) as [l'| |] eqn:El; try discriminate.
    intros [= <-]. cbn [concat]. rewrite (IH _ _ El). apply firstn_skipn.
Qed.
Theorem hashes_reencode b l : hashes_dec b = COk l -> hashes_enc l = COk b.
Proof. intros H. unfold hashes_enc. f_equal. exact (hashes_dec_concat _ _ _ H). Qed.

(* decoded lists are well-formed: exact id and address widths, ports in range *)
Lemma dec_fuel_forall {A} (P : A -> Prop) w g (Hg : forall c x, length c = w -> g c = COk x -> P x) fuel :
  forall b l, compact_dec_fuel fuel w g b = @COk (list A) l -> Forall P l.
Proof.
  induction fuel as [|fuel IH]; intros b l.
  - destruct b; simpl; [intros [= <-]; constructor | discriminate].
  - destruct b as [|x b']; [simpl; intros [= <-]; constructor|].
    set (b := x :: b').
    change (compact_dec_fuel (S fuel) w g b) with
      (if Nat.ltb (length b) w then CErr
       else match g (firstn w b) with
            | COk y => match compact_dec_fuel fuel w g (skipn w b) with COk l => COk (y :: l) | o => o end
            | CErr => CErr
            | CPanic => CPanic
            end).
    destruct (Nat.ltb_spec (length b) w) as [|Hge]; [discriminate|].
    destruct (g (firstn w b)) as [y| |] eqn:Ey; try discriminate.
    destruct (compact_dec_fuel fuel w g (skipn w b)) as [l'| |] eqn:El; try discriminate.
    intros [= <-]. constructor; [|eapply IH; exact El].
    eapply Hg; [|exact Ey]. apply firstn_len. exact Hge.
Qed.

Theorem addrs4_dec_wf b l : addrs4_dec b = COk l -> Forall (wf_addr 4) l.
Proof.
  unfold addrs4_dec, compact_dec. rewrite w_addr4_eq. apply dec_fuel_forall.
  intros c x L E. destruct (nodeaddr_unmarshal_ok c) as (a & E' & _ & Lip & P); [lia|].
  rewrite E in E'. injection E' as <-. split; [lia | exact P].
Qed.
Theorem addrs6_dec_wf b l : addrs6_dec b = COk l -> Forall (wf_addr 16) l.
Proof.
  unfold addrs6_dec, compact_dec. rewrite w_addr6_eq. apply dec_fuel_forall.
  intros c x L E. destruct (nodeaddr_unmarshal_ok c) as (a & E' & _ & Lip & P); [lia|].
  rewrite E in E'. injection E' as <-. split; [lia | exact P].
Qed.
Lemma infos_dec_wf_gen ni (ni_long : forall b, (22 <= length b)%nat -> ni b = nodeinfo_unmarshal b) w b l :
  (22 <= w)%nat -> compact_dec w ni b = COk l -> Forall (wf_info (w - 22)) l.
Proof.
  intros Hw. unfold compact_dec. apply dec_fuel_forall.
  intros c x L E. rewrite ni_long in E by lia.
  destruct (nodeinfo_unmarshal_ok c) as (a & E' & _ & _ & Lid & Lip & P); [lia|].
  rewrite E in E'. injection E' as <-. split; [exact Lid | split; [lia | exact P]].
Qed.
Theorem infos4_dec_wf b l : infos4_dec b = COk l -> Forall (wf_info 4) l.
Proof. unfold infos4_dec. rewrite w_info4_eq. apply (infos_dec_wf_gen _ fixed_long 26). lia. Qed.
Theorem infos6_dec_wf b l : infos6_dec b = COk l -> Forall (wf_info 16) l.
Proof. unfold infos6_dec. rewrite w_info6_eq. apply (infos_dec_wf_gen _ fixed_long 38). lia. Qed.
Theorem hashes_dec_wf b l : hashes_dec b = COk l -> Forall (fun h => length h = 20%nat) l.
Proof.
  unfold hashes_dec, compact_dec. rewrite w_hash_eq. apply dec_fuel_forall.
  intros c x L. unfold hash_elem. rewrite w_hash_eq. simpl. intros [= <-]. exact L.
Qed.

(* encode and decode are inverse on well-formed lists (contacts in the family of the list) *)
Theorem addrs4_inverse l :
  Forall (wf_addr 4) l -> exists b, addrs4_enc l = COk b /\ addrs4_dec b = COk l.
Proof.
  intros H. unfold addrs4_enc, addrs4_dec. rewrite w_addr4_eq.
  assert (E : exists b, compact_enc 6 (fun a => nodeaddr_marshal (addr4_conv a)) l = COk b).
  { induction H as [|x l (Lx & Px) Hl IH]; simpl; [eauto|].
    unfold addr4_conv at 1. rewrite to4_len4 by exact Lx. rewrite nodeaddr_marshal_length. simpl na_ip.
    rewrite Lx. simpl Nat.eqb. destruct IH as (r & ->). eauto. }
  destruct E as (b & E). exists b. split; [exact E|].
  eapply compact_enc_dec; [lia | exact E |].
  eapply Forall_impl; [|exact H]. intros a (La & Pa).
  unfold addr4_conv. rewrite to4_len4 by exact La.
  replace (mkNA (na_ip a) (na_port a)) with a by (destruct a; reflexivity).
  apply nodeaddr_roundtrip. exact Pa.
Qed.
Theorem addrs6_inverse l :
  Forall (wf_addr 16) l -> exists b, addrs6_enc l = COk b /\ addrs6_dec b = COk l.
Proof.
  intros H. unfold addrs6_enc, addrs6_dec. rewrite w_addr6_eq.
  assert (E : exists b, compact_enc 18 (fun a => nodeaddr_marshal (addr6_conv a)) l = COk b).
  { induction H as [|x l (Lx & Px) Hl IH]; simpl; [eauto|].
    unfold addr6_conv at 1. rewrite to16_len16 by exact Lx. rewrite nodeaddr_marshal_length. simpl na_ip.
    rewrite Lx. simpl Nat.eqb. destruct IH as (r & ->). eauto. }
  destruct E as (b & E). exists b. split; [exact E|].
  eapply compact_enc_dec; [lia | exact E |].
  eapply Forall_impl; [|exact H]. intros a (La & Pa).
  unfold addr6_conv. rewrite to16_len16 by exact La. simpl ip_or_nil.
  replace (mkNA (na_ip a) (na_port a)) with a by (destruct a; reflexivity).
  apply nodeaddr_roundtrip. exact Pa.
Qed.
Theorem infos4_inverse l :
  Forall (wf_info 4) l -> exists b, infos4_enc l = COk b /\ infos4_dec b = COk l /\ infos4_dec_pinned b = COk l.
Proof.
  intros H. unfold infos4_enc, infos4_dec, infos4_dec_pinned. rewrite w_info4_eq.
  assert (C : forall n, wf_info 4 n -> info4_conv n = n).
  { intros [id [ip p]] (Li & La & Pa). unfold info4_conv. simpl in *. rewrite to4_len4 by exact La. reflexivity. }
  assert (E : exists b, compact_enc 26 (fun n => nodeinfo_marshal (info4_conv n)) l = COk b).
  { induction H as [|x l Hx Hl IH]; simpl; [eauto|].
    rewrite (C x Hx), nodeinfo_marshal_length. destruct Hx as (Li & La & Pa). rewrite Li, La. simpl Nat.eqb.
    destruct IH as (r & ->). eauto. }
  destruct E as (b & E). exists b. split; [exact E|].
  split; (eapply compact_enc_dec; [lia | exact E |]);
    (eapply Forall_impl; [|exact H]); intros n Hn; rewrite (C n Hn); destruct Hn as (Li & La & Pa);
    apply nodeinfo_roundtrip; assumption.
Qed.
Theorem infos6_inverse l :
  Forall (wf_info 16) l -> exists b, infos6_enc l = COk b /\ infos6_dec b = COk l /\ infos6_dec_pinned b = COk l.
Proof.
  intros H. unfold infos6_enc, infos6_dec, infos6_dec_pinned. rewrite w_info6_eq.
  assert (C : forall n, wf_info 16 n -> info6_conv n = n).
  { intros [id [ip p]] (Li & La & Pa). unfold info6_conv. simpl in *. rewrite to16_len16 by exact La. reflexivity. }
  assert (E : exists b, compact_enc 38 (fun n => nodeinfo_marshal (info6_conv n)) l = COk b).
  { induction H as [|x l Hx Hl IH]; simpl; [eauto|].
    rewrite (C x Hx), nodeinfo_marshal_length. destruct Hx as (Li & La & Pa). rewrite Li, La. simpl Nat.eqb.
    destruct IH as (r & ->). eauto. }
  destruct E as (b & E). exists b. split; [exact E|].
  split; (eapply compact_enc_dec; [lia | exact E |]);
    (eapply Forall_impl; [|exact H]); intros n Hn; rewrite (C n Hn); destruct Hn as (Li & La & Pa);
    apply nodeinfo_roundtrip; assumption.
Qed.
Theorem hashes_inverse l :
  Forall (fun h => length h = 20%nat) l -> exists b, hashes_enc l = COk b /\ hashes_dec b = COk l.
Proof.
  intros H. exists (concat l). split; [reflexivity|].
  unfold hashes_dec. rewrite w_hash_eq.
  apply (compact_enc_dec 20 (fun h => h) hash_elem); [lia| |].
  - induction H as [|x l Hx Hl IH]; simpl; [reflexivity|].
    rewrite Hx. simpl Nat.eqb. rewrite IH. reflexivity.
  - eapply Forall_impl; [|exact H]. intros h _. unfold hash_elem. rewrite w_hash_eq. reflexivity.
Qed.

(* ---------------------------------------------------------------- nodes file *)
Theorem nodes_file_roundtrip l :
  Forall (wf_info 16) l -> exists b, nodes_file_write l = COk b /\ nodes_file_read b = COk l.
Proof.
  intros H. destruct (infos6_inverse l H) as (b & E & D & _). exists b. split; assumption.
Qed.
Theorem nodes_file_read_iff b : (exists l, nodes_file_read b = COk l) <-> (length b mod 38 = 0)%nat.
Proof. exact (infos6_iff b). Qed.
Theorem nodes_file_read_no_panic b : nodes_file_read b <> CPanic /\ nodes_file_read_pinned b <> CPanic.
Proof. split; [exact (infos6_no_panic b) | exact (infos6_pinned_no_panic b)]. Qed.
