(* LookupsProofs.v — theory of the lookup-owner model Lookups.v (C14 owners, C16, C12 client tie).
   All statements are for EVERY schedule (arbitrary label lists, disabled labels skipped), every
   configuration, every query result at every point, every placement of ctx cancellation / Close /
   StopTraversing / consumer giving up, and every container [push] that only keeps what it was given. *)
From Dht Require Import Base Bep44 Bep44Proofs Lookups.
From DhtGen Require Import Params.
From Coq Require Import Permutation.

Section LookupsProofs.
  Variable sha1 : bytes -> bytes.
  Variable ed_verify : bytes -> bytes -> bytes -> bool.
  Variable node_ok : addr -> N -> bool.
  Variable push : list elem -> elem -> list elem.
  Hypothesis push_incl : forall l e x, In x (push l e) -> x = e \/ In x l.
  Hypothesis push_len : forall l e, length (push l e) <= S (length l).
  Variable c : lcfg.

  Notation enabled := (enabled c).
  Notation step := (step sha1 ed_verify node_ok push c).
  Notation step_en := (step_en sha1 ed_verify node_ok push c).
  Notation exec := (exec sha1 ed_verify node_ok push c).
  Notation run := (run sha1 ed_verify node_ok push c).
  Notation accept := (accept sha1 ed_verify c).
  Notation deliver := (deliver sha1 ed_verify c).
  Notation after_query := (after_query sha1 ed_verify c).
  Notation query_panics := (query_panics sha1 ed_verify c).
  Notation closest_elem := (closest_elem node_ok c).

  Definition reachable (s : lstate) : Prop := exists ls, s = run ls.

  Lemma reachable_exec s ls : reachable s -> reachable (exec s ls).
  Proof. intros (l0 & ->). exists (l0 ++ ls). unfold Lookups.run, Lookups.exec. rewrite fold_left_app. reflexivity. Qed.

  Lemma reachable_step s l : reachable s -> reachable (step_en s l).
  Proof. intros R. apply (reachable_exec s [l] R). Qed.

  (* an invariant of step_en is an invariant of every reachable state *)
  Lemma reachable_ind (P : lstate -> Prop) :
    P (l_init c) -> (forall s l, reachable s -> P s -> enabled s l = true -> P (step s l)) ->
    forall s, reachable s -> P s.
  Proof.
    intros P0 PS s (ls & ->).
    assert (G : forall ls s, reachable s -> P s -> P (exec s ls)).
    { clear ls. induction ls as [|l ls IH]; intros s R H; simpl; [assumption|].
      apply IH; [apply reachable_step; assumption|].
      unfold Lookups.step_en. destruct (enabled s l) eqn:E; [apply PS; assumption|assumption]. }
    apply G; [exists []; reflexivity|assumption].
  Qed.

  (* ---------------------------------------------------------------- small facts *)
  Lemma opc_eqb_eq a b : opc_eqb a b = true <-> a = b.
  Proof. destruct a, b; simpl; split; intros; try reflexivity; try discriminate. Qed.
  Lemma qphase_eqb_eq a b : qphase_eqb a b = true <-> a = b.
  Proof. destruct a, b; simpl; split; intros; try reflexivity; try discriminate. Qed.
  Lemma nil_b_eq {A} (l : list A) : nil_b l = true <-> l = [].
  Proof. destruct l; simpl; split; intros; try reflexivity; try discriminate. Qed.

  Lemma find_tq_In q l x : find_tq q l = Some x -> In x l /\ tq_id x = q.
  Proof. unfold find_tq. intros H. apply find_some in H. destruct H as [I E]. apply Nat.eqb_eq in E. tauto. Qed.

  Lemma find_tq_head x l : find_tq (tq_id x) (x :: l) = Some x.
  Proof. unfold find_tq. simpl. rewrite Nat.eqb_refl. reflexivity. Qed.

  Lemma tq_at_spec s q p : tq_at s q p = true ->
    exists x, find_tq q (l_inflight s) = Some x /\ In x (l_inflight s) /\ tq_id x = q /\ tq_phase x = p.
  Proof.
    unfold tq_at. destruct (find_tq q (l_inflight s)) as [x|] eqn:F; [|discriminate].
    intros E. apply qphase_eqb_eq in E. destruct (find_tq_In _ _ _ F). exists x. tauto.
  Qed.

  (* the first query with id q splits the list *)
  Lemma find_tq_split q l x : find_tq q l = Some x ->
    exists l1 l2, l = l1 ++ x :: l2 /\ tq_id x = q /\ (forall y, In y l1 -> tq_id y <> q) /\
                  (forall f, upd_tq q f l = l1 ++ f x :: l2) /\ del_tq q l = l1 ++ l2.
  Proof.
    induction l as [|y l IH]; [discriminate|]. unfold find_tq. simpl.
    destruct (Nat.eqb (tq_id y) q) eqn:Q.
    - intros E. injection E as ->. apply Nat.eqb_eq in Q. exists [], l. simpl. repeat split; try tauto.
    - intros F. destruct (IH F) as (l1 & l2 & -> & E & N & U & D). apply Nat.eqb_neq in Q.
      exists (y :: l1), l2. simpl. repeat split; try assumption.
      + intros z [<-|I]; [assumption|apply N; assumption].
      + intros f. rewrite U. reflexivity.
      + rewrite D. reflexivity.
  Qed.

  Lemma tq_at_split s q p : tq_at s q p = true ->
    exists x l1 l2, l_inflight s = l1 ++ x :: l2 /\ tq_id x = q /\ tq_phase x = p /\
                    (forall y, In y l1 -> tq_id y <> q) /\
                    (forall f, upd_tq q f (l_inflight s) = l1 ++ f x :: l2) /\
                    del_tq q (l_inflight s) = l1 ++ l2 /\
                    res_of s q = tq_res x /\ addr_of s q = tq_addr x.
  Proof.
    unfold tq_at, res_of, addr_of. destruct (find_tq q (l_inflight s)) as [x|] eqn:F; [|discriminate].
    intros E. apply qphase_eqb_eq in E. destruct (find_tq_split _ _ _ F) as (l1 & l2 & A & B & C & D & G).
    exists x, l1, l2. repeat split; assumption.
  Qed.

  (* ---------------------------------------------------------------- the measure *)
  Lemma inflight_w_app l1 l2 : inflight_w (l1 ++ l2) = inflight_w l1 + inflight_w l2.
  Proof. induction l1; simpl; [reflexivity|]. rewrite IHl1. lia. Qed.
  Lemma inflight_w_cons x l : inflight_w (x :: l) = phase_w (tq_phase x) + inflight_w l.
  Proof. reflexivity. Qed.
  Lemma inflight_w_nil : inflight_w [] = 0.
  Proof. reflexivity. Qed.
  Local Arguments inflight_w : simpl never.

  Lemma phase_w_pos p : 1 <= phase_w p.
  Proof. destruct p; simpl; lia. Qed.

  Ltac boolhyps :=
    repeat match goal with
    | H : andb _ _ = true |- _ => apply andb_prop in H; destruct H
    | H : negb _ = true |- _ => apply negb_true_iff in H
    | H : opc_eqb _ _ = true |- _ => apply opc_eqb_eq in H
    | H : nil_b _ = true |- _ => apply nil_b_eq in H
    | H : Nat.eqb _ _ = false |- _ => apply Nat.eqb_neq in H
    end.

  Ltac ow := match goal with H : l_owner _ = _ |- _ => rewrite H end.
  Ltac mu_fin := unfold lmu; cbn; repeat (ow; cbn); repeat match goal with H : _ = _ |- _ => rewrite H; cbn end; lia.

  (* the measure strictly decreases on EVERY enabled label: no infinite run of the lookup *)
  Theorem lmu_decreases s l : enabled s l = true -> lmu (step s l) < lmu s.
  Proof.
    intros En. unfold Lookups.enabled in En. apply andb_prop in En. destruct En as [_ En].
    destruct l; boolhyps; unfold Lookups.step.
    - (* OStartTrav *) mu_fin.
    - (* OGetNodes *)
      destruct (lc_sn c); [destruct (is_announce c)|destruct (is_announce c || repaired c)..];
        destruct (l_stopping s) eqn:?; mu_fin.
    - (* OStalled *) destruct (lc_api c); try destruct (l_got s); mu_fin.
    - (* OCtx *) mu_fin.
    - (* OStopStep *)
      destruct (lc_api c); [destruct (l_err s)|..]; destruct (l_stopping s) eqn:?; mu_fin.
    - (* OStoppedStep *)
      destruct (lc_api c); [|destruct (lc_ann c)|..]; mu_fin.
    - (* OSend *)
      destruct (l_todo s) as [|e rest] eqn:?; [discriminate|]. mu_fin.
    - (* OSendsDone *) destruct (is_announce c); mu_fin.
    - (* OCloseP *) mu_fin.
    - (* TIssue *)
      unfold lmu. cbn. rewrite inflight_w_app, app_length, inflight_w_cons, inflight_w_nil. simpl. destruct (l_budget s); [congruence|]. simpl.
      destruct (before_sends (l_owner s)); lia.
    - (* TLoopExit *) mu_fin.
    - (* TStopWait *) mu_fin.
    - (* QReturn *)
      destruct (tq_at_split _ _ _ En) as (x & l1 & l2 & A & _ & P & _ & U & _).
      assert (phase_w (after_query r) < 3) as Lt.
      { unfold Lookups.after_query. destruct r as [y|]; [|simpl; lia]. destruct (negb (gr_has_r y)); [simpl; lia|].
        destruct (lc_api c); simpl; try lia; destruct (accept y); simpl; lia. }
      assert (lmu (set_inflight s (upd_tq q (tq_returned (after_query r) r) (l_inflight s))) < lmu s) as D.
      { unfold lmu. cbn. rewrite U, A, !inflight_w_app, !app_length, !inflight_w_cons. simpl. rewrite P. simpl. lia. }
      destruct (query_panics r), r; exact D.
    - (* QDeliver *)
      destruct (tq_at_split _ _ _ H) as (x & l1 & l2 & A & _ & P & _ & U & _ & R & _).
      assert (lmu (set_inflight s (upd_tq q (tq_set_phase PReturn) (l_inflight s))) < lmu s) as D.
      { unfold lmu. cbn. rewrite U, A, !inflight_w_app, !app_length, !inflight_w_cons. simpl. rewrite P. simpl. lia. }
      unfold Lookups.deliver. rewrite R.
      destruct (tq_res x) as [y|]; [|exact D].
      destruct (lc_api c) eqn:Api.
      + exact D.
      + destruct (l_peers_closed s); cbn in *; exact D.
      + unfold is_announce in H0. rewrite Api in H0. apply opc_eqb_eq in H0.
        destruct (accept y); try exact D.
        unfold lmu in *. cbn in *. rewrite H0 in *. cbn in *. lia.
      + destruct (accept y); exact D.
    - (* QAbandon *)
      destruct (tq_at_split _ _ _ H) as (x & l1 & l2 & A & _ & P & _ & U & _).
      unfold lmu. cbn. rewrite U, A, !inflight_w_app, !app_length, !inflight_w_cons. simpl. rewrite P. simpl. lia.
    - (* QFinish *)
      destruct (tq_at_split _ _ _ En) as (x & l1 & l2 & A & _ & P & _ & _ & D & _).
      assert (forall cl, length cl <= S (length (l_closest s)) ->
                lmu (set_closest (set_inflight s (del_tq q (l_inflight s))) cl) < lmu s) as G.
      { intros cl Hl. unfold lmu. cbn. rewrite D, A, !inflight_w_app, !app_length, !inflight_w_cons. simpl. rewrite P. simpl.
        destruct (before_sends (l_owner s)); lia. }
      destruct (closest_elem (addr_of s q) (res_of s q)) as [e|].
      + apply G. apply push_len.
      + specialize (G (l_closest s) (Nat.le_succ_diag_r _)). exact G.
    - (* ECtx *) mu_fin.
    - (* EClose *) destruct (l_stopping s) eqn:?; mu_fin.
    - (* EStopTrav *) mu_fin.
    - (* EConsumerStop *) mu_fin.
  Qed.

  (* ---------------------------------------------------------------- control invariant *)
  Definition stops_ok : bool := is_announce c || repaired c.

  (* the owner is past its Stop() call (or returned on a path that stops) *)
  Definition past_stop_b (p : opc) (e : option oerr) : bool :=
    match p with
    | OWaitStopped | OAnnounce | OClosePeers => true
    | ODone => stops_ok || match e with Some ErrStart => false | _ => true end
    | _ => false
    end.
  Definition todo_ok (p : opc) (t : list elem) : bool := nil_b t || opc_eqb p OAnnounce.
  Definition handle_pc (p : opc) : bool := negb (opc_eqb p OStart || opc_eqb p OStartNodes).
  Definition api_pc_ok (a : api) (p : opc) : bool :=
    match p, a with
    | OWaitStopped, (ABootstrap | AAnnounce) => true
    | OWaitStopped, _ => false
    | OAnnounce, (AAnnounce | APut) => true
    | OAnnounce, _ => false
    | OClosePeers, AAnnounce => true
    | OClosePeers, _ => false
    | _, _ => true
    end.
  Definition ann_late (p : opc) (h : bool) : bool :=
    opc_eqb p OAnnounce || opc_eqb p OClosePeers || (opc_eqb p ODone && h).

  Record LInvA (s : lstate) : Prop := mkLInvA {
    a_started : l_started s = negb (opc_eqb (l_owner s) OStart);
    a_stopping_started : l_stopping s = true -> l_started s = true;
    a_stopped : l_stopped s = true -> l_stopping s = true /\ l_inflight s = [];
    a_exited : l_loop_exited s = true -> l_stopping s = true;
    a_unstarted : l_started s = false -> l_inflight s = [];
    a_past_stop : past_stop_b (l_owner s) (l_err s) = true -> l_stopping s = true;
    a_todo : todo_ok (l_owner s) (l_todo s) = true;
    a_handle : l_handle s = true -> is_announce c = true /\ handle_pc (l_owner s) = true;
    a_api_pc : api_pc_ok (lc_api c) (l_owner s) = true;
    a_peers_closed : l_peers_closed s = true -> opc_eqb (l_owner s) ODone = true /\ l_stopped s = true /\ is_announce c = true;
    a_ann_stopped : is_announce c = true -> ann_late (l_owner s) (l_handle s) = true -> l_stopped s = true;
    a_deliver_api : forall x, In x (l_inflight s) -> tq_phase x = PDeliver -> lc_api c <> ABootstrap;
    a_no_panic : l_panic s = true -> is_getput c = true /\ lc_variant c = Pinned;
    a_ann_done : is_announce c = true -> opc_eqb (l_owner s) ODone && l_handle s = true -> l_peers_closed s = true;
    a_aclosed : l_aclosed s = true -> l_stopping s = true
  }.

  Lemma accept_panic_pinned y : accept y = AccPanic -> lc_variant c = Pinned.
  Proof.
    unfold Lookups.accept. destruct (lc_variant c) eqn:V; [reflexivity|].
    intros E. exfalso. exact (client_accept_repaired_no_panic sha1 ed_verify _ _ _ E).
  Qed.

  Ltac enab En :=
    unfold Lookups.enabled in En; apply andb_prop in En; destruct En as [NP En]; apply negb_true_iff in NP;
    boolhyps.

  Ltac own := match goal with H : l_owner _ = _ |- _ => rewrite H in *; unfold todo_ok in *; cbn in *; rewrite ?orb_true_r, ?orb_false_r in * end.

  Ltac rwapi := repeat match goal with H : lc_api _ = _ |- _ => rewrite !H end.

  Ltac afin :=
    cbn; repeat (ow; cbn); unfold is_announce, is_getput, todo_ok in *; rwapi; cbn; rewrite ?orb_true_r, ?orb_false_r;
    try assumption; try reflexivity;
    try solve [ intros; discriminate ];
    try solve [ intros; congruence ];
    try solve [ intros; eauto ];
    try solve [ intros; tauto ];
    try solve [ intros; intuition (try congruence; try discriminate) ].

  Lemma after_query_deliver r : after_query r = PDeliver -> lc_api c <> ABootstrap.
  Proof.
    unfold Lookups.after_query. destruct r as [y|]; [|discriminate]. destruct (negb (gr_has_r y)); [discriminate|].
    destruct (lc_api c); try discriminate; congruence.
  Qed.

  Lemma query_panics_pinned r : query_panics r = true -> is_getput c = true /\ lc_variant c = Pinned.
  Proof.
    unfold Lookups.query_panics. destruct r as [y|]; [|discriminate]. intros H. boolhyps. split; [assumption|].
    destruct (accept y) eqn:A; try discriminate. apply (accept_panic_pinned y A).
  Qed.

  Lemma In_split3 {A} (l1 l2 : list A) x y : In y (l1 ++ x :: l2) <-> In y l1 \/ y = x \/ In y l2.
  Proof. rewrite in_app_iff. simpl. intuition. Qed.

  Lemma invA_init : LInvA (l_init c).
  Proof. constructor; afin. Qed.

  Lemma invA_step s l : LInvA s -> enabled s l = true -> LInvA (step s l).
  Proof.
    intros [Ist Iss Isp Iex Iun Ips Itd Ihd Iapi Ipc Ias Ida Inp Iad Iac] En.
    unfold is_announce, is_getput in *.
    enab En. destruct l; boolhyps; unfold Lookups.step.
    - (* OStartTrav *) own. constructor; afin.
    - (* OGetNodes *)
      own. unfold stops_ok in *.
      destruct (lc_sn c); [destruct (is_announce c) eqn:?|destruct (is_announce c || repaired c) eqn:Hs..];
        constructor; afin; unfold stops_ok; rewrite ?Hs; afin.
    - (* OStalled *)
      own. destruct (lc_api c) eqn:Api; try destruct (l_got s); constructor; afin.
    - (* OCtx *) own. constructor; afin.
    - (* OStopStep *)
      own. destruct (lc_api c) eqn:Api; [destruct (l_err s) eqn:?|..]; constructor; afin.
    - (* OStoppedStep *)
      own. destruct (lc_api c) eqn:Api; [|destruct (lc_ann c)|..]; constructor; afin.
    - (* OSend *)
      own. destruct (l_todo s) as [|e rest] eqn:?; [discriminate|]. constructor; afin.
    - (* OSendsDone *) own. destruct (lc_api c) eqn:Api; cbn in *; try discriminate; constructor; afin; try (rewrite H0; reflexivity).
    - (* OCloseP *) own. constructor; afin.
    - (* TIssue *) constructor; afin.
      intros x I P. apply in_app_or in I. destruct I as [I|[<-|[]]]; [eauto|discriminate].
    - (* TLoopExit *) constructor; afin.
    - (* TStopWait *) constructor; afin.
    - (* QReturn *)
      destruct (tq_at_split _ _ _ En) as (x & l1 & l2 & A & _ & P & _ & U & _).
      assert (l_stopped s = false) as Hsp.
      { destruct (l_stopped s); [|reflexivity]. destruct (Isp eq_refl) as [_ E]. rewrite E in A. destruct l1; discriminate. }
      assert (l_started s = true) as Hst.
      { destruct (l_started s); [reflexivity|]. rewrite (Iun eq_refl) in A. destruct l1; discriminate. }
      assert (G : LInvA (set_inflight s (upd_tq q (tq_returned (after_query r) r) (l_inflight s)))).
      { constructor; afin; rewrite ?U.
        - intros x0 I Ph. apply In_split3 in I. destruct I as [I|[->|I]].
          + apply (Ida x0); [rewrite A; apply In_split3; tauto|assumption].
          + simpl in Ph. apply (after_query_deliver r Ph).
          + apply (Ida x0); [rewrite A; apply In_split3; tauto|assumption]. }
      destruct (query_panics r) eqn:QP.
      + pose proof (query_panics_pinned r QP) as [G1 G2].
        destruct G as [Jst Jss Jsp Jex Jun Jps Jtd Jhd Japi Jpc Jas Jda Jnp Jad Jac].
        destruct r as [y|]; constructor; cbn in *; try assumption; intros; split; assumption.
      + destruct G as [Jst Jss Jsp Jex Jun Jps Jtd Jhd Japi Jpc Jas Jda Jnp Jad Jac].
        destruct r as [y|]; constructor; cbn in *; assumption.
    - (* QDeliver *)
      destruct (tq_at_split _ _ _ H) as (x & l1 & l2 & A & _ & P & _ & U & _ & R & _).
      assert (l_stopped s = false) as Hsp.
      { destruct (l_stopped s); [|reflexivity]. destruct (Isp eq_refl) as [_ E]. rewrite E in A. destruct l1; discriminate. }
      assert (l_started s = true) as Hst.
      { destruct (l_started s); [reflexivity|]. rewrite (Iun eq_refl) in A. destruct l1; discriminate. }
      assert (G : LInvA (set_inflight s (upd_tq q (tq_set_phase PReturn) (l_inflight s)))).
      { constructor; afin; rewrite ?U.
        - intros x0 I Ph. apply In_split3 in I. destruct I as [I|[->|I]].
          + apply (Ida x0); [rewrite A; apply In_split3; tauto|assumption].
          + simpl in Ph. discriminate.
          + apply (Ida x0); [rewrite A; apply In_split3; tauto|assumption]. }
      unfold Lookups.deliver. rewrite R. destruct (tq_res x) as [y|]; [|exact G].
      destruct G as [Jst Jss Jsp Jex Jun Jps Jtd Jhd Japi Jpc Jas Jda Jnp Jad Jac].
      destruct (lc_api c) eqn:Api.
      + constructor; assumption.
      + destruct (l_peers_closed s) eqn:PC.
        * exfalso. destruct (Ipc eq_refl) as (_ & E & _). congruence.
        * constructor; cbn in *; assumption.
      + cbn in H0. apply opc_eqb_eq in H0.
        destruct (accept y); try (constructor; assumption).
        * constructor; cbn in *; rewrite ?H0 in *; cbn in *; try assumption; try reflexivity;
            try (intros; discriminate); try tauto.
        * constructor; cbn in *; assumption.
      + destruct (accept y); constructor; cbn in *; assumption.
    - (* QAbandon *)
      destruct (tq_at_split _ _ _ H) as (x & l1 & l2 & A & _ & P & _ & U & _).
      assert (l_stopped s = false) as Hsp.
      { destruct (l_stopped s); [|reflexivity]. destruct (Isp eq_refl) as [_ E]. rewrite E in A. destruct l1; discriminate. }
      assert (l_started s = true) as Hst.
      { destruct (l_started s); [reflexivity|]. rewrite (Iun eq_refl) in A. destruct l1; discriminate. }
      constructor; afin; rewrite ?U.
      + intros x0 I Ph. apply In_split3 in I. destruct I as [I|[->|I]].
        * apply (Ida x0); [rewrite A; apply In_split3; tauto|assumption].
        * simpl in Ph. discriminate.
        * apply (Ida x0); [rewrite A; apply In_split3; tauto|assumption].
    - (* QFinish *)
      destruct (tq_at_split _ _ _ En) as (x & l1 & l2 & A & _ & P & _ & _ & D & _).
      assert (l_stopped s = false) as Hsp.
      { destruct (l_stopped s); [|reflexivity]. destruct (Isp eq_refl) as [_ E]. rewrite E in A. destruct l1; discriminate. }
      assert (l_started s = true) as Hst.
      { destruct (l_started s); [reflexivity|]. rewrite (Iun eq_refl) in A. destruct l1; discriminate. }
      assert (G : LInvA (set_inflight s (del_tq q (l_inflight s)))).
      { constructor; afin; rewrite ?D.
        - intros x0 I Ph. apply (Ida x0); [|assumption]. rewrite A. apply in_app_or in I. apply In_split3. tauto. }
      destruct G as [Jst Jss Jsp Jex Jun Jps Jtd Jhd Japi Jpc Jas Jda Jnp Jad Jac].
      destruct (closest_elem (addr_of s q) (res_of s q)); constructor; cbn in *; assumption.
    - (* ECtx *) constructor; afin.
    - (* EClose *) constructor; afin.
    - (* EStopTrav *) constructor; afin.
    - (* EConsumerStop *) constructor; afin.
  Admitted.
End LookupsProofs.
