(* LookupsProofs.v — theory of the lookup-owner model Lookups.v (C14 owners, C16, C12 client tie).
   All statements are for EVERY schedule (arbitrary label lists, disabled labels skipped), every
   configuration, every query result at every point, every placement of ctx cancellation / Close /
   StopTraversing / consumer giving up, and every container [push] that only keeps what it was given. *)
From Dht Require Import Base Bep44 Bep44Proofs Lookups.
From DhtGen Require Import Params.
From Coq Require Import Permutation.

Section LookupsProofs.
  Variable sha1 : bytes -> bytes.
  Variable ed_verify : bytes -> bytes -> bytes -> bool.
  Variable node_ok : addr -> N -> bool.
  Variable push : list elem -> elem -> list elem.
  Hypothesis push_incl : forall l e x, In x (push l e) -> x = e \/ In x l.
  Hypothesis push_len : forall l e, length (push l e) <= S (length l).
  Variable c : lcfg.

  Notation enabled := (enabled c).
  Notation step := (step sha1 ed_verify node_ok push c).
  Notation step_en := (step_en sha1 ed_verify node_ok push c).
  Notation exec := (exec sha1 ed_verify node_ok push c).
  Notation run := (run sha1 ed_verify node_ok push c).
  Notation accept := (accept sha1 ed_verify c).
  Notation deliver := (deliver sha1 ed_verify c).
  Notation after_query := (after_query sha1 ed_verify c).
  Notation query_panics := (query_panics sha1 ed_verify c).
  Notation closest_elem := (closest_elem node_ok c).

  Definition reachable (s : lstate) : Prop := exists ls, s = run ls.

  Lemma reachable_exec s ls : reachable s -> reachable (exec s ls).
  Proof. intros (l0 & ->). exists (l0 ++ ls). unfold Lookups.run, Lookups.exec. rewrite fold_left_app. reflexivity. Qed.

  Lemma reachable_step s l : reachable s -> reachable (step_en s l).
  Proof. intros R. apply (reachable_exec s [l] R). Qed.

  (* an invariant of step_en is an invariant of every reachable state *)
  Lemma reachable_ind (P : lstate -> Prop) :
    P (l_init c) -> (forall s l, reachable s -> P s -> enabled s l = true -> P (step s l)) ->
    forall s, reachable s -> P s.
  Proof.
    intros P0 PS s (ls & ->).
    assert (G : forall ls s, reachable s -> P s -> P (exec s ls)).
    { clear ls. induction ls as [|l ls IH]; intros s R H; simpl; [assumption|].
      apply IH; [apply reachable_step; assumption|].
      unfold Lookups.step_en. destruct (enabled s l) eqn:E; [apply PS; assumption|assumption]. }
    apply G; [exists []; reflexivity|assumption].
  Qed.

  (* ---------------------------------------------------------------- small facts *)
  Lemma opc_eqb_eq a b : opc_eqb a b = true <-> a = b.
  Proof. destruct a, b; simpl; split; intros; try reflexivity; try discriminate. Qed.
  Lemma qphase_eqb_eq a b : qphase_eqb a b = true <-> a = b.
  Proof. destruct a, b; simpl; split; intros; try reflexivity; try discriminate. Qed.
  Lemma nil_b_eq {A} (l : list A) : nil_b l = true <-> l = [].
  Proof. destruct l; simpl; split; intros; try reflexivity; try discriminate. Qed.

  Lemma find_tq_In q l x : find_tq q l = Some x -> In x l /\ tq_id x = q.
  Proof. unfold find_tq. intros H. apply find_some in H. destruct H as [I E]. apply Nat.eqb_eq in E. tauto. Qed.

  Lemma find_tq_head x l : find_tq (tq_id x) (x :: l) = Some x.
  Proof. unfold find_tq. simpl. rewrite Nat.eqb_refl. reflexivity. Qed.

  Lemma tq_at_spec s q p : tq_at s q p = true ->
    exists x, find_tq q (l_inflight s) = Some x /\ In x (l_inflight s) /\ tq_id x = q /\ tq_phase x = p.
  Proof.
    unfold tq_at. destruct (find_tq q (l_inflight s)) as [x|] eqn:F; [|discriminate].
    intros E. apply qphase_eqb_eq in E. destruct (find_tq_In _ _ _ F). exists x. tauto.
  Qed.

  (* the first query with id q splits the list *)
  Lemma find_tq_split q l x : find_tq q l = Some x ->
    exists l1 l2, l = l1 ++ x :: l2 /\ tq_id x = q /\ (forall y, In y l1 -> tq_id y <> q) /\
                  (forall f, upd_tq q f l = l1 ++ f x :: l2) /\ del_tq q l = l1 ++ l2.
  Proof.
    induction l as [|y l IH]; [discriminate|]. unfold find_tq. simpl.
    destruct (Nat.eqb (tq_id y) q) eqn:Q.
    - intros E. injection E as ->. apply Nat.eqb_eq in Q. exists [], l. simpl. repeat split; try tauto.
    - intros F. destruct (IH F) as (l1 & l2 & -> & E & N & U & D). apply Nat.eqb_neq in Q.
      exists (y :: l1), l2. simpl. repeat split; try assumption.
      + intros z [<-|I]; [assumption|apply N; assumption].
      + intros f. rewrite U. reflexivity.
      + rewrite D. reflexivity.
  Qed.

  Lemma tq_at_split s q p : tq_at s q p = true ->
    exists x l1 l2, l_inflight s = l1 ++ x :: l2 /\ tq_id x = q /\ tq_phase x = p /\
                    (forall y, In y l1 -> tq_id y <> q) /\
                    (forall f, upd_tq q f (l_inflight s) = l1 ++ f x :: l2) /\
                    del_tq q (l_inflight s) = l1 ++ l2 /\
                    res_of s q = tq_res x /\ addr_of s q = tq_addr x.
  Proof.
    unfold tq_at, res_of, addr_of. destruct (find_tq q (l_inflight s)) as [x|] eqn:F; [|discriminate].
    intros E. apply qphase_eqb_eq in E. destruct (find_tq_split _ _ _ F) as (l1 & l2 & A & B & C & D & G).
    exists x, l1, l2. repeat split; assumption.
  Qed.

  (* ---------------------------------------------------------------- the measure *)
  Lemma inflight_w_app l1 l2 : inflight_w (l1 ++ l2) = inflight_w l1 + inflight_w l2.
  Proof. induction l1; simpl; [reflexivity|]. rewrite IHl1. lia. Qed.
  Lemma inflight_w_cons x l : inflight_w (x :: l) = phase_w (tq_phase x) + inflight_w l.
  Proof. reflexivity. Qed.
  Lemma inflight_w_nil : inflight_w [] = 0.
  Proof. reflexivity. Qed.
  Local Arguments inflight_w : simpl never.

  Lemma phase_w_pos p : 1 <= phase_w p.
  Proof. destruct p; simpl; lia. Qed.

  Ltac boolhyps :=
    repeat match goal with
    | H : andb _ _ = true |- _ => apply andb_prop in H; destruct H
    | H : negb _ = true |- _ => apply negb_true_iff in H
    | H : opc_eqb _ _ = true |- _ => apply opc_eqb_eq in H
    | H : nil_b _ = true |- _ => apply nil_b_eq in H
    | H : Nat.eqb _ _ = false |- _ => apply Nat.eqb_neq in H
    end.

  Ltac ow := match goal with H : l_owner _ = _ |- _ => rewrite H end.
  Ltac mu_fin := unfold lmu; cbn; repeat (ow; cbn); repeat match goal with H : _ = _ |- _ => rewrite H; cbn end; lia.

  (* the measure strictly decreases on EVERY enabled label: no infinite run of the lookup *)
  Theorem lmu_decreases s l : enabled s l = true -> lmu (step s l) < lmu s.
  Proof.
    intros En. unfold Lookups.enabled in En. apply andb_prop in En. destruct En as [_ En].
    destruct l; boolhyps; unfold Lookups.step.
    - (* OStartTrav *) mu_fin.
    - (* OGetNodes *)
      destruct (lc_sn c); [destruct (is_announce c)|destruct (is_announce c || repaired c)..];
        destruct (l_stopping s) eqn:?; mu_fin.
    - (* OStalled *) destruct (lc_api c); try destruct (l_got s); mu_fin.
    - (* OCtx *) mu_fin.
    - (* OStopStep *)
      destruct (lc_api c); [destruct (l_err s)|..]; destruct (l_stopping s) eqn:?; mu_fin.
    - (* OStoppedStep *)
      destruct (lc_api c); [|destruct (lc_ann c)|..]; mu_fin.
    - (* OSend *)
      destruct (l_todo s) as [|e rest] eqn:?; [discriminate|]. mu_fin.
    - (* OSendsDone *) destruct (is_announce c); mu_fin.
    - (* OCloseP *) mu_fin.
    - (* TIssue *)
      unfold lmu. cbn. rewrite inflight_w_app, app_length, inflight_w_cons, inflight_w_nil. simpl. destruct (l_budget s); [congruence|]. simpl.
      destruct (before_sends (l_owner s)); lia.
    - (* TLoopExit *) mu_fin.
    - (* TStopWait *) mu_fin.
    - (* QReturn *)
      destruct (tq_at_split _ _ _ En) as (x & l1 & l2 & A & _ & P & _ & U & _).
      assert (phase_w (after_query r) < 3) as Lt.
      { unfold Lookups.after_query. destruct r as [y|]; [|simpl; lia]. destruct (negb (gr_has_r y)); [simpl; lia|].
        destruct (lc_api c); simpl; try lia; destruct (accept y); simpl; lia. }
      assert (lmu (set_inflight s (upd_tq q (tq_returned (after_query r) r) (l_inflight s))) < lmu s) as D.
      { unfold lmu. cbn. rewrite U, A, !inflight_w_app, !app_length, !inflight_w_cons. simpl. rewrite P. simpl. lia. }
      destruct (query_panics r), r; exact D.
    - (* QDeliver *)
      destruct (tq_at_split _ _ _ H) as (x & l1 & l2 & A & _ & P & _ & U & _ & R & _).
      assert (lmu (set_inflight s (upd_tq q (tq_set_phase PReturn) (l_inflight s))) < lmu s) as D.
      { unfold lmu. cbn. rewrite U, A, !inflight_w_app, !app_length, !inflight_w_cons. simpl. rewrite P. simpl. lia. }
      unfold Lookups.deliver. rewrite R.
      destruct (tq_res x) as [y|]; [|exact D].
      destruct (lc_api c) eqn:Api.
      + exact D.
      + destruct (l_peers_closed s); cbn in *; exact D.
      + unfold is_announce in H0. rewrite Api in H0. apply opc_eqb_eq in H0.
        destruct (accept y); try exact D.
        unfold lmu in *. cbn in *. rewrite H0 in *. cbn in *. lia.
      + destruct (accept y); exact D.
    - (* QAbandon *)
      destruct (tq_at_split _ _ _ H) as (x & l1 & l2 & A & _ & P & _ & U & _).
      unfold lmu. cbn. rewrite U, A, !inflight_w_app, !app_length, !inflight_w_cons. simpl. rewrite P. simpl. lia.
    - (* QFinish *)
      destruct (tq_at_split _ _ _ En) as (x & l1 & l2 & A & _ & P & _ & _ & D & _).
      assert (forall cl, length cl <= S (length (l_closest s)) ->
                lmu (set_closest (set_inflight s (del_tq q (l_inflight s))) cl) < lmu s) as G.
      { intros cl Hl. unfold lmu. cbn. rewrite D, A, !inflight_w_app, !app_length, !inflight_w_cons. simpl. rewrite P. simpl.
        destruct (before_sends (l_owner s)); lia. }
      destruct (closest_elem (addr_of s q) (res_of s q)) as [e|].
      + apply G. apply push_len.
      + specialize (G (l_closest s) (Nat.le_succ_diag_r _)). exact G.
    - (* ECtx *) mu_fin.
    - (* EClose *) destruct (l_stopping s) eqn:?; mu_fin.
    - (* EStopTrav *) mu_fin.
    - (* EConsumerStop *) mu_fin.
  Qed.

  (* ---------------------------------------------------------------- control invariant *)
  Definition stops_ok : bool := is_announce c || repaired c.

  (* the owner is past its Stop() call (or returned on a path that stops) *)
  Definition past_stop_b (p : opc) (e : option oerr) : bool :=
    match p with
    | OWaitStopped | OAnnounce | OClosePeers => true
    | ODone => stops_ok || match e with Some ErrStart => false | _ => true end
    | _ => false
    end.
  Definition todo_ok (p : opc) (t : list elem) : bool := nil_b t || opc_eqb p OAnnounce.
  Definition handle_pc (p : opc) : bool := negb (opc_eqb p OStart || opc_eqb p OStartNodes).
  Definition api_pc_ok (a : api) (p : opc) : bool :=
    match p, a with
    | OWaitStopped, (ABootstrap | AAnnounce) => true
    | OWaitStopped, _ => false
    | OAnnounce, (AAnnounce | APut) => true
    | OAnnounce, _ => false
    | OClosePeers, AAnnounce => true
    | OClosePeers, _ => false
    | _, _ => true
    end.
  Definition ann_late (p : opc) (h : bool) : bool :=
    opc_eqb p OAnnounce || opc_eqb p OClosePeers || (opc_eqb p ODone && h).

  Record LInvA (s : lstate) : Prop := mkLInvA {
    a_started : l_started s = negb (opc_eqb (l_owner s) OStart);
    a_stopping_started : l_stopping s = true -> l_started s = true;
    a_stopped : l_stopped s = true -> l_stopping s = true /\ l_inflight s = [];
    a_exited : l_loop_exited s = true -> l_stopping s = true;
    a_unstarted : l_started s = false -> l_inflight s = [];
    a_past_stop : past_stop_b (l_owner s) (l_err s) = true -> l_stopping s = true;
    a_todo : todo_ok (l_owner s) (l_todo s) = true;
    a_handle : l_handle s = true -> is_announce c = true /\ handle_pc (l_owner s) = true;
    a_api_pc : api_pc_ok (lc_api c) (l_owner s) = true;
    a_peers_closed : l_peers_closed s = true -> opc_eqb (l_owner s) ODone = true /\ l_stopped s = true /\ is_announce c = true;
    a_ann_stopped : is_announce c = true -> ann_late (l_owner s) (l_handle s) = true -> l_stopped s = true;
    a_deliver_api : forall x, In x (l_inflight s) -> tq_phase x = PDeliver -> lc_api c <> ABootstrap;
    a_no_panic : l_panic s = true -> is_getput c = true /\ lc_variant c = Pinned;
    a_ann_done : is_announce c = true -> opc_eqb (l_owner s) ODone && l_handle s = true -> l_peers_closed s = true;
    a_aclosed : l_aclosed s = true -> l_stopping s = true;
    a_seeded : seeded c s = false -> l_inflight s = [];
    a_handle_ok : is_announce c = true -> seeded c s = true -> l_handle s = true
  }.

  Lemma accept_panic_pinned y : accept y = AccPanic -> lc_variant c = Pinned.
  Proof.
    unfold Lookups.accept. destruct (lc_variant c) eqn:V; [reflexivity|].
    intros E. exfalso. exact (client_accept_repaired_no_panic sha1 ed_verify _ _ _ E).
  Qed.

  Ltac enab En :=
    unfold Lookups.enabled in En; apply andb_prop in En; destruct En as [NP En]; apply negb_true_iff in NP;
    boolhyps.

  Ltac own := match goal with H : l_owner _ = _ |- _ => unfold seeded in *; rewrite H in *; unfold todo_ok in *; cbn in *; rewrite ?orb_true_r, ?orb_false_r in * end.

  Ltac rwapi := repeat match goal with H : lc_api _ = _ |- _ => rewrite !H end.

  Ltac afin :=
    cbn; repeat (ow; cbn); unfold is_announce, is_getput, todo_ok in *; rwapi; cbn; rewrite ?orb_true_r, ?orb_false_r;
    try assumption; try reflexivity;
    try solve [ intros; discriminate ];
    try solve [ intros; congruence ];
    try solve [ intros; eauto ];
    try solve [ intros; tauto ];
    try solve [ intros; intuition (try congruence; try discriminate) ];
    try solve [ unfold seeded in *; cbn; repeat (ow; cbn); destruct (lc_sn c); cbn in *; intros; try discriminate; try assumption;
                try reflexivity; try tauto; eauto ].

  Lemma after_query_deliver r : after_query r = PDeliver -> lc_api c <> ABootstrap.
  Proof.
    unfold Lookups.after_query. destruct r as [y|]; [|discriminate]. destruct (negb (gr_has_r y)); [discriminate|].
    destruct (lc_api c); try discriminate; congruence.
  Qed.

  Lemma query_panics_pinned r : query_panics r = true -> is_getput c = true /\ lc_variant c = Pinned.
  Proof.
    unfold Lookups.query_panics. destruct r as [y|]; [|discriminate]. intros H. boolhyps. split; [assumption|].
    destruct (accept y) eqn:A; try discriminate. apply (accept_panic_pinned y A).
  Qed.

  Lemma In_split3 {A} (l1 l2 : list A) x y : In y (l1 ++ x :: l2) <-> In y l1 \/ y = x \/ In y l2.
  Proof. rewrite in_app_iff. simpl. intuition. Qed.

  Lemma seeded_owner s s' : l_owner s' = l_owner s -> seeded c s' = seeded c s.
  Proof. intros E. unfold seeded. rewrite E. reflexivity. Qed.

  Lemma invA_init : LInvA (l_init c).
  Proof. constructor; afin. Qed.

  Lemma invA_step s l : LInvA s -> enabled s l = true -> LInvA (step s l).
  Proof.
    intros [Ist Iss Isp Iex Iun Ips Itd Ihd Iapi Ipc Ias Ida Inp Iad Iac Isd Iho] En.
    enab En. unfold is_announce, is_getput in *. destruct l; boolhyps; unfold Lookups.step.
    - (* OStartTrav *) own. constructor; afin.
    - (* OGetNodes *)
      own. unfold stops_ok in *.
      destruct (lc_sn c) eqn:Sn; [destruct (is_announce c) eqn:?|destruct (is_announce c || repaired c) eqn:Hs..];
        constructor; afin; unfold stops_ok; rewrite ?Hs; afin.
    - (* OStalled *)
      own. destruct (lc_api c) eqn:Api; try destruct (l_got s); constructor; afin.
    - (* OCtx *) own. constructor; afin.
    - (* OStopStep *)
      own. destruct (lc_api c) eqn:Api; [destruct (l_err s) eqn:?|..]; constructor; afin.
    - (* OStoppedStep *)
      own. destruct (lc_api c) eqn:Api; [|destruct (lc_ann c)|..]; constructor; afin.
    - (* OSend *)
      own. destruct (l_todo s) as [|e rest] eqn:?; [discriminate|]. constructor; afin.
    - (* OSendsDone *) own. destruct (lc_api c) eqn:Api; cbn in *; try discriminate; constructor; afin; try (rewrite H0; reflexivity).
    - (* OCloseP *) own. constructor; afin.
    - (* TIssue *) constructor; afin.
      + intros x I P. apply in_app_or in I. destruct I as [I|[<-|[]]]; [eauto|discriminate].
      + intros X. unfold seeded in *. cbn in X. rewrite H0 in X. discriminate.
    - (* TLoopExit *) constructor; afin.
    - (* TStopWait *) constructor; afin.
    - (* QReturn *)
      destruct (tq_at_split _ _ _ En) as (x & l1 & l2 & A & _ & P & _ & U & _).
      assert (l_stopped s = false) as Hsp.
      { destruct (l_stopped s); [|reflexivity]. destruct (Isp eq_refl) as [_ E]. rewrite E in A. destruct l1; discriminate. }
      assert (l_started s = true) as Hst.
      { destruct (l_started s); [reflexivity|]. rewrite (Iun eq_refl) in A. destruct l1; discriminate. }
      assert (seeded c s = true) as Hseed.
      { destruct (seeded c s) eqn:Sd0; [reflexivity|]. rewrite (Isd eq_refl) in A. destruct l1; discriminate. }
      assert (G : LInvA (set_inflight s (upd_tq q (tq_returned (after_query r) r) (l_inflight s)))).
      { constructor; afin; rewrite ?U.
        - intros x0 I Ph. apply In_split3 in I. destruct I as [I|[->|I]].
          + apply (Ida x0); [rewrite A; apply In_split3; tauto|assumption].
          + simpl in Ph. apply (after_query_deliver r Ph).
          + apply (Ida x0); [rewrite A; apply In_split3; tauto|assumption].
        - intros X. change (seeded c s = false) in X. congruence. }
      destruct (query_panics r) eqn:QP.
      + pose proof (query_panics_pinned r QP) as [G1 G2].
        destruct G as [Jst Jss Jsp Jex Jun Jps Jtd Jhd Japi Jpc Jas Jda Jnp Jad Jac Jsd Jho].
        destruct r as [y|]; constructor; cbn in *; try assumption; intros; split; assumption.
      + destruct G as [Jst Jss Jsp Jex Jun Jps Jtd Jhd Japi Jpc Jas Jda Jnp Jad Jac Jsd Jho].
        destruct r as [y|]; constructor; cbn in *; assumption.
    - (* QDeliver *)
      destruct (tq_at_split _ _ _ H) as (x & l1 & l2 & A & _ & P & _ & U & _ & R & _).
      assert (l_stopped s = false) as Hsp.
      { destruct (l_stopped s); [|reflexivity]. destruct (Isp eq_refl) as [_ E]. rewrite E in A. destruct l1; discriminate. }
      assert (l_started s = true) as Hst.
      { destruct (l_started s); [reflexivity|]. rewrite (Iun eq_refl) in A. destruct l1; discriminate. }
      assert (seeded c s = true) as Hseed.
      { destruct (seeded c s) eqn:Sd0; [reflexivity|]. rewrite (Isd eq_refl) in A. destruct l1; discriminate. }
      assert (G : LInvA (set_inflight s (upd_tq q (tq_set_phase PReturn) (l_inflight s)))).
      { constructor; afin; rewrite ?U.
        - intros x0 I Ph. apply In_split3 in I. destruct I as [I|[->|I]].
          + apply (Ida x0); [rewrite A; apply In_split3; tauto|assumption].
          + simpl in Ph. discriminate.
          + apply (Ida x0); [rewrite A; apply In_split3; tauto|assumption].
        - intros X. change (seeded c s = false) in X. congruence. }
      unfold Lookups.deliver. rewrite R. destruct (tq_res x) as [y|]; [|exact G].
      destruct G as [Jst Jss Jsp Jex Jun Jps Jtd Jhd Japi Jpc Jas Jda Jnp Jad Jac Jsd Jho].
      destruct (lc_api c) eqn:Api.
      + constructor; cbn in *; rwapi; assumption.
      + destruct (l_peers_closed s) eqn:PC.
        * exfalso. destruct (Ipc eq_refl) as (_ & E & _). congruence.
        * constructor; cbn in *; rwapi; assumption.
      + cbn in H0. apply opc_eqb_eq in H0.
        destruct (accept y); try (constructor; cbn in *; rwapi; assumption).
        constructor; cbn in *; rwapi; rewrite ?H0 in *; cbn in *; try assumption; try reflexivity;
            try (intros; discriminate); try tauto.
        all: try (intros; unfold seeded in *; cbn in *; rewrite ?H0 in *; cbn in *; congruence).
      + destruct (accept y); constructor; cbn in *; rwapi; assumption.
    - (* QAbandon *)
      destruct (tq_at_split _ _ _ H) as (x & l1 & l2 & A & _ & P & _ & U & _).
      assert (l_stopped s = false) as Hsp.
      { destruct (l_stopped s); [|reflexivity]. destruct (Isp eq_refl) as [_ E]. rewrite E in A. destruct l1; discriminate. }
      assert (l_started s = true) as Hst.
      { destruct (l_started s); [reflexivity|]. rewrite (Iun eq_refl) in A. destruct l1; discriminate. }
      assert (seeded c s = true) as Hseed.
      { destruct (seeded c s) eqn:Sd0; [reflexivity|]. rewrite (Isd eq_refl) in A. destruct l1; discriminate. }
      constructor; afin; rewrite ?U.
      + intros x0 I Ph. apply In_split3 in I. destruct I as [I|[->|I]].
        * apply (Ida x0); [rewrite A; apply In_split3; tauto|assumption].
        * simpl in Ph. discriminate.
        * apply (Ida x0); [rewrite A; apply In_split3; tauto|assumption].
      + intros X. change (seeded c s = false) in X. congruence.
    - (* QFinish *)
      destruct (tq_at_split _ _ _ En) as (x & l1 & l2 & A & _ & P & _ & _ & D & _).
      assert (l_stopped s = false) as Hsp.
      { destruct (l_stopped s); [|reflexivity]. destruct (Isp eq_refl) as [_ E]. rewrite E in A. destruct l1; discriminate. }
      assert (l_started s = true) as Hst.
      { destruct (l_started s); [reflexivity|]. rewrite (Iun eq_refl) in A. destruct l1; discriminate. }
      assert (seeded c s = true) as Hseed.
      { destruct (seeded c s) eqn:Sd0; [reflexivity|]. rewrite (Isd eq_refl) in A. destruct l1; discriminate. }
      assert (G : LInvA (set_inflight s (del_tq q (l_inflight s)))).
      { constructor; afin; rewrite ?D.
        - intros x0 I Ph. apply (Ida x0); [|assumption]. rewrite A. apply in_app_or in I. apply In_split3. tauto.
        - intros X. change (seeded c s = false) in X. congruence. }
      destruct G as [Jst Jss Jsp Jex Jun Jps Jtd Jhd Japi Jpc Jas Jda Jnp Jad Jac Jsd Jho].
      destruct (closest_elem (addr_of s q) (res_of s q)); constructor; cbn in *; assumption.
    - (* ECtx *) constructor; afin.
    - (* EClose *) constructor; afin.
      intros _. rewrite Ist. destruct (Ihd H) as [_ Hp]. unfold handle_pc in Hp.
      destruct (l_owner s); try reflexivity; discriminate.
    - (* EStopTrav *) constructor; afin.
      intros _. rewrite Ist. destruct (Ihd H) as [_ Hp]. unfold handle_pc in Hp.
      destruct (l_owner s); try reflexivity; discriminate.
    - (* EConsumerStop *) constructor; afin.
  Qed.

  Theorem invA_reachable s : reachable s -> LInvA s.
  Proof. apply reachable_ind; [apply invA_init|]. intros s0 l _ I E. apply invA_step; assumption. Qed.

  (* ---------------------------------------------------------------- C14_owner_stops *)
  (* Whenever the owner's program has ended -- by finishing, by failing to obtain starting nodes, by
     its context being cancelled, after Close / StopTraversing -- the traversal it started has been
     told to stop.  (Repaired Bootstrap/Get/Put; Announce as found.) *)
  Theorem owner_stops s :
    reachable s -> stops_ok = true -> owner_done s = true -> l_started s = true -> l_stopping s = true.
  Proof.
    intros R Ok D _. pose proof (invA_reachable s R) as I. apply (a_past_stop s I).
    unfold owner_done in D. apply opc_eqb_eq in D. rewrite D. simpl. rewrite Ok. reflexivity.
  Qed.

  (* on the tree as found this still holds on every path except the failed start *)
  Theorem owner_stops_pinned_other_paths s :
    reachable s -> owner_done s = true -> l_err s <> Some ErrStart -> l_started s = true -> l_stopping s = true.
  Proof.
    intros R D NE _. pose proof (invA_reachable s R) as I. apply (a_past_stop s I).
    unfold owner_done in D. apply opc_eqb_eq in D. rewrite D. simpl.
    destruct (l_err s) as [[]|]; try (rewrite orb_true_r; reflexivity). congruence.
  Qed.

  (* and stopping is for good *)
  Lemma stopping_mono s l : l_stopping s = true -> l_stopping (step_en s l) = true.
  Proof.
    intros H. unfold Lookups.step_en. destruct (enabled s l); [|assumption].
    destruct l; unfold Lookups.step; cbn; try assumption; try reflexivity.
    - destruct (lc_sn c); [destruct (is_announce c)|destruct (is_announce c || repaired c)..]; cbn; try assumption; reflexivity.
    - destruct (lc_api c); try destruct (l_got s); cbn; assumption.
    - destruct (lc_api c); cbn; reflexivity.
    - destruct (lc_api c); [|destruct (lc_ann c)|..]; cbn; assumption.
    - destruct (l_todo s); cbn; assumption.
    - destruct (query_panics r), r; cbn; assumption.
    - unfold Lookups.deliver. destruct (res_of s q) as [y|]; [|cbn; assumption].
      destruct (lc_api c); [cbn; assumption|destruct (l_peers_closed s); cbn; assumption|..];
        destruct (accept y); cbn; assumption.
    - destruct (closest_elem (addr_of s q) (res_of s q)); cbn; assumption.
  Qed.

  (* and so is Close() *)
  Lemma aclosed_mono s l : l_aclosed s = true -> l_aclosed (step_en s l) = true.
  Proof.
    intros H. unfold Lookups.step_en. destruct (enabled s l); [|assumption].
    destruct l; unfold Lookups.step, Lookups.deliver; cbn; try assumption; try reflexivity;
      repeat match goal with |- context [match ?x with _ => _ end] => destruct x; cbn end; try assumption; reflexivity.
  Qed.

  (* ---------------------------------------------------------------- progress and termination *)
  (* conditions under which the lookup is bound to end by itself: the owner stops its traversal on
     every path, and an Announce's consumer keeps reading (or, with the D10 repair, the announce has
     been closed) *)
  Definition live (s : lstate) : Prop :=
    stops_ok = true /\
    (is_announce c = true -> l_reads s = true \/ (lc_abandon_closed c = true /\ l_aclosed s = true)).

  Definition is_issue (l : label) : bool := match l with TIssue _ => true | _ => false end.

  Lemma no_panic_ok s : LInvA s -> stops_ok = true -> l_panic s = false.
  Proof.
    intros I Ok. destruct (l_panic s) eqn:P; [|reflexivity]. destruct (a_no_panic s I P) as [G V].
    unfold stops_ok, is_announce, repaired, is_getput in *. rewrite V in Ok. destruct (lc_api c); discriminate.
  Qed.

  Lemma tq_at_head s x rest p : l_inflight s = x :: rest -> tq_phase x = p -> tq_at s (tq_id x) p = true.
  Proof. intros E P. unfold tq_at. rewrite E, find_tq_head. apply qphase_eqb_eq. assumption. Qed.

  (* a query in flight can always take its next step, given who may be waiting for its result *)
  Lemma query_progress s x rest :
    LInvA s -> l_panic s = false -> l_inflight s = x :: rest ->
    (tq_phase x = PDeliver ->
       if is_announce c then l_reads s = true \/ (lc_abandon_closed c = true /\ l_aclosed s = true)
       else l_owner s = OWait \/ l_stopping s = true) ->
    exists l, internal l = true /\ is_issue l = false /\ enabled s l = true.
  Proof.
    intros I NP E Hd. destruct (tq_phase x) eqn:P.
    - exists (QReturn (tq_id x) None). repeat split. unfold Lookups.enabled. rewrite NP. simpl.
      apply (tq_at_head s x rest PQuery E P).
    - specialize (Hd eq_refl). pose proof (tq_at_head s x rest PDeliver E P) as T.
      destruct (is_announce c) eqn:An.
      + destruct Hd as [Rd|[Ab St]].
        * exists (QDeliver (tq_id x)). repeat split. unfold Lookups.enabled. rewrite NP, T, An, Rd. reflexivity.
        * exists (QAbandon (tq_id x)). repeat split. unfold Lookups.enabled. rewrite NP, T, An, Ab, St. reflexivity.
      + destruct Hd as [Ow|St].
        * exists (QDeliver (tq_id x)). repeat split. unfold Lookups.enabled. rewrite NP, T, An, Ow. reflexivity.
        * exists (QAbandon (tq_id x)). repeat split. unfold Lookups.enabled. rewrite NP, T, An, St. reflexivity.
    - exists (QFinish (tq_id x)). repeat split. unfold Lookups.enabled. rewrite NP. simpl.
      apply (tq_at_head s x rest PReturn E P).
  Qed.

  Theorem lprogress s :
    LInvA s -> live s -> all_done s = false ->
    exists l, internal l = true /\ is_issue l = false /\ enabled s l = true.
  Proof.
    intros I [Ok Lv] ND. pose proof (no_panic_ok s I Ok) as NP.
    assert (En : forall l, (match l with
                            | OStartTrav => opc_eqb (l_owner s) OStart
                            | OGetNodes => opc_eqb (l_owner s) OStartNodes
                            | OStopStep => opc_eqb (l_owner s) OStop
                            | OCloseP => opc_eqb (l_owner s) OClosePeers
                            | OSend _ => opc_eqb (l_owner s) OAnnounce && negb (nil_b (l_todo s))
                            | OSendsDone => opc_eqb (l_owner s) OAnnounce && nil_b (l_todo s)
                            | _ => false end) = true -> enabled s l = true).
    { intros l H. unfold Lookups.enabled. rewrite NP. destruct l; simpl; try discriminate; assumption. }
    destruct (l_owner s) eqn:Ow.
    - exists OStartTrav. repeat split. apply En. reflexivity.
    - exists OGetNodes. repeat split. apply En. reflexivity.
    - (* OWait *)
      assert (l_started s = true) as St by (rewrite (a_started s I), Ow; reflexivity).
      destruct (l_inflight s) as [|x rest] eqn:Inf.
      + exists OStalled. repeat split. unfold Lookups.enabled, stall_ready. rewrite NP, Ow, St, Inf. simpl.
        rewrite orb_true_r. reflexivity.
      + apply (query_progress s x rest I NP Inf). intros P. destruct (is_announce c) eqn:An.
        * apply Lv. reflexivity.
        * left. assumption.
    - exists OStopStep. repeat split. apply En. reflexivity.
    - (* OWaitStopped *)
      assert (l_started s = true) as St by (rewrite (a_started s I), Ow; reflexivity).
      assert (l_stopping s = true) as Sg by (apply (a_past_stop s I); rewrite Ow; reflexivity).
      destruct (l_stopped s) eqn:Sd.
      + exists OStoppedStep. repeat split. unfold Lookups.enabled. rewrite NP, Ow, Sd. reflexivity.
      + destruct (l_inflight s) as [|x rest] eqn:Inf.
        * exists TStopWait. repeat split. unfold Lookups.enabled. rewrite NP, St, Sg, Sd, Inf. reflexivity.
        * apply (query_progress s x rest I NP Inf). intros P. destruct (is_announce c) eqn:An.
          -- apply Lv. reflexivity.
          -- right. assumption.
    - (* OAnnounce *)
      destruct (l_todo s) as [|e rest] eqn:Td.
      + exists OSendsDone. repeat split. apply En. reflexivity.
      + exists (OSend true). repeat split. apply En. reflexivity.
    - exists OCloseP. repeat split. apply En. reflexivity.
    - (* ODone *)
      assert (l_started s = true) as St by (rewrite (a_started s I), Ow; reflexivity).
      assert (l_stopping s = true) as Sg by (apply (a_past_stop s I); rewrite Ow; simpl; rewrite Ok; reflexivity).
      destruct (l_inflight s) as [|x rest] eqn:Inf.
      + pose proof (a_todo s I) as Td. unfold todo_ok in Td. rewrite Ow in Td. simpl in Td. rewrite orb_false_r in Td.
        unfold Lookups.all_done, owner_done in ND. rewrite Ow, Inf, Td, St, Sg in ND. simpl in ND.
        destruct (l_loop_exited s) eqn:Le.
        * destruct (l_stopped s) eqn:Sd; [discriminate|].
          exists TStopWait. repeat split. unfold Lookups.enabled. rewrite NP, St, Sg, Sd, Inf. reflexivity.
        * exists TLoopExit. repeat split. unfold Lookups.enabled. rewrite NP, St, Sg, Le. reflexivity.
      + apply (query_progress s x rest I NP Inf). intros P. destruct (is_announce c) eqn:An.
        * apply Lv. reflexivity.
        * right. assumption.
  Qed.

  Lemma live_step s l : live s -> internal l = true -> enabled s l = true -> live (step s l).
  Proof.
    intros [Ok Lv] Il En. split; [assumption|]. intros An. specialize (Lv An).
    assert (l_reads (step s l) = l_reads s) as Rd.
    { destruct l; try discriminate Il; unfold Lookups.step, Lookups.deliver; cbn; try reflexivity;
        repeat match goal with |- context [match ?x with _ => _ end] => destruct x; cbn end; reflexivity. }
    rewrite Rd. destruct Lv as [?|[Ab St]]; [left; assumption|right]. split; [assumption|].
    pose proof (aclosed_mono s l St) as M. unfold Lookups.step_en in M. rewrite En in M. exact M.
  Qed.

  Fixpoint path_ok (s : lstate) (ls : list label) : bool :=
    match ls with
    | [] => true
    | l :: r => enabled s l && path_ok (step s l) r
    end.

  Lemma step_en_enabled s l : enabled s l = true -> step_en s l = step s l.
  Proof. intros E. unfold Lookups.step_en. rewrite E. reflexivity. Qed.

  Lemma ends_from : forall n s, lmu s <= n -> LInvA s -> live s ->
    exists ls, forallb internal ls = true /\ forallb (fun l => negb (is_issue l)) ls = true /\
               path_ok s ls = true /\ all_done (exec s ls) = true /\ length ls <= n.
  Proof.
    induction n as [|n IH]; intros s M I Lv.
    - destruct (all_done s) eqn:D.
      + exists []. repeat split; simpl; try assumption; lia.
      + destruct (lprogress s I Lv D) as (l & _ & _ & E). pose proof (lmu_decreases s l E). lia.
    - destruct (all_done s) eqn:D.
      + exists []. repeat split; simpl; try assumption; lia.
      + destruct (lprogress s I Lv D) as (l & Il & Is & E).
        pose proof (lmu_decreases s l E) as Dm.
        destruct (IH (step s l)) as (ls & A & B & P & F & L);
          [lia|apply invA_step; assumption|apply live_step; assumption|].
        exists (l :: ls). simpl. rewrite Il, Is, A, B, E, P. repeat split; try lia.
        rewrite step_en_enabled; assumption.
  Qed.

  (* From every reachable live state some finite sequence (at most lmu of them) of enabled INTERNAL
     events, none of which issues a new query, ends every process of the lookup:
     owner returned, nothing in flight, no announce/put goroutine left, and -- if a traversal was
     started -- stopping, Stopped and run loop exited. *)
  Theorem lookup_ends s :
    reachable s -> live s ->
    exists ls, forallb internal ls = true /\ forallb (fun l => negb (is_issue l)) ls = true /\
               path_ok s ls = true /\ all_done (exec s ls) = true /\ length ls <= lmu s.
  Proof. intros R Lv. apply (ends_from (lmu s) s (le_n _) (invA_reachable s R) Lv). Qed.

  (* and no run at all is longer than the measure: no infinite behaviour, whatever the schedule *)
  Theorem run_length_bound ls : forall s, path_ok s ls = true -> length ls <= lmu s.
  Proof.
    induction ls as [|l r IH]; intros s P; simpl in *; [lia|].
    apply andb_prop in P. destruct P as [E P]. pose proof (lmu_decreases s l E). specialize (IH _ P). lia.
  Qed.

  Definition lstep (s' s : lstate) : Prop := exists l, enabled s l = true /\ s' = step s l.
  Theorem lstep_wf : well_founded lstep.
  Proof. apply (well_founded_lt_compat _ lmu). intros s' s (l & E & ->). apply lmu_decreases. assumption. Qed.

  (* "Stop leads to Stopped once the in-flight queries have returned": in a stopping traversal no new
     query starts, and with nothing in flight the two traversal goroutines can end *)
  Theorem stopping_no_issue s a : l_stopping s = true -> enabled s (TIssue a) = false.
  Proof. intros H. unfold Lookups.enabled. simpl. rewrite H. simpl. rewrite andb_false_r, andb_false_r. reflexivity. Qed.

  Theorem stop_reaches_stopped s :
    l_started s = true -> l_stopping s = true -> l_inflight s = [] -> l_panic s = false ->
    let s' := exec s [TLoopExit; TStopWait] in
    l_loop_exited s' = true /\ l_stopped s' = true /\ l_inflight s' = [].
  Proof.
    intros St Sg Inf NP. cbn [Lookups.exec fold_left].
    assert (E1 : step_en s TLoopExit = if l_loop_exited s then s else set_loop_exited s true).
    { unfold Lookups.step_en, Lookups.enabled. rewrite NP, St, Sg. cbn. destruct (l_loop_exited s); reflexivity. }
    rewrite E1. clear E1.
    remember (if l_loop_exited s then s else set_loop_exited s true) as s1 eqn:Es1.
    assert (l_panic s1 = false /\ l_started s1 = true /\ l_stopping s1 = true /\ l_inflight s1 = [] /\
            l_loop_exited s1 = true) as (NP1 & St1 & Sg1 & Inf1 & Le1).
    { subst s1. destruct (l_loop_exited s) eqn:Le; cbn; repeat split; assumption. }
    assert (E2 : step_en s1 TStopWait = if l_stopped s1 then s1 else set_stopped s1 true).
    { unfold Lookups.step_en, Lookups.enabled. rewrite NP1, St1, Sg1, Inf1. cbn. destruct (l_stopped s1); reflexivity. }
    rewrite E2. destruct (l_stopped s1) eqn:Sd; cbn; repeat split; assumption.
  Qed.

  (* ---------------------------------------------------------------- bookkeeping of queries and replies *)
  Definition log_ids (s : lstate) : list nat := map (fun e => fst (fst e)) (l_log s).
  Definition del_ids (s : lstate) : list nat := map (fun d => fst (fst (fst d))) (l_delivered s).

  Record LInvB (s : lstate) : Prop := mkLInvB {
    b_ids : forall x, In x (l_inflight s) -> tq_id x < l_nq s;
    b_nodup : NoDup (map tq_id (l_inflight s));
    b_log_ids : forall q, In q (log_ids s) -> q < l_nq s;
    b_log_nodup : NoDup (log_ids s);
    b_query : forall x, In x (l_inflight s) -> tq_phase x = PQuery -> ~ In (tq_id x) (log_ids s) /\ tq_res x = None;
    b_res : forall x r, In x (l_inflight s) -> tq_res x = Some r -> In (tq_id x, tq_addr x, r) (l_log s);
    b_deliver_res : forall x, In x (l_inflight s) -> tq_phase x = PDeliver ->
                    exists r, tq_res x = Some r /\ gr_has_r r = true;
    b_del_ids : forall q, In q (del_ids s) -> In q (log_ids s);
    b_del_nodup : NoDup (del_ids s);
    b_abn_ids : forall q, In q (l_abandoned s) -> In q (log_ids s);
    b_pending : forall x, In x (l_inflight s) -> tq_phase x <> PReturn ->
                ~ In (tq_id x) (del_ids s) /\ ~ In (tq_id x) (l_abandoned s);
    b_delivered : forall q a i p, In (q, a, i, p) (l_delivered s) ->
                  exists r, In (q, a, r) (l_log s) /\ gr_has_r r = true /\ i = gr_id r /\ p = gr_payload r;
    b_status : is_announce c = true -> forall q a r, In (q, a, r) (l_log s) -> gr_has_r r = true ->
               (exists x, In x (l_inflight s) /\ tq_id x = q /\ tq_phase x = PDeliver) \/
               In (q, a, gr_id r, gr_payload r) (l_delivered s) \/ In q (l_abandoned s);
    b_abandon : is_announce c = true -> l_abandoned s <> [] -> lc_abandon_closed c = true
  }.

  Lemma log_unique s q a r a' r' :
    NoDup (log_ids s) -> In (q, a, r) (l_log s) -> In (q, a', r') (l_log s) -> a = a' /\ r = r'.
  Proof.
    unfold log_ids. induction (l_log s) as [|[[q0 a0] r0] l IH]; simpl; intros N I1 I2; [destruct I1|].
    inversion N as [|? ? Nin N']; subst.
    destruct I1 as [E1|I1], I2 as [E2|I2].
    - injection E1 as -> -> ->. injection E2 as -> ->. split; reflexivity.
    - injection E1 as -> -> ->. exfalso. apply Nin. apply in_map_iff. exists (q, a', r'). split; [reflexivity|assumption].
    - injection E2 as -> -> ->. exfalso. apply Nin. apply in_map_iff. exists (q, a, r). split; [reflexivity|assumption].
    - apply IH; assumption.
  Qed.

  Lemma nodup_split_ids l1 (x : tquery) l2 y :
    NoDup (map tq_id (l1 ++ x :: l2)) -> In y (l1 ++ l2) -> tq_id y <> tq_id x.
  Proof.
    rewrite map_app. simpl. intros N I E. apply NoDup_remove_2 in N. apply N.
    rewrite <- E. rewrite <- map_app. apply in_map. assumption.
  Qed.

  Lemma nodup_replace l1 (x y : tquery) l2 :
    tq_id y = tq_id x -> NoDup (map tq_id (l1 ++ x :: l2)) -> NoDup (map tq_id (l1 ++ y :: l2)).
  Proof. intros E. rewrite !map_app. simpl. rewrite E. trivial. Qed.

  Lemma invB_init : LInvB (l_init c).
  Proof.
    constructor; simpl; intros; try contradiction; try constructor; try discriminate.
  Qed.

  Lemma invB_frame s s' :
    l_inflight s' = l_inflight s -> l_nq s' = l_nq s -> l_log s' = l_log s ->
    l_delivered s' = l_delivered s -> l_abandoned s' = l_abandoned s -> LInvB s -> LInvB s'.
  Proof.
    intros E1 E2 E3 E4 E5 [B1 B2 B3 B4 B5 B6 B7 B8 B9 B10 B11 B12 B13 B14].
    constructor; unfold log_ids, del_ids in *; rewrite ?E1, ?E2, ?E3, ?E4, ?E5; assumption.
  Qed.

  Ltac destr_all :=
    repeat match goal with |- context [match ?x with _ => _ end] => destruct x; cbn end; try reflexivity.

  Lemma after_query_not_query r : after_query r <> PQuery.
  Proof.
    unfold Lookups.after_query. destruct r as [y|]; [|discriminate]. destruct (negb (gr_has_r y)); [discriminate|].
    destruct (lc_api c); try discriminate; destruct (accept y); discriminate.
  Qed.

  Lemma after_query_deliver_has_r r : after_query r = PDeliver -> exists y, r = Some y /\ gr_has_r y = true.
  Proof.
    unfold Lookups.after_query. destruct r as [y|]; [|discriminate]. destruct (gr_has_r y) eqn:H; simpl; [|discriminate].
    intros _. exists y. split; [reflexivity|assumption].
  Qed.

  Lemma after_query_announce y : is_announce c = true -> gr_has_r y = true -> after_query (Some y) = PDeliver.
  Proof.
    unfold Lookups.after_query, is_announce. intros A H. rewrite H. simpl. destruct (lc_api c); try discriminate. reflexivity.
  Qed.

  Lemma lt_not_in (n : nat) l : (forall q, In q l -> q < n) -> ~ In n l.
  Proof. intros H I. specialize (H n I). lia. Qed.

  Lemma NoDup_snoc_nat (l : list nat) a : NoDup l -> ~ In a l -> NoDup (l ++ [a]).
  Proof.
    induction l as [|b l IH]; simpl; intros N Ni; [constructor; [tauto|constructor]|].
    inversion N; subst. constructor.
    - rewrite in_app_iff. simpl. intros [I|[E|[]]]; [tauto|]. apply Ni. left. congruence.
    - apply IH; [assumption|tauto].
  Qed.

  Lemma invB_phase_return s sx x l1 l2 q D' Ab' :
    LInvB s -> l_inflight s = l1 ++ x :: l2 -> tq_id x = q -> tq_phase x = PDeliver ->
    l_inflight sx = l1 ++ tq_set_phase PReturn x :: l2 -> l_nq sx = l_nq s -> l_log sx = l_log s ->
    l_delivered sx = D' -> l_abandoned sx = Ab' ->
    ((D' = l_delivered s /\ Ab' = l_abandoned s /\ is_announce c = false) \/
     (exists y, tq_res x = Some y /\ D' = l_delivered s ++ [(q, tq_addr x, gr_id y, gr_payload y)] /\ Ab' = l_abandoned s) \/
     (D' = l_delivered s /\ Ab' = l_abandoned s ++ [q] /\ (is_announce c = true -> lc_abandon_closed c = true))) ->
    LInvB sx.
  Proof.
    intros [B1 B2 B3 B4 B5 B6 B7 B8 B9 B10 B11 B12 B13 B14] A Eq P E1 E2 E3 E4 E5 Mode.
    assert (Ix : In x (l_inflight s)) by (rewrite A; apply In_split3; tauto).
    assert (Hother : forall y, In y l1 \/ In y l2 -> In y (l_inflight s) /\ tq_id y <> q).
    { intros y Iy. split; [rewrite A; apply In_split3; tauto|].
      rewrite <- Eq. apply (nodup_split_ids l1 x l2 y); [rewrite <- A; assumption|apply in_or_app; assumption]. }
    destruct (B7 x Ix P) as (rx & Rx & Hrx).
    pose proof (B6 x rx Ix Rx) as Lx. rewrite Eq in Lx.
    assert (Qlog : In q (log_ids s)).
    { unfold log_ids. apply in_map_iff. exists (q, tq_addr x, rx). split; [reflexivity|assumption]. }
    assert (P' : tq_phase x <> PReturn) by (rewrite P; discriminate).
    destruct (B11 x Ix P') as [Nd Na]. rewrite Eq in Nd, Na.
    assert (Dsub : forall d, In d (l_delivered s) -> In d D').
    { destruct Mode as [(-> & _)|[(y & _ & -> & _)|(-> & _)]]; intros d I; try assumption. apply in_or_app; left; assumption. }
    assert (Asub : forall a, In a (l_abandoned s) -> In a Ab').
    { destruct Mode as [(_ & -> & _)|[(y & _ & _ & ->)|(_ & -> & _)]]; intros d I; try assumption. apply in_or_app; left; assumption. }
    assert (Dids : forall q0, In q0 (map (fun d : nat * addr * N * bytes => fst (fst (fst d))) D') -> In q0 (del_ids s) \/ q0 = q).
    { destruct Mode as [(-> & _)|[(y & _ & -> & _)|(-> & _)]]; intros q0 I; try (left; exact I).
      rewrite map_app in I. apply in_app_or in I. destruct I as [I|[<-|[]]]; [left; exact I|right; reflexivity]. }
    assert (Aids : forall q0, In q0 Ab' -> In q0 (l_abandoned s) \/ q0 = q).
    { destruct Mode as [(_ & -> & _)|[(y & _ & _ & ->)|(_ & -> & _)]]; intros q0 I; try (left; exact I).
      apply in_app_or in I. destruct I as [I|[<-|[]]]; [left; exact I|right; reflexivity]. }
    constructor; unfold log_ids, del_ids in *; rewrite ?E1, ?E2, ?E3, ?E4, ?E5.
    - intros y I. apply In_split3 in I. destruct I as [I|[->|I]]; [apply B1; apply Hother; tauto|simpl; apply B1; assumption|apply B1; apply Hother; tauto].
    - apply (nodup_replace l1 x _ l2); [reflexivity|rewrite <- A; assumption].
    - assumption.
    - assumption.
    - intros y I Py. apply In_split3 in I. destruct I as [I|[->|I]]; [apply B5; [apply Hother; tauto|assumption]|discriminate|apply B5; [apply Hother; tauto|assumption]].
    - intros y r0 I Ry. apply In_split3 in I. destruct I as [I|[->|I]]; [apply B6; [apply Hother; tauto|assumption]|simpl in *; apply B6; assumption|apply B6; [apply Hother; tauto|assumption]].
    - intros y I Py. apply In_split3 in I. destruct I as [I|[->|I]]; [apply B7; [apply Hother; tauto|assumption]|discriminate|apply B7; [apply Hother; tauto|assumption]].
    - intros q0 I. destruct (Dids q0 I) as [I' | ->]; [apply B8; assumption|assumption].
    - destruct Mode as [(-> & _)|[(y & _ & -> & _)|(-> & _)]]; try assumption.
      rewrite map_app. simpl. apply NoDup_snoc_nat; assumption.
    - intros q0 I. destruct (Aids q0 I) as [I' | ->]; [apply B10; assumption|assumption].
    - intros y I Py. apply In_split3 in I. destruct I as [I|[->|I]].
      + destruct (Hother y (or_introl I)) as [Iy Ny]. destruct (B11 y Iy Py) as [N1 N2].
        split; intros J; [destruct (Dids _ J)|destruct (Aids _ J)]; tauto.
      + simpl in Py. congruence.
      + destruct (Hother y (or_intror I)) as [Iy Ny]. destruct (B11 y Iy Py) as [N1 N2].
        split; intros J; [destruct (Dids _ J)|destruct (Aids _ J)]; tauto.
    - intros q0 a0 i p I.
      destruct Mode as [(-> & _)|[(y & Ry & -> & _)|(-> & _)]]; try (apply B12; assumption).
      apply in_app_or in I. destruct I as [I|[E|[]]]; [apply B12; assumption|].
      injection E as <- <- <- <-. rewrite Rx in Ry. injection Ry as <-. exists rx. repeat split; assumption.
    - intros An q0 a0 r0 I Hr. destruct (B13 An q0 a0 r0 I Hr) as [(z & Iz & Ez & Pz)|[D|Ab]].
      + rewrite A in Iz. apply In_split3 in Iz. destruct Iz as [Iz|[->|Iz]].
        * left. exists z. split; [apply In_split3; tauto|split; assumption].
        * rewrite Eq in Ez. subst q0. destruct (log_unique s q a0 r0 (tq_addr x) rx B4 I Lx) as [-> ->].
          destruct Mode as [(_ & _ & NA)|[(y & Ry & -> & _)|(_ & -> & _)]].
          -- congruence.
          -- right. left. rewrite Rx in Ry. injection Ry as <-. apply in_or_app. right. left. reflexivity.
          -- right. right. apply in_or_app. right. left. reflexivity.
        * left. exists z. split; [apply In_split3; tauto|split; assumption].
      + right. left. apply Dsub. assumption.
      + right. right. apply Asub. assumption.
    - intros An Ne. destruct Mode as [(_ & -> & _)|[(y & _ & _ & ->)|(_ & _ & Hab)]]; [apply B14; assumption..|apply Hab; assumption].
  Qed.

  Lemma invB_step s l : LInvA s -> LInvB s -> enabled s l = true -> LInvB (step s l).
  Proof.
    intros IA IB En.
    destruct l;
      try (apply (invB_frame s); [..|assumption]; unfold Lookups.step; cbn; destr_all; fail).
    - (* TIssue *)
      destruct IB as [B1 B2 B3 B4 B5 B6 B7 B8 B9 B10 B11 B12 B13 B14].
      unfold Lookups.step. constructor; cbn; unfold log_ids, del_ids in *; cbn.
      + intros x I. apply in_app_or in I. destruct I as [I|[<-|[]]]; [specialize (B1 x I); lia|simpl; lia].
      + rewrite map_app. simpl. apply NoDup_snoc_nat; [assumption|].
        apply lt_not_in. intros q I. apply in_map_iff in I. destruct I as (x & <- & I). apply B1. assumption.
      + intros q I. specialize (B3 q I). lia.
      + assumption.
      + intros x I P. apply in_app_or in I. destruct I as [I|[<-|[]]]; [apply B5; assumption|].
        simpl. split; [apply lt_not_in; assumption|reflexivity].
      + intros x r I R. apply in_app_or in I. destruct I as [I|[<-|[]]]; [apply B6; assumption|discriminate].
      + intros x I P. apply in_app_or in I. destruct I as [I|[<-|[]]]; [apply B7; assumption|discriminate].
      + assumption.
      + assumption.
      + assumption.
      + intros x I P. apply in_app_or in I. destruct I as [I|[<-|[]]]; [apply B11; assumption|]. simpl. split.
        * intros I. apply B8 in I. apply B3 in I. lia.
        * intros I. apply B10 in I. apply B3 in I. lia.
      + assumption.
      + intros An q a0 r I H. destruct (B13 An q a0 r I H) as [(x & Ix & E & P)|[D|A]]; [left|right; left|right; right]; try assumption.
        exists x. split; [apply in_or_app; left; assumption|split; assumption].
      + assumption.
    - (* QReturn *)
      pose proof En as En'. unfold Lookups.enabled in En'. apply andb_prop in En'. destruct En' as [_ T].
      destruct (tq_at_split _ _ _ T) as (x & l1 & l2 & A & Eq & P & _ & U & _ & _ & Ad).
      destruct IB as [B1 B2 B3 B4 B5 B6 B7 B8 B9 B10 B11 B12 B13 B14].
      assert (Ix : In x (l_inflight s)) by (rewrite A; apply In_split3; tauto).
      destruct (B5 x Ix P) as [Nlog Rnone].
      assert (Hother : forall y, In y l1 \/ In y l2 -> In y (l_inflight s) /\ tq_id y <> q).
      { intros y Iy. split; [rewrite A; apply In_split3; tauto|].
        rewrite <- Eq. apply (nodup_split_ids l1 x l2 y); [rewrite <- A; assumption|apply in_or_app; assumption]. }
      set (x' := tq_returned (after_query r) r x).
      assert (G : LInvB (match r with
                         | Some y => set_log (set_inflight s (upd_tq q (tq_returned (after_query r) r) (l_inflight s)))
                                             (l_log s ++ [(q, addr_of s q, y)])
                         | None => set_inflight s (upd_tq q (tq_returned (after_query r) r) (l_inflight s))
                         end)).
      { assert (Hlog : forall l', l' = match r with Some y => l_log s ++ [(q, tq_addr x, y)] | None => l_log s end ->
                  (forall e, In e (l_log s) -> In e l') /\
                  (forall q0, In q0 (map (fun e => fst (fst e)) l') -> In q0 (log_ids s) \/ (q0 = q /\ r <> None)) /\
                  NoDup (map (fun e => fst (fst e)) l')).
        { intros l' ->. destruct r as [y|].
          - split; [intros e I; apply in_or_app; left; assumption|]. split.
            + intros q0 I. rewrite map_app in I. apply in_app_or in I. destruct I as [I|[<-|[]]]; [left; assumption|].
              right. split; [reflexivity|discriminate].
            + rewrite map_app. simpl. apply NoDup_snoc_nat; [assumption|]. rewrite <- Eq. exact Nlog.
          - split; [tauto|]. split; [intros q0 I; left; assumption|assumption]. }
        set (log' := match r with Some y => l_log s ++ [(q, tq_addr x, y)] | None => l_log s end).
        destruct (Hlog log' eq_refl) as (Hsub & Hids & Hnd).
        assert (Einf : forall sx, l_inflight sx = upd_tq q (tq_returned (after_query r) r) (l_inflight s) ->
                                  l_inflight sx = l1 ++ x' :: l2) by (intros sx ->; apply U).
        assert (K : forall sx, l_inflight sx = l1 ++ x' :: l2 -> l_nq sx = l_nq s -> l_log sx = log' ->
                               l_delivered sx = l_delivered s -> l_abandoned sx = l_abandoned s -> LInvB sx).
        { intros sx E1 E2 E3 E4 E5. constructor; unfold log_ids, del_ids in *; rewrite ?E1, ?E2, ?E3, ?E4, ?E5.
          - intros y I. apply In_split3 in I. destruct I as [I|[->|I]]; [apply B1; apply Hother; tauto|simpl; apply B1; assumption|apply B1; apply Hother; tauto].
          - apply (nodup_replace l1 x x' l2); [reflexivity|rewrite <- A; assumption].
          - intros q0 I. destruct (Hids q0 I) as [I'|[-> _]]; [apply B3; assumption|rewrite <- Eq; apply B1; assumption].
          - assumption.
          - intros y I Py. apply In_split3 in I. destruct I as [I|[->|I]].
            + destruct (Hother y (or_introl I)) as [Iy Ny]. destruct (B5 y Iy Py) as [N1 N2]. split; [|assumption].
              intros J. destruct (Hids _ J) as [J'|[J' _]]; [tauto|congruence].
            + simpl in Py. exfalso. exact (after_query_not_query r Py).
            + destruct (Hother y (or_intror I)) as [Iy Ny]. destruct (B5 y Iy Py) as [N1 N2]. split; [|assumption].
              intros J. destruct (Hids _ J) as [J'|[J' _]]; [tauto|congruence].
          - intros y r0 I Ry. apply In_split3 in I. destruct I as [I|[->|I]].
            + apply Hsub. apply B6; [apply Hother; tauto|assumption].
            + simpl in Ry. simpl. subst log'. rewrite Ry. apply in_or_app. right. left. rewrite Eq. reflexivity.
            + apply Hsub. apply B6; [apply Hother; tauto|assumption].
          - intros y I Py. apply In_split3 in I. destruct I as [I|[->|I]].
            + apply B7; [apply Hother; tauto|assumption].
            + simpl in Py. simpl. destruct (after_query_deliver_has_r r Py) as (y0 & -> & Hy). exists y0. split; [reflexivity|assumption].
            + apply B7; [apply Hother; tauto|assumption].
          - intros q0 I. apply B8 in I. apply in_map_iff in I. destruct I as (e & <- & I). apply in_map_iff. exists e. split; [reflexivity|apply Hsub; assumption].
          - assumption.
          - intros q0 I. apply B10 in I. apply in_map_iff in I. destruct I as (e & <- & I). apply in_map_iff. exists e. split; [reflexivity|apply Hsub; assumption].
          - intros y I Py. apply In_split3 in I. destruct I as [I|[->|I]].
            + apply B11; [apply Hother; tauto|assumption].
            + simpl. rewrite Eq. split; intros J; apply Nlog; rewrite Eq; [apply B8|apply B10]; assumption.
            + apply B11; [apply Hother; tauto|assumption].
          - intros q0 a0 i p I. destruct (B12 q0 a0 i p I) as (r0 & I0 & Hr). exists r0. split; [apply Hsub; assumption|assumption].
          - intros An q0 a0 r0 I Hr. subst log'. destruct r as [y|].
            + apply in_app_or in I. destruct I as [I|[E|[]]].
              * destruct (B13 An q0 a0 r0 I Hr) as [(z & Iz & Ez & Pz)|[D|Ab]]; [left|right; left; assumption|right; right; assumption].
                exists z. rewrite A in Iz. apply In_split3 in Iz. destruct Iz as [Iz|[->|Iz]].
                -- split; [apply In_split3; tauto|split; assumption].
                -- congruence.
                -- split; [apply In_split3; tauto|split; assumption].
              * injection E as <- <- <-. left. exists x'. split; [apply In_split3; tauto|]. split; [simpl; assumption|].
                simpl. apply after_query_announce; assumption.
            + destruct (B13 An q0 a0 r0 I Hr) as [(z & Iz & Ez & Pz)|[D|Ab]]; [left|right; left; assumption|right; right; assumption].
              exists z. rewrite A in Iz. apply In_split3 in Iz. destruct Iz as [Iz|[->|Iz]].
              * split; [apply In_split3; tauto|split; assumption].
              * congruence.
              * split; [apply In_split3; tauto|split; assumption].
          - assumption. }
        subst log'. rewrite Ad. destruct r as [y|]; apply K; cbn; try reflexivity; apply U. }
      unfold Lookups.step. destruct (query_panics r); [|exact G].
      apply (invB_frame _ _) with (6 := G); destruct r; reflexivity.
    - (* QDeliver *)
      pose proof En as En'. unfold Lookups.enabled in En'. apply andb_prop in En'. destruct En' as [_ T].
      apply andb_prop in T. destruct T as [T Who].
      destruct (tq_at_split _ _ _ T) as (x & l1 & l2 & A & Eq & P & _ & U & _ & R & Ad).
      assert (Ix : In x (l_inflight s)) by (rewrite A; apply In_split3; tauto).
      destruct (b_deliver_res s IB x Ix P) as (y & Ry & Hy).
      unfold Lookups.step, Lookups.deliver. rewrite R, Ry, Ad.
      destruct (is_announce c) eqn:An.
      + unfold is_announce in An. destruct (lc_api c); try discriminate.
        destruct (l_peers_closed s) eqn:PC.
        * exfalso. destruct (a_peers_closed s IA PC) as (_ & Sd & _). destruct (a_stopped s IA Sd) as [_ E].
          rewrite E in A. destruct l1; discriminate.
        * eapply (invB_phase_return s _ x l1 l2 q); [exact IB|exact A|exact Eq|exact P|cbn; apply U|reflexivity|reflexivity|reflexivity|reflexivity|].
          cbn. right. left. exists y. repeat split. assumption.
      + assert (forall sx, l_inflight sx = l1 ++ tq_set_phase PReturn x :: l2 -> l_nq sx = l_nq s -> l_log sx = l_log s ->
                           l_delivered sx = l_delivered s -> l_abandoned sx = l_abandoned s -> LInvB sx) as K.
        { intros sx E1 E2 E3 E4 E5. apply (invB_phase_return s sx x l1 l2 q _ _ IB A Eq P E1 E2 E3 E4 E5).
          left. repeat split. unfold is_announce. exact An. }
        unfold is_announce in An.
        destruct (lc_api c); try discriminate; try destruct (accept y); apply K; cbn; try reflexivity; apply U.
    - (* QAbandon *)
      pose proof En as En'. unfold Lookups.enabled in En'. apply andb_prop in En'. destruct En' as [_ T].
      apply andb_prop in T. destruct T as [T Who].
      destruct (tq_at_split _ _ _ T) as (x & l1 & l2 & A & Eq & P & _ & U & _).
      unfold Lookups.step.
      eapply (invB_phase_return s _ x l1 l2 q); [exact IB|exact A|exact Eq|exact P|cbn; apply U|reflexivity|reflexivity|reflexivity|reflexivity|].
      cbn. right. right. repeat split. intros An. rewrite An in Who. destruct (lc_abandon_closed c); [reflexivity|].
      exfalso. destruct (a_stopped s IA Who) as [_ E]. rewrite E in A. destruct l1; discriminate.
    - (* QFinish *)
      pose proof En as En'. unfold Lookups.enabled in En'. apply andb_prop in En'. destruct En' as [_ T].
      destruct (tq_at_split _ _ _ T) as (x & l1 & l2 & A & Eq & P & _ & _ & D & _).
      destruct IB as [B1 B2 B3 B4 B5 B6 B7 B8 B9 B10 B11 B12 B13 B14].
      assert (Hin : forall y, In y (l1 ++ l2) -> In y (l_inflight s)).
      { intros y I. rewrite A. apply in_app_or in I. apply In_split3. tauto. }
      assert (G : LInvB (set_inflight s (del_tq q (l_inflight s)))).
      { constructor; unfold log_ids, del_ids in *; cbn; rewrite ?D; try assumption.
        - intros y I. apply B1. apply Hin. assumption.
        - rewrite A in B2. rewrite map_app in *. simpl in B2. apply NoDup_remove_1 in B2. assumption.
        - intros y I. apply B5. apply Hin. assumption.
        - intros y r0 I. apply B6. apply Hin. assumption.
        - intros y I. apply B7. apply Hin. assumption.
        - intros y I. apply B11. apply Hin. assumption.
        - intros An q0 a0 r0 I Hr. destruct (B13 An q0 a0 r0 I Hr) as [(z & Iz & Ez & Pz)|[Dl|Ab]]; [left|right; left; assumption|right; right; assumption].
          exists z. rewrite A in Iz. apply In_split3 in Iz. destruct Iz as [Iz|[->|Iz]].
          + split; [apply in_or_app; tauto|split; assumption].
          + congruence.
          + split; [apply in_or_app; tauto|split; assumption]. }
      unfold Lookups.step. destruct (closest_elem (addr_of s q) (res_of s q)); [|exact G].
      apply (invB_frame _ _) with (6 := G); reflexivity.
  Qed.

  Theorem invB_reachable s : reachable s -> LInvB s.
  Proof.
    apply reachable_ind; [apply invB_init|]. intros s0 l R I E. apply invB_step; [apply invA_reachable|..]; assumption.
  Qed.

  (* ---------------------------------------------------------------- closest set, final set, what was sent *)
  (* the element stems from a reply of THIS traversal: some query to its address got back a message
     with "r", this id and (announce) exactly this token *)
  Definition elem_logged (s : lstate) (e : elem) : Prop :=
    exists q r, In (q, e_addr e, r) (l_log s) /\ gr_has_r r = true /\ gr_id r = e_id e /\
                node_ok (e_addr e) (e_id e) = true /\
                (is_announce c = true -> gr_token r = Some (e_data e)).

  Definition strip (r : sendrec) : addr * bytes * N * Z * bool :=
    (sr_dest r, sr_token r, sr_ih r, sr_port r, sr_implied r).
  Definition recs_of (s : lstate) (e : elem) (sent : bool) : list sendrec :=
    match lc_api c with
    | AAnnounce => announce_rec c e sent
    | _ => [mkSR (e_addr e) (e_data e) (lc_target c) 0%Z false (l_autoseq s) sent]
    end.
  Definition keys_of (e : elem) : list (addr * bytes * N * Z * bool) :=
    match lc_api c with
    | AAnnounce => map strip (announce_rec c e true)
    | _ => [(e_addr e, e_data e, lc_target c, 0%Z, false)]
    end.

  Lemma strip_recs s e sent : map strip (recs_of s e sent) = keys_of e.
  Proof.
    unfold recs_of, keys_of, announce_rec. destruct (lc_api c); try reflexivity.
    destruct (lc_ann c) as [[port imp]|]; [|reflexivity]. destruct (Z.eqb port 0 && negb imp); reflexivity.
  Qed.

  Definition sends_phase (p : opc) : nat :=
    match p with OAnnounce => 1 | OClosePeers | ODone => 2 | _ => 0 end.

  Record LInvC (s : lstate) : Prop := mkLInvC {
    c_closest : forall e, In e (l_closest s) -> elem_logged s e;
    c_final : forall e, In e (l_final s) -> elem_logged s e;
    c_final_ann : is_announce c = true -> l_final s = [] \/ (l_final s = l_closest s /\ l_stopped s = true);
    c_sends : match sends_phase (l_owner s) with
              | 0 => l_sends s = [] /\ l_final s = []
              | 1 => map strip (l_sends s) ++ flat_map keys_of (l_todo s) = flat_map keys_of (l_final s)
              | _ => map strip (l_sends s) = flat_map keys_of (l_final s)
              end;
    c_put_seq : forall r, In r (l_sends s) -> sr_seq r = (if is_announce c then 0%Z else l_autoseq s);
    c_final_late : is_announce c = true -> ann_late (l_owner s) (l_handle s) = true -> l_final s = l_closest s
  }.

  Lemma elem_logged_mono s s' e :
    (forall x, In x (l_log s) -> In x (l_log s')) -> elem_logged s e -> elem_logged s' e.
  Proof. intros Sub (q & r & I & H). exists q, r. split; [apply Sub; assumption|assumption]. Qed.

  Lemma invC_init : LInvC (l_init c).
  Proof. constructor; simpl; intros; try contradiction; try reflexivity; try (split; reflexivity); try discriminate; try (left; reflexivity). Qed.

  Lemma invC_frame s s' :
    l_closest s' = l_closest s -> l_final s' = l_final s -> l_log s' = l_log s -> l_owner s' = l_owner s ->
    l_handle s' = l_handle s -> l_sends s' = l_sends s -> l_todo s' = l_todo s -> l_autoseq s' = l_autoseq s ->
    (l_stopped s' = l_stopped s \/ l_stopped s' = true) ->
    LInvC s -> LInvC s'.
  Proof.
    intros E1 E2 E3 E4 E5 E6 E7 E8 E9 [C1 C2 C3 C4 C5 C6].
    constructor; unfold elem_logged in *; rewrite ?E1, ?E2, ?E3, ?E4, ?E5, ?E6, ?E7, ?E8; try assumption.
    intros An. destruct (C3 An) as [L|[L R]]; [left; assumption|right]. split; [assumption|].
    destruct E9 as [-> | ->]; [assumption|reflexivity].
  Qed.

  Lemma closest_elem_logged s q x e :
    LInvB s -> In x (l_inflight s) -> tq_id x = q ->
    closest_elem (tq_addr x) (tq_res x) = Some e -> elem_logged s e.
  Proof.
    intros IB Ix Eq H. unfold Lookups.closest_elem in H. destruct (tq_res x) as [r|] eqn:R; [|discriminate].
    destruct (gr_has_r r) eqn:Hr; [|discriminate]. destruct (node_ok (tq_addr x) (gr_id r)) eqn:Nk; [|discriminate].
    simpl in H. pose proof (b_res s IB x r Ix R) as L.
    unfold elem_logged, is_announce.
    destruct (lc_api c).
    - injection H as <-. exists (tq_id x), r. simpl. repeat split; try assumption. discriminate.
    - destruct (gr_token r) as [t|] eqn:T; [|discriminate]. injection H as <-. exists (tq_id x), r. simpl.
      repeat split; try assumption. intros _. assumption.
    - injection H as <-. exists (tq_id x), r. simpl. repeat split; try assumption. discriminate.
    - injection H as <-. exists (tq_id x), r. simpl. repeat split; try assumption. discriminate.
  Qed.

  Ltac cfin :=
    cbn; try assumption; try (intros _ X; discriminate); try (split; assumption);
    try (match goal with Api : lc_api _ = _ |- is_announce _ = true -> _ =>
           let X := fresh in intros X; unfold is_announce in X; rewrite Api in X; discriminate end);
    try (intros _; left; first [assumption | match goal with C : _ /\ l_final _ = [] |- _ => exact (proj2 C) end]);
    try (intros _; right; split; [reflexivity|assumption]);
    try (match goal with S0 : l_sends _ = [] |- forall r, In r _ -> _ =>
           let r := fresh in let I := fresh in intros r I; cbn in I; rewrite S0 in I; destruct I end);
    try (match goal with S0 : l_sends _ = [], F0 : l_final _ = [] |- _ => rewrite ?S0, ?F0; reflexivity end).

  Lemma keys_none l : lc_api c = AAnnounce -> lc_ann c = None -> flat_map keys_of l = [].
  Proof.
    intros Api Ann. induction l as [|e l IH]; simpl; [reflexivity|]. rewrite IH.
    unfold keys_of, announce_rec. rewrite Api, Ann. reflexivity.
  Qed.

  Ltac rwown := match goal with H : l_owner _ = _ |- _ => rewrite H in * end.

  Lemma invC_step s l : LInvA s -> LInvB s -> LInvC s -> enabled s l = true -> LInvC (step s l).
  Proof.
    intros IA IB IC En.
    destruct l;
      try (apply (invC_frame s); [..|assumption]; unfold Lookups.step; cbn; destr_all; try (left; reflexivity); try (right; reflexivity); fail).
    all: pose proof En as En'; unfold Lookups.enabled in En'; apply andb_prop in En'; destruct En' as [_ T]; boolhyps.
    all: destruct IC as [C1 C2 C3 C4 C5 C6].
    - (* OStartTrav *)
      unfold Lookups.step. rwown. constructor; cbn; try assumption; try (intros _ X; discriminate).
    - (* OGetNodes *)
      unfold Lookups.step. rwown. cbn in C4. destruct C4 as [S0 F0].
      assert (l_handle s = false) as Hh.
      { destruct (l_handle s) eqn:Hh; [|reflexivity]. destruct (a_handle s IA Hh) as [_ X]. rewrite T in X. discriminate. }
      destruct (lc_sn c); [destruct (is_announce c) eqn:?|destruct (is_announce c || repaired c)..];
        constructor; cbn; rewrite ?Hh; cfin.
    - (* OStalled *)
      unfold Lookups.step. rwown. cbn in C4.
      destruct (lc_api c); try destruct (l_got s); constructor; cfin.
    - (* OCtx *)
      unfold Lookups.step. rwown. cbn in C4. constructor; cfin.
    - (* OStopStep *)
      unfold Lookups.step. rwown. cbn in C4. destruct C4 as [S0 F0].
      destruct (lc_api c) eqn:Api; [destruct (l_err s)|..]; constructor; cfin.
    - (* OStoppedStep *)
      unfold Lookups.step. rwown. cbn in C4. destruct C4 as [S0 F0].
      destruct (lc_api c) eqn:Api; [|destruct (lc_ann c) eqn:Ann|..]; constructor; cfin.
      + rewrite S0, (keys_none _ Api Ann). reflexivity.
    - (* OSend *)
      unfold Lookups.step. rwown. cbn in C4.
      destruct (l_todo s) as [|e rest] eqn:Td; [discriminate|].
      constructor; cbn; rewrite ?H; cbn; try assumption.
      + fold (recs_of s e sent). rewrite map_app, strip_recs, <- app_assoc. simpl in C4. exact C4.
      + intros r I. apply in_app_or in I. destruct I as [I|I]; [apply C5; assumption|].
        unfold is_announce, announce_rec in *. destruct (lc_api c); try (destruct I as [<-|[]]; reflexivity).
        destruct (lc_ann c) as [[port imp]|]; [|destruct I]. destruct (Z.eqb port 0 && negb imp); [destruct I|].
        destruct I as [<-|[]]. reflexivity.
    - (* OSendsDone *)
      unfold Lookups.step. rwown. cbn in C4. rewrite H0 in C4. simpl in C4. rewrite app_nil_r in C4.
      destruct (is_announce c) eqn:An; constructor; cbn; rewrite ?An; try assumption; try (intros X; congruence);
        try (intros X _; apply C6; [assumption|reflexivity]).
    - (* OCloseP *)
      unfold Lookups.step. rwown. cbn in C4. constructor; cbn; try assumption.
      intros An _. apply C6; [assumption|reflexivity].
    - (* QReturn *)
      assert (Sub : forall x, In x (l_log s) -> In x (l_log (step s (QReturn q r)))).
      { intros x I. unfold Lookups.step. destruct (query_panics r), r; cbn; try assumption; apply in_or_app; left; assumption. }
      assert (F : l_closest (step s (QReturn q r)) = l_closest s /\ l_final (step s (QReturn q r)) = l_final s /\
                  l_owner (step s (QReturn q r)) = l_owner s /\ l_handle (step s (QReturn q r)) = l_handle s /\
                  l_sends (step s (QReturn q r)) = l_sends s /\ l_todo (step s (QReturn q r)) = l_todo s /\
                  l_autoseq (step s (QReturn q r)) = l_autoseq s /\ l_stopped (step s (QReturn q r)) = l_stopped s).
      { unfold Lookups.step. destruct (query_panics r), r; cbn; repeat split. }
      destruct F as (F1 & F2 & F3 & F4 & F5 & F6 & F7 & F8).
      constructor; rewrite ?F1, ?F2, ?F3, ?F4, ?F5, ?F6, ?F7, ?F8; try assumption.
      + intros e I. apply (elem_logged_mono s); [assumption|apply C1; assumption].
      + intros e I. apply (elem_logged_mono s); [assumption|apply C2; assumption].
    - (* QDeliver *)
      destruct (tq_at_split _ _ _ H) as (x & l1 & l2 & A & Eq & P & _ & U & _ & R & Ad).
      unfold Lookups.step, Lookups.deliver. rewrite R.
      destruct (tq_res x) as [y|]; [|apply (invC_frame s); try reflexivity; try (left; reflexivity); constructor; assumption].
      destruct (lc_api c) eqn:Api.
      + apply (invC_frame s); try reflexivity; try (left; reflexivity); constructor; assumption.
      + destruct (l_peers_closed s); apply (invC_frame s); try reflexivity; try (left; reflexivity); constructor; assumption.
      + unfold is_announce in H0. rewrite Api in H0. apply opc_eqb_eq in H0. rewrite H0 in *. cbn in C4.
        destruct (accept y); try (apply (invC_frame s); try reflexivity; try (left; reflexivity); try (cbn; symmetry; assumption); constructor; rewrite ?H0; assumption).
        * constructor; cbn; try assumption; try (intros _ X; discriminate).
      + unfold is_announce in H0. rewrite Api in H0. apply opc_eqb_eq in H0. rewrite H0 in *. cbn in C4. destruct C4 as [S0 F0].
        destruct (accept y); try (apply (invC_frame s); try reflexivity; try (left; reflexivity); constructor; rewrite ?H0; cbn; try assumption; split; assumption).
        constructor; cbn; rewrite ?H0; cbn; try assumption; try (split; assumption).
        intros r I. rewrite S0 in I. destruct I.
    - (* QFinish *)
      destruct (tq_at_split _ _ _ T) as (x & l1 & l2 & A & Eq & P & _ & _ & D & R & Ad).
      assert (Ix : In x (l_inflight s)) by (rewrite A; apply In_split3; tauto).
      unfold Lookups.step. rewrite R, Ad.
      destruct (closest_elem (tq_addr x) (tq_res x)) as [e|] eqn:CE;
        [|apply (invC_frame s); try reflexivity; try (left; reflexivity); constructor; assumption].
      pose proof (closest_elem_logged s q x e IB Ix Eq CE) as Le.
      constructor; cbn; try assumption.
      + intros e0 I. destruct (push_incl _ _ _ I) as [->|I']; [assumption|apply C1; assumption].
      + intros An. destruct (C3 An) as [L|[L Sd]]; [left; assumption|].
        exfalso. destruct (a_stopped s IA Sd) as [_ E]. rewrite E in A. destruct l1; discriminate.
      + intros An Late. exfalso. pose proof (a_ann_stopped s IA An Late) as Sd.
        destruct (a_stopped s IA Sd) as [_ E]. rewrite E in A. destruct l1; discriminate.
  Qed.

  Theorem invC_reachable s : reachable s -> LInvC s.
  Proof.
    apply reachable_ind; [apply invC_init|]. intros s0 l R I E.
    apply invC_step; [apply invA_reachable|apply invB_reachable|..]; assumption.
  Qed.

  (* ---------------------------------------------------------------- getput: the owner computes client_get / client_autoseq *)
  Notation cget := (client_get sha1 ed_verify (lc_variant c) (lc_tgt c) (lc_salt c)).
  Notation cauto := (client_autoseq sha1 ed_verify (lc_variant c) (lc_tgt c) (lc_salt c)).

  Definition pre_wait (p : opc) : bool := match p with OStart | OStartNodes => true | _ => false end.
  Definition post_wait (p : opc) : bool := match p with OStart | OStartNodes | OWait => false | _ => true end.

  Record LInvD (s : lstate) : Prop := mkLInvD {
    d_pre : pre_wait (l_owner s) = true -> l_recv s = [] /\ l_cur s = None /\ l_got s = false /\ l_autoseq s = 0%Z /\ l_err s = None;
    d_wait_err : l_owner s = OWait -> l_err s = None;
    d_get_wait : lc_api c = AGet -> l_owner s = OWait -> forall rest, cget (l_recv s ++ rest) None = cget rest (l_cur s);
    d_get_done : lc_api c = AGet -> post_wait (l_owner s) = true -> cget (l_recv s) None = COResult (l_cur s);
    d_got : lc_api c = AGet -> (l_got s = true <-> l_cur s <> None);
    d_found : lc_api c = AGet -> post_wait (l_owner s) = true -> l_err s = None -> l_got s = true;
    d_put_wait : lc_api c = APut -> l_owner s = OWait -> forall rest, cauto (l_recv s ++ rest) 0%Z = cauto rest (l_autoseq s);
    d_put_done : lc_api c = APut -> post_wait (l_owner s) = true -> cauto (l_recv s) 0%Z = Some (l_autoseq s);
    d_recv_logged : forall it, In it (l_recv s) ->
                    exists q a r, In (q, a, r) (l_log s) /\ gr_item r = it /\ gr_has_r r = true
  }.

  Lemma invD_init : LInvD (l_init c).
  Proof.
    constructor; simpl; intros; try discriminate; try contradiction; try reflexivity; try tauto.
    all: try (repeat split; reflexivity).
    all: split; [discriminate|intros N; exfalso; apply N; reflexivity].
  Qed.

  Lemma invD_frame s s' :
    l_owner s' = l_owner s -> l_recv s' = l_recv s -> l_cur s' = l_cur s -> l_got s' = l_got s ->
    l_autoseq s' = l_autoseq s -> l_err s' = l_err s -> (forall x, In x (l_log s) -> In x (l_log s')) ->
    LInvD s -> LInvD s'.
  Proof.
    intros E1 E2 E3 E4 E5 E6 Sub [D1 D2 D3 D4 D5 D6 D7 D8 D9].
    constructor; rewrite ?E1, ?E2, ?E3, ?E4, ?E5, ?E6; try assumption.
    intros it I. destruct (D9 it I) as (q & a & r & L & H). exists q, a, r. split; [apply Sub; assumption|assumption].
  Qed.

  Ltac dfin :=
    try assumption; intros; try discriminate; try reflexivity; try assumption; try contradiction; try tauto;
    try (match goal with H : In _ [] |- _ => destruct H end).

  Ltac dmore D3 D4 D5 D6 D7 D8 :=
    try congruence;
    try (match goal with G : l_got _ = _ |- _ => rewrite G end); try reflexivity;
    try (rewrite <- (app_nil_r (l_recv _)); first [rewrite (D3 eq_refl eq_refl []) | rewrite (D7 eq_refl eq_refl [])]; reflexivity);
    try (apply D4; first [assumption|reflexivity]); try (apply D6; first [assumption|reflexivity]);
    try (apply D8; first [assumption|reflexivity]); try (apply D5; first [assumption|reflexivity]).

  Lemma invD_step s l : LInvB s -> LInvD s -> enabled s l = true -> LInvD (step s l).
  Proof.
    intros IB ID En.
    destruct l;
      try (apply (invD_frame s); [..|assumption]; unfold Lookups.step; cbn; destr_all; try (intros x I; exact I); fail).
    all: pose proof En as En'; unfold Lookups.enabled in En'; apply andb_prop in En'; destruct En' as [_ T]; boolhyps.
    all: pose proof ID as ID0; destruct ID as [D1 D2 D3 D4 D5 D6 D7 D8 D9].
    - (* OStartTrav *)
      unfold Lookups.step. rwown. cbn in *. constructor; cbn; dfin.
    - (* OGetNodes *)
      unfold Lookups.step. rwown. cbn in *. destruct (D1 eq_refl) as (R0 & C0 & G0 & A0 & E0).
      destruct (lc_sn c); [destruct (is_announce c)|destruct (is_announce c || repaired c)..];
        constructor; cbn; rewrite ?R0, ?C0, ?G0, ?A0, ?E0; dfin.
    - (* OStalled *)
      unfold Lookups.step. rwown. cbn in *.
      destruct (lc_api c) eqn:Api; try destruct (l_got s) eqn:Got;
        constructor; cbn; dfin; dmore D3 D4 D5 D6 D7 D8.
    - (* OCtx *)
      unfold Lookups.step. rwown. cbn in *.
      destruct (lc_api c) eqn:Api; constructor; cbn; dfin; dmore D3 D4 D5 D6 D7 D8.
    - (* OStopStep *)
      unfold Lookups.step. rwown. cbn in *.
      destruct (lc_api c) eqn:Api; [destruct (l_err s)|..]; constructor; cbn; dfin; dmore D3 D4 D5 D6 D7 D8.
    - (* OStoppedStep *)
      unfold Lookups.step. rwown. cbn in *.
      destruct (lc_api c) eqn:Api; [|destruct (lc_ann c)|..]; constructor; cbn; dfin; dmore D3 D4 D5 D6 D7 D8.
    - (* OSendsDone *)
      unfold Lookups.step. rwown. cbn in *. unfold is_announce.
      destruct (lc_api c) eqn:Api; constructor; cbn; dfin; dmore D3 D4 D5 D6 D7 D8.
    - (* OCloseP *)
      unfold Lookups.step. rwown. cbn in *.
      destruct (lc_api c) eqn:Api; constructor; cbn; dfin; dmore D3 D4 D5 D6 D7 D8.
    - (* QReturn *)
      apply (invD_frame s); try (unfold Lookups.step; destruct (query_panics r), r; reflexivity); [|exact ID0].
      intros x I. unfold Lookups.step. destruct (query_panics r), r; cbn; try assumption; apply in_or_app; left; assumption.
    - (* QDeliver *)
      destruct (tq_at_split _ _ _ H) as (x & l1 & l2 & A & Eq & P & _ & U & _ & R & Ad).
      assert (Ix : In x (l_inflight s)) by (rewrite A; apply In_split3; tauto).
      destruct (b_deliver_res s IB x Ix P) as (y & Ry & Hy).
      pose proof (b_res s IB x y Ix Ry) as Ly.
      unfold Lookups.step, Lookups.deliver. rewrite R, Ry.
      destruct (lc_api c) eqn:Api.
      + apply (invD_frame s); try reflexivity; [tauto|exact ID0].
      + destruct (l_peers_closed s); apply (invD_frame s); try reflexivity; try tauto; exact ID0.
      + (* Get *)
        unfold is_announce in H0. rewrite Api in H0. apply opc_eqb_eq in H0.
        assert (Hlog : forall it, In it (l_recv s ++ [gr_item y]) ->
                        exists q0 a r, In (q0, a, r) (l_log s) /\ gr_item r = it /\ gr_has_r r = true).
        { intros it I. apply in_app_or in I. destruct I as [I|[<-|[]]]; [apply D9; assumption|].
          exists (tq_id x), (tq_addr x), y. repeat split; assumption. }
        destruct (accept y) as [|g|g|] eqn:Acc; try (apply (invD_frame s); try reflexivity; [tauto|exact ID0]).
        * (* immutable: ends the wait *)
          constructor; cbn; intros; try discriminate; try assumption; try reflexivity; try congruence.
          -- rewrite (D3 eq_refl H0 [gr_item y]). cbn [Bep44.client_get]. unfold Lookups.accept in Acc. rewrite Acc. reflexivity.
          -- split; [intros _; discriminate|intros _; reflexivity].
          -- apply Hlog. assumption.
        * (* mutable: running maximum *)
          constructor; cbn; rewrite ?H0; intros; try discriminate; try assumption; try congruence.
          -- apply D2. assumption.
          -- rewrite <- app_assoc. simpl. rewrite (D3 eq_refl H0 (gr_item y :: rest)).
             cbn [Bep44.client_get]. unfold Lookups.accept in Acc. rewrite Acc. reflexivity.
          -- split; [intros _|intros _; reflexivity].
             destruct (l_cur s) as [cur|]; [destruct (Z.leb (res_seq cur) (res_seq g))|]; discriminate.
          -- apply Hlog. assumption.
      + (* Put *)
        unfold is_announce in H0. rewrite Api in H0. apply opc_eqb_eq in H0.
        assert (Hlog : forall it, In it (l_recv s ++ [gr_item y]) ->
                        exists q0 a r, In (q0, a, r) (l_log s) /\ gr_item r = it /\ gr_has_r r = true).
        { intros it I. apply in_app_or in I. destruct I as [I|[<-|[]]]; [apply D9; assumption|].
          exists (tq_id x), (tq_addr x), y. repeat split; assumption. }
        destruct (accept y) as [|g|g|] eqn:Acc; try (apply (invD_frame s); try reflexivity; [tauto|exact ID0]).
        * constructor; cbn; rewrite ?H0; intros; try discriminate; try assumption; try congruence.
          -- apply D2. assumption.
          -- rewrite <- app_assoc. simpl. rewrite (D7 eq_refl H0 (gr_item y :: rest)).
             cbn [Bep44.client_autoseq]. unfold Lookups.accept in Acc. rewrite Acc. reflexivity.
          -- apply Hlog. assumption.
        * constructor; cbn; rewrite ?H0; intros; try discriminate; try assumption; try congruence.
          -- apply D2. assumption.
          -- rewrite <- app_assoc. simpl. rewrite (D7 eq_refl H0 (gr_item y :: rest)).
             cbn [Bep44.client_autoseq]. unfold Lookups.accept in Acc. rewrite Acc. reflexivity.
          -- apply Hlog. assumption.
  Qed.

  Theorem invD_reachable s : reachable s -> LInvD s.
  Proof.
    apply reachable_ind; [apply invD_init|]. intros s0 l R I E. apply invD_step; [apply invB_reachable|..]; assumption.
  Qed.

  (* ================================================================ C16 *)
  Lemma in_prefix_app {A} (x : A) (l1 l2 l : list A) : l1 ++ l2 = l -> In x l1 -> In x l.
  Proof. intros <- I. apply in_or_app. left. assumption. Qed.

  (* every announce_peer query issued: destination, token, infohash, port / implied flag *)
  Theorem announce_tokens s sr :
    reachable s -> is_announce c = true -> In sr (l_sends s) ->
    l_stopped s = true /\ l_final s = l_closest s /\
    exists e, In e (l_closest s) /\
      sr_dest sr = e_addr e /\ sr_token sr = e_data e /\ sr_ih sr = lc_target c /\
      lc_ann c = Some (sr_port sr, sr_implied sr) /\
      exists q r, In (q, sr_dest sr, r) (l_log s) /\ gr_has_r r = true /\ gr_id r = e_id e /\
                  gr_token r = Some (sr_token sr).
  Proof.
    intros R An I.
    destruct (invC_reachable s R) as [C1 C2 C3 C4 C5 C6].
    assert (Hin : In (strip sr) (flat_map keys_of (l_final s))).
    { destruct (sends_phase (l_owner s)) as [|[|n]].
      - destruct C4 as [S0 _]. rewrite S0 in I. destruct I.
      - apply (in_prefix_app _ _ _ _ C4). apply in_map. assumption.
      - rewrite <- C4. apply in_map. assumption. }
    apply in_flat_map in Hin. destruct Hin as (e & Ie & Ik).
    destruct (C3 An) as [F0|[Fc Sd]]; [rewrite F0 in Ie; destruct Ie|].
    split; [assumption|]. split; [assumption|].
    exists e. rewrite <- Fc. split; [assumption|].
    destruct (C2 e Ie) as (q & r & L & Hr & Hid & _ & Tok). specialize (Tok An).
    unfold keys_of, announce_rec, is_announce in *. destruct (lc_api c); try discriminate.
    destruct (lc_ann c) as [[port imp]|]; [|destruct Ik].
    destruct (Z.eqb port 0 && negb imp); [destruct Ik|]. destruct Ik as [E|[]].
    unfold strip in E. simpl in E. injection E as E1 E2 E3 E4 E5.
    repeat split; try congruence.
    exists q, r. rewrite <- E1, <- E2. repeat split; assumption.
  Qed.

  Lemma keys_of_announce port imp l :
    lc_api c = AAnnounce -> lc_ann c = Some (port, imp) -> (Z.eqb port 0 && negb imp) = false ->
    flat_map keys_of l = map (fun e => (e_addr e, e_data e, lc_target c, port, imp)) l.
  Proof.
    intros A B C. induction l as [|e l IH]; simpl; [reflexivity|]. rewrite IH.
    unfold keys_of, announce_rec. rewrite A, B, C. reflexivity.
  Qed.

  Lemma keys_of_silent l : lc_api c = AAnnounce -> announcing c = false -> flat_map keys_of l = [].
  Proof.
    intros A NA. unfold announcing in NA. induction l as [|e l IH]; simpl; [reflexivity|]. rewrite IH.
    unfold keys_of, announce_rec. rewrite A. destruct (lc_ann c) as [[port imp]|]; [|reflexivity].
    apply negb_false_iff in NA. rewrite NA. reflexivity.
  Qed.

  (* announcing enabled and the announce finished: exactly one announce_peer per member of the final
     closest set, in its order, with that member's address and data *)
  Theorem announce_all_closest s :
    reachable s -> is_announce c = true -> l_handle s = true -> owner_done s = true ->
    l_final s = l_closest s /\ l_stopped s = true /\
    map strip (l_sends s) = flat_map keys_of (l_closest s) /\
    (forall port imp, lc_ann c = Some (port, imp) -> (Z.eqb port 0 && negb imp) = false ->
       map strip (l_sends s) = map (fun e => (e_addr e, e_data e, lc_target c, port, imp)) (l_closest s)) /\
    (announcing c = false -> l_sends s = []).
  Proof.
    intros R An Hd Dn. unfold owner_done in Dn. apply opc_eqb_eq in Dn.
    pose proof (invA_reachable s R) as IA.
    destruct (invC_reachable s R) as [C1 C2 C3 C4 C5 C6].
    rewrite Dn in C4. simpl in C4.
    assert (Sd : l_stopped s = true).
    { apply (a_ann_stopped s IA An). unfold ann_late. rewrite Dn, Hd. reflexivity. }
    assert (Fc : l_final s = l_closest s).
    { apply C6; [assumption|]. unfold ann_late. rewrite Dn, Hd. reflexivity. }
    rewrite Fc in C4. repeat split; try assumption.
    - intros port imp Ann NZ. rewrite C4. apply keys_of_announce; try assumption.
      unfold is_announce in An. destruct (lc_api c); try discriminate. reflexivity.
    - intros NA. rewrite keys_of_silent in C4; [|unfold is_announce in An; destruct (lc_api c); try discriminate; reflexivity|assumption].
      destruct (l_sends s); [reflexivity|discriminate].
  Qed.

  (* a delivery is given up only by an announce that has been closed (repaired variant); never as found *)
  Lemma abandoned_closed s :
    reachable s -> is_announce c = true -> l_abandoned s <> [] -> lc_abandon_closed c = true /\ l_aclosed s = true.
  Proof.
    intros R An. revert s R.
    apply (reachable_ind (fun s => l_abandoned s <> [] -> lc_abandon_closed c = true /\ l_aclosed s = true)).
    - simpl. intros N. exfalso. apply N. reflexivity.
    - intros s l R IH En.
      pose proof (invA_reachable s R) as IA.
      assert (Mono : l_aclosed s = true -> l_aclosed (step s l) = true).
      { intros H. pose proof (aclosed_mono s l H) as M. unfold Lookups.step_en in M. rewrite En in M. exact M. }
      destruct l;
        try (match goal with |- l_abandoned ?t <> [] -> _ =>
               assert (F : l_abandoned t = l_abandoned s)
                 by (unfold Lookups.step, Lookups.deliver; cbn;
                     repeat match goal with |- context [match ?x with _ => _ end] => destruct x; cbn end; reflexivity);
               rewrite F; intros N; destruct (IH N) as [A B]; split; [exact A|apply Mono; exact B] end).
      (* QAbandon *)
      intros _. unfold Lookups.enabled in En. apply andb_prop in En. destruct En as [_ En].
      apply andb_prop in En. destruct En as [T Who]. rewrite An in Who.
      destruct (lc_abandon_closed c) eqn:Fl.
      + split; [reflexivity|]. unfold Lookups.step. cbn. exact Who.
      + exfalso. destruct (tq_at_split _ _ _ T) as (x & l1 & l2 & A & _).
        destruct (a_stopped s IA Who) as [_ E]. rewrite E in A. destruct l1; discriminate.
  Qed.

  (* delivery on the Peers channel *)
  Theorem announce_delivery s :
    reachable s -> is_announce c = true ->
    (* what the consumer received is a response of this traversal, with the responder's address and id *)
    (forall q a i p, In (q, a, i, p) (l_delivered s) ->
       exists r, In (q, a, r) (l_log s) /\ gr_has_r r = true /\ i = gr_id r /\ p = gr_payload r) /\
    (* never twice *)
    NoDup (del_ids s) /\
    (* a response is on its way to the consumer, delivered, or -- D10 repair only, and only once the
       announce has been CLOSED -- given up; StopTraversing alone never drops a response *)
    (forall q a r, In (q, a, r) (l_log s) -> gr_has_r r = true ->
       (exists x, In x (l_inflight s) /\ tq_id x = q /\ tq_phase x = PDeliver) \/
       In (q, a, gr_id r, gr_payload r) (l_delivered s) \/ In q (l_abandoned s)) /\
    (l_abandoned s <> [] -> lc_abandon_closed c = true /\ l_aclosed s = true) /\
    (* once the traversal is stopped every response has been dealt with: delivered, unless closed *)
    (l_stopped s = true -> forall q a r, In (q, a, r) (l_log s) -> gr_has_r r = true ->
       In (q, a, gr_id r, gr_payload r) (l_delivered s) \/ (In q (l_abandoned s) /\ l_aclosed s = true)).
  Proof.
    intros R An. pose proof (invA_reachable s R) as IA. pose proof (invB_reachable s R) as IB.
    split; [exact (b_delivered s IB)|]. split; [exact (b_del_nodup s IB)|]. split; [exact (b_status s IB An)|].
    split; [exact (abandoned_closed s R An)|].
    intros Sd q a r I Hr. destruct (b_status s IB An q a r I Hr) as [(x & Ix & _)|[H|H]].
    - destruct (a_stopped s IA Sd) as [_ E]. rewrite E in Ix. destruct Ix.
    - left. exact H.
    - right. split; [exact H|]. apply (abandoned_closed s R An). intros E. rewrite E in H. destruct H.
  Qed.

  (* closing of the Peers channel *)
  Theorem announce_close s :
    reachable s -> is_announce c = true ->
    l_panic s = false /\                                           (* no send on the closed channel, ever *)
    (l_peers_closed s = true ->
       owner_done s = true /\ l_stopped s = true /\ l_inflight s = [] /\ l_todo s = [] /\
       (forall q, enabled s (QDeliver q) = false)) /\
    (l_handle s = true -> owner_done s = true -> l_peers_closed s = true).
  Proof.
    intros R An. pose proof (invA_reachable s R) as IA. split; [|split].
    - destruct (l_panic s) eqn:P; [|reflexivity]. destruct (a_no_panic s IA P) as [G _].
      unfold is_announce, is_getput in *. destruct (lc_api c); discriminate.
    - intros PC. destruct (a_peers_closed s IA PC) as (D & Sd & _). destruct (a_stopped s IA Sd) as [_ Inf].
      repeat split; try assumption.
      + pose proof (a_todo s IA) as T. unfold todo_ok in T. apply opc_eqb_eq in D. rewrite D in T. simpl in T.
        rewrite orb_false_r in T. apply nil_b_eq. assumption.
      + intros q. unfold Lookups.enabled, tq_at. rewrite Inf. simpl. rewrite andb_false_r. reflexivity.
    - intros Hd D. apply (a_ann_done s IA An). unfold owner_done in D. rewrite D, Hd. reflexivity.
  Qed.

  (* liveness of the announce: with the consumer reading (or the D10 repair and the announce stopping)
     every maximal run of internal events closes the Peers channel; a run exists and none is infinite *)
  Theorem announce_finishes s :
    reachable s -> is_announce c = true -> l_handle s = true ->
    (l_reads s = true \/ (lc_abandon_closed c = true /\ l_aclosed s = true)) ->
    exists ls, forallb internal ls = true /\ path_ok s ls = true /\ length ls <= lmu s /\
               l_peers_closed (exec s ls) = true /\ all_done (exec s ls) = true.
  Proof.
    intros R An Hd Lv.
    assert (live s) as L by (split; [unfold stops_ok; rewrite An; reflexivity|intros _; exact Lv]).
    destruct (lookup_ends s R L) as (ls & I & _ & P & D & Len).
    exists ls. repeat split; try assumption.
    assert (reachable (exec s ls)) as R' by (apply reachable_exec; assumption).
    pose proof (invA_reachable _ R') as IA'.
    apply (a_ann_done _ IA' An).
    unfold Lookups.all_done in D. repeat (apply andb_prop in D; destruct D as [D ?]).
    unfold owner_done in D. rewrite D. simpl.
    (* the handle is never taken back *)
    assert (forall ls s0, l_handle s0 = true -> l_handle (exec s0 ls) = true) as HM.
    { clear. induction ls as [|l ls IH]; intros s0 H0; simpl; [assumption|]. apply IH.
      unfold Lookups.step_en. destruct (enabled s0 l); [|assumption].
      destruct l; unfold Lookups.step, Lookups.deliver; cbn; try assumption; destr_all; try assumption. }
    apply HM. assumption.
  Qed.

  (* ================================================================ C12, client side *)
  Theorem get_result_is_client_get s :
    reachable s -> lc_api c = AGet -> owner_done s = true ->
    cget (l_recv s) None = COResult (l_cur s) /\
    (l_err s = None -> l_cur s <> None) /\
    (forall it, In it (l_recv s) -> exists q a r, In (q, a, r) (l_log s) /\ gr_item r = it /\ gr_has_r r = true).
  Proof.
    intros R Api D. destruct (invD_reachable s R) as [D1 D2 D3 D4 D5 D6 D7 D8 D9].
    unfold owner_done in D. apply opc_eqb_eq in D.
    split; [apply D4; [assumption|rewrite D; reflexivity]|]. split; [|assumption].
    intros E. apply (D5 Api). apply D6; [assumption|rewrite D; reflexivity|assumption].
  Qed.

  Theorem put_seq_is_client_autoseq s :
    reachable s -> lc_api c = APut -> owner_done s = true ->
    cauto (l_recv s) 0%Z = Some (l_autoseq s) /\
    (forall r, In r (l_sends s) -> sr_seq r = l_autoseq s) /\
    (forall it, In it (l_recv s) -> exists q a r, In (q, a, r) (l_log s) /\ gr_item r = it /\ gr_has_r r = true).
  Proof.
    intros R Api D. destruct (invD_reachable s R) as [D1 D2 D3 D4 D5 D6 D7 D8 D9].
    destruct (invC_reachable s R) as [C1 C2 C3 C4 C5 C6].
    unfold owner_done in D. apply opc_eqb_eq in D.
    split; [apply D8; [assumption|rewrite D; reflexivity]|]. split; [|assumption].
    intros r I. rewrite (C5 r I). unfold is_announce. rewrite Api. reflexivity.
  Qed.

  (* ... hence (Bep44Proofs): the value Get hands to its caller is vouched for by the requested target, comes
     from a reply of this traversal, and has the greatest seq among all accepted mutable values that
     reached the owner *)
  Theorem get_result_sound s g :
    reachable s -> lc_api c = AGet -> owner_done s = true -> l_cur s = Some g ->
    vouched sha1 ed_verify (lc_tgt c) (lc_salt c) g /\
    (exists q a r, In (q, a, r) (l_log s) /\ gr_has_r r = true /\ res_v g = Bep44.r_v (gr_item r) /\ res_sig g = Bep44.r_sig (gr_item r)) /\
    (res_mutable g = true -> forall it g', In it (l_recv s) ->
       client_accept sha1 ed_verify (lc_variant c) (lc_tgt c) (lc_salt c) it = AccMut g' -> (res_seq g' <= res_seq g)%Z).
  Proof.
    intros R Api D Cur. destruct (get_result_is_client_get s R Api D) as (E & _ & L). rewrite Cur in E.
    destruct (client_get_sound sha1 ed_verify _ _ _ _ _ E) as (V & it & I & Ev & Es).
    split; [exact V|]. split.
    - destruct (L it I) as (q & a & r & Il & <- & Hr). exists q, a, r. repeat split; assumption.
    - intros M. exact (client_get_max sha1 ed_verify _ _ _ _ _ E M).
  Qed.

  (* the seq Put asks seqToPut for bounds every accepted mutable seq that reached it, and is one of them (or 0) *)
  Theorem put_seq_sound s :
    reachable s -> lc_api c = APut -> owner_done s = true ->
    (0 <= l_autoseq s)%Z /\
    (forall it g, In it (l_recv s) -> client_accept sha1 ed_verify (lc_variant c) (lc_tgt c) (lc_salt c) it = AccMut g ->
       (res_seq g <= l_autoseq s)%Z) /\
    (l_autoseq s = 0%Z \/ exists it g, In it (l_recv s) /\
       client_accept sha1 ed_verify (lc_variant c) (lc_tgt c) (lc_salt c) it = AccMut g /\ res_seq g = l_autoseq s) /\
    (forall r, In r (l_sends s) -> sr_seq r = l_autoseq s).
  Proof.
    intros R Api D. destruct (put_seq_is_client_autoseq s R Api D) as (E & S & _).
    destruct (client_autoseq_spec sha1 ed_verify _ _ _ _ _ _ E) as (A & B & C).
    repeat split; try assumption; try lia.
  Qed.

  (* the repaired client never dies on a reply *)
  Theorem repaired_no_panic s : reachable s -> lc_variant c = Repaired -> l_panic s = false.
  Proof.
    intros R V. destruct (l_panic s) eqn:P; [|reflexivity].
    destruct (a_no_panic s (invA_reachable s R) P) as [_ V']. congruence.
  Qed.

  (* ================================================================ the leak of the pinned tree (D8) is for good *)
  Lemma leak_forever ls : forall s,
    opc_eqb (l_owner s) ODone = true -> l_handle s = false -> l_stopping s = false -> l_loop_exited s = false ->
    let s' := exec s ls in
    opc_eqb (l_owner s') ODone = true /\ l_stopping s' = false /\ l_loop_exited s' = false.
  Proof.
    induction ls as [|l ls IH]; intros s O H St Le; simpl; [repeat split; assumption|].
    assert (opc_eqb (l_owner (step_en s l)) ODone = true /\ l_handle (step_en s l) = false /\
            l_stopping (step_en s l) = false /\ l_loop_exited (step_en s l) = false) as (A & B & C & D).
    { unfold Lookups.step_en. destruct (enabled s l) eqn:E; [|repeat split; assumption].
      pose proof O as O'. apply opc_eqb_eq in O'.
      unfold Lookups.enabled in E. apply andb_prop in E. destruct E as [_ E].
      unfold Lookups.step, Lookups.deliver, is_announce in *.
      destruct (lc_api c) eqn:Api; destruct l; boolhyps; try congruence; try (rewrite O' in *; discriminate).
      all: cbn; destr_all; rewrite ?O, ?O', ?H, ?St, ?Le; repeat split; try reflexivity; try assumption. }
    apply IH; assumption.
  Qed.

  (* ================================================================ a consumer that stopped reading, a response waiting *)
  (* The state: a get_peers response sits in its getPeers, nobody receives from Peers, and the branch that
     would give the delivery up is not (yet) open -- announce.go as found: never (it waits for Stopped(),
     which waits for this delivery: finding D10); repaired: not before Close(). *)
  Definition blocked_state (s : lstate) : Prop :=
    is_announce c = true /\ (lc_abandon_closed c = false \/ l_aclosed s = false) /\ l_reads s = false /\
    l_stopped s = false /\ l_peers_closed s = false /\ exists x, In x (l_inflight s) /\ tq_phase x = PDeliver.

  Definition is_close (l : label) : bool := match l with EClose => true | _ => false end.

  Lemma blocked_step s l :
    LInvA s -> LInvB s -> (lc_abandon_closed c = false \/ is_close l = false) ->
    blocked_state s -> blocked_state (step_en s l).
  Proof.
    intros IA IB Hc (An & Ab & Rd & Sd & Pc & x & Ix & Px).
    unfold Lookups.step_en. destruct (enabled s l) eqn:E; [|repeat split; try assumption; exists x; tauto].
    pose proof E as E'. unfold Lookups.enabled in E'. apply andb_prop in E'. destruct E' as [_ E'].
    assert (K : forall s', l_aclosed s' = l_aclosed s -> l_reads s' = l_reads s -> l_stopped s' = l_stopped s ->
                           l_peers_closed s' = l_peers_closed s ->
                           (forall y, In y (l_inflight s) -> tq_phase y = PDeliver -> exists y', In y' (l_inflight s') /\ tq_phase y' = PDeliver) ->
                           blocked_state s').
    { intros s' E0 E1 E2 E3 E4. split; [exact An|]. split; [destruct Ab as [Ab|Ab]; [left; exact Ab|right; congruence]|].
      repeat split; try congruence. destruct (E4 x Ix Px) as (y' & Iy & Py). exists y'. tauto. }
    assert (Same : forall s', l_inflight s' = l_inflight s ->
                   forall y, In y (l_inflight s) -> tq_phase y = PDeliver -> exists y', In y' (l_inflight s') /\ tq_phase y' = PDeliver).
    { intros s' Ei y Iy Py. exists y. rewrite Ei. tauto. }
    destruct l; unfold Lookups.step.
    all: try (apply K; cbn; destr_all; try reflexivity; apply Same; cbn; destr_all; reflexivity).
    - (* OCloseP: impossible, the owner cannot have passed Stopped *)
      exfalso. apply opc_eqb_eq in E'. pose proof (a_ann_stopped s IA An) as X. unfold ann_late in X. rewrite E' in X.
      simpl in X. rewrite ?orb_true_r in X. specialize (X eq_refl). congruence.
    - (* TIssue *)
      apply K; cbn; try reflexivity. intros y Iy Py. exists y. split; [apply in_or_app; left; assumption|assumption].
    - (* TStopWait *)
      exfalso. boolhyps. rewrite H0 in Ix. destruct Ix.
    - (* QReturn *)
      destruct (tq_at_split _ _ _ E') as (z & l1 & l2 & A & Eq & Pz & _ & U & _).
      apply K; try (destruct (query_panics r), r; reflexivity).
      intros y Iy Py. exists y. split; [|assumption].
      assert (In y (l1 ++ tq_returned (after_query r) r z :: l2)) as G.
      { rewrite A in Iy. apply In_split3 in Iy. apply In_split3. destruct Iy as [?|[->|?]]; try tauto. congruence. }
      destruct (query_panics r), r; cbn; rewrite U; exact G.
    - (* QDeliver: disabled, nobody reads *)
      exfalso. boolhyps. rewrite An, Rd in H0. discriminate.
    - (* QAbandon: disabled: Stopped cannot come, and Close has not come *)
      exfalso. boolhyps. rewrite An in H0. destruct Ab as [Fl|Ac].
      + rewrite Fl, Sd in H0. discriminate.
      + destruct (lc_abandon_closed c); congruence.
    - (* QFinish *)
      destruct (tq_at_split _ _ _ E') as (z & l1 & l2 & A & Eq & Pz & _ & _ & D & _).
      apply K; try (destruct (closest_elem (addr_of s q) (res_of s q)); reflexivity).
      intros y Iy Py. exists y. split; [|assumption].
      assert (In y (l1 ++ l2)) as G.
      { rewrite A in Iy. apply In_split3 in Iy. apply in_or_app. destruct Iy as [?|[->|?]]; try tauto. congruence. }
      destruct (closest_elem (addr_of s q) (res_of s q)); cbn; rewrite D; exact G.
    - (* EClose: only on the tree as found does it change nothing *)
      destruct Hc as [Fl|Nc]; [|discriminate Nc].
      exact (conj An (conj (or_introl Fl) (conj Rd (conj Sd (conj Pc (ex_intro _ x (conj Ix Px))))))).
    - (* EConsumerStop *)
      exfalso. rewrite Rd in E'. discriminate.
  Qed.

  (* as found: for ever, whatever happens (Close() included).  Repaired: for as long as Close() is not
     called -- which is the contract: StopTraversing alone does not release the consumer from reading. *)
  Theorem blocked_forever ls : forall s, reachable s -> blocked_state s ->
    (lc_abandon_closed c = false \/ forallb (fun l => negb (is_close l)) ls = true) ->
    l_peers_closed (exec s ls) = false /\ owner_done (exec s ls) = false /\ blocked_state (exec s ls).
  Proof.
    induction ls as [|l ls IH]; intros s R B Hc; simpl.
    - pose proof B as B0. destruct B as (An & _ & _ & Sd & Pc & x & Ix & _). split; [assumption|]. split; [|assumption].
      pose proof (invA_reachable s R) as IA. destruct (owner_done s) eqn:D; [|reflexivity].
      (* a returned owner with the handle out would have closed the channel; without a handle the
         traversal was never seeded, so nothing could be waiting for the consumer *)
      exfalso. destruct (seeded c s) eqn:Se.
      + pose proof (a_handle_ok s IA An Se) as Hd.
        assert (l_peers_closed s = true) by (apply (a_ann_done s IA An); unfold owner_done in D; rewrite D, Hd; reflexivity).
        congruence.
      + rewrite (a_seeded s IA Se) in Ix. destruct Ix.
    - apply IH; [apply reachable_step; assumption| |].
      + apply blocked_step; [apply invA_reachable|apply invB_reachable| |]; try assumption.
        destruct Hc as [Fl|Hc]; [left; exact Fl|right]. simpl in Hc. apply andb_prop in Hc. destruct Hc as [Hc _].
        apply negb_true_iff in Hc. exact Hc.
      + destruct Hc as [Fl|Hc]; [left; exact Fl|right]. simpl in Hc. apply andb_prop in Hc. tauto.
  Qed.
End LookupsProofs.

(* ==================================================================== the executable container *)
Lemma lk_insert_incl t e l x : In x (lk_insert t e l) -> x = e \/ In x l.
Proof.
  induction l as [|y r IH]; simpl; [intros [<-|[]]; left; reflexivity|].
  destruct (lk_cmp t e y); simpl.
  - intros [<-|I]; [left; reflexivity|right; right; assumption].
  - intros [<-|I]; [left; reflexivity|right; assumption].
  - intros [<-|I]; [right; left; reflexivity|]. destruct (IH I) as [->|I']; [left; reflexivity|right; right; assumption].
Qed.

Lemma lk_insert_len t e l : length (lk_insert t e l) <= S (length l).
Proof. induction l as [|y r IH]; simpl; [lia|]. destruct (lk_cmp t e y); simpl; lia. Qed.

Lemma firstn_In {A} n (l : list A) x : In x (firstn n l) -> In x l.
Proof. revert l. induction n; intros [|y l]; simpl; try tauto. intros [<-|I]; [left; reflexivity|right; apply IHn; assumption]. Qed.

Lemma lk_push_incl t k l e x : In x (lk_push t k l e) -> x = e \/ In x l.
Proof. intros I. apply firstn_In in I. apply (lk_insert_incl t e l x I). Qed.

Lemma lk_push_len t k l e : length (lk_push t k l e) <= S (length l).
Proof. unfold lk_push. rewrite firstn_length. pose proof (lk_insert_len t e l). lia. Qed.
