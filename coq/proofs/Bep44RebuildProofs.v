(* Bep44RebuildProofs.v — the store wrapper over an underlying Store that rebuilds items
   (model/Bep44Rebuild.v).

   Main facts
     kseq_step_plain               a store that keeps the stamp is the store of Bep44.v
     wrapper_put_k_result          the decision of a put (accepted / 301 / 302 / 205..207) does not depend
                                   on whether the store keeps the stamp
     wrapper_put_k_mono, kseq_step_mono
                                   the C13 step theorem (the stored seq never decreases) for every kind
     wrapper_get_k_forgotten       an item handed back without its stamp counts as expired for every
                                   expiry a time.Duration can hold, at every time from 1970 on: it is not
                                   served and it is deleted
     kseq_step_never_serves, kseq_run_never_serves
                                   over a store that forgets the stamp no get (API or wire) of any history
                                   ever hands out an item: in particular none older than the expiry *)
From Dht Require Import Base Bep44 Bep44Rebuild Bep44Proofs.
From DhtGen Require Import Params.
Local Open Scope Z_scope.

Lemma store_del_absent t s : store_get t s = None -> store_del t s = s.
Proof.
  induction s as [|[t' i] r IH]; [reflexivity|]. cbn [store_get store_del].
  destruct (bytes_eqb t t'); [discriminate|]. intros H. rewrite (IH H). reflexivity.
Qed.

Lemma check_incoming_forget v st i : check_incoming v (forget st) i = check_incoming v st i.
Proof. reflexivity. Qed.

Lemma seq_of_put_forget t t' i s :
  seq_of t' (store_put t (forget i) s) = seq_of t' (store_put t i s).
Proof.
  unfold seq_of. rewrite !store_get_put. destruct (bytes_eqb t' t); reflexivity.
Qed.

Lemma all_forgotten_nil : all_forgotten [].
Proof. intros t i H. discriminate. Qed.

Lemma all_forgotten_del t s : all_forgotten s -> all_forgotten (store_del t s).
Proof.
  intros Hs t' j. rewrite store_get_del. destruct (bytes_eqb t' t); [discriminate|apply Hs].
Qed.

Lemma all_forgotten_put t i s : all_forgotten s -> all_forgotten (store_put t (forget i) s).
Proof.
  intros Hs t' j. rewrite store_get_put. destruct (bytes_eqb t' t).
  - intros H. injection H as <-. reflexivity.
  - apply Hs.
Qed.

Section RebuildProofs.
  Variable sha1 : bytes -> bytes.
  Variable ed_verify : bytes -> bytes -> bytes -> bool.

  Notation target := (target sha1).
  Notation check := (check ed_verify).
  Notation wrapper_put := (wrapper_put sha1 ed_verify).
  Notation wrapper_put_k := (wrapper_put_k sha1 ed_verify).
  Notation handle_put_k := (handle_put_k sha1 ed_verify).
  Notation server_put_local_k := (server_put_local_k sha1 ed_verify).
  Notation seq_step := (seq_step sha1 ed_verify).
  Notation kseq_step := (kseq_step sha1 ed_verify).
  Notation kseq_run := (kseq_run sha1 ed_verify).

  (* ---- a store that keeps the stamp: the model of Bep44.v ---- *)
  Theorem wrapper_put_k_plain v now i s : wrapper_put_k plain_kind v now i s = wrapper_put v now i s.
  Proof. reflexivity. Qed.

  Theorem wrapper_get_k_plain exp now t s : wrapper_get_k plain_kind exp now t s = wrapper_get exp now t s.
  Proof. reflexivity. Qed.

  Theorem kseq_step_plain v exp st e : kseq_step plain_kind v exp st e = seq_step v exp st e.
  Proof. destruct e; reflexivity. Qed.

  (* ---- Wrapper.Put over any kind of store ---- *)
  Lemma kstore_get_none k t s : kstore_get k t s = None <-> store_get t s = None.
  Proof.
    unfold kstore_get. destruct (k_forget_get k); [|tauto].
    destruct (store_get t s); cbn [option_map]; split; intros H; try discriminate; reflexivity.
  Qed.

  Lemma kstore_get_some k t s st :
    kstore_get k t s = Some st -> exists st0, store_get t s = Some st0 /\ (st = st0 \/ st = forget st0).
  Proof.
    unfold kstore_get. destruct (k_forget_get k).
    - destruct (store_get t s) as [st0|]; cbn [option_map]; [|discriminate].
      intros H. injection H as <-. eauto.
    - intros H. eauto.
  Qed.

  Lemma wrapper_put_k_cases k v now i s :
    (exists e, wrapper_put_k k v now i s = (PErr e, s)) \/
    (wrapper_put_k k v now i s = (POk, kstore_put k (target i) (stamp now i) s) /\ check i = None /\
     match store_get (target i) s with
     | None => True
     | Some st => check_incoming v st i = None
     end).
  Proof.
    unfold Bep44Rebuild.wrapper_put_k. destruct (check i) as [e|] eqn:C; [left; eauto|].
    destruct (kstore_get k (target i) s) as [st|] eqn:G.
    - destruct (kstore_get_some k _ _ _ G) as [st0 [G0 [->| ->]]]; rewrite G0;
        try rewrite check_incoming_forget;
        (destruct (check_incoming v st0 i) as [e|] eqn:CI; [left; eauto|right; auto]).
    - apply kstore_get_none in G. rewrite G. right. auto.
  Qed.

  (* the verdict on a put is the verdict over bep44.Memory *)
  Theorem wrapper_put_k_result k v now i s :
    fst (wrapper_put_k k v now i s) = fst (wrapper_put v now i s).
  Proof.
    unfold Bep44Rebuild.wrapper_put_k, Bep44.wrapper_put. destruct (check i); [reflexivity|].
    unfold kstore_get. destruct (k_forget_get k).
    - destruct (store_get (target i) s) as [st|]; cbn [option_map]; [|reflexivity].
      rewrite check_incoming_forget. destruct (check_incoming v st i); reflexivity.
    - destruct (store_get (target i) s) as [st|]; [|reflexivity].
      destruct (check_incoming v st i); reflexivity.
  Qed.

  (* ... and so are the sequence numbers it leaves in the store *)
  Theorem wrapper_put_k_seqs k v now i s t :
    seq_of t (snd (wrapper_put_k k v now i s)) = seq_of t (snd (wrapper_put v now i s)).
  Proof.
    unfold Bep44Rebuild.wrapper_put_k, Bep44.wrapper_put. destruct (check i); [reflexivity|].
    assert (P : seq_of t (kstore_put k (target i) (stamp now i) s) =
                seq_of t (store_put (target i) (stamp now i) s)).
    { unfold kstore_put. destruct (k_forget_put k); [apply seq_of_put_forget|reflexivity]. }
    unfold kstore_get. destruct (k_forget_get k).
    - destruct (store_get (target i) s) as [st|]; cbn [option_map snd]; [|exact P].
      rewrite check_incoming_forget. destruct (check_incoming v st i); cbn [snd]; [reflexivity|exact P].
    - destruct (store_get (target i) s) as [st|]; cbn [snd]; [|exact P].
      destruct (check_incoming v st i); cbn [snd]; [reflexivity|exact P].
  Qed.

  Theorem wrapper_put_k_rejected_unchanged k v now i s r s' :
    wrapper_put_k k v now i s = (r, s') -> r <> POk -> s' = s.
  Proof.
    intros H Hr. destruct (wrapper_put_k_cases k v now i s) as [[e E]|[E _]]; rewrite E in H.
    - injection H as _ <-. reflexivity.
    - injection H as <- _. congruence.
  Qed.

  (* one put: no slot disappears, no sequence number decreases *)
  Theorem wrapper_put_k_mono k v now i s t a :
    seq_of t s = Some a -> exists b, seq_of t (snd (wrapper_put_k k v now i s)) = Some b /\ a <= b.
  Proof.
    intros Ha. rewrite wrapper_put_k_seqs. exact (wrapper_put_mono sha1 ed_verify v now i s t a Ha).
  Qed.

  (* ---- Wrapper.Get ---- *)
  Lemma wrapper_get_k_frame k exp now t s t' :
    store_get t' (snd (wrapper_get_k k exp now t s)) = store_get t' s \/
    (t' = t /\ store_get t' (snd (wrapper_get_k k exp now t s)) = None).
  Proof.
    unfold wrapper_get_k. destruct (kstore_get k t s) as [i|]; [|left; reflexivity].
    destruct (now <? it_created i + exp); [left; reflexivity|]. cbn [snd].
    rewrite store_get_del. destruct (bytes_eqb_spec t' t) as [->|_]; [right|left]; auto.
  Qed.

  (* whatever is served is the stored item (up to the stamp) and has not expired by its stamp *)
  Theorem wrapper_get_k_served k exp now t s i s' :
    wrapper_get_k k exp now t s = (Some i, s') ->
    s' = s /\ now < it_created i + exp /\
    exists st, store_get t s = Some st /\ (i = st \/ i = forget st).
  Proof.
    unfold wrapper_get_k. destruct (kstore_get k t s) as [j|] eqn:G; [|discriminate].
    destruct (Z.ltb_spec now (it_created j + exp)); [|discriminate].
    intros E. injection E as <- <-. repeat split; auto. exact (kstore_get_some k t s j G).
  Qed.

  (* the zero time is more than any time.Duration before 1970 *)
  Lemma zero_time_expired exp now : 0 <= now -> exp <= max_duration -> (now <? go_zero_time + exp) = false.
  Proof.
    intros Hn He. apply Z.ltb_ge. unfold go_zero_time, max_duration in *. lia.
  Qed.

  (* an item that comes back without its stamp is not served and is deleted: for every expiry that can be
     configured and at every time from 1970 on *)
  Theorem wrapper_get_k_forgotten k exp now t s :
    0 <= now -> exp <= max_duration ->
    k_forget_get k = true \/ all_forgotten s ->
    wrapper_get_k k exp now t s = (None, store_del t s).
  Proof.
    intros Hn He Hk. unfold wrapper_get_k, kstore_get.
    destruct (store_get t s) as [i|] eqn:G.
    - assert (C : it_created (if k_forget_get k then forget i else i) = go_zero_time).
      { destruct (k_forget_get k) eqn:F; [reflexivity|].
        destruct Hk as [Hk|Hk]; [discriminate|]. exact (Hk t i G). }
      destruct (k_forget_get k); cbn [option_map]; rewrite C, (zero_time_expired exp now Hn He); reflexivity.
    - rewrite (store_del_absent t s G). destruct (k_forget_get k); reflexivity.
  Qed.

  (* ---- histories ---- *)
  (* the invariant of a forgetting store: either the stamp is dropped at every read, or every stored
     item has been written without it *)
  Definition kinv (k : skind) (s : store) : Prop := k_forget_get k = true \/ (k_forget_put k = true /\ all_forgotten s).

  Lemma kinv_forgets k s : kinv k s -> forgets k = true.
  Proof. unfold forgets. intros [->|[-> _]]; [apply orb_true_r|reflexivity]. Qed.

  Lemma kinv_empty k : forgets k = true -> kinv k [].
  Proof.
    unfold forgets, kinv. destruct (k_forget_get k); [auto|]. rewrite orb_false_r. intros ->.
    right. split; [reflexivity|exact all_forgotten_nil].
  Qed.

  Lemma kinv_put k v now i s : kinv k s -> kinv k (snd (wrapper_put_k k v now i s)).
  Proof.
    intros [H|[Hp Hs]]; [left; exact H|]. right. split; [exact Hp|].
    destruct (wrapper_put_k_cases k v now i s) as [[e E]|[E _]]; rewrite E; cbn [snd]; [exact Hs|].
    unfold kstore_put. rewrite Hp. apply all_forgotten_put, Hs.
  Qed.

  Lemma kinv_del k t s : kinv k s -> kinv k (store_del t s).
  Proof. intros [H|[Hp Hs]]; [left; exact H|right; split; [exact Hp|apply all_forgotten_del, Hs]]. Qed.

  Lemma kinv_weaken k s : kinv k s -> k_forget_get k = true \/ all_forgotten s.
  Proof. intros [H|[_ H]]; auto. Qed.

  (* advancing the clock only moves it forward *)
  Definition forward (e : event) : Prop := match e with EAdvance d => 0 <= d | _ => True end.

  (* one event over a forgetting store: nothing is served, the invariant and the clock bound survive *)
  Theorem kseq_step_never_serves k v exp st e :
    exp <= max_duration -> 0 <= s_clock st -> kinv k (s_store st) -> forward e ->
    obs_serves (snd (kseq_step k v exp st e)) = false /\
    kinv k (s_store (fst (kseq_step k v exp st e))) /\ 0 <= s_clock (fst (kseq_step k v exp st e)).
  Proof.
    intros He Hn Hk Hf. destruct st as [now s]. cbn [s_clock s_store] in *.
    destruct e as [i|t|d|a|t sq|p]; unfold Bep44Rebuild.kseq_step; cbn [s_clock s_store].
    - pose proof (kinv_put k v now i s Hk) as P.
      destruct (wrapper_put_k k v now i s) as [r s1]. cbn [fst snd s_store s_clock obs_serves] in *. auto.
    - rewrite (wrapper_get_k_forgotten k exp now t s Hn He (kinv_weaken k s Hk)).
      cbn [fst snd s_store s_clock obs_serves]. repeat split; auto. apply kinv_del, Hk.
    - cbn [fst snd s_store s_clock obs_serves forward] in *. repeat split; auto. lia.
    - unfold Bep44Rebuild.handle_put_k. destruct (pa_seq a) as [q|].
      + pose proof (kinv_put k v now (item_of_args a q) s Hk) as P.
        destruct (wrapper_put_k k v now (item_of_args a q) s) as [r s1].
        cbn [fst snd s_store s_clock obs_serves] in *. auto.
      + cbn [fst snd s_store s_clock obs_serves]. auto.
    - unfold handle_get_k. rewrite (wrapper_get_k_forgotten k exp now t s Hn He (kinv_weaken k s Hk)).
      cbn [fst snd s_store s_clock obs_serves gr_seq gr_val]. repeat split; auto. apply kinv_del, Hk.
    - unfold Bep44Rebuild.server_put_local_k.
      pose proof (kinv_put k v now (put_to_item p) s Hk) as P.
      destruct (wrapper_put_k k v now (put_to_item p) s) as [[| |] s1];
        cbn [fst snd s_store s_clock obs_serves] in *; auto.
  Qed.

  (* what the callers of a whole history see *)
  Fixpoint kseq_obs (k : skind) (v : variant) (exp : Z) (evs : list event) (st : sstate) : list obs :=
    match evs with
    | [] => []
    | e :: r => snd (kseq_step k v exp st e) :: kseq_obs k v exp r (fst (kseq_step k v exp st e))
    end.

  (* every history over a forgetting store, started from the empty store (or any store of forgotten
     items): no get, API or wire, ever hands out an item *)
  Theorem kseq_run_never_serves k v exp evs : forall st,
    exp <= max_duration -> 0 <= s_clock st -> kinv k (s_store st) -> Forall forward evs ->
    Forall (fun o => obs_serves o = false) (kseq_obs k v exp evs st).
  Proof.
    induction evs as [|e evs IH]; intros st He Hn Hk Hf; [constructor|].
    inversion Hf as [|? ? F1 F2]; subst. cbn [kseq_obs].
    destruct (kseq_step_never_serves k v exp st e He Hn Hk F1) as [A [B C]].
    constructor; [exact A|]. apply IH; auto.
  Qed.

  (* C13, one step, any kind of store: an occupied slot keeps or raises its seq, or is deleted by a get
     on that target *)
  Theorem kseq_step_mono k v exp st e t a :
    seq_of t (s_store st) = Some a ->
    (exists b, seq_of t (s_store (fst (kseq_step k v exp st e))) = Some b /\ a <= b) \/
    (seq_of t (s_store (fst (kseq_step k v exp st e))) = None /\
     (e = EGet t \/ exists sq, e = EWireGet t sq)).
  Proof.
    intros Ha.
    assert (Hget : forall tt, let r := wrapper_get_k k exp (s_clock st) tt (s_store st) in
       (exists b, seq_of t (snd r) = Some b /\ a <= b) \/ (seq_of t (snd r) = None /\ t = tt)).
    { intros tt r. subst r.
      destruct (wrapper_get_k_frame k exp (s_clock st) tt (s_store st) t) as [E|[-> E]].
      - left. exists a. unfold seq_of in *. rewrite E. split; [exact Ha|lia].
      - right. unfold seq_of. rewrite E. auto. }
    destruct e as [i|tt|d|ar|tt sq|p]; unfold Bep44Rebuild.kseq_step.
    - left. pose proof (wrapper_put_k_mono k v (s_clock st) i _ t a Ha) as H.
      destruct (wrapper_put_k k v (s_clock st) i (s_store st)). exact H.
    - specialize (Hget tt). cbv zeta in Hget.
      destruct (wrapper_get_k k exp (s_clock st) tt (s_store st)) as [r s1]. cbn [snd fst s_store] in *.
      destruct Hget as [H|[H1 ->]]; [left; exact H|right]. auto.
    - left. exists a. split; [exact Ha|lia].
    - left. unfold Bep44Rebuild.handle_put_k. destruct (pa_seq ar) as [q|].
      + pose proof (wrapper_put_k_mono k v (s_clock st) (item_of_args ar q) _ t a Ha) as H.
        destruct (wrapper_put_k k v (s_clock st) (item_of_args ar q) (s_store st)). exact H.
      + exists a. split; [exact Ha|lia].
    - specialize (Hget tt). cbv zeta in Hget. unfold handle_get_k.
      destruct (wrapper_get_k k exp (s_clock st) tt (s_store st)) as [[i|] s1]; cbn [snd fst s_store] in *;
        (destruct Hget as [H|[H1 ->]]; [left; exact H|right]; eauto).
    - left. unfold Bep44Rebuild.server_put_local_k.
      pose proof (wrapper_put_k_mono k v (s_clock st) (put_to_item p) _ t a Ha) as H.
      destruct (wrapper_put_k k v (s_clock st) (put_to_item p) (s_store st)) as [[| |] s1]; exact H.
  Qed.
End RebuildProofs.
