(* MaintCompose.v — a ping round of the pass model IS a sequence of server-LTS write-backs: applying, one after the
   other and in the order of [ping_targets], the table update of each target's ping outcome (replace_node with
   apply_update UResponse / UFailedPing / nothing - the node-list effect of the EPacket response step and of the
   EFailedPing step, MaintRefine.v) yields exactly [after_pings], on every table whose entries have pairwise distinct
   (id, address) keys and sit in the bucket of their id (the C05 invariant). *)
From Coq Require Import List NArith ZArith Bool Arith Lia.
From Dht Require Import Base Msg Server ServerDefs ServerInv Maint MaintProofs.
Import ListNotations.

Section MaintCompose.
  Variable id_secure : N -> bytes -> bool.
  Variable cfg : config.

  Definition nkey (n : node) : N * (bytes * N) := (n_id n, addr_key (n_addr n)).

  (* the entry of the table a write-back for [t] lands on *)
  Definition hits (t m : node) : bool :=
    Nat.eqb (n_slot m) (slot_of cfg (n_id t)) && same_node (addr_key (n_addr t)) (n_id t) m.

  Definition outcome_update (now : Z) (o : ping_outcome) (m : node) : node :=
    match o with
    | PSameId => apply_update now UResponse m
    | POtherId => m
    | PSilent => apply_update now UFailedPing m
    end.

  (* the node-list effect of the LTS step that reports the outcome of the ping of [t] *)
  Definition write_back (now : Z) (answers : node -> ping_outcome) (l : list node) (t : node) : list node :=
    replace_node cfg (addr_key (n_addr t)) (n_id t) (outcome_update now (answers t)) l.

  Definition placed (l : list node) : Prop := forall n, In n l -> n_slot n = slot_of cfg (n_id n).

  Lemma hits_nkey t m : hits t m = true -> nkey m = nkey t.
  Proof.
    unfold hits, same_node, nkey. intros H.
    apply andb_true_iff in H. destruct H as [_ H]. apply andb_true_iff in H. destruct H as [H1 H2].
    apply N.eqb_eq in H1. apply key_eqb_eq in H2. congruence.
  Qed.

  Lemma nkey_hits t m : n_slot m = slot_of cfg (n_id m) -> nkey m = nkey t -> hits t m = true.
  Proof.
    unfold hits, same_node, nkey. intros Hs H.
    assert (H1 : n_id m = n_id t) by congruence.
    assert (H2 : addr_key (n_addr m) = addr_key (n_addr t)) by congruence.
    rewrite Hs, H1, Nat.eqb_refl, N.eqb_refl. cbn [andb]. apply key_eqb_eq. exact H2.
  Qed.

  Lemma replace_node_map k id f l :
    NoDup (map nkey l) ->
    replace_node cfg k id f l =
    map (fun m => if Nat.eqb (n_slot m) (slot_of cfg id) && same_node k id m then f m else m) l.
  Proof.
    induction l as [|y l IH]; cbn [replace_node map]; [reflexivity|]. intros Hnd.
    inversion Hnd as [|? ? Hnot Hnd']; subst.
    destruct (Nat.eqb (n_slot y) (slot_of cfg id) && same_node k id y) eqn:E.
    - f_equal. rewrite <- (map_id l) at 1. apply map_ext_in. intros m Hm.
      destruct (Nat.eqb (n_slot m) (slot_of cfg id) && same_node k id m) eqn:Em; [|reflexivity].
      exfalso. apply Hnot.
      assert (Hk : nkey m = nkey y).
      { unfold nkey, same_node in *. apply andb_true_iff in E. destruct E as [_ E]. apply andb_true_iff in E. destruct E as [E1 E2].
        apply andb_true_iff in Em. destruct Em as [_ Em]. apply andb_true_iff in Em. destruct Em as [M1 M2].
        apply N.eqb_eq in E1, M1. apply key_eqb_eq in E2, M2. congruence. }
      rewrite <- Hk. apply in_map. exact Hm.
    - f_equal. apply IH. exact Hnd'.
  Qed.

  (* ---- helpers about NoDup under map ---- *)
  Lemma nodup_map_inj {A B : Type} (f : A -> B) (l : list A) a b :
    NoDup (map f l) -> In a l -> In b l -> f a = f b -> a = b.
  Proof.
    induction l as [|x l IH]; cbn [map]; intros Hnd Ha Hb E; [destruct Ha|].
    inversion Hnd as [|? ? Hnot Hnd']; subst.
    destruct Ha as [->|Ha], Hb as [->|Hb].
    - reflexivity.
    - exfalso. apply Hnot. rewrite E. apply in_map. exact Hb.
    - exfalso. apply Hnot. rewrite <- E. apply in_map. exact Ha.
    - exact (IH Hnd' Ha Hb E).
  Qed.

  Lemma nodup_map_filter {A B : Type} (f : A -> B) (p : A -> bool) (l : list A) :
    NoDup (map f l) -> NoDup (map f (filter p l)).
  Proof.
    induction l as [|x l IH]; cbn [map filter]; intros Hnd; [constructor|].
    inversion Hnd as [|? ? Hnot Hnd']; subst.
    destruct (p x); cbn [map]; [|exact (IH Hnd')].
    constructor; [|exact (IH Hnd')].
    intros Hin. apply Hnot. apply in_map_iff in Hin. destruct Hin as (y & Ey & Hy).
    apply filter_In in Hy. destruct Hy as [Hy _]. rewrite <- Ey. apply in_map. exact Hy.
  Qed.

  (* ---- one write-back, pointwise ---- *)
  Definition wb1 (now : Z) (answers : node -> ping_outcome) (x t : node) : node :=
    if hits t x then outcome_update now (answers t) x else x.

  Lemma write_back_map now answers l t :
    NoDup (map nkey l) -> write_back now answers l t = map (fun m => wb1 now answers m t) l.
  Proof. intros Hnd. unfold write_back, wb1, hits. apply replace_node_map. exact Hnd. Qed.

  Lemma nkey_outcome_update now o m : nkey (outcome_update now o m) = nkey m.
  Proof. destruct o; reflexivity. Qed.

  Lemma slot_outcome_update now o m : n_slot (outcome_update now o m) = n_slot m.
  Proof. destruct o; reflexivity. Qed.

  Lemma hits_outcome_update t now o m : hits t (outcome_update now o m) = hits t m.
  Proof. unfold hits, same_node. destruct o; reflexivity. Qed.

  Lemma nkey_wb1 now answers x t : nkey (wb1 now answers x t) = nkey x.
  Proof. unfold wb1. destruct (hits t x); [apply nkey_outcome_update | reflexivity]. Qed.

  Lemma fold_write_back_map now answers ts l :
    NoDup (map nkey l) ->
    fold_left (write_back now answers) ts l = map (fun m => fold_left (wb1 now answers) ts m) l.
  Proof.
    revert l. induction ts as [|t ts IH]; intros l Hnd; cbn [fold_left].
    - symmetry. apply map_id.
    - rewrite (write_back_map now answers l t Hnd).
      rewrite IH.
      + rewrite map_map. reflexivity.
      + rewrite map_map. erewrite map_ext; [exact Hnd|]. intros m. apply nkey_wb1.
  Qed.

  Lemma fold_no_hit now answers ts x :
    (forall t, In t ts -> hits t x = false) -> fold_left (wb1 now answers) ts x = x.
  Proof.
    induction ts as [|t ts IH]; intros H; cbn [fold_left]; [reflexivity|].
    unfold wb1 at 2. rewrite (H t (or_introl eq_refl)). apply IH. intros t' Ht'. apply H. right. exact Ht'.
  Qed.

  Lemma fold_one_hit now answers ts t x :
    NoDup (map nkey ts) -> In t ts -> hits t x = true ->
    fold_left (wb1 now answers) ts x = outcome_update now (answers t) x.
  Proof.
    induction ts as [|t0 ts IH]; intros Hnd Hin Hh; [destruct Hin|]. cbn [fold_left].
    cbn [map] in Hnd. inversion Hnd as [|? ? Hnot Hnd']; subst.
    destruct (hits t0 x) eqn:E0.
    - (* the head hits: it is t itself, and nothing later hits *)
      assert (Et : t = t0).
      { destruct Hin as [<-|Hin]; [reflexivity|]. exfalso. apply Hnot.
        rewrite <- (hits_nkey _ _ E0), (hits_nkey _ _ Hh). apply in_map. exact Hin. }
      subst t0. unfold wb1 at 2. rewrite E0. apply fold_no_hit. intros t' Ht'.
      rewrite hits_outcome_update. destruct (hits t' x) eqn:E'; [|reflexivity].
      exfalso. apply Hnot. rewrite <- (hits_nkey _ _ Hh), (hits_nkey _ _ E'). apply in_map. exact Ht'.
    - unfold wb1 at 2. rewrite E0. apply IH; [exact Hnd' | | exact Hh].
      destruct Hin as [<-|Hin]; [rewrite Hh in E0; discriminate E0 | exact Hin].
  Qed.

  (* ---- the ping round ---- *)
  Theorem ping_round_is_lts_steps now answers l i :
    NoDup (map nkey l) -> placed l ->
    fold_left (write_back now answers) (ping_targets id_secure cfg now l i) l =
    after_pings id_secure cfg now answers l i.
  Proof.
    intros Hnd Hpl. rewrite (fold_write_back_map now answers _ l Hnd). unfold after_pings.
    apply map_ext_in. intros m Hm.
    assert (Hts : NoDup (map nkey (ping_targets id_secure cfg now l i))).
    { unfold ping_targets, bucket. apply nodup_map_filter. apply nodup_map_filter. exact Hnd. }
    destruct (Nat.eqb (n_slot m) i && m_quest id_secure cfg now m) eqn:E.
    - apply andb_true_iff in E. destruct E as [E1 E2]. apply Nat.eqb_eq in E1.
      assert (Hin : In m (ping_targets id_secure cfg now l i)) by (apply ping_targets_spec; tauto).
      rewrite (fold_one_hit now answers _ m m Hts Hin (nkey_hits m m (Hpl m Hm) eq_refl)).
      unfold settle_ping, outcome_update. destruct (answers m); reflexivity.
    - apply fold_no_hit. intros t Ht. destruct (hits t m) eqn:Eh; [|reflexivity]. exfalso.
      apply ping_targets_spec in Ht. destruct Ht as (Htl & Hts' & Htq).
      assert (Etm : t = m) by (apply (nodup_map_inj nkey l t m Hnd Htl Hm); symmetry; apply hits_nkey; exact Eh).
      subst t. rewrite Hts', Nat.eqb_refl, Htq in E. discriminate E.
  Qed.
End MaintCompose.
