(* TraversalC02Exact.v — C02 exactness: in an honest finite network the lookup's closest set at
   a stalled offer is exactly the K closest nodes of the network (all of it when it has fewer
   than K nodes).  Every schedule, K >= 1, Alpha >= 1, any seeds inside the network. *)
From Dht Require Import Base Int160 Order OrderProofs Traversal TraversalInv TraversalC03 TraversalC02.
From Coq Require Import Sorting.Sorted ZifyN ZifyNat ZifyBool.
Local Arguments ap_mem : simpl never.
Local Arguments Nat.ltb : simpl never.
Local Arguments kn_run : simpl never.
Local Arguments kn_push : simpl never.
Local Arguments have_query_on : simpl never.

Section Exact.
  Variable D : Type.
  Variable node_filter : ami -> bool.
  Variable data_filter : D -> bool.
  Variable tb : addrport -> addrport -> comparison.
  Hypothesis tb_refl : forall a, tb a a = Eq.
  Hypothesis tb_eq : forall a b, tb a b = Eq -> a = b.
  Hypothesis tb_antisym : forall a b, tb b a = CompOpp (tb a b).
  Hypothesis tb_trans : forall a b c, tb a b = Lt -> tb b c = Lt -> tb a c = Lt.
  Variable target : N.
  Variable k : nat.
  Variable alpha : nat.
  Hypothesis k_pos : 1 <= k.
  Hypothesis alpha_pos : 1 <= alpha.

  (* the finite network: distinct IDs, distinct addresses, every node passes the node filter *)
  Variable Net : list ninfo.
  Hypothesis net_ids : NoDup (map fst Net).
  Hypothesis net_addrs : NoDup (map snd Net).
  Hypothesis net_filter : forall n, In n Net -> node_filter (ni_ami n) = true.
  (* NK: the K closest nodes of the network to the target (all of it when |Net| < K) *)
  Variable NK : list ninfo.
  Hypothesis nk_incl : incl NK Net.
  Hypothesis nk_nodup : NoDup NK.
  Hypothesis nk_len : length NK = Nat.min k (length Net).
  Hypothesis nk_closest : forall a b, In a NK -> In b Net -> ~ In b NK ->
                          (dist (fst a) target < dist (fst b) target)%N.

  Notation state := (state D).
  Notation label := (label D).
  Notation query := (query D).
  Notation response := (response D).
  Notation TInv := (TInv D node_filter data_filter tb target k alpha).
  Notation hq := (have_query D true target k).
  Notation hqon := (have_query_on D target k).
  Notation do_prune := (do_prune D true).
  Notation start_query := (start_query D).
  Notation start_loop := (start_loop D true target k alpha).
  Notation enabled := (enabled D).
  Notation step := (step D node_filter data_filter tb true target k alpha).
  Notation step_en := (step_en D node_filter data_filter tb true target k alpha).
  Notation exec := (exec D node_filter data_filter tb true target k alpha).
  Notation run := (run D node_filter data_filter tb true target k alpha).
  Notation inv_exec := (inv_exec D node_filter data_filter tb tb_refl tb_eq tb_antisym tb_trans target k alpha).
  Notation inv_step_en := (inv_step_en D node_filter data_filter tb tb_refl tb_eq tb_antisym tb_trans target k alpha).
  Notation TInv_init := (TInv_init D node_filter data_filter tb target k alpha).
  Notation inflight_unique := (inflight_unique D node_filter data_filter tb target k alpha).

  (* the node at address a answers as itself, with data passing the data filter, and lists the
     true K closest nodes (split between Nodes and Nodes6 in any way) *)
  Definition honest_resp (a : addrport) (r : response) : Prop :=
    exists n d, In n Net /\ snd n = a /\ r_from r = Some (n, d) /\ data_filter d = true /\
                (forall x, In x (r_nodes r ++ r_nodes6 r) <-> In x NK).

  Definition honest_label (s : state) (l : label) : Prop :=
    match l with
    | LDoQueryReturn i r =>
        forall q, find_q i (st_inflight s) = Some q -> honest_resp (ami_addr (q_cand q)) r
    | LAddNodes ns =>
        forall c, In c ns -> node_filter c = true /\ In (ami_addr c) (map snd Net)
    | _ => True
    end.

  (* every network answer and every externally supplied contact of the schedule is honest *)
  Fixpoint honest_exec (s : state) (ls : list label) : Prop :=
    match ls with
    | [] => True
    | l :: r => honest_label s l /\ honest_exec (step_en s l) r
    end.

  Record HInv (s : state) : Prop := mkHInv {
    h_offered : forall c, In c (st_offered s) ->
                node_filter c = true /\ In (ami_addr c) (map snd Net);
    h_resp : forall q, In q (st_inflight s) -> q_pc q <> QWait ->
             honest_resp (ami_addr (q_cand q)) (q_resp q);
    h_nodes_offered : forall q, In q (st_inflight s) -> (q_pc q = QAddN6 \/ q_pc q = QDone) ->
                      forall x, In x (r_nodes (q_resp q)) -> In (ni_ami x) (st_offered s);
    h_responded : forall x, In x (st_responded s) ->
                  In (fst x) Net /\ In (snd (fst x)) (st_queried s);
    h_answered : forall c, In c (st_started s) ->
      (exists q, In q (st_inflight s) /\ q_cand q = c /\ (q_pc q = QWait \/ q_pc q = QResp)) \/
      (exists n d, In n Net /\ snd n = ami_addr c /\ In (n, d) (st_responded s) /\ data_filter d = true);
    h_spread : forall c, In c (st_started s) ->
      (exists q, In q (st_inflight s) /\ q_cand q = c /\ q_pc q <> QDone) \/
      (forall x, In x NK -> In (ni_ami x) (st_offered s)) }.

  Ltac hinv_open H := destruct H as [Hoff Hresp Hnoff Hrespd Hans Hspr].

  Lemma HInv_init : HInv init.
  Proof. constructor; simpl; intros; tauto. Qed.

  (* a query other than number i survives an update / a deletion of number i *)
  Lemma upd_q_keep i f (l : list query) q : In q l -> q_id q <> i -> In q (upd_q D i f l).
  Proof.
    intros Hq Hne. pose proof (upd_q_In D i f l q Hq) as H.
    apply Nat.eqb_neq in Hne. rewrite Hne in H. exact H.
  Qed.

  Lemma upd_q_hit i f (l : list query) q : In q l -> q_id q = i -> In (f q) (upd_q D i f l).
  Proof.
    intros Hq He. pose proof (upd_q_In D i f l q Hq) as H.
    apply Nat.eqb_eq in He. rewrite He in H. exact H.
  Qed.

  Lemma del_q_keep i (l : list query) q : In q l -> q_id q <> i -> In q (del_q D i l).
  Proof.
    unfold del_q. induction l as [|x l IH]; simpl; intros Hq Hne; [destruct Hq|].
    destruct (Nat.eqb (q_id x) i) eqn:E.
    - destruct Hq as [->|Hq]; [apply Nat.eqb_eq in E; contradiction|exact Hq].
    - destruct Hq as [->|Hq]; [left; reflexivity|right; exact (IH Hq Hne)].
  Qed.

  (* ---- a sub-step that rewrites query i with f (same candidate), in a state s1 that differs
          from s only by more offers / responders ---- *)
  Lemma hinv_upd (s s1 : state) i f q :
    TInv s -> HInv s -> find_q i (st_inflight s) = Some q ->
    st_inflight s1 = st_inflight s -> st_started s1 = st_started s -> st_queried s1 = st_queried s ->
    incl (st_offered s) (st_offered s1) -> incl (st_responded s) (st_responded s1) ->
    (forall x, q_cand (f x) = q_cand x) ->
    (* obligations about what is new *)
    (forall c, In c (st_offered s1) -> node_filter c = true /\ In (ami_addr c) (map snd Net)) ->
    (forall x, In x (st_responded s1) -> In (fst x) Net /\ In (snd (fst x)) (st_queried s)) ->
    (q_pc (f q) <> QWait -> honest_resp (ami_addr (q_cand q)) (q_resp (f q))) ->
    ((q_pc (f q) = QAddN6 \/ q_pc (f q) = QDone) ->
       forall x, In x (r_nodes (q_resp (f q))) -> In (ni_ami x) (st_offered s1)) ->
    ((q_pc q = QWait \/ q_pc q = QResp) -> (q_pc (f q) = QWait \/ q_pc (f q) = QResp) \/
       exists n d, In n Net /\ snd n = ami_addr (q_cand q) /\ In (n, d) (st_responded s1) /\ data_filter d = true) ->
    (q_pc q <> QDone -> q_pc (f q) <> QDone \/ forall x, In x NK -> In (ni_ami x) (st_offered s1)) ->
    HInv (set_inflight s1 (upd_q D i f (st_inflight s1))).
  Proof.
    intros HT HH Hf Ei Es Eq Io Ir Hcand Noff Nresp Nh Nnodes Nans Nspr.
    hinv_open HH.
    destruct (find_q_In D i _ q Hf) as [Hqin Hqid].
    assert (Huniq : forall x, In x (st_inflight s) -> q_id x = i -> x = q).
    { intros x Hx Hid. exact (inflight_unique s i q x HT Hf Hx Hid). }
    assert (Hcase : forall q', In q' (upd_q D i f (st_inflight s)) ->
                    (In q' (st_inflight s) /\ q_id q' <> i) \/ q' = f q).
    { intros q' Hq'. unfold upd_q in Hq'. apply in_map_iff in Hq'. destruct Hq' as [x [He Hx]].
      destruct (Nat.eqb (q_id x) i) eqn:E.
      - right. apply Nat.eqb_eq in E. rewrite (Huniq x Hx E) in He. symmetry. exact He.
      - left. subst q'. split; [exact Hx|]. apply Nat.eqb_neq. exact E. }
    constructor; cbn; rewrite ?Ei, ?Es, ?Eq.
    - exact Noff.
    - intros q' Hq' Hpc. destruct (Hcase q' Hq') as [[Hin _]| ->].
      + exact (Hresp q' Hin Hpc).
      + rewrite Hcand. exact (Nh Hpc).
    - intros q' Hq' Hpc x Hx. destruct (Hcase q' Hq') as [[Hin _]| ->].
      + apply Io. exact (Hnoff q' Hin Hpc x Hx).
      + exact (Nnodes Hpc x Hx).
    - exact Nresp.
    - intros c Hc. destruct (Hans c Hc) as [[qw [Hw [Hwc Hwp]]]|[n [d [H1 [H2 [H3 H4]]]]]].
      + destruct (Nat.eq_dec (q_id qw) i) as [Ew|Ew].
        * rewrite (Huniq qw Hw Ew) in *. destruct (Nans Hwp) as [Hp|Hr].
          -- left. exists (f q). split; [exact (upd_q_hit i f _ q Hqin Hqid)|].
             split; [rewrite Hcand; exact Hwc|exact Hp].
          -- right. rewrite <- Hwc. exact Hr.
        * left. exists qw. split; [exact (upd_q_keep i f _ qw Hw Ew)|]. split; assumption.
      + right. exists n, d. repeat split; try assumption. apply Ir. exact H3.
    - intros c Hc. destruct (Hspr c Hc) as [[qw [Hw [Hwc Hwp]]]|Hall].
      + destruct (Nat.eq_dec (q_id qw) i) as [Ew|Ew].
        * rewrite (Huniq qw Hw Ew) in *. destruct (Nspr Hwp) as [Hp|Hr].
          -- left. exists (f q). split; [exact (upd_q_hit i f _ q Hqin Hqid)|].
             split; [rewrite Hcand; exact Hwc|exact Hp].
          -- right. exact Hr.
        * left. exists qw. split; [exact (upd_q_keep i f _ qw Hw Ew)|]. split; assumption.
      + right. intros x Hx. apply Io. exact (Hall x Hx).
  Qed.

  Lemma resp_of_find (s : state) i q : find_q i (st_inflight s) = Some q -> resp_of D s i = q_resp q.
  Proof. intros Hf. unfold resp_of. rewrite Hf. reflexivity. Qed.

  Lemma nk_node_ok x : In x NK -> node_filter (ni_ami x) = true /\ In (ami_addr (ni_ami x)) (map snd Net).
  Proof.
    intros Hx. pose proof (nk_incl x Hx) as Hn. split; [exact (net_filter x Hn)|].
    cbn. apply in_map. exact Hn.
  Qed.

  Lemma hinv_frame (s s' : state) :
    HInv s -> st_inflight s' = st_inflight s -> st_started s' = st_started s ->
    st_queried s' = st_queried s -> st_offered s' = st_offered s ->
    st_responded s' = st_responded s -> HInv s'.
  Proof.
    intros HH E1 E2 E3 E4 E5. hinv_open HH.
    constructor; rewrite ?E1, ?E2, ?E3, ?E4, ?E5; assumption.
  Qed.

  Lemma hinv_start_query (s : state) c u : HInv s -> st_unq s = c :: u -> HInv (start_query s).
  Proof.
    intros HH Hu. hinv_open HH. unfold Traversal.start_query. rewrite Hu.
    constructor; cbn.
    - exact Hoff.
    - intros q Hq Hpc. apply in_app_or in Hq. destruct Hq as [Hq|[Hq|[]]].
      + exact (Hresp q Hq Hpc).
      + subst q. cbn in Hpc. congruence.
    - intros q Hq Hpc. apply in_app_or in Hq. destruct Hq as [Hq|[Hq|[]]].
      + exact (Hnoff q Hq Hpc).
      + subst q. cbn in Hpc. destruct Hpc; discriminate.
    - intros x Hx. destruct (Hrespd x Hx) as [H1 H2]. split; [exact H1|].
      apply ap_add_In. right. exact H2.
    - intros c' Hc'. apply in_app_or in Hc'. destruct Hc' as [Hc'|[Hc'|[]]].
      + destruct (Hans c' Hc') as [[qw [Hw [Hwc Hwp]]]|Hr]; [|right; exact Hr].
        left. exists qw. split; [apply in_or_app; left; exact Hw|]. split; assumption.
      + subst c'. left. eexists. split; [apply in_or_app; right; left; reflexivity|].
        cbn. split; [reflexivity|left; reflexivity].
    - intros c' Hc'. apply in_app_or in Hc'. destruct Hc' as [Hc'|[Hc'|[]]].
      + destruct (Hspr c' Hc') as [[qw [Hw [Hwc Hwp]]]|Hr]; [|right; exact Hr].
        left. exists qw. split; [apply in_or_app; left; exact Hw|]. split; assumption.
      + subst c'. left. eexists. split; [apply in_or_app; right; left; reflexivity|].
        cbn. split; [reflexivity|discriminate].
  Qed.

  Lemma hinv_start_loop fuel : forall s, HInv s -> HInv (start_loop fuel s).
  Proof.
    induction fuel as [|f IH]; intros s HH; [exact HH|].
    rewrite (start_loop_S D target k alpha).
    destruct (Nat.ltb (st_out s) alpha); [|exact HH].
    assert (HP : HInv (do_prune s)) by (apply (hinv_frame s); try reflexivity; exact HH).
    destruct (hqon (st_unq (do_prune s)) (st_closest (do_prune s))) eqn:Eh; [|exact HP].
    destruct (st_unq (do_prune s)) as [|c u] eqn:Eu; [discriminate|].
    apply IH. exact (hinv_start_query (do_prune s) c u HP Eu).
  Qed.

  (* every enabled honest label preserves the honest-network invariant *)
  Lemma hinv_step (s : state) l :
    TInv s -> HInv s -> enabled s l = true -> honest_label s l -> HInv (step s l).
  Proof.
    intros HT HH En Hon.
    destruct l as [| | |i r|i|i|i|i|ns| | |i]; cbn [Traversal.step Traversal.enabled honest_label] in *.
    - (* LRun *)
      unfold Traversal.run_step. destruct (st_stopping s).
      + apply (hinv_frame s); try reflexivity; exact HH.
      + unfold Traversal.run_body.
        apply (hinv_frame (start_loop alpha s)); try reflexivity.
        apply hinv_start_loop. exact HH.
    - apply (hinv_frame s); try reflexivity; exact HH.
    - apply (hinv_frame s); try reflexivity; exact HH.
    - (* LDoQueryReturn *)
      destruct (q_at_find D s i QWait En) as [q [Hf Hpc]]. pose proof HH as HH'. hinv_open HH'.
      apply (hinv_upd s s i (q_returned D r) q HT HH Hf); try reflexivity; try assumption;
        try (intros x Hx; exact Hx).
      + intros _. cbn. exact (Hon q Hf).
      + cbn. intros [E|E]; discriminate.
      + intros _. left. right. reflexivity.
      + intros _. left. cbn. discriminate.
    - (* LResp *)
      destruct (q_at_find D s i QResp En) as [q [Hf Hpc]]. pose proof HH as HH'. hinv_open HH'.
      destruct (find_q_In D i _ q Hf) as [Hqin Hqid].
      assert (Hhon : honest_resp (ami_addr (q_cand q)) (q_resp q)) by (apply Hresp; [exact Hqin|congruence]).
      destruct Hhon as [n [d [Hn [Hna [Hfrom [Hd Hnodes]]]]]].
      rewrite (resp_of_find s i q Hf), Hfrom.
      destruct (add_closest_frame D node_filter data_filter tb target k s (n, d))
        as [F1 [_ [F3 [_ [F5 [F6 [_ [_ [_ [_ F11]]]]]]]]]].
      apply (hinv_upd s _ i (q_set_pc D QAddN) q HT HH Hf); try assumption; try reflexivity.
      + rewrite F6. intros x Hx; exact Hx.
      + rewrite F11. intros x Hx. apply in_or_app. left. exact Hx.
      + rewrite F6. exact Hoff.
      + rewrite F11. intros x Hx. apply in_app_or in Hx. destruct Hx as [Hx|[Hx|[]]].
        * exact (Hrespd x Hx).
        * subst x. cbn. split; [exact Hn|]. rewrite Hna.
          apply (inv_queried _ _ _ _ _ _ _ _ HT). apply in_map.
          exact (inv_qcand _ _ _ _ _ _ _ _ HT q Hqin).
      + intros _. cbn. apply Hresp; [exact Hqin|congruence].
      + cbn. intros [E|E]; discriminate.
      + intros _. right. exists n, d. rewrite F11. repeat split; try assumption.
        apply in_or_app. right. left. reflexivity.
      + intros _. left. cbn. discriminate.
    - (* LAddN *)
      destruct (q_at_find D s i QAddN En) as [q [Hf Hpc]]. pose proof HH as HH'. hinv_open HH'.
      destruct (find_q_In D i _ q Hf) as [Hqin Hqid].
      assert (Hhon : honest_resp (ami_addr (q_cand q)) (q_resp q)) by (apply Hresp; [exact Hqin|congruence]).
      destruct Hhon as [n [d [Hn [Hna [Hfrom [Hd Hnodes]]]]]].
      rewrite (resp_of_find s i q Hf).
      destruct (add_nodes_frame D node_filter target (map ni_ami (r_nodes (q_resp q))) s)
        as [F1 [_ [F3 [_ [F5 [_ [F7 [_ [_ [_ [F11 _]]]]]]]]]]].
      apply (hinv_upd s _ i (q_set_pc D QAddN6) q HT HH Hf); try assumption; try reflexivity.
      + rewrite F11. intros x Hx. apply in_or_app. left. exact Hx.
      + rewrite F7. intros x Hx; exact Hx.
      + rewrite F11. intros c Hc. apply in_app_or in Hc. destruct Hc as [Hc|Hc]; [exact (Hoff c Hc)|].
        apply in_map_iff in Hc. destruct Hc as [x [<- Hx]]. apply nk_node_ok. apply Hnodes.
        apply in_or_app. left. exact Hx.
      + rewrite F7. exact Hrespd.
      + intros _. cbn. apply Hresp; [exact Hqin|congruence].
      + cbn. intros _ x Hx. rewrite F11. apply in_or_app. right. apply in_map. exact Hx.
      + rewrite Hpc. intros [E|E]; discriminate.
      + intros _. left. cbn. discriminate.
    - (* LAddN6 *)
      destruct (q_at_find D s i QAddN6 En) as [q [Hf Hpc]]. pose proof HH as HH'. hinv_open HH'.
      destruct (find_q_In D i _ q Hf) as [Hqin Hqid].
      assert (Hhon : honest_resp (ami_addr (q_cand q)) (q_resp q)) by (apply Hresp; [exact Hqin|congruence]).
      destruct Hhon as [n [d [Hn [Hna [Hfrom [Hd Hnodes]]]]]].
      rewrite (resp_of_find s i q Hf).
      destruct (add_nodes_frame D node_filter target (map ni_ami (r_nodes6 (q_resp q))) s)
        as [F1 [_ [F3 [_ [F5 [_ [F7 [_ [_ [_ [F11 _]]]]]]]]]]].
      apply (hinv_upd s _ i (q_set_pc D QDone) q HT HH Hf); try assumption; try reflexivity.
      + rewrite F11. intros x Hx. apply in_or_app. left. exact Hx.
      + rewrite F7. intros x Hx; exact Hx.
      + rewrite F11. intros c Hc. apply in_app_or in Hc. destruct Hc as [Hc|Hc]; [exact (Hoff c Hc)|].
        apply in_map_iff in Hc. destruct Hc as [x [<- Hx]]. apply nk_node_ok. apply Hnodes.
        apply in_or_app. right. exact Hx.
      + rewrite F7. exact Hrespd.
      + intros _. cbn. apply Hresp; [exact Hqin|congruence].
      + cbn. intros _ x Hx. rewrite F11. apply in_or_app. left.
        apply (Hnoff q Hqin); [left; exact Hpc|exact Hx].
      + rewrite Hpc. intros [E|E]; discriminate.
      + intros _. right. intros x Hx. rewrite F11. apply Hnodes in Hx. apply in_app_or in Hx.
        apply in_or_app. destruct Hx as [Hx|Hx].
        * left. apply (Hnoff q Hqin); [left; exact Hpc|exact Hx].
        * right. apply in_map. exact Hx.
    - (* LDone *)
      destruct (q_at_find D s i QDone En) as [q [Hf Hpc]]. hinv_open HH.
      assert (Huniq : forall x, In x (st_inflight s) -> q_id x = i -> x = q).
      { intros x Hx Hid. exact (inflight_unique s i q x HT Hf Hx Hid). }
      constructor; cbn.
      + exact Hoff.
      + intros x Hx. apply Hresp. exact (del_q_incl D i _ x Hx).
      + intros x Hx. apply Hnoff. exact (del_q_incl D i _ x Hx).
      + exact Hrespd.
      + intros c Hc. destruct (Hans c Hc) as [[qw [Hw [Hwc Hwp]]]|Hr]; [|right; exact Hr].
        left. exists qw. split; [|split; assumption]. apply del_q_keep; [exact Hw|].
        intros Ew. rewrite (Huniq qw Hw Ew) in Hwp. rewrite Hpc in Hwp. destruct Hwp; discriminate.
      + intros c Hc. destruct (Hspr c Hc) as [[qw [Hw [Hwc Hwp]]]|Hr]; [|right; exact Hr].
        left. exists qw. split; [|split; assumption]. apply del_q_keep; [exact Hw|].
        intros Ew. rewrite (Huniq qw Hw Ew) in Hwp. contradiction.
    - (* LAddNodes *)
      destruct (add_nodes_frame D node_filter target ns s)
        as [F1 [_ [F3 [_ [F5 [_ [F7 [_ [_ [_ [F11 _]]]]]]]]]]].
      hinv_open HH. constructor; rewrite ?F1, ?F3, ?F5, ?F7, ?F11.
      + intros c Hc. apply in_app_or in Hc. destruct Hc as [Hc|Hc]; [exact (Hoff c Hc)|exact (Hon c Hc)].
      + exact Hresp.
      + intros q Hq Hpc x Hx. apply in_or_app. left. exact (Hnoff q Hq Hpc x Hx).
      + exact Hrespd.
      + exact Hans.
      + intros c Hc. destruct (Hspr c Hc) as [Hl|Hr]; [left; exact Hl|].
        right. intros x Hx. apply in_or_app. left. exact (Hr x Hx).
    - apply (hinv_frame s); try reflexivity; exact HH.
    - apply (hinv_frame s); try reflexivity; exact HH.
    - (* LCancel *)
      apply andb_true_iff in En. destruct En as [_ En].
      destruct (find_q i (st_inflight s)) as [q|] eqn:Hf; [|discriminate].
      pose proof HH as HH'. hinv_open HH'. destruct (find_q_In D i _ q Hf) as [Hqin Hqid].
      apply (hinv_upd s s i (q_cancel D) q HT HH Hf); try reflexivity; try assumption;
        try (intros x Hx; exact Hx).
      + cbn. intros Hpc. exact (Hresp q Hqin Hpc).
      + cbn. intros Hpc. exact (Hnoff q Hqin Hpc).
      + cbn. intros Hp. left. exact Hp.
      + cbn. intros Hp. left. exact Hp.
  Qed.

  Lemma hinv_exec ls : forall s, TInv s -> HInv s -> honest_exec s ls -> HInv (exec s ls).
  Proof.
    unfold Traversal.exec. induction ls as [|l ls IH]; simpl; intros s HT HH Hex; [exact HH|].
    destruct Hex as [Hl Hex]. apply IH.
    - apply inv_step_en. exact HT.
    - unfold Traversal.step_en in *. destruct (enabled s l) eqn:En; [|exact HH].
      exact (hinv_step s l HT HH En Hl).
    - exact Hex.
  Qed.

  (* ---------------- the exactness theorem ---------------- *)
  Definition nkey (e : kelem D) : ninfo := (k_id e, k_addr e).

  Lemma NoDup_map_on {A B} (f : A -> B) (l : list A) :
    NoDup l -> (forall a b, In a l -> In b l -> f a = f b -> a = b) -> NoDup (map f l).
  Proof.
    induction l as [|x l IH]; simpl; intros Hnd Hinj; [constructor|].
    inversion Hnd as [|? ? Hx Hl]; subst. constructor.
    - intros Hin. apply in_map_iff in Hin. destruct Hin as [y [He Hy]].
      assert (y = x) by (apply Hinj; [right; exact Hy|left; reflexivity|exact He]).
      subst y. contradiction.
    - apply IH; [exact Hl|]. intros a b Ha Hb. apply Hinj; right; assumption.
  Qed.

  Lemma map_inj_on {A B} (f : A -> B) (l : list A) a b :
    NoDup (map f l) -> In a l -> In b l -> f a = f b -> a = b.
  Proof.
    induction l as [|x l IH]; simpl; intros Hnd Ha Hb He; [destruct Ha|].
    inversion Hnd as [|? ? Hx Hl]; subst.
    destruct Ha as [->|Ha], Hb as [->|Hb].
    - reflexivity.
    - exfalso. apply Hx. rewrite He. apply in_map. exact Hb.
    - exfalso. apply Hx. rewrite <- He. apply in_map. exact Ha.
    - exact (IH Hl Ha Hb He).
  Qed.

  Lemma ninfo_eq_dec (a b : ninfo) : {a = b} + {a <> b}.
  Proof.
    destruct a as [i1 a1], b as [i2 a2].
    destruct (N.eq_dec i1 i2) as [->|Hn]; [|right; congruence].
    destruct (ap_eq_dec a1 a2) as [->|Hn]; [left; reflexivity|right; congruence].
  Qed.

  (* fewer than |NK| nodes of the network are strictly closer to the target than a member of NK *)
  Lemma closer_count (S : list ninfo) x :
    In x NK -> NoDup S ->
    (forall y, In y S -> In y Net /\ (dist (fst y) target < dist (fst x) target)%N) ->
    length S < length NK.
  Proof.
    intros Hx Hnd Hs.
    assert (Hincl : incl (x :: S) NK).
    { intros y [<-|Hy]; [exact Hx|]. destruct (Hs y Hy) as [Hn Hd].
      destruct (in_dec ninfo_eq_dec y NK) as [Hin|Hout]; [exact Hin|].
      pose proof (nk_closest x y Hx Hn Hout). lia. }
    assert (Hnd' : NoDup (x :: S)).
    { constructor; [|exact Hnd]. intros Hin. destruct (Hs x Hin) as [_ Hd]. lia. }
    pose proof (NoDup_incl_length Hnd' Hincl) as Hlen. simpl in Hlen. lia.
  Qed.

  Theorem C02_exact sched :
    honest_exec init sched ->
    at_stalled_offer (run sched) = true ->
    st_offered (run sched) <> [] ->
    forall x, In x (map nkey (st_closest (run sched))) <-> In x NK.
  Proof.
    intros Hex Hstall Hseed.
    pose proof (inv_exec sched init TInv_init) as HT.
    pose proof (hinv_exec sched init TInv_init HInv_init Hex) as HH.
    destruct (C03_stall_predicate D node_filter data_filter tb tb_refl tb_eq tb_antisym tb_trans
                target k alpha k_pos alpha_pos sched Hstall) as [Hout [Hinf Hpred]].
    change (Traversal.exec D node_filter data_filter tb true target k alpha init sched)
      with (run sched) in *.
    set (s := run sched) in *.
    pose proof HH as HH'. hinv_open HH'.
    pose proof (inv_closest _ _ _ _ _ _ _ _ HT) as Hcl.
    set (all := kn_all D tb target (st_pushed s)) in *.
    assert (Hallsorted : kn_sorted D tb target all)
      by (apply (kn_all_sorted D tb tb_refl tb_eq tb_antisym tb_trans)).
    assert (Hspec : st_closest s = firstn k all).
    { rewrite Hcl. apply (kn_run_spec D tb tb_refl tb_eq tb_antisym tb_trans). }
    assert (Hclsorted : kn_sorted D tb target (st_closest s)).
    { rewrite Hcl. apply (kn_run_ksorted D tb tb_refl tb_eq tb_antisym tb_trans). }
    assert (Hlenk : length (st_closest s) <= k).
    { rewrite Hcl. apply (kn_run_le D tb tb_refl tb_eq tb_antisym tb_trans). }
    (* members of the untrimmed container are responders of the network *)
    assert (Hall_net : forall m, In m all -> In (nkey m) Net /\ In (snd (nkey m)) (st_queried s)).
    { intros m Hm. apply (kn_all_incl D tb tb_refl tb_eq tb_antisym tb_trans) in Hm.
      destruct (inv_pushed _ _ _ _ _ _ _ _ HT m Hm) as [n [d [-> [Hr _]]]].
      destruct (Hrespd (n, d) Hr) as [H1 H2]. destruct n as [ni na]. split; assumption. }
    assert (Hcl_all : forall m, In m (st_closest s) -> In m all).
    { intros m Hm. rewrite Hspec in Hm. exact (In_firstn _ _ _ _ Hm). }
    assert (L1 : forall y, In y (map nkey (st_closest s)) -> In y Net).
    { intros y Hy. apply in_map_iff in Hy. destruct Hy as [m [<- Hm]].
      exact (proj1 (Hall_net m (Hcl_all m Hm))). }
    assert (L2 : NoDup (map nkey (st_closest s))).
    { apply NoDup_map_on.
      - apply (srt_nodup _ (@k_cmp D tb target)); [exact Hclsorted|].
        intros a. apply (kcmp_eq_same_key D tb tb_refl tb_eq). split; reflexivity.
      - intros a b Ha Hb He.
        apply (kn_sorted_keys_unique D tb tb_refl tb_eq target _ a b Hclsorted Ha Hb).
        unfold nkey in He. injection He as H1 H2. split; assumption. }
    (* A: something was queried *)
    assert (HA : exists c1, In c1 (st_started s)).
    { destruct (st_offered s) as [|c0 rest] eqn:Eo; [congruence|].
      assert (Hc0 : In c0 (st_offered s)) by (rewrite Eo; left; reflexivity).
      rewrite <- Eo in *.
      assert (Hq : forall a, In a (st_queried s) -> exists c1, In c1 (st_started s)).
      { intros a Ha. apply (inv_queried _ _ _ _ _ _ _ _ HT) in Ha. apply in_map_iff in Ha.
        destruct Ha as [c1 [_ Hc1]]. exists c1. exact Hc1. }
      destruct (Hpred c0 Hc0 (proj1 (Hoff c0 Hc0))) as [Hq0|[Hfull _]]; [exact (Hq _ Hq0)|].
      unfold kn_full in Hfull. apply Nat.leb_le in Hfull.
      destruct (st_closest s) as [|m cl] eqn:Ec; [simpl in Hfull; lia|].
      apply (Hq (snd (nkey m))). apply Hall_net. apply Hcl_all. left. reflexivity. }
    destruct HA as [c1 Hc1].
    (* B: the K closest nodes have all been offered *)
    assert (HB : forall x, In x NK -> In (ni_ami x) (st_offered s)).
    { destruct (Hspr c1 Hc1) as [[qw [Hw _]]|Hr]; [|exact Hr]. rewrite Hinf in Hw. destruct Hw. }
    (* members of the closest set that are all strictly closer than x: at most |NK|-1 of them *)
    assert (Hcount : forall x, In x NK ->
              (forall m, In m (st_closest s) -> (dist (k_id m) target < dist (fst x) target)%N) ->
              length (st_closest s) < length NK).
    { intros x Hx Hlt. rewrite <- (map_length nkey). apply (closer_count _ x Hx L2).
      intros y Hy. split; [exact (L1 y Hy)|]. apply in_map_iff in Hy.
      destruct Hy as [m [<- Hm]]. exact (Hlt m Hm). }
    (* C: every one of the K closest nodes has been queried *)
    assert (HC : forall x, In x NK -> In (snd x) (st_queried s)).
    { intros x Hx.
      destruct (Hpred (ni_ami x) (HB x Hx) (net_filter x (nk_incl x Hx)))
        as [Hq|[Hfull [Hnone|[i [f [Hi [Hfar Hd]]]]]]]; [exact Hq|discriminate Hnone|].
      exfalso. cbn in Hi. injection Hi as <-.
      assert (Hlen : length (st_closest s) = k).
      { unfold kn_full in Hfull. apply Nat.leb_le in Hfull. lia. }
      assert (length (st_closest s) < length NK).
      { apply (Hcount x Hx). intros m Hm.
        pose proof (kn_farthest_bound D tb tb_refl tb_eq target _ f Hclsorted Hfar m Hm) as Hb.
        apply (kcmp_le_dist D tb target) in Hb. lia. }
      rewrite nk_len in *. lia. }
    (* D: and has answered, so it sits in the untrimmed container *)
    assert (HD : forall x, In x NK -> exists y, In y all /\ nkey y = x).
    { intros x Hx. pose proof (HC x Hx) as Hq.
      apply (inv_queried _ _ _ _ _ _ _ _ HT) in Hq. apply in_map_iff in Hq.
      destruct Hq as [c [Hca Hc]].
      destruct (Hans c Hc) as [[qw [Hw _]]|[n [d [Hn [Hna [Hr Hd]]]]]];
        [rewrite Hinf in Hw; destruct Hw|].
      assert (n = x).
      { apply (map_inj_on snd Net n x net_addrs Hn (nk_incl x Hx)). congruence. }
      subst n.
      pose proof (inv_pushed_all _ _ _ _ _ _ _ _ HT (x, d) Hr (net_filter x (nk_incl x Hx)) Hd) as Hp.
      destruct (kn_all_has_key D tb tb_refl tb_eq tb_antisym tb_trans target _ _ Hp) as [y [Hy [Hk1 Hk2]]].
      exists y. split; [exact Hy|]. unfold nkey. cbn in Hk1, Hk2. rewrite Hk1, Hk2.
      destruct x; reflexivity. }
    (* E: NK is inside the closest set *)
    assert (HE : forall x, In x NK -> In x (map nkey (st_closest s))).
    { intros x Hx. destruct (HD x Hx) as [y [Hy Hky]].
      rewrite <- (firstn_skipn k all) in Hy. apply in_app_or in Hy. destruct Hy as [Hy|Hy].
      - rewrite <- Hky. apply in_map. rewrite Hspec. exact Hy.
      - exfalso.
        assert (Hlen : length (st_closest s) = k).
        { rewrite Hspec, firstn_length.
          assert (k < length all).
          { destruct (Nat.lt_ge_cases k (length all)) as [Hl|Hl]; [exact Hl|].
            rewrite (skipn_all2 all Hl) in Hy. destruct Hy. }
          lia. }
        assert (length (st_closest s) < length NK).
        { apply (Hcount x Hx). intros m Hm.
          assert (Hlt : @k_cmp D tb target m y = Lt).
          { apply (srt_app _ (@k_cmp D tb target) (firstn k all) (skipn k all)).
            - rewrite firstn_skipn. exact Hallsorted.
            - rewrite <- Hspec. exact Hm.
            - exact Hy. }
          pose proof (kcmp_lt_dist D tb target m y Hlt) as Hle.
          assert (Hyx : k_id y = fst x) by (rewrite <- Hky; reflexivity).
          rewrite Hyx in Hle.
          destruct (N.eq_dec (dist (k_id m) target) (dist (fst x) target)) as [Heq|Hne]; [|lia].
          exfalso. apply dist_inj_l in Heq.
          assert (Hmx : nkey m = x).
          { apply (map_inj_on fst Net (nkey m) x net_ids).
            - exact (proj1 (Hall_net m (Hcl_all m Hm))).
            - exact (nk_incl x Hx).
            - exact Heq. }
          assert (Hsk : same_key D m y).
          { rewrite <- Hky in Hmx. unfold nkey in Hmx. injection Hmx as H1 H2. split; assumption. }
          apply (kcmp_eq_same_key D tb tb_refl tb_eq target) in Hsk. congruence. }
        rewrite nk_len in *. lia. }
    (* F: and the closest set is inside NK (cardinality) *)
    intros x. split; [|exact (HE x)].
    assert (Hle : length (map nkey (st_closest s)) <= length NK).
    { rewrite nk_len. apply Nat.min_glb.
      - rewrite map_length. exact Hlenk.
      - apply NoDup_incl_length; [exact L2|exact L1]. }
    exact (NoDup_length_incl nk_nodup Hle HE x).
  Qed.
End Exact.

(* ---------------- the K closest nodes of a network, as a function ---------------- *)
Lemma ins_length_new (A : Type) (cmp : A -> A -> comparison) x l :
  (forall y, In y l -> cmp x y <> Eq) -> length (ins cmp x l) = S (length l).
Proof.
  induction l as [|a l IH]; simpl; intros H; [reflexivity|].
  destruct (cmp x a) eqn:E.
  - exfalso. exact (H a (or_introl eq_refl) E).
  - reflexivity.
  - simpl. rewrite IH; [reflexivity|]. intros y Hy. apply H. right. exact Hy.
Qed.

Section KClosest.
  Variable tb : addrport -> addrport -> comparison.
  Hypothesis tb_refl : forall a, tb a a = Eq.
  Hypothesis tb_eq : forall a b, tb a b = Eq -> a = b.
  Hypothesis tb_antisym : forall a b, tb b a = CompOpp (tb a b).
  Hypothesis tb_trans : forall a b c, tb a b = Lt -> tb b c = Lt -> tb a c = Lt.
  Variable target : N.
  Variable k : nat.

  Definition nk_elem (n : ninfo) : kelem unit := mkK (fst n) (snd n) tt.
  (* the K nodes of Net nearest to the target: push all of them into a K-nearest container *)
  Definition k_closest (Net : list ninfo) : list ninfo :=
    map (nkey unit) (kn_run unit tb target k (map nk_elem Net)).

  Lemma nkey_nk_elem n : nkey unit (nk_elem n) = n.
  Proof. destruct n; reflexivity. Qed.

  Lemma nk_elem_nkey (m : kelem unit) : nk_elem (nkey unit m) = m.
  Proof. destruct m as [i a []]. reflexivity. Qed.

  Variable Net : list ninfo.
  Hypothesis net_ids : NoDup (map fst Net).

  Lemma k_closest_incl : incl (k_closest Net) Net.
  Proof.
    intros y Hy. unfold k_closest in Hy. apply in_map_iff in Hy. destruct Hy as [m [<- Hm]].
    apply (kn_run_incl unit tb tb_refl tb_eq tb_antisym tb_trans) in Hm.
    apply in_map_iff in Hm. destruct Hm as [n [<- Hn]]. rewrite nkey_nk_elem. exact Hn.
  Qed.

  Lemma k_closest_nodup : NoDup (k_closest Net).
  Proof.
    unfold k_closest.
    assert (Hs := kn_run_ksorted unit tb tb_refl tb_eq tb_antisym tb_trans target k (map nk_elem Net)).
    apply NoDup_map_on.
    - apply (srt_nodup _ (@k_cmp unit tb target)); [exact Hs|].
      intros a. apply (kcmp_eq_same_key unit tb tb_refl tb_eq). split; reflexivity.
    - intros a b Ha Hb He.
      apply (kn_sorted_keys_unique unit tb tb_refl tb_eq target _ a b Hs Ha Hb).
      unfold nkey in He. injection He as H1 H2. split; assumption.
  Qed.

  Lemma kn_all_length_distinct (l : list ninfo) :
    NoDup (map fst l) -> length (kn_all unit tb target (map nk_elem l)) = length l.
  Proof.
    induction l as [|x l IH] using rev_ind; intros Hnd; [reflexivity|].
    rewrite map_app in Hnd. simpl in Hnd.
    rewrite map_app. simpl. rewrite (kn_all_snoc unit tb), (kn_insert_ins unit tb).
    assert (Hl : NoDup (map fst l)) by (apply NoDup_remove_1 in Hnd; rewrite app_nil_r in Hnd; exact Hnd).
    assert (Hx : ~ In (fst x) (map fst l)) by (apply NoDup_remove_2 in Hnd; rewrite app_nil_r in Hnd; exact Hnd).
    rewrite ins_length_new.
    - rewrite (IH Hl), app_length. simpl. lia.
    - intros y Hy E. apply (kcmp_eq_same_key unit tb tb_refl tb_eq) in E. destruct E as [E _].
      apply (kn_all_incl unit tb tb_refl tb_eq tb_antisym tb_trans) in Hy.
      apply in_map_iff in Hy. destruct Hy as [n [<- Hn]]. cbn in E.
      apply Hx. rewrite E. apply in_map. exact Hn.
  Qed.

  Lemma k_closest_length : length (k_closest Net) = Nat.min k (length Net).
  Proof.
    unfold k_closest. rewrite map_length.
    rewrite (kn_run_length unit tb tb_refl tb_eq tb_antisym tb_trans).
    rewrite (kn_all_length_distinct Net net_ids). reflexivity.
  Qed.

  Lemma k_closest_nearest a b :
    In a (k_closest Net) -> In b Net -> ~ In b (k_closest Net) ->
    (dist (fst a) target < dist (fst b) target)%N.
  Proof.
    intros Ha Hb Hnb. pose proof (k_closest_incl a Ha) as HaN.
    unfold k_closest in Ha. apply in_map_iff in Ha. destruct Ha as [m [<- Hm]].
    assert (Hp : In (nk_elem b) (map nk_elem Net)) by (apply in_map; exact Hb).
    destruct (kn_all_has_key unit tb tb_refl tb_eq tb_antisym tb_trans target _ _ Hp) as [y [Hy [Hk1 Hk2]]].
    assert (Ey : y = nk_elem b).
    { destruct y as [yi ya []]. cbn in Hk1, Hk2. subst. reflexivity. }
    subst y.
    assert (Hny : ~ In (nk_elem b) (kn_run unit tb target k (map nk_elem Net))).
    { intros Hin. apply Hnb. unfold k_closest. rewrite <- (nkey_nk_elem b). apply in_map. exact Hin. }
    destruct (kn_run_nearest unit tb tb_refl tb_eq tb_antisym tb_trans target k _ m _ Hm Hy Hny) as [_ Hle].
    cbn in Hle. cbn.
    destruct (N.eq_dec (dist (k_id m) target) (dist (fst b) target)) as [E|E]; [|lia].
    exfalso. apply dist_inj_l in E.
    assert (nkey unit m = b) by (apply (map_inj_on fst Net _ _ net_ids HaN Hb); exact E).
    apply Hnb. rewrite <- H. unfold k_closest. apply in_map. exact Hm.
  Qed.
End KClosest.

(* C02_exact with NK instantiated by the function *)
Theorem C02_exact_k_closest
  (D : Type) (node_filter : ami -> bool) (data_filter : D -> bool)
  (tb : addrport -> addrport -> comparison)
  (tb_refl : forall a, tb a a = Eq) (tb_eq : forall a b, tb a b = Eq -> a = b)
  (tb_antisym : forall a b, tb b a = CompOpp (tb a b))
  (tb_trans : forall a b c, tb a b = Lt -> tb b c = Lt -> tb a c = Lt)
  (target : N) (k alpha : nat) (k_pos : 1 <= k) (alpha_pos : 1 <= alpha)
  (Net : list ninfo)
  (net_ids : NoDup (map fst Net)) (net_addrs : NoDup (map snd Net))
  (net_filter : forall n, In n Net -> node_filter (ni_ami n) = true)
  (sched : list (label D)) :
  honest_exec D node_filter data_filter tb target k alpha Net (k_closest tb target k Net) init sched ->
  at_stalled_offer (run D node_filter data_filter tb true target k alpha sched) = true ->
  st_offered (run D node_filter data_filter tb true target k alpha sched) <> [] ->
  forall x, In x (map (nkey D) (st_closest (run D node_filter data_filter tb true target k alpha sched)))
            <-> In x (k_closest tb target k Net).
Proof.
  exact (C02_exact D node_filter data_filter tb tb_refl tb_eq tb_antisym tb_trans target k alpha
           k_pos alpha_pos Net net_ids net_addrs net_filter (k_closest tb target k Net)
           (k_closest_incl tb tb_refl tb_eq tb_antisym tb_trans target k Net)
           (k_closest_nodup tb tb_refl tb_eq tb_antisym tb_trans target k Net)
           (k_closest_length tb tb_refl tb_eq tb_antisym tb_trans target k Net net_ids)
           (k_closest_nearest tb tb_refl tb_eq tb_antisym tb_trans target k Net net_ids)
           sched).
Qed.

Print Assumptions C02_exact.
Print Assumptions C02_exact_k_closest.
