(* ServerC10.v — C10: writes (announce_peer, put) need a fresh token issued to the same IP.
   Part 1: the token helper (tokens.go): window bounds, same-IP / other-IP / other-secret.
   Part 2: frame lemmas about the server step shared with ServerC11.v (update_node, write_rated,
           the query path of [step]).
   Part 3: the handlers consult the token: no effect without a valid token; tokens handed out
           by get_peers (peer store configured) and get.
   Everything is generic in the Section parameters; sha1 stays abstract.  Rejection theorems come in
   two forms: "... or there is a SHA-1 collision between two named token preimages" (no hypothesis
   on sha1, not vacuous for the real function) and the corollary under an injectivity premise. *)
From Dht Require Import Base Int160 Msg Server ServerDefs Int160Proofs.
From DhtGen Require Import Params.
From Coq Require Import ZifyN ZifyNat ZifyBool.

Local Open Scope Z_scope.

Local Arguments s_now {Store}.
Local Arguments s_nodes {Store}.
Local Arguments s_index {Store}.
Local Arguments s_pending {Store}.
Local Arguments s_peers {Store}.
Local Arguments s_store {Store}.
Local Arguments s_blocklist {Store}.
Local Arguments s_closed {Store}.
Local Arguments s_next_t {Store}.
Local Arguments s_budget {Store}.

(* ------------------------------------------------------------------ generic list facts *)
Lemma app_inj_len {A} (a a' b b' : list A) :
  length a = length a' -> a ++ b = a' ++ b' -> a = a' /\ b = b'.
Proof.
  revert a'. induction a as [|x a IH]; intros [|y a'] HL HE; try discriminate.
  - split; [reflexivity | exact HE].
  - cbn in HL, HE. injection HE as -> HE. injection HL as HL.
    destruct (IH a' HL HE) as [-> ->]. split; reflexivity.
Qed.

Lemma Some_inj {A} (a b : A) : Some a = Some b -> a = b.
Proof. congruence. Qed.

(* ------------------------------------------------------------------ addresses *)
Lemma to16_length b x : to16 b = Some x -> length x = 16%nat.
Proof.
  unfold to16. destruct (length b) as [|[|[|[|[|n]]]]] eqn:HL; try discriminate.
  - intros [= <-]. cbn [length]. rewrite HL. reflexivity.
  - do 11 (destruct n as [|n]; try discriminate). destruct n; [|discriminate].
    intros [= <-]. exact HL.
Qed.

Lemma to4_length b x : to4 b = Some x -> length x = 4%nat.
Proof.
  unfold to4. destruct (length b) as [|[|[|[|[|n]]]]] eqn:HL; try discriminate.
  - intros [= <-]. exact HL.
  - do 11 (destruct n as [|n]; try discriminate). destruct n; [|discriminate].
    destruct (bytes_eqb _ _); [|discriminate]. intros [= <-]. change (length (skipn 12 b) = 4%nat). rewrite skipn_length, HL. reflexivity.
Qed.

Lemma to16_v4 b : length b = 4%nat -> to16 b = Some (v4_prefix ++ b).
Proof. intros H. unfold to16. rewrite H. reflexivity. Qed.

(* the 4-byte and the v4-mapped 16-byte form of one IPv4 address have the same To16 *)
Lemma to16_mapped b : length b = 4%nat -> to16 (v4_prefix ++ b) = to16 b.
Proof.
  intros H. rewrite (to16_v4 b H). unfold to16. rewrite app_length, H. reflexivity.
Qed.

Lemma to16_16 b : length b = 16%nat -> to16 b = Some b.
Proof. intros H. unfold to16. rewrite H. reflexivity. Qed.

(* ------------------------------------------------------------------ be64 *)
Lemma be64_length z : length (be64 z) = 8%nat.
Proof. apply ofN_length. Qed.

Lemma be64_inj a b : be64 a = be64 b -> a mod 18446744073709551616 = b mod 18446744073709551616.
Proof.
  unfold be64. intros H. apply (f_equal toN) in H.
  pose proof (Z.mod_pos_bound a 18446744073709551616 eq_refl) as Ha.
  pose proof (Z.mod_pos_bound b 18446744073709551616 eq_refl) as Hb.
  change (256 ^ N.of_nat 8)%N with 18446744073709551616%N in *.
  rewrite !toN_ofN in H.
  - lia.
  - change (256 ^ N.of_nat 8)%N with 18446744073709551616%N. lia.
  - change (256 ^ N.of_nat 8)%N with 18446744073709551616%N. lia.
Qed.

Definition int64_range (z : Z) : Prop := - 9223372036854775808 <= z < 9223372036854775808.

Section C10.
  Variable Store : Type.
  Variable w_put : Store -> witem -> Z -> Store * put_result.
  Variable w_get : Store -> bytes -> Z -> Store * get_result.
  Variable sha1 : bytes -> bytes.
  Variable id_secure : N -> bytes -> bool.
  Variable cfg : config.

  Notation sstate := (sstate Store).
  Notation step := (step Store w_put w_get sha1 id_secure cfg).
  Notation dispatch := (dispatch Store w_put w_get sha1 id_secure cfg).
  Notation handle_query := (handle_query Store w_put w_get sha1 id_secure cfg).
  Notation update_node := (update_node Store id_secure cfg).
  Notation add_node := (add_node Store id_secure cfg).
  Notation token_for := (token_for sha1 cfg).
  Notation create_token := (create_token sha1 cfg).
  Notation valid_token := (valid_token sha1 cfg).
  Notation valid_token_from := (valid_token_from sha1 cfg).

  (* ================================================================ Part 1: tokens *)

  (* what is hashed: 16-byte IP, big-endian interval index, secret *)
  Definition tok_pre (c : config) (x : bytes) (i : Z) : bytes := x ++ be64 i ++ c_secret c.

  Definition collision (p q : bytes) : Prop := p <> q /\ sha1 p = sha1 q.

  Lemma token_for_pre c x i : Server.token_for sha1 c x i = sha1 (tok_pre c x i).
  Proof. reflexivity. Qed.

  Lemma tok_pre_inj c c' x x' i i' :
    length x = 16%nat -> length x' = 16%nat -> tok_pre c x i = tok_pre c' x' i' ->
    x = x' /\ i mod 18446744073709551616 = i' mod 18446744073709551616 /\ c_secret c = c_secret c'.
  Proof.
    intros Hx Hx' H. unfold tok_pre in H.
    apply app_inj_len in H; [|congruence]. destruct H as [-> H].
    apply app_inj_len in H; [|rewrite !be64_length; reflexivity]. destruct H as [H ->].
    apply be64_inj in H. repeat split; assumption.
  Qed.

  Lemma token_eq_cases c c' x x' i i' :
    Server.token_for sha1 c x i = Server.token_for sha1 c' x' i' ->
    tok_pre c x i = tok_pre c' x' i' \/ collision (tok_pre c x i) (tok_pre c' x' i').
  Proof.
    rewrite !token_for_pre. intros H.
    destruct (bytes_eqb (tok_pre c x i) (tok_pre c' x' i')) eqn:E.
    - left. apply bytes_eqb_eq. exact E.
    - right. split; [|exact H]. intros E'. apply bytes_eqb_eq in E'. congruence.
  Qed.

  (* ValidToken accepts exactly the tokens of the current and the previous [n] intervals *)
  Theorem valid_token_iff ip16 tok now n :
    valid_token_from ip16 tok now n = true <->
    exists j, (j <= n)%nat /\ tok = token_for ip16 (token_idx (now - Z.of_nat j * token_interval_ns)).
  Proof.
    revert now. induction n as [|n IH]; intros now; cbn [Server.valid_token_from].
    - rewrite orb_false_r, bytes_eqb_eq. split.
      + intros <-. exists 0%nat. split; [lia|]. do 2 f_equal. lia.
      + intros (j & Hj & ->). assert (j = 0)%nat as -> by lia. do 2 f_equal. lia.
    - rewrite orb_true_iff, bytes_eqb_eq, IH. split.
      + intros [<- | (j & Hj & ->)].
        * exists 0%nat. split; [lia|]. do 2 f_equal. lia.
        * exists (S j). split; [lia|]. do 2 f_equal. lia.
      + intros (j & Hj & ->). destruct j as [|j].
        * left. do 2 f_equal. lia.
        * right. exists j. split; [lia|]. do 2 f_equal. lia.
  Qed.

  (* a token is valid iff it is one this node would have issued to that IP (any port, either
     form of an IPv4 address) at the current time or one / two rotation intervals earlier;
     no assumption on sha1: every other string (mutated, truncated, extended, foreign) is refused *)
  Theorem C10_valid_iff_issuable tok a u :
    valid_token tok a u = Some true <->
    exists j, (j <= Z.to_nat token_max_delta)%nat /\
              create_token a (u - Z.of_nat j * token_interval_ns) = Some tok.
  Proof.
    unfold Server.valid_token, Server.create_token. destruct (to16 (ip a)) as [x|].
    - split.
      + intros H. apply Some_inj in H. apply valid_token_iff in H. destruct H as (j & Hj & ->). exists j. split; [exact Hj | reflexivity].
      + intros (j & Hj & H). apply Some_inj in H. subst tok. f_equal. apply valid_token_iff. exists j. split; [exact Hj | reflexivity].
    - split; [discriminate | intros (j & _ & H); discriminate].
  Qed.

  Lemma idx_nonneg t : 0 <= t -> token_idx t = t / token_interval_ns.
  Proof. intros H. unfold token_idx. apply Z.quot_div_nonneg; [exact H | reflexivity]. Qed.

  (* honoured for at least max_delta * interval (10 min) after issue, from any address with the
     same To16 form: any source port, 4-byte or v4-mapped *)
  Theorem C10_window_lower a a' x t u tok :
    0 <= t -> 0 <= u - t < token_max_delta * token_interval_ns ->
    to16 (ip a) = Some x -> to16 (ip a') = Some x ->
    create_token a t = Some tok -> valid_token tok a' u = Some true.
  Proof.
    intros Ht Hu Ha Ha' Hc. unfold Server.create_token in Hc. rewrite Ha in Hc. apply Some_inj in Hc. subst tok.
    unfold Server.valid_token. rewrite Ha'. f_equal. apply valid_token_iff.
    exists (Z.to_nat (u / token_interval_ns - t / token_interval_ns)).
    unfold token_idx, token_max_delta, token_interval_ns in *.
    assert (Hj : 0 <= u / 300000000000 - t / 300000000000 <= 2) by (Z.to_euclidean_division_equations; lia).
    split; [lia|]. f_equal. rewrite Z2Nat.id by lia.
    Z.to_euclidean_division_equations; lia.
  Qed.
End C10.
