(* ServerC10.v — C10: writes (announce_peer, put) need a fresh token issued to the same IP.
   Part 1: the token helper (tokens.go): window bounds, same-IP / other-IP / other-secret.
   Part 2: frame lemmas about the server step shared with ServerC11.v (update_node, write_rated,
           the query path of [step]).
   Part 3: the handlers consult the token: no effect without a valid token; tokens handed out
           by get_peers (peer store configured) and get.
   Everything is generic in the Section parameters; sha1 stays abstract.  Rejection theorems come in
   two forms: "... or there is a SHA-1 collision between two named token preimages" (no hypothesis
   on sha1, not vacuous for the real function) and the corollary under an injectivity premise. *)
From Dht Require Import Base Int160 Msg Server ServerDefs Int160Proofs.
From DhtGen Require Import Params.
From Coq Require Import ZifyN ZifyNat ZifyBool.

Local Open Scope Z_scope.

Local Arguments s_now {Store}.
Local Arguments s_nodes {Store}.
Local Arguments s_index {Store}.
Local Arguments s_pending {Store}.
Local Arguments s_peers {Store}.
Local Arguments s_store {Store}.
Local Arguments s_blocklist {Store}.
Local Arguments s_closed {Store}.
Local Arguments s_next_t {Store}.
Local Arguments s_budget {Store}.

(* ------------------------------------------------------------------ generic list facts *)
Lemma app_inj_len {A} (a a' b b' : list A) :
  length a = length a' -> a ++ b = a' ++ b' -> a = a' /\ b = b'.
Proof.
  revert a'. induction a as [|x a IH]; intros [|y a'] HL HE; try discriminate.
  - split; [reflexivity | exact HE].
  - cbn in HL, HE. injection HE as -> HE. injection HL as HL.
    destruct (IH a' HL HE) as [-> ->]. split; reflexivity.
Qed.

Lemma Some_inj {A} (a b : A) : Some a = Some b -> a = b.
Proof. congruence. Qed.

(* ------------------------------------------------------------------ addresses *)
Lemma to16_length b x : to16 b = Some x -> length x = 16%nat.
Proof.
  unfold to16. destruct (length b) as [|[|[|[|[|n]]]]] eqn:HL; try discriminate.
  - intros [= <-]. cbn [length]. rewrite HL. reflexivity.
  - do 11 (destruct n as [|n]; try discriminate). destruct n; [|discriminate].
    intros [= <-]. exact HL.
Qed.

Lemma to4_length b x : to4 b = Some x -> length x = 4%nat.
Proof.
  unfold to4. destruct (length b) as [|[|[|[|[|n]]]]] eqn:HL; try discriminate.
  - intros [= <-]. exact HL.
  - do 11 (destruct n as [|n]; try discriminate). destruct n; [|discriminate].
    destruct (bytes_eqb _ _); [|discriminate]. intros [= <-]. change (length (skipn 12 b) = 4%nat). rewrite skipn_length, HL. reflexivity.
Qed.

Lemma to16_v4 b : length b = 4%nat -> to16 b = Some (v4_prefix ++ b).
Proof. intros H. unfold to16. rewrite H. reflexivity. Qed.

(* the 4-byte and the v4-mapped 16-byte form of one IPv4 address have the same To16 *)
Lemma to16_mapped b : length b = 4%nat -> to16 (v4_prefix ++ b) = to16 b.
Proof.
  intros H. rewrite (to16_v4 b H). unfold to16. rewrite app_length, H. reflexivity.
Qed.

Lemma to16_16 b : length b = 16%nat -> to16 b = Some b.
Proof. intros H. unfold to16. rewrite H. reflexivity. Qed.

(* ------------------------------------------------------------------ be64 *)
Lemma be64_length z : length (be64 z) = 8%nat.
Proof. apply ofN_length. Qed.

Lemma be64_inj a b : be64 a = be64 b -> a mod 18446744073709551616 = b mod 18446744073709551616.
Proof.
  unfold be64. intros H. apply (f_equal toN) in H.
  pose proof (Z.mod_pos_bound a 18446744073709551616 eq_refl) as Ha.
  pose proof (Z.mod_pos_bound b 18446744073709551616 eq_refl) as Hb.
  change (256 ^ N.of_nat 8)%N with 18446744073709551616%N in *.
  rewrite !toN_ofN in H.
  - lia.
  - change (256 ^ N.of_nat 8)%N with 18446744073709551616%N. lia.
  - change (256 ^ N.of_nat 8)%N with 18446744073709551616%N. lia.
Qed.

(* destruct every if / match scrutinee of hypothesis H (small model functions only) *)
Ltac break_in H :=
  repeat match type of H with
         | context [if ?b then _ else _] => destruct b eqn:?
         | context [match ?x with _ => _ end] => destruct x eqn:?
         end; try discriminate H.

Definition int64_range (z : Z) : Prop := - 9223372036854775808 <= z < 9223372036854775808.

Section Tokens.
  Variable sha1 : bytes -> bytes.
  Variable cfg : config.

  Notation token_for := (token_for sha1 cfg).
  Notation create_token := (create_token sha1 cfg).
  Notation valid_token := (valid_token sha1 cfg).
  Notation valid_token_from := (valid_token_from sha1 cfg).

  (* ================================================================ Part 1: tokens *)

  (* what is hashed: 16-byte IP, big-endian interval index, secret *)
  Definition tok_pre (c : config) (x : bytes) (i : Z) : bytes := x ++ be64 i ++ c_secret c.

  Definition collision (p q : bytes) : Prop := p <> q /\ sha1 p = sha1 q.

  Lemma token_for_pre c x i : Server.token_for sha1 c x i = sha1 (tok_pre c x i).
  Proof. reflexivity. Qed.

  Lemma tok_pre_inj c c' x x' i i' :
    length x = 16%nat -> length x' = 16%nat -> tok_pre c x i = tok_pre c' x' i' ->
    x = x' /\ i mod 18446744073709551616 = i' mod 18446744073709551616 /\ c_secret c = c_secret c'.
  Proof.
    intros Hx Hx' H. unfold tok_pre in H.
    apply app_inj_len in H; [|congruence]. destruct H as [-> H].
    apply app_inj_len in H; [|rewrite !be64_length; reflexivity]. destruct H as [H ->].
    apply be64_inj in H. repeat split; assumption.
  Qed.

  Lemma token_eq_cases c c' x x' i i' :
    Server.token_for sha1 c x i = Server.token_for sha1 c' x' i' ->
    tok_pre c x i = tok_pre c' x' i' \/ collision (tok_pre c x i) (tok_pre c' x' i').
  Proof.
    rewrite !token_for_pre. intros H.
    destruct (bytes_eqb (tok_pre c x i) (tok_pre c' x' i')) eqn:E.
    - left. apply bytes_eqb_eq. exact E.
    - right. split; [|exact H]. intros E'. apply bytes_eqb_eq in E'. congruence.
  Qed.

  (* ValidToken accepts exactly the tokens of the current and the previous [n] intervals *)
  Theorem valid_token_iff ip16 tok now n :
    valid_token_from ip16 tok now n = true <->
    exists j, (j <= n)%nat /\ tok = token_for ip16 (token_idx (now - Z.of_nat j * token_interval_ns)).
  Proof.
    revert now. induction n as [|n IH]; intros now; cbn [Server.valid_token_from].
    - rewrite orb_false_r, bytes_eqb_eq. split.
      + intros <-. exists 0%nat. split; [lia|]. do 2 f_equal. lia.
      + intros (j & Hj & ->). assert (j = 0)%nat as -> by lia. do 2 f_equal. lia.
    - rewrite orb_true_iff, bytes_eqb_eq, IH. split.
      + intros [<- | (j & Hj & ->)].
        * exists 0%nat. split; [lia|]. do 2 f_equal. lia.
        * exists (S j). split; [lia|]. do 2 f_equal. lia.
      + intros (j & Hj & ->). destruct j as [|j].
        * left. do 2 f_equal. lia.
        * right. exists j. split; [lia|]. do 2 f_equal. lia.
  Qed.

  (* a token is valid iff it is one this node would have issued to that IP (any port, either
     form of an IPv4 address) at the current time or one / two rotation intervals earlier;
     no assumption on sha1: every other string (mutated, truncated, extended, foreign) is refused *)
  Theorem C10_valid_iff_issuable tok a u :
    valid_token tok a u = Some true <->
    exists j, (j <= Z.to_nat token_max_delta)%nat /\
              create_token a (u - Z.of_nat j * token_interval_ns) = Some tok.
  Proof.
    unfold Server.valid_token, Server.create_token. destruct (to16 (ip a)) as [x|].
    - split.
      + intros H. apply Some_inj in H. apply valid_token_iff in H. destruct H as (j & Hj & ->). exists j. split; [exact Hj | reflexivity].
      + intros (j & Hj & H). apply Some_inj in H. subst tok. f_equal. apply valid_token_iff. exists j. split; [exact Hj | reflexivity].
    - split; [discriminate | intros (j & _ & H); discriminate].
  Qed.

  Lemma idx_nonneg t : 0 <= t -> token_idx t = t / token_interval_ns.
  Proof. intros H. unfold token_idx. apply Z.quot_div_nonneg; [exact H | reflexivity]. Qed.

  (* honoured for at least max_delta * interval (10 min) after issue, from any address with the
     same To16 form: any source port, 4-byte or v4-mapped *)
  Theorem C10_window_lower a a' x t u tok :
    0 <= t -> 0 <= u - t < token_max_delta * token_interval_ns ->
    to16 (ip a) = Some x -> to16 (ip a') = Some x ->
    create_token a t = Some tok -> valid_token tok a' u = Some true.
  Proof.
    intros Ht Hu Ha Ha' Hc. unfold Server.create_token in Hc. rewrite Ha in Hc. apply Some_inj in Hc. subst tok.
    unfold Server.valid_token. rewrite Ha'. f_equal. apply valid_token_iff.
    exists (Z.to_nat (u / token_interval_ns - t / token_interval_ns)).
    unfold token_idx, token_max_delta, token_interval_ns in *.
    assert (Hj : 0 <= u / 300000000000 - t / 300000000000 <= 2) by (Z.to_euclidean_division_equations; lia).
    split; [lia|]. f_equal. rewrite Z2Nat.id by lia.
    Z.to_euclidean_division_equations; lia.
  Qed.
  (* equality of two tokens: equal preimages, or a SHA-1 collision between them *)
  Lemma token_eq_idx x x' c c' i i' :
    length x = 16%nat -> length x' = 16%nat ->
    Server.token_for sha1 c x i = Server.token_for sha1 c' x' i' ->
    (x = x' /\ i mod 18446744073709551616 = i' mod 18446744073709551616 /\ c_secret c = c_secret c')
    \/ collision (tok_pre c x i) (tok_pre c' x' i').
  Proof.
    intros Hx Hx' H. apply token_eq_cases in H. destruct H as [H|H]; [left|right; exact H].
    exact (tok_pre_inj _ _ _ _ _ _ Hx Hx' H).
  Qed.

  (* arithmetic core of the upper bound *)
  Lemma idx_match_bounds t u j :
    0 <= t < 9223372036854775808 -> int64_range u -> (j <= Z.to_nat token_max_delta)%nat ->
    token_idx t mod 18446744073709551616 =
      token_idx (u - Z.of_nat j * token_interval_ns) mod 18446744073709551616 ->
    u - t < (token_max_delta + 1) * token_interval_ns /\ (0 <= u -> - token_interval_ns < u - t).
  Proof.
    unfold int64_range, token_idx, token_max_delta, token_interval_ns. intros Ht Hu Hj H.
    assert (Hj' : 0 <= Z.of_nat j <= 2) by lia. revert H. generalize (Z.of_nat j) Hj'. clear Hj Hj'.
    intros k Hk H. Z.to_euclidean_division_equations; lia.
  Qed.

  (* not honoured 15 minutes (max_delta + 1 intervals) or more after issue — unless SHA-1
     collides on two of the compared preimages.  [0 <= t]: token_idx truncates towards zero as Go's
     integer division does; the int64 bounds are those of time.UnixNano (be64 = uint64 conversion
     wraps modulo 2^64, the model's times are unbounded integers). *)
  Theorem C10_window_upper_or_collision a a' x t u tok :
    0 <= t < 9223372036854775808 -> int64_range u ->
    to16 (ip a) = Some x -> to16 (ip a') = Some x ->
    create_token a t = Some tok -> valid_token tok a' u = Some true ->
    (u - t < (token_max_delta + 1) * token_interval_ns /\ (0 <= u -> - token_interval_ns < u - t))
    \/ exists j, (j <= Z.to_nat token_max_delta)%nat /\
         collision (tok_pre cfg x (token_idx t)) (tok_pre cfg x (token_idx (u - Z.of_nat j * token_interval_ns))).
  Proof.
    intros Ht Hu Ha Ha' Hc Hv. unfold Server.create_token in Hc. rewrite Ha in Hc.
    apply Some_inj in Hc. subst tok.
    unfold Server.valid_token in Hv. rewrite Ha' in Hv. apply Some_inj in Hv.
    apply valid_token_iff in Hv. destruct Hv as (j & Hj & Hv).
    pose proof (to16_length _ _ Ha) as Hx.
    apply token_eq_idx in Hv; [|exact Hx|exact Hx]. destruct Hv as [(_ & Hv & _)|Hv].
    - left. exact (idx_match_bounds t u j Ht Hu Hj Hv).
    - right. exists j. split; [exact Hj | exact Hv].
  Qed.

  Definition sha1_injective : Prop := forall p q : bytes, sha1 p = sha1 q -> p = q.

  Lemma no_collision p q : sha1_injective -> ~ collision p q.
  Proof. intros Hinj [Hne He]. apply Hne, Hinj, He. Qed.

  Theorem C10_window_upper a a' x t u tok :
    sha1_injective ->
    0 <= t < 9223372036854775808 -> int64_range u ->
    to16 (ip a) = Some x -> to16 (ip a') = Some x ->
    create_token a t = Some tok -> valid_token tok a' u = Some true ->
    u - t < (token_max_delta + 1) * token_interval_ns /\ (0 <= u -> - token_interval_ns < u - t).
  Proof.
    intros Hinj Ht Hu Ha Ha' Hc Hv.
    destruct (C10_window_upper_or_collision a a' x t u tok Ht Hu Ha Ha' Hc Hv) as [H | (j & _ & H)].
    - exact H.
    - exfalso. exact (no_collision _ _ Hinj H).
  Qed.

  (* the exact acceptance window on the rotation grid (both after 1970) *)
  Theorem C10_window_exact a a' x t u tok :
    sha1_injective ->
    0 <= t < 9223372036854775808 -> 0 <= u < 9223372036854775808 ->
    to16 (ip a) = Some x -> to16 (ip a') = Some x ->
    create_token a t = Some tok ->
    (valid_token tok a' u = Some true <->
     0 <= u / token_interval_ns - t / token_interval_ns <= token_max_delta).
  Proof.
    intros Hinj Ht Hu Ha Ha' Hc. unfold Server.create_token in Hc. rewrite Ha in Hc.
    apply Some_inj in Hc. subst tok. unfold Server.valid_token. rewrite Ha'.
    pose proof (to16_length _ _ Ha) as Hx. split.
    - intros Hv. apply Some_inj in Hv. apply valid_token_iff in Hv. destruct Hv as (j & Hj & Hv).
      apply token_eq_idx in Hv; [|exact Hx|exact Hx]. destruct Hv as [(_ & Hv & _)|Hv].
      2:{ exfalso. exact (no_collision _ _ Hinj Hv). }
      revert Hv. unfold token_idx, token_max_delta, token_interval_ns in *.
      assert (Hj' : 0 <= Z.of_nat j <= 2) by lia. generalize (Z.of_nat j) Hj'. clear Hj Hj'.
      intros k Hk H. Z.to_euclidean_division_equations; lia.
    - intros H. f_equal. apply valid_token_iff.
      exists (Z.to_nat (u / token_interval_ns - t / token_interval_ns)).
      unfold token_idx, token_max_delta, token_interval_ns in *.
      split; [lia|]. f_equal. rewrite Z2Nat.id by lia.
      Z.to_euclidean_division_equations; lia.
  Qed.

  (* a token issued to another IP (different To16 form) is refused at every time *)
  Theorem C10_other_ip_rejected_or_collision a a' x x' t u tok :
    to16 (ip a) = Some x -> to16 (ip a') = Some x' -> x <> x' ->
    create_token a t = Some tok ->
    valid_token tok a' u = Some false
    \/ exists j, (j <= Z.to_nat token_max_delta)%nat /\
         collision (tok_pre cfg x (token_idx t)) (tok_pre cfg x' (token_idx (u - Z.of_nat j * token_interval_ns))).
  Proof.
    intros Ha Ha' Hne Hc. unfold Server.create_token in Hc. rewrite Ha in Hc.
    apply Some_inj in Hc. subst tok. unfold Server.valid_token. rewrite Ha'.
    destruct (Server.valid_token_from sha1 cfg x' (token_for x (token_idx t)) u (Z.to_nat token_max_delta)) eqn:Hv;
      [|left; reflexivity].
    apply valid_token_iff in Hv. destruct Hv as (j & Hj & Hv).
    apply token_eq_idx in Hv; [|exact (to16_length _ _ Ha)|exact (to16_length _ _ Ha')].
    destruct Hv as [(Hv & _)|Hv]; [contradiction|]. right. exists j. split; [exact Hj | exact Hv].
  Qed.

  Theorem C10_other_ip_rejected a a' x x' t u tok :
    sha1_injective ->
    to16 (ip a) = Some x -> to16 (ip a') = Some x' -> x <> x' ->
    create_token a t = Some tok -> valid_token tok a' u = Some false.
  Proof.
    intros Hinj Ha Ha' Hne Hc.
    destruct (C10_other_ip_rejected_or_collision a a' x x' t u tok Ha Ha' Hne Hc) as [H | (j & _ & H)].
    - exact H.
    - exfalso. exact (no_collision _ _ Hinj H).
  Qed.

  (* a token made by another node (another secret, of any length) is refused, for every pair of
     addresses and times *)
  Theorem C10_other_secret_rejected_or_collision cfg' a a' x x' t u tok :
    c_secret cfg' <> c_secret cfg ->
    to16 (ip a) = Some x -> to16 (ip a') = Some x' ->
    Server.create_token sha1 cfg' a t = Some tok ->
    valid_token tok a' u = Some false
    \/ exists j, (j <= Z.to_nat token_max_delta)%nat /\
         collision (tok_pre cfg' x (token_idx t)) (tok_pre cfg x' (token_idx (u - Z.of_nat j * token_interval_ns))).
  Proof.
    intros Hne Ha Ha' Hc. unfold Server.create_token in Hc. rewrite Ha in Hc.
    apply Some_inj in Hc. subst tok. unfold Server.valid_token. rewrite Ha'.
    destruct (Server.valid_token_from sha1 cfg x' (Server.token_for sha1 cfg' x (token_idx t)) u (Z.to_nat token_max_delta)) eqn:Hv;
      [|left; reflexivity].
    apply valid_token_iff in Hv. destruct Hv as (j & Hj & Hv).
    apply token_eq_idx in Hv; [|exact (to16_length _ _ Ha)|exact (to16_length _ _ Ha')].
    destruct Hv as [(_ & _ & Hv)|Hv]; [contradiction|]. right. exists j. split; [exact Hj | exact Hv].
  Qed.

  Theorem C10_other_secret_rejected cfg' a a' x x' t u tok :
    sha1_injective ->
    c_secret cfg' <> c_secret cfg ->
    to16 (ip a) = Some x -> to16 (ip a') = Some x' ->
    Server.create_token sha1 cfg' a t = Some tok -> valid_token tok a' u = Some false.
  Proof.
    intros Hinj Hne Ha Ha' Hc.
    destruct (C10_other_secret_rejected_or_collision cfg' a a' x x' t u tok Hne Ha Ha' Hc) as [H | (j & _ & H)].
    - exact H.
    - exfalso. exact (no_collision _ _ Hinj H).
  Qed.
  (* why the int64 bounds are there: the model's times are unbounded integers while the interval
     index goes through uint64 (mod 2^64); 2^64 intervals after issue the index repeats.  Not
     reachable in the Go code, whose times are int64 nanoseconds. *)
  Lemma C10_window_upper_needs_int64 a tok :
    create_token a 0 = Some tok ->
    valid_token tok a (18446744073709551616 * token_interval_ns) = Some true.
  Proof.
    unfold Server.create_token, Server.valid_token. destruct (to16 (ip a)) as [x|]; [|discriminate].
    intros H. apply Some_inj in H. subst tok. f_equal. apply valid_token_iff. exists 0%nat. split; [lia|].
    replace (18446744073709551616 * token_interval_ns - Z.of_nat 0 * token_interval_ns)
      with (18446744073709551616 * token_interval_ns) by lia.
    assert (E : be64 (token_idx 0) = be64 (token_idx (18446744073709551616 * token_interval_ns))) by (vm_compute; reflexivity).
    unfold Server.token_for. rewrite E. reflexivity.
  Qed.
End Tokens.

Section C10.
  Variable Store : Type.
  Variable w_put : Store -> witem -> Z -> Store * put_result.
  Variable w_get : Store -> bytes -> Z -> Store * get_result.
  Variable sha1 : bytes -> bytes.
  Variable id_secure : N -> bytes -> bool.
  Variable cfg : config.

  Notation sstate := (sstate Store).
  Notation step := (step Store w_put w_get sha1 id_secure cfg).
  Notation dispatch := (dispatch Store w_put w_get sha1 id_secure cfg).
  Notation handle_query := (handle_query Store w_put w_get sha1 id_secure cfg).
  Notation update_node := (update_node Store id_secure cfg).
  Notation add_node := (add_node Store id_secure cfg).
  Notation token_for := (token_for sha1 cfg).
  Notation create_token := (create_token sha1 cfg).
  Notation valid_token := (valid_token sha1 cfg).
  Notation valid_token_from := (valid_token_from sha1 cfg).

  (* ================================================================ Part 2: frames *)

  (* everything but the routing table (s_nodes, s_index) is the same *)
  Definition same_rest (s s' : sstate) : Prop :=
    s_now s' = s_now s /\ s_pending s' = s_pending s /\ s_peers s' = s_peers s /\
    s_store s' = s_store s /\ s_blocklist s' = s_blocklist s /\ s_closed s' = s_closed s /\
    s_next_t s' = s_next_t s /\ s_budget s' = s_budget s.

  Lemma same_rest_refl s : same_rest s s.
  Proof. repeat split. Qed.

  Lemma same_rest_trans s1 s2 s3 : same_rest s1 s2 -> same_rest s2 s3 -> same_rest s1 s3.
  Proof. unfold same_rest. intuition congruence. Qed.

  Lemma drop_node_rest s n s' : drop_node Store cfg s n = Ok _ s' -> same_rest s s'.
  Proof.
    unfold drop_node. intros H. break_in H. injection H as <-. repeat split.
  Qed.

  Lemma table_add_rest s n s' : table_add Store cfg s n = Ok _ s' -> same_rest s s'.
  Proof.
    unfold table_add. intros H. break_in H. injection H as <-. repeat split.
  Qed.

  Lemma add_node_rest s n v s' r : add_node s n v = Ok _ (s', r) -> same_rest s s'.
  Proof.
    unfold Server.add_node. intros H. break_in H;
      try (injection H as <- <-; apply same_rest_refl).
    - injection H as <- <-.
      eapply same_rest_trans; [eapply drop_node_rest|eapply table_add_rest]; eassumption.
    - injection H as <- <-. eapply table_add_rest; eassumption.
  Qed.

  Lemma update_node_rest s a id ta u v s' r : update_node s a id ta u v = Ok _ (s', r) -> same_rest s s'.
  Proof.
    unfold Server.update_node. intros H.
    destruct id as [i|]; [|injection H as <- <-; apply same_rest_refl].
    destruct (get_node cfg (s_nodes s) a i).
    - destruct v; injection H as <- <-; [apply same_rest_refl | repeat split].
    - destruct (negb ta || N.eqb i (c_root cfg)).
      + injection H as <- <-. apply same_rest_refl.
      + eapply add_node_rest. exact H.
  Qed.
  (* everything but the limiter budget is the same *)
  Definition same_but_budget (s s' : sstate) : Prop :=
    s_now s' = s_now s /\ s_nodes s' = s_nodes s /\ s_index s' = s_index s /\
    s_pending s' = s_pending s /\ s_peers s' = s_peers s /\
    s_store s' = s_store s /\ s_blocklist s' = s_blocklist s /\ s_closed s' = s_closed s /\
    s_next_t s' = s_next_t s.

  Lemma write_rated_spec s dst m k s' out :
    write_rated Store s dst m k = (s', out) ->
    same_but_budget s s' /\ (out = [ESend dst m k] \/ exists n, out = [EDropped n]).
  Proof.
    unfold write_rated. intros H. break_in H; injection H as <- <-;
      (split; [repeat split | first [left; reflexivity | right; eexists; reflexivity]]).
  Qed.

  Lemma lift_write_rated s dst m k s' out :
    lift Store (write_rated Store s dst m k) = HQ Store s' out ->
    same_but_budget s s' /\ (out = [ESend dst m k] \/ exists n, out = [EDropped n]).
  Proof.
    unfold lift. intros H. injection H as H1 H2. apply write_rated_spec.
    rewrite <- H1, <- H2. apply surjective_pairing.
  Qed.

  (* the filters in front of handleQuery's switch: serve() (oversize, port 0, closed, blocklist),
     the OnQuery veto and passive mode *)
  Definition passes (s : sstate) (src : addr) (size : N) (m : msg) : bool :=
    negb (N.eqb size (Z.to_N udp_buf)) && negb (N.eqb (port src) 0) && negb (s_closed s)
    && negb (blocked (s_blocklist s) (ip src)) && c_hook cfg m && negb (c_passive cfg).

  (* a query datagram: the sender's table entry is updated (s1), then either the packet is
     dropped / vetoed / ignored by a passive node without any output, or the method switch runs *)
  Lemma step_query_inv s src size m ch s' out :
    bytes_eqb (m_y m) s_q = true ->
    step s (EPacket src size (Some m)) ch = SR Store s' out ->
    exists s1, same_rest s s1 /\
      if passes s src size m then dispatch s1 src m ch = HQ Store s' out
      else s' = s1 /\ out = [].
  Proof.
    intros Hq H. unfold passes. cbn [Server.step] in H.
    destruct (N.eqb size (Z.to_N udp_buf)); cbn [negb andb].
    { injection H as <- <-. exists s. split; [apply same_rest_refl | split; reflexivity]. }
    destruct (N.eqb (port src) 0); cbn [negb andb].
    { injection H as <- <-. exists s. split; [apply same_rest_refl | split; reflexivity]. }
    destruct (s_closed s); cbn [negb andb].
    { injection H as <- <-. exists s. split; [apply same_rest_refl | split; reflexivity]. }
    destruct (blocked (s_blocklist s) (ip src)); cbn [negb andb].
    { injection H as <- <-. exists s. split; [apply same_rest_refl | split; reflexivity]. }
    rewrite Hq in H. unfold Server.handle_query in H.
    destruct (update_node s src (option_map id_of (sender_id m)) (negb (m_ro m)) UQuery (ch_victim ch))
      as [[s1 r]|] eqn:Hu; [|discriminate].
    apply update_node_rest in Hu. exists s1. split; [exact Hu|].
    destruct (c_hook cfg m); cbn [negb andb].
    - destruct (c_passive cfg); cbn [negb andb].
      + destruct r; try discriminate; injection H as <- <-; split; reflexivity.
      + destruct r; try discriminate;
          (destruct (dispatch s1 src m ch) eqn:Hd; try discriminate; injection H as <- <-; reflexivity).
    - destruct r; try discriminate; injection H as <- <-; split; reflexivity.
  Qed.

  (* the method switch, one lemma per method (the method names are pairwise different) *)
  Lemma dispatch_announce s src m ch :
    m_q m = s_announce_peer ->
    dispatch s src m ch =
      match m_a m with
      | None => lift Store (send_error Store s src (m_t m) err_missing_args)
      | Some a =>
          match valid_token (a_token a) src (s_now s) with
          | None => HQPanic Store
          | Some false => HQ Store s []
          | Some true =>
              let p0 := match a_port a with Some p => (p, true) | None => (0%Z, false) end in
              let p1 := if a_implied_port a then (Z.of_N (port src), true) else p0 in
              let cb := if c_announce_cb cfg then [EAnnounceCb (a_info_hash a) (ip src) (fst p1) (snd p1)] else [] in
              let s1 := if c_peer_store cfg then with_peers Store s (add_peer (s_peers s) (mkPeer (a_info_hash a) (ip src) (fst p1))) else s in
              let st := if c_peer_store cfg then [EPeerAdd (a_info_hash a) (ip src) (fst p1)] else [] in
              let '(s2, out) := reply Store cfg s1 src (m_t m) empty_return in
              HQ Store s2 (cb ++ st ++ out)
          end
      end.
  Proof. intros Hq. unfold Server.dispatch. rewrite Hq. reflexivity. Qed.
  Lemma dispatch_put s src m ch :
    m_q m = s_put ->
    dispatch s src m ch =
      match m_a m with
      | None => lift Store (send_error Store s src (m_t m) err_missing_args)
      | Some a =>
          match valid_token (a_token a) src (s_now s) with
          | None => HQPanic Store
          | Some false => HQ Store s []
          | Some true =>
              match a_seq a with
              | None => lift Store (send_error Store s src (m_t m) err_expected_seq)
              | Some seq =>
                  let it := mkItem (option_map benc (a_v a)) (a_k a) (a_salt a) (a_sig a) (a_cas a) seq in
                  let '(st, res) := w_put (s_store s) it (s_now s) in
                  let s1 := with_store Store s st in
                  match res with
                  | PutOk => lift Store (reply Store cfg s1 src (m_t m) empty_return)
                  | PutKrpcErr e => lift Store (send_error Store s1 src (m_t m) e)
                  | PutOtherErr => lift Store (send_error Store s1 src (m_t m) err_method_unknown)
                  end
              end
          end
      end.
  Proof. intros Hq. unfold Server.dispatch. rewrite Hq. reflexivity. Qed.

  (* ================================================================ Part 3: the handlers *)

  (* announce_peer / put with a token that does not validate: no datagram, no callback, no store
     call; only the sender's routing-table entry may have changed *)
  Theorem C10_effect s src size m a ch s' out :
    m_y m = s_q -> (m_q m = s_announce_peer \/ m_q m = s_put) -> m_a m = Some a ->
    valid_token (a_token a) src (s_now s) = Some false ->
    step s (EPacket src size (Some m)) ch = SR Store s' out ->
    out = [] /\ same_rest s s'.
  Proof.
    intros Hy Hq Ha Hv H. apply bytes_eqb_eq in Hy.
    destruct (step_query_inv s src size m ch s' out Hy H) as (s1 & Hr & Hd).
    destruct (passes s src size m).
    - assert (Hnow : s_now s1 = s_now s) by apply Hr.
      destruct Hq as [Hq|Hq]; [rewrite (dispatch_announce s1 src m ch Hq) in Hd
                              | rewrite (dispatch_put s1 src m ch Hq) in Hd];
        rewrite Ha, Hnow, Hv in Hd; injection Hd as <- <-; (split; [reflexivity | exact Hr]).
    - destruct Hd as [-> ->]. split; [reflexivity | exact Hr].
  Qed.

  (* what counts as the write having taken effect, besides the two stores *)
  Definition is_write_effect (e : effect) : bool :=
    match e with
    | ESend _ _ SReply => true
    | EAnnounceCb _ _ _ _ => true
    | EPeerAdd _ _ _ => true
    | _ => false
    end.

  (* ... and conversely: a stored peer, a changed BEP 44 store, a callback or a reply imply that the
     query carried a token that validated for its source at that moment *)
  Theorem C10_effect_only_with_valid_token s src size m ch s' out :
    m_y m = s_q -> (m_q m = s_announce_peer \/ m_q m = s_put) ->
    step s (EPacket src size (Some m)) ch = SR Store s' out ->
    (s_peers s' <> s_peers s \/ s_store s' <> s_store s \/ exists e, In e out /\ is_write_effect e = true) ->
    exists a, m_a m = Some a /\ valid_token (a_token a) src (s_now s) = Some true.
  Proof.
    intros Hy Hq H Heff. apply bytes_eqb_eq in Hy.
    destruct (step_query_inv s src size m ch s' out Hy H) as (s1 & Hr & Hd).
    assert (Hnone : s_peers s' = s_peers s -> s_store s' = s_store s ->
                    (forall e, In e out -> is_write_effect e = false) -> False).
    { intros H1 H2 H3. destruct Heff as [E|[E|(e & He & E)]]; [tauto | tauto |].
      rewrite (H3 e He) in E. discriminate. }
    destruct Hr as (Hnow & _ & Hpe & Hst & _).
    destruct (passes s src size m).
    2:{ destruct Hd as [-> ->]. exfalso. apply Hnone; [exact Hpe | exact Hst | intros e []]. }
    assert (Herr : forall e0, lift Store (send_error Store s1 src (m_t m) e0) = HQ Store s' out -> False).
    { intros e0 Hl. apply lift_write_rated in Hl. destruct Hl as [Hb Ho]. apply Hnone.
      - destruct Hb as (_ & _ & _ & _ & E & _). congruence.
      - destruct Hb as (_ & _ & _ & _ & _ & E & _). congruence.
      - intros e He. destruct Ho as [-> | [n ->]]; destruct He as [<- | []]; reflexivity. }
    destruct Hq as [Hq|Hq]; [rewrite (dispatch_announce s1 src m ch Hq) in Hd
                            | rewrite (dispatch_put s1 src m ch Hq) in Hd].
    - destruct (m_a m) as [a|]; [|exfalso; exact (Herr _ Hd)].
      rewrite Hnow in Hd. destruct (valid_token (a_token a) src (s_now s)) as [[|]|] eqn:Hv; try discriminate.
      + exists a. split; [reflexivity | exact Hv].
      + injection Hd as <- <-. exfalso. apply Hnone; [exact Hpe | exact Hst | intros e []].
    - destruct (m_a m) as [a|]; [|exfalso; exact (Herr _ Hd)].
      rewrite Hnow in Hd. destruct (valid_token (a_token a) src (s_now s)) as [[|]|] eqn:Hv; try discriminate.
      + exists a. split; [reflexivity | exact Hv].
      + injection Hd as <- <-. exfalso. apply Hnone; [exact Hpe | exact Hst | intros e []].
  Qed.
  Lemma dispatch_get_peers s src m ch :
    m_q m = s_get_peers ->
    dispatch s src m ch =
      match m_a m with
      | None => lift Store (send_error Store s src (m_t m) err_missing_args)
      | Some a =>
          let r0 :=
            if c_peer_store cfg then
              let expect := map (fun x => mkNA (na_ip x) (wire_port (na_port x)))
                                (filter_peers (ip src) (want_list a) (get_peers_of Store s (a_info_hash a))) in
              if is_perm_na (ch_values ch) expect then
                match create_token src (s_now s) with
                | None => None
                | Some tok => Some (ret_with_token (ret_with_values empty_return (opt_nonempty (ch_values ch))) (Some tok))
                end
              else None
            else match ch_values ch with [] => Some empty_return | _ => None end in
          match r0 with
          | None => HQBadChoice Store
          | Some r =>
              match r_values r with
              | Some _ => match ch_nodes ch, ch_nodes6 ch with
                          | [], [] => lift Store (reply Store cfg s src (m_t m) r)
                          | _, _ => HQBadChoice Store
                          end
              | None => match set_return_nodes Store id_secure cfg s src a (id_of (a_info_hash a)) ch r with
                        | None => HQBadChoice Store
                        | Some r' => lift Store (reply Store cfg s src (m_t m) r')
                        end
              end
          end
      end.
  Proof. intros Hq. unfold Server.dispatch. rewrite Hq. reflexivity. Qed.

  Lemma dispatch_get s src m ch :
    m_q m = s_get ->
    dispatch s src m ch =
      match m_a m with
      | None => lift Store (send_error Store s src (m_t m) err_missing_args)
      | Some a =>
          match set_return_nodes Store id_secure cfg s src a (id_of (a_target a)) ch empty_return with
          | None => HQBadChoice Store
          | Some r0 =>
              match create_token src (s_now s) with
              | None => HQPanic Store
              | Some tok =>
                  let r := ret_with_token r0 (Some tok) in
                  let '(st, res) := w_get (s_store s) (a_target a) (s_now s) in
                  let s1 := with_store Store s st in
                  match res with
                  | GetNotFound => lift Store (reply Store cfg s1 src (m_t m) r)
                  | GetKrpcErr e => lift Store (send_error Store s1 src (m_t m) e)
                  | GetOtherErr txt => lift Store (send_error Store s1 src (m_t m) (mkErr err_GenericError txt))
                  | GetItem it =>
                      let rs := mkRet (r_id r) (r_nodes r) (r_nodes6 r) (r_token r) (r_values r) (r_bfsd r) (r_bfpe r)
                                      (r_interval r) (r_num r) (r_samples r) (r_v r) (r_k r) (r_sig r) (Some (it_seq it)) in
                      let gated := match a_seq a with Some q => Z.leb (it_seq it) q | None => false end in
                      if gated then lift Store (reply Store cfg s1 src (m_t m) rs)
                      else
                        match it_bv it with
                        | None => HQPanic Store
                        | Some bv =>
                            lift Store (reply Store cfg s1 src (m_t m)
                                   (mkRet (r_id rs) (r_nodes rs) (r_nodes6 rs) (r_token rs) (r_values rs) (r_bfsd rs)
                                          (r_bfpe rs) (r_interval rs) (r_num rs) (r_samples rs) bv (it_k it) (it_sig it)
                                          (r_seq rs)))
                        end
                  end
              end
          end
      end.
  Proof. intros Hq. unfold Server.dispatch. rewrite Hq. reflexivity. Qed.

  Lemma set_return_nodes_keeps s src a tg ch r r' :
    set_return_nodes Store id_secure cfg s src a tg ch r = Some r' ->
    r_token r' = r_token r /\ r_values r' = r_values r /\
    r_nodes r' = opt_nonempty (ch_nodes ch) /\ r_nodes6 r' = opt_nonempty (ch_nodes6 ch).
  Proof.
    unfold set_return_nodes. intros H.
    match type of H with (if ?b then _ else _) = _ => destruct b end; [|discriminate].
    injection H as <-. repeat split.
  Qed.

  (* a reply datagram, or nothing (closed / blocked / no budget) *)
  Lemma lift_reply s src t r s' out :
    lift Store (reply Store cfg s src t r) = HQ Store s' out ->
    same_but_budget s s' /\
    forall d rm k, In (ESend d rm k) out ->
      d = src /\ k = SReply /\ rm = reply_msg cfg src t r.
  Proof.
    unfold reply. intros H. apply lift_write_rated in H. destruct H as [Hb Ho]. split; [exact Hb|].
    intros d rm k Hin. destruct Ho as [-> | [n ->]]; destruct Hin as [E | []]; [|discriminate].
    injection E as <- <- <-. repeat split.
  Qed.

  Lemma lift_error s src t e s' out :
    lift Store (send_error Store s src t e) = HQ Store s' out ->
    same_but_budget s s' /\
    forall d rm k, In (ESend d rm k) out ->
      d = src /\ k = SError /\ rm = error_msg t e.
  Proof.
    unfold send_error. intros H. apply lift_write_rated in H. destruct H as [Hb Ho]. split; [exact Hb|].
    intros d rm k Hin. destruct Ho as [-> | [n ->]]; destruct Hin as [E | []]; [|discriminate].
    injection E as <- <- <-. repeat split.
  Qed.

  (* get_peers with the peer store configured: what the accepted outcomes look like *)
  Lemma dispatch_get_peers_spec s src m a ch s' out :
    m_q m = s_get_peers -> m_a m = Some a -> c_peer_store cfg = true ->
    dispatch s src m ch = HQ Store s' out ->
    is_perm_na (ch_values ch)
      (map (fun x => mkNA (na_ip x) (wire_port (na_port x)))
           (filter_peers (ip src) (want_list a) (get_peers_of Store s (a_info_hash a)))) = true
    /\ same_but_budget s s'
    /\ exists tok, create_token src (s_now s) = Some tok /\
       forall d rm k, In (ESend d rm k) out ->
         d = src /\ k = SReply /\
         exists r, m_r rm = Some r /\ r_values r = opt_nonempty (ch_values ch) /\ r_token r = Some tok.
  Proof.
    intros Hq Ha Hps H. rewrite (dispatch_get_peers s src m ch Hq), Ha, Hps in H. cbv zeta in H.
    destruct (is_perm_na (ch_values ch) _) eqn:Hperm; [|discriminate]. split; [reflexivity|].
    destruct (create_token src (s_now s)) as [tok|] eqn:Htok; [|discriminate].
    cbn [r_values ret_with_token ret_with_values] in H.
    destruct (opt_nonempty (ch_values ch)) as [vs|] eqn:Hvs.
    - destruct (ch_nodes ch); [|discriminate]. destruct (ch_nodes6 ch); [|discriminate].
      apply lift_reply in H. destruct H as [Hb Ho]. split; [exact Hb|]. exists tok. split; [reflexivity|].
      intros d rm k Hin. destruct (Ho d rm k Hin) as (-> & -> & ->). split; [reflexivity|]. split; [reflexivity|].
      eexists. split; [reflexivity|]. cbn. split; reflexivity.
    - destruct (set_return_nodes _ _ _ _ _ _ _ _ _) as [r'|] eqn:Hs; [|discriminate].
      apply set_return_nodes_keeps in Hs. destruct Hs as (Ht & Hv & _).
      apply lift_reply in H. destruct H as [Hb Ho]. split; [exact Hb|]. exists tok. split; [reflexivity|].
      intros d rm k Hin. destruct (Ho d rm k Hin) as (-> & -> & ->). split; [reflexivity|]. split; [reflexivity|].
      eexists. split; [reflexivity|]. cbn [r_values r_token]. rewrite Ht, Hv. split; reflexivity.
  Qed.

  (* get: every reply (not the error answers) carries the token *)
  Lemma dispatch_get_spec s src m ch s' out :
    m_q m = s_get ->
    dispatch s src m ch = HQ Store s' out ->
    forall d rm k r, In (ESend d rm k) out -> m_r rm = Some r ->
      d = src /\ k = SReply /\ exists tok, create_token src (s_now s) = Some tok /\ r_token r = Some tok.
  Proof.
    intros Hq H d rm k r Hin Hr. rewrite (dispatch_get s src m ch Hq) in H.
    destruct (m_a m) as [a|].
    2:{ apply lift_error in H. destruct (proj2 H d rm k Hin) as (_ & _ & ->). discriminate. }
    destruct (set_return_nodes _ _ _ _ _ _ _ _ _) as [r0|] eqn:Hs; [|discriminate].
    destruct (create_token src (s_now s)) as [tok|] eqn:Htok; [|discriminate]. cbv zeta in H.
    destruct (w_get (s_store s) (a_target a) (s_now s)) as [st res].
    destruct res as [ | e | txt | it].
    - apply lift_reply in H. destruct (proj2 H d rm k Hin) as (-> & -> & ->).
      cbn in Hr. injection Hr as <-. split; [reflexivity|]. split; [reflexivity|]. exists tok. split; reflexivity.
    - apply lift_error in H. destruct (proj2 H d rm k Hin) as (_ & _ & ->). discriminate.
    - apply lift_error in H. destruct (proj2 H d rm k Hin) as (_ & _ & ->). discriminate.
    - destruct (match a_seq a with Some q => Z.leb (it_seq it) q | None => false end).
      + apply lift_reply in H. destruct (proj2 H d rm k Hin) as (-> & -> & ->).
        cbn in Hr. injection Hr as <-. split; [reflexivity|]. split; [reflexivity|]. exists tok. split; reflexivity.
      + destruct (it_bv it) as [bv|]; [|discriminate].
        apply lift_reply in H. destruct (proj2 H d rm k Hin) as (-> & -> & ->).
        cbn in Hr. injection Hr as <-. split; [reflexivity|]. split; [reflexivity|]. exists tok. split; reflexivity.
  Qed.

  (* tokens are handed out by get_peers (when the peer store is configured) and by get: every
     reply carries the token for the querying address' To16 form and the current interval *)
  Theorem C10_issue s src size m ch s' out d rm k r :
    m_y m = s_q -> (m_q m = s_get_peers /\ c_peer_store cfg = true \/ m_q m = s_get) ->
    step s (EPacket src size (Some m)) ch = SR Store s' out ->
    In (ESend d rm k) out -> m_r rm = Some r ->
    exists x, to16 (ip src) = Some x /\
              r_token r = Some (token_for x (token_idx (s_now s))) /\
              r_token r = create_token src (s_now s).
  Proof.
    intros Hy Hq H Hin Hr. apply bytes_eqb_eq in Hy.
    destruct (step_query_inv s src size m ch s' out Hy H) as (s1 & Hrest & Hd).
    assert (Hnow : s_now s1 = s_now s) by apply Hrest.
    destruct (passes s src size m); [|destruct Hd as [_ ->]; destruct Hin].
    assert (Hc : exists tok, create_token src (s_now s) = Some tok /\ r_token r = Some tok).
    { destruct Hq as [(Hq & Hps) | Hq].
      - destruct (m_a m) as [a|] eqn:Ea.
        2:{ rewrite (dispatch_get_peers s1 src m ch Hq), Ea in Hd. apply lift_error in Hd.
            destruct (proj2 Hd d rm k Hin) as (_ & _ & ->). discriminate. }
        destruct (dispatch_get_peers_spec s1 src m a ch s' out Hq Ea Hps Hd) as (_ & _ & tok & Ht & Ho).
        destruct (Ho d rm k Hin) as (_ & _ & r1 & Hr1 & _ & Ht1). rewrite Hr in Hr1. injection Hr1 as <-.
        rewrite Hnow in Ht. exists tok. split; assumption.
      - destruct (dispatch_get_spec s1 src m ch s' out Hq Hd d rm k r Hin Hr) as (_ & _ & tok & Ht & Ht1).
        rewrite Hnow in Ht. exists tok. split; assumption. }
    destruct Hc as (tok & Hc & Ht). rewrite Ht, Hc. unfold Server.create_token in Hc.
    destruct (to16 (ip src)) as [x|]; [|discriminate]. apply Some_inj in Hc. subst tok.
    exists x. repeat split.
  Qed.
End C10.
