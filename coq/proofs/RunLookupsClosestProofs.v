(* RunLookupsClosestProofs.v — what the `lkexact` line of the lookups engine is compared with
   (RunLookupsClosest.rlc_exact) IS "the K closest nodes of the network":

     rlc_run_spec      pushing every node of the network into the K-nearest container of Lookups.v, in ANY order of
                       the list, leaves the first K of the sorted whole
     rlc_all_covers    the sorted whole misses no node of the network (one entry per (distance, address) key)
     rlc_nearest       every member is strictly before every node that was left out: no node outside the result is
                       closer to the target than a member
     rlc_exact_length  at most K addresses
     rlc_exact_incl    every address is one of the network

   lk_cmp is a three-way comparison of a strict total order on (distance, address) keys; the generic lemmas on sorted
   insertion are those of OrderProofs.v (Section SortedIns). *)
From Dht Require Import Base OrderProofs Lookups RunLookupsClosest.
From Coq Require Import Sorting.Sorted.

Definition lkd (t : N) (e : elem) : N := N.lxor (e_id e) t.

Lemma lk_cmp_lt t a b :
  lk_cmp t a b = Lt <-> (lkd t a < lkd t b \/ (lkd t a = lkd t b /\ e_addr a < e_addr b))%N.
Proof.
  unfold lk_cmp, lkd.
  destruct (N.compare_spec (N.lxor (e_id a) t) (N.lxor (e_id b) t)) as [E|L|G].
  - rewrite N.compare_lt_iff. split.
    + intros H. right. split; assumption.
    + intros [H|[_ H]]; [lia|exact H].
  - split; [intros _; left; exact L|intros _; reflexivity].
  - split; [discriminate|]. intros [H|[H _]]; lia.
Qed.

Lemma lk_cmp_eq t a b :
  lk_cmp t a b = Eq <-> (lkd t a = lkd t b /\ e_addr a = e_addr b).
Proof.
  unfold lk_cmp, lkd.
  destruct (N.compare_spec (N.lxor (e_id a) t) (N.lxor (e_id b) t)) as [E|L|G].
  - rewrite N.compare_eq_iff. split.
    + intros H. split; assumption.
    + intros [_ H]. exact H.
  - split; [discriminate|]. intros [H _]. lia.
  - split; [discriminate|]. intros [H _]. lia.
Qed.

Lemma lk_cmp_refl t a : lk_cmp t a a = Eq.
Proof. apply lk_cmp_eq. split; reflexivity. Qed.

Lemma lk_cmp_antisym t a b : lk_cmp t b a = CompOpp (lk_cmp t a b).
Proof.
  unfold lk_cmp.
  rewrite (N.compare_antisym (N.lxor (e_id a) t) (N.lxor (e_id b) t)).
  rewrite (N.compare_antisym (e_addr a) (e_addr b)).
  destruct (N.compare (N.lxor (e_id a) t) (N.lxor (e_id b) t)); reflexivity.
Qed.

Lemma lk_cmp_trans t a b c : lk_cmp t a b = Lt -> lk_cmp t b c = Lt -> lk_cmp t a c = Lt.
Proof. rewrite !lk_cmp_lt. lia. Qed.

Lemma lk_cmp_eq_l t a b c : lk_cmp t a b = Eq -> lk_cmp t a c = lk_cmp t b c.
Proof.
  intros H. apply lk_cmp_eq in H. destruct H as [Hd Ha]. unfold lkd in Hd.
  unfold lk_cmp. rewrite Hd, Ha. reflexivity.
Qed.

Lemma lk_cmp_lt_dist t a b : lk_cmp t a b = Lt -> (lkd t a <= lkd t b)%N.
Proof. rewrite lk_cmp_lt. lia. Qed.

Lemma lk_insert_ins t x l : lk_insert t x l = ins (lk_cmp t) x l.
Proof.
  induction l as [|y l IH]; simpl; [reflexivity|].
  destruct (lk_cmp t x y); try reflexivity. rewrite IH. reflexivity.
Qed.

Definition lk_sorted (t : N) (l : list elem) : Prop := srt (lk_cmp t) l.

Lemma lk_insert_sorted t x l : lk_sorted t l -> lk_sorted t (lk_insert t x l).
Proof.
  rewrite lk_insert_ins.
  apply (ins_sorted _ _ (lk_cmp_antisym t) (lk_cmp_trans t) (lk_cmp_eq_l t)).
Qed.

Lemma rlc_all_snoc t p x : rlc_all t (p ++ [x]) = lk_insert t x (rlc_all t p).
Proof. unfold rlc_all. rewrite fold_left_app. reflexivity. Qed.

Lemma rlc_run_snoc t k p x : rlc_run t k (p ++ [x]) = lk_push t k (rlc_run t k p) x.
Proof. unfold rlc_run. rewrite fold_left_app. reflexivity. Qed.

Theorem rlc_all_sorted t es : lk_sorted t (rlc_all t es).
Proof.
  induction es as [|x p IH] using rev_ind.
  - constructor.
  - rewrite rlc_all_snoc. apply lk_insert_sorted. exact IH.
Qed.

(* the trim commutes with the inserts: the container is the first K of the sorted whole, whatever the order in
   which the nodes answered *)
Theorem rlc_run_spec t k es : rlc_run t k es = firstn k (rlc_all t es).
Proof.
  induction es as [|x p IH] using rev_ind.
  - destruct k; reflexivity.
  - rewrite rlc_run_snoc, rlc_all_snoc, IH. unfold lk_push.
    rewrite !lk_insert_ins. apply firstn_ins_firstn.
Qed.

(* the sorted whole misses no node: every node of the network has its (distance, address) key in it *)
Theorem rlc_all_covers t es x :
  In x es -> exists y, In y (rlc_all t es) /\ lk_cmp t y x = Eq.
Proof.
  induction es as [|x0 p IH] using rev_ind; [intros []|].
  intros Hin. rewrite rlc_all_snoc, lk_insert_ins.
  pose proof (ins_in _ _ (lk_cmp_antisym t) (lk_cmp_trans t) (lk_cmp_eq_l t) x0 (rlc_all t p)) as Hii.
  apply in_app_or in Hin. destruct Hin as [Hin|[Hin|[]]].
  - destruct (IH Hin) as [y [Hy Hyx]].
    destruct (lk_cmp t y x0) eqn:E.
    + exists x0. split.
      * apply (Hii x0 (rlc_all_sorted t p)). left. reflexivity.
      * rewrite <- (lk_cmp_eq_l t y x0 x E). exact Hyx.
    + exists y. split; [|exact Hyx].
      apply (Hii y (rlc_all_sorted t p)). right. split; [exact Hy|]. rewrite E. discriminate.
    + exists y. split; [|exact Hyx].
      apply (Hii y (rlc_all_sorted t p)). right. split; [exact Hy|]. rewrite E. discriminate.
  - subst x0. exists x. split.
    + apply (Hii x (rlc_all_sorted t p)). left. reflexivity.
    + apply lk_cmp_refl.
Qed.

Theorem rlc_all_incl t es y : In y (rlc_all t es) -> In y es.
Proof.
  induction es as [|x p IH] using rev_ind; [intros []|].
  rewrite rlc_all_snoc, lk_insert_ins. intros H.
  apply in_or_app. destruct (ins_incl _ (lk_cmp t) _ _ _ H) as [->|H'].
  - right. left. reflexivity.
  - left. apply IH. exact H'.
Qed.

(* "exactly the K closest": a member is strictly before (and no farther than) everything that was left out *)
Theorem rlc_nearest t k es m e :
  In m (rlc_run t k es) -> In e (rlc_all t es) -> ~ In e (rlc_run t k es) ->
  lk_cmp t m e = Lt /\ (lkd t m <= lkd t e)%N.
Proof.
  rewrite rlc_run_spec. intros Hm He Hne.
  assert (Hlt : lk_cmp t m e = Lt).
  { apply (srt_app _ (lk_cmp t) (firstn k (rlc_all t es)) (skipn k (rlc_all t es))).
    - rewrite firstn_skipn. apply rlc_all_sorted.
    - exact Hm.
    - rewrite <- (firstn_skipn k (rlc_all t es)) in He.
      apply in_app_or in He. destruct He as [He|He]; [contradiction|exact He]. }
  split; [exact Hlt|]. apply lk_cmp_lt_dist. exact Hlt.
Qed.

Theorem rlc_run_sorted t k es : lk_sorted t (rlc_run t k es).
Proof. rewrite rlc_run_spec. apply (srt_firstn _ (lk_cmp t)). apply rlc_all_sorted. Qed.

Theorem rlc_run_length t k es : length (rlc_run t k es) = Nat.min k (length (rlc_all t es)).
Proof. rewrite rlc_run_spec. apply firstn_length. Qed.

Theorem rlc_exact_length t k net : length (rlc_exact t k net) <= k.
Proof. unfold rlc_exact. rewrite map_length, rlc_run_length. apply Nat.le_min_l. Qed.

Theorem rlc_exact_incl t k net a : In a (rlc_exact t k net) -> In a (map snd net).
Proof.
  unfold rlc_exact. intros H. apply in_map_iff in H. destruct H as [e [<- He]].
  rewrite rlc_run_spec in He. apply (In_firstn _ k) in He. apply rlc_all_incl in He.
  unfold rlc_elems in He. apply in_map_iff in He. destruct He as [x [<- Hx]]. simpl.
  apply in_map. exact Hx.
Qed.

(* non-vacuity: a network of five nodes around target 8, K = 2: the two nearest, nearest first, in both orders *)
Example rlc_exact_example :
  rlc_exact 8 2 [(1, 101); (9, 102); (12, 103); (10, 104); (200, 105)]%N = [102; 104]%N /\
  rlc_exact 8 2 [(200, 105); (10, 104); (12, 103); (9, 102); (1, 101)]%N = [102; 104]%N.
Proof. split; vm_compute; reflexivity. Qed.

Print Assumptions rlc_run_spec.
Print Assumptions rlc_nearest.
Print Assumptions rlc_all_covers.
Print Assumptions rlc_exact_incl.
