(* QueryProofs.v — theory of the single-query model Query.v (C14, query half).
   Everything is proved for EVERY schedule (arbitrary label lists, disabled labels skipped), every
   placement of replies / cancellation / close / send failures, and every number of tries. *)
From Dht Require Import Base Query.
From DhtGen Require Import Params.

(* ------------------------------------------------------------------ reachability *)
Definition reachable (c : qcfg) (s : qstate) : Prop := exists c0 b0 ls, s = run c c0 b0 ls.

Definition pre_select (p : cpc) : Prop := p = CStart \/ p = CSelect.
Definition post_cancel (p : cpc) : Prop := p = CJoin \/ p = CDereg \/ p = CReturned.

(* the invariant: one record, preserved by every enabled label *)
Record QInv (c : qcfg) (s : qstate) : Prop := mkQInv {
  i_sends : q_sends s <= qc_tries c;
  i_start : q_caller s = CStart ->
            q_sender s = SIdle /\ q_handler s = HIdle /\ q_registered s = false /\
            q_senderr_chan s = None /\ q_reply_chan s = false /\ q_sends s = 0 /\ q_fail s = None /\
            q_popped s = false;
  i_idle : q_sender s = SIdle -> q_caller s = CStart;
  i_delays : match q_sender s with
             | SIdle => q_delays s = 0 /\ q_sends s = 0
             | SWait true => q_delays s = q_sends s
             | SWait false => S (q_delays s) = q_sends s
             | SDone => True
             end;
  i_writes : match q_fail s with
             | None => q_writes s = q_sends s
             | Some x => q_sender s = SDone /\
                         q_sends s = (if wrote x then q_writes s else S (q_writes s))
             end;
  i_select_done : q_caller s = CSelect -> q_sender s = SDone -> q_senderr_chan s <> None;
  i_chan_done : q_senderr_chan s <> None -> q_sender s = SDone;
  i_result : q_result s = None <-> pre_select (q_caller s);
  i_cancel : q_send_cancel s = true <-> post_cancel (q_caller s);
  i_joined : q_caller s = CDereg \/ q_caller s = CReturned -> q_sender s = SDone /\ q_senderr_chan s = None;
  i_reg : q_registered s = true -> q_handler s = HIdle /\ q_caller s <> CStart /\ q_caller s <> CReturned;
  i_popped : q_popped s = true <-> q_handler s <> HIdle;
  i_rchan : q_reply_chan s = true -> q_handler s = HDone;
  i_rreply : q_result s = Some RReply -> q_handler s = HDone;
  i_rctx : q_result s = Some RCtx -> q_ctx s = true;
  i_cctx : q_senderr_chan s = Some SECtx -> q_ctx s = true \/ q_send_cancel s = true;
  i_timeout : q_senderr_chan s = Some SETimeout \/ q_result s = Some RTimeout ->
              q_sends s = qc_tries c /\ q_delays s = qc_tries c /\ q_fail s = None;
  i_senderr : forall x, q_senderr_chan s = Some (SESend x) \/ q_result s = Some (RSendErr x) ->
              q_fail s = Some x;
  i_cause : forall x, q_fail s = Some x ->
            (x = CClosed -> q_closed s = true) /\ (x = CBlocked -> q_blocked s = true);
  i_ret_unreg : q_caller s = CReturned -> q_registered s = false
}.

Lemma inv_init c c0 b0 k0 : QInv c (q_init c0 b0 k0).
Proof.
  constructor; simpl; unfold pre_select, post_cancel; intros;
    repeat split; intros; try tauto; try congruence; try lia; try discriminate;
    try (destruct H; discriminate); try (destruct H as [H|[H|H]]; discriminate).
Qed.

Ltac boolhyps :=
  repeat match goal with
  | H : andb _ _ = true |- _ => apply andb_prop in H; destruct H
  | H : orb _ _ = true |- _ => apply orb_prop in H
  | H : negb _ = true |- _ => apply negb_true_iff in H
  | H : Nat.eqb _ _ = true |- _ => apply Nat.eqb_eq in H
  | H : Nat.ltb _ _ = true |- _ => apply Nat.ltb_lt in H
  | H : is_select _ = true |- _ => unfold is_select in H; simpl in H
  | H : sender_fired _ = true |- _ => unfold sender_fired in H; simpl in H
  | H : sender_waiting _ = true |- _ => unfold sender_waiting in H; simpl in H
  | H : is_some _ = true |- _ => unfold is_some in H; simpl in H
  end.

Ltac pcs :=
  repeat match goal with
  | H : match ?x with _ => _ end = true |- _ => destruct x eqn:?; try discriminate H
  end.

Ltac fin :=
  simpl; try assumption;
  try solve [ intros; discriminate ]; try solve [ intros; congruence ]; try solve [ intros; lia ];
  try solve [ intros [?|?]; discriminate ]; try solve [ intros [?|[?|?]]; discriminate ];
  unfold pre_select, post_cancel in *; simpl in *;
  repeat match goal with
  | H : _ /\ _ |- _ => destruct H
  | H : _ <-> _ |- _ => destruct H
  end;
  try solve [ intros; try tauto; try congruence; try discriminate; try lia ];
  try solve [ intros; intuition (try congruence; try discriminate; try lia) ];
  try solve [ intros x [E|E]; try discriminate; eauto ];
  try solve [ intros x E; eauto ].

Theorem inv_step c s l : QInv c s -> enabled c s l = true -> QInv c (step c s l).
Proof.
  intros I En.
  destruct s as [ca se ha rg rc sc cx cn cl ns nw nd fl pp rs bu ra bk].
  destruct I as [Isends Istart Iidle Idelays Iwrites Iseldone Ichandone Iresult Icancel Ijoined Ireg
                   Ipopped Irchan Irreply Irctx Icctx Itimeout Isenderr Icause Iret].
  simpl in *.
  destruct l; simpl in En; boolhyps; pcs; subst; simpl in *.
  - (* LRegister *)
    destruct (Istart eq_refl) as (-> & -> & -> & -> & -> & -> & -> & ->).
    constructor; fin.
    all: try solve [destruct fl; fin].
  - (* LSelReply *)
    constructor; fin.
    all: try solve [destruct fl; fin].
    all: try (specialize (Irchan eq_refl); subst; fin).
  - (* LSelCtx *)
    constructor; fin.
    all: try solve [destruct fl; fin].
  - (* LSelSendErr *)
    rename s into e.
    assert (se = SDone) by (apply Ichandone; discriminate). subst.
    assert (Hcn : cn = true -> False).
    { intros Cn. destruct Icancel as [Ic _]. specialize (Ic Cn). unfold post_cancel in Ic. intuition discriminate. }
    constructor; fin.
    all: try solve [destruct fl; fin].
    + destruct e; simpl; discriminate.
    + destruct e; simpl in *; try discriminate. intros _. destruct (Icctx eq_refl) as [?|Cn]; [assumption|].
      destruct (Hcn Cn).
    + intros [?|E]; [discriminate|]. destruct e; simpl in E; try discriminate. apply Itimeout. left; reflexivity.
    + intros x [?|E]; [discriminate|]. destruct e; simpl in E; try discriminate. injection E as ->.
      apply Isenderr. left; reflexivity.
  - (* LCancelSend *)
    constructor; fin.
    all: try solve [destruct fl; fin].
  - (* LJoin *)
    constructor; fin.
    all: try solve [destruct fl; fin].
  - (* LDeregister *)
    constructor; fin.
    all: try solve [destruct fl; fin].
  - (* LSenderCtx *)
    constructor; fin.
    all: try solve [destruct fl; fin].
  - (* LTimeout *)
    constructor; fin.
    all: try solve [destruct fl; fin].
  - (* LHandler *)
    constructor; fin.
    all: try solve [destruct fl; fin].
  - (* EDelayElapsed *)
    constructor; fin.
    all: try solve [destruct fl; fin].
  - (* ESendOk *)
    constructor; fin.
    all: try solve [destruct fl; fin].
  - (* ESendErr *)
    unfold cause_ok in H0; simpl in H0.
    assert (fl = None) as -> by (destruct fl; [destruct Iwrites; discriminate|reflexivity]).
    constructor; fin.
    + split; [reflexivity|]. destruct (wrote c0); lia.
    + intros x [E|E]; [injection E as ->; reflexivity|].
      specialize (Isenderr x (or_intror E)). discriminate.
    + intros x E. injection E as ->. destruct cl; [|destruct bk]; destruct x; simpl in *;
        try discriminate; repeat split; intros; try congruence.
  - (* EReplyArrives *)
    destruct (Ireg eq_refl) as (-> & ? & ?).
    constructor; fin.
    all: try solve [destruct fl; fin].
  - (* ECtxCancel *)
    constructor; fin.
    all: try solve [destruct fl; fin].
  - (* EServerClose *)
    constructor; fin.
    all: try solve [destruct fl; fin].
    intros x E. destruct (Icause x E) as (A & B). repeat split; intros; try tauto; try discriminate.  - (* EBlockDest *)
    constructor; fin.
    all: try solve [destruct fl; fin].
    all: try (intros x E; destruct (Icause x E) as (A & B); repeat split; intros; try tauto; try discriminate).
Qed.

Lemma inv_step_en c s l : QInv c s -> QInv c (step_en c s l).
Proof. intros I. unfold step_en. destruct (enabled c s l) eqn:E; [apply inv_step; assumption|assumption]. Qed.

Lemma inv_exec c ls : forall s, QInv c s -> QInv c (exec c s ls).
Proof. induction ls as [|l ls IH]; intros s I; simpl; [assumption|]. apply IH. apply inv_step_en. assumption. Qed.

Theorem inv_reachable c s : reachable c s -> QInv c s.
Proof. intros (c0 & b0 & ls & ->). apply inv_exec. apply inv_init. Qed.

Lemma reachable_exec c s ls : reachable c s -> reachable c (exec c s ls).
Proof.
  intros (c0 & b0 & l0 & ->). exists c0, b0, (l0 ++ ls). unfold run, exec. rewrite fold_left_app. reflexivity.
Qed.

(* ------------------------------------------------------------------ C14_sends *)
(* datagrams handed to the socket <= send() calls <= NumTries, in every reachable state *)
Theorem sends_bound c s : reachable c s -> q_writes s <= q_sends s /\ q_sends s <= qc_tries c.
Proof.
  intros R. pose proof (inv_reachable c s R) as I. split; [|apply (i_sends c s I)].
  pose proof (i_writes c s I) as W. destruct (q_fail s) as [x|]; [|lia].
  destruct W as [_ W]. destruct (wrote x); lia.
Qed.

(* NumTries = 0 means the source's default; it is at least one send *)
Lemma eff_tries_pos n : 1 <= eff_tries n.
Proof. destruct n; simpl; [vm_compute; lia|lia]. Qed.

Lemma eff_tries_default : eff_tries 0 = q_znat default_max_sends.
Proof. reflexivity. Qed.

Lemma eff_tries_given n : n <> 0 -> eff_tries n = n.
Proof. destruct n; [congruence|reflexivity]. Qed.

(* ------------------------------------------------------------------ C14_returns *)
(* (b) the measure strictly decreases on EVERY enabled label (internal or not): no infinite run *)
Theorem mu_decreases c s l : QInv c s -> enabled c s l = true -> mu c (step c s l) < mu c s.
Proof.
  intros I En.
  destruct s as [ca se ha rg rc sc cx cn cl ns nw nd fl pp rs bu ra bk].
  pose proof (i_sends c _ I) as Isends. pose proof (i_start c _ I) as Istart.
  pose proof (i_reg c _ I) as Ireg. pose proof (i_chan_done c _ I) as Ichandone.
  unfold mu. simpl in *.
  destruct l; simpl in En; boolhyps; pcs; subst; simpl in *; try lia.
  - destruct (Istart eq_refl) as (E1 & E2 & _ & _ & _ & E3 & _); subst; simpl; destruct cx, cl; lia.
  - destruct ca, fired, ha, cx, cl; simpl; lia.
  - destruct (Ireg eq_refl) as (E & _ & _); subst. destruct ca, se as [|[|]|], cx; simpl; lia.
Qed.

(* (a) progress: while the caller has not returned, some INTERNAL label is enabled *)
Lemma some_send_enabled c s :
  sender_fired s = true -> q_sends s < qc_tries c ->
  exists l, internal l = true /\ enabled c s l = true.
Proof.
  intros F L. apply Nat.ltb_lt in L.
  destruct (q_closed s) eqn:Cl.
  - exists (ESendErr CClosed). split; [reflexivity|]. simpl. unfold cause_ok. rewrite F, L, Cl. reflexivity.
  - destruct (q_blocked s) eqn:B.
    + exists (ESendErr CBlocked). split; [reflexivity|]. simpl. unfold cause_ok. rewrite F, L, Cl, B. reflexivity.
    + destruct (no_budget c s) eqn:NB.
      * exists (ESendErr CRate). split; [reflexivity|]. simpl. unfold cause_ok. rewrite F, L, Cl, B.
        unfold no_budget in NB. apply andb_prop in NB. destruct NB as [NB E]. apply andb_prop in NB. destruct NB as [R X].
        rewrite R, E, orb_true_r. reflexivity.
      * exists ESendOk. split; [reflexivity|]. simpl. rewrite F, L, Cl, B, NB. reflexivity.
Qed.

Lemma sender_progress c s f :
  QInv c s -> q_sender s = SWait f -> exists l, internal l = true /\ enabled c s l = true.
Proof.
  intros I E. destruct f.
  - pose proof (i_sends c s I) as B.
    destruct (Nat.eq_dec (q_sends s) (qc_tries c)) as [Eq|Ne].
    + exists LTimeout. split; [reflexivity|]. simpl. unfold sender_fired. rewrite E.
      apply Nat.eqb_eq in Eq. rewrite Eq. reflexivity.
    + apply some_send_enabled; [unfold sender_fired; rewrite E; reflexivity|lia].
  - exists EDelayElapsed. split; [reflexivity|]. simpl. rewrite E. reflexivity.
Qed.

Theorem progress c s :
  QInv c s -> returned s = false -> exists l, internal l = true /\ enabled c s l = true.
Proof.
  intros I NR. unfold returned in NR.
  destruct (q_caller s) eqn:Ca; try discriminate.
  - exists LRegister. split; [reflexivity|]. simpl. rewrite Ca. reflexivity.
  - (* in the select: the sender moves, or its error is waiting in the channel *)
    destruct (q_sender s) as [|f|] eqn:Se.
    + pose proof (i_idle c s I Se). congruence.
    + apply (sender_progress c s f I Se).
    + exists LSelSendErr. split; [reflexivity|]. simpl. unfold is_select. rewrite Ca.
      pose proof (i_select_done c s I Ca Se) as N. destruct (q_senderr_chan s); [reflexivity|congruence].
  - exists LCancelSend. split; [reflexivity|]. simpl. rewrite Ca. reflexivity.
  - (* joining: cancelSend was called, so a waiting sender sees its context done *)
    destruct (q_sender s) as [|f|] eqn:Se.
    + pose proof (i_idle c s I Se). congruence.
    + exists LSenderCtx. split; [reflexivity|]. simpl. unfold sender_waiting. rewrite Se.
      assert (q_send_cancel s = true) as ->.
      { apply (i_cancel c s I). left. assumption. }
      rewrite orb_true_r. reflexivity.
    + exists LJoin. split; [reflexivity|]. simpl. rewrite Ca, Se. reflexivity.
  - exists LDeregister. split; [reflexivity|]. simpl. rewrite Ca. reflexivity.
Qed.

(* a list of labels each enabled when its turn comes *)
Fixpoint path_ok (c : qcfg) (s : qstate) (ls : list label) : bool :=
  match ls with
  | [] => true
  | l :: r => enabled c s l && path_ok c (step c s l) r
  end.

Lemma exec_path c ls : forall s, path_ok c s ls = true -> exec c s ls = fold_left (step c) ls s.
Proof.
  induction ls as [|l r IH]; intros s P; simpl in *; [reflexivity|].
  apply andb_prop in P. destruct P as [E P].
  replace (step_en c s l) with (step c s l) by (unfold step_en; rewrite E; reflexivity). apply IH. assumption.
Qed.

Lemma returns_from_inv c : forall n s, mu c s <= n -> QInv c s ->
  exists ls, forallb internal ls = true /\ path_ok c s ls = true /\ returned (exec c s ls) = true /\
             length ls <= n.
Proof.
  induction n as [|n IH]; intros s M I.
  - destruct (returned s) eqn:R.
    + exists []. repeat split; simpl; try assumption; lia.
    + destruct (progress c s I R) as (l & _ & E). pose proof (mu_decreases c s l I E). lia.
  - destruct (returned s) eqn:R.
    + exists []. repeat split; simpl; try assumption; lia.
    + destruct (progress c s I R) as (l & Il & E).
      pose proof (mu_decreases c s l I E) as D.
      destruct (IH (step c s l)) as (ls & A & B & C & L); [lia|apply inv_step; assumption|].
      exists (l :: ls). simpl. rewrite Il, E, A, B. repeat split; try lia.
      replace (step_en c s l) with (step c s l) by (unfold step_en; rewrite E; reflexivity). assumption.
Qed.

(* from every reachable state some finite sequence of enabled internal events (at most mu of them)
   leads to Returned *)
Theorem returns c s :
  reachable c s ->
  exists ls, forallb internal ls = true /\ path_ok c s ls = true /\ returned (exec c s ls) = true /\
             length ls <= mu c s.
Proof. intros R. apply (returns_from_inv c (mu c s) s (le_n _)). apply inv_reachable. assumption. Qed.

(* one step of the system from a reachable state; it is well founded: no infinite run *)
Definition qstep (c : qcfg) (s' s : qstate) : Prop :=
  reachable c s /\ exists l, enabled c s l = true /\ s' = step c s l.

Theorem qstep_wf c : well_founded (qstep c).
Proof.
  apply (well_founded_lt_compat _ (mu c)).
  intros s' s (R & l & E & ->). apply mu_decreases; [apply inv_reachable; assumption|assumption].
Qed.

(* the length of ANY run of enabled labels from a reachable state is bounded by the measure *)
Theorem run_length_bound c ls : forall s, reachable c s -> path_ok c s ls = true -> length ls <= mu c s.
Proof.
  induction ls as [|l r IH]; intros s R P; simpl in *; [lia|].
  apply andb_prop in P. destruct P as [E P].
  pose proof (mu_decreases c s l (inv_reachable c s R) E) as D.
  assert (reachable c (step c s l)) as R'.
  { replace (step c s l) with (exec c s [l]); [apply reachable_exec; assumption|].
    simpl. unfold step_en. rewrite E. reflexivity. }
  specialize (IH _ R' P). lia.
Qed.

(* ------------------------------------------------------------------ C14_result_class *)
Theorem result_class c s r :
  reachable c s -> q_result s = Some r ->
  match r with
  | RReply => q_popped s = true /\ q_handler s = HDone            (* a reply for (addr, t) arrived and was delivered *)
  | RCtx => q_ctx s = true                                         (* the caller's context is done *)
  | RTimeout => q_sends s = qc_tries c /\ q_writes s = qc_tries c /\ q_delays s = qc_tries c /\ q_fail s = None
                                                                   (* every send went out; the delay after the last one elapsed *)
  | RSendErr x => q_fail s = Some x /\ (x = CClosed -> q_closed s = true) /\ (x = CBlocked -> q_blocked s = true)
  end.
Proof.
  intros R E. pose proof (inv_reachable c s R) as I. destruct r.
  - pose proof (i_rreply c s I E) as H. split; [|assumption]. apply (i_popped c s I). congruence.
  - apply (i_rctx c s I E).
  - destruct (i_timeout c s I (or_intror E)) as (A & B & C). pose proof (i_writes c s I) as W.
    rewrite C in W. repeat split; try assumption; lia.
  - pose proof (i_senderr c s I c0 (or_intror E)) as F. destruct (i_cause c s I c0 F) as (A & B).
    repeat split; assumption.
Qed.

(* a result exists exactly from the select on, and never changes *)
Theorem result_iff_selected c s :
  reachable c s -> (q_result s <> None <-> q_caller s <> CStart /\ q_caller s <> CSelect).
Proof.
  intros R. pose proof (i_result c s (inv_reachable c s R)) as [A B]. unfold pre_select in *. split.
  - intros N. split; intros E; apply N; apply B; [left|right]; assumption.
  - intros [N1 N2] E. destruct (A E); contradiction.
Qed.

Lemma result_stable_step c s l r : q_result s = Some r -> QInv c s -> q_result (step_en c s l) = Some r.
Proof.
  intros E I. unfold step_en. destruct (enabled c s l) eqn:En; [|assumption].
  pose proof (i_result c s I) as [_ B]. unfold pre_select in B.
  destruct s as [ca se ha rg rc sc cx cn cl ns nw nd fl pp rs bu ra bk]. simpl in *.
  destruct l; simpl in *; try assumption; boolhyps; pcs; try assumption;
    try (assert (X : rs = None) by (apply B; auto); congruence).
Qed.

Theorem result_stable c ls : forall s r, reachable c s -> q_result s = Some r -> q_result (exec c s ls) = Some r.
Proof.
  induction ls as [|l ls IH]; intros s r R E; simpl; [assumption|].
  apply IH.
  - replace (step_en c s l) with (exec c s [l]) by reflexivity. apply reachable_exec. assumption.
  - apply result_stable_step; [assumption|apply inv_reachable; assumption].
Qed.

(* ------------------------------------------------------------------ C14_clean *)
(* Returned: the transaction is deregistered, caller and sender are finished, the error channel is
   drained; the response handler is finished or (a reply that raced with the return) has exactly its
   one non-blocking step `replyChan <- m` left, after which every process is Done. *)
Theorem clean c s :
  reachable c s -> returned s = true ->
  q_registered s = false /\ q_sender s = SDone /\ q_senderr_chan s = None /\ q_result s <> None /\
  (q_handler s <> HPending -> all_done s = true) /\
  (q_handler s = HPending -> enabled c s LHandler = true /\ all_done (step c s LHandler) = true).
Proof.
  intros R Ret. pose proof (inv_reachable c s R) as I. unfold returned in Ret.
  destruct (q_caller s) eqn:Ca; try discriminate.
  destruct (i_joined c s I (or_intror Ca)) as [Sd Ch].
  repeat split.
  - apply (i_ret_unreg c s I Ca).
  - assumption.
  - assumption.
  - intros N. apply (i_result c s I) in N. unfold pre_select in N. rewrite Ca in N. intuition discriminate.
  - intros N. unfold all_done, returned. rewrite Ca, Sd. destruct (q_handler s); try reflexivity. congruence.
  - simpl. rewrite H. reflexivity.
  - unfold all_done, returned. simpl. rewrite Ca, Sd. reflexivity.
Qed.

(* once everything is Done only environment events remain enabled, and they change nothing observable *)
Theorem done_is_final c s l :
  reachable c s -> all_done s = true -> enabled c s l = true -> external l = true.
Proof.
  intros R D E. pose proof (inv_reachable c s R) as I. unfold all_done, returned in D.
  destruct (q_caller s) eqn:Ca; try discriminate. destruct (q_sender s) eqn:Se; try discriminate.
  destruct (q_handler s) eqn:Ha; try discriminate;
    destruct l; simpl in *; try reflexivity; unfold is_select, sender_fired, sender_waiting in E;
    rewrite ?Ca, ?Se, ?Ha in E; simpl in E; try discriminate.
Qed.

(* ------------------------------------------------------------------ C14_closed *)
(* no datagram leaves once the server is closed *)
Lemma closed_step c s l : q_closed s = true -> q_closed (step_en c s l) = true /\ q_writes (step_en c s l) = q_writes s.
Proof.
  intros Cl. unfold step_en. destruct (enabled c s l) eqn:E; [|split; [assumption|reflexivity]].
  destruct l; simpl; try (split; [assumption|reflexivity]).
  - destruct (q_senderr_chan s); simpl; split; try assumption; reflexivity.
  - simpl in E. rewrite Cl in E. rewrite andb_false_r in E. discriminate.
  - simpl in E. unfold cause_ok in E. rewrite Cl in E. boolhyps. destruct c0; try discriminate.
    simpl. split; [assumption|reflexivity].
  - split; reflexivity.
Qed.

Theorem closed_no_write c ls : forall s, q_closed s = true ->
  q_closed (exec c s ls) = true /\ q_writes (exec c s ls) = q_writes s.
Proof.
  induction ls as [|l ls IH]; intros s Cl; simpl; [split; [assumption|reflexivity]|].
  destruct (closed_step c s l Cl) as [A B]. destruct (IH _ A) as [C D]. split; [assumption|congruence].
Qed.

(* runs that start on a closed server *)
Record CInv (s : qstate) : Prop := mkCInv {
  ci_closed : q_closed s = true;
  ci_writes : q_writes s = 0;
  ci_popped : q_popped s = false;
  ci_fail : forall x, q_fail s = Some x -> x = CClosed }.

Lemma cinv_step c s l : CInv s -> CInv (step_en c s l).
Proof.
  intros [Cl W P F]. unfold step_en. destruct (enabled c s l) eqn:E; [|constructor; assumption].
  destruct l; simpl; try (constructor; simpl; assumption).
  - destruct (q_senderr_chan s); constructor; simpl; assumption.
  - simpl in E. rewrite Cl in E. rewrite andb_false_r in E. discriminate.
  - simpl in E. unfold cause_ok in E. rewrite Cl in E. boolhyps. destruct c0; try discriminate.
    constructor; simpl; try assumption. intros x X. injection X as <-. reflexivity.
  - simpl in E. rewrite Cl in E. rewrite andb_false_r in E. discriminate.
  - simpl in E. rewrite Cl in E. discriminate.
Qed.

Lemma cinv_exec c ls : forall s, CInv s -> CInv (exec c s ls).
Proof. induction ls as [|l ls IH]; intros s I; simpl; [assumption|]. apply IH. apply cinv_step. assumption. Qed.

(* a query started on a closed server writes nothing and can only fail: with the error of the
   closed check, or with the caller's context error if that was cancelled as well *)
Theorem closed_query_fails c b0 ls :
  1 <= qc_tries c ->
  let s := run c true b0 ls in
  q_writes s = 0 /\
  (forall r, q_result s = Some r -> r = RSendErr CClosed \/ (r = RCtx /\ q_ctx s = true)).
Proof.
  intros T s. subst s. unfold run.
  assert (CInv (q_init true b0 (qc_blocked c))) as I0 by (constructor; simpl; try reflexivity; intros; discriminate).
  destruct (cinv_exec c ls _ I0) as [Cl W P F]. split; [exact W|].
  intros r E.
  assert (reachable c (exec c (q_init true b0 (qc_blocked c)) ls)) as R by (exists true, b0, ls; reflexivity).
  pose proof (result_class c _ r R E) as K.
  destruct r.
  - destruct K as [K _]. congruence.
  - right. split; [reflexivity|assumption].
  - destruct K as (_ & W1 & _). lia.
  - destruct K as (K & _). left. f_equal. apply F. assumption.
Qed.

(* ------------------------------------------------------------------ C20: the query's rate policy *)
(* the per-send decision, exactly the closure in transactionQuerySender *)
Theorem query_policy rl w :
  send_wait rl w = (if Nat.eqb w 0 then negb (rl_no_wait_first rl) else rl_wait_on_retries rl) /\
  send_rated rl w = (negb (rl_not_any rl) && (if Nat.eqb w 0 then negb (rl_not_first rl) else true)).
Proof. destruct w; split; reflexivity. Qed.

(* the named policies of the harness grid, send by send *)
Theorem query_policy_table w :
  send_rated rl_zero w = true /\
  send_rated (mkRL true false false false) w = negb (Nat.eqb w 0) /\
  send_rated (mkRL false true false false) w = false /\
  send_rated (mkRL true true false false) w = false /\
  send_rated (mkRL false false true false) w = true /\
  send_rated (mkRL false false false true) w = true /\
  send_wait rl_zero w = Nat.eqb w 0 /\
  send_wait (mkRL false false true false) w = true /\
  send_wait (mkRL false false false true) w = false.
Proof. destruct w; repeat split; reflexivity. Qed.

(* budget conservation: units taken by this query + units left = units at the start, on every schedule *)
Record BInv (c : qcfg) (b0 : nat) (s : qstate) : Prop := mkBInv {
  bi_sum : qc_exact c = true -> q_rated s + q_budget s = b0;
  bi_rated_le : q_rated s <= q_writes s }.

Lemma binv_step c b0 s l : BInv c b0 s -> BInv c b0 (step_en c s l).
Proof.
  intros [Sm Le]. unfold step_en. destruct (enabled c s l) eqn:E; [|constructor; assumption].
  destruct l; simpl; try (constructor; simpl; assumption).
  - destruct (q_senderr_chan s); constructor; simpl; assumption.
  - (* ESendOk *)
    simpl in E. unfold no_budget, budget_after, rated_after in *.
    destruct (rated_now c s) eqn:R; simpl in *; constructor; simpl; try lia.
    + intros X. specialize (Sm X). rewrite X in E. simpl in E.
      repeat (apply andb_prop in E; destruct E as [E ?]).
      destruct (q_budget s); [discriminate|]. simpl. lia.
    + assumption.
  - (* ESendErr *)
    simpl in E. unfold cause_ok, no_budget, budget_after, rated_after in *.
    destruct c0; simpl; try (constructor; simpl; assumption).
    destruct (rated_now c s) eqn:R; simpl in *; constructor; simpl; try lia; try assumption.
    intros X. specialize (Sm X). rewrite X in E. simpl in E.
    repeat (apply andb_prop in E; destruct E as [E ?]).
    destruct (q_closed s); [discriminate|]. destruct (q_blocked s); [discriminate|].
    destruct (q_budget s); [discriminate|]. simpl. lia.
Qed.

Lemma binv_exec c b0 ls : forall s, BInv c b0 s -> BInv c b0 (exec c s ls).
Proof. induction ls as [|l ls IH]; intros s I; simpl; [assumption|]. apply IH. apply binv_step. assumption. Qed.

(* rated sends of a query never exceed the budget that was available; total sends <= NumTries;
   and a send is attempted only if every earlier one succeeded *)
Theorem query_budget c c0 b0 ls :
  let s := run c c0 b0 ls in
  (qc_exact c = true -> q_rated s <= b0 /\ q_rated s + q_budget s = b0) /\
  q_rated s <= q_writes s /\ q_writes s <= q_sends s /\ q_sends s <= qc_tries c /\
  (forall x, (enabled c s ESendOk = true \/ enabled c s (ESendErr x) = true) -> q_fail s = None /\ q_writes s = q_sends s).
Proof.
  intros s. subst s.
  assert (BInv c b0 (q_init c0 b0 (qc_blocked c))) as I0 by (constructor; simpl; intros; lia).
  destruct (binv_exec c b0 ls _ I0) as [Sm Le]. fold (run c c0 b0 ls) in *.
  assert (reachable c (run c c0 b0 ls)) as R by (exists c0, b0, ls; reflexivity).
  destruct (sends_bound c _ R) as [W S1].
  split; [intros X; specialize (Sm X); split; [lia|assumption]|].
  repeat split; try assumption.
  - pose proof (inv_reachable c _ R) as I. pose proof (i_writes c _ I) as Wf.
    destruct (q_fail (run c c0 b0 ls)) as [y|] eqn:F; [|reflexivity].
    destruct Wf as [Sd _]. exfalso. destruct H as [E|E]; simpl in E; unfold sender_fired in E; rewrite Sd in E; discriminate.
  - pose proof (inv_reachable c _ R) as I. pose proof (i_writes c _ I) as Wf.
    destruct (q_fail (run c c0 b0 ls)) as [y|] eqn:F; [|assumption].
    destruct Wf as [Sd _]. exfalso. destruct H as [E|E]; simpl in E; unfold sender_fired in E; rewrite Sd in E; discriminate.
Qed.

(* a rated first send against an empty exact budget: nothing is ever written and the query fails *)
Record NInv (c : qcfg) (s : qstate) : Prop := mkNInv {
  ni_budget : q_budget s = 0;
  ni_writes : q_writes s = 0;
  ni_popped : True;
  ni_fail : forall x, q_fail s = Some x -> x = CRate \/ x = CClosed \/ x = CBlocked }.

Lemma ninv_step c s l :
  qc_exact c = true -> send_rated (qc_rl c) 0 = true -> NInv c s -> NInv c (step_en c s l).
Proof.
  intros X R0 [B W _ F]. unfold step_en. destruct (enabled c s l) eqn:E; [|constructor; trivial].
  destruct l; simpl; unfold selected, sender_done; try solve [constructor; simpl; trivial].
  - destruct (q_senderr_chan s); constructor; simpl; trivial.
  - simpl in E. unfold no_budget, rated_now in E. rewrite W, R0, X, B in E. simpl in E.
    rewrite !andb_false_r in E. discriminate.
  - simpl in E. unfold cause_ok, no_budget, rated_now in E. rewrite W, R0, X, B in E. simpl in E.
    destruct (q_closed s), (q_blocked s), c0; simpl in E; rewrite ?andb_false_r in E; try discriminate;
      constructor; simpl; trivial; intros x Hx; injection Hx as <-; tauto.
Qed.

Lemma ninv_exec c ls : qc_exact c = true -> send_rated (qc_rl c) 0 = true ->
  forall s, NInv c s -> NInv c (exec c s ls).
Proof. intros X R0. induction ls as [|l ls IH]; intros s I; simpl; [assumption|]. apply IH. apply ninv_step; assumption. Qed.

Theorem query_no_budget_fails c c0 ls :
  1 <= qc_tries c -> qc_exact c = true -> send_rated (qc_rl c) 0 = true ->
  let s := run c c0 0 ls in
  q_writes s = 0 /\ q_rated s = 0 /\
  (forall r, q_result s = Some r ->
     (exists x, r = RSendErr x /\ (x = CRate \/ (x = CClosed /\ q_closed s = true) \/ (x = CBlocked /\ q_blocked s = true))) \/
     (r = RCtx /\ q_ctx s = true) \/ r = RReply).
Proof.
  intros T X R0 s. subst s. unfold run.
  assert (NInv c (q_init c0 0 (qc_blocked c))) as I0 by (constructor; simpl; try reflexivity; trivial; intros; discriminate).
  destruct (ninv_exec c ls X R0 _ I0) as [B W _ F].
  assert (BInv c 0 (q_init c0 0 (qc_blocked c))) as J0 by (constructor; simpl; intros; lia).
  destruct (binv_exec c 0 ls _ J0) as [_ Le].
  split; [exact W|]. split; [lia|].
  intros r E.
  assert (reachable c (exec c (q_init c0 0 (qc_blocked c)) ls)) as R by (exists c0, 0, ls; reflexivity).
  pose proof (result_class c _ r R E) as K.
  destruct r.
  - right; right; reflexivity.
  - right; left. split; [reflexivity|assumption].
  - destruct K as (_ & W1 & _). lia.
  - destruct K as (K & K1 & K2). left. exists c1. split; [reflexivity|].
    destruct (F _ K) as [-> | [-> | ->]]; [left; reflexivity|right; left; split; [reflexivity|apply K1; reflexivity]|
                                       right; right; split; [reflexivity|apply K2; reflexivity]].
Qed.

(* ------------------------------------------------------------------ C19: every send re-checks the blocklist *)
(* a datagram leaves only if, at that very send, the server is open and the destination is not blocked *)
Theorem send_rechecks c s : enabled c s ESendOk = true -> q_closed s = false /\ q_blocked s = false.
Proof.
  simpl. intros E. repeat (apply andb_prop in E; destruct E as [E ?]).
  split; apply negb_true_iff; assumption.
Qed.

Theorem send_rechecks_short c s : enabled c s (ESendErr CShort) = true -> q_closed s = false /\ q_blocked s = false.
Proof.
  simpl. unfold cause_ok. intros E. apply andb_prop in E. destruct E as [_ E].
  destruct (q_closed s); [discriminate|]. destruct (q_blocked s); [discriminate|]. split; reflexivity.
Qed.

(* a send attempted on an open server while the destination is blocked fails with the blocklist error *)
Theorem blocked_send_error c s x :
  q_closed s = false -> q_blocked s = true -> enabled c s (ESendErr x) = true -> x = CBlocked.
Proof.
  simpl. unfold cause_ok. intros Cl B E. rewrite Cl, B in E. apply andb_prop in E. destruct E as [_ E].
  destruct x; simpl in E; try discriminate. reflexivity.
Qed.

(* once the destination is on the blocklist -- whenever that happens: before the query, between two sends --
   no further datagram goes to it, on any schedule *)
Lemma blocked_step c s l : q_blocked s = true -> q_blocked (step_en c s l) = true /\ q_writes (step_en c s l) = q_writes s.
Proof.
  intros B. unfold step_en. destruct (enabled c s l) eqn:E; [|split; [assumption|reflexivity]].
  destruct l; simpl; try (split; [assumption|reflexivity]).
  - destruct (q_senderr_chan s); simpl; split; try assumption; reflexivity.
  - simpl in E. rewrite B in E. rewrite !andb_false_r in E. simpl in E. rewrite ?andb_false_r in E. discriminate.
  - simpl in E. unfold cause_ok in E. rewrite B in E. apply andb_prop in E. destruct E as [_ E].
    destruct (q_closed s); destruct c0; try discriminate; simpl; split; try assumption; reflexivity.
  - split; reflexivity.
Qed.

Theorem blocked_no_write c ls : forall s, q_blocked s = true ->
  q_blocked (exec c s ls) = true /\ q_writes (exec c s ls) = q_writes s.
Proof.
  induction ls as [|l ls IH]; intros s B; simpl; [split; [assumption|reflexivity]|].
  destruct (blocked_step c s l B) as [A W]. destruct (IH _ A) as [C D]. split; [assumption|congruence].
Qed.

