(* MaintProofs.v — lemmas about one pass of the table maintainer (model/Maint.v), for every table, every
   environment (which pings are answered, what a bucket refresh does to the table), every configuration. *)
From Coq Require Import List NArith ZArith Bool Arith Lia.
From Dht Require Import Base Msg Server Maint.
Import ListNotations.

Section MaintProofs.
  Variable id_secure : N -> bytes -> bool.
  Variable cfg : config.

  Notation bad := (m_bad id_secure cfg).
  Notation good := (m_good id_secure cfg).
  Notation quest := (m_quest id_secure cfg).
  Notation stop := (should_stop id_secure cfg).
  Notation targets := (ping_targets id_secure cfg).
  Notation apings := (after_pings id_secure cfg).
  Notation passf := (pass_from id_secure cfg).

  Lemma quest_not_good now n : quest now n = true -> good now n = false /\ bad n = false.
  Proof.
    unfold m_quest, node_questionable, m_good, m_bad. intros H.
    apply andb_true_iff in H. destruct H as [H1 H2].
    apply negb_true_iff in H1. apply negb_true_iff in H2. split; assumption.
  Qed.

  Lemma good_not_quest now n : good now n = true -> quest now n = false.
  Proof. unfold m_quest, node_questionable, m_good. intros ->. reflexivity. Qed.

  Lemma in_bucket nodes i (n : node) : In n (bucket nodes i) <-> In n nodes /\ n_slot n = i.
  Proof.
    unfold bucket. rewrite filter_In. split; intros [H1 H2]; split; try assumption.
    - apply Nat.eqb_eq. exact H2.
    - apply Nat.eqb_eq. exact H2.
  Qed.

  Lemma ping_targets_spec now nodes i n :
    In n (targets now nodes i) <-> In n nodes /\ n_slot n = i /\ quest now n = true.
  Proof.
    unfold ping_targets. rewrite filter_In, in_bucket. tauto.
  Qed.

  (* who is pinged: entries of that bucket that are neither good nor bad *)
  Lemma ping_targets_questionable now nodes i n :
    In n (targets now nodes i) -> In n nodes /\ n_slot n = i /\ good now n = false /\ bad n = false.
  Proof.
    intros H. apply ping_targets_spec in H. destruct H as (H1 & H2 & H3).
    destruct (quest_not_good _ _ H3). tauto.
  Qed.

  Lemma after_pings_length now answers nodes i : length (apings now answers nodes i) = length nodes.
  Proof. unfold after_pings. apply map_length. Qed.

  Lemma after_pings_origin now answers nodes i m :
    In m (apings now answers nodes i) ->
    exists n, In n nodes /\
      (m = n \/ (n_slot n = i /\ quest now n = true /\ m = settle_ping now answers n)).
  Proof.
    unfold after_pings. intros H. apply in_map_iff in H. destruct H as (n & E & Hin).
    exists n. split; [exact Hin|].
    destruct (Nat.eqb (n_slot n) i) eqn:Es; cbn [andb] in E; [|left; symmetry; exact E].
    destruct (m_quest id_secure cfg now n) eqn:Eq; [|left; symmetry; exact E].
    right. apply Nat.eqb_eq in Es. repeat split; try assumption. symmetry; exact E.
  Qed.

  (* a good entry is not touched by the pings *)
  Lemma after_pings_good_kept now answers nodes i n :
    In n nodes -> good now n = true -> In n (apings now answers nodes i).
  Proof.
    intros Hin Hg. unfold after_pings. apply in_map_iff. exists n. split; [|exact Hin].
    rewrite (good_not_quest _ _ Hg). rewrite andb_false_r. reflexivity.
  Qed.

  (* an entry outside the bucket is not touched by the pings of that bucket *)
  Lemma after_pings_other_bucket now answers nodes i n :
    In n nodes -> n_slot n <> i -> In n (apings now answers nodes i).
  Proof.
    intros Hin Hs. unfold after_pings. apply in_map_iff. exists n. split; [|exact Hin].
    apply Nat.eqb_neq in Hs. rewrite Hs. reflexivity.
  Qed.

  (* the failed flag is set only on an entry that was pinged as questionable and did not answer *)
  Lemma after_pings_flagged now answers nodes i m :
    In m (apings now answers nodes i) -> n_failed m = true ->
    In m nodes \/
    exists n, In n nodes /\ n_slot n = i /\ quest now n = true /\ answers n = PSilent /\
              m = apply_update now UFailedPing n.
  Proof.
    intros Hin Hf. destruct (after_pings_origin _ _ _ _ _ Hin) as (n & Hn & [->|(Hs & Hq & ->)]).
    - left. exact Hn.
    - unfold settle_ping in *. destruct (answers n) eqn:Ea.
      + right. exists n. repeat split; assumption.
      + cbn in Hf. discriminate Hf.
      + left. exact Hn.
  Qed.

  (* an answered ping makes the entry good (when it is not bad for another reason) *)
  Lemma settle_answered_good now answers n :
    answers n = PSameId -> quest now n = true ->
    good now (settle_ping now answers n) = true.
  Proof.
    intros Ha Hq. destruct (quest_not_good _ _ Hq) as [_ Hb].
    unfold settle_ping. rewrite Ha. unfold m_good, node_good, m_bad, node_bad in *.
    cbn [apply_update n_id n_addr n_failed n_lr n_lq].
    apply orb_false_iff in Hb. destruct Hb as [Hb _]. rewrite Hb. cbn [orb negb andb].
    unfold within. rewrite Z.sub_diag.
    assert (Hw : Z.ltb 0 good_window = true).
    { unfold good_window. vm_compute. reflexivity. }
    rewrite Hw. reflexivity.
  Qed.

  Lemma after_pings_id now answers nodes i :
    targets now nodes i = [] -> apings now answers nodes i = nodes.
  Proof.
    intros H. unfold after_pings. rewrite <- (map_id nodes) at 2. apply map_ext_in.
    intros n Hin. destruct (Nat.eqb (n_slot n) i) eqn:Es; [|reflexivity].
    destruct (m_quest id_secure cfg now n) eqn:Eq; [|reflexivity].
    exfalso. apply Nat.eqb_eq in Es.
    assert (Hin' : In n (targets now nodes i)) by (apply ping_targets_spec; tauto).
    rewrite H in Hin'. exact Hin'.
  Qed.

  Lemma not_bad_nodes_spec nodes n :
    In n (not_bad_nodes id_secure cfg nodes) <-> In n nodes /\ bad n = false.
  Proof. unfold not_bad_nodes. rewrite filter_In, negb_true_iff. tauto. Qed.

  (* ------------------------------------------------------------------ the pass *)
  Definition phase_index (p : phase) : option nat :=
    match p with PPing i _ => Some i | PRefresh i _ => Some i | PBreak i => Some i | PDone => None end.

  (* at most one round of pings and one refresh per bucket, then the pass is over *)
  Lemma pass_from_length fuel i now answers refresh nodes :
    length (fst (passf fuel i now answers refresh nodes)) <= 2 * fuel + 1.
  Proof.
    revert i nodes. induction fuel as [|f IH]; intros i nodes; cbn [pass_from].
    - cbn. lia.
    - destruct (stop (apings now answers nodes i) i).
      + specialize (IH (S i) (apings now answers nodes i)).
        destruct (passf f (S i) now answers refresh (apings now answers nodes i)) as [ph nf].
        cbn [fst length] in *. lia.
      + destruct (stop (refresh i (apings now answers nodes i)) i).
        * specialize (IH (S i) (refresh i (apings now answers nodes i))).
          destruct (passf f (S i) now answers refresh (refresh i (apings now answers nodes i))) as [ph nf].
          cbn [fst length] in *. lia.
        * cbn [fst length]. lia.
  Qed.

  (* the buckets are visited in index order, each inside the window of the pass *)
  Lemma pass_from_indices fuel i now answers refresh nodes p j :
    In p (fst (passf fuel i now answers refresh nodes)) -> phase_index p = Some j -> i <= j < i + fuel.
  Proof.
    revert i nodes. induction fuel as [|f IH]; intros i nodes; cbn [pass_from].
    - cbn. intros [<-|[]]. discriminate.
    - destruct (stop (apings now answers nodes i) i).
      + specialize (IH (S i) (apings now answers nodes i)).
        destruct (passf f (S i) now answers refresh (apings now answers nodes i)) as [ph nf].
        cbn [fst] in *. intros [<-|Hin] Hj.
        * cbn in Hj. injection Hj as <-. lia.
        * specialize (IH Hin Hj). lia.
      + destruct (stop (refresh i (apings now answers nodes i)) i).
        * specialize (IH (S i) (refresh i (apings now answers nodes i))).
          destruct (passf f (S i) now answers refresh (refresh i (apings now answers nodes i))) as [ph nf].
          cbn [fst] in *. intros [<-|[<-|Hin]] Hj.
          -- cbn in Hj. injection Hj as <-. lia.
          -- cbn in Hj. injection Hj as <-. lia.
          -- specialize (IH Hin Hj). lia.
        * cbn [fst]. intros [<-|[<-|[<-|[]]]] Hj; cbn in Hj; injection Hj as <-; lia.
  Qed.

  (* every ping of the pass goes to an entry that is questionable in the table of that moment *)
  Lemma pass_from_pings_questionable fuel i now answers refresh nodes j tg n :
    In (PPing j tg) (fst (passf fuel i now answers refresh nodes)) -> In n tg ->
    n_slot n = j /\ good now n = false /\ bad n = false.
  Proof.
    revert i nodes. induction fuel as [|f IH]; intros i nodes; cbn [pass_from].
    - cbn. intros [H|[]]. discriminate H.
    - assert (Hhead : forall l : list nat, PPing i (targets now nodes i) = PPing j tg -> In n tg ->
                               n_slot n = j /\ good now n = false /\ bad n = false).
      { intros _ E Hn. injection E as <- <-. apply ping_targets_questionable in Hn. tauto. }
      destruct (stop (apings now answers nodes i) i).
      + specialize (IH (S i) (apings now answers nodes i)).
        destruct (passf f (S i) now answers refresh (apings now answers nodes i)) as [ph nf].
        cbn [fst] in *. intros [E|Hin] Hn; [exact (Hhead [] E Hn) | exact (IH Hin Hn)].
      + destruct (stop (refresh i (apings now answers nodes i)) i).
        * specialize (IH (S i) (refresh i (apings now answers nodes i))).
          destruct (passf f (S i) now answers refresh (refresh i (apings now answers nodes i))) as [ph nf].
          cbn [fst] in *. intros [E|[E|Hin]] Hn; [exact (Hhead [] E Hn) | discriminate E | exact (IH Hin Hn)].
        * cbn [fst]. intros [E|[E|[E|[]]]] Hn; [exact (Hhead [] E Hn) | discriminate E | discriminate E].
  Qed.

  (* a bucket is refreshed only when, after its pings, it is not full or holds a bad entry; the
     traversal is seeded with exactly the not-bad entries of that table *)
  Lemma pass_from_refresh_needed fuel i now answers refresh nodes j seeds :
    In (PRefresh j seeds) (fst (passf fuel i now answers refresh nodes)) ->
    exists tbl, stop tbl j = false /\ seeds = not_bad_nodes id_secure cfg tbl.
  Proof.
    revert i nodes. induction fuel as [|f IH]; intros i nodes; cbn [pass_from].
    - cbn. intros [H|[]]. discriminate H.
    - destruct (stop (apings now answers nodes i) i) eqn:Es.
      + specialize (IH (S i) (apings now answers nodes i)).
        destruct (passf f (S i) now answers refresh (apings now answers nodes i)) as [ph nf].
        cbn [fst] in *. intros [E|Hin]; [discriminate E | exact (IH Hin)].
      + destruct (stop (refresh i (apings now answers nodes i)) i).
        * specialize (IH (S i) (refresh i (apings now answers nodes i))).
          destruct (passf f (S i) now answers refresh (refresh i (apings now answers nodes i))) as [ph nf].
          cbn [fst] in *. intros [E|[E|Hin]]; [discriminate E | | exact (IH Hin)].
          injection E as <- <-. exists (apings now answers nodes i). split; [exact Es | reflexivity].
        * cbn [fst]. intros [E|[E|[E|[]]]]; [discriminate E | | discriminate E].
          injection E as <- <-. exists (apings now answers nodes i). split; [exact Es | reflexivity].
  Qed.

  (* good entries survive the whole pass untouched, whatever the pings' outcomes, provided the refreshes
     (remote replies, other traffic) do not remove good entries themselves - which is C06's statement
     about the packet path *)
  Definition good_preserving (now : Z) (refresh : nat -> list node -> list node) : Prop :=
    forall i l n, In n l -> good now n = true -> In n (refresh i l).

  Lemma pass_from_good_kept fuel i now answers refresh nodes n :
    good_preserving now refresh -> In n nodes -> good now n = true ->
    In n (snd (passf fuel i now answers refresh nodes)).
  Proof.
    intros Hr. revert i nodes. induction fuel as [|f IH]; intros i nodes Hin Hg; cbn [pass_from].
    - exact Hin.
    - pose proof (after_pings_good_kept now answers nodes i n Hin Hg) as H1.
      destruct (stop (apings now answers nodes i) i).
      + specialize (IH (S i) (apings now answers nodes i) H1 Hg).
        destruct (passf f (S i) now answers refresh (apings now answers nodes i)) as [ph nf]. exact IH.
      + pose proof (Hr i _ _ H1 Hg) as H2.
        destruct (stop (refresh i (apings now answers nodes i)) i).
        * specialize (IH (S i) (refresh i (apings now answers nodes i)) H2 Hg).
          destruct (passf f (S i) now answers refresh (refresh i (apings now answers nodes i))) as [ph nf]. exact IH.
        * exact H2.
  Qed.

  (* a table whose visited buckets are all full, clean and free of questionable entries costs no
     datagram: the pass is a sequence of empty ping rounds and changes nothing *)
  Lemma pass_from_healthy fuel i now answers refresh nodes :
    (forall j, i <= j < i + fuel -> stop nodes j = true /\ targets now nodes j = []) ->
    passf fuel i now answers refresh nodes = (map (fun j => PPing j []) (seq i fuel) ++ [PDone], nodes).
  Proof.
    revert i. induction fuel as [|f IH]; intros i H; cbn [pass_from seq map app].
    - reflexivity.
    - destruct (H i ltac:(lia)) as [Hs Ht].
      rewrite (after_pings_id now answers nodes i Ht), Hs, Ht.
      rewrite (IH (S i)); [reflexivity|]. intros j Hj. apply H. lia.
  Qed.

  Lemma refresh_silent_good_preserving now : good_preserving now refresh_silent.
  Proof. intros i l n Hin _. exact Hin. Qed.
End MaintProofs.

(* ------------------------------------------------------------------ structure of the table (C05)
   The maintainer writes liveness state only: ids, addresses and bucket slots of the entries - hence the number of
   entries, the bucket sizes, the placement of every entry - are the same after a pass as before it, provided the
   refreshes keep them (the packet path's business: C05's invariant). *)
Section MaintStructure.
  Variable id_secure : N -> bytes -> bool.
  Variable cfg : config.

  Definition shape (n : node) : N * addr * nat := (n_id n, n_addr n, n_slot n).

  Lemma apply_update_shape now u n : shape (apply_update now u n) = shape n.
  Proof. destruct u; reflexivity. Qed.

  Lemma settle_ping_shape now answers n : shape (settle_ping now answers n) = shape n.
  Proof. unfold settle_ping. destruct (answers n); try apply apply_update_shape; reflexivity. Qed.

  Lemma after_pings_shape now answers nodes i :
    map shape (after_pings id_secure cfg now answers nodes i) = map shape nodes.
  Proof.
    unfold after_pings. rewrite map_map. apply map_ext. intros n.
    destruct (Nat.eqb (n_slot n) i && m_quest id_secure cfg now n); [apply settle_ping_shape | reflexivity].
  Qed.

  Lemma refresh_answering_shape now answersf i nodes :
    map shape (refresh_answering id_secure cfg now answersf i nodes) = map shape nodes.
  Proof.
    unfold refresh_answering. rewrite map_map. apply map_ext. intros n.
    destruct (negb (m_bad id_secure cfg n) && answersf n); [apply apply_update_shape | reflexivity].
  Qed.

  Definition shape_preserving (refresh : nat -> list node -> list node) : Prop :=
    forall i l, map shape (refresh i l) = map shape l.

  Lemma pass_from_shape fuel i now answers refresh nodes :
    shape_preserving refresh ->
    map shape (snd (pass_from id_secure cfg fuel i now answers refresh nodes)) = map shape nodes.
  Proof.
    intros Hr. revert i nodes. induction fuel as [|f IH]; intros i nodes; cbn [pass_from]; [reflexivity|].
    pose proof (after_pings_shape now answers nodes i) as H1.
    destruct (should_stop id_secure cfg (after_pings id_secure cfg now answers nodes i) i).
    - specialize (IH (S i) (after_pings id_secure cfg now answers nodes i)).
      destruct (pass_from id_secure cfg f (S i) now answers refresh (after_pings id_secure cfg now answers nodes i)) as [ph nf].
      cbn [snd] in *. rewrite IH. exact H1.
    - pose proof (Hr i (after_pings id_secure cfg now answers nodes i)) as H2.
      destruct (should_stop id_secure cfg (refresh i (after_pings id_secure cfg now answers nodes i)) i).
      + specialize (IH (S i) (refresh i (after_pings id_secure cfg now answers nodes i))).
        destruct (pass_from id_secure cfg f (S i) now answers refresh (refresh i (after_pings id_secure cfg now answers nodes i))) as [ph nf].
        cbn [snd] in *. rewrite IH, H2. exact H1.
      + cbn [snd]. rewrite H2. exact H1.
  Qed.

  (* bucket sizes are a function of the shape *)
  Lemma bucket_length_shape (l m : list node) i :
    map shape l = map shape m -> length (bucket l i) = length (bucket m i).
  Proof.
    revert m. induction l as [|x l IH]; intros [|y m] H; try discriminate H; [reflexivity|].
    cbn [map] in H. assert (Hx : shape x = shape y) by congruence.
    assert (Hl : map shape l = map shape m) by congruence.
    unfold bucket in *. cbn [filter].
    assert (Hs : n_slot x = n_slot y) by (unfold shape in Hx; congruence).
    rewrite Hs. destruct (Nat.eqb (n_slot y) i); cbn [length]; rewrite (IH m Hl); reflexivity.
  Qed.
End MaintStructure.
