(* KrpcProofs.v — proofs about model/Krpc.v: no decoder of the message codec panics; a well-formed
   message encodes, and decoding the encoding gives it back (per kind of field, per struct, whole
   message); what decodes is well-formed, hence re-encodes to a fixpoint. *)
From Coq Require Import String.
From Dht Require Import Base Msg Compact Bencode Krpc Int160Proofs CompactProofs BencodeProofs.
From DhtGen Require Import KrpcSchema.
From Coq Require Import Lia ZifyN ZifyNat ZifyBool Arith.
Close Scope string_scope.
Local Arguments firstn : simpl never.
Local Arguments skipn : simpl never.

(* ---------------------------------------------------------------- one-step unfoldings *)
Lemma pt_S f t dirty b :
  parse_ty (S f) t dirty b =
      match t with
      | GUnm =>
          (* parseUnmarshaler: `e` is "no value"; else one raw value, handed over unvalidated *)
          match b with
          | [] => None
          | c :: _ =>
              if byte_eqb c ch_e then None
              else match scan_value b with
                   | Some (raw, r) => Some (VRaw raw, r, true)
                   | None => None
                   end
          end
      | GAny =>
          match parse_value_d dirty b with
          | Some (v, r) => Some (VAny v, r, dirty)
          | None => None
          end
      | _ =>
          match b with
          | [] => None
          | c :: r =>
              if byte_eqb c ch_e then None            (* no value here: caller reports the error *)
              else if byte_eqb c ch_d then
                match t with
                | GStruct s =>
                    match parse_fields f s dirty r with
                    | Some (fs, r', d') => Some (VStruct fs, r', d')
                    | None => None
                    end
                | _ =>
                    (* parseDict into a non-struct: fails at the first key, so only `de` passes *)
                    match r with
                    | c2 :: r2 => if byte_eqb c2 ch_e then Some (VZero, r2, dirty) else None
                    | [] => None
                    end
                end
              else if byte_eqb c ch_l then
                match t with
                | GSlice t' =>
                    match parse_elems f t' None dirty r with
                    | Some (l, r', d') => Some (VList l, r', d')
                    | None => None
                    end
                | GBytes =>
                    match parse_elems f GU8 None dirty r with
                    | Some (l, r', d') => Some (VList l, r', d')
                    | None => None
                    end
                | GArr n =>
                    match parse_elems f GU8 (Some n) dirty r with
                    | Some (l, r', d') => Some (VList l, r', d')
                    | None => None
                    end
                | _ =>
                    (* singleton-list coercion: parse as []T and require exactly one element *)
                    match parse_elems f t None dirty r with
                    | Some ([v], r', d') => Some (v, r', d')
                    | _ => None
                    end
                end
              else if byte_eqb c ch_i then
                if dirty then None      (* unreachable in a Msg: a typed integer never follows a raw value directly *)
                else match read_until ch_e r with
                     | None => None
                     | Some (txt, r') =>
                         if check_buffered_int txt then
                           match t with
                           | GInt =>
                               match parse_sdec txt with
                               | Some z => if in_int64 z then Some (VInt z, r', false) else None
                               | None => None
                               end
                           | GU8 =>
                               match parse_udec txt with
                               | Some n => if N.leb n 255 then Some (VInt (Z.of_N n), r', false) else None
                               | None => None
                               end
                           | GBool => Some (VBool (negb (bytes_eqb txt zero_text)), r', false)
                           | _ => None
                           end
                         else None
                     end
              else if is_digit c then
                match parse_str_tok b with
                | None => None
                | Some (s, r') =>
                    match t with
                    | GStr | GBytes => Some (VStr s, r', false)
                    | GArr n => Some (VStr (fit n s), r', false)
                    | _ => None
                    end
                end
              else None
          end
      end.
Proof. reflexivity. Qed.

Lemma pe_S f t cap dirty b :
  parse_elems (S f) t cap dirty b =
      match b with
      | [] => None
      | c :: r =>
          if byte_eqb c ch_e then
            (* parseUnmarshaler resets the scratch buffer before it meets the terminator *)
            Some ([], r, match t with GUnm => false | _ => dirty end)
          else if cap_full cap then
            (* beyond the end of an array: parsed strictly as interface{} and dropped *)
            match parse_value_d dirty b with
            | Some (_, b1) => parse_elems f t cap dirty b1
            | None => None
            end
          else
            match parse_ty f t dirty b with
            | None => None
            | Some (v, b1, d1) =>
                match parse_elems f t (dec_cap cap) d1 b1 with
                | Some (l, b2, d2) => Some (v :: l, b2, d2)
                | None => None
                end
            end
      end.
Proof. reflexivity. Qed.

Lemma pf_S f s dirty b :
  parse_fields (S f) s dirty b =
      match b with
      | [] => None
      | c :: r =>
          if byte_eqb c ch_e then Some ([], r, dirty)
          else
            (* the key goes through parseValue with a string target: coercions apply *)
            match parse_ty f GStr dirty b with
            | None => None
            | Some (kv, b1, d1) =>
                match lookup_field s (key_of kv) with
                | None =>
                    (* unknown key: value parsed strictly as interface{} and dropped *)
                    match parse_value_d d1 b1 with
                    | Some (_, b2) => parse_fields f s d1 b2
                    | None => None
                    end
                | Some fd =>
                    match ty_of_kind (f_kind fd) with
                    | None => None
                    | Some t =>
                        match parse_ty f t d1 b1 with
                        | None => None
                        | Some (v, b2, d2) =>
                            match parse_fields f s d2 b2 with
                            | Some (fs, b3, d3) => Some ((key_of kv, v) :: fs, b3, d3)
                            | None => None
                            end
                        end
                    end
                end
            end
      end.
Proof. reflexivity. Qed.

(* ---------------------------------------------------------------- small helpers *)
Lemma of_opt_no_panic {A} (o : option A) : of_opt o <> CPanic.
Proof. destruct o; discriminate. Qed.

Lemma obind_no_panic {A B} (o : cresult A) (f : A -> cresult B) :
  o <> CPanic -> (forall a, o = COk a -> f a <> CPanic) -> obind o f <> CPanic.
Proof. intros H1 H2. destruct o; simpl; [apply H2; reflexivity | discriminate | congruence]. Qed.

Lemma obind_ok {A B} (o : cresult A) (f : A -> cresult B) y :
  obind o f = COk y -> exists a, o = COk a /\ f a = COk y.
Proof. destruct o; simpl; intros H; try discriminate. eauto. Qed.

Lemma of_opt_ok {A} (o : option A) y : of_opt o = COk y -> o = Some y.
Proof. destruct o; simpl; intros H; congruence. Qed.

(* ================================================================================================
   No panic: the message decoder never has the outcome DPanic, for either NodeInfo decoder
   ================================================================================================ *)
Section NoPanic.
  Variable ni : bytes -> cresult node_info.
  Hypothesis ni_long : forall b, (22 <= length b)%nat -> ni b = nodeinfo_unmarshal b.

  Lemma ni_list_no_panic4 s : compact_dec w_info4 ni s <> CPanic.
  Proof. rewrite w_info4_eq. apply compact_dec_no_panic; [lia|]. intros c. apply (info_total _ ni_long 26). lia. Qed.
  Lemma ni_list_no_panic6 s : compact_dec w_info6 ni s <> CPanic.
  Proof. rewrite w_info6_eq. apply compact_dec_no_panic; [lia|]. intros c. apply (info_total _ ni_long 38). lia. Qed.

  Lemma benc_string_of_raw_no_panic raw : benc_string_of_raw raw <> CPanic.
  Proof. unfold benc_string_of_raw. destruct (unmarshal_exact GStr raw); [apply of_opt_no_panic | discriminate]. Qed.

  Lemma nodeaddr_unmarshal_benc_no_panic raw : nodeaddr_unmarshal_benc raw <> CPanic.
  Proof.
    unfold nodeaddr_unmarshal_benc. destruct (unmarshal_exact GBytes raw); [|discriminate].
    destruct (conv_bytes g); [apply nodeaddr_unmarshal_no_panic | discriminate].
  Qed.

  Lemma compact_conv_no_panic c ptr raw : compact_conv ni c ptr raw <> CPanic.
  Proof.
    unfold compact_conv. apply obind_no_panic; [apply benc_string_of_raw_no_panic|]. intros s _.
    destruct (bytes_eqb c nm_CompactIPv4NodeInfo).
    { apply obind_no_panic; [apply ni_list_no_panic4 | discriminate]. }
    destruct (bytes_eqb c nm_CompactIPv6NodeInfo).
    { apply obind_no_panic; [apply ni_list_no_panic6 | discriminate]. }
    destruct (bytes_eqb c nm_CompactIPv4NodeAddrs).
    { apply obind_no_panic; [apply addrs4_no_panic | discriminate]. }
    destruct (bytes_eqb c nm_CompactIPv6NodeAddrs).
    { apply obind_no_panic; [apply addrs6_no_panic | discriminate]. }
    destruct (bytes_eqb c nm_CompactInfohashes).
    { apply obind_no_panic; [apply hashes_no_panic | discriminate]. }
    discriminate.
  Qed.

  Lemma conv_addr_list_no_panic l : conv_addr_list l <> CPanic.
  Proof.
    induction l as [|v l IH]; simpl; [discriminate|].
    destruct (conv_raw v); [|discriminate].
    apply obind_no_panic; [apply nodeaddr_unmarshal_benc_no_panic|]. intros a _.
    apply obind_no_panic; [exact IH | discriminate].
  Qed.

  Lemma conv_kind_no_panic k v : conv_kind ni k v <> CPanic.
  Proof.
    destruct k; simpl; try discriminate;
      try (apply obind_no_panic; [apply of_opt_no_panic | intros; try discriminate]).
    - apply obind_no_panic; [apply of_opt_no_panic | discriminate].
    - apply obind_no_panic; [apply nodeaddr_unmarshal_benc_no_panic | discriminate].
    - apply compact_conv_no_panic.
    - apply compact_conv_no_panic.
    - destruct v; try discriminate. apply obind_no_panic; [apply conv_addr_list_no_panic | discriminate].
    - destruct v; try discriminate. apply obind_no_panic; [apply of_opt_no_panic | discriminate].
    - apply obind_no_panic; [apply of_opt_no_panic | discriminate].
    - destruct v; discriminate.
  Qed.

  Lemma conv_fields_no_panic {R} s conv (set : bytes -> fval -> R -> option R) :
    (forall k v, conv k v <> CPanic) -> forall fs acc, conv_fields s conv set fs acc <> CPanic.
  Proof.
    intros Hc. induction fs as [|[key v] fs IH]; intros acc; simpl; [discriminate|].
    destruct (lookup_field s key); [|discriminate].
    apply obind_no_panic; [apply Hc|]. intros fv _.
    apply obind_no_panic; [apply of_opt_no_panic|]. intros acc' _. apply IH.
  Qed.

  Lemma conv_kind_msg_no_panic k v : conv_kind_msg ni k v <> CPanic.
  Proof.
    destruct k; try apply conv_kind_no_panic. simpl.
    destruct (sid_of_name s) as [[| |]|]; try discriminate.
    - apply obind_no_panic; [|discriminate]. unfold conv_args. destruct v; try discriminate.
      apply conv_fields_no_panic. apply conv_kind_no_panic.
    - apply obind_no_panic; [|discriminate]. unfold conv_ret. destruct v; try discriminate.
      apply conv_fields_no_panic. apply conv_kind_no_panic.
  Qed.

  Theorem decode_xmsg_no_panic b : decode_xmsg ni b <> DPanic.
  Proof.
    unfold decode_xmsg. destruct (parse_ty (length b) (GStruct SMsg) false b) as [[[v rest] d]|]; [|discriminate].
    assert (H : conv_msg ni v <> CPanic).
    { unfold conv_msg. destruct v; try discriminate. apply conv_fields_no_panic. apply conv_kind_msg_no_panic. }
    destruct (conv_msg ni v); [destruct rest; discriminate | discriminate | congruence].
  Qed.

  Theorem decode_msg_no_panic b : decode_msg ni b <> DPanic.
  Proof.
    unfold decode_msg. pose proof (decode_xmsg_no_panic b). destruct (decode_xmsg ni b); congruence.
  Qed.
End NoPanic.

Theorem decode_msg_fixed_no_panic b : decode_msg_fixed b <> DPanic.
Proof. apply decode_msg_no_panic. intros; reflexivity. Qed.
(* in a message every NodeInfo comes out of a compact list of full-width elements, so the pinned
   NodeInfo decoder is never handed a short input *)
Theorem decode_msg_pinned_no_panic b : decode_msg_pinned b <> DPanic.
Proof. apply decode_msg_no_panic. exact pinned_long. Qed.

(* ================================================================================================
   Tokens under the type-directed parser
   ================================================================================================ *)
Lemma chars_of_digit c : is_digit c = true ->
  byte_eqb c ch_e = false /\ byte_eqb c ch_d = false /\ byte_eqb c ch_l = false /\ byte_eqb c ch_i = false.
Proof. intros H. destruct (is_digit_chars c H) as (A & B & C & D). auto. Qed.

Lemma pt_str f t s rest d :
  str_ok s = true -> t = GStr \/ t = GBytes ->
  parse_ty (S f) t d (benc_str s ++ rest) = Some (VStr s, rest, false).
Proof.
  intros Hs Ht. rewrite pt_S.
  destruct (benc_str_head s) as (c & tl & E & Hd).
  pose proof (parse_str_tok_benc s rest Hs) as P. rewrite E in *. cbn [app] in *.
  destruct (chars_of_digit c Hd) as (E1 & E2 & E3 & E4).
  destruct Ht as [-> | ->]; rewrite E1, E2, E3, E4, Hd, P; reflexivity.
Qed.

Lemma pt_arr f n s rest d :
  str_ok s = true -> parse_ty (S f) (GArr n) d (benc_str s ++ rest) = Some (VStr (fit n s), rest, false).
Proof.
  intros Hs. rewrite pt_S.
  destruct (benc_str_head s) as (c & tl & E & Hd).
  pose proof (parse_str_tok_benc s rest Hs) as P. rewrite E in *. cbn [app] in *.
  destruct (chars_of_digit c Hd) as (E1 & E2 & E3 & E4).
  rewrite E1, E2, E3, E4, Hd, P; reflexivity.
Qed.

Lemma benc_int_app z rest : benc_int z ++ rest = ch_i :: dec_Z z ++ ch_e :: rest.
Proof. unfold benc_int. cbn [app]. rewrite <- app_assoc. reflexivity. Qed.

Lemma pt_int f z rest :
  in_int64 z = true -> parse_ty (S f) GInt false (benc_int z ++ rest) = Some (VInt z, rest, false).
Proof.
  intros Hz. rewrite pt_S, benc_int_app.
  change (byte_eqb ch_i ch_e) with false. change (byte_eqb ch_i ch_d) with false.
  change (byte_eqb ch_i ch_l) with false. change (byte_eqb ch_i ch_i) with true. cbv iota.
  rewrite read_until_app by apply dec_Z_no_e.
  rewrite check_buffered_int_dec_Z, parse_sdec_dec_Z, Hz. reflexivity.
Qed.

Lemma pt_bool f (v : bool) rest :
  parse_ty (S f) GBool false (benc_int (if v then 1%Z else 0%Z) ++ rest) = Some (VBool v, rest, false).
Proof. rewrite pt_S. destruct v; reflexivity. Qed.

Lemma one_raw_head raw : one_raw_value raw -> exists c r, raw = c :: r /\ byte_eqb c ch_e = false.
Proof.
  unfold one_raw_value, scan_value. destruct raw as [|c r]; [discriminate|].
  intros H. exists c, r. split; [reflexivity|].
  destruct (byte_eqb c ch_e) eqn:E; [|reflexivity].
  apply byte_eqb_eq in E. subst c. cbn [length] in H. rewrite sv_S in H. discriminate.
Qed.

Lemma pt_unm f raw rest d :
  one_raw_value raw -> parse_ty (S f) GUnm d (raw ++ rest) = Some (VRaw raw, rest, true).
Proof.
  intros H. rewrite pt_S. destruct (one_raw_head raw H) as (c & r & E & Ee).
  pose proof (scan_value_raw_app raw rest H) as P. rewrite E in *. cbn [app] in *.
  rewrite Ee, P. reflexivity.
Qed.

Lemma pt_any f v rest :
  canonb v = true -> parse_ty (S f) GAny false (benc v ++ rest) = Some (VAny v, rest, false).
Proof.
  intros H. rewrite pt_S. change (parse_value_d false) with parse_value.
  rewrite parse_value_benc_top by exact H. reflexivity.
Qed.

(* the encodings are not empty and do not begin with the terminator *)
Definition starts_ok (enc : bytes) : Prop := exists c r, enc = c :: r /\ byte_eqb c ch_e = false.

Lemma starts_ok_str s : starts_ok (benc_str s).
Proof. destruct (benc_str_head s) as (c & t & E & Hd). exists c, t. split; [exact E | apply (chars_of_digit c Hd)]. Qed.
Lemma starts_ok_int z : starts_ok (benc_int z).
Proof. unfold benc_int. eexists _, _. split; reflexivity. Qed.
Lemma starts_ok_app a b : starts_ok a -> starts_ok (a ++ b).
Proof. intros (c & r & -> & E). exists c, (r ++ b). split; [reflexivity | exact E]. Qed.
Lemma starts_ok_length enc : starts_ok enc -> (1 <= length enc)%nat.
Proof. intros (c & r & -> & _). simpl. lia. Qed.

(* ---- lists ---- *)
Lemma pe_strs l : forall f rest d,
  forallb str_ok l = true -> (length (concat (map benc_str l)) + 1 <= f)%nat ->
  exists d', parse_elems f GStr None d (concat (map benc_str l) ++ ch_e :: rest) = Some (map VStr l, rest, d').
Proof.
  induction l as [|x l IH]; intros f rest d Hs Hf.
  - destruct f as [|f]; [lia|]. rewrite pe_S. cbn [map concat app].
    rewrite byte_eqb_refl. eauto.
  - destruct f as [|f]; [lia|]. rewrite pe_S.
    cbn [forallb] in Hs. apply andb_prop in Hs. destruct Hs as [Hx Hl].
    cbn [map concat] in *. rewrite <- app_assoc. rewrite app_length in Hf.
    destruct (starts_ok_str x) as (c & r & E & Ee).
    pose proof (benc_str_length_pos x) as Lx.
    destruct f as [|f]; [lia|].
    pose proof (pt_str f GStr x (concat (map benc_str l) ++ ch_e :: rest) d Hx (or_introl eq_refl)) as P.
    rewrite E in *. cbn [app] in *. rewrite Ee. cbn [cap_full]. rewrite P. cbn [dec_cap].
    destruct (IH (S f) rest false Hl ltac:(cbn [length] in Hf; lia)) as (d' & Q). rewrite Q. eauto.
Qed.

Lemma pe_raws raws : forall f rest d,
  Forall one_raw_value raws -> (length (concat raws) + 1 <= f)%nat ->
  parse_elems f GUnm None d (concat raws ++ ch_e :: rest) = Some (map VRaw raws, rest, false).
Proof.
  induction raws as [|x l IH]; intros f rest d Hs Hf.
  - destruct f as [|f]; [lia|]. rewrite pe_S. cbn [map concat app].
    rewrite byte_eqb_refl. reflexivity.
  - destruct f as [|f]; [lia|]. rewrite pe_S.
    apply Forall_cons_iff in Hs. destruct Hs as [Hx Hl].
    cbn [map concat] in *. rewrite <- app_assoc. rewrite app_length in Hf.
    destruct (one_raw_head x Hx) as (c & r & E & Ee).
    destruct f as [|f]; [subst x; cbn [length] in Hf; lia|].
    pose proof (pt_unm f x (concat l ++ ch_e :: rest) d Hx) as P.
    rewrite E in *. cbn [app] in *. rewrite Ee. cbn [cap_full]. rewrite P. cbn [dec_cap].
    rewrite (IH (S f) rest true Hl ltac:(cbn [length] in Hf; lia)). reflexivity.
Qed.

(* ---- raw values the Marshalers emit ---- *)
Lemma str_ok_int64 s : str_ok s = true -> Z.leb (Z.of_N (N.of_nat (length s))) int64_max = true.
Proof. unfold str_ok, max_str_len, int64_max. intros H. lia. Qed.

Lemma scan_benc_str f s rest :
  str_ok s = true -> scan_value_fuel (S f) (benc_str s ++ rest) = Some (benc_str s, rest).
Proof.
  intros Hs. rewrite sv_S.
  destruct (benc_str_head s) as (c & tl & E & Hd).
  destruct (chars_of_digit c Hd) as (E1 & E2 & E3 & E4).
  assert (R : read_until ch_colon (benc_str s ++ rest) = Some (dec_N (N.of_nat (length s)), s ++ rest)).
  { unfold benc_str. rewrite <- app_assoc. cbn [app]. apply read_until_app. apply dec_N_no_colon. }
  rewrite E in *. cbn [app] in *. rewrite E2, E3, E4, Hd. cbn [orb]. rewrite R.
  rewrite parse_udec_dec_N, (str_ok_int64 s Hs), take_str_app. rewrite <- E. reflexivity.
Qed.

Lemma one_raw_benc_str s : str_ok s = true -> one_raw_value (benc_str s).
Proof.
  intros Hs. unfold one_raw_value, scan_value.
  pose proof (benc_str_length_pos s) as L. destruct (length (benc_str s)) as [|k] eqn:E; [lia|].
  pose proof (scan_benc_str k s [] Hs) as P. rewrite app_nil_r in P. exact P.
Qed.

Lemma scan_benc_int f z rest : scan_value_fuel (S f) (benc_int z ++ rest) = Some (benc_int z, rest).
Proof.
  rewrite sv_S, benc_int_app.
  change (byte_eqb ch_i ch_d || byte_eqb ch_i ch_l) with false. change (byte_eqb ch_i ch_i) with true. cbv iota.
  rewrite read_until_app by apply dec_Z_no_e. reflexivity.
Qed.

Definition benc_err (c : Z) (m : bytes) : bytes := benc (BList [BInt c; BStr m]).

Lemma benc_err_eq c m : benc_err c m = ch_l :: benc_int c ++ benc_str m ++ [ch_e].
Proof. unfold benc_err. cbn [benc flat_map]. rewrite app_nil_r, <- app_assoc. reflexivity. Qed.

Lemma one_raw_benc_err c m : str_ok m = true -> one_raw_value (benc_err c m).
Proof.
  intros Hm. unfold one_raw_value, scan_value. rewrite benc_err_eq.
  pose proof (benc_str_length_pos m) as Lm.
  assert (Li : (3 <= length (benc_int c))%nat).
  { unfold benc_int. cbn [length]. rewrite app_length. cbn [length].
    assert (1 <= length (dec_Z c))%nat; [|lia].
    destruct c as [|p|p]; cbn [dec_Z length]; try lia.
    destruct (dec_N_spec (N.pos p)) as (_ & Hne & _). destruct (dec_N (N.pos p)); [congruence | cbn [length]; lia]. }
  cbn [length]. rewrite !app_length. cbn [length].
  remember (length (benc_int c) + (length (benc_str m) + 1))%nat as n eqn:En.
  destruct n as [|[|[|n]]]; try lia.
  rewrite sv_S. change (byte_eqb ch_l ch_d || byte_eqb ch_l ch_l) with true. cbv iota.
  rewrite si_S.
  destruct (starts_ok_int c) as (c1 & r1 & E1 & Ee1).
  pose proof (scan_benc_int (S n) c (benc_str m ++ [ch_e])) as P1.
  rewrite E1 in *. cbn [app] in *. rewrite Ee1, P1.
  rewrite si_S.
  destruct (starts_ok_str m) as (c2 & r2 & E2 & Ee2).
  pose proof (scan_benc_str n m [ch_e] Hm) as P2.
  rewrite E2 in *. cbn [app] in *. rewrite Ee2, P2.
  rewrite si_S. rewrite byte_eqb_refl. reflexivity.
Qed.

Lemma id_prefix_benc s : length s = 20%nat -> id_prefix ++ s = benc_str s.
Proof. intros H. unfold benc_str. rewrite H. reflexivity. Qed.

Lemma len20_str_ok s : length s = 20%nat -> str_ok s = true.
Proof. intros H. unfold str_ok. rewrite H. reflexivity. Qed.

(* ---- what the UnmarshalBencode methods make of those raw values ---- *)
Lemma unmarshal_exact_str t s :
  str_ok s = true -> t = GStr \/ t = GBytes -> unmarshal_exact t (benc_str s) = Some (VStr s).
Proof.
  intros Hs Ht. unfold unmarshal_exact.
  pose proof (benc_str_length_pos s) as L. destruct (length (benc_str s)) as [|k] eqn:E; [lia|].
  pose proof (pt_str k t s [] false Hs Ht) as P. rewrite app_nil_r in P. rewrite P. reflexivity.
Qed.

Lemma id_unmarshal_benc s : length s = 20%nat -> id_unmarshal (id_prefix ++ s) = Some s.
Proof.
  intros H. rewrite id_prefix_benc by exact H. unfold id_unmarshal.
  rewrite unmarshal_exact_str by (auto using len20_str_ok). cbn [conv_str]. rewrite H. cbn [Nat.ltb Nat.leb].
  rewrite <- H. rewrite firstn_all. reflexivity.
Qed.

Lemma nodeaddr_unmarshal_benc_rt a :
  addr_okb a = true -> nodeaddr_unmarshal_benc (benc_str (nodeaddr_marshal a)) = COk a.
Proof.
  unfold addr_okb. intros H. apply andb_prop in H. destruct H as [Hp Hs].
  unfold nodeaddr_unmarshal_benc. rewrite unmarshal_exact_str by auto. cbn [conv_bytes].
  apply nodeaddr_roundtrip. unfold port_okb in Hp. unfold port_ok. lia.
Qed.

Lemma benc_string_of_raw_benc s : str_ok s = true -> benc_string_of_raw (benc_str s) = COk s.
Proof. intros H. unfold benc_string_of_raw. rewrite unmarshal_exact_str by auto. reflexivity. Qed.

Lemma error_unmarshal_benc c m :
  in_int64 c = true -> str_ok m = true -> error_unmarshal (benc_err c m) = Some (mkErr c m).
Proof.
  intros Hc Hm. unfold error_unmarshal, benc_err.
  pose proof (parse_value_benc_top (BList [BInt c; BStr m]) []) as P.
  rewrite app_nil_r in P. rewrite P; [rewrite Hc; reflexivity|].
  cbn [canonb forallb]. rewrite Hm. reflexivity.
Qed.

(* ================================================================================================
   Round trip, kind by kind
   ================================================================================================ *)
(* the fval of the Go zero value of a field of kind k *)
Definition zero_fval (k : kind) : fval :=
  match k with
  | KStr => FStr []
  | KPtrStr | KBytes | KPtrArr _ | KRaw => FOStr None
  | KInt => FInt 0
  | KPtrInt => FOInt None
  | KBool => FBool false
  | KId => FStr zero20
  | KArr n => FStr (zero_bytes n)
  | KNodeAddr => FAddr false empty_na
  | KCompact c | KPtrCompact c => if bytes_eqb c nm_CompactInfohashes then FStrs None else FInfos None
  | KAddrList => FAddrs None
  | KWants => FStrs None
  | KPtrErr => FErr None
  | KAny => FAny None
  | KPtrStruct n => if bytes_eqb n nm_MsgArgs then FArgs None else FRet None
  | KUnknown _ => FStr []
  end.

(* kinds whose zero value, when written, reads back as itself (fields without omitempty) *)
Definition total_kind (k : kind) : bool :=
  match k with KStr | KId | KInt | KBool | KArr _ => true | _ => false end.

Lemma all_zero_eq s : all_zero s = true -> s = zero_bytes (length s).
Proof.
  induction s as [|x s IH]; simpl; [reflexivity|]. intros H. apply andb_prop in H. destruct H as [Hx Hs].
  apply N.eqb_eq in Hx. change 0%N with (Byte.to_N x00) in Hx. apply to_N_inj in Hx. subst x.
  unfold zero_bytes in *. simpl. f_equal. apply IH. exact Hs.
Qed.

Lemma fit_exact n s : length s = n -> fit n s = s.
Proof. intros <-. unfold fit. rewrite firstn_all, Nat.sub_diag. simpl. apply app_nil_r. Qed.

Lemma fit_length n s : length (fit n s) = n.
Proof.
  unfold fit. rewrite app_length, firstn_length. unfold zero_bytes. rewrite repeat_length. lia.
Qed.

Lemma one_raw_valueb_true raw : one_raw_valueb raw = true -> one_raw_value raw.
Proof.
  unfold one_raw_valueb, one_raw_value. destruct (scan_value raw) as [[r [|x t]]|]; try discriminate.
  intros H. apply bytes_eqb_eq in H. subst r. reflexivity.
Qed.

Lemma one_raw_valueb_of raw : one_raw_value raw -> one_raw_valueb raw = true.
Proof. unfold one_raw_valueb, one_raw_value. intros ->. apply bytes_eqb_refl. Qed.

Lemma wf_infob_true n x : wf_infob n x = true -> wf_info n x.
Proof.
  unfold wf_infob, wf_addrb, port_okb, wf_info, wf_addr, port_ok. intros H.
  apply andb_prop in H. destruct H as [H1 H]. apply andb_prop in H. destruct H as [H2 H3].
  apply Nat.eqb_eq in H1. apply Nat.eqb_eq in H2. repeat split; try assumption; lia.
Qed.

Lemma wf_infob_forall n l : forallb (wf_infob n) l = true -> Forall (wf_info n) l.
Proof. rewrite forallb_forall, Forall_forall. intros H x Hx. apply wf_infob_true. auto. Qed.

Lemma blob_str_ok b n w : length b = (n * w)%nat -> blob_okb n w = true -> str_ok b = true.
Proof. unfold blob_okb, str_ok. intros -> H. exact H. Qed.

Lemma conv_str_list_map l : conv_str_list (map VStr l) = Some l.
Proof. induction l as [|x l IH]; simpl; [reflexivity | rewrite IH; reflexivity]. Qed.

Section KindRT.
  Variable ni : bytes -> cresult node_info.
  Hypothesis ni_long : forall b, (22 <= length b)%nat -> ni b = nodeinfo_unmarshal b.

  Definition parses_back (k : kind) (enc : bytes) (fv : fval) : Prop :=
    exists t gv, ty_of_kind k = Some t /\ starts_ok enc /\
      (forall fuel rest, (length enc <= fuel)%nat ->
         exists d', parse_ty fuel t false (enc ++ rest) = Some (gv, rest, d')) /\
      conv_kind ni k gv = COk fv.

  Lemma infos4_inverse_ni l :
    Forall (wf_info 4) l ->
    exists b, infos4_enc l = COk b /\ compact_dec w_info4 ni b = COk l /\ length b = (length l * 26)%nat.
  Proof.
    intros H. destruct (infos4_inverse l H) as (b & E & _). exists b. split; [exact E|].
    unfold infos4_enc in E. rewrite w_info4_eq in *. split.
    - apply (compact_enc_dec 26 (fun n => nodeinfo_marshal (info4_conv n)) ni ltac:(lia) l b E).
      eapply Forall_impl; [|exact H]. intros [id [ip p]] (Li & La & Pa). simpl in *.
      unfold info4_conv. simpl. rewrite to4_len4 by exact La. simpl.
      rewrite ni_long by (rewrite nodeinfo_marshal_length; simpl; lia).
      apply nodeinfo_roundtrip; assumption.
    - exact (enc_length 26 _ ni ltac:(lia) l b E).
  Qed.

  Lemma infos6_inverse_ni l :
    Forall (wf_info 16) l ->
    exists b, infos6_enc l = COk b /\ compact_dec w_info6 ni b = COk l /\ length b = (length l * 38)%nat.
  Proof.
    intros H. destruct (infos6_inverse l H) as (b & E & _). exists b. split; [exact E|].
    unfold infos6_enc in E. rewrite w_info6_eq in *. split.
    - apply (compact_enc_dec 38 (fun n => nodeinfo_marshal (info6_conv n)) ni ltac:(lia) l b E).
      eapply Forall_impl; [|exact H]. intros [id [ip p]] (Li & La & Pa). simpl in *.
      unfold info6_conv. simpl. rewrite to16_len16 by exact La. simpl.
      rewrite ni_long by (rewrite nodeinfo_marshal_length; simpl; lia).
      apply nodeinfo_roundtrip; assumption.
    - exact (enc_length 38 _ ni ltac:(lia) l b E).
  Qed.

  Lemma hashes_inverse_len l :
    Forall (fun h => length h = 20%nat) l -> hashes_dec (concat l) = COk l /\ length (concat l) = (length l * 20)%nat.
  Proof.
    intros H. split.
    - destruct (hashes_inverse l H) as (b & E & D). unfold hashes_enc in E. injection E as <-. exact D.
    - induction H as [|x l Hx Hl IH]; simpl; [reflexivity|]. rewrite app_length, IH, Hx. lia.
  Qed.

  (* GUnm-typed kinds: the raw value is handed over as it is *)
  Lemma parses_back_unm k raw fv :
    ty_of_kind k = Some GUnm -> one_raw_value raw -> conv_kind ni k (VRaw raw) = COk fv -> parses_back k raw fv.
  Proof.
    intros Ht Hr Hc. exists GUnm, (VRaw raw). split; [exact Ht|]. split; [apply one_raw_head; exact Hr|].
    split; [|exact Hc]. intros fuel rest Hf.
    destruct fuel as [|f]; [destruct (one_raw_head raw Hr) as (c & r & -> & _); simpl in Hf; lia|].
    rewrite pt_unm by exact Hr. eauto.
  Qed.

  Lemma conv_addr_list_map l :
    forallb addr_okb l = true ->
    conv_addr_list (map VRaw (map (fun a => benc_str (nodeaddr_marshal a)) l)) = COk l.
  Proof.
    induction l as [|a l IH]; simpl; [reflexivity|]. intros H. apply andb_prop in H. destruct H as [Ha Hl].
    rewrite nodeaddr_unmarshal_benc_rt by exact Ha. simpl. rewrite IH by exact Hl. reflexivity.
  Qed.

  Lemma compact_wf_cases c ptr fv :
    compact_wfb c ptr fv = true ->
    (exists o, fv = FInfos o /\ (c = nm_CompactIPv4NodeInfo \/ c = nm_CompactIPv6NodeInfo)) \/
    (exists o, fv = FStrs o /\ c = nm_CompactInfohashes).
  Proof.
    destruct fv; try discriminate; simpl; intros H.
    - left. exists o. split; [reflexivity|]. destruct o as [l|].
      + apply andb_prop in H. destruct H as [_ H2].
        destruct (bytes_eqb c nm_CompactIPv4NodeInfo) eqn:E1; [apply bytes_eqb_eq in E1; auto|].
        destruct (bytes_eqb c nm_CompactIPv6NodeInfo) eqn:E2; [apply bytes_eqb_eq in E2; auto | discriminate].
      + apply orb_prop in H. destruct H as [H2|H2]; apply bytes_eqb_eq in H2; auto.
    - right. exists o. apply andb_prop in H. destruct H as [H2 _]. apply bytes_eqb_eq in H2. auto.
  Qed.

  (* the compact kinds, pointer or not *)
  Definition ckind (ptr : bool) (c : bytes) : kind := if ptr then KPtrCompact c else KCompact c.

  Lemma compact_rt (c : bytes) (ptr : bool) (fv : fval) :
    let k := ckind ptr c in
    compact_wfb c ptr fv = true ->
    exists e enc, compact_emit c fv = COk (e, enc) /\ (e = true -> fv = zero_fval k) /\
                  (e = false -> parses_back k enc fv).
  Proof.
    intros k Hwf. assert (Hk : ty_of_kind k = Some GUnm) by (subst k; destruct ptr; reflexivity).
    assert (Hck : forall raw, conv_kind ni k (VRaw raw) = compact_conv ni c ptr raw) by (intros; subst k; destruct ptr; reflexivity).
    assert (Hz : zero_fval k = if bytes_eqb c nm_CompactInfohashes then FStrs None else FInfos None) by (subst k; destruct ptr; reflexivity).
    destruct (compact_wf_cases c ptr fv Hwf) as [(o & -> & Hc) | (o & -> & ->)].
    - (* node info lists *)
      destruct o as [l|].
      2:{ exists true, (benc_str []). split.
          - destruct Hc as [-> | ->]; reflexivity.
          - split; [|discriminate]. intros _. rewrite Hz. destruct Hc as [-> | ->]; reflexivity. }
      simpl in Hwf. apply andb_prop in Hwf. destruct Hwf as [Hne Hwf].
      destruct Hc as [-> | ->].
      + change (bytes_eqb nm_CompactIPv4NodeInfo nm_CompactIPv4NodeInfo) with true in Hwf. cbv iota in Hwf.
        apply andb_prop in Hwf. destruct Hwf as [Hl Hb].
        destruct (infos4_inverse_ni l (wf_infob_forall _ _ Hl)) as (b & E & D & L).
        exists false, (benc_str b). split; [simpl; rewrite E; reflexivity|]. split; [discriminate|]. intros _.
        pose proof (blob_str_ok b _ _ L Hb) as Sb.
        apply parses_back_unm; [exact Hk | apply one_raw_benc_str; exact Sb|].
        rewrite Hck. unfold compact_conv. rewrite benc_string_of_raw_benc by exact Sb. simpl. rewrite D. simpl.
        destruct ptr; [reflexivity|]. destruct l; [discriminate | reflexivity].
      + change (bytes_eqb nm_CompactIPv6NodeInfo nm_CompactIPv4NodeInfo) with false in Hwf.
        change (bytes_eqb nm_CompactIPv6NodeInfo nm_CompactIPv6NodeInfo) with true in Hwf. cbv iota in Hwf.
        apply andb_prop in Hwf. destruct Hwf as [Hl Hb].
        destruct (infos6_inverse_ni l (wf_infob_forall _ _ Hl)) as (b & E & D & L).
        exists false, (benc_str b). split; [simpl; rewrite E; reflexivity|]. split; [discriminate|]. intros _.
        pose proof (blob_str_ok b _ _ L Hb) as Sb.
        apply parses_back_unm; [exact Hk | apply one_raw_benc_str; exact Sb|].
        rewrite Hck. unfold compact_conv. rewrite benc_string_of_raw_benc by exact Sb. simpl. rewrite D. simpl.
        destruct ptr; [reflexivity|]. destruct l; [discriminate | reflexivity].
    - (* infohashes *)
      destruct o as [l|].
      2:{ exists true, (benc_str []). split; [reflexivity|]. split; [|discriminate]. intros _. rewrite Hz. reflexivity. }
      simpl in Hwf. apply andb_prop in Hwf. destruct Hwf as [Hwf Hb]. apply andb_prop in Hwf. destruct Hwf as [Hne Hl].
      assert (Hl' : Forall (fun h => length h = 20%nat) l).
      { rewrite Forall_forall. rewrite forallb_forall in Hl. intros x Hx. apply Nat.eqb_eq. auto. }
      destruct (hashes_inverse_len l Hl') as (D & L).
      exists false, (benc_str (concat l)). split; [reflexivity|]. split; [discriminate|]. intros _.
      pose proof (blob_str_ok _ _ _ L Hb) as Sb.
      apply parses_back_unm; [exact Hk | apply one_raw_benc_str; exact Sb|].
      rewrite Hck. unfold compact_conv. rewrite benc_string_of_raw_benc by exact Sb. simpl. rewrite D. simpl.
      destruct ptr; [reflexivity|]. destruct l; [discriminate | reflexivity].
  Qed.

  Lemma parses_back_str k t s fv :
    ty_of_kind k = Some t -> t = GStr \/ t = GBytes -> str_ok s = true ->
    conv_kind ni k (VStr s) = COk fv -> parses_back k (benc_str s) fv.
  Proof.
    intros Hk Ht Hs Hc. exists t, (VStr s). split; [exact Hk|]. split; [apply starts_ok_str|]. split; [|exact Hc].
    intros fuel rest Hf. pose proof (benc_str_length_pos s). destruct fuel as [|f]; [lia|].
    rewrite pt_str by assumption. eauto.
  Qed.

  Lemma parses_back_int k z fv :
    ty_of_kind k = Some GInt -> in_int64 z = true ->
    conv_kind ni k (VInt z) = COk fv -> parses_back k (benc_int z) fv.
  Proof.
    intros Hk Hz Hc. exists GInt, (VInt z). split; [exact Hk|]. split; [apply starts_ok_int|]. split; [|exact Hc].
    intros fuel rest Hf. destruct fuel as [|f]; [simpl in Hf; lia|].
    rewrite pt_int by assumption. eauto.
  Qed.

  Lemma parses_back_arr k n s fv :
    ty_of_kind k = Some (GArr n) -> length s = n -> str_ok s = true ->
    conv_kind ni k (VStr s) = COk fv -> parses_back k (benc_str s) fv.
  Proof.
    intros Hk Hn Hs Hc. exists (GArr n), (VStr s). split; [exact Hk|]. split; [apply starts_ok_str|]. split; [|exact Hc].
    intros fuel rest Hf. pose proof (benc_str_length_pos s). destruct fuel as [|f]; [lia|].
    rewrite pt_arr by assumption. rewrite fit_exact by exact Hn. eauto.
  Qed.

  Theorem kind_rt k fv :
    wf_fieldb k fv = true ->
    exists e enc, emit_kind k fv = COk (e, enc) /\ (e = true -> fv = zero_fval k) /\
                  (e = false \/ total_kind k = true -> parses_back k enc fv).
  Proof.
    intros Hwf.
    destruct k as [ | | | | | | |n|n| |c|c| | | | | |sn|un];
      try (exact (match compact_rt c false fv Hwf with
                  | ex_intro _ e (ex_intro _ enc (conj A (conj B C))) =>
                      ex_intro _ e (ex_intro _ enc (conj A (conj B (fun H => match H with or_introl H1 => C H1 | or_intror H2 => match Bool.diff_false_true H2 with end end))))
                  end));
      try (exact (match compact_rt c true fv Hwf with
                  | ex_intro _ e (ex_intro _ enc (conj A (conj B C))) =>
                      ex_intro _ e (ex_intro _ enc (conj A (conj B (fun H => match H with or_introl H1 => C H1 | or_intror H2 => match Bool.diff_false_true H2 with end end))))
                  end));
      destruct fv; try discriminate Hwf; simpl in Hwf.
    - (* KStr *)
      eexists _, _. split; [reflexivity|]. split.
      + destruct s; [reflexivity | discriminate].
      + intros _. eapply parses_back_str; [reflexivity | left; reflexivity | exact Hwf | reflexivity].
    - (* KBytes *)
      eexists _, _. split; [reflexivity|]. split.
      + destruct o; [discriminate | reflexivity].
      + intros [H|H]; [|discriminate]. destruct o as [s|]; [|discriminate].
        eapply parses_back_str; [reflexivity | right; reflexivity | exact Hwf | reflexivity].
    - (* KInt *)
      eexists _, _. split; [reflexivity|]. split.
      + intros H. apply Z.eqb_eq in H. subst. reflexivity.
      + intros _. eapply parses_back_int; [reflexivity | exact Hwf | reflexivity].
    - (* KBool *)
      eexists _, _. split; [reflexivity|]. split.
      + destruct b; [discriminate | reflexivity].
      + intros _. exists GBool, (VBool b). split; [reflexivity|]. split; [apply starts_ok_int|]. split; [|reflexivity].
        intros fuel rest Hf. destruct fuel as [|f]; [destruct b; simpl in Hf; lia|].
        rewrite pt_bool. eauto.
    - (* KPtrInt *)
      eexists _, _. split; [reflexivity|]. split.
      + destruct o; [discriminate | reflexivity].
      + intros [H|H]; [|discriminate]. destruct o as [z|]; [|discriminate].
        eapply parses_back_int; [reflexivity | exact Hwf | reflexivity].
    - (* KPtrStr *)
      eexists _, _. split; [reflexivity|]. split.
      + destruct o; [discriminate | reflexivity].
      + intros [H|H]; [|discriminate]. destruct o as [s|]; [|discriminate].
        eapply parses_back_str; [reflexivity | left; reflexivity | exact Hwf | reflexivity].
    - (* KId *)
      apply Nat.eqb_eq in Hwf.
      eexists _, _. split; [reflexivity|]. split.
      + intros H. apply all_zero_eq in H. rewrite Hwf in H. subst s. reflexivity.
      + intros _. rewrite id_prefix_benc by exact Hwf.
        apply parses_back_unm; [reflexivity | apply one_raw_benc_str; apply len20_str_ok; exact Hwf|].
        simpl. rewrite <- id_prefix_benc by exact Hwf. rewrite id_unmarshal_benc by exact Hwf. reflexivity.
    - (* KArr *)
      apply andb_prop in Hwf. destruct Hwf as [Hn Hs]. apply Nat.eqb_eq in Hn.
      eexists _, _. split; [reflexivity|]. split.
      + intros H. apply all_zero_eq in H. rewrite Hn in H. subst s. reflexivity.
      + intros _. eapply parses_back_arr; [reflexivity | exact Hn | exact Hs | reflexivity].
    - (* KPtrArr *)
      eexists _, _. split; [reflexivity|]. split.
      + destruct o; [discriminate | reflexivity].
      + intros [H|H]; [|discriminate]. destruct o as [s|]; [|discriminate].
        apply andb_prop in Hwf. destruct Hwf as [Hn Hs]. apply Nat.eqb_eq in Hn.
        eapply parses_back_arr; [reflexivity | exact Hn | exact Hs | reflexivity].
    - (* KNodeAddr *)
      eexists _, _. split; [reflexivity|]. destruct nn.
      + split; [discriminate|]. intros _.
        assert (Hs : str_ok (nodeaddr_marshal a) = true) by (unfold addr_okb in Hwf; apply andb_prop in Hwf; tauto).
        apply parses_back_unm; [reflexivity | apply one_raw_benc_str; exact Hs|].
        simpl. rewrite nodeaddr_unmarshal_benc_rt by exact Hwf. reflexivity.
      + apply andb_prop in Hwf. destruct Hwf as [Hi Hp]. apply Z.eqb_eq in Hp.
        destruct a as [ip p]. simpl in *. destruct ip; [|discriminate]. subst p.
        split; [reflexivity|]. intros [H|H]; discriminate.
    - (* KAddrList *)
      eexists _, _. split; [reflexivity|]. split.
      + destruct o; [discriminate | reflexivity].
      + intros [H|H]; [|discriminate]. destruct o as [l|]; [|discriminate].
        set (raws := map (fun a => benc_str (nodeaddr_marshal a)) l).
        exists (GSlice GUnm), (VList (map VRaw raws)). split; [reflexivity|].
        split; [eexists _, _; split; reflexivity|]. split.
        * intros fuel rest Hf. unfold benc_list in *. cbn [length app] in *. rewrite app_length in Hf. cbn [length] in Hf.
          destruct fuel as [|f]; [lia|]. rewrite pt_S. cbn [app].
          change (byte_eqb ch_l ch_e) with false. change (byte_eqb ch_l ch_d) with false.
          change (byte_eqb ch_l ch_l) with true. cbv iota.
          rewrite <- app_assoc. cbn [app].
          rewrite pe_raws; [eauto| |fold raws; lia].
          subst raws. rewrite Forall_forall. intros x Hx. apply in_map_iff in Hx. destruct Hx as (a & <- & Ha).
          apply one_raw_benc_str. rewrite forallb_forall in Hwf. specialize (Hwf a Ha).
          unfold addr_okb in Hwf. apply andb_prop in Hwf. tauto.
        * simpl. subst raws. rewrite conv_addr_list_map by exact Hwf. reflexivity.
    - (* KWants *)
      eexists _, _. split; [reflexivity|]. split.
      + destruct o; [discriminate | reflexivity].
      + intros [H|H]; [|discriminate]. destruct o as [l|]; [|discriminate].
        exists (GSlice GStr), (VList (map VStr l)). split; [reflexivity|].
        split; [eexists _, _; split; reflexivity|]. split.
        * intros fuel rest Hf. unfold benc_list in *. cbn [length app] in *. rewrite app_length in Hf. cbn [length] in Hf.
          destruct fuel as [|f]; [lia|]. rewrite pt_S. cbn [app].
          change (byte_eqb ch_l ch_e) with false. change (byte_eqb ch_l ch_d) with false.
          change (byte_eqb ch_l ch_l) with true. cbv iota.
          rewrite <- app_assoc. cbn [app].
          destruct (pe_strs l f rest false Hwf ltac:(lia)) as (d' & P). rewrite P. eauto.
        * simpl. rewrite conv_str_list_map. reflexivity.
    - (* KPtrErr *)
      eexists _, _. split; [reflexivity|]. split.
      + destruct o; [discriminate | reflexivity].
      + intros [H|H]; [|discriminate]. destruct o as [[c m]|]; [|discriminate]. simpl in Hwf.
        apply andb_prop in Hwf. destruct Hwf as [Hc Hm]. simpl e_code. simpl e_msg. fold (benc_err c m).
        apply parses_back_unm; [reflexivity | apply one_raw_benc_err; exact Hm|].
        simpl. rewrite error_unmarshal_benc by assumption. reflexivity.
    - (* KRaw *)
      destruct o as [raw|].
      + apply one_raw_valueb_true in Hwf. destruct (one_raw_head raw Hwf) as (c & r & E & _).
        exists false, raw. split; [rewrite E; reflexivity|]. split; [discriminate|]. intros _.
        apply parses_back_unm; [reflexivity | exact Hwf | reflexivity].
      + exists true, []. split; [reflexivity|]. split; [reflexivity|]. intros [H|H]; discriminate.
    - (* KAny *)
      eexists _, _. split; [reflexivity|]. split.
      + destruct o; [discriminate | reflexivity].
      + intros [H|H]; [|discriminate]. destruct o as [v|]; [|discriminate].
        exists GAny, (VAny v). split; [reflexivity|].
        split. { destruct v; simpl; try (eexists _, _; split; reflexivity). apply starts_ok_str. }
        split; [|reflexivity].
        intros fuel rest Hf. pose proof (benc_length_pos v). destruct fuel as [|f]; [lia|].
        rewrite pt_any by exact Hwf. eauto.
  Qed.
End KindRT.

(* ================================================================================================
   Round trip of one struct, generically in the record type: the schema fields in key order
   ================================================================================================ *)
Lemma In_insert_field f g l : In f (insert_field g l) <-> f = g \/ In f l.
Proof.
  induction l as [|h l IH]; simpl; [intuition|].
  destruct (field_le g h); simpl; [intuition|]. rewrite IH. intuition.
Qed.

Lemma In_sort_fields f l : In f (sort_fields l) <-> In f l.
Proof.
  induction l as [|h l IH]; simpl; [reflexivity|].
  rewrite In_insert_field, IH. intuition.
Qed.

Section StructRT.
  Context {R : Type}.
  Variable s : sid.
  Variable get : bytes -> R -> option fval.
  Variable set : bytes -> fval -> R -> option R.
  Variable sub : kind -> fval -> cresult (bool * bytes).
  Variable conv : kind -> gval -> cresult fval.
  Variable init x : R.
  Variable Inv : R -> Prop.

  Definition pback (k : kind) (enc : bytes) (fv : fval) : Prop :=
    exists t gv, ty_of_kind k = Some t /\ starts_ok enc /\
      (forall fuel rest, (length enc <= fuel)%nat ->
         exists d', parse_ty fuel t false (enc ++ rest) = Some (gv, rest, d')) /\
      conv k gv = COk fv.

  Variable F : list field.
  Hypothesis F_lookup : forall fd, In fd F -> lookup_field s (f_key fd) = Some fd.
  Hypothesis F_keys_ok : forall fd, In fd F -> str_ok (f_key fd) = true.
  Hypothesis F_nodup : NoDup (map f_name F).
  Hypothesis field_rt : forall fd, In fd F ->
    exists fv e enc, get (f_name fd) x = Some fv /\ sub (f_kind fd) fv = COk (e, enc) /\
      (f_omit fd && e = true -> get (f_name fd) init = Some fv) /\
      (f_omit fd && e = false -> pback (f_kind fd) enc fv).
  Hypothesis set_law : forall fd fv, In fd F -> get (f_name fd) x = Some fv ->
    forall acc, Inv acc ->
    exists acc', set (f_name fd) fv acc = Some acc' /\ Inv acc' /\ get (f_name fd) acc' = Some fv /\
      (forall fd', In fd' F -> f_name fd' <> f_name fd -> get (f_name fd') acc' = get (f_name fd') acc).
  Hypothesis ext : forall acc, Inv acc -> (forall fd, In fd F -> get (f_name fd) acc = get (f_name fd) x) -> acc = x.

  Lemma nodup_split_names done fd fds :
    NoDup (map f_name (done ++ fd :: fds)) ->
    (forall fd', In fd' done -> f_name fd' <> f_name fd) /\ (forall fd', In fd' fds -> f_name fd' <> f_name fd).
  Proof.
    rewrite map_app. cbn [map]. intros H. apply NoDup_remove_2 in H.
    split; intros fd' Hin E; apply H; apply in_or_app; [left | right]; rewrite <- E; apply in_map; exact Hin.
  Qed.

  Lemma fields_rt_gen : forall fds done, F = done ++ fds ->
    exists body asg,
      emit_struct get sub fds x = COk body /\
      (forall fuel rest dirty, (length body + 1 <= fuel)%nat ->
         exists d', parse_fields fuel s dirty (body ++ ch_e :: rest) = Some (asg, rest, d')) /\
      (forall acc, Inv acc ->
         (forall fd, In fd done -> get (f_name fd) acc = get (f_name fd) x) ->
         (forall fd, In fd fds -> get (f_name fd) acc = get (f_name fd) init) ->
         conv_fields s conv set asg acc = COk x).
  Proof.
    induction fds as [|fd fds IH]; intros done HF.
    - exists [], []. split; [reflexivity|]. split.
      + intros fuel rest dirty Hf. destruct fuel as [|f]; [simpl in Hf; lia|].
        rewrite pf_S. cbn [app]. rewrite byte_eqb_refl. eauto.
      + intros acc Hi Hd _. simpl. f_equal. apply ext; [exact Hi|].
        intros fd Hin. apply Hd. rewrite HF, app_nil_r in Hin. exact Hin.
    - assert (Hin : In fd F) by (rewrite HF; apply in_or_app; right; left; reflexivity).
      destruct (field_rt fd Hin) as (fv & e & enc & Hg & Hs & Hz & Hp).
      destruct (IH (done ++ [fd]) ltac:(rewrite <- app_assoc; exact HF)) as (body' & asg' & He' & Hparse' & Hconv').
      destruct (nodup_split_names done fd fds ltac:(rewrite <- HF; exact F_nodup)) as (Nd & Nf).
      cbn [emit_struct]. rewrite Hg. unfold emit_field. rewrite Hs. cbn [obind].
      destruct (f_omit fd && e) eqn:Eo.
      + (* omitted: the field keeps its zero value, which is the value of x *)
        exists body', asg'. cbn [obind]. rewrite He'. cbn [obind app]. split; [reflexivity|].
        split; [exact Hparse'|].
        intros acc Hi Hd Hfs. apply Hconv'; [exact Hi| |].
        * intros fd' Hin'. apply in_app_or in Hin'. destruct Hin' as [Hin'|[<-|[]]]; [apply Hd; exact Hin'|].
          rewrite (Hfs fd (or_introl eq_refl)), (Hz eq_refl), Hg. reflexivity.
        * intros fd' Hin'. apply Hfs. right. exact Hin'.
      + (* emitted: key, then value *)
        destruct (Hp eq_refl) as (t & gv & Ht & Hst & Hpt & Hcv).
        exists ((benc_str (f_key fd) ++ enc) ++ body'), ((f_key fd, gv) :: asg').
        cbn [obind]. rewrite He'. cbn [obind]. split; [reflexivity|]. split.
        * intros fuel rest dirty Hf. rewrite !app_length in Hf.
          pose proof (benc_str_length_pos (f_key fd)) as Lk. pose proof (starts_ok_length enc Hst) as Le.
          destruct fuel as [|f]; [lia|]. rewrite pf_S.
          rewrite <- !app_assoc.
          destruct (starts_ok_str (f_key fd)) as (c & r & E & Ee).
          destruct f as [|f]; [lia|].
          pose proof (pt_str f GStr (f_key fd) (enc ++ body' ++ ch_e :: rest) dirty (F_keys_ok fd Hin) (or_introl eq_refl)) as P.
          rewrite E in *. cbn [app] in *. rewrite Ee, P. cbn [key_of].
          rewrite (F_lookup fd Hin), Ht.
          destruct (Hpt (S f) (body' ++ ch_e :: rest) ltac:(lia)) as (d1 & P1). rewrite P1.
          destruct (Hparse' (S f) rest d1 ltac:(lia)) as (d2 & P2). rewrite P2. eauto.
        * intros acc Hi Hd Hfs. cbn [conv_fields]. rewrite (F_lookup fd Hin), Hcv. cbn [obind].
          destruct (set_law fd fv Hin Hg acc Hi) as (acc' & Hset & Hi' & Hget & Hoth).
          rewrite Hset. cbn [of_opt obind]. apply Hconv'; [exact Hi'| |].
          -- intros fd' Hin'. apply in_app_or in Hin'. destruct Hin' as [Hin'|[<-|[]]].
             ++ rewrite Hoth; [apply Hd; exact Hin' | rewrite HF; apply in_or_app; left; exact Hin' | apply Nd; exact Hin'].
             ++ rewrite Hget, Hg. reflexivity.
          -- intros fd' Hin'. rewrite Hoth; [apply Hfs; right; exact Hin' | rewrite HF; apply in_or_app; right; right; exact Hin' | apply Nf; exact Hin'].
  Qed.

  Hypothesis Inv_init : Inv init.

  (* the whole dictionary *)
  Theorem struct_rt :
    exists body asg,
      emit_struct get sub F x = COk body /\
      (forall fuel rest dirty, (length (benc_dict_body body) <= fuel)%nat ->
         exists d', parse_ty fuel (GStruct s) dirty (benc_dict_body body ++ rest) = Some (VStruct asg, rest, d')) /\
      conv_fields s conv set asg init = COk x.
  Proof.
    destruct (fields_rt_gen F [] eq_refl) as (body & asg & He & Hp & Hc).
    exists body, asg. split; [exact He|]. split.
    - intros fuel rest dirty Hf. unfold benc_dict_body in *. cbn [length app] in *. rewrite app_length in Hf. cbn [length] in Hf.
      destruct fuel as [|f]; [lia|]. rewrite pt_S.
      change (byte_eqb ch_d ch_e) with false. change (byte_eqb ch_d ch_d) with true. cbv iota.
      rewrite <- app_assoc. cbn [app].
      destruct (Hp f rest dirty ltac:(lia)) as (d' & P). rewrite P. eauto.
    - apply Hc; [exact Inv_init | intros fd [] | intros fd _; reflexivity].
  Qed.
End StructRT.

(* ================================================================================================
   The three structs of the generated schema: computed facts about their field tables
   ================================================================================================ *)
Definition argsF := Eval vm_compute in enc_fields_of SArgs.
Definition retF := Eval vm_compute in enc_fields_of SRet.
Definition msgF := Eval vm_compute in enc_fields_of SMsg.
Lemma argsF_eq : enc_fields_of SArgs = argsF. Proof. vm_compute. reflexivity. Qed.
Lemma retF_eq : enc_fields_of SRet = retF. Proof. vm_compute. reflexivity. Qed.
Lemma msgF_eq : enc_fields_of SMsg = msgF. Proof. vm_compute. reflexivity. Qed.

(* go through the members of a literal list *)
Ltac each_in H tac :=
  cbn [In] in H;
  repeat (destruct H as [H | H]; [subst; tac |]);
  try (destruct H).

Lemma nodup_by_compute (l : list bytes) :
  (fix nd (l : list bytes) : bool :=
     match l with [] => true | x :: l' => negb (existsb (bytes_eqb x) l') && nd l' end) l = true -> NoDup l.
Proof.
  induction l as [|x l IH]; intros H; [constructor|].
  apply andb_prop in H. destruct H as [H1 H2]. constructor; [|apply IH; exact H2].
  intros Hin. apply Bool.negb_true_iff in H1.
  assert (existsb (bytes_eqb x) l = true); [|congruence].
  apply existsb_exists. exists x. split; [exact Hin | apply bytes_eqb_refl].
Qed.

Lemma argsF_nodup : NoDup (map f_name argsF). Proof. apply nodup_by_compute. vm_compute. reflexivity. Qed.
Lemma retF_nodup : NoDup (map f_name retF). Proof. apply nodup_by_compute. vm_compute. reflexivity. Qed.
Lemma msgF_nodup : NoDup (map f_name msgF). Proof. apply nodup_by_compute. vm_compute. reflexivity. Qed.

Lemma argsF_lookup fd : In fd argsF -> lookup_field SArgs (f_key fd) = Some fd.
Proof. intros H. unfold argsF in H. each_in H ltac:(vm_compute; reflexivity). Qed.
Lemma retF_lookup fd : In fd retF -> lookup_field SRet (f_key fd) = Some fd.
Proof. intros H. unfold retF in H. each_in H ltac:(vm_compute; reflexivity). Qed.
Lemma msgF_lookup fd : In fd msgF -> lookup_field SMsg (f_key fd) = Some fd.
Proof. intros H. unfold msgF in H. each_in H ltac:(vm_compute; reflexivity). Qed.

Lemma argsF_keys fd : In fd argsF -> str_ok (f_key fd) = true.
Proof. intros H. unfold argsF in H. each_in H ltac:(vm_compute; reflexivity). Qed.
Lemma retF_keys fd : In fd retF -> str_ok (f_key fd) = true.
Proof. intros H. unfold retF in H. each_in H ltac:(vm_compute; reflexivity). Qed.
Lemma msgF_keys fd : In fd msgF -> str_ok (f_key fd) = true.
Proof. intros H. unfold msgF in H. each_in H ltac:(vm_compute; reflexivity). Qed.

(* fields always written (no omitempty) have a kind whose zero value reads back as itself *)
Lemma argsF_total fd : In fd argsF -> f_omit fd = false -> total_kind (f_kind fd) = true.
Proof. intros H. unfold argsF in H. each_in H ltac:(vm_compute; intros; congruence). Qed.
Lemma retF_total fd : In fd retF -> f_omit fd = false -> total_kind (f_kind fd) = true.
Proof. intros H. unfold retF in H. each_in H ltac:(vm_compute; intros; congruence). Qed.
Lemma msgF_total fd : In fd msgF -> f_omit fd = false -> total_kind (f_kind fd) = true.
Proof. intros H. unfold msgF in H. each_in H ltac:(vm_compute; intros; congruence). Qed.

(* the zero struct holds the zero value of every field *)
Lemma argsF_zero fd : In fd argsF -> get_args (f_name fd) empty_xargs = Some (zero_fval (f_kind fd)).
Proof. intros H. unfold argsF in H. each_in H ltac:(vm_compute; reflexivity). Qed.
Lemma retF_zero fd : In fd retF -> get_ret (f_name fd) empty_xret = Some (zero_fval (f_kind fd)).
Proof. intros H. unfold retF in H. each_in H ltac:(vm_compute; reflexivity). Qed.
Lemma msgF_zero fd : In fd msgF -> get_msg (f_name fd) empty_xmsg = Some (zero_fval (f_kind fd)).
Proof. intros H. unfold msgF in H. each_in H ltac:(vm_compute; reflexivity). Qed.

(* sub-struct kinds occur only in Msg *)
Lemma argsF_flat fd : In fd argsF -> match f_kind fd with KPtrStruct _ => False | _ => True end.
Proof. intros H. unfold argsF in H. each_in H ltac:(exact I). Qed.
Lemma retF_flat fd : In fd retF -> match f_kind fd with KPtrStruct _ => False | _ => True end.
Proof. intros H. unfold retF in H. each_in H ltac:(exact I). Qed.

