(* TraversalC02.v — C02 soundness of the closest set, at every reachable state, for every
   schedule, response function, K, Alpha, filters and every tie-break that is a strict total
   order (the seeded maphash of the K-nearest container). *)
From Dht Require Import Base Int160 Order OrderProofs Traversal TraversalInv.
From Coq Require Import Sorting.Sorted ZifyN ZifyNat ZifyBool.
Local Arguments ap_mem : simpl never.
Local Arguments Nat.ltb : simpl never.
Local Arguments kn_run : simpl never.
Local Arguments kn_push : simpl never.
Local Arguments have_query_on : simpl never.

Section KNKeys.
  Variable D : Type.
  Variable tb : addrport -> addrport -> comparison.
  Hypothesis tb_refl : forall a, tb a a = Eq.
  Hypothesis tb_eq : forall a b, tb a b = Eq -> a = b.
  Hypothesis tb_antisym : forall a b, tb b a = CompOpp (tb a b).
  Hypothesis tb_trans : forall a b c, tb a b = Lt -> tb b c = Lt -> tb a c = Lt.
  Variable target : N.
  Variable k : nat.
  Notation kelem := (kelem D).
  Notation kall := (kn_all D tb target).
  Notation krun := (kn_run D tb target k).
  Notation same_key := (same_key D).

  Lemma kn_all_incl (p : list kelem) e : In e (kall p) -> In e p.
  Proof.
    intros H. apply (kn_all_in D tb tb_refl tb_eq tb_antisym tb_trans) in H.
    destruct H as [l1 [l2 [-> _]]]. apply in_or_app. right. left. reflexivity.
  Qed.

  Lemma kn_run_incl_all (p : list kelem) e : In e (krun p) -> In e (kall p).
  Proof.
    rewrite (kn_run_spec D tb tb_refl tb_eq tb_antisym tb_trans). apply In_firstn.
  Qed.

  Lemma kn_run_incl (p : list kelem) e : In e (krun p) -> In e p.
  Proof. intros H. apply kn_all_incl. apply kn_run_incl_all. exact H. Qed.

  (* every pushed key is represented in the untrimmed container (by its last push) *)
  Lemma kn_all_has_key (p : list kelem) e :
    In e p -> exists y, In y (kall p) /\ same_key y e.
  Proof.
    induction p as [|x p IH] using rev_ind; [intros []|].
    intros He. rewrite (kn_all_snoc D tb).
    assert (Hs := kn_all_sorted D tb tb_refl tb_eq tb_antisym tb_trans target p).
    destruct (N.eq_dec (k_id e) (k_id x)) as [Ei|Ei].
    - destruct (ap_eq_dec (k_addr e) (k_addr x)) as [Ea|Ea].
      + exists x. split.
        * apply (kn_insert_in D tb tb_refl tb_eq tb_antisym tb_trans target x _ x Hs). left. reflexivity.
        * split; symmetry; assumption.
      + apply in_app_or in He. destruct He as [He|[He|[]]]; [|subst x; contradiction].
        destruct (IH He) as [y [Hy Hk]]. exists y. split; [|exact Hk].
        apply (kn_insert_in D tb tb_refl tb_eq tb_antisym tb_trans target x _ y Hs). right.
        split; [exact Hy|]. intros [_ Hk2]. destruct Hk as [_ Hk1]. congruence.
    - apply in_app_or in He. destruct He as [He|[He|[]]]; [|subst x; contradiction].
      destruct (IH He) as [y [Hy Hk]]. exists y. split; [|exact Hk].
      apply (kn_insert_in D tb tb_refl tb_eq tb_antisym tb_trans target x _ y Hs). right.
      split; [exact Hy|]. intros [Hk2 _]. destruct Hk as [Hk1 _]. congruence.
  Qed.

  (* keys are unique in a sorted container *)
  Lemma kn_sorted_keys_unique (l : list kelem) a b :
    kn_sorted D tb target l -> In a l -> In b l -> same_key a b -> a = b.
  Proof.
    induction l as [|x l IH]; intros Hs Ha Hb Hk; [destruct Ha|].
    destruct (srt_inv _ (@k_cmp D tb target) _ _ Hs) as [Hl Hx].
    assert (Hne : forall z, In z l -> same_key x z -> False).
    { intros z Hz Hkz. apply (kcmp_eq_same_key D tb tb_refl tb_eq target) in Hkz.
      rewrite (Hx z Hz) in Hkz. discriminate. }
    destruct Ha as [->|Ha], Hb as [->|Hb].
    - reflexivity.
    - exfalso. exact (Hne b Hb Hk).
    - exfalso. apply (Hne a Ha). destruct Hk as [H1 H2]. split; symmetry; assumption.
    - exact (IH Hl Ha Hb Hk).
  Qed.
End KNKeys.

Section C02.
  Variable D : Type.
  Variable node_filter : ami -> bool.
  Variable data_filter : D -> bool.
  Variable tb : addrport -> addrport -> comparison.
  Hypothesis tb_refl : forall a, tb a a = Eq.
  Hypothesis tb_eq : forall a b, tb a b = Eq -> a = b.
  Hypothesis tb_antisym : forall a b, tb b a = CompOpp (tb a b).
  Hypothesis tb_trans : forall a b c, tb a b = Lt -> tb b c = Lt -> tb a c = Lt.
  Variable target : N.
  Variable k : nat.
  Variable alpha : nat.

  Notation state := (state D).
  Notation run := (run D node_filter data_filter tb true target k alpha).
  Notation inv_run := (inv_run D node_filter data_filter tb tb_refl tb_eq tb_antisym tb_trans target k alpha).

  (* a responder, as recorded when its LResp section ran *)
  Definition responder_passing (s : state) (x : ninfo * D) : Prop :=
    In x (st_responded s) /\ node_filter (ni_ami (fst x)) = true /\ data_filter (snd x) = true.
  (* a closest-set entry for the contact (id, address) of x *)
  Definition present (s : state) (n : ninfo) : Prop :=
    exists m, In m (st_closest s) /\ k_id m = fst n /\ k_addr m = snd n.

  Theorem C02_sound sched :
    let s := run sched in
    (* at most K contacts *)
    length (st_closest s) <= k /\
    (* every member answered a query of this lookup and passed both filters *)
    (forall e, In e (st_closest s) ->
       exists n d, e = kel_of D n d /\ responder_passing s (n, d)) /\
    (* no responder that passed the filters but is absent is strictly closer than a member *)
    (forall x, responder_passing s x -> ~ present s (fst x) ->
       forall m, In m (st_closest s) ->
         (dist (k_id m) target <= dist (fst (fst x)) target)%N) /\
    (* the set is kept in distance order *)
    StronglySorted (fun a b => (dist (k_id a) target <= dist (k_id b) target)%N) (st_closest s).
  Proof.
    intros s. pose proof (inv_run sched) as H. fold s in H.
    pose proof (inv_closest _ _ _ _ _ _ _ _ H) as Hc.
    split; [|split; [|split]].
    - rewrite Hc. apply (kn_run_le D tb tb_refl tb_eq tb_antisym tb_trans).
    - intros e He. rewrite Hc in He.
      apply (kn_run_incl D tb tb_refl tb_eq tb_antisym tb_trans) in He.
      destruct (inv_pushed _ _ _ _ _ _ _ _ H e He) as [n [d [H1 [H2 [H3 H4]]]]].
      exists n, d. split; [exact H1|]. split; [exact H2|]. split; assumption.
    - intros x [Hx [Hf Hd]] Habs m Hm.
      pose proof (inv_pushed_all _ _ _ _ _ _ _ _ H x Hx Hf Hd) as Hp.
      destruct (kn_all_has_key D tb tb_refl tb_eq tb_antisym tb_trans target _ _ Hp) as [y [Hy [Hk1 Hk2]]].
      cbn in Hk1, Hk2. rewrite <- Hk1.
      rewrite Hc in Hm.
      apply (kn_run_nearest D tb tb_refl tb_eq tb_antisym tb_trans target k (st_pushed s) m y Hm Hy).
      intros Hyin. apply Habs. exists y. rewrite Hc. split; [exact Hyin|]. split; assumption.
    - rewrite Hc. apply (kn_run_sorted_by_distance D tb tb_refl tb_eq tb_antisym tb_trans).
  Qed.
End C02.

(* ---- "answered a query of this lookup": every recorded responder is the ResponseFrom of a
        DoQuery return that occurs in the schedule ---- *)
Section Link.
  Variable D : Type.
  Variable node_filter : ami -> bool.
  Variable data_filter : D -> bool.
  Variable tb : addrport -> addrport -> comparison.
  Variable target : N.
  Variable k : nat.
  Variable alpha : nat.

  Notation state := (state D).
  Notation label := (label D).
  Notation do_prune := (do_prune D true).
  Notation start_query := (start_query D).
  Notation start_loop := (start_loop D true target k alpha).
  Notation enabled := (enabled D).
  Notation step := (step D node_filter data_filter tb true target k alpha).
  Notation step_en := (step_en D node_filter data_filter tb true target k alpha).
  Notation run := (run D node_filter data_filter tb true target k alpha).

  Definition RInv (sched : list label) (s : state) : Prop :=
    (forall x, In x (st_responded s) ->
       exists i r, In (LDoQueryReturn i r) sched /\ r_from r = Some x) /\
    (forall q, In q (st_inflight s) -> q_pc q <> QWait ->
       In (LDoQueryReturn (q_id q) (q_resp q)) sched).

  Lemma start_loop_link fuel : forall (s : state),
    st_responded (start_loop fuel s) = st_responded s /\
    forall q', In q' (st_inflight (start_loop fuel s)) -> In q' (st_inflight s) \/ q_pc q' = QWait.
  Proof.
    induction fuel as [|f IH]; intros s; [split; [reflexivity|intros q' H; left; exact H]|].
    rewrite (start_loop_S D target k alpha).
    destruct (Nat.ltb (st_out s) alpha); [|split; [reflexivity|intros q' H; left; exact H]].
    destruct (have_query_on D target k (st_unq (do_prune s)) (st_closest (do_prune s)));
      [|split; [reflexivity|intros q' H; left; exact H]].
    destruct (IH (start_query (do_prune s))) as [I1 I2]. split.
    - rewrite I1. unfold Traversal.start_query. destruct (st_unq (do_prune s)); reflexivity.
    - intros q' Hq'. apply I2 in Hq'. destruct Hq' as [Hq'|Hq']; [|right; exact Hq'].
      revert Hq'. unfold Traversal.start_query. destruct (st_unq (do_prune s)) as [|c u]; cbn.
      + intros H; left; exact H.
      + intros H. apply in_app_or in H. destruct H as [H|[H|[]]]; [left; exact H|].
        subst q'. right. reflexivity.
  Qed.

  Lemma rinv_step sched (s : state) l :
    TInv D node_filter data_filter tb target k alpha s ->
    RInv sched s -> RInv (sched ++ [l]) (step_en s l).
  Proof.
    intros HT [R1 R2].
    assert (W1 : forall x, In x (st_responded s) ->
              exists i r, In (LDoQueryReturn i r) (sched ++ [l]) /\ r_from r = Some x).
    { intros x Hx. destruct (R1 x Hx) as [i [r [H1 H2]]]. exists i, r.
      split; [apply in_or_app; left; exact H1|exact H2]. }
    assert (W2 : forall q, In q (st_inflight s) -> q_pc q <> QWait ->
              In (LDoQueryReturn (q_id q) (q_resp q)) (sched ++ [l])).
    { intros q Hq Hpc. apply in_or_app. left. exact (R2 q Hq Hpc). }
    unfold Traversal.step_en. destruct (enabled s l) eqn:En; [|split; assumption].
    assert (Wupd : forall i f (s1 : state) q0,
               st_inflight s1 = st_inflight s -> find_q i (st_inflight s) = Some q0 ->
               (forall q, q_id (f q) = q_id q) -> (forall q, q_resp (f q) = q_resp q) ->
               (q_pc (f q0) <> QWait -> q_pc q0 <> QWait) ->
               forall q', In q' (upd_q D i f (st_inflight s1)) -> q_pc q' <> QWait ->
               In (LDoQueryReturn (q_id q') (q_resp q')) (sched ++ [l])).
    { intros i f s1 q0 E Hf Hid Hr Hp q' Hq' Hpc. rewrite E in Hq'.
      apply In_upd_q in Hq'. destruct Hq' as [q [Hq [->|[Hi ->]]]].
      - exact (W2 q Hq Hpc).
      - rewrite (inflight_unique D node_filter data_filter tb target k alpha s i q0 q HT Hf Hq Hi) in *.
        rewrite Hid, Hr. apply (W2 q0).
        + exact (proj1 (find_q_In D i _ q0 Hf)).
        + exact (Hp Hpc). }
    destruct l as [| | |i r|i|i|i|i|ns| | |i]; cbn [Traversal.step Traversal.enabled] in *.
    - unfold Traversal.run_step. destruct (st_stopping s); [split; assumption|].
      unfold Traversal.run_body.
      destruct (start_loop_link alpha s) as [L1 L2]. split; cbn.
      + rewrite L1. exact W1.
      + intros q Hq Hpc. destruct (L2 q Hq) as [Ho|Hw]; [exact (W2 q Ho Hpc)|contradiction].
    - split; assumption.
    - split; assumption.
    - split; [exact W1|]. cbn. intros q' Hq' Hpc.
      apply In_upd_q in Hq'. destruct Hq' as [q [Hq [->|[Hi ->]]]].
      + exact (W2 q Hq Hpc).
      + cbn. rewrite Hi. apply in_or_app. right. left. reflexivity.
    - destruct (q_at_find D s i QResp En) as [q [Hf Hpc]].
      destruct (find_q_In D i _ q Hf) as [Hqin Hqid].
      unfold resp_of. rewrite Hf.
      destruct (r_from (q_resp q)) as [x|] eqn:Ex.
      + destruct (add_closest_frame D node_filter data_filter tb target k s x)
          as [F1 [_ [_ [_ [_ [_ [_ [_ [_ [_ F11]]]]]]]]]].
        split; cbn.
        * rewrite F11. intros y Hy. apply in_app_or in Hy.
          destruct Hy as [Hy|[Hy|[]]]; [exact (W1 y Hy)|].
          subst y. exists (q_id q), (q_resp q). split; [|exact Ex].
          apply W2; [exact Hqin|congruence].
        * apply (Wupd i (q_set_pc D QAddN) _ q F1 Hf); try reflexivity. intros _. congruence.
      + split; [exact W1|]. cbn.
        apply (Wupd i (q_set_pc D QAddN) s q eq_refl Hf); try reflexivity. intros _. congruence.
    - destruct (q_at_find D s i QAddN En) as [q [Hf Hpc]]. split; cbn.
      + rewrite (proj1 (proj2 (proj2 (proj2 (proj2 (proj2 (proj2 (add_nodes_frame D node_filter target _ s)))))))).
        exact W1.
      + apply (Wupd i (q_set_pc D QAddN6) _ q (proj1 (add_nodes_frame D node_filter target _ s)) Hf);
          try reflexivity. intros _. congruence.
    - destruct (q_at_find D s i QAddN6 En) as [q [Hf Hpc]]. split; cbn.
      + rewrite (proj1 (proj2 (proj2 (proj2 (proj2 (proj2 (proj2 (add_nodes_frame D node_filter target _ s)))))))).
        exact W1.
      + apply (Wupd i (q_set_pc D QDone) _ q (proj1 (add_nodes_frame D node_filter target _ s)) Hf);
          try reflexivity. intros _. congruence.
    - split; [exact W1|]. cbn. intros q Hq. apply W2. exact (del_q_incl D i _ q Hq).
    - split.
      + rewrite (proj1 (proj2 (proj2 (proj2 (proj2 (proj2 (proj2 (add_nodes_frame D node_filter target ns s)))))))).
        exact W1.
      + rewrite (proj1 (add_nodes_frame D node_filter target ns s)). exact W2.
    - split; assumption.
    - split; assumption.
    - apply andb_true_iff in En. destruct En as [_ En].
      destruct (find_q i (st_inflight s)) as [q|] eqn:Hf; [|discriminate].
      split; [exact W1|]. cbn.
      apply (Wupd i (q_cancel D) s q eq_refl Hf); try reflexivity. intros Hp. exact Hp.
  Qed.

  Hypothesis tb_refl : forall a, tb a a = Eq.
  Hypothesis tb_eq : forall a b, tb a b = Eq -> a = b.
  Hypothesis tb_antisym : forall a b, tb b a = CompOpp (tb a b).
  Hypothesis tb_trans : forall a b c, tb a b = Lt -> tb b c = Lt -> tb a c = Lt.

  Lemma rinv_run sched : RInv sched (run sched).
  Proof.
    induction sched as [|l sched IH] using rev_ind.
    - split; simpl; intros; tauto.
    - unfold Traversal.run, Traversal.exec. rewrite fold_left_app. simpl.
      apply rinv_step; [|exact IH].
      exact (inv_run D node_filter data_filter tb tb_refl tb_eq tb_antisym tb_trans target k alpha sched).
  Qed.

  (* every recorded responder is the ResponseFrom of a DoQuery return of this lookup *)
  Theorem C02_responder_answered sched x :
    In x (st_responded (run sched)) ->
    exists i r, In (LDoQueryReturn i r) sched /\ r_from r = Some x.
  Proof. exact (proj1 (rinv_run sched) x). Qed.
End Link.

Print Assumptions C02_sound.
Print Assumptions C02_responder_answered.
