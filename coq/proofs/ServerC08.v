(* ServerC08.v — what the server model (model/Server.v) sends, to whom, and at what cost:
   C08 (replies go to the asker, echo t, right KRPC form), C19 (blocklist, passive mode, closed
   server honoured on every path), C20 policy part (every rated datagram takes one token of the
   send budget).  All statements are about ANY state (no invariant is needed: the send path does
   not depend on the routing table), any event, any choice. *)
From Dht Require Import Base Int160 Msg Server ServerDefs Int160Proofs.
From DhtGen Require Import Params.

(* ------------------------------------------------------------------ vocabulary *)
Definition is_send (x : effect) : bool := match x with ESend _ _ _ => true | _ => false end.

(* the datagrams written to the socket by one step *)
Definition sends (out : list effect) : list effect := filter is_send out.

(* is the event's send subject to the limiter?  replies and errors always; a query send unless the
   caller opted out (QueryRateLimiting.NotFirst/NotAny -> rated = false) *)
Definition ev_rated (e : event) : bool :=
  match e with EQueryStart _ _ _ _ rated _ => rated | _ => true end.

Definition is_rated_send (e : event) (x : effect) : bool :=
  match x with
  | ESend _ _ SQuery => ev_rated e
  | ESend _ _ _ => true
  | _ => false
  end.

Definition rated_sends (e : event) (out : list effect) : N :=
  N.of_nat (length (filter (is_rated_send e) out)).

Fixpoint total_rated_sends (evs : list (event * choice)) (outs : list (list effect)) : N :=
  match evs, outs with
  | (e, _) :: r, o :: ro => (rated_sends e o + total_rated_sends r ro)%N
  | _, _ => 0%N
  end.

Definition is_query (m : msg) : Prop := m_y m = s_q.

(* the methods the dispatch knows, in the order it tests them *)
Definition known_methods : list bytes :=
  [s_ping; s_get_peers; s_find_node; s_announce_peer; s_put; s_get].
(* ... those that read the argument dictionary *)
Definition args_methods : list bytes :=
  [s_get_peers; s_find_node; s_announce_peer; s_put; s_get].

Definition unknown_method (m : msg) : Prop := ~ In (m_q m) known_methods.

Lemma sends_app a b : sends (a ++ b) = sends a ++ sends b.
Proof. apply filter_app. Qed.

Lemma in_sends d rm k out : In (ESend d rm k) out <-> In (ESend d rm k) (sends out).
Proof. unfold sends. rewrite filter_In. cbn. tauto. Qed.

Lemma sends_nil_no_send out : sends out = [] -> forall d rm k, ~ In (ESend d rm k) out.
Proof. intros H d rm k Hin. apply in_sends in Hin. rewrite H in Hin. exact Hin. Qed.

Lemma rated_all e out : ev_rated e = true -> filter (is_rated_send e) out = sends out.
Proof.
  intros He. unfold sends. apply filter_ext. intros x.
  destruct x as [d m k| | | | | |]; try reflexivity. cbn. rewrite He. destruct k; reflexivity.
Qed.

Section C08.
  Variable Store : Type.
  Variable w_put : Store -> witem -> Z -> Store * put_result.
  Variable w_get : Store -> bytes -> Z -> Store * get_result.
  Variable sha1 : bytes -> bytes.
  Variable id_secure : N -> bytes -> bool.
  Variable cfg : config.

  Notation sstate := (sstate Store).
  Notation step := (step Store w_put w_get sha1 id_secure cfg).
  Notation dispatch := (dispatch Store w_put w_get sha1 id_secure cfg).
  Notation handle_query := (handle_query Store w_put w_get sha1 id_secure cfg).
  Notation update_node := (update_node Store id_secure cfg).
  Notation add_node := (add_node Store id_secure cfg).
  Notation drop_node := (drop_node Store cfg).
  Notation table_add := (table_add Store cfg).
  Notation write_rated := (write_rated Store).
  Notation reply := (reply Store cfg).
  Notation send_error := (send_error Store).
  Notation run := (run Store w_put w_get sha1 id_secure cfg).
  Notation valid_token := (valid_token sha1 cfg).
  Notation s_now := (s_now Store).
  Notation s_pending := (s_pending Store).
  Notation s_peers := (s_peers Store).
  Notation s_store := (s_store Store).
  Notation s_blocklist := (s_blocklist Store).
  Notation s_closed := (s_closed Store).
  Notation s_next_t := (s_next_t Store).
  Notation s_budget := (s_budget Store).
  Notation with_budget := (with_budget Store).
  Notation HQ := (HQ Store).
  Notation SR := (SR Store).

  (* ---------------------------------------------------------------- the write routine *)
  (* everything but the routing table and its address index *)
  Definition same_but_table (s1 s : sstate) : Prop :=
    s_now s1 = s_now s /\ s_pending s1 = s_pending s /\ s_peers s1 = s_peers s /\
    s_store s1 = s_store s /\ s_blocklist s1 = s_blocklist s /\ s_closed s1 = s_closed s /\
    s_next_t s1 = s_next_t s /\ s_budget s1 = s_budget s.

  (* what the write routine looks at *)
  Definition same_gate (s0 s : sstate) : Prop :=
    s_now s0 = s_now s /\ s_blocklist s0 = s_blocklist s /\ s_closed s0 = s_closed s /\
    s_budget s0 = s_budget s.

  Lemma sbt_refl s : same_but_table s s.
  Proof. repeat split. Qed.

  Lemma sbt_trans a b c : same_but_table a b -> same_but_table b c -> same_but_table a c.
  Proof.
    intros (A1 & A2 & A3 & A4 & A5 & A6 & A7 & A8) (B1 & B2 & B3 & B4 & B5 & B6 & B7 & B8).
    repeat split; congruence.
  Qed.

  Lemma sbt_gate a b : same_but_table a b -> same_gate a b.
  Proof. intros (A1 & A2 & A3 & A4 & A5 & A6 & A7 & A8). repeat split; assumption. Qed.

  Lemma gate_trans a b c : same_gate a b -> same_gate b c -> same_gate a c.
  Proof. intros (A1 & A2 & A3 & A4) (B1 & B2 & B3 & B4). repeat split; congruence. Qed.

  (* write_rated: at most one datagram, to the given address, the given message; one token *)
  Inductive wr_spec (s : sstate) (dst : addr) (m : msg) (kind : send_kind) : sstate -> list effect -> Prop :=
  | WR_closed : s_closed s = true -> wr_spec s dst m kind s [EDropped 1]
  | WR_blocked : s_closed s = false -> blocked (s_blocklist s) (ip dst) = true ->
                 wr_spec s dst m kind s [EDropped 2]
  | WR_nobudget : s_closed s = false -> blocked (s_blocklist s) (ip dst) = false ->
                  s_budget s = Some 0%N -> wr_spec s dst m kind s [EDropped 3]
  | WR_free : s_closed s = false -> blocked (s_blocklist s) (ip dst) = false ->
              s_budget s = None -> wr_spec s dst m kind s [ESend dst m kind]
  | WR_paid b : s_closed s = false -> blocked (s_blocklist s) (ip dst) = false ->
                s_budget s = Some b -> (0 < b)%N ->
                wr_spec s dst m kind (with_budget s (Some (N.pred b))) [ESend dst m kind].

  Lemma write_rated_spec s dst m kind s' out :
    write_rated s dst m kind = (s', out) -> wr_spec s dst m kind s' out.
  Proof.
    unfold Server.write_rated. intros H.
    destruct (s_closed s) eqn:Hc.
    { injection H as <- <-. apply WR_closed; assumption. }
    destruct (blocked (s_blocklist s) (ip dst)) eqn:Hb.
    { injection H as <- <-. apply WR_blocked; assumption. }
    destruct (s_budget s) as [b|] eqn:Hbud.
    - destruct b as [|p] eqn:Hbp.
      + injection H as <- <-. apply WR_nobudget; assumption.
      + injection H as <- <-. apply (WR_paid s dst m kind (N.pos p)); try assumption. lia.
    - injection H as <- <-. apply WR_free; assumption.
  Qed.

  (* ---------------------------------------------------------------- the table update leaves the rest alone *)
  Lemma drop_node_sbt s n s1 : drop_node s n = Ok _ s1 -> same_but_table s1 s.
  Proof.
    unfold Server.drop_node. intros H.
    destruct (negb (index_has (Server.s_index Store s) (addr_key (n_addr n)) (n_id n))); [discriminate|].
    destruct (N.eqb (n_id n) (c_root cfg)); [discriminate|].
    match type of H with (if ?c then _ else _) = _ => destruct c end; [discriminate|].
    injection H as <-. repeat split.
  Qed.

  Lemma table_add_sbt s n s1 : table_add s n = Ok _ s1 -> same_but_table s1 s.
  Proof.
    unfold Server.table_add. intros H.
    destruct (N.eqb (n_id n) (c_root cfg)); [discriminate|].
    match type of H with (if ?c then _ else _) = _ => destruct c end; [discriminate|].
    match type of H with (if ?c then _ else _) = _ => destruct c end; [discriminate|].
    injection H as <-. repeat split.
  Qed.

  Lemma add_node_sbt s n v s1 r : add_node s n v = Ok _ (s1, r) -> same_but_table s1 s.
  Proof.
    unfold Server.add_node. intros H.
    destruct (node_bad id_secure cfg n).
    { injection H as <- <-. apply sbt_refl. }
    match type of H with (if ?c then _ else _) = _ => destruct c end.
    - match type of H with (match ?c with _ => _ end) = _ => destruct c as [|c0 cs] end.
      + destruct v; injection H as <- <-; apply sbt_refl.
      + destruct v as [[vk vid]|]; [|injection H as <- <-; apply sbt_refl].
        match type of H with (match ?c with _ => _ end) = _ => destruct c as [vn|] end;
          [|injection H as <- <-; apply sbt_refl].
        destruct (drop_node s vn) as [sa|] eqn:Hd; [|discriminate].
        destruct (table_add sa n) as [sb|] eqn:Ha; [|discriminate].
        injection H as <- <-.
        eapply sbt_trans; [eapply table_add_sbt; eassumption | eapply drop_node_sbt; eassumption].
    - destruct v; [injection H as <- <-; apply sbt_refl|].
      destruct (table_add s n) as [sb|] eqn:Ha; [|discriminate].
      injection H as <- <-. eapply table_add_sbt; eassumption.
  Qed.

  Lemma update_node_sbt s a id ta u v s1 r :
    update_node s a id ta u v = Ok _ (s1, r) -> same_but_table s1 s.
  Proof.
    unfold Server.update_node. intros H.
    destruct id as [i|]; [|injection H as <- _; apply sbt_refl].
    destruct (get_node cfg (Server.s_nodes Store s) a i).
    - destruct v; injection H as <- _; [apply sbt_refl | repeat split].
    - match type of H with (if ?c then _ else _) = _ => destruct c end.
      + injection H as <- _; apply sbt_refl.
      + eapply add_node_sbt; eassumption.
  Qed.

  (* ---------------------------------------------------------------- dispatch *)
  (* the two message forms the handlers build *)
  Inductive answer_form (src : addr) (t : bytes) : msg -> send_kind -> Prop :=
  | AF_reply r : answer_form src t (reply_msg cfg src t r) SReply
  | AF_error e : answer_form src t (error_msg t e) SError.

  (* dispatch either stays silent — only for announce_peer / put with arguments and a token that is
     not valid — or makes exactly one call of the write routine, towards the source, with t echoed;
     whatever precedes it in the output is no datagram *)
  Inductive answer_shape (s : sstate) (src : addr) (m : msg) : sstate -> list effect -> Prop :=
  | AS_silent a :
      m_q m = s_announce_peer \/ m_q m = s_put -> m_a m = Some a ->
      valid_token (a_token a) src (s_now s) = Some false ->
      answer_shape s src m s []
  | AS_write pre s0 rm kind s' w :
      same_gate s0 s -> sends pre = [] -> answer_form src (m_t m) rm kind ->
      wr_spec s0 src rm kind s' w -> answer_shape s src m s' (pre ++ w).

  Lemma gate_refl s : same_gate s s.
  Proof. repeat split. Qed.

  Lemma shape_reply_pre s s0 src m r s2 out0 pre :
    same_gate s0 s -> sends pre = [] -> reply s0 src (m_t m) r = (s2, out0) ->
    answer_shape s src m s2 (pre ++ out0).
  Proof.
    intros Hg Hp H. unfold Server.reply in H. apply write_rated_spec in H.
    eapply AS_write; try eassumption. constructor.
  Qed.

  Lemma shape_reply s s0 src m r s' out :
    same_gate s0 s -> lift Store (reply s0 src (m_t m) r) = HQ s' out -> answer_shape s src m s' out.
  Proof.
    intros Hg H. unfold lift in H. injection H as H1 H2.
    change out with ([] ++ out). eapply shape_reply_pre; [eassumption|reflexivity|].
    rewrite <- H1, <- H2. apply surjective_pairing.
  Qed.

  Lemma shape_error s s0 src m e s' out :
    same_gate s0 s -> lift Store (send_error s0 src (m_t m) e) = HQ s' out -> answer_shape s src m s' out.
  Proof.
    intros Hg H. unfold lift in H. injection H as H1 H2.
    assert (Hw : write_rated s0 src (error_msg (m_t m) e) SError = (s', out)).
    { rewrite <- H1, <- H2. apply surjective_pairing. }
    apply write_rated_spec in Hw.
    change out with ([] ++ out). eapply AS_write; try eassumption; [reflexivity|constructor].
  Qed.

  Lemma gate_with_store s st : same_gate (with_store Store s st) s.
  Proof. repeat split. Qed.
  Lemma gate_with_peers s ps : same_gate (with_peers Store s ps) s.
  Proof. repeat split. Qed.

  (* split every match of the hypothesis, innermost scrutinee last *)
  Ltac split_matches H :=
    repeat match type of H with
           | context [match ?x with _ => _ end] => destruct x eqn:?; try discriminate H
           end.

  Ltac finish_shape H :=
    first [ eapply shape_reply; [|exact H]; first [apply gate_refl | apply gate_with_store | apply gate_with_peers]
          | eapply shape_error; [|exact H]; first [apply gate_refl | apply gate_with_store | apply gate_with_peers] ].

  Lemma dispatch_shape s src m ch s' out :
    dispatch s src m ch = HQ s' out -> answer_shape s src m s' out.
  Proof.
    unfold Server.dispatch. cbv zeta. intros H.
    destruct (bytes_eqb (m_q m) s_ping) eqn:Hping; [finish_shape H|].
    destruct (bytes_eqb (m_q m) s_get_peers) eqn:Hgp.
    { destruct (m_a m) as [a|] eqn:Hma; [|finish_shape H].
      split_matches H; finish_shape H. }
    destruct (bytes_eqb (m_q m) s_find_node) eqn:Hfn.
    { destruct (m_a m) as [a|] eqn:Hma; [|finish_shape H].
      split_matches H; finish_shape H. }
    destruct (bytes_eqb (m_q m) s_announce_peer) eqn:Hap.
    { apply bytes_eqb_eq in Hap.
      destruct (m_a m) as [a|] eqn:Hma; [|finish_shape H].
      destruct (valid_token (a_token a) src (s_now s)) as [[|]|] eqn:Hvt; [| |discriminate].
      - match type of H with context [reply ?s1 ?a ?t ?r] => destruct (reply s1 a t r) as [s2 out0] eqn:Hr end.
        injection H as <- <-. rewrite app_assoc.
        eapply shape_reply_pre; [| |exact Hr].
        + destruct (c_peer_store cfg); [apply gate_with_peers | apply gate_refl].
        + destruct (c_announce_cb cfg), (c_peer_store cfg); reflexivity.
      - injection H as <- <-. eapply AS_silent; [left; exact Hap | exact Hma | exact Hvt]. }
    destruct (bytes_eqb (m_q m) s_put) eqn:Hput.
    { apply bytes_eqb_eq in Hput.
      destruct (m_a m) as [a|] eqn:Hma; [|finish_shape H].
      destruct (valid_token (a_token a) src (s_now s)) as [[|]|] eqn:Hvt; [| |discriminate].
      - split_matches H; finish_shape H.
      - injection H as <- <-. eapply AS_silent; [right; exact Hput | exact Hma | exact Hvt]. }
    destruct (bytes_eqb (m_q m) s_get) eqn:Hget.
    { destruct (m_a m) as [a|] eqn:Hma; [|finish_shape H].
      split_matches H; finish_shape H. }
    finish_shape H.
  Qed.
