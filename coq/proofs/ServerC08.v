(* ServerC08.v — what the server model (model/Server.v) sends, to whom, and at what cost:
   C08 (replies go to the asker, echo t, right KRPC form), C19 (blocklist, passive mode, closed
   server honoured on every path), C20 policy part (every rated datagram takes one token of the
   send budget).  All statements are about ANY state (no invariant is needed: the send path does
   not depend on the routing table), any event, any choice. *)
From Dht Require Import Base Int160 Msg Server ServerDefs Int160Proofs.
From DhtGen Require Import Params.

(* ------------------------------------------------------------------ vocabulary *)
Definition is_send (x : effect) : bool := match x with ESend _ _ _ => true | _ => false end.

(* the datagrams written to the socket by one step *)
Definition sends (out : list effect) : list effect := filter is_send out.

(* is the event's send subject to the limiter?  replies and errors always; a query send unless the
   caller opted out (QueryRateLimiting.NotFirst/NotAny -> rated = false) *)
Definition ev_rated (e : event) : bool :=
  match e with EQueryStart _ _ _ _ rated _ => rated | _ => true end.

Definition is_rated_send (e : event) (x : effect) : bool :=
  match x with
  | ESend _ _ SQuery => ev_rated e
  | ESend _ _ _ => true
  | _ => false
  end.

Definition rated_sends (e : event) (out : list effect) : N :=
  N.of_nat (length (filter (is_rated_send e) out)).

Fixpoint total_rated_sends (evs : list (event * choice)) (outs : list (list effect)) : N :=
  match evs, outs with
  | (e, _) :: r, o :: ro => (rated_sends e o + total_rated_sends r ro)%N
  | _, _ => 0%N
  end.

Definition is_query (m : msg) : Prop := m_y m = s_q.

(* the methods the dispatch knows, in the order it tests them *)
Definition known_methods : list bytes :=
  [s_ping; s_get_peers; s_find_node; s_announce_peer; s_put; s_get].
(* ... those that read the argument dictionary *)
Definition args_methods : list bytes :=
  [s_get_peers; s_find_node; s_announce_peer; s_put; s_get].

Definition unknown_method (m : msg) : Prop := ~ In (m_q m) known_methods.

(* effects that are upcalls into the application, not datagrams or drops *)
Definition is_callback (x : effect) : bool :=
  match x with EAnnounceCb _ _ _ _ | EPeerAdd _ _ _ => true | _ => false end.

Lemma callbacks_no_sends pre : forallb is_callback pre = true -> sends pre = [].
Proof.
  unfold sends. induction pre as [|x pre IH]; [reflexivity|]. cbn [forallb filter]. intros H.
  apply andb_true_iff in H. destruct H as [Hx Hr]. destruct x; try discriminate; cbn; auto.
Qed.

Lemma callbacks_no_drop pre n : forallb is_callback pre = true -> ~ In (EDropped n) pre.
Proof.
  intros H Hin. rewrite forallb_forall in H. specialize (H _ Hin). discriminate.
Qed.

Lemma sends_app a b : sends (a ++ b) = sends a ++ sends b.
Proof. apply filter_app. Qed.

Lemma in_sends d rm k out : In (ESend d rm k) out <-> In (ESend d rm k) (sends out).
Proof. unfold sends. rewrite filter_In. cbn. tauto. Qed.

Lemma sends_nil_no_send out : sends out = [] -> forall d rm k, ~ In (ESend d rm k) out.
Proof. intros H d rm k Hin. apply in_sends in Hin. rewrite H in Hin. exact Hin. Qed.

Lemma rated_all e out : ev_rated e = true -> filter (is_rated_send e) out = sends out.
Proof.
  intros He. unfold sends. apply filter_ext. intros x.
  destruct x as [d m k| | | | | |]; try reflexivity. cbn. rewrite He. destruct k; reflexivity.
Qed.

Section C08.
  Variable Store : Type.
  Variable w_put : Store -> witem -> Z -> Store * put_result.
  Variable w_get : Store -> bytes -> Z -> Store * get_result.
  Variable sha1 : bytes -> bytes.
  Variable id_secure : N -> bytes -> bool.
  Variable cfg : config.

  Notation sstate := (sstate Store).
  Notation step := (step Store w_put w_get sha1 id_secure cfg).
  Notation dispatch := (dispatch Store w_put w_get sha1 id_secure cfg).
  Notation handle_query := (handle_query Store w_put w_get sha1 id_secure cfg).
  Notation update_node := (update_node Store id_secure cfg).
  Notation add_node := (add_node Store id_secure cfg).
  Notation drop_node := (drop_node Store cfg).
  Notation table_add := (table_add Store cfg).
  Notation write_rated := (write_rated Store).
  Notation reply := (reply Store cfg).
  Notation send_error := (send_error Store).
  Notation run := (run Store w_put w_get sha1 id_secure cfg).
  Notation valid_token := (valid_token sha1 cfg).
  Notation s_now := (s_now Store).
  Notation s_pending := (s_pending Store).
  Notation s_peers := (s_peers Store).
  Notation s_store := (s_store Store).
  Notation s_blocklist := (s_blocklist Store).
  Notation s_closed := (s_closed Store).
  Notation s_next_t := (s_next_t Store).
  Notation s_budget := (s_budget Store).
  Notation with_budget := (with_budget Store).
  Notation HQ := (HQ Store).
  Notation SR := (SR Store).

  (* ---------------------------------------------------------------- the write routine *)
  (* everything but the routing table and its address index *)
  Definition same_but_table (s1 s : sstate) : Prop :=
    s_now s1 = s_now s /\ s_pending s1 = s_pending s /\ s_peers s1 = s_peers s /\
    s_store s1 = s_store s /\ s_blocklist s1 = s_blocklist s /\ s_closed s1 = s_closed s /\
    s_next_t s1 = s_next_t s /\ s_budget s1 = s_budget s.

  (* what the write routine looks at *)
  Definition same_gate (s0 s : sstate) : Prop :=
    s_now s0 = s_now s /\ s_blocklist s0 = s_blocklist s /\ s_closed s0 = s_closed s /\
    s_budget s0 = s_budget s.

  Lemma sbt_refl s : same_but_table s s.
  Proof. repeat split. Qed.

  Lemma sbt_trans a b c : same_but_table a b -> same_but_table b c -> same_but_table a c.
  Proof.
    intros (A1 & A2 & A3 & A4 & A5 & A6 & A7 & A8) (B1 & B2 & B3 & B4 & B5 & B6 & B7 & B8).
    repeat split; congruence.
  Qed.

  Lemma sbt_gate a b : same_but_table a b -> same_gate a b.
  Proof. intros (A1 & A2 & A3 & A4 & A5 & A6 & A7 & A8). repeat split; assumption. Qed.

  Lemma gate_trans a b c : same_gate a b -> same_gate b c -> same_gate a c.
  Proof. intros (A1 & A2 & A3 & A4) (B1 & B2 & B3 & B4). repeat split; congruence. Qed.

  (* write_rated: at most one datagram, to the given address, the given message; one token *)
  Inductive wr_spec (s : sstate) (dst : addr) (m : msg) (kind : send_kind) : sstate -> list effect -> Prop :=
  | WR_closed : s_closed s = true -> wr_spec s dst m kind s [EDropped 1]
  | WR_blocked : s_closed s = false -> blocked (s_blocklist s) (ip dst) = true ->
                 wr_spec s dst m kind s [EDropped 2]
  | WR_nobudget : s_closed s = false -> blocked (s_blocklist s) (ip dst) = false ->
                  s_budget s = Some 0%N -> wr_spec s dst m kind s [EDropped 3]
  | WR_free : s_closed s = false -> blocked (s_blocklist s) (ip dst) = false ->
              s_budget s = None -> wr_spec s dst m kind s [ESend dst m kind]
  | WR_paid b : s_closed s = false -> blocked (s_blocklist s) (ip dst) = false ->
                s_budget s = Some b -> (0 < b)%N ->
                wr_spec s dst m kind (with_budget s (Some (N.pred b))) [ESend dst m kind].

  Lemma write_rated_spec s dst m kind s' out :
    write_rated s dst m kind = (s', out) -> wr_spec s dst m kind s' out.
  Proof.
    unfold Server.write_rated. intros H.
    destruct (s_closed s) eqn:Hc.
    { injection H as <- <-. apply WR_closed; assumption. }
    destruct (blocked (s_blocklist s) (ip dst)) eqn:Hb.
    { injection H as <- <-. apply WR_blocked; assumption. }
    destruct (s_budget s) as [b|] eqn:Hbud.
    - destruct b as [|p] eqn:Hbp.
      + injection H as <- <-. apply WR_nobudget; assumption.
      + injection H as <- <-. apply (WR_paid s dst m kind (N.pos p)); try assumption. lia.
    - injection H as <- <-. apply WR_free; assumption.
  Qed.

  (* ---------------------------------------------------------------- the table update leaves the rest alone *)
  Lemma drop_node_sbt s n s1 : drop_node s n = Ok _ s1 -> same_but_table s1 s.
  Proof.
    unfold Server.drop_node. intros H.
    destruct (negb (index_has (Server.s_index Store s) (addr_key (n_addr n)) (n_id n))); [discriminate|].
    destruct (N.eqb (n_id n) (c_root cfg)); [discriminate|].
    match type of H with (if ?c then _ else _) = _ => destruct c end; [discriminate|].
    injection H as <-. repeat split.
  Qed.

  Lemma table_add_sbt s n s1 : table_add s n = Ok _ s1 -> same_but_table s1 s.
  Proof.
    unfold Server.table_add. intros H.
    destruct (N.eqb (n_id n) (c_root cfg)); [discriminate|].
    match type of H with (if ?c then _ else _) = _ => destruct c end; [discriminate|].
    match type of H with (if ?c then _ else _) = _ => destruct c end; [discriminate|].
    injection H as <-. repeat split.
  Qed.

  Lemma add_node_sbt s n v s1 r : add_node s n v = Ok _ (s1, r) -> same_but_table s1 s.
  Proof.
    unfold Server.add_node. intros H.
    destruct (node_bad id_secure cfg n).
    { injection H as <- <-. apply sbt_refl. }
    match type of H with (if ?c then _ else _) = _ => destruct c end.
    - match type of H with (match ?c with _ => _ end) = _ => destruct c as [|c0 cs] end.
      + destruct v; injection H as <- <-; apply sbt_refl.
      + destruct v as [[vk vid]|]; [|injection H as <- <-; apply sbt_refl].
        match type of H with (match ?c with _ => _ end) = _ => destruct c as [vn|] end;
          [|injection H as <- <-; apply sbt_refl].
        destruct (drop_node s vn) as [sa|] eqn:Hd; [|discriminate].
        destruct (table_add sa n) as [sb|] eqn:Ha; [|discriminate].
        injection H as <- <-.
        eapply sbt_trans; [eapply table_add_sbt; eassumption | eapply drop_node_sbt; eassumption].
    - destruct v; [injection H as <- <-; apply sbt_refl|].
      destruct (table_add s n) as [sb|] eqn:Ha; [|discriminate].
      injection H as <- <-. eapply table_add_sbt; eassumption.
  Qed.

  Lemma update_node_sbt s a id ta u v s1 r :
    update_node s a id ta u v = Ok _ (s1, r) -> same_but_table s1 s.
  Proof.
    unfold Server.update_node. intros H.
    destruct id as [i|]; [|injection H as <- _; apply sbt_refl].
    destruct (get_node cfg (Server.s_nodes Store s) a i).
    - destruct v; injection H as <- _; [apply sbt_refl | repeat split].
    - match type of H with (if ?c then _ else _) = _ => destruct c end.
      + injection H as <- _; apply sbt_refl.
      + eapply add_node_sbt; eassumption.
  Qed.

  (* ---------------------------------------------------------------- dispatch *)
  (* the two message forms the handlers build *)
  Inductive answer_form (src : addr) (t : bytes) : msg -> send_kind -> Prop :=
  | AF_reply r : answer_form src t (reply_msg cfg src t r) SReply
  | AF_error e : answer_form src t (error_msg t e) SError.

  (* dispatch either stays silent — only for announce_peer / put with arguments and a token that is
     not valid — or makes exactly one call of the write routine, towards the source, with t echoed;
     whatever precedes it in the output are application callbacks *)
  Inductive answer_shape (s : sstate) (src : addr) (m : msg) : sstate -> list effect -> Prop :=
  | AS_silent a :
      m_q m = s_announce_peer \/ m_q m = s_put -> m_a m = Some a ->
      valid_token (a_token a) src (s_now s) = Some false ->
      answer_shape s src m s []
  | AS_write pre s0 rm kind s' w :
      same_gate s0 s -> forallb is_callback pre = true -> answer_form src (m_t m) rm kind ->
      wr_spec s0 src rm kind s' w -> answer_shape s src m s' (pre ++ w).

  Lemma gate_refl s : same_gate s s.
  Proof. repeat split. Qed.

  Lemma shape_reply_pre s s0 src m r s2 out0 pre :
    same_gate s0 s -> forallb is_callback pre = true -> reply s0 src (m_t m) r = (s2, out0) ->
    answer_shape s src m s2 (pre ++ out0).
  Proof.
    intros Hg Hp H. unfold Server.reply in H. apply write_rated_spec in H.
    eapply AS_write; try eassumption. constructor.
  Qed.

  Lemma shape_reply s s0 src m r s' out :
    same_gate s0 s -> lift Store (reply s0 src (m_t m) r) = HQ s' out -> answer_shape s src m s' out.
  Proof.
    intros Hg H. unfold lift in H. injection H as H1 H2.
    change out with ([] ++ out). eapply shape_reply_pre; [eassumption|reflexivity|].
    rewrite <- H1, <- H2. apply surjective_pairing.
  Qed.

  Lemma shape_error s s0 src m e s' out :
    same_gate s0 s -> lift Store (send_error s0 src (m_t m) e) = HQ s' out -> answer_shape s src m s' out.
  Proof.
    intros Hg H. unfold lift in H. injection H as H1 H2.
    assert (Hw : write_rated s0 src (error_msg (m_t m) e) SError = (s', out)).
    { rewrite <- H1, <- H2. apply surjective_pairing. }
    apply write_rated_spec in Hw.
    change out with ([] ++ out). eapply AS_write; try eassumption; [reflexivity|constructor].
  Qed.

  Lemma gate_with_store s st : same_gate (with_store Store s st) s.
  Proof. repeat split. Qed.
  Lemma gate_with_peers s ps : same_gate (with_peers Store s ps) s.
  Proof. repeat split. Qed.

  (* split every match of the hypothesis, innermost scrutinee last *)
  Ltac split_matches H :=
    repeat match type of H with
           | context [match ?x with _ => _ end] => destruct x eqn:?; try discriminate H
           end.

  Ltac finish_shape H :=
    first [ eapply shape_reply; [|exact H]; first [apply gate_refl | apply gate_with_store | apply gate_with_peers]
          | eapply shape_error; [|exact H]; first [apply gate_refl | apply gate_with_store | apply gate_with_peers] ].

  Lemma dispatch_shape s src m ch s' out :
    dispatch s src m ch = HQ s' out -> answer_shape s src m s' out.
  Proof.
    unfold Server.dispatch. cbv zeta. intros H.
    destruct (bytes_eqb (m_q m) s_ping) eqn:Hping; [finish_shape H|].
    destruct (bytes_eqb (m_q m) s_get_peers) eqn:Hgp.
    { destruct (m_a m) as [a|] eqn:Hma; [|finish_shape H].
      split_matches H; finish_shape H. }
    destruct (bytes_eqb (m_q m) s_find_node) eqn:Hfn.
    { destruct (m_a m) as [a|] eqn:Hma; [|finish_shape H].
      split_matches H; finish_shape H. }
    destruct (bytes_eqb (m_q m) s_announce_peer) eqn:Hap.
    { apply bytes_eqb_eq in Hap.
      destruct (m_a m) as [a|] eqn:Hma; [|finish_shape H].
      destruct (valid_token (a_token a) src (s_now s)) as [[|]|] eqn:Hvt; [| |discriminate].
      - match type of H with context [reply ?s1 ?a ?t ?r] => destruct (reply s1 a t r) as [s2 out0] eqn:Hr end.
        injection H as <- <-. rewrite app_assoc.
        eapply shape_reply_pre; [| |exact Hr].
        + destruct (c_peer_store cfg); [apply gate_with_peers | apply gate_refl].
        + destruct (c_announce_cb cfg), (c_peer_store cfg); reflexivity.
      - injection H as <- <-. eapply AS_silent; [left; exact Hap | exact Hma | exact Hvt]. }
    destruct (bytes_eqb (m_q m) s_put) eqn:Hput.
    { apply bytes_eqb_eq in Hput.
      destruct (m_a m) as [a|] eqn:Hma; [|finish_shape H].
      destruct (valid_token (a_token a) src (s_now s)) as [[|]|] eqn:Hvt; [| |discriminate].
      - split_matches H; finish_shape H.
      - injection H as <- <-. eapply AS_silent; [right; exact Hput | exact Hma | exact Hvt]. }
    destruct (bytes_eqb (m_q m) s_get) eqn:Hget.
    { destruct (m_a m) as [a|] eqn:Hma; [|finish_shape H].
      split_matches H; finish_shape H. }
    finish_shape H.
  Qed.

  (* consequences of the shape: the datagrams, and the budget *)
  Lemma wr_sends s0 dst rm kind s' w :
    wr_spec s0 dst rm kind s' w ->
    (sends w = [] /\ s' = s0 /\
     (s_closed s0 = true \/ blocked (s_blocklist s0) (ip dst) = true \/ s_budget s0 = Some 0%N)) \/
    (sends w = [ESend dst rm kind] /\ s_closed s0 = false /\ blocked (s_blocklist s0) (ip dst) = false /\
     s_budget s0 <> Some 0%N).
  Proof.
    intros H. destruct H as [Hc|Hc Hb|Hc Hb Hbud|Hc Hb Hbud|b Hc Hb Hbud Hpos].
    - left. repeat split; auto.
    - left. repeat split; auto.
    - left. repeat split; auto.
    - right. repeat split; auto. congruence.
    - right. repeat split; auto. rewrite Hbud. intros E. injection E as E. lia.
  Qed.

  Lemma wr_budget s0 dst rm kind s' w :
    wr_spec s0 dst rm kind s' w ->
    match s_budget s0 with
    | None => s_budget s' = None
    | Some b => exists b', s_budget s' = Some b' /\ b = (b' + N.of_nat (length (sends w)))%N
    end.
  Proof.
    intros H. destruct H as [Hc|Hc Hb|Hc Hb Hbud|Hc Hb Hbud|b Hc Hb Hbud Hpos].
    - destruct (s_budget s0); [eexists; split; [reflexivity|cbn; lia] | reflexivity].
    - destruct (s_budget s0); [eexists; split; [reflexivity|cbn; lia] | reflexivity].
    - destruct (s_budget s0); [eexists; split; [reflexivity|cbn; lia] | reflexivity].
    - rewrite Hbud. reflexivity.
    - rewrite Hbud. exists (N.pred b). split; [reflexivity|]. cbn. lia.
  Qed.

  Lemma wr_gate s0 dst rm kind s' w :
    wr_spec s0 dst rm kind s' w ->
    s_now s' = s_now s0 /\ s_blocklist s' = s_blocklist s0 /\ s_closed s' = s_closed s0.
  Proof. intros H. destruct H; repeat split. Qed.

  Lemma shape_sends s src m s' out :
    answer_shape s src m s' out ->
    sends out = [] \/
    exists rm k, sends out = [ESend src rm k] /\ answer_form src (m_t m) rm k /\
                 s_closed s = false /\ blocked (s_blocklist s) (ip src) = false /\ s_budget s <> Some 0%N.
  Proof.
    intros H. destruct H as [a Hq Hma Hvt | pre s0 rm kind s' w Hg Hcb Hform Hw];
      [|pose proof (callbacks_no_sends _ Hcb) as Hpre].
    - left. reflexivity.
    - rewrite sends_app, Hpre. cbn [app].
      destruct Hg as (G1 & G2 & G3 & G4).
      destruct (wr_sends _ _ _ _ _ _ Hw) as [(Hs & _) | (Hs & Hc & Hb & Hbud)].
      + left. exact Hs.
      + right. exists rm, kind. rewrite <- G2, <- G3, <- G4. repeat split; assumption.
  Qed.

  Lemma shape_budget s src m s' out :
    answer_shape s src m s' out ->
    match s_budget s with
    | None => s_budget s' = None
    | Some b => exists b', s_budget s' = Some b' /\ b = (b' + N.of_nat (length (sends out)))%N
    end.
  Proof.
    intros H. destruct H as [a Hq Hma Hvt | pre s0 rm kind s' w Hg Hcb Hform Hw];
      [|pose proof (callbacks_no_sends _ Hcb) as Hpre].
    - destruct (s_budget s); [eexists; split; [reflexivity|cbn; lia] | reflexivity].
    - rewrite sends_app, Hpre. cbn [app].
      destruct Hg as (G1 & G2 & G3 & G4). rewrite <- G4. eapply wr_budget; eassumption.
  Qed.

  Lemma shape_gate s src m s' out :
    answer_shape s src m s' out ->
    s_now s' = s_now s /\ s_blocklist s' = s_blocklist s /\ s_closed s' = s_closed s.
  Proof.
    intros H. destruct H as [a Hq Hma Hvt | pre s0 rm kind s' w Hg Hpre Hform Hw].
    - repeat split.
    - destruct Hg as (G1 & G2 & G3 & G4). destruct (wr_gate _ _ _ _ _ _ Hw) as (W1 & W2 & W3).
      repeat split; congruence.
  Qed.

  (* when the gates are open and a token (if one is needed) is valid, the datagram is written *)
  Definition tokens_ok (s : sstate) (src : addr) (m : msg) : Prop :=
    forall a, m_q m = s_announce_peer \/ m_q m = s_put -> m_a m = Some a ->
              valid_token (a_token a) src (s_now s) = Some true.

  Lemma shape_answered s src m s' out :
    answer_shape s src m s' out ->
    s_closed s = false -> blocked (s_blocklist s) (ip src) = false -> s_budget s <> Some 0%N ->
    tokens_ok s src m ->
    exists rm k, sends out = [ESend src rm k] /\ answer_form src (m_t m) rm k.
  Proof.
    intros H Hc Hb Hbud Htok. destruct H as [a Hq Hma Hvt | pre s0 rm kind s' w Hg Hcb Hform Hw];
      [|pose proof (callbacks_no_sends _ Hcb) as Hpre].
    - rewrite (Htok a Hq Hma) in Hvt. discriminate.
    - rewrite sends_app, Hpre. cbn [app].
      destruct Hg as (G1 & G2 & G3 & G4).
      destruct (wr_sends _ _ _ _ _ _ Hw) as [(_ & _ & [Hx|[Hx|Hx]]) | (Hs & _)].
      + congruence.
      + rewrite G2 in Hx. congruence.
      + rewrite G4 in Hx. contradiction.
      + exists rm, kind. split; assumption.
  Qed.

  (* ---------------------------------------------------------------- one inbound datagram *)
  Definition udp_buf_n : N := Z.to_N udp_buf.

  (* the three ways a datagram can be processed *)
  Inductive packet_case (s : sstate) (src : addr) (size : N) (dec : option msg) (ch : choice)
            (s' : sstate) (out : list effect) : Prop :=
  | PC_dropped :                       (* oversize, port 0, closed, blocked source, undecodable *)
      s' = s -> out = [] ->
      size = udp_buf_n \/ port src = 0%N \/ s_closed s = true \/
      blocked (s_blocklist s) (ip src) = true \/ dec = None ->
      packet_case s src size dec ch s' out
  | PC_nonquery m :                    (* response, error, unknown message type *)
      dec = Some m -> m_y m <> s_q -> blocked (s_blocklist s) (ip src) = false ->
      s_budget s' = s_budget s -> s_closed s' = s_closed s -> s_blocklist s' = s_blocklist s ->
      (out = [] \/ exists qid, out = [ECompleted qid m]) ->
      packet_case s src size dec ch s' out
  | PC_query m s1 r :
      dec = Some m -> m_y m = s_q ->
      size <> udp_buf_n -> port src <> 0%N -> s_closed s = false ->
      blocked (s_blocklist s) (ip src) = false ->
      update_node s src (option_map id_of (sender_id m)) (negb (m_ro m)) UQuery (ch_victim ch) = Ok _ (s1, r) ->
      same_but_table s1 s ->
      ((c_hook cfg m = false \/ c_passive cfg = true) /\ s' = s1 /\ out = []) \/
      (c_hook cfg m = true /\ c_passive cfg = false /\ dispatch s1 src m ch = HQ s' out) ->
      packet_case s src size dec ch s' out.

  Lemma packet_cases s src size dec ch s' out :
    step s (EPacket src size dec) ch = SR s' out -> packet_case s src size dec ch s' out.
  Proof.
    cbn [Server.step]. intros H.
    destruct (N.eqb size (Z.to_N udp_buf)) eqn:Hsz.
    { apply N.eqb_eq in Hsz. injection H as <- <-. apply PC_dropped; auto. }
    apply N.eqb_neq in Hsz.
    destruct (N.eqb (port src) 0) eqn:Hport.
    { apply N.eqb_eq in Hport. injection H as <- <-. apply PC_dropped; auto. }
    apply N.eqb_neq in Hport.
    destruct (s_closed s) eqn:Hc.
    { injection H as <- <-. apply PC_dropped; auto. }
    destruct (blocked (s_blocklist s) (ip src)) eqn:Hb.
    { injection H as <- <-. apply PC_dropped; auto. }
    destruct dec as [m|]; [|injection H as <- <-; apply PC_dropped; auto 6].
    destruct (bytes_eqb (m_y m) s_q) eqn:Hy.
    - apply bytes_eqb_eq in Hy.
      unfold Server.handle_query in H.
      destruct (update_node s src (option_map id_of (sender_id m)) (negb (m_ro m)) UQuery (ch_victim ch))
        as [[s1 r]|] eqn:Hu; [|discriminate].
      pose proof (update_node_sbt _ _ _ _ _ _ _ _ Hu) as Hsbt.
      assert (Hrest :
        match (if negb (c_hook cfg m) then HQ s1 []
               else if c_passive cfg then HQ s1 [] else dispatch s1 src m ch) with
        | Server.HQ _ s2 o => SR s2 o | HQPanic _ => SRPanic Store | HQBadChoice _ => SRBadChoice Store
        end = SR s' out -> packet_case s src size (Some m) ch s' out).
      { clear H. intros H.
        eapply (PC_query s src size (Some m) ch s' out m s1 r); try eassumption; try reflexivity.
        destruct (c_hook cfg m) eqn:Hh; cbn [negb] in H.
        - destruct (c_passive cfg) eqn:Hp.
          + injection H as <- <-. left. auto.
          + right. split; [reflexivity|]. split; [reflexivity|].
            destruct (dispatch s1 src m ch); try discriminate. injection H as <- <-. reflexivity.
        - injection H as <- <-. left. auto. }
      destruct r; try (apply Hrest; exact H). discriminate.
    - assert (Hny : m_y m <> s_q).
      { intros E. apply bytes_eqb_eq in E. congruence. }
      destruct (find (txn_match (addr_key src) (m_t m)) (s_pending s)) as [x|] eqn:Hf.
      + match type of H with context [Server.update_node _ _ _ ?s1 _ _ _ _ _] =>
          destruct (update_node s1 src (option_map id_of (sender_id m)) (negb (m_ro m)) UResponse (ch_victim ch))
            as [[s2 r]|] eqn:Hu; [|discriminate]
        end.
        pose proof (update_node_sbt _ _ _ _ _ _ _ _ Hu) as (B1 & B2 & B3 & B4 & B5 & B6 & B7 & B8).
        cbn in B5, B6, B8.
        assert (Hfin : SR s2 [ECompleted (tx_qid x) m] = SR s' out -> packet_case s src size (Some m) ch s' out).
        { intros E. injection E as <- <-.
          eapply (PC_nonquery s src size (Some m) ch s2 _ m); try reflexivity; try assumption.
          right. eexists. reflexivity. }
        destruct r; try (apply Hfin; exact H). discriminate.
      + injection H as <- <-.
        eapply (PC_nonquery s src size (Some m) ch s [] m); try reflexivity; try assumption. left. reflexivity.
  Qed.

  (* everything a query's processing can send: from [packet_cases] and [dispatch_shape] *)
  Lemma packet_sends s src size dec ch s' out :
    step s (EPacket src size dec) ch = SR s' out ->
    sends out = [] \/
    exists m rm k, dec = Some m /\ m_y m = s_q /\ sends out = [ESend src rm k] /\
                   answer_form src (m_t m) rm k /\
                   size <> udp_buf_n /\ port src <> 0%N /\
                   s_closed s = false /\ blocked (s_blocklist s) (ip src) = false /\
                   s_budget s <> Some 0%N /\ c_hook cfg m = true /\ c_passive cfg = false.
  Proof.
    intros H. destruct (packet_cases _ _ _ _ _ _ _ H)
      as [_ -> _ | m _ _ _ _ _ _ [-> | [qid ->]] | m s1 r Hdec Hy Hsz Hport Hc Hb Hu Hsbt Hd].
    - left; reflexivity.
    - left; reflexivity.
    - left; reflexivity.
    - destruct Hd as [(_ & _ & ->) | (Hh & Hp & Hd)]; [left; reflexivity|].
      apply dispatch_shape in Hd.
      destruct (shape_sends _ _ _ _ _ Hd) as [Hs | (rm & k & Hs & Hform & Hc1 & Hb1 & Hbud1)]; [left; exact Hs|].
      right. exists m, rm, k.
      destruct Hsbt as (B1 & B2 & B3 & B4 & B5 & B6 & B7 & B8).
      rewrite B8 in Hbud1. repeat split; assumption.
  Qed.

  (* ================================================================ C08 *)
  (* every datagram sent in reaction to an inbound datagram goes to its source, the datagram was a
     query, and its transaction id is echoed byte for byte (any length, any bytes) *)
  Theorem C08_dest_and_t s src size dec ch s' out d rm k :
    step s (EPacket src size dec) ch = SR s' out -> In (ESend d rm k) out ->
    d = src /\ exists m, dec = Some m /\ m_y m = s_q /\ m_t rm = m_t m.
  Proof.
    intros H Hin. apply in_sends in Hin.
    destruct (packet_sends _ _ _ _ _ _ _ H) as [Hs | (m & rm' & k' & Hdec & Hy & Hs & Hform & _)].
    - rewrite Hs in Hin. destruct Hin.
    - rewrite Hs in Hin. destruct Hin as [E|[]]. injection E as <- <- <-.
      split; [reflexivity|]. exists m. repeat split; try assumption.
      destruct Hform; reflexivity.
  Qed.

  (* ... and it is the only one *)
  Theorem C08_at_most_one s src size dec ch s' out :
    step s (EPacket src size dec) ch = SR s' out -> (length (sends out) <= 1)%nat.
  Proof.
    intros H. destruct (packet_sends _ _ _ _ _ _ _ H) as [Hs | (m & rm' & k' & _ & _ & Hs & _)];
      rewrite Hs; cbn; lia.
  Qed.

  (* nothing is ever sent in reaction to a response, an error, a message of unknown type or an
     undecodable datagram *)
  Theorem C08_silent_on_non_query s src size dec ch s' out :
    step s (EPacket src size dec) ch = SR s' out ->
    dec = None \/ (exists m, dec = Some m /\ m_y m <> s_q) -> sends out = [].
  Proof.
    intros H Hnq. destruct (packet_sends _ _ _ _ _ _ _ H) as [Hs | (m & rm' & k' & Hdec & Hy & _)]; [exact Hs|].
    destruct Hnq as [E | (m0 & E & Hn)]; [congruence|].
    rewrite Hdec in E. injection E as <-. contradiction.
  Qed.

  (* the gates a query has to pass to be answered *)
  Definition open_gate (s : sstate) (src : addr) (size : N) (m : msg) : Prop :=
    size <> udp_buf_n /\ port src <> 0%N /\ s_closed s = false /\
    blocked (s_blocklist s) (ip src) = false /\ s_budget s <> Some 0%N /\
    c_hook cfg m = true /\ c_passive cfg = false.

  (* ping, find_node, get_peers, get, an unknown method, a method without its arguments, and
     announce_peer / put whose token is valid: exactly one datagram, to the source, echoing t.
     (No well-formedness hypothesis is needed: the premise is that the step is an outcome at all.) *)
  Theorem C08_exactly_one_form s src size m ch s' out :
    step s (EPacket src size (Some m)) ch = SR s' out ->
    m_y m = s_q -> open_gate s src size m -> tokens_ok s src m ->
    exists rm k, sends out = [ESend src rm k] /\ answer_form src (m_t m) rm k.
  Proof.
    intros H Hy (G1 & G2 & G3 & G4 & G5 & G6 & G7) Htok.
    destruct (packet_cases _ _ _ _ _ _ _ H)
      as [_ _ Hx | m0 Hdec Hny _ _ _ _ _ | m0 s1 r Hdec _ _ _ _ _ Hu Hsbt Hd].
    - destruct Hx as [Hx|[Hx|[Hx|[Hx|Hx]]]]; congruence.
    - injection Hdec as <-. contradiction.
    - injection Hdec as <-.
      destruct Hd as [([Hx|Hx] & _) | (_ & _ & Hd)]; [congruence|congruence|].
      apply dispatch_shape in Hd.
      destruct Hsbt as (B1 & B2 & B3 & B4 & B5 & B6 & B7 & B8).
      eapply shape_answered; [exact Hd| | | |].
      + congruence.
      + rewrite B5. assumption.
      + rewrite B8. assumption.
      + unfold tokens_ok. rewrite B1. exact Htok.
  Qed.

  Theorem C08_exactly_one s src size m ch s' out :
    step s (EPacket src size (Some m)) ch = SR s' out ->
    m_y m = s_q -> open_gate s src size m -> tokens_ok s src m ->
    length (sends out) = 1%nat.
  Proof.
    intros H Hy Hg Htok.
    destruct (C08_exactly_one_form _ _ _ _ _ _ _ H Hy Hg Htok) as (rm & k & Hs & _).
    rewrite Hs. reflexivity.
  Qed.

  (* the methods that need no token satisfy [tokens_ok] outright *)
  Lemma tokens_ok_other s src m :
    m_q m <> s_announce_peer -> m_q m <> s_put -> tokens_ok s src m.
  Proof. intros H1 H2 a [E|E]; contradiction. Qed.

  Lemma tokens_ok_no_args s src m : m_a m = None -> tokens_ok s src m.
  Proof. intros H a _ E. congruence. Qed.

  (* the KRPC form of whatever is sent: a response carries the node's own id and the requester's
     compact address in `ip`; an error carries an error value; nothing else is ever sent *)
  Theorem C08_response_form s src size dec ch s' out d rm :
    step s (EPacket src size dec) ch = SR s' out -> In (ESend d rm SReply) out ->
    m_y rm = s_r /\ m_q rm = [] /\ m_a rm = None /\ m_e rm = None /\ m_ro rm = false /\
    m_ip rm = addr_krpc src /\
    exists r, m_r rm = Some r /\ r_id r = own_id_bytes cfg.
  Proof.
    intros H Hin. apply in_sends in Hin.
    destruct (packet_sends _ _ _ _ _ _ _ H) as [Hs | (m & rm' & k' & Hdec & Hy & Hs & Hform & _)];
      rewrite Hs in Hin; [destruct Hin|].
    destruct Hin as [E|[]]. injection E as E1 E2 E3. subst d rm' k'.
    inversion Hform as [r Hrm Hk|]. cbn. repeat split. eexists. split; reflexivity.
  Qed.

  Theorem C08_error_form s src size dec ch s' out d rm :
    step s (EPacket src size dec) ch = SR s' out -> In (ESend d rm SError) out ->
    m_y rm = s_e /\ m_q rm = [] /\ m_a rm = None /\ m_r rm = None /\ exists e, m_e rm = Some e.
  Proof.
    intros H Hin. apply in_sends in Hin.
    destruct (packet_sends _ _ _ _ _ _ _ H) as [Hs | (m & rm' & k' & Hdec & Hy & Hs & Hform & _)];
      rewrite Hs in Hin; [destruct Hin|].
    destruct Hin as [E|[]]. injection E as E1 E2 E3. subst d rm' k'.
    inversion Hform as [|e Hrm Hk]. cbn. repeat split. eexists. reflexivity.
  Qed.

  Theorem C08_reply_kinds s src size dec ch s' out d rm k :
    step s (EPacket src size dec) ch = SR s' out -> In (ESend d rm k) out -> k = SReply \/ k = SError.
  Proof.
    intros H Hin. apply in_sends in Hin.
    destruct (packet_sends _ _ _ _ _ _ _ H) as [Hs | (m & rm' & k' & Hdec & Hy & Hs & Hform & _)];
      rewrite Hs in Hin; [destruct Hin|].
    destruct Hin as [E|[]]. injection E as <- <- <-. destruct Hform; auto.
  Qed.

  (* ---- unknown method -> 204, missing arguments -> 203 ---- *)
  Lemma neq_bytes_eqb a b : a <> b -> bytes_eqb a b = false.
  Proof. intros H. destruct (bytes_eqb a b) eqn:E; [|reflexivity]. apply bytes_eqb_eq in E. contradiction. Qed.

  Lemma dispatch_unknown s src m ch :
    unknown_method m ->
    dispatch s src m ch = lift Store (send_error s src (m_t m) err_method_unknown).
  Proof.
    intros Hu. unfold unknown_method, known_methods in Hu. cbn [In] in Hu.
    unfold Server.dispatch. cbv zeta.
    rewrite !neq_bytes_eqb; [reflexivity| | | | | |]; intros E; apply Hu; rewrite E; tauto.
  Qed.

  Lemma dispatch_missing_args s src m ch :
    In (m_q m) args_methods -> m_a m = None ->
    dispatch s src m ch = lift Store (send_error s src (m_t m) err_missing_args).
  Proof.
    intros Hin Hma. unfold args_methods in Hin. cbn [In] in Hin.
    unfold Server.dispatch. cbv zeta. rewrite Hma.
    destruct Hin as [E|[E|[E|[E|[E|[]]]]]]; rewrite <- E; reflexivity.
  Qed.

  (* a query whose processing reaches the dispatch and is answered there by one fixed error *)
  Lemma fixed_error_answer s src size m ch s' out e :
    step s (EPacket src size (Some m)) ch = SR s' out -> m_y m = s_q ->
    (forall s1, dispatch s1 src m ch = lift Store (send_error s1 src (m_t m) e)) ->
    (sends out = [] \/ sends out = [ESend src (error_msg (m_t m) e) SError]) /\
    (open_gate s src size m -> sends out = [ESend src (error_msg (m_t m) e) SError]).
  Proof.
    intros H Hy Hdisp.
    destruct (packet_cases _ _ _ _ _ _ _ H)
      as [_ -> Hx | m0 Hdec Hny _ _ _ _ _ | m0 s1 r Hdec _ Hsz Hport Hc Hb Hu Hsbt Hd].
    - split; [left; reflexivity|]. intros (G1 & G2 & G3 & G4 & _).
      destruct Hx as [Hx|[Hx|[Hx|[Hx|Hx]]]]; congruence.
    - injection Hdec as <-. contradiction.
    - injection Hdec as <-.
      destruct Hsbt as (B1 & B2 & B3 & B4 & B5 & B6 & B7 & B8).
      destruct Hd as [(Hx & _ & ->) | (_ & _ & Hd)].
      { split; [left; reflexivity|]. intros (_ & _ & _ & _ & _ & G6 & G7). destruct Hx; congruence. }
      rewrite Hdisp in Hd. unfold lift in Hd. injection Hd as H1 H2.
      assert (Hw : write_rated s1 src (error_msg (m_t m) e) SError = (s', out)).
      { rewrite <- H1, <- H2. apply surjective_pairing. }
      apply write_rated_spec in Hw.
      destruct (wr_sends _ _ _ _ _ _ Hw) as [(Hs & _ & Hwhy) | (Hs & _)].
      + split; [left; exact Hs|]. intros (_ & _ & G3 & G4 & G5 & _).
        rewrite B5, B6, B8 in Hwhy. destruct Hwhy as [Hx|[Hx|Hx]]; congruence.
      + split; [right; exact Hs | intros _; exact Hs].
  Qed.

  Theorem C08_unknown_204 s src size m ch s' out :
    step s (EPacket src size (Some m)) ch = SR s' out -> m_y m = s_q -> unknown_method m ->
    e_code err_method_unknown = err_value_method_unknown /\
    (sends out = [] \/ sends out = [ESend src (error_msg (m_t m) err_method_unknown) SError]) /\
    (open_gate s src size m -> sends out = [ESend src (error_msg (m_t m) err_method_unknown) SError]).
  Proof.
    intros H Hy Hu. split; [reflexivity|].
    apply (fixed_error_answer _ _ _ _ _ _ _ _ H Hy). intros s1. apply dispatch_unknown. exact Hu.
  Qed.

  Theorem C08_missing_args_203 s src size m ch s' out :
    step s (EPacket src size (Some m)) ch = SR s' out -> m_y m = s_q ->
    In (m_q m) args_methods -> m_a m = None ->
    e_code err_missing_args = err_value_missing_arguments /\
    (sends out = [] \/ sends out = [ESend src (error_msg (m_t m) err_missing_args) SError]) /\
    (open_gate s src size m -> sends out = [ESend src (error_msg (m_t m) err_missing_args) SError]).
  Proof.
    intros H Hy Hin Hma. split; [reflexivity|].
    apply (fixed_error_answer _ _ _ _ _ _ _ _ H Hy). intros s1. apply dispatch_missing_args; assumption.
  Qed.

  (* a ping is answered by a response (never an error) *)
  Theorem C08_ping_reply s src size m ch s' out :
    step s (EPacket src size (Some m)) ch = SR s' out -> m_y m = s_q -> m_q m = s_ping ->
    open_gate s src size m ->
    sends out = [ESend src (reply_msg cfg src (m_t m) empty_return) SReply].
  Proof.
    intros H Hy Hq (G1 & G2 & G3 & G4 & G5 & G6 & G7).
    destruct (packet_cases _ _ _ _ _ _ _ H)
      as [_ _ Hx | m0 Hdec Hny _ _ _ _ _ | m0 s1 r Hdec _ _ _ _ _ Hu Hsbt Hd].
    - destruct Hx as [Hx|[Hx|[Hx|[Hx|Hx]]]]; congruence.
    - injection Hdec as <-. contradiction.
    - injection Hdec as <-.
      destruct Hsbt as (B1 & B2 & B3 & B4 & B5 & B6 & B7 & B8).
      destruct Hd as [([Hx|Hx] & _) | (_ & _ & Hd)]; [congruence|congruence|].
      unfold Server.dispatch in Hd. cbv zeta in Hd. rewrite Hq in Hd. cbn [bytes_eqb s_ping byte_eqb] in Hd.
      change (bytes_eqb s_ping s_ping) with true in Hd. cbv iota in Hd.
      unfold lift, Server.reply in Hd. injection Hd as H1 H2.
      assert (Hw : write_rated s1 src (reply_msg cfg src (m_t m) empty_return) SReply = (s', out)).
      { rewrite <- H1, <- H2. apply surjective_pairing. }
      apply write_rated_spec in Hw.
      destruct (wr_sends _ _ _ _ _ _ Hw) as [(_ & _ & Hwhy) | (Hs & _)]; [|exact Hs].
      rewrite B5, B6, B8 in Hwhy. destruct Hwhy as [Hx|[Hx|Hx]]; congruence.
  Qed.

  (* passive mode or a vetoing query hook: no datagram; for a query not even another effect *)
  Theorem C08_passive_or_veto_silent s src size dec ch s' out :
    step s (EPacket src size dec) ch = SR s' out ->
    c_passive cfg = true \/ (exists m, dec = Some m /\ c_hook cfg m = false) ->
    sends out = [] /\ (forall m, dec = Some m -> m_y m = s_q -> out = []).
  Proof.
    intros H Hpv.
    destruct (packet_cases _ _ _ _ _ _ _ H)
      as [_ -> _ | m Hdec0 Hny _ _ _ _ [-> | [qid ->]] | m s1 r Hdec Hy Hsz Hport Hc Hb Hu Hsbt Hd].
    - split; [reflexivity|auto].
    - split; [reflexivity|auto].
    - split; [reflexivity|]. intros m0 E Hy. congruence.
    - destruct Hd as [(_ & _ & ->) | (Hh & Hp & _)]; [split; [reflexivity|auto]|].
      destruct Hpv as [Hx | (m0 & E & Hx)]; [congruence|].
      rewrite Hdec in E. injection E as <-. congruence.
  Qed.

  (* ---------------------------------------------------------------- the other events *)
  (* starting an outbound query *)
  Inductive qstart_case (s : sstate) (qid : N) (dst : addr) (q : bytes) (a : msg_args) (rated : bool)
            (t : bytes) (s' : sstate) (out : list effect) : Prop :=
  | QS_failed n :
      out = [EDropped n; EQueryFailed qid] -> s_budget s' = s_budget s ->
      (n = 1%N /\ s_closed s = true) \/ (n = 2%N /\ blocked (s_blocklist s) (ip dst) = true) \/
      (n = 3%N /\ rated = true /\ s_budget s = Some 0%N) ->
      qstart_case s qid dst q a rated t s' out
  | QS_sent :
      out = [ESend dst (query_msg cfg q a t) SQuery] ->
      s_closed s = false -> blocked (s_blocklist s) (ip dst) = false ->
      (rated = false /\ s_budget s' = s_budget s) \/
      (rated = true /\ s_budget s = None /\ s_budget s' = None) \/
      (rated = true /\ exists b, s_budget s = Some b /\ (0 < b)%N /\ s_budget s' = Some (N.pred b)) ->
      qstart_case s qid dst q a rated t s' out.

  Lemma qstart_cases s qid dst q a rated t ch s' out :
    step s (EQueryStart qid dst q a rated t) ch = SR s' out -> qstart_case s qid dst q a rated t s' out.
  Proof.
    cbn [Server.step]. cbv zeta. intros H.
    destruct (s_closed s) eqn:Hc.
    { injection H as <- <-. eapply QS_failed; [reflexivity|reflexivity|]. left. auto. }
    destruct (blocked (s_blocklist s) (ip dst)) eqn:Hb.
    { injection H as <- <-. eapply QS_failed; [reflexivity|reflexivity|]. right. left. auto. }
    destruct (rated && match s_budget s with Some 0%N => true | _ => false end) eqn:Hz.
    { injection H as <- <-. eapply QS_failed; [reflexivity|reflexivity|]. right. right.
      apply andb_true_iff in Hz. destruct Hz as [Hr Hz]. split; [reflexivity|]. split; [exact Hr|].
      destruct (s_budget s) as [[|p]|]; try discriminate. reflexivity. }
    destruct (uvarint_decode t) as [n|]; [|discriminate].
    destruct (N.ltb n (s_next_t s)); [discriminate|].
    destruct (existsb (txn_match (addr_key dst) t) (s_pending s)); [discriminate|].
    destruct rated.
    - cbn [andb] in Hz. cbn [Server.s_budget with_pending] in H.
      destruct (s_budget s) as [[|p]|] eqn:Hbud; [discriminate| |].
      + injection H as <- <-. apply QS_sent; try assumption; try reflexivity.
        right. right. split; [reflexivity|]. exists (N.pos p). split; [exact Hbud|]. split; [lia|]. reflexivity.
      + injection H as <- <-. apply QS_sent; try assumption; try reflexivity.
        right. left. split; [reflexivity|]. split; exact Hbud.
    - injection H as <- <-. apply QS_sent; try assumption; try reflexivity. left. split; reflexivity.
  Qed.

  (* every remaining event: no datagram, budget untouched *)
  Lemma quiet_events s e ch s' out :
    step s e ch = SR s' out ->
    match e with EPacket _ _ _ | EQueryStart _ _ _ _ _ _ => False | _ => True end ->
    sends out = [] /\ s_budget s' = s_budget s.
  Proof.
    intros H He. destruct e as [src size dec|d|i p id|qid dst q a rated t|qid|a id|bl|]; try contradiction;
      cbn [Server.step] in H.
    - injection H as <- <-. split; reflexivity.
    - destruct (update_node s (mkAddr i p) (Some id) true UNone (ch_victim ch)) as [[s1 r]|] eqn:Hu; [|discriminate].
      pose proof (update_node_sbt _ _ _ _ _ _ _ _ Hu) as (B1 & B2 & B3 & B4 & B5 & B6 & B7 & B8).
      destruct r; try discriminate; injection H as <- <-; split; auto.
    - destruct (existsb (fun x => N.eqb (tx_qid x) qid) (s_pending s)); injection H as <- <-; split; reflexivity.
    - destruct (update_node s a (Some id) false UFailedPing None) as [[s1 r]|] eqn:Hu; [|discriminate].
      pose proof (update_node_sbt _ _ _ _ _ _ _ _ Hu) as (B1 & B2 & B3 & B4 & B5 & B6 & B7 & B8).
      injection H as <- <-; split; auto.
    - injection H as <- <-. split; reflexivity.
    - injection H as <- <-. split; reflexivity.
  Qed.

  (* the destination an event sends queries to, if it is one that starts a query *)
  Theorem C08_only_queries_elsewhere s e ch s' out d rm k :
    step s e ch = SR s' out ->
    match e with EPacket _ _ _ => False | _ => True end ->
    In (ESend d rm k) out ->
    exists qid q a rated t, e = EQueryStart qid d q a rated t /\ k = SQuery /\ rm = query_msg cfg q a t /\
                            out = [ESend d rm k].
  Proof.
    intros H He Hin.
    destruct e as [src size dec|dl|i p id|qid dst q a rated t|qid|a id|bl|]; try contradiction.
    3: { destruct (qstart_cases _ _ _ _ _ _ _ _ _ _ H) as [n -> _ _ | -> _ _ _].
         - destruct Hin as [E|[E|[]]]; discriminate.
         - destruct Hin as [E|[]]. injection E as <- <- <-.
           exists qid, q, a, rated, t. repeat split. }
    all: destruct (quiet_events _ _ _ _ _ H I) as [Hs _];
      exfalso; exact (sends_nil_no_send _ Hs _ _ _ Hin).
  Qed.

  (* replies and errors only answer datagrams; queries are only sent by query starts *)
  Theorem C08_kinds s e ch s' out d rm k :
    step s e ch = SR s' out -> In (ESend d rm k) out ->
    match e with
    | EPacket src _ _ => d = src /\ (k = SReply \/ k = SError)
    | EQueryStart _ dst _ _ _ _ => d = dst /\ k = SQuery
    | _ => False
    end.
  Proof.
    intros H Hin. destruct e as [src size dec|dl|i p id|qid dst q a rated t|qid|a id|bl|].
    - split; [exact (proj1 (C08_dest_and_t _ _ _ _ _ _ _ _ _ _ H Hin)) | exact (C08_reply_kinds _ _ _ _ _ _ _ _ _ _ H Hin)].
    - destruct (C08_only_queries_elsewhere _ _ _ _ _ _ _ _ H I Hin) as (? & ? & ? & ? & ? & E & _); discriminate.
    - destruct (C08_only_queries_elsewhere _ _ _ _ _ _ _ _ H I Hin) as (? & ? & ? & ? & ? & E & _); discriminate.
    - destruct (C08_only_queries_elsewhere _ _ _ _ _ _ _ _ H I Hin) as (? & ? & ? & ? & ? & E & Hk & _).
      injection E as _ <- _ _ _ _. auto.
    - destruct (C08_only_queries_elsewhere _ _ _ _ _ _ _ _ H I Hin) as (? & ? & ? & ? & ? & E & _); discriminate.
    - destruct (C08_only_queries_elsewhere _ _ _ _ _ _ _ _ H I Hin) as (? & ? & ? & ? & ? & E & _); discriminate.
    - destruct (C08_only_queries_elsewhere _ _ _ _ _ _ _ _ H I Hin) as (? & ? & ? & ? & ? & E & _); discriminate.
    - destruct (C08_only_queries_elsewhere _ _ _ _ _ _ _ _ H I Hin) as (? & ? & ? & ? & ? & E & _); discriminate.
  Qed.

  (* ================================================================ C19 *)
  (* no datagram is ever written to a blocked address: every event, every choice, any state,
     with the blocklist in force when the event is processed *)
  Theorem C19_no_send_to_blocked s e ch s' out d rm k :
    step s e ch = SR s' out -> In (ESend d rm k) out -> blocked (s_blocklist s) (ip d) = false.
  Proof.
    intros H Hin. destruct e as [src size dec|dl|i p id|qid dst q a rated t|qid|a id|bl|].
    1: { apply in_sends in Hin.
         destruct (packet_sends _ _ _ _ _ _ _ H) as [Hs | (m & rm' & k' & _ & _ & Hs & _ & _ & _ & _ & Hb & _)];
           rewrite Hs in Hin; [destruct Hin|].
         destruct Hin as [E|[]]. injection E as <- _ _. exact Hb. }
    3: { destruct (qstart_cases _ _ _ _ _ _ _ _ _ _ H) as [n -> _ _ | -> _ Hb _].
         - destruct Hin as [E|[E|[]]]; discriminate.
         - destruct Hin as [E|[]]. injection E as <- _ _. exact Hb. }
    all: destruct (quiet_events _ _ _ _ _ H I) as [Hs _];
      exfalso; exact (sends_nil_no_send _ Hs _ _ _ Hin).
  Qed.

  (* a datagram from a blocked address has no effect at all: the state is unchanged (no table
     entry, no stored peer or item, no completed or consumed transaction, no token spent) and
     nothing is output — whatever it contains *)
  Theorem C19_blocked_inert s src size dec ch s' out :
    blocked (s_blocklist s) (ip src) = true ->
    step s (EPacket src size dec) ch = SR s' out -> s' = s /\ out = [].
  Proof.
    intros Hb H. destruct (packet_cases _ _ _ _ _ _ _ H)
      as [-> -> _ | m _ _ Hb' _ _ _ _ | m s1 r _ _ _ _ _ Hb' _ _ _]; [split; reflexivity| |]; congruence.
  Qed.

  (* blocked sources cannot even produce a choice-dependent outcome: the step is deterministic *)
  Theorem C19_blocked_inert_total s src size dec ch :
    blocked (s_blocklist s) (ip src) = true ->
    step s (EPacket src size dec) ch = SR s [].
  Proof.
    intros Hb. cbn [Server.step]. rewrite Hb.
    destruct (N.eqb size (Z.to_N udp_buf)); [reflexivity|].
    destruct (N.eqb (port src) 0); [reflexivity|].
    destruct (s_closed s); reflexivity.
  Qed.

  (* the node filter every lookup applies before querying an address *)
  Theorem C19_lookup_filter s i p id :
    blocked (s_blocklist s) i = true -> traversal_node_filter Store id_secure cfg s i p id = false.
  Proof.
    intros Hb. unfold traversal_node_filter. rewrite Hb. cbn [negb]. rewrite andb_false_r. reflexivity.
  Qed.

  Theorem C04_filter_spec s i p id :
    traversal_node_filter Store id_secure cfg s i p id = true <->
    p <> 0%N /\ (forall x r, to4 i = Some (x :: r) -> Byte.to_N x <> 0%N) /\
    blocked (s_blocklist s) i = false /\
    (forall x, id = Some x -> c_no_security cfg = true \/ id_secure x i = true).
  Proof.
    unfold traversal_node_filter, valid_node_addr. rewrite !andb_true_iff, !negb_true_iff.
    rewrite N.eqb_neq. split.
    - intros [[[Hp H0] Hb] Hid]. repeat split; try assumption.
      + intros x r E. rewrite E in H0. apply N.eqb_neq. exact H0.
      + intros x E. subst id. apply orb_true_iff. exact Hid.
    - intros (Hp & H0 & Hb & Hid). repeat split; try assumption.
      + destruct (to4 i) as [[|x r]|]; try reflexivity. apply N.eqb_neq. eapply H0. reflexivity.
      + destruct id as [x|]; [|reflexivity]. apply orb_true_iff. apply Hid. reflexivity.
  Qed.

  (* passive mode: no response or error to any query (for every method, args shape, source) ... *)
  Theorem C19_passive_silent s src size dec ch s' out :
    c_passive cfg = true -> step s (EPacket src size dec) ch = SR s' out -> sends out = [].
  Proof.
    intros Hp H. exact (proj1 (C08_passive_or_veto_silent _ _ _ _ _ _ _ H (or_introl Hp))).
  Qed.

  (* ... over all events: whatever a passive node sends is a query ... *)
  Theorem C19_passive_only_queries s e ch s' out d rm k :
    c_passive cfg = true -> step s e ch = SR s' out -> In (ESend d rm k) out -> k = SQuery.
  Proof.
    intros Hp H Hin. destruct e as [src size dec|dl|i p id|qid dst q a rated t|qid|a id|bl|].
    1: { exfalso. exact (sends_nil_no_send _ (C19_passive_silent _ _ _ _ _ _ _ Hp H) _ _ _ Hin). }
    all: destruct (C08_only_queries_elsewhere _ _ _ _ _ _ _ _ H I Hin) as (? & ? & ? & ? & ? & _ & Hk & _);
      exact Hk.
  Qed.

  (* ... and every query is marked read-only exactly when the node is passive *)
  Theorem C19_query_ro s e ch s' out d rm :
    step s e ch = SR s' out -> In (ESend d rm SQuery) out -> m_ro rm = c_passive cfg.
  Proof.
    intros H Hin. destruct e as [src size dec|dl|i p id|qid dst q a rated t|qid|a id|bl|].
    1: { destruct (C08_reply_kinds _ _ _ _ _ _ _ _ _ _ H Hin); discriminate. }
    all: destruct (C08_only_queries_elsewhere _ _ _ _ _ _ _ _ H I Hin) as (? & ? & ? & ? & ? & _ & _ & -> & _);
      reflexivity.
  Qed.

  Theorem C19_passive_ro s e ch s' out d rm :
    c_passive cfg = true -> step s e ch = SR s' out -> In (ESend d rm SQuery) out -> m_ro rm = true.
  Proof. intros Hp H Hin. rewrite (C19_query_ro _ _ _ _ _ _ _ H Hin). exact Hp. Qed.

  (* a closed server writes nothing, on any path *)
  Theorem C19_closed_silent s e ch s' out :
    s_closed s = true -> step s e ch = SR s' out -> sends out = [].
  Proof.
    intros Hc H. destruct e as [src size dec|dl|i p id|qid dst q a rated t|qid|a id|bl|].
    1: { destruct (packet_sends _ _ _ _ _ _ _ H) as [Hs | (m & rm' & k' & _ & _ & _ & _ & _ & _ & Hc' & _)];
           [exact Hs | congruence]. }
    3: { destruct (qstart_cases _ _ _ _ _ _ _ _ _ _ H) as [n -> _ _ | _ Hc' _ _]; [reflexivity | congruence]. }
    all: exact (proj1 (quiet_events _ _ _ _ _ H I)).
  Qed.

  (* ================================================================ C20 (policy) *)
  (* every rated datagram takes exactly one token; nothing else touches the budget.
     Replies and errors always count; a query send counts iff the event's [rated] flag. *)
  Theorem C20_budget_step s e ch s' out b :
    s_budget s = Some b -> step s e ch = SR s' out ->
    exists b', s_budget s' = Some b' /\ b = (b' + rated_sends e out)%N.
  Proof.
    intros Hbud H. unfold rated_sends.
    destruct e as [src size dec|dl|i p id|qid dst q a rated t|qid|a id|bl|].
    1: { rewrite rated_all by reflexivity.
         destruct (packet_cases _ _ _ _ _ _ _ H)
           as [-> -> _ | m _ _ _ Hb' _ _ [-> | [qid ->]] | m s1 r Hdec Hy Hsz Hport Hc Hb Hu Hsbt Hd].
         - exists b. split; [exact Hbud | cbn; lia].
         - exists b. split; [congruence | cbn; lia].
         - exists b. split; [congruence | cbn; lia].
         - destruct Hsbt as (B1 & B2 & B3 & B4 & B5 & B6 & B7 & B8).
           destruct Hd as [(_ & -> & ->) | (_ & _ & Hd)].
           + exists b. split; [congruence | cbn; lia].
           + apply dispatch_shape in Hd. pose proof (shape_budget _ _ _ _ _ Hd) as Hsb.
             rewrite B8, Hbud in Hsb. exact Hsb. }
    3: { destruct (qstart_cases _ _ _ _ _ _ _ _ _ _ H) as [n -> Hb' _ | -> _ _ Hcase].
         - exists b. split; [congruence | cbn; lia].
         - destruct Hcase as [(-> & Hb') | [(-> & Hn & _) | (-> & b0 & Hb0 & Hpos & Hb')]].
           + exists b. split; [congruence | cbn; lia].
           + congruence.
           + rewrite Hbud in Hb0. injection Hb0 as <-. exists (N.pred b). split; [exact Hb' | cbn; lia]. }
    all: rewrite rated_all by reflexivity; destruct (quiet_events _ _ _ _ _ H I) as [-> Hb'];
      exists b; (split; [congruence | cbn; lia]).
  Qed.

  Theorem C20_unlimited_unchanged s e ch s' out :
    s_budget s = None -> step s e ch = SR s' out -> s_budget s' = None /\ ~ In (EDropped 3) out.
  Proof.
    intros Hbud H.
    destruct e as [src size dec|dl|i p id|qid dst q a rated t|qid|a id|bl|].
    1: { destruct (packet_cases _ _ _ _ _ _ _ H)
           as [-> -> _ | m _ _ _ Hb' _ _ Hout | m s1 r Hdec Hy Hsz Hport Hc Hb Hu Hsbt Hd].
         - split; [exact Hbud | intros []].
         - split; [congruence|]. destruct Hout as [-> | [qid ->]]; [intros [] | intros [E|[]]; discriminate].
         - destruct Hsbt as (B1 & B2 & B3 & B4 & B5 & B6 & B7 & B8).
           destruct Hd as [(_ & -> & ->) | (_ & _ & Hd)]; [split; [congruence | intros []]|].
           apply dispatch_shape in Hd. pose proof (shape_budget _ _ _ _ _ Hd) as Hsb.
           rewrite B8, Hbud in Hsb. split; [exact Hsb|].
           destruct Hd as [a0 _ _ _ | pre s0 rm kind s2 w Hg Hpre Hform Hw]; [intros []|].
           intros Hin. apply in_app_or in Hin. destruct Hin as [Hin | Hin].
           + exact (callbacks_no_drop _ _ Hpre Hin).
           + destruct Hg as (G1 & G2 & G3 & G4).
             destruct Hw as [Hc0|Hc0 Hb0|Hc0 Hb0 Hbud0|Hc0 Hb0 Hbud0|b0 Hc0 Hb0 Hbud0 Hpos];
               try (destruct Hin as [E|[]]; discriminate).
             congruence. }
    3: { destruct (qstart_cases _ _ _ _ _ _ _ _ _ _ H) as [n -> Hb' Hwhy | -> _ _ Hcase].
         - split; [congruence|]. intros [E|[E|[]]]; [|discriminate]. injection E as E. subst n.
           destruct Hwhy as [(E & _) | [(E & _) | (_ & _ & E)]]; try discriminate. congruence.
         - split; [|intros [E|[]]; discriminate].
           destruct Hcase as [(_ & Hb') | [(_ & _ & Hn) | (_ & b0 & Hb0 & _)]]; congruence. }
    all: destruct (quiet_events _ _ _ _ _ H I) as [Hs Hb']; (split; [congruence|]);
      intros Hin; cbn [Server.step] in H.
    - injection H as _ <-. destruct Hin.
    - destruct (update_node s (mkAddr i p) (Some id) true UNone (ch_victim ch)) as [[s1 r]|]; [|discriminate].
      destruct r; try discriminate; injection H as _ <-; destruct Hin.
    - destruct (existsb (fun x => N.eqb (tx_qid x) qid) (s_pending s)); injection H as _ <-;
        [destruct Hin as [E|[]]; discriminate | destruct Hin].
    - destruct (update_node s a (Some id) false UFailedPing None) as [[s1 r]|]; [|discriminate].
      injection H as _ <-; destruct Hin.
    - injection H as _ <-. destruct Hin.
    - injection H as _ <-. destruct Hin.
  Qed.

  (* an exhausted budget: no rated datagram leaves (a reply is dropped, a rated query send fails) *)
  Theorem C20_no_budget_no_send s e ch s' out :
    s_budget s = Some 0%N -> step s e ch = SR s' out ->
    filter (is_rated_send e) out = [] /\ s_budget s' = Some 0%N.
  Proof.
    intros Hbud H. destruct (C20_budget_step _ _ _ _ _ _ Hbud H) as (b' & Hb' & Hsum).
    unfold rated_sends in Hsum.
    assert (Hlen : length (filter (is_rated_send e) out) = 0%nat) by lia.
    split; [apply length_zero_iff_nil; exact Hlen|]. rewrite Hb'. f_equal. lia.
  Qed.

  Theorem C20_no_budget_reply_dropped s src size dec ch s' out :
    s_budget s = Some 0%N -> step s (EPacket src size dec) ch = SR s' out -> sends out = [].
  Proof.
    intros Hbud H. destruct (C20_no_budget_no_send _ _ _ _ _ Hbud H) as [Hf _].
    rewrite rated_all in Hf by reflexivity. exact Hf.
  Qed.

  Theorem C20_no_budget_query_fails s qid dst q a t ch s' out :
    s_budget s = Some 0%N -> step s (EQueryStart qid dst q a true t) ch = SR s' out ->
    exists n, out = [EDropped n; EQueryFailed qid].
  Proof.
    intros Hbud H. destruct (qstart_cases _ _ _ _ _ _ _ _ _ _ H) as [n -> _ _ | -> _ _ Hcase].
    - exists n. reflexivity.
    - destruct Hcase as [(E & _) | [(_ & Hn & _) | (_ & b0 & Hb0 & Hpos & _)]]; [discriminate|congruence|].
      rewrite Hbud in Hb0. injection Hb0 as <-. lia.
  Qed.

  (* an unrated query send (the caller opted out) is not subject to the budget *)
  Theorem C20_unrated_query_free s qid dst q a t ch s' out :
    step s (EQueryStart qid dst q a false t) ch = SR s' out -> s_budget s' = s_budget s.
  Proof.
    intros H. destruct (qstart_cases _ _ _ _ _ _ _ _ _ _ H) as [n _ Hb' _ | _ _ _ Hcase]; [exact Hb'|].
    destruct Hcase as [(_ & Hb') | [(E & _) | (E & _)]]; [exact Hb' | discriminate | discriminate].
  Qed.

  (* over any history: budget spent = rated datagrams sent; hence never more than the budget *)
  Theorem C20_run_budget evs : forall s s' outs b,
    run s evs = Some (s', outs) -> s_budget s = Some b ->
    exists b', s_budget s' = Some b' /\ b = (b' + total_rated_sends evs outs)%N.
  Proof.
    induction evs as [|[e ch] r IH]; intros s s' outs b Hrun Hbud.
    - cbn in Hrun. injection Hrun as <- <-. exists b. split; [exact Hbud | cbn; lia].
    - cbn [ServerDefs.run] in Hrun.
      destruct (step s e ch) as [s1 out| |] eqn:Hstep; try discriminate.
      destruct (run s1 r) as [[s2 outs']|] eqn:Hr; [|discriminate].
      injection Hrun as <- <-.
      destruct (C20_budget_step _ _ _ _ _ _ Hbud Hstep) as (b1 & Hb1 & Hsum1).
      destruct (IH _ _ _ _ Hr Hb1) as (b2 & Hb2 & Hsum2).
      exists b2. split; [exact Hb2|]. cbn [total_rated_sends]. lia.
  Qed.

  Theorem C20_run_bound evs s s' outs b :
    run s evs = Some (s', outs) -> s_budget s = Some b -> (total_rated_sends evs outs <= b)%N.
  Proof.
    intros Hrun Hbud. destruct (C20_run_budget _ _ _ _ _ Hrun Hbud) as (b' & _ & Hsum). lia.
  Qed.

  Theorem C20_run_unlimited evs : forall s s' outs,
    run s evs = Some (s', outs) -> s_budget s = None ->
    s_budget s' = None /\ forall out, In out outs -> ~ In (EDropped 3) out.
  Proof.
    induction evs as [|[e ch] r IH]; intros s s' outs Hrun Hbud.
    - cbn in Hrun. injection Hrun as <- <-. split; [exact Hbud | intros out []].
    - cbn [ServerDefs.run] in Hrun.
      destruct (step s e ch) as [s1 out| |] eqn:Hstep; try discriminate.
      destruct (run s1 r) as [[s2 outs']|] eqn:Hr; [|discriminate].
      injection Hrun as <- <-.
      destruct (C20_unlimited_unchanged _ _ _ _ _ Hbud Hstep) as [Hb1 Hnd].
      destruct (IH _ _ _ Hr Hb1) as [Hb2 Hall].
      split; [exact Hb2|]. intros o [<- | Hin]; [exact Hnd | exact (Hall _ Hin)].
  Qed.

  (* ---------------------------------------------------------------- histories *)
  (* the per-step statements hold at every point of every history: a generic lifting *)
  Theorem run_all_steps (P : sstate -> event -> choice -> sstate -> list effect -> Prop) :
    (forall s e ch s' out, step s e ch = SR s' out -> P s e ch s' out) ->
    forall evs s s' outs, run s evs = Some (s', outs) ->
    exists states, length states = length evs /\ length outs = length evs /\
      forall i e ch, nth_error evs i = Some (e, ch) ->
        exists si si' out, nth_error (s :: states) i = Some si /\ nth_error states i = Some si' /\
                           nth_error outs i = Some out /\ step si e ch = SR si' out /\ P si e ch si' out.
  Proof.
    intros HP. induction evs as [|[e ch] r IH]; intros s s' outs Hrun.
    - cbn in Hrun. injection Hrun as <- <-. exists []. repeat split. intros [|i] e ch E; discriminate.
    - cbn [ServerDefs.run] in Hrun.
      destruct (step s e ch) as [s1 out| |] eqn:Hstep; try discriminate.
      destruct (run s1 r) as [[s2 outs']|] eqn:Hr; [|discriminate].
      injection Hrun as <- <-.
      destruct (IH _ _ _ Hr) as (states & Hl1 & Hl2 & Hall).
      exists (s1 :: states). cbn [length]. repeat split; try congruence.
      intros [|i] e0 ch0 E.
      + cbn in E. injection E as <- <-. exists s, s1, out. repeat split; auto.
      + cbn [nth_error] in E |- *. exact (Hall i e0 ch0 E).
  Qed.
End C08.
