(* C09 — replies propagate only good contacts, nearest buckets first, right address family.
   This file holds statements only; every proof is `exact <lemma>` from proofs/ServerC09.v
   (and proofs/ServerInv.v for the step from `reachable` to the table invariant `Inv`).
   Vocabulary (proofs/ServerC09.v):
     family v6 n   = the entry n is offered as IPv6 (v6 = true: net.IP.To4 fails) / IPv4 (v6 = false)
     target_of m a = id of a_info_hash for get_peers, of a_target for find_node and get
     accept_closest s v6 target l (model/Server.v) = l is an allowed value of `nodes` (v6 = false) /
                     `nodes6` (v6 = true) for that target; Go map order makes this a relation
     wire_info v6 n = the compact entry of n (id, To4 / To16 form of the ip, port) *)
From Dht Require Import Base Int160 Msg Server ServerDefs ServerInv ServerC06 ServerC09.
From Dht Require Compact.
From DhtGen Require Import Params.
Local Open Scope N_scope.

Section C09.
  Variable Store : Type.
  Variable w_put : Store -> witem -> Z -> Store * put_result.
  Variable w_get : Store -> bytes -> Z -> Store * get_result.
  Variable sha1 : bytes -> bytes.
  Variable id_secure : N -> bytes -> bool.
  Variable cfg : config.

  Notation sstate := (sstate Store).
  Notation step := (step Store w_put w_get sha1 id_secure cfg).
  Notation reachable := (reachable Store w_put w_get sha1 id_secure cfg).
  Notation update_node := (update_node Store id_secure cfg).
  Notation Inv := (Inv Store cfg).
  Notation node_good := (node_good id_secure cfg).
  Notation accept_closest := (accept_closest Store id_secure cfg).
  Notation start_bucket := (start_bucket cfg).
  Notation s_nodes := (s_nodes Store).
  Notation s_now := (s_now Store).
  Notation SR := (SR Store).

  (* ---- the vocabulary, spelled out ---- *)
  Theorem C09_vocabulary v6 n m a target :
    family v6 n = (if v6 then match to4 (ip (n_addr n)) with Some _ => false | None => true end
                   else match to4 (ip (n_addr n)) with Some _ => true | None => false end) /\
    target_of m a = (if bytes_eqb (m_q m) s_get_peers then toN (a_info_hash a) else toN (a_target a)) /\
    start_bucket target = (if N.eqb target (c_root cfg) then 159%nat else bucket_index (c_root cfg) target).
  Proof. exact (conj eq_refl (conj eq_refl eq_refl)). Qed.

  (* ---- what an accepted list is, for ANY state satisfying the table invariant ---- *)
  Theorem C09_accept_closest_sound s v6 target obs :
    Inv s -> accept_closest s v6 target obs = true ->
    NoDup obs /\ (length obs <= reply_k)%nat /\
    (forall c, In c obs ->
       exists n, In n (s_nodes s) /\ c = wire_info v6 n /\ node_good (s_now s) n = true /\
                 n_lr n <> None /\ n_id n <> c_root cfg /\
                 (n_slot n <= start_bucket target)%nat /\ family v6 n = true) /\
    (forall n, In n (s_nodes s) -> node_good (s_now s) n = true -> family v6 n = true ->
               (n_slot n <= start_bucket target)%nat -> ~ In (wire_info v6 n) obs ->
       length obs = reply_k /\
       forall n', In n' (s_nodes s) -> In (wire_info v6 n') obs -> (n_slot n <= n_slot n')%nat).
  Proof. exact (ServerC09.accept_closest_sound Store id_secure cfg s v6 target obs). Qed.

  (* ---- what the handlers put into a reply, for ANY state, datagram and choice ---- *)
  Theorem C09_reply_lists s src size m ch s' out d rm k r :
    step s (EPacket src size (Some m)) ch = SR s' out -> In (ESend d rm k) out -> m_r rm = Some r ->
    d = src /\ k = SReply /\ m_y m = s_q /\
    ((r_nodes r = None /\ r_nodes6 r = None) \/
     exists a,
       m_a m = Some a /\ (m_q m = s_find_node \/ m_q m = s_get_peers \/ m_q m = s_get) /\
       (forall l, r_nodes r = Some l ->
          l <> [] /\ should_return_nodes (want_list a) (ip src) = true /\
          accept_closest s' false (target_of m a) l = true) /\
       (forall l, r_nodes6 r = Some l ->
          l <> [] /\ should_return_nodes6 (want_list a) (ip src) = true /\
          accept_closest s' true (target_of m a) l = true)).
  Proof. exact (ServerC09.C09_reply_lists Store w_put w_get sha1 id_secure cfg s src size m ch s' out d rm k r). Qed.

  (* the table and the clock the lists are checked against are those right after the sender's own
     table update (handleQuery calls updateNode first) *)
  Theorem C09_table_after_update s src size m ch s' out d rm k :
    step s (EPacket src size (Some m)) ch = SR s' out -> In (ESend d rm k) out ->
    exists s1 r,
      update_node s src (option_map id_of (sender_id m)) (negb (m_ro m)) UQuery (ch_victim ch)
        = Ok (sstate * add_result) (s1, r) /\
      s_nodes s' = s_nodes s1 /\ s_now s' = s_now s1 /\
      forall v6 target l, accept_closest s' v6 target l = accept_closest s1 v6 target l.
  Proof.
    intros H Hin.
    exact (match ServerC09.step_packet_sends Store w_put w_get sha1 id_secure cfg s src size m ch s' out d rm k H Hin
           with conj _ (conj _ (ex_intro _ s1 (ex_intro _ r (conj Hu (conj _ Hd))))) =>
             ex_intro _ s1 (ex_intro _ r
               (conj Hu
                  (match ServerC06.dispatch_frame Store w_put w_get sha1 id_secure cfg s1 src m ch s' out Hd
                   with conj Hn Ht =>
                     conj Hn (conj Ht (fun v6 target l =>
                       ServerC09.accept_closest_ext Store id_secure cfg s' s1 v6 target l Hn Ht))
                   end)))
           end).
  Qed.

  (* ---- BEP 32 gating ---- *)
  Theorem C09_want_gating ws src :
    should_return_nodes ws src =
      (match ws with [] => match to4 src with Some _ => true | None => false end
                   | _ => existsb (bytes_eqb s_n4) ws end) /\
    should_return_nodes6 ws src =
      (match ws with [] => match to4 src with Some _ => false | None => true end
                   | _ => existsb (bytes_eqb s_n6) ws end).
  Proof. exact (conj eq_refl eq_refl). Qed.

  (* ---- entry widths: 26 bytes for nodes, 38 for nodes6 ---- *)
  Theorem C09_gate_ipv4_26_bytes s target obs c :
    accept_closest s false target obs = true -> Inv s -> In c obs ->
    length (ni_id c) = 20%nat /\ length (na_ip (ni_addr c)) = 4%nat /\
    Z.of_nat (length (Compact.nodeinfo_marshal (Compact.info4_conv c))) = elem_CompactIPv4NodeInfo.
  Proof. exact (ServerC09.C09_gate_ipv4_26_bytes Store id_secure cfg s target obs c). Qed.

  Theorem C09_gate_ipv6_38_bytes s target obs c :
    accept_closest s true target obs = true -> Inv s -> In c obs ->
    length (ni_id c) = 20%nat /\ length (na_ip (ni_addr c)) = 16%nat /\
    Z.of_nat (length (Compact.nodeinfo_marshal (Compact.info6_conv c))) = elem_CompactIPv6NodeInfo.
  Proof. exact (ServerC09.C09_gate_ipv6_38_bytes Store id_secure cfg s target obs c). Qed.

  Theorem C09_families_disjoint s target l4 l6 c :
    Inv s -> accept_closest s false target l4 = true -> accept_closest s true target l6 = true ->
    In c l4 -> In c l6 -> False.
  Proof. exact (ServerC09.C09_families_disjoint Store id_secure cfg s target l4 l6 c). Qed.

  (* ---- end to end, for every state reachable by any history of well-formed events:
          whatever list a reply carries, it is wanted, non-empty, made of <= K distinct good
          contacts of the right family and width, nearest buckets first ---- *)
  Theorem C09_reply_contacts_reachable s src size m ch s' out d rm k r (v6 : bool) l :
    wf_cfg cfg -> reachable s -> wf_event (EPacket src size (Some m)) ->
    step s (EPacket src size (Some m)) ch = SR s' out -> In (ESend d rm k) out -> m_r rm = Some r ->
    (if v6 then r_nodes6 r else r_nodes r) = Some l ->
    exists a,
      m_a m = Some a /\ m_y m = s_q /\ (m_q m = s_find_node \/ m_q m = s_get_peers \/ m_q m = s_get) /\
      (if v6 then should_return_nodes6 (want_list a) (ip src)
       else should_return_nodes (want_list a) (ip src)) = true /\
      l <> [] /\
      (NoDup l /\ (length l <= reply_k)%nat /\
       (forall c, In c l ->
          exists n, In n (s_nodes s') /\ c = wire_info v6 n /\ node_good (s_now s') n = true /\
                    n_lr n <> None /\ n_id n <> c_root cfg /\
                    (n_slot n <= start_bucket (target_of m a))%nat /\ family v6 n = true) /\
       (forall n, In n (s_nodes s') -> node_good (s_now s') n = true -> family v6 n = true ->
                  (n_slot n <= start_bucket (target_of m a))%nat -> ~ In (wire_info v6 n) l ->
          length l = reply_k /\
          forall n', In n' (s_nodes s') -> In (wire_info v6 n') l -> (n_slot n <= n_slot n')%nat)) /\
      (forall c, In c l -> length (ni_id c) = 20%nat /\
                           length (na_ip (ni_addr c)) = (if v6 then 16%nat else 4%nat)).
  Proof.
    intros Hc Hr Hwf Hstep.
    exact (ServerC09.C09_reply_contacts Store w_put w_get sha1 id_secure cfg s src size m ch s' out d rm k r v6 l
             (inv_reachable Store w_put w_get sha1 id_secure cfg Hc s'
                (reach_step Store w_put w_get sha1 id_secure cfg s (EPacket src size (Some m)) ch s' out Hr Hwf Hstep))
             Hstep).
  Qed.

  Theorem C09_accept_closest_sound_reachable s v6 target obs :
    wf_cfg cfg -> reachable s -> accept_closest s v6 target obs = true ->
    NoDup obs /\ (length obs <= reply_k)%nat /\
    (forall c, In c obs ->
       exists n, In n (s_nodes s) /\ c = wire_info v6 n /\ node_good (s_now s) n = true /\
                 n_lr n <> None /\ n_id n <> c_root cfg /\
                 (n_slot n <= start_bucket target)%nat /\ family v6 n = true) /\
    (forall n, In n (s_nodes s) -> node_good (s_now s) n = true -> family v6 n = true ->
               (n_slot n <= start_bucket target)%nat -> ~ In (wire_info v6 n) obs ->
       length obs = reply_k /\
       forall n', In n' (s_nodes s) -> In (wire_info v6 n') obs -> (n_slot n <= n_slot n')%nat).
  Proof.
    intros Hc Hr.
    exact (ServerC09.accept_closest_sound Store id_secure cfg s v6 target obs
             (inv_reachable Store w_put w_get sha1 id_secure cfg Hc s Hr)).
  Qed.
End C09.

(* ---- non-vacuity: a concrete configuration and a populated table built by a history ---- *)
Definition Y_wput (st : unit) (_ : witem) (_ : Z) : unit * put_result := (st, PutOk).
Definition Y_wget (st : unit) (_ : bytes) (_ : Z) : unit * get_result := (st, GetNotFound).
Definition Y_sha1 (b : bytes) : bytes := b.
Definition Y_secure (_ : N) (_ : bytes) : bool := true.
Definition Y_cfg : config := mkCfg (2 ^ 159) false false false false (fun _ => true) false [].
Definition Y_step := step unit Y_wput Y_wget Y_sha1 Y_secure Y_cfg.
Definition Y_accept := accept_closest unit Y_secure Y_cfg.

Definition ip4 (d : N) : bytes := [byte_of_N 10; byte_of_N 0; byte_of_N 0; byte_of_N d].
Definition ip6 (d : N) : bytes := [byte_of_N 32; byte_of_N 1] ++ zero_bytes 13 ++ [byte_of_N d].
Definition A (d : N) : addr := mkAddr (ip4 d) (1000 + d).
Definition A6 (d : N) : addr := mkAddr (ip6 d) (1000 + d).
Definition far (i : N) : N := i.                        (* bucket 0 of the own id 2^159 *)
Definition near (i : N) : N := 2 ^ 159 + 2 ^ 158 + i.   (* bucket 1 *)
Definition Y_find_node (id target : N) (want : option (list bytes)) (t : bytes) : msg :=
  mkMsg s_find_node
    (Some (mkArgs (ofN 20 id) zero20 (ofN 20 target) [] None false want 0 0 None None 0 zero32 [] zero64))
    t s_q None None empty_na false [].
Definition resp (id : N) (t : bytes) : msg :=
  mkMsg [] None t s_r
        (Some (mkRet (ofN 20 id) None None None None None None None None None [] zero32 zero64 None))
        None empty_na false [].
(* this node queries a and gets the answer: the responder becomes a good entry *)
Definition ask (qid : N) (a : addr) (id : N) (t : byte) : list (event * choice) :=
  [ (EQueryStart qid a s_ping empty_args true [t], no_choice);
    (EPacket a 100 (Some (resp id [t])), no_choice) ].

(* good IPv4 entries in bucket 0 (far 1, far 2) and bucket 1 (near 1, near 2), a good IPv6 entry
   (far 6), and two entries that never answered (far 5, near 7); one minute later *)
Definition Y_hist : list (event * choice) :=
  ask 1 (A 1) (far 1) x00 ++ ask 2 (A 2) (far 2) x01 ++
  ask 3 (A 3) (near 1) x02 ++ ask 4 (A 4) (near 2) x03 ++
  ask 5 (A6 6) (far 6) x04 ++
  [ (EAddNode (ip4 5) 1005 (far 5), no_choice);
    (EAddNode (ip4 7) 1007 (near 7), no_choice);
    (EAdvance 60000000000, no_choice) ].

Definition Y_run :=
  run unit Y_wput Y_wget Y_sha1 Y_secure Y_cfg (init_state unit tt 1000 [] None) Y_hist.
Definition Y_S0 : sstate unit :=
  Eval vm_compute in match Y_run with Some (s, _) => s | None => init_state unit tt 0 [] None end.

Example C09_witness_wf_cfg : wf_cfg Y_cfg.
Proof. split; vm_compute; [reflexivity | repeat constructor]. Qed.

Example C09_witness_reachable : reachable unit Y_wput Y_wget Y_sha1 Y_secure Y_cfg Y_S0.
Proof.
  apply (run_reachable_b unit Y_wput Y_wget Y_sha1 Y_secure Y_cfg tt 1000%Z [] None Y_hist Y_S0
           (match Y_run with Some (_, o) => o | None => [] end)); vm_compute; reflexivity.
Qed.

Example C09_witness_inv : Inv unit Y_cfg Y_S0.
Proof. exact (inv_reachable unit Y_wput Y_wget Y_sha1 Y_secure Y_cfg C09_witness_wf_cfg Y_S0 C09_witness_reachable). Qed.

Example C09_witness_table :
  map (fun n => (n_slot n, node_good Y_secure Y_cfg (s_now unit Y_S0) n, family true n)) (s_nodes unit Y_S0) =
  [ (0, true, false); (0, true, false); (1, true, false); (1, true, false); (0, true, true);
    (0, false, false); (1, false, false) ]%nat.
Proof. vm_compute. reflexivity. Qed.

Definition W4 (d id : N) : node_info := mkNI (ofN 20 id) (mkNA (ip4 d) (Z.of_N (1000 + d))).
Definition W6 (d id : N) : node_info := mkNI (ofN 20 id) (mkNA (ip6 d) (Z.of_N (1000 + d))).
Definition Y_l4 : list node_info := [W4 4 (near 2); W4 3 (near 1); W4 1 (far 1); W4 2 (far 2)].
Definition Y_l6 : list node_info := [W6 6 (far 6)].

(* a target in bucket 1: the accepted list spans two buckets, the target's own bucket first (in
   either order), then bucket 0; leaving out a nearer good contact, putting the farther bucket
   first, or listing an entry that never answered is rejected; a target in bucket 0 starts there *)
Example C09_witness_accept :
  Y_accept Y_S0 false (near 9) Y_l4 = true /\
  Y_accept Y_S0 false (near 9) [W4 3 (near 1); W4 4 (near 2); W4 2 (far 2); W4 1 (far 1)] = true /\
  Y_accept Y_S0 false (near 9) [W4 4 (near 2); W4 1 (far 1); W4 2 (far 2)] = false /\
  Y_accept Y_S0 false (near 9) [W4 1 (far 1); W4 4 (near 2); W4 3 (near 1); W4 2 (far 2)] = false /\
  Y_accept Y_S0 false (near 9) (Y_l4 ++ [W4 5 (far 5)]) = false /\
  Y_accept Y_S0 false (near 9) (Y_l4 ++ [W6 6 (far 6)]) = false /\
  Y_accept Y_S0 true (near 9) Y_l6 = true /\
  Y_accept Y_S0 false (far 9) [W4 1 (far 1); W4 2 (far 2)] = true /\
  Y_accept Y_S0 false (far 9) Y_l4 = false.
Proof. vm_compute. repeat split. Qed.

(* the hypotheses of C09_accept_closest_sound hold for it: the theorem applies *)
Example C09_witness_sound_applies :
  NoDup Y_l4 /\ (length Y_l4 <= reply_k)%nat.
Proof.
  exact (match ServerC09.accept_closest_sound unit Y_secure Y_cfg Y_S0 false (near 9) Y_l4 C09_witness_inv
                 (proj1 C09_witness_accept)
         with conj H1 (conj H2 _) => conj H1 H2 end).
Qed.

(* a find_node datagram from an IPv4 source wanting n4 and n6: the step is accepted with exactly
   these lists, the reply goes to the asker and carries them *)
Definition Y_e := EPacket (A 9) 100 (Some (Y_find_node (far 9) (near 9) (Some [s_n4; s_n6]) ["T"%byte])).
Definition Y_ch := mkChoice None Y_l4 Y_l6 [].

Example C09_witness_reply :
  exists s' rm r,
    Y_step Y_S0 Y_e Y_ch = SR unit s' [ESend (A 9) rm SReply] /\ m_r rm = Some r /\
    m_t rm = ["T"%byte] /\ r_nodes r = Some Y_l4 /\ r_nodes6 r = Some Y_l6.
Proof. eexists. eexists. eexists. split; [vm_compute; reflexivity|]. repeat split. Qed.

(* without a want list an IPv4 source gets `nodes` only; offering nodes6 as well is not accepted *)
Example C09_witness_gating :
  (exists s' rm r,
     Y_step Y_S0 (EPacket (A 9) 100 (Some (Y_find_node (far 9) (near 9) None ["T"%byte])))
            (mkChoice None Y_l4 [] []) = SR unit s' [ESend (A 9) rm SReply] /\
     m_r rm = Some r /\ r_nodes r = Some Y_l4 /\ r_nodes6 r = None) /\
  Y_step Y_S0 (EPacket (A 9) 100 (Some (Y_find_node (far 9) (near 9) None ["T"%byte]))) Y_ch
    = SRBadChoice unit.
Proof.
  split; [|vm_compute; reflexivity].
  eexists. eexists. eexists. split; [vm_compute; reflexivity|]. repeat split.
Qed.

(* ---- pins: constants the property names, as found in /repo now ---- *)
Example C09_pin_k :
  reply_nodes_k = 8%Z /\ reply_nodes_k_ok = true /\ table_k = 8%Z /\ table_k_ok = true /\
  reply_k = 8%nat /\ K = 8%nat.
Proof. repeat split. Qed.
Example C09_pin_good_window :
  good_windows_ns = [900000000000; 900000000000]%Z /\ good_windows_ns_ok = true.
Proof. repeat split. Qed.
Example C09_pin_widths :
  elem_CompactIPv4NodeInfo = 26%Z /\ elem_CompactIPv4NodeInfo_ok = true /\
  elem_CompactIPv6NodeInfo = 38%Z /\ elem_CompactIPv6NodeInfo_ok = true.
Proof. repeat split. Qed.

Print Assumptions C09_accept_closest_sound.
Print Assumptions C09_reply_lists.
Print Assumptions C09_table_after_update.
Print Assumptions C09_gate_ipv4_26_bytes.
Print Assumptions C09_gate_ipv6_38_bytes.
Print Assumptions C09_families_disjoint.
Print Assumptions C09_reply_contacts_reachable.
Print Assumptions C09_accept_closest_sound_reachable.
Print Assumptions C09_witness_inv.
Print Assumptions C09_witness_sound_applies.
