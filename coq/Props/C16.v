(* C16 — announce hands each node back its own token, and always finishes.
   Statements only; every proof is `exact <lemma>` from proofs/LookupsProofs.v.

   Model: Lookups.v with lc_api = AAnnounce.  Quantification: every schedule of the owner goroutine, the
   traversal's DoQuery bodies (getPeers), the Peers consumer (which may stop reading at any point), Close /
   StopTraversing at any point; every result of every get_peers query (reply with / without token, with /
   without "r", no reply at all) at every point; every option combination (lc_ann: None = no announce,
   Some (port, implied) incl. port 0 without implied = "no port specified"); any K-nearest container
   [push] that only keeps what it was given (instantiated by the executable lk_push below, and true of
   Order.kn_push).  Scrape only changes the get_peers arguments and is not visible at this level.

   What "sent" means: [l_sends] lists the announce_peer QUERIES ISSUED (Server.announcePeer calls that got
   as far as Server.Query) with the arguments they carry; whether the datagram of such a query leaves is
   C14's business (it does unless the server is closed, the write fails or Close() cancelled it first:
   [sr_sent]).  The lookups engine compares the datagrams. *)
From Dht Require Import Base Bep44 Lookups LookupsProofs.
From DhtGen Require Import Params.

Section Announce.
  Variable sha1 : bytes -> bytes.
  Variable ed_verify : bytes -> bytes -> bytes -> bool.
  Variable node_ok : addr -> N -> bool.
  Variable push : list elem -> elem -> list elem.
  Hypothesis push_incl : forall l e x, In x (push l e) -> x = e \/ In x l.
  Hypothesis push_len : forall l e, length (push l e) <= S (length l).
  Variable c : lcfg.

  Notation reachable := (reachable sha1 ed_verify node_ok push c).
  Notation exec := (exec sha1 ed_verify node_ok push c).
  Notation path_ok := (path_ok sha1 ed_verify node_ok push c).

  (* every announce_peer issued goes to a member e of the FINAL closest set (the traversal is Stopped, the
     set the owner read is the set as it is), carries e's own data as token -- the token that very address
     returned, with this id, in a get_peers reply of THIS traversal --, the announced infohash, and the
     configured port / implied_port *)
  Theorem C16_tokens s sr :
    reachable s -> is_announce c = true -> In sr (l_sends s) ->
    l_stopped s = true /\ l_final s = l_closest s /\
    exists e, In e (l_closest s) /\
      sr_dest sr = e_addr e /\ sr_token sr = e_data e /\ sr_ih sr = lc_target c /\
      lc_ann c = Some (sr_port sr, sr_implied sr) /\
      exists q r, In (q, sr_dest sr, r) (l_log s) /\ gr_has_r r = true /\ gr_id r = e_id e /\
                  gr_token r = Some (sr_token sr).
  Proof. exact (announce_tokens sha1 ed_verify node_ok push push_incl c s sr). Qed.

  (* announcing enabled and the announce finished: every member of the final closest set gets exactly one
     announce_peer (the list of issued queries IS the closest set, element by element); announcing not
     enabled (no options, or port 0 without implied_port): none at all *)
  Theorem C16_all_closest s :
    reachable s -> is_announce c = true -> l_handle s = true -> owner_done s = true ->
    l_final s = l_closest s /\ l_stopped s = true /\
    map strip (l_sends s) = flat_map (keys_of c) (l_closest s) /\
    (forall port imp, lc_ann c = Some (port, imp) -> (Z.eqb port 0 && negb imp) = false ->
       map strip (l_sends s) = map (fun e => (e_addr e, e_data e, lc_target c, port, imp)) (l_closest s)) /\
    (announcing c = false -> l_sends s = []).
  Proof. exact (announce_all_closest sha1 ed_verify node_ok push push_incl c s). Qed.

  (* the Peers channel: what the consumer got is a get_peers response of this traversal with the
     responder's address and id; no response is delivered twice; a response not yet delivered is on its
     way (its getPeers is blocked in the send) -- or, only with the D10 repair and only once the announce
     has been CLOSED, was given up (StopTraversing alone never drops a response); once the traversal is
     Stopped every response has been delivered, unless the announce was closed *)
  Theorem C16_delivery s :
    reachable s -> is_announce c = true ->
    (forall q a i p, In (q, a, i, p) (l_delivered s) ->
       exists r, In (q, a, r) (l_log s) /\ gr_has_r r = true /\ i = gr_id r /\ p = gr_payload r) /\
    NoDup (del_ids s) /\
    (forall q a r, In (q, a, r) (l_log s) -> gr_has_r r = true ->
       (exists x, In x (l_inflight s) /\ tq_id x = q /\ tq_phase x = PDeliver) \/
       In (q, a, gr_id r, gr_payload r) (l_delivered s) \/ In q (l_abandoned s)) /\
    (l_abandoned s <> [] -> lc_abandon_closed c = true /\ l_aclosed s = true) /\
    (l_stopped s = true -> forall q a r, In (q, a, r) (l_log s) -> gr_has_r r = true ->
       In (q, a, gr_id r, gr_payload r) (l_delivered s) \/ (In q (l_abandoned s) /\ l_aclosed s = true)).
  Proof. exact (announce_delivery sha1 ed_verify node_ok push c s). Qed.

  (* closing: never a send on the closed channel (no panic, and no delivery is even enabled once closed);
     closed only by the owner's last step, after Stopped and after every announce_peer was issued;
     an announce whose owner has finished has closed it *)
  Theorem C16_close s :
    reachable s -> is_announce c = true ->
    l_panic s = false /\
    (l_peers_closed s = true ->
       owner_done s = true /\ l_stopped s = true /\ l_inflight s = [] /\ l_todo s = [] /\
       (forall q, enabled c s (QDeliver q) = false)) /\
    (l_handle s = true -> owner_done s = true -> l_peers_closed s = true).
  Proof. exact (announce_close sha1 ed_verify node_ok push c s). Qed.

  (* "always finishes": while the consumer keeps reading -- after StopTraversing too -- and, with the D10
     repair, after Close() whatever the consumer does: some finite sequence of internal events closes the
     channel and ends every process, from EVERY reachable state; and (C14_lookup_measure) no run is
     infinite and (C14_lookup_progress) none gets stuck before *)
  Theorem C16_finishes s :
    reachable s -> is_announce c = true -> l_handle s = true ->
    (l_reads s = true \/ (lc_abandon_closed c = true /\ l_aclosed s = true)) ->
    exists ls, forallb internal ls = true /\ path_ok s ls = true /\ length ls <= lmu s /\
               l_peers_closed (exec s ls) = true /\ all_done (exec s ls) = true.
  Proof. exact (announce_finishes sha1 ed_verify node_ok push push_incl push_len c s). Qed.

  (* A consumer that has stopped reading while a response is waiting to be delivered:
     - announce.go as found (lc_abandon_closed = false), FINDING D10: NO schedule -- Close() included -- ever
       closes the channel or lets the announce finish: the delivery waits for Stopped(), and Stopped()
       waits for that delivery;
     - repaired: the same holds for every schedule WITHOUT Close().  That is the contract, not a defect:
       StopTraversing alone keeps the obligation to deliver and the consumer's duty to keep reading;
       Close() releases both (C16_finishes). *)
  Theorem C16_close_nonreading_blocks ls s :
    reachable s -> blocked_state c s ->
    (lc_abandon_closed c = false \/ forallb (fun l => negb (is_close l)) ls = true) ->
    l_peers_closed (exec s ls) = false /\ owner_done (exec s ls) = false /\ blocked_state c (exec s ls).
  Proof. exact (blocked_forever sha1 ed_verify node_ok push c ls s). Qed.
End Announce.

(* ---- the executable container satisfies what the theorems ask of [push] ---- *)
Theorem C16_container_ok t k :
  (forall l e x, In x (lk_push t k l e) -> x = e \/ In x l) /\
  (forall l e, length (lk_push t k l e) <= S (length l)).
Proof. exact (conj (lk_push_incl t k) (lk_push_len t k)). Qed.

(* ---- findings and non-vacuity ---- *)
Definition C16_sha (b : bytes) : bytes := b.
Definition C16_ver (k m s : bytes) : bool := true.
Definition C16_ok (a : addr) (i : N) : bool := true.
Definition C16_push := lk_push 7%N 2.                         (* target 7, K = 2 *)
Definition C16_item0 : Bep44.reply := mkReply [] (zero_bytes 32) (zero_bytes 64) None.
Definition C16_rep (id : N) (tok : option bytes) : option greply := Some (mkGR true id tok [x70] C16_item0).
Definition C16_cfg (ab : bool) (ann : option (Z * bool)) : lcfg := mkLC AAnnounce Pinned ab SNOk 5 7%N ann [] [].

(* three responders with distinct tokens and one without; K = 2: the two closest to 7 (ids 6 and 5) are
   announced to, each with its own token; all four responses are delivered once *)
Definition C16_sched : list label :=
  [OStartTrav; OGetNodes; TIssue 101%N; TIssue 102%N; TIssue 103%N; TIssue 104%N;
   QReturn 0 (C16_rep 6%N (Some [x61])); QReturn 1 (C16_rep 5%N (Some [x62])); QReturn 2 (C16_rep 1%N (Some [x63]));
   QReturn 3 (C16_rep 4%N None);
   QDeliver 1; QDeliver 0; QDeliver 3; QDeliver 2; QFinish 0; QFinish 1; QFinish 2; QFinish 3;
   OStalled; OStopStep; TLoopExit; TStopWait; OStoppedStep; OSend true; OSend true; OSendsDone; OCloseP].

Example C16_nonvacuous :
  let s := run C16_sha C16_ver C16_ok C16_push (C16_cfg false (Some (6881%Z, false))) C16_sched in
  map strip (l_sends s) = [(101%N, [x61], 7%N, 6881%Z, false); (102%N, [x62], 7%N, 6881%Z, false)] /\
  map e_id (l_closest s) = [6%N; 5%N] /\
  map (fun d => fst (fst (fst d))) (l_delivered s) = [1; 0; 3; 2] /\
  (l_peers_closed s, all_done s, l_panic s) = (true, true, false) /\
  (* no announce options, or port 0 without implied port: nothing is announced, the channel is closed all the same *)
  (let s0 := run C16_sha C16_ver C16_ok C16_push (C16_cfg false None)
               (firstn 23 C16_sched ++ [OCloseP]) in (l_sends s0, l_peers_closed s0) = ([], true)) /\
  (let s1 := run C16_sha C16_ver C16_ok C16_push (C16_cfg false (Some (0%Z, false))) C16_sched in
   (l_sends s1, l_peers_closed s1) = ([], true)).
Proof. vm_compute. repeat split. Qed.

(* D10 witness: consumer stops, a response is waiting, Close(), the run loop exits, the announce goroutine calls Stop
   and waits for Stopped: on the tree as found a blocked state in which no internal event at all is enabled
   (C16_close_nonreading_blocks then says: for ever).  With the repair (a.closed.Done() instead of Stopped())
   the same schedule goes on: the delivery is given up and the channel gets closed. *)
Definition C16_d10_sched : list label :=
  [OStartTrav; OGetNodes; TIssue 101%N; EConsumerStop; QReturn 0 (C16_rep 6%N (Some [x61])); EClose; TLoopExit; OStalled; OStopStep].

Theorem C16_close_refuted_nonreading :
  let c := C16_cfg false None in
  let s := run C16_sha C16_ver C16_ok C16_push c C16_d10_sched in
  blocked_state c s /\ l_aclosed s = true /\
  (forall l, internal l = true -> enabled c s l = false) /\
  let c' := C16_cfg true None in
  let s' := run C16_sha C16_ver C16_ok C16_push c'
              (C16_d10_sched ++ [QAbandon 0; QFinish 0; TStopWait; OStoppedStep; OCloseP]) in
  (l_peers_closed s', all_done s', l_abandoned s') = (true, true, [0]).
Proof.
  cbv zeta. split; [|split; [vm_compute; reflexivity|split]].
  - unfold blocked_state. vm_compute. repeat split; try (left; reflexivity).
    eexists. split; [left; reflexivity|reflexivity].
  - intros l Il. destruct l as [| | | | | |sent| | |a| | |q r|q|q|q| | | | ]; try discriminate Il; try (vm_compute; reflexivity).
    + destruct q as [|q]; vm_compute; reflexivity.
    + destruct q as [|q]; vm_compute; reflexivity.
    + destruct q as [|q]; vm_compute; reflexivity.
    + destruct q as [|q]; vm_compute; reflexivity.
  - vm_compute. reflexivity.
Qed.

(* the repaired contract: StopTraversing with a consumer that stopped reading waits (no internal event is
   enabled, the response is neither delivered nor dropped); reading again delivers it -- exactly once -- and
   the announce finishes with the channel closed; Close() instead would have released it as well *)
Example C16_stoptraversing_keeps_delivery :
  let c := C16_cfg true None in
  let wait := [OStartTrav; OGetNodes; TIssue 101%N; EConsumerStop; QReturn 0 (C16_rep 6%N (Some [x61])); EStopTrav;
               TLoopExit; OStalled; OStopStep] in
  let s := run C16_sha C16_ver C16_ok C16_push c wait in
  forallb (fun l => negb (enabled c s l)) [QDeliver 0; QAbandon 0; QFinish 0; TStopWait; OStoppedStep; OCloseP] = true /\
  (l_delivered s, l_abandoned s, l_peers_closed s) = ([], [], false) /\
  (* the same schedule with a consumer that keeps reading *)
  (let s1 := run C16_sha C16_ver C16_ok C16_push c
               [OStartTrav; OGetNodes; TIssue 101%N; QReturn 0 (C16_rep 6%N (Some [x61])); EStopTrav; TLoopExit; OStalled; OStopStep;
                QDeliver 0; QFinish 0; TStopWait; OStoppedStep; OCloseP] in
   (length (l_delivered s1), l_abandoned s1, l_peers_closed s1, all_done s1) = (1, [], true, true)) /\
  (* or Close() *)
  (let s2 := exec C16_sha C16_ver C16_ok C16_push c s [EClose; QAbandon 0; QFinish 0; TStopWait; OStoppedStep; OCloseP] in
   (l_delivered s2, l_abandoned s2, l_peers_closed s2, all_done s2) = ([], [0], true, true)).
Proof. vm_compute. repeat split. Qed.

(* ---- pins ---- *)
Example C16_pin_traversal_defaults :
  traversal_default_alpha = 3%Z /\ traversal_default_alpha_ok = true /\
  traversal_default_k = 8%Z /\ traversal_default_k_ok = true /\
  default_max_sends = 1%Z /\ default_max_sends_ok = true.
Proof. repeat split. Qed.

Print Assumptions C16_tokens.
Print Assumptions C16_all_closest.
Print Assumptions C16_delivery.
Print Assumptions C16_close.
Print Assumptions C16_finishes.
Print Assumptions C16_close_nonreading_blocks.
Print Assumptions C16_container_ok.
Print Assumptions C16_close_refuted_nonreading.

(* The runner's accounting of announce_peer / put datagrams as they leave (harness line `lksent`, cases of
   lookups_limiter.go): an accepted sequence of observed datagrams is a sub-multiset of the sends the model expects
   (what is left over was cancelled by Close / ctx), and every sub-multiset, in any order, is accepted - so a second
   datagram to one node, a foreign token or a node outside the closest set is rejected exactly when it is wrong. *)
From Dht Require Import RunLookupsSends RunLookupsSendsProofs.
From Coq Require Import Permutation.
Theorem C16_sends_accounting_sound obs expected rest :
  rls_take_all obs expected = Some rest -> Permutation expected (obs ++ rest).
Proof. exact (rls_take_all_sound obs expected rest). Qed.
Theorem C16_sends_accounting_complete obs expected rest :
  Permutation expected (obs ++ rest) -> exists rest', rls_take_all obs expected = Some rest' /\ Permutation rest' rest.
Proof. exact (rls_take_all_complete obs expected rest). Qed.
Print Assumptions C16_sends_accounting_sound.
Print Assumptions C16_sends_accounting_complete.
