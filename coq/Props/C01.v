(* C01 — no inbound datagram (nor any other event) can crash or silence the node.
   This file holds statements only; every proof is `exact <lemma>` from proofs/ServerInv*.v.
   The model is coq/model/Server.v: one [step] = one section of code run under Server.mu; every
   panic of that code (table.addNode / dropNode error returns, net.IP.To16 of a malformed address in
   the token code, MustMarshal(nil), transactions.Dispatcher.Add on a duplicate key) is the explicit
   outcome [SRPanic].  A datagram is [EPacket src size dec]: [dec = None] for anything the bencode
   decoder rejects, [Some m] with any subset of fields otherwise (the decoder itself is C15/C16). *)
From Dht Require Import Base Int160 Msg Server ServerDefs ServerInv ServerInv2 ServerExamples.
From DhtGen Require Import Params.

Section C01.
  Variable Store : Type.
  Variable w_put : Store -> witem -> Z -> Store * put_result.
  Variable w_get : Store -> bytes -> Z -> Store * get_result.
  Variable sha1 : bytes -> bytes.
  Variable id_secure : N -> bytes -> bool.
  Variable cfg : config.

  Notation step := (step Store w_put w_get sha1 id_secure cfg).
  Notation run := (run Store w_put w_get sha1 id_secure cfg).
  Notation reachable := (reachable Store w_put w_get sha1 id_secure cfg).

  (* ---- no event, decoded message or choice of the implementation leads to the panic outcome,
          from any reachable state, in every configuration ---- *)
  Theorem C01_total s e :
    wf_cfg cfg -> wf_store_get Store w_get -> reachable s -> wf_event e ->
    forall ch, step s e ch <> SRPanic Store.
  Proof. exact (ServerInv2.C01_total Store w_put w_get sha1 id_secure cfg s e). Qed.

  (* the same from any state satisfying the two invariants *)
  Theorem C01_total_inv s e ch :
    wf_cfg cfg -> wf_store_get Store w_get -> Inv Store cfg s -> TxInv Store s -> wf_event e ->
    step s e ch <> SRPanic Store.
  Proof. exact (step_ok Store w_put w_get sha1 id_secure cfg s e ch). Qed.

  (* the query handlers alone: no state at all is needed beyond a socket-level source address *)
  Theorem C01_handlers_total s src m ch :
    wf_addr src -> wf_store_get Store w_get ->
    dispatch Store w_put w_get sha1 id_secure cfg s src m ch <> HQPanic Store.
  Proof. exact (dispatch_ok Store w_put w_get sha1 id_secure cfg s src m ch). Qed.

  (* ---- histories: every state a run of well-formed events passes through is reachable, hence the
          two theorems above and below apply after any finite sequence of datagrams ---- *)
  Theorem C01_run_reachable evs s s' outs :
    reachable s -> Forall (fun ec => wf_event (fst ec)) evs -> run s evs = Some (s', outs) ->
    reachable s'.
  Proof. exact (ServerInv2.C01_run_reachable Store w_put w_get sha1 id_secure cfg evs s s' outs). Qed.

  (* ---- the node still serves: a well-formed ping from an address that is not blocked is answered
          with exactly one reply to that address, whatever the table looks like and whatever the
          sender's id is; and the step is possible (some choice is accepted) ---- *)
  Theorem C01_still_serves s a size ping :
    wf_cfg cfg -> Inv Store cfg s ->
    s_closed Store s = false -> c_passive cfg = false -> c_hook cfg ping = true ->
    blocked (s_blocklist Store s) (ip a) = false -> port a <> 0%N -> wf_addr a ->
    s_budget Store s <> Some 0%N -> size <> Z.to_N udp_buf ->
    m_y ping = s_q /\ m_q ping = s_ping ->
    (forall ch s' out, step s (EPacket a size (Some ping)) ch = SR Store s' out ->
       out = [ESend a (reply_msg cfg a (m_t ping) empty_return) SReply]) /\
    (exists ch s' out, step s (EPacket a size (Some ping)) ch = SR Store s' out).
  Proof. exact (ServerInv2.C01_still_serves Store w_put w_get sha1 id_secure cfg s a size ping). Qed.

  Theorem C01_still_serves_reachable s a size ping :
    wf_cfg cfg -> reachable s ->
    s_closed Store s = false -> c_passive cfg = false -> c_hook cfg ping = true ->
    blocked (s_blocklist Store s) (ip a) = false -> port a <> 0%N -> wf_addr a ->
    s_budget Store s = None -> size <> Z.to_N udp_buf ->
    m_y ping = s_q /\ m_q ping = s_ping ->
    (forall ch s' out, step s (EPacket a size (Some ping)) ch = SR Store s' out ->
       exists r, out = [ESend a (reply_msg cfg a (m_t ping) r) SReply]) /\
    (exists ch s' out, step s (EPacket a size (Some ping)) ch = SR Store s' out).
  Proof. exact (ServerInv2.C01_still_serves_reachable Store w_put w_get sha1 id_secure cfg s a size ping). Qed.
End C01.

(* ---- non-vacuity: the hypotheses hold for a concrete configuration and a reachable state with a
        populated table and queries in flight (ServerExamples.v); there the announce_peer datagram
        without an `a` dictionary (the 34-byte crash of the property text, repaired defect D1) is
        answered with error 203, and a ping from a fresh address is answered ---- *)
Example C01_nonvacuous :
  wf_cfg cfg0 /\ wf_store_get unit wg0 /\ reachable unit wp0 wg0 sha0 sec0 cfg0 s0 /\
  wf_event (EPacket (mkAddr ip4 99) 34 (Some bad_announce)) /\
  match step0 s0 (EPacket (mkAddr ip4 99) 34 (Some bad_announce)) no_choice with
  | SR _ _ [ESend d m SError] => Some (d, option_map e_code (m_e m), m_t m)
  | _ => None
  end = Some (mkAddr ip4 99, Some 203%Z, [x61]) /\
  (s_closed unit s0 = false /\ c_passive cfg0 = false /\ c_hook cfg0 ping0 = true /\
   blocked (s_blocklist unit s0) ip4 = false /\ s_budget unit s0 = None /\
   m_y ping0 = s_q /\ m_q ping0 = s_ping) /\
  match step0 s0 (EPacket (mkAddr ip4 99) 100 (Some ping0)) no_choice with
  | SR _ _ out => out
  | _ => []
  end = [ESend (mkAddr ip4 99) (reply_msg cfg0 (mkAddr ip4 99) [x61; x61] empty_return) SReply].
Proof.
  split; [exact cfg0_wf|]. split; [exact wg0_wf|]. split; [exact s0_reachable|].
  split; [split; [left; reflexivity|split; intros ? H; inversion H]|].
  vm_compute. repeat split.
Qed.

(* ---- pins ---- *)
Example C01_pin_udp_buf : udp_buf = 65536%Z /\ udp_buf_ok = true.
Proof. repeat split. Qed.

Example C01_pin_missing_args : err_value_missing_arguments = 203%Z /\ err_value_missing_arguments_ok = true.
Proof. repeat split. Qed.

(* ================================================================================================
   The same over RAW DATAGRAMS: the codec model (C15: model/Krpc.v) composed with the server model.
   proofs/ServerBytes.v defines what processPacket does before it takes the lock:
     pre_check b      = len(b) >= 2 && b[0] == 'd'
     decoded b        = Some m  when pre_check b and bencode.Unmarshal(b, &msg) returns nil or
                                ErrUnusedTrailingBytes (decode_msg_fixed b = DOk m / DOkTrailing m n),
                        None    otherwise (the datagram is dropped)
     packet_of_bytes src b = EPacket src (len b) (decoded b)
   The hypothesis `wf_event` of C01_total (ids of 20 bytes in whatever was decoded) is no longer an
   assumption about the decoder: it is proved of the decoder, for every byte string of any length.
   ================================================================================================ *)
From Dht Require Import Krpc ServerBytes.

Section C01Bytes.
  Variable Store : Type.
  Variable w_put : Store -> witem -> Z -> Store * put_result.
  Variable w_get : Store -> bytes -> Z -> Store * get_result.
  Variable sha1 : bytes -> bytes.
  Variable id_secure : N -> bytes -> bool.
  Variable cfg : config.

  Notation step := (step Store w_put w_get sha1 id_secure cfg).
  Notation run := (run Store w_put w_get sha1 id_secure cfg).
  Notation run_trace := (run_trace Store w_put w_get sha1 id_secure cfg).
  Notation reachable := (reachable Store w_put w_get sha1 id_secure cfg).

  (* the pre-check is the one of the source; the decoder's output is well-formed; so every datagram
     from an address the socket can report is a well-formed event *)
  Theorem C01_pre_check_spec b :
    pre_check b = true <-> (2 <= List.length b)%nat /\ nth_error b 0 = Some "d"%byte.
  Proof. exact (pre_check_spec b). Qed.

  Theorem C01_decoded_wf b m :
    decode_msg_fixed b = DOk m \/ (exists n, decode_msg_fixed b = DOkTrailing m n) -> wf_msg_in m.
  Proof. exact (decoded_wf_msg_in b m). Qed.

  Theorem C01_datagram_wf src b : wf_addr src -> wf_event (packet_of_bytes src b).
  Proof. exact (packet_of_bytes_wf src b). Qed.

  (* ---- no datagram content whatsoever — arbitrary bytes, truncated or malformed bencode, any
          subset of fields, any length — reaches the panic outcome, from any reachable state, in
          every configuration, whatever the implementation chooses where Go leaves it open ---- *)
  Theorem C01_total_bytes s src :
    wf_cfg cfg -> wf_store_get Store w_get -> reachable s -> wf_addr src ->
    forall (b : bytes) ch, step s (packet_of_bytes src b) ch <> SRPanic Store.
  Proof. exact (ServerBytes.C01_total_bytes Store w_put w_get sha1 id_secure cfg s src). Qed.

  (* ---- histories of datagrams.  [run_trace] is [run] together with the reason it stopped: the
          state after the longest prefix whose steps were all accepted, that prefix's outputs, and the
          result of the first step that was not accepted (None when all were).
          (1) every state reached after an accepted prefix is reachable (so C01_total_bytes applies
              to it again);
          (2) the run goes through, or stops at a choice the model rejects — `stop` being exactly the
              result of the step at that datagram — and never at a panic; in particular
              `run = None` happens only because of a rejected choice. ---- *)
  Theorem C01_history_bytes s (dgs : list datagram) :
    wf_cfg cfg -> wf_store_get Store w_get -> reachable s -> Forall wf_datagram dgs ->
    (forall k s1 outs1, run s (firstn k (dg_events dgs)) = Some (s1, outs1) -> reachable s1) /\
    (exists s1 outs1 stop,
       run_trace s (dg_events dgs) = (s1, outs1, stop) /\ reachable s1 /\
       run s (firstn (List.length outs1) (dg_events dgs)) = Some (s1, outs1) /\
       (stop = None \/ stop = Some (SRBadChoice Store)) /\ stop <> Some (SRPanic Store) /\
       (stop = None <-> run s (dg_events dgs) = Some (s1, outs1)) /\
       (stop = Some (SRBadChoice Store) <-> run s (dg_events dgs) = None) /\
       (forall r, stop = Some r ->
          exists src b ch, nth_error dgs (List.length outs1) = Some (src, b, ch) /\
                           step s1 (packet_of_bytes src b) ch = r)).
  Proof. exact (ServerBytes.C01_history_bytes Store w_put w_get sha1 id_secure cfg s dgs). Qed.

  (* what [run_trace] computes, for any list of events *)
  Theorem C01_run_trace_spec evs s s1 outs1 stop :
    run_trace s evs = (s1, outs1, stop) ->
    run s (firstn (List.length outs1) evs) = Some (s1, outs1) /\
    match stop with
    | None => List.length outs1 = List.length evs /\ run s evs = Some (s1, outs1)
    | Some r => (exists e ch, nth_error evs (List.length outs1) = Some (e, ch) /\ step s1 e ch = r) /\
                (forall s' o, r <> SR Store s' o) /\ run s evs = None
    end.
  Proof. exact (run_trace_spec Store w_put w_get sha1 id_secure cfg evs s s1 outs1 stop). Qed.

  (* datagrams interleaved with every other kind of well-formed event (AddNode, clock, query start
     and end, failed ping, blocklist update, Close) *)
  Theorem C01_history_mixed s (ins : list (input * choice)) :
    wf_cfg cfg -> wf_store_get Store w_get -> reachable s -> Forall (fun ic => wf_input (fst ic)) ins ->
    (forall k s1 outs1, run s (firstn k (in_events ins)) = Some (s1, outs1) -> reachable s1) /\
    (forall s1 outs1 stop, run_trace s (in_events ins) = (s1, outs1, stop) ->
       reachable s1 /\ (stop = None \/ stop = Some (SRBadChoice Store)) /\
       (stop = Some (SRBadChoice Store) <-> run s (in_events ins) = None)).
  Proof. exact (ServerBytes.C01_history_mixed Store w_put w_get sha1 id_secure cfg s ins). Qed.

  (* ---- a datagram that fills the whole read buffer, or comes from port 0, leaves the state
          unchanged and produces nothing, whatever its content, in ANY state ---- *)
  Theorem C01_oversize_and_port0_bytes s src (b : bytes) ch :
    N.of_nat (List.length b) = Z.to_N udp_buf \/ port src = 0%N ->
    step s (packet_of_bytes src b) ch = SR Store s [].
  Proof. exact (ServerBytes.C01_oversize_and_port0_bytes Store w_put w_get sha1 id_secure cfg s src b ch). Qed.
End C01Bytes.

(* ---- non-vacuity on concrete datagrams, computed by the kernel (parameters of ServerExamples.v,
        state s0: populated table, two queries in flight) ---- *)
Import String.
Definition C01_src : addr := mkAddr ip4 99.
(* the 34-byte crash datagram of the property text (defect D1, repaired in the model) *)
Definition C01_dg_announce : bytes := ascii_bytes "d1:q13:announce_peer1:t2:aa1:y1:qe".
Definition C01_dg_ping_trailing : bytes := ascii_bytes "d1:q4:ping1:t2:aa1:y1:qeXYZ".
Definition C01_dg_list : bytes := ascii_bytes "li1ee".
(* decodes (singleton-list coercion of the bencode library) but is not a dictionary: pre-check *)
Definition C01_dg_listed_ping : bytes := ascii_bytes "ld1:q4:ping1:t2:aa1:y1:qee".
Definition C01_dg_truncated : bytes := ascii_bytes "d1:q4:ping1:t2:aa1:y1:q".
Definition C01_dg_garbage : bytes := [xff; x00; x64; x31].
(* 65536 bytes beginning with a valid query; one byte less is answered *)
Definition C01_dg_oversize : bytes := (C01_dg_announce ++ repeat x00 (N.to_nat 65502))%list.
Definition C01_dg_maxsize : bytes := (C01_dg_announce ++ repeat x00 (N.to_nat 65501))%list.

Definition C01_answer (r : step_result unit) : option (addr * send_kind * option Z * bytes) :=
  match r with
  | Server.SR _ _ [ESend d m k] => Some (d, k, option_map e_code (m_e m), m_t m)
  | _ => None
  end.

Example C01_bytes_announce_answered_203 :
  List.length C01_dg_announce = 34%nat /\ wf_datagram (C01_src, C01_dg_announce, no_choice) /\
  decode_msg_fixed C01_dg_announce = DOk (mkMsg s_announce_peer None (ascii_bytes "aa") s_q None None empty_na false []) /\
  C01_answer (step0 s0 (packet_of_bytes C01_src C01_dg_announce) no_choice)
  = Some (C01_src, SError, Some 203%Z, ascii_bytes "aa").
Proof. split; [reflexivity|]. split; [left; reflexivity|]. vm_compute. split; reflexivity. Qed.

Example C01_bytes_trailing_used :
  decode_msg_fixed C01_dg_ping_trailing
  = DOkTrailing (mkMsg s_ping None (ascii_bytes "aa") s_q None None empty_na false []) 3 /\
  match step0 s0 (packet_of_bytes C01_src C01_dg_ping_trailing) no_choice with
  | Server.SR _ _ out => out
  | _ => []
  end = [ESend C01_src (reply_msg cfg0 C01_src (ascii_bytes "aa") empty_return) SReply].
Proof. vm_compute. split; reflexivity. Qed.

Example C01_bytes_dropped :
  (pre_check C01_dg_list = false /\ decoded C01_dg_list = None) /\
  (pre_check C01_dg_listed_ping = false /\ (exists m, decode_msg_fixed C01_dg_listed_ping = DOk m) /\
   decoded C01_dg_listed_ping = None) /\
  (pre_check C01_dg_truncated = true /\ decode_msg_fixed C01_dg_truncated = DReject) /\
  decoded C01_dg_garbage = None /\ decoded [] = None /\
  forallb (fun b => match step0 s0 (packet_of_bytes C01_src b) no_choice with
                    | Server.SR _ s' [] => true      (* and s' = s0: next conjunct *)
                    | _ => false
                    end)
          [C01_dg_list; C01_dg_listed_ping; C01_dg_truncated; C01_dg_garbage; []] = true /\
  step0 s0 (packet_of_bytes C01_src C01_dg_list) no_choice = SR unit s0 [] /\
  step0 s0 (packet_of_bytes C01_src C01_dg_truncated) no_choice = SR unit s0 [].
Proof. vm_compute. repeat split; try reflexivity. eexists; reflexivity. Qed.

Example C01_bytes_oversize_port0 :
  N.of_nat (List.length C01_dg_oversize) = Z.to_N udp_buf /\
  step0 s0 (packet_of_bytes C01_src C01_dg_oversize) no_choice = SR unit s0 [] /\
  step0 s0 (packet_of_bytes (mkAddr ip4 0) C01_dg_announce) no_choice = SR unit s0 [] /\
  C01_answer (step0 s0 (packet_of_bytes C01_src C01_dg_maxsize) no_choice)
  = Some (C01_src, SError, Some 203%Z, ascii_bytes "aa").
Proof. vm_compute. repeat split; reflexivity. Qed.

(* a history: the six datagrams in a row from s0 — two answered, four dropped, none stops the run *)
Example C01_bytes_history :
  let dgs := map (fun b => (C01_src, b, no_choice))
                 [C01_dg_announce; C01_dg_list; C01_dg_ping_trailing; C01_dg_truncated; C01_dg_garbage; C01_dg_oversize] in
  Forall wf_datagram dgs /\
  match run_trace unit wp0 wg0 sha0 sec0 cfg0 s0 (dg_events dgs) with
  | (_, outs, stop) => (map (@List.length effect) outs, stop)
  end = ([1; 0; 1; 0; 0; 0]%nat, None).
Proof.
  split.
  - cbv zeta. cbn [map]. repeat (apply Forall_cons; [left; reflexivity|]). apply Forall_nil.
  - vm_compute. reflexivity.
Qed.

(* ================================================================================================
   The ENCODER side (proofs/ServerEncode.v): `reply` marshals with bencode.MustMarshal (an error is a
   panic), sendError / Query with bencode.Marshal, and the compact node-list encoders panic on a
   contact whose address does not have the width of its list.  In the codec model (model/Krpc.v)
   these are the outcomes CErr / CPanic of `encode_xmsg : xmsg -> cresult bytes`
   (`encode_msg m = Some b` iff `encode_xmsg (x_of_msg m) = COk b`).
   For EVERY datagram `ESend dst m kind` of EVERY step — replies, errors, the node's own queries —
   the encoding succeeds.  Hypotheses beyond C01_total_inv, each explicit:
     sha1_ok            the token hash is within the decoder's string limit (SHA-1: 20 bytes);
     wf_store_items     the BEP 44 wrapper hands out k / sig / seq / v of the codec's widths and
                        KRPC errors with int64 codes, relative to a store invariant `store_ok` it
                        maintains (ServerEncode.wf_store_items_bep44: true of the Bep44.v wrapper);
     EncInv s           table ports below 65536 and store_ok of the store (inductive: step_enc);
     enc_event e        the source / AddNode port is below 65536 (the model's ports are unbounded),
                        the decoded message is what the decoder delivers (in_msg_ok, a consequence
                        of C15_decode_wf: ServerEncode.decoded_in_msg_ok), and for the node's own
                        queries the caller's method name, transaction id and arguments are
                        encodable (query_args_ok: 20-byte info_hash / target, k 32, sig 64, ...).
   ================================================================================================ *)
From Dht Require Compact Bencode RunServer.
From Dht Require Import ServerEncode.

Section C01Encode.
  Variable Store : Type.
  Variable w_put : Store -> witem -> Z -> Store * put_result.
  Variable w_get : Store -> bytes -> Z -> Store * get_result.
  Variable sha1 : bytes -> bytes.
  Variable id_secure : N -> bytes -> bool.
  Variable cfg : config.
  Variable store_ok : Store -> Prop.

  Notation step := (step Store w_put w_get sha1 id_secure cfg).

  Theorem C01_reply_encodes s e ch s' out dst m kind :
    wf_cfg cfg -> sha1_ok sha1 -> wf_store_items Store w_put w_get store_ok ->
    Inv Store cfg s -> EncInv Store store_ok s -> wf_event e -> enc_event e ->
    step s e ch = SR Store s' out -> In (ESend dst m kind) out ->
    exists b, encode_xmsg (x_of_msg m) = Compact.COk b /\ encode_msg m = Some b.
  Proof. exact (ServerEncode.C01_reply_encodes Store w_put w_get sha1 id_secure cfg store_ok s e ch s' out dst m kind). Qed.

  (* the invariant used above is inductive, from any initial state whose store is ok *)
  Theorem C01_encode_invariant s :
    wf_cfg cfg -> sha1_ok sha1 -> wf_store_items Store w_put w_get store_ok ->
    reachable_enc Store w_put w_get sha1 id_secure cfg store_ok s ->
    reachable Store w_put w_get sha1 id_secure cfg s /\ Inv Store cfg s /\ EncInv Store store_ok s.
  Proof. exact (fun Hc Hs Hi => reachable_enc_inv Store w_put w_get sha1 id_secure cfg store_ok Hc Hs Hi s). Qed.
End C01Encode.

(* the store premise holds of the BEP 44 wrapper the model runner plugs in (model/RunServer.v) *)
Theorem C01_store_premise_bep44 edv exp store_fail :
  wf_store_items RunServer.store (RunServer.w_put_impl edv store_fail) (RunServer.w_get_impl exp) b44_store_ok.
Proof. exact (wf_store_items_bep44 edv exp store_fail). Qed.

(* non-vacuity: the hypotheses hold of the concrete state sE (parameters of ServerExamples.v; two
   pings answered by an IPv4 and an IPv6 node), and its find_node reply with `nodes` and `nodes6`,
   as well as the 203 error, are marshalled to the expected bytes (computed by the kernel) *)
Example C01_encode_hypotheses :
  wf_cfg cfg0 /\ sha1_ok sha0 /\ wf_store_items unit wp0 wg0 (fun _ => True) /\
  Inv unit cfg0 sE /\ EncInv unit (fun _ => True) sE /\
  wf_addr srcE /\ (port srcE < 65536)%N /\ (N.of_nat (List.length dgE_find_node) <= Bencode.max_str_len)%N /\
  wf_event (packet_of_bytes srcE dgE_find_node) /\ enc_event (packet_of_bytes srcE dgE_find_node).
Proof. exact sE_find_node_hyps. Qed.

Definition C01_wire (r : step_result unit) : option (addr * send_kind * option bytes) :=
  match r with
  | Server.SR _ _ [ESend d m k] => Some (d, k, encode_msg m)
  | _ => None
  end.

Example C01_find_node_reply_encodes :
  C01_wire (stepE sE (packet_of_bytes srcE dgE_find_node) chE) = Some (srcE, SReply, Some wireE_find_node) /\
  List.length wireE_find_node = 144%nat.
Proof. vm_compute. split; reflexivity. Qed.

Example C01_error_203_encodes :
  C01_wire (stepE sE (packet_of_bytes srcE dgE_announce) no_choice) = Some (srcE, SError, Some wireE_203) /\
  C01_wire (step0 s0 (packet_of_bytes srcE dgE_announce) no_choice) = Some (srcE, SError, Some wireE_203).
Proof. vm_compute. split; reflexivity. Qed.

(* the encoder's panic is real for what the invariants exclude: a contact of the wrong family *)
Example C01_encoder_panics_on_wrong_family :
  encode_xmsg (x_of_msg (reply_msg cfg0 srcE [x61] (mkRet zero20 (Some [niB]) None None None None None None None None [] zero32 zero64 None)))
  = Compact.CPanic.
Proof. vm_compute. reflexivity. Qed.

Print Assumptions C01_total.
Print Assumptions C01_total_inv.
Print Assumptions C01_handlers_total.
Print Assumptions C01_run_reachable.
Print Assumptions C01_still_serves.
Print Assumptions C01_still_serves_reachable.
Print Assumptions C01_nonvacuous.
Print Assumptions C01_pre_check_spec.
Print Assumptions C01_decoded_wf.
Print Assumptions C01_datagram_wf.
Print Assumptions C01_total_bytes.
Print Assumptions C01_history_bytes.
Print Assumptions C01_run_trace_spec.
Print Assumptions C01_history_mixed.
Print Assumptions C01_oversize_and_port0_bytes.
Print Assumptions C01_bytes_announce_answered_203.
Print Assumptions C01_bytes_trailing_used.
Print Assumptions C01_bytes_dropped.
Print Assumptions C01_bytes_oversize_port0.
Print Assumptions C01_bytes_history.
Print Assumptions C01_reply_encodes.
Print Assumptions C01_encode_invariant.
Print Assumptions C01_store_premise_bep44.
Print Assumptions C01_encode_hypotheses.
Print Assumptions C01_find_node_reply_encodes.
Print Assumptions C01_error_203_encodes.
Print Assumptions C01_encoder_panics_on_wrong_family.
