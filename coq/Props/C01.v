(* C01 — no inbound datagram (nor any other event) can crash or silence the node.
   This file holds statements only; every proof is `exact <lemma>` from proofs/ServerInv*.v.
   The model is coq/model/Server.v: one [step] = one section of code run under Server.mu; every
   panic of that code (table.addNode / dropNode error returns, net.IP.To16 of a malformed address in
   the token code, MustMarshal(nil), transactions.Dispatcher.Add on a duplicate key) is the explicit
   outcome [SRPanic].  A datagram is [EPacket src size dec]: [dec = None] for anything the bencode
   decoder rejects, [Some m] with any subset of fields otherwise (the decoder itself is C15/C16). *)
From Dht Require Import Base Int160 Msg Server ServerDefs ServerInv ServerInv2 ServerExamples.
From DhtGen Require Import Params.

Section C01.
  Variable Store : Type.
  Variable w_put : Store -> witem -> Z -> Store * put_result.
  Variable w_get : Store -> bytes -> Z -> Store * get_result.
  Variable sha1 : bytes -> bytes.
  Variable id_secure : N -> bytes -> bool.
  Variable cfg : config.

  Notation step := (step Store w_put w_get sha1 id_secure cfg).
  Notation run := (run Store w_put w_get sha1 id_secure cfg).
  Notation reachable := (reachable Store w_put w_get sha1 id_secure cfg).

  (* ---- no event, decoded message or choice of the implementation leads to the panic outcome,
          from any reachable state, in every configuration ---- *)
  Theorem C01_total s e :
    wf_cfg cfg -> wf_store_get Store w_get -> reachable s -> wf_event e ->
    forall ch, step s e ch <> SRPanic Store.
  Proof. exact (ServerInv2.C01_total Store w_put w_get sha1 id_secure cfg s e). Qed.

  (* the same from any state satisfying the two invariants *)
  Theorem C01_total_inv s e ch :
    wf_cfg cfg -> wf_store_get Store w_get -> Inv Store cfg s -> TxInv Store s -> wf_event e ->
    step s e ch <> SRPanic Store.
  Proof. exact (step_ok Store w_put w_get sha1 id_secure cfg s e ch). Qed.

  (* the query handlers alone: no state at all is needed beyond a socket-level source address *)
  Theorem C01_handlers_total s src m ch :
    wf_addr src -> wf_store_get Store w_get ->
    dispatch Store w_put w_get sha1 id_secure cfg s src m ch <> HQPanic Store.
  Proof. exact (dispatch_ok Store w_put w_get sha1 id_secure cfg s src m ch). Qed.

  (* ---- histories: every state a run of well-formed events passes through is reachable, hence the
          two theorems above and below apply after any finite sequence of datagrams ---- *)
  Theorem C01_run_reachable evs s s' outs :
    reachable s -> Forall (fun ec => wf_event (fst ec)) evs -> run s evs = Some (s', outs) ->
    reachable s'.
  Proof. exact (ServerInv2.C01_run_reachable Store w_put w_get sha1 id_secure cfg evs s s' outs). Qed.

  (* ---- the node still serves: a well-formed ping from an address that is not blocked is answered
          with exactly one reply to that address, whatever the table looks like and whatever the
          sender's id is; and the step is possible (some choice is accepted) ---- *)
  Theorem C01_still_serves s a size ping :
    wf_cfg cfg -> Inv Store cfg s ->
    s_closed Store s = false -> c_passive cfg = false -> c_hook cfg ping = true ->
    blocked (s_blocklist Store s) (ip a) = false -> port a <> 0%N -> wf_addr a ->
    s_budget Store s <> Some 0%N -> size <> Z.to_N udp_buf ->
    m_y ping = s_q /\ m_q ping = s_ping ->
    (forall ch s' out, step s (EPacket a size (Some ping)) ch = SR Store s' out ->
       out = [ESend a (reply_msg cfg a (m_t ping) empty_return) SReply]) /\
    (exists ch s' out, step s (EPacket a size (Some ping)) ch = SR Store s' out).
  Proof. exact (ServerInv2.C01_still_serves Store w_put w_get sha1 id_secure cfg s a size ping). Qed.

  Theorem C01_still_serves_reachable s a size ping :
    wf_cfg cfg -> reachable s ->
    s_closed Store s = false -> c_passive cfg = false -> c_hook cfg ping = true ->
    blocked (s_blocklist Store s) (ip a) = false -> port a <> 0%N -> wf_addr a ->
    s_budget Store s = None -> size <> Z.to_N udp_buf ->
    m_y ping = s_q /\ m_q ping = s_ping ->
    (forall ch s' out, step s (EPacket a size (Some ping)) ch = SR Store s' out ->
       exists r, out = [ESend a (reply_msg cfg a (m_t ping) r) SReply]) /\
    (exists ch s' out, step s (EPacket a size (Some ping)) ch = SR Store s' out).
  Proof. exact (ServerInv2.C01_still_serves_reachable Store w_put w_get sha1 id_secure cfg s a size ping). Qed.
End C01.

(* ---- non-vacuity: the hypotheses hold for a concrete configuration and a reachable state with a
        populated table and queries in flight (ServerExamples.v); there the announce_peer datagram
        without an `a` dictionary (the 34-byte crash of the property text, repaired defect D1) is
        answered with error 203, and a ping from a fresh address is answered ---- *)
Example C01_nonvacuous :
  wf_cfg cfg0 /\ wf_store_get unit wg0 /\ reachable unit wp0 wg0 sha0 sec0 cfg0 s0 /\
  wf_event (EPacket (mkAddr ip4 99) 34 (Some bad_announce)) /\
  match step0 s0 (EPacket (mkAddr ip4 99) 34 (Some bad_announce)) no_choice with
  | SR _ _ [ESend d m SError] => Some (d, option_map e_code (m_e m), m_t m)
  | _ => None
  end = Some (mkAddr ip4 99, Some 203%Z, [x61]) /\
  (s_closed unit s0 = false /\ c_passive cfg0 = false /\ c_hook cfg0 ping0 = true /\
   blocked (s_blocklist unit s0) ip4 = false /\ s_budget unit s0 = None /\
   m_y ping0 = s_q /\ m_q ping0 = s_ping) /\
  match step0 s0 (EPacket (mkAddr ip4 99) 100 (Some ping0)) no_choice with
  | SR _ _ out => out
  | _ => []
  end = [ESend (mkAddr ip4 99) (reply_msg cfg0 (mkAddr ip4 99) [x61; x61] empty_return) SReply].
Proof.
  split; [exact cfg0_wf|]. split; [exact wg0_wf|]. split; [exact s0_reachable|].
  split; [split; [left; reflexivity|split; intros ? H; inversion H]|].
  vm_compute. repeat split.
Qed.

(* ---- pins ---- *)
Example C01_pin_udp_buf : udp_buf = 65536%Z /\ udp_buf_ok = true.
Proof. repeat split. Qed.

Example C01_pin_missing_args : err_value_missing_arguments = 203%Z /\ err_value_missing_arguments_ok = true.
Proof. repeat split. Qed.

Print Assumptions C01_total.
Print Assumptions C01_total_inv.
Print Assumptions C01_handlers_total.
Print Assumptions C01_run_reachable.
Print Assumptions C01_still_serves.
Print Assumptions C01_still_serves_reachable.
Print Assumptions C01_nonvacuous.
