(* C14 — every query and traversal ends and cleans up after itself.
   Statements only; every proof is `exact <lemma>` from proofs/QueryProofs.v and proofs/LookupsProofs.v.

   Part 1: ONE outbound query (Query.v: caller / sender / response handler at lock and channel
           granularity).  Quantification: every schedule (label list, disabled labels skipped), i.e.
           every placement of reply arrival, context cancellation, Close, every outcome of every send
           that the state permits, every NumTries, every rate-limiting policy and budget.
   Part 2: the owners of a lookup (Lookups.v: Bootstrap / Announce / getput.Get / getput.Put over the
           traversal interface), every schedule, every query result at every point, every starting-node
           outcome, ctx cancel / Close / StopTraversing at any point, any K-nearest container that only
           keeps what it was given.
   Limits (partial, as announced in DESIGN section 8): goroutines, timers and the Go scheduler are runtime
   objects; the theorems are about the model's processes, the `query` and `lookups` engines count the
   real ones (goroutines, pending transactions, datagrams) on the enumerated fault placements. *)
From Dht Require Import Base Bep44.
From Dht Require Query Lookups QueryProofs LookupsProofs.
From DhtGen Require Import Params.

(* ============================================================== Part 1: the query *)
Section OneQuery.
  Import Query QueryProofs.

  (* datagrams handed to the socket <= send() calls <= NumTries, in every reachable state *)
  Theorem C14_sends c s : reachable c s -> q_writes s <= q_sends s /\ q_sends s <= qc_tries c.
  Proof. exact (sends_bound c s). Qed.

  (* NumTries = 0 is the source's default, which is at least one send; any other value is itself *)
  Theorem C14_tries_default n : 1 <= eff_tries n /\ eff_tries 0 = q_znat default_max_sends /\ (n <> 0 -> eff_tries n = n).
  Proof. exact (conj (eff_tries_pos n) (conj eff_tries_default (eff_tries_given n))). Qed.

  (* from every reachable state some finite sequence (at most mu) of enabled INTERNAL events leads to Returned *)
  Theorem C14_returns c s :
    reachable c s ->
    exists ls, forallb internal ls = true /\ path_ok c s ls = true /\ returned (exec c s ls) = true /\
               length ls <= mu c s.
  Proof. exact (returns c s). Qed.

  (* ... because while the caller has not returned some internal event is enabled ... *)
  Theorem C14_returns_progress c s :
    reachable c s -> returned s = false -> exists l, internal l = true /\ enabled c s l = true.
  Proof. intros R. exact (progress c s (inv_reachable c s R)). Qed.

  (* ... and a measure strictly decreases on EVERY enabled event (internal or environment): no infinite run,
     every run from a reachable state is at most mu long, the step relation is well founded *)
  Theorem C14_returns_measure c s l : reachable c s -> enabled c s l = true -> mu c (step c s l) < mu c s.
  Proof. intros R. exact (mu_decreases c s l (inv_reachable c s R)). Qed.

  Theorem C14_returns_bounded c ls s : reachable c s -> path_ok c s ls = true -> length ls <= mu c s.
  Proof. exact (run_length_bound c ls s). Qed.

  Theorem C14_returns_wf c : well_founded (qstep c).
  Proof. exact (qstep_wf c). Qed.

  (* the result is one of: the reply, the caller's context error, a time-out after the delay that follows
     the last send, the error of a failed send -- each only under its cause *)
  Theorem C14_result_class c s r :
    reachable c s -> q_result s = Some r ->
    match r with
    | RReply => q_popped s = true /\ q_handler s = HDone
    | RCtx => q_ctx s = true
    | RTimeout => q_sends s = qc_tries c /\ q_writes s = qc_tries c /\ q_delays s = qc_tries c /\ q_fail s = None
    | RSendErr x => q_fail s = Some x /\ (x = CClosed -> q_closed s = true) /\ (x = CBlocked -> q_blocked s = true)
    end.
  Proof. exact (result_class c s r). Qed.

  Theorem C14_result_stable c ls s r : reachable c s -> q_result s = Some r -> q_result (exec c s ls) = Some r.
  Proof. exact (result_stable c ls s r). Qed.

  (* Returned: transaction deregistered, caller and sender finished, error channel drained, a result set;
     the response handler is finished too, or -- a reply that raced with the return -- has exactly its one
     non-blocking step left, after which every process is Done *)
  Theorem C14_clean c s :
    reachable c s -> returned s = true ->
    q_registered s = false /\ q_sender s = SDone /\ q_senderr_chan s = None /\ q_result s <> None /\
    (q_handler s <> HPending -> all_done s = true) /\
    (q_handler s = HPending -> enabled c s LHandler = true /\ all_done (step c s LHandler) = true).
  Proof. exact (clean c s). Qed.

  Theorem C14_clean_final c s l : reachable c s -> all_done s = true -> enabled c s l = true -> external l = true.
  Proof. exact (done_is_final c s l). Qed.

  (* after ServerClose nothing is written any more (whatever was in flight) ... *)
  Theorem C14_closed_no_write c ls s :
    q_closed s = true -> q_closed (exec c s ls) = true /\ q_writes (exec c s ls) = q_writes s.
  Proof. exact (closed_no_write c ls s). Qed.

  (* ... and a query started on a closed server sends nothing and fails *)
  Theorem C14_closed c b0 ls :
    1 <= qc_tries c ->
    let s := run c true b0 ls in
    q_writes s = 0 /\
    (forall r, q_result s = Some r -> r = RSendErr CClosed \/ (r = RCtx /\ q_ctx s = true)).
  Proof. exact (closed_query_fails c b0 ls). Qed.
End OneQuery.

(* ============================================================== Part 2: owners of lookups *)
Section Owners.
  Import Lookups LookupsProofs.
  Variable sha1 : bytes -> bytes.
  Variable ed_verify : bytes -> bytes -> bytes -> bool.
  Variable node_ok : addr -> N -> bool.
  Variable push : list elem -> elem -> list elem.
  Hypothesis push_incl : forall l e x, In x (push l e) -> x = e \/ In x l.
  Hypothesis push_len : forall l e, length (push l e) <= S (length l).
  Variable c : lcfg.

  Notation reachable := (reachable sha1 ed_verify node_ok push c).
  Notation exec := (exec sha1 ed_verify node_ok push c).
  Notation step := (step sha1 ed_verify node_ok push c).
  Notation path_ok := (path_ok sha1 ed_verify node_ok push c).

  (* every control path of Bootstrap / Announce / Get / Put -- finish, failure to obtain starting nodes,
     ctx cancel, Close / StopTraversing -- issues Stop on the traversal it started
     (Announce as found; Bootstrap / Get / Put after the repair of D8) *)
  Theorem C14_owner_stops s :
    reachable s -> stops_ok c = true -> owner_done s = true -> l_started s = true -> l_stopping s = true.
  Proof. exact (owner_stops sha1 ed_verify node_ok push c s). Qed.

  (* on the tree as found the same holds on every path but the failed start *)
  Theorem C14_owner_stops_other_paths s :
    reachable s -> owner_done s = true -> l_err s <> Some ErrStart -> l_started s = true -> l_stopping s = true.
  Proof. exact (owner_stops_pinned_other_paths sha1 ed_verify node_ok push c s). Qed.

  (* the traversal interface: a stopping traversal starts no query, and with nothing in flight its two
     goroutines end: "Stop leads to Stopped once the in-flight queries have returned" *)
  Theorem C14_stop_no_new_query s a : l_stopping s = true -> enabled c s (TIssue a) = false.
  Proof. exact (stopping_no_issue c s a). Qed.

  Theorem C14_stop_reaches_stopped s :
    l_started s = true -> l_stopping s = true -> l_inflight s = [] -> l_panic s = false ->
    let s' := exec s [TLoopExit; TStopWait] in
    l_loop_exited s' = true /\ l_stopped s' = true /\ l_inflight s' = [].
  Proof. exact (stop_reaches_stopped sha1 ed_verify node_ok push c s). Qed.

  (* hence every process of the lookup ends: from every reachable state in which the owner stops on every
     path (and an Announce's consumer keeps reading) some finite sequence of internal events, none of
     which starts a query, reaches all_done: owner returned, nothing in flight, no announce/put
     goroutine left, traversal stopping, Stopped and run loop exited *)
  Theorem C14_lookup_ends s :
    reachable s -> live c s ->
    exists ls, forallb internal ls = true /\ forallb (fun l => negb (is_issue l)) ls = true /\
               path_ok s ls = true /\ all_done (exec s ls) = true /\ length ls <= lmu s.
  Proof. exact (lookup_ends sha1 ed_verify node_ok push push_incl push_len c s). Qed.

  Theorem C14_lookup_progress s :
    reachable s -> live c s -> all_done s = false ->
    exists l, internal l = true /\ is_issue l = false /\ enabled c s l = true.
  Proof. intros R. exact (lprogress c s (invA_reachable sha1 ed_verify node_ok push c s R)). Qed.

  (* and no run of a lookup is infinite, whatever the schedule: a measure decreases on every enabled event *)
  Theorem C14_lookup_measure s l : enabled c s l = true -> lmu (step s l) < lmu s.
  Proof. exact (lmu_decreases sha1 ed_verify node_ok push push_incl push_len c s l). Qed.

  Theorem C14_lookup_bounded ls s : path_ok s ls = true -> length ls <= lmu s.
  Proof. exact (run_length_bound sha1 ed_verify node_ok push push_incl push_len c ls s). Qed.

  Theorem C14_lookup_wf : well_founded (lstep sha1 ed_verify node_ok push c).
  Proof. exact (lstep_wf sha1 ed_verify node_ok push push_incl push_len c). Qed.
End Owners.

(* ============================================================== findings and non-vacuity *)
Import Lookups.

Definition C14_sha (b : bytes) : bytes := b.
Definition C14_ver (k m s : bytes) : bool := true.
Definition C14_ok (a : addr) (i : N) : bool := true.
Definition C14_push := lk_push 7 8.
Definition C14_item0 : Bep44.reply := mkReply [] (zero_bytes 32) (zero_bytes 64) None.

(* D8 on the pinned tree: Bootstrap (and getput Get / Put) whose starting nodes cannot be obtained returns
   without stopping the traversal it started; the run-loop goroutine then stays for ever (no schedule
   makes it exit).  With the repair the same path stops it. *)
Definition C14_cfg_leak (a : api) (v : variant) : lcfg := mkLC a v false SNErr 4 7 None [] [].

Theorem C14_owner_stops_refuted_pinned :
  exists a ls,
    let c := C14_cfg_leak a Pinned in
    let s := run C14_sha C14_ver C14_ok C14_push c ls in
    owner_done s = true /\ l_started s = true /\ l_stopping s = false /\
    (forall ls', l_loop_exited (exec C14_sha C14_ver C14_ok C14_push c s ls') = false /\
                 l_stopping (exec C14_sha C14_ver C14_ok C14_push c s ls') = false) /\
    let s2 := run C14_sha C14_ver C14_ok C14_push (C14_cfg_leak a Repaired) ls in
    owner_done s2 = true /\ l_stopping s2 = true.
Proof.
  exists ABootstrap, [OStartTrav; OGetNodes]. cbv zeta.
  split; [vm_compute; reflexivity|]. split; [vm_compute; reflexivity|]. split; [vm_compute; reflexivity|].
  split; [|vm_compute; split; reflexivity].
  intros ls'.
  destruct (LookupsProofs.leak_forever C14_sha C14_ver C14_ok C14_push (C14_cfg_leak ABootstrap Pinned) ls'
              (run C14_sha C14_ver C14_ok C14_push (C14_cfg_leak ABootstrap Pinned) [OStartTrav; OGetNodes])
              eq_refl eq_refl eq_refl eq_refl) as (_ & A & B).
  split; assumption.
Qed.

Example C14_leak_get_put_pinned :
  let s a := run C14_sha C14_ver C14_ok C14_push (C14_cfg_leak a Pinned) [OStartTrav; OGetNodes] in
  (owner_done (s AGet) && l_started (s AGet) && negb (l_stopping (s AGet)) &&
   owner_done (s APut) && l_started (s APut) && negb (l_stopping (s APut)) &&
   (* Announce does stop it, also as found *)
   owner_done (s AAnnounce) && l_stopping (s AAnnounce)) = true.
Proof. vm_compute. reflexivity. Qed.

(* non-vacuity: concrete runs reaching each result class with NumTries = 3 *)
Import Query.
Definition C14_qc : qcfg := mkQC 3 false rl_zero false.
Example C14_nonvacuous_query :
  let reply := run C14_qc false 0 [LRegister; ESendOk; EDelayElapsed; ESendOk; EReplyArrives; LHandler; LSelReply; LCancelSend; LSenderCtx; LJoin; LDeregister] in
  let tmo := run C14_qc false 0 [LRegister; ESendOk; EDelayElapsed; ESendOk; EDelayElapsed; ESendOk; EDelayElapsed; LTimeout; LSelSendErr; LCancelSend; LJoin; LDeregister] in
  let ctx := run C14_qc false 0 [LRegister; ESendOk; ECtxCancel; LSelCtx; LCancelSend; LSenderCtx; LJoin; LDeregister] in
  let werr := run C14_qc false 0 [LRegister; ESendOk; EDelayElapsed; ESendErr CSocket; LSelSendErr; LCancelSend; LJoin; LDeregister] in
  let closed := run C14_qc true 0 [LRegister; ESendErr CClosed; LSelSendErr; LCancelSend; LJoin; LDeregister] in
  (* the reply raced with the cancellation: the handler still has its one step; afterwards all Done *)
  let race := run C14_qc false 0 [LRegister; ESendOk; ECtxCancel; LSelCtx; LCancelSend; EReplyArrives; LSenderCtx; LJoin; LDeregister] in
  (q_result reply, q_writes reply, all_done reply) = (Some RReply, 2, true) /\
  (q_result tmo, q_writes tmo, q_delays tmo, all_done tmo) = (Some RTimeout, 3, 3, true) /\
  (q_result ctx, q_writes ctx, all_done ctx, q_registered ctx) = (Some RCtx, 1, true, false) /\
  (q_result werr, q_writes werr, all_done werr) = (Some (RSendErr CSocket), 1, true) /\
  (q_result closed, q_writes closed, all_done closed) = (Some (RSendErr CClosed), 0, true) /\
  (returned race, q_handler race, all_done race, all_done (step C14_qc race LHandler)) = (true, HPending, false, true).
Proof. vm_compute. repeat split. Qed.

(* non-vacuity: a repaired Bootstrap that runs one query to the end, and one cancelled half-way *)
Example C14_nonvacuous_lookup :
  let c := mkLC ABootstrap Repaired false SNOk 2 7 None [] [] in
  let r := Some (mkGR true 5 None [] C14_item0) in
  let s1 := Lookups.run C14_sha C14_ver C14_ok C14_push c
              [OStartTrav; OGetNodes; TIssue 1%N; QReturn 0 r; QFinish 0; OStalled; OStopStep; TLoopExit; TStopWait; OStoppedStep] in
  let s2 := Lookups.run C14_sha C14_ver C14_ok C14_push c
              [OStartTrav; OGetNodes; TIssue 1%N; ECtx; OCtx; OStopStep; QReturn 0 None; QFinish 0; TLoopExit; TStopWait] in
  (Lookups.all_done s1, l_err s1, length (l_closest s1)) = (true, None, 1) /\
  (Lookups.all_done s2, l_err s2) = (true, Some ErrCtx).
Proof. vm_compute. split; reflexivity. Qed.

(* ---- pins: the constants the property and the model name, as found in /repo now ---- *)
Example C14_pin_default_max_sends : default_max_sends = 1%Z /\ default_max_sends_ok = true.
Proof. split; reflexivity. Qed.
Example C14_pin_questionable_ping_tries : questionable_ping_tries = 3%Z /\ questionable_ping_tries_ok = true.
Proof. split; reflexivity. Qed.
Example C14_pin_default_resend_delay : default_resend_delay_ns = 2000000000%Z /\ default_resend_delay_ns_ok = true.
Proof. split; reflexivity. Qed.
Example C14_pin_bootstrap_k : bootstrap_k = 16%Z /\ bootstrap_k_ok = true.
Proof. split; reflexivity. Qed.
Example C14_pin_getput_alpha : getput_alpha = 15%Z /\ getput_alpha_ok = true.
Proof. split; reflexivity. Qed.
Example C14_pin_traversal_alpha : traversal_default_alpha = 3%Z /\ traversal_default_alpha_ok = true.
Proof. split; reflexivity. Qed.

(* ---- Part 3: the table maintainer's pass (Server.TableMaintainer: model/Maint.v, proofs/MaintProofs.v) ----
   One pass is at most one round of pings and one refresh traversal per bucket, visited in index order, and it
   is over after at most 2 * 160 + 1 phases whatever the remote nodes do; a bucket is refreshed only when, after
   its pings, it is not full or holds a bad entry, and the traversal is seeded with exactly the not-bad entries;
   a table whose buckets are full and clean costs no datagram at all. *)
From Dht Require Import Msg Server Maint MaintProofs.

Section C14_maintenance.
  Variable id_secure : N -> bytes -> bool.
  Variable cfg : config.
  Variable now : Z.
  Variable answers : node -> ping_outcome.
  Variable refresh : nat -> list node -> list node.

  Theorem C14_maint_pass_bounded nodes :
    (length (fst (pass id_secure cfg now answers refresh nodes)) <= 2 * 160 + 1)%nat.
  Proof. exact (pass_from_length id_secure cfg nbuckets 0 now answers refresh nodes). Qed.

  Theorem C14_maint_pass_in_order nodes p j :
    In p (fst (pass id_secure cfg now answers refresh nodes)) -> phase_index p = Some j -> (0 <= j < 0 + 160)%nat.
  Proof. exact (pass_from_indices id_secure cfg nbuckets 0 now answers refresh nodes p j). Qed.

  Theorem C14_maint_refresh_only_when_needed nodes j seeds :
    In (PRefresh j seeds) (fst (pass id_secure cfg now answers refresh nodes)) ->
    exists tbl, should_stop id_secure cfg tbl j = false /\ seeds = not_bad_nodes id_secure cfg tbl.
  Proof. exact (pass_from_refresh_needed id_secure cfg nbuckets 0 now answers refresh nodes j seeds). Qed.

  Theorem C14_maint_healthy_table_is_silent nodes :
    (forall j, (0 <= j < 0 + nbuckets)%nat ->
       should_stop id_secure cfg nodes j = true /\ ping_targets id_secure cfg now nodes j = []) ->
    pass id_secure cfg now answers refresh nodes = (map (fun j => PPing j []) (seq 0 nbuckets) ++ [PDone], nodes).
  Proof. exact (pass_from_healthy id_secure cfg nbuckets 0 now answers refresh nodes). Qed.
End C14_maintenance.

Print Assumptions C14_sends.
Print Assumptions C14_tries_default.
Print Assumptions C14_returns.
Print Assumptions C14_returns_progress.
Print Assumptions C14_returns_measure.
Print Assumptions C14_returns_bounded.
Print Assumptions C14_returns_wf.
Print Assumptions C14_result_class.
Print Assumptions C14_result_stable.
Print Assumptions C14_clean.
Print Assumptions C14_clean_final.
Print Assumptions C14_closed_no_write.
Print Assumptions C14_closed.
Print Assumptions C14_owner_stops.
Print Assumptions C14_owner_stops_other_paths.
Print Assumptions C14_stop_no_new_query.
Print Assumptions C14_stop_reaches_stopped.
Print Assumptions C14_lookup_ends.
Print Assumptions C14_lookup_progress.
Print Assumptions C14_lookup_measure.
Print Assumptions C14_lookup_bounded.
Print Assumptions C14_lookup_wf.
Print Assumptions C14_owner_stops_refuted_pinned.
Print Assumptions C14_maint_pass_bounded.
Print Assumptions C14_maint_pass_in_order.
Print Assumptions C14_maint_refresh_only_when_needed.
Print Assumptions C14_maint_healthy_table_is_silent.
