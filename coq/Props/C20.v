(* C20 — outbound traffic never exceeds the configured send budget.
   Statements only; every proof is `exact <lemma>` from proofs/ServerC08.v (the server's use of
   the limiter) and proofs/LimiterProofs.v (the abstract token bucket, model/Limiter.v).

   Two layers:
   (1) policy — in the server model every rated datagram (all replies and errors; a query send
       unless its caller opted out, the event's `rated` flag) takes exactly one token from the
       budget before it is written, and nothing is written when no token is left: the reply is
       dropped, the query send fails.  The model's budget is a plain counter (= rate 0).
   (2) bucket — an abstract token bucket with rational rate tokens/per_ns and burst b never grants
       more than  burst + rate * (t2 - t1)  tokens in any window (t1, t2]; with rate 0 it grants
       exactly its burst, and is then the counter of layer (1) (zero_rate_is_counter).
   Partial by design (DESIGN.md section 8): wall-clock time and the internals of x/time/rate are
   assumed to implement the abstract bucket; the waiting variant (WaitToReply) is not modelled. *)
From Dht Require Import Base Int160 Msg Server ServerDefs ServerC08 Limiter LimiterProofs.
From DhtGen Require Import Params.

Section C20.
  Variable Store : Type.
  Variable w_put : Store -> witem -> Z -> Store * put_result.
  Variable w_get : Store -> bytes -> Z -> Store * get_result.
  Variable sha1 : bytes -> bytes.
  Variable id_secure : N -> bytes -> bool.
  Variable cfg : config.

  Notation sstate := (sstate Store).
  Notation step := (step Store w_put w_get sha1 id_secure cfg).
  Notation run := (run Store w_put w_get sha1 id_secure cfg).
  Notation SR := (SR Store).
  Notation s_budget := (s_budget Store).

  (* ---- (1) policy: one token per rated datagram, for every event and choice ---- *)
  Theorem C20_budget_step (s : sstate) e ch s' out b :
    s_budget s = Some b -> step s e ch = SR s' out ->
    exists b', s_budget s' = Some b' /\ b = (b' + rated_sends e out)%N.
  Proof. exact (C20_budget_step Store w_put w_get sha1 id_secure cfg s e ch s' out b). Qed.

  (* over any history (any mix of inbound floods from any sources, outbound queries, blocklist
     changes, ...): tokens spent = rated datagrams written, hence never more than the budget *)
  Theorem C20_run_budget evs (s s' : sstate) outs b :
    run s evs = Some (s', outs) -> s_budget s = Some b ->
    exists b', s_budget s' = Some b' /\ b = (b' + total_rated_sends evs outs)%N.
  Proof. exact (C20_run_budget Store w_put w_get sha1 id_secure cfg evs s s' outs b). Qed.

  Theorem C20_run_bound evs (s s' : sstate) outs b :
    run s evs = Some (s', outs) -> s_budget s = Some b -> (total_rated_sends evs outs <= b)%N.
  Proof. exact (C20_run_bound Store w_put w_get sha1 id_secure cfg evs s s' outs b). Qed.

  (* no token: nothing rated is written; the reply is dropped, the rated query send fails *)
  Theorem C20_no_budget_no_send (s : sstate) e ch s' out :
    s_budget s = Some 0%N -> step s e ch = SR s' out ->
    filter (is_rated_send e) out = [] /\ s_budget s' = Some 0%N.
  Proof. exact (C20_no_budget_no_send Store w_put w_get sha1 id_secure cfg s e ch s' out). Qed.

  Theorem C20_no_budget_reply_dropped (s : sstate) src size dec ch s' out :
    s_budget s = Some 0%N -> step s (EPacket src size dec) ch = SR s' out -> sends out = [].
  Proof. exact (C20_no_budget_reply_dropped Store w_put w_get sha1 id_secure cfg s src size dec ch s' out). Qed.

  Theorem C20_no_budget_query_fails (s : sstate) qid dst q a t ch s' out :
    s_budget s = Some 0%N -> step s (EQueryStart qid dst q a true t) ch = SR s' out ->
    exists n, out = [EDropped n; EQueryFailed qid].
  Proof. exact (C20_no_budget_query_fails Store w_put w_get sha1 id_secure cfg s qid dst q a t ch s' out). Qed.

  (* a query whose caller opted out of rate limiting does not touch the budget *)
  Theorem C20_unrated_query_free (s : sstate) qid dst q a t ch s' out :
    step s (EQueryStart qid dst q a false t) ch = SR s' out -> s_budget s' = s_budget s.
  Proof. exact (C20_unrated_query_free Store w_put w_get sha1 id_secure cfg s qid dst q a t ch s' out). Qed.

  (* no limiter configured (None): stays so, and nothing is ever dropped for lack of budget *)
  Theorem C20_unlimited_unchanged (s : sstate) e ch s' out :
    s_budget s = None -> step s e ch = SR s' out -> s_budget s' = None /\ ~ In (EDropped 3) out.
  Proof. exact (C20_unlimited_unchanged Store w_put w_get sha1 id_secure cfg s e ch s' out). Qed.

  Theorem C20_run_unlimited evs (s s' : sstate) outs :
    run s evs = Some (s', outs) -> s_budget s = None ->
    s_budget s' = None /\ forall out, In out outs -> ~ In (EDropped 3) out.
  Proof. exact (C20_run_unlimited Store w_put w_get sha1 id_secure cfg evs s s' outs). Qed.
End C20.

(* ---- (2) the abstract token bucket ---- *)
Local Open Scope Z_scope.

(* for every sequence of Allow calls at non-decreasing times from any well-formed bucket state:
   grants in (t1, t2]  <=  burst + (tokens / per_ns) * (t2 - t1),  in integer arithmetic *)
Theorem C20_bucket_bound b times t1 t2 :
  wf_bucket b -> nondecreasing_from (bk_last b) times -> t1 <= t2 ->
  grants_in t1 t2 (run_allow b times) * bk_per b <= bk_burst b * bk_per b + bk_tokens b * (t2 - t1).
Proof. exact (bucket_bound b times t1 t2). Qed.

(* all grants of a history up to time t2: at most what was in the bucket plus the refill since *)
Theorem C20_bucket_bound_total b times t2 :
  wf_bucket b -> nondecreasing_from (bk_last b) times ->
  Forall (fun t => t <= t2) times -> bk_last b <= t2 ->
  grants (run_allow b times) * bk_per b <= bk_level b + bk_tokens b * (t2 - bk_last b).
Proof. exact (bucket_bound_total b times t2). Qed.

(* rate 0 (rate.NewLimiter(0, burst)): exactly the first `burst` calls are granted, at any times *)
Theorem C20_zero_rate_exact per burst now times :
  0 < per -> 0 <= burst ->
  grants (run_allow (new_bucket 0 per burst now) times) = Z.min (Z.of_nat (length times)) burst.
Proof. exact (zero_rate_exact per burst now times). Qed.

Theorem C20_zero_rate_exhausted per burst now times :
  0 < per -> 0 <= burst -> burst <= Z.of_nat (length times) ->
  grants (run_allow (new_bucket 0 per burst now) times) = burst /\
  forall t, snd (allow (final_bucket (new_bucket 0 per burst now) times) t) = false.
Proof. exact (zero_rate_exhausted per burst now times). Qed.

(* the server model's budget counter is the rate-0 bucket *)
Theorem C20_zero_rate_is_counter per burst last n now :
  0 < per -> Z.of_N n <= burst ->
  allow (mkBucket 0 per burst (Z.of_N n * per) last) now =
  (mkBucket 0 per burst (Z.of_N (fst (budget_take n)) * per) (Z.max last now), snd (budget_take n)).
Proof. exact (zero_rate_is_counter per burst last n now). Qed.

Theorem C20_allow_keeps_wf b t : wf_bucket b -> wf_bucket (fst (allow b t)).
Proof. exact (allow_wf b t). Qed.

Theorem C20_new_bucket_wf tokens per burst now :
  0 <= tokens -> 0 < per -> 0 <= burst -> wf_bucket (new_bucket tokens per burst now).
Proof. exact (new_bucket_wf tokens per burst now). Qed.

(* ---- non-vacuity ---- *)
Definition C20_ex_put (st : unit) (_ : witem) (_ : Z) : unit * put_result := (st, PutOk).
Definition C20_ex_get (st : unit) (_ : bytes) (_ : Z) : unit * get_result := (st, GetNotFound).
Definition C20_ex_sha1 (b : bytes) : bytes := b.
Definition C20_ex_secure (_ : N) (_ : bytes) : bool := true.
Definition C20_ex_cfg : config := mkCfg 1 false false true true (fun _ => true) false [x2a].
Definition C20_ex_src (last : byte) : addr := mkAddr [x0a; x00; x00; last] 6881.
Definition C20_ex_args : msg_args :=
  mkArgs (ofN 20 5) zero20 zero20 [] None false None 0 0 None None 0 zero32 [] zero64.
Definition C20_ex_query (q : bytes) : msg := mkMsg q (Some C20_ex_args) [x61; x61] s_q None None empty_na false [].
Definition C20_ex_run (budget : option N) (evs : list event) : option (list (list effect)) :=
  option_map snd
    (run unit C20_ex_put C20_ex_get C20_ex_sha1 C20_ex_secure C20_ex_cfg
         (init_state unit tt 1000 [] budget) (map (fun e => (e, no_choice)) evs)).

(* a budget of 2 is exhausted by 3 queries (any methods, spoofed sources): two answers, then a drop;
   a rated outbound query then fails, an unrated one is still sent *)
Example C20_ex_budget_exhausted :
  option_map (map (fun out => (length (sends out), existsb (fun x => match x with EDropped 3 => true | _ => false end) out)))
    (C20_ex_run (Some 2%N)
       [EPacket (C20_ex_src x01) 60 (Some (C20_ex_query s_ping));
        EPacket (C20_ex_src x02) 60 (Some (C20_ex_query [x66; x6f; x6f]));
        EPacket (C20_ex_src x03) 60 (Some (C20_ex_query s_find_node));
        EQueryStart 7 (C20_ex_src x04) s_ping empty_args true (uvarint 0);
        EQueryStart 8 (C20_ex_src x04) s_ping empty_args false (uvarint 1)])
  = Some [(1%nat, false); (1%nat, false); (0%nat, true); (0%nat, true); (1%nat, false)].
Proof. vm_compute. reflexivity. Qed.

Example C20_ex_budget_exhausted_accounting :
  match C20_ex_run (Some 2%N)
       [EPacket (C20_ex_src x01) 60 (Some (C20_ex_query s_ping));
        EPacket (C20_ex_src x02) 60 (Some (C20_ex_query [x66; x6f; x6f]));
        EPacket (C20_ex_src x03) 60 (Some (C20_ex_query s_find_node))] with
  | Some outs => total_rated_sends
                   (map (fun e => (e, no_choice))
                        [EPacket (C20_ex_src x01) 60 (Some (C20_ex_query s_ping));
                         EPacket (C20_ex_src x02) 60 (Some (C20_ex_query [x66; x6f; x6f]));
                         EPacket (C20_ex_src x03) 60 (Some (C20_ex_query s_find_node))]) outs = 2%N
  | None => False
  end.
Proof. vm_compute. reflexivity. Qed.

(* without a limiter all three are answered *)
Example C20_ex_unlimited :
  option_map (map (fun out => length (sends out)))
    (C20_ex_run None
       [EPacket (C20_ex_src x01) 60 (Some (C20_ex_query s_ping));
        EPacket (C20_ex_src x02) 60 (Some (C20_ex_query [x66; x6f; x6f]));
        EPacket (C20_ex_src x03) 60 (Some (C20_ex_query s_find_node))])
  = Some [1%nat; 1%nat; 1%nat].
Proof. vm_compute. reflexivity. Qed.

(* the default limiter (250 per second, burst 25): 30 calls at time 0 get 25 grants; 4 ms later
   exactly one more token is there; the window bound is met with equality by this trace *)
Definition C20_ex_bucket : bucket := new_bucket default_limiter_rate 1000000000 default_limiter_burst 0.
Definition C20_ex_times : list Z := repeat 0 30 ++ [4000000; 4000000; 4000001].

Example C20_ex_default_limiter :
  wf_bucket C20_ex_bucket /\ nondecreasing_from (bk_last C20_ex_bucket) C20_ex_times /\
  grants (run_allow C20_ex_bucket C20_ex_times) = 26 /\
  grants_in (-1) 4000001 (run_allow C20_ex_bucket C20_ex_times) = 26 /\
  grants_in 0 4000001 (run_allow C20_ex_bucket C20_ex_times) = 1 /\
  map snd (skipn 30 (run_allow C20_ex_bucket C20_ex_times)) = [true; false; false].
Proof.
  split; [apply new_bucket_wf; vm_compute; congruence|].
  split; [vm_compute; intuition congruence|].
  vm_compute. repeat split.
Qed.

(* rate 0, burst 2: three calls, two grants *)
Example C20_ex_zero_rate :
  map snd (run_allow (new_bucket 0 1000000000 2 0) [5; 5000000000; 9000000000000]) = [true; true; false].
Proof. vm_compute. reflexivity. Qed.

(* ---- pins ---- *)
Example C20_pin_default_limiter :
  default_limiter_rate = 250 /\ default_limiter_rate_ok = true /\
  default_limiter_burst = 25 /\ default_limiter_burst_ok = true.
Proof. repeat split. Qed.

From Coq Require Import String.
(* ---- structural pin (srcfacts): the limiter is consulted in the single outbound write routine ---- *)
Example C20_pin_limiter_in_write_routine :
  limiter_callers = ["writeToNode"]%string /\ limiter_callers_ok = true /\
  socket_writeto_callers = ["writeToNode"]%string /\
  write_to_node_callers = ["reply"; "sendError"; "transactionQuerySender"]%string.
Proof. repeat split. Qed.

Print Assumptions C20_budget_step.
Print Assumptions C20_run_budget.
Print Assumptions C20_run_bound.
Print Assumptions C20_no_budget_no_send.
Print Assumptions C20_no_budget_reply_dropped.
Print Assumptions C20_no_budget_query_fails.
Print Assumptions C20_unrated_query_free.
Print Assumptions C20_unlimited_unchanged.
Print Assumptions C20_run_unlimited.
Print Assumptions C20_bucket_bound.
Print Assumptions C20_bucket_bound_total.
Print Assumptions C20_zero_rate_exact.
Print Assumptions C20_zero_rate_exhausted.
Print Assumptions C20_zero_rate_is_counter.


(* ================= C20, outbound queries: the per-send rate policy of Server.Query =================
   (Query.v, QueryProofs.v; tied to /repo by the `query` engine's policy x NumTries x budget grid) *)
From Dht Require Query QueryProofs.

Local Close Scope Z_scope.
Section C20_query.
  Import Query QueryProofs.

  (* the closure in transactionQuerySender, with w = datagrams this query has written so far *)
  Theorem C20_query_policy rl w :
    send_wait rl w = (if Nat.eqb w 0 then negb (rl_no_wait_first rl) else rl_wait_on_retries rl) /\
    send_rated rl w = (negb (rl_not_any rl) && (if Nat.eqb w 0 then negb (rl_not_first rl) else true)).
  Proof. exact (query_policy rl w). Qed.

  Theorem C20_query_policy_table w :
    send_rated rl_zero w = true /\
    send_rated (mkRL true false false false) w = negb (Nat.eqb w 0) /\
    send_rated (mkRL false true false false) w = false /\
    send_rated (mkRL true true false false) w = false /\
    send_rated (mkRL false false true false) w = true /\
    send_rated (mkRL false false false true) w = true /\
    send_wait rl_zero w = Nat.eqb w 0 /\
    send_wait (mkRL false false true false) w = true /\
    send_wait (mkRL false false false true) w = false.
  Proof. exact (query_policy_table w). Qed.

  (* over ALL event schedules: the units a query consumed plus the units left are the units available at
     its start (so rated sends <= budget), rated sends <= datagrams <= send() calls <= NumTries, and a
     send is attempted only while every earlier one succeeded *)
  Theorem C20_query_budget c c0 b0 ls :
    let s := run c c0 b0 ls in
    (qc_exact c = true -> q_rated s <= b0 /\ q_rated s + q_budget s = b0) /\
    q_rated s <= q_writes s /\ q_writes s <= q_sends s /\ q_sends s <= qc_tries c /\
    (forall x, (enabled c s ESendOk = true \/ enabled c s (ESendErr x) = true) -> q_fail s = None /\ q_writes s = q_sends s).
  Proof. exact (query_budget c c0 b0 ls). Qed.

  (* a rated first send against an empty budget: nothing is ever written, no unit is taken, and the query
     returns an error (rate limit -- or closed / blocked / the caller's own cancellation if that comes first) *)
  Theorem C20_query_no_budget_fails c c0 ls :
    1 <= qc_tries c -> qc_exact c = true -> send_rated (qc_rl c) 0 = true ->
    let s := run c c0 0 ls in
    q_writes s = 0 /\ q_rated s = 0 /\
    (forall r, q_result s = Some r ->
       (exists x, r = RSendErr x /\ (x = CRate \/ (x = CClosed /\ q_closed s = true) \/ (x = CBlocked /\ q_blocked s = true))) \/
       (r = RCtx /\ q_ctx s = true) \/ r = RReply).
  Proof. exact (query_no_budget_fails c c0 ls). Qed.
End C20_query.

(* non-vacuity: NotFirst with 3 tries and a budget of 1: first send unrated, second takes the unit, third refused *)
Example C20_query_nonvacuous :
  let c := Query.mkQC 3 false (Query.mkRL true false false false) true in
  let s := Query.run c false 1 [Query.LRegister; Query.ESendOk; Query.EDelayElapsed; Query.ESendOk; Query.EDelayElapsed;
                                Query.ESendErr Query.CRate; Query.LSelSendErr; Query.LCancelSend; Query.LJoin; Query.LDeregister] in
  (Query.q_writes s, Query.q_rated s, Query.q_budget s, Query.q_result s) = (2, 1, 0, Some (Query.RSendErr Query.CRate)) /\
  (* the third send cannot succeed in that state *)
  Query.enabled c (Query.run c false 1 [Query.LRegister; Query.ESendOk; Query.EDelayElapsed; Query.ESendOk; Query.EDelayElapsed]) Query.ESendOk = false.
Proof. vm_compute. split; reflexivity. Qed.

Print Assumptions C20_query_policy.
Print Assumptions C20_query_policy_table.
Print Assumptions C20_query_budget.
Print Assumptions C20_query_no_budget_fails.
