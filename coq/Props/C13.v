(* C13 — BEP 44 versions only move forward: seq, CAS and expiry.
   Statements only; every proof is `exact <lemma>` from proofs/Bep44Proofs.v, Bep44SchedProofs.v.
   All theorems are parametric in [sha1] and [ed_verify] (Section variables, no axioms).
   The positive theorems are about the REPAIRED behaviour (cas compared with the stored seq, Wrapper
   operations under one mutex); [C13_cas_refuted_pinned] and [C13_monotone_sched_refuted_pinned]
   document that the tree as pinned violates the property (findings D6, D7).
   Residue (trusted, not proved): sync.Mutex gives mutual exclusion; the interleaving granularity is
   the underlying store's Get/Put/Del calls. *)
From Dht Require Import Base Bep44 Bep44Fault Bep44Rebuild Bep44Proofs Bep44SchedProofs Bep44FaultProofs Bep44RebuildProofs Sha1.
From DhtGen Require Import Params.
Local Open Scope Z_scope.

Section C13.
  Variable sha1 : bytes -> bytes.
  Variable ed_verify : bytes -> bytes -> bytes -> bool.
  Notation target := (target sha1).
  Notation check := (check ed_verify).
  Notation wrapper_put := (wrapper_put sha1 ed_verify).
  Notation seq_step := (seq_step sha1 ed_verify).
  Notation seq_run := (seq_run sha1 ed_verify).
  Notation g_run := (g_run sha1 ed_verify).
  Notation g_next := (g_next sha1 ed_verify).

  (* ---- the exact decision table of a put against a stored item; precedence as in the code: 302 first.
          The CAS rule applies to every put not rejected by 302, including the same-seq refresh. ---- *)
  Theorem C13_decision now i s st :
    check i = None -> store_get (target i) s = Some st ->
    let lower := it_seq i < it_seq st \/ (it_seq i = it_seq st /\ it_bv i <> it_bv st) in
    let casbad := it_cas i <> 0 /\ it_cas i <> it_seq st in
    (lower -> wrapper_put Repaired now i s = (PErr 302, s)) /\
    (~ lower -> casbad -> wrapper_put Repaired now i s = (PErr 301, s)) /\
    (~ lower -> ~ casbad -> wrapper_put Repaired now i s = (POk, store_put (target i) (stamp now i) s)).
  Proof. exact (wrapper_put_decision_prop sha1 ed_verify now i s st). Qed.

  Theorem C13_decision_empty_slot v now i s :
    check i = None -> store_get (target i) s = None ->
    wrapper_put v now i s = (POk, store_put (target i) (stamp now i) s).
  Proof. exact (wrapper_put_fresh sha1 ed_verify v now i s). Qed.

  (* ---- every event of every history (API put/get, wire put/get, Server.Put, time): an occupied slot
          keeps or raises its seq, or is deleted by a get that found it expired ---- *)
  Theorem C13_monotone_step v exp st e t a :
    seq_of t (s_store st) = Some a ->
    (exists b, seq_of t (s_store (fst (seq_step v exp st e))) = Some b /\ a <= b) \/
    (seq_of t (s_store (fst (seq_step v exp st e))) = None /\
     (e = EGet t \/ exists sq, e = EWireGet t sq) /\
     exists i, store_get t (s_store st) = Some i /\ it_created i + exp <= s_clock st).
  Proof. exact (seq_step_mono sha1 ed_verify v exp st e t a). Qed.

  (* ---- over every sequential history: while the item lives its seq never decreases ---- *)
  Theorem C13_monotone_seq v exp t evs st a :
    seq_of t (s_store st) = Some a -> alive_run sha1 ed_verify v exp t evs st ->
    exists b, seq_of t (s_store (seq_run v exp evs st)) = Some b /\ a <= b.
  Proof. exact (seq_run_monotone sha1 ed_verify v exp t evs st a). Qed.

  (* ---- an accepted put is what later gets (API and wire) return, until a later accepted put on the
          same target or the expiry ---- *)
  Theorem C13_accepted_is_served v exp now i s s1 evs :
    wrapper_put v now i s = (POk, s1) ->
    quiet_run sha1 ed_verify v exp (target i) (now + exp) evs (mkSState now s1) ->
    let x := stamp now i in
    store_get (target i) (s_store (seq_run v exp evs (mkSState now s1))) = Some x /\
    Forall (fun '(st', e, o) =>
              (e = EGet (target i) -> o = OGet (Some x)) /\
              (forall sq, e = EWireGet (target i) sq ->
                 o = OWireGet (mkGetReply (Some (it_seq i))
                        (if match sq with Some n => it_seq i <=? n | None => false end then None
                         else Some (it_bv i, it_k i, it_sig i)))))
           (seq_trace sha1 ed_verify v exp evs (mkSState now s1)).
  Proof. exact (accepted_is_served sha1 ed_verify v exp now i s s1 evs). Qed.

  (* ---- expiry: an item whose age reached [exp] is not served (and is deleted); a served item is
          younger than [exp] ---- *)
  Theorem C13_expiry exp now t s i :
    store_get t s = Some i -> it_created i + exp <= now ->
    wrapper_get exp now t s = (None, store_del t s) /\
    (forall sq, handle_get exp now t sq s = (mkGetReply None None, store_del t s)) /\
    forall now', wrapper_get exp now' t (store_del t s) = (None, store_del t s).
  Proof.
    intros G L. split; [exact (proj1 (wrapper_get_expired sha1 ed_verify exp now t s i G L))|].
    split; [intros sq; exact (handle_get_expired sha1 ed_verify exp now t sq s i G L)|
            exact (proj2 (wrapper_get_expired sha1 ed_verify exp now t s i G L))].
  Qed.

  Theorem C13_served_is_fresh exp now t s i s' :
    wrapper_get exp now t s = (Some i, s') -> store_get t s = Some i /\ s' = s /\ now < it_created i + exp.
  Proof. exact (wrapper_get_served exp now t s i s'). Qed.

  (* ---- a get naming a sequence number is sent the value iff the stored, unexpired one is newer ---- *)
  Theorem C13_get_seq exp now t sq s :
    gr_val (fst (handle_get exp now t sq s)) <> None <->
    exists i, store_get t s = Some i /\ now < it_created i + exp /\
              match sq with Some n => n < it_seq i | None => True end.
  Proof. exact (handle_get_seq sha1 ed_verify exp now t sq s). Qed.

  (* ---- a failing underlying Store (bep44.Store is an interface: any of the s.Get / s.Put / s.Del calls
          made by one wrapper operation may return an error other than ErrItemNotFound, [faults]) ----
     A put hit by faults either behaves exactly like the put over a healthy store or returns the
     store's error (never "accepted") and leaves the store unchanged; in particular a failing read
     never lets a put through unchecked. *)
  Theorem C13_faulty_store_put v f now i s :
    (wrapper_put_f sha1 ed_verify v f now i s = wrapper_put v now i s \/
     (wrapper_put_f sha1 ed_verify v f now i s = (POther, s) /\ (f_get f = true \/ f_put f = true))) /\
    (f_get f = true \/ f_put f = true ->
       fst (wrapper_put_f sha1 ed_verify v f now i s) <> POk /\ snd (wrapper_put_f sha1 ed_verify v f now i s) = s) /\
    (forall s', wrapper_put_f sha1 ed_verify v f now i s = (POk, s') ->
       f_get f = false /\ f_put f = false /\ wrapper_put v now i s = (POk, s')).
  Proof.
    split; [exact (wrapper_put_f_dichotomy sha1 ed_verify v f now i s)|]. split.
    - intros [F|F]; [exact (let '(conj a (conj b _)) := wrapper_put_f_get_fault sha1 ed_verify v f now i s F in conj a b)|
                     exact (wrapper_put_f_put_fault sha1 ed_verify v f now i s F)].
    - exact (wrapper_put_f_ok_inv sha1 ed_verify v f now i s).
  Qed.

  (* a lower seq (or the same seq with another value) is never accepted, whatever fails *)
  Theorem C13_faulty_store_lower_rejected f now i s st :
    check i = None -> store_get (target i) s = Some st ->
    it_seq i < it_seq st \/ (it_seq i = it_seq st /\ it_bv i <> it_bv st) ->
    fst (wrapper_put_f sha1 ed_verify Repaired f now i s) <> POk /\
    snd (wrapper_put_f sha1 ed_verify Repaired f now i s) = s.
  Proof. exact (wrapper_put_f_lower_rejected sha1 ed_verify f now i s st). Qed.

  (* wire put and Server.Put: an error reply (no "ok") / no query, store unchanged *)
  Theorem C13_faulty_store_wire v f now a p s :
    f_get f = true \/ f_put f = true ->
    ((exists c, fst (handle_put_f sha1 ed_verify v f now a s) = SError c) /\
     snd (handle_put_f sha1 ed_verify v f now a s) = s) /\
    ((exists r, r <> POk /\ fst (server_put_local_f sha1 ed_verify v f now p s) = LErr r) /\
     snd (server_put_local_f sha1 ed_verify v f now p s) = s).
  Proof.
    intros F. exact (conj (handle_put_f_fault sha1 ed_verify v f now a s F)
                          (server_put_local_f_fault sha1 ed_verify v f now p s F)).
  Qed.

  (* the step theorem for every operation (API put/get, wire put/get, Server.Put) under every choice of
     failing store calls, and over every history mixing healthy and faulty operations *)
  Theorem C13_monotone_step_faulty v exp st e t a :
    seq_of t (s_store st) = Some a ->
    (exists b, seq_of t (s_store (fst (fseq_step sha1 ed_verify v exp st e))) = Some b /\ a <= b) \/
    (seq_of t (s_store (fst (fseq_step sha1 ed_verify v exp st e))) = None /\
     (exists f, e = FGet f t \/ exists sq, e = FWireGet f t sq) /\
     exists i, store_get t (s_store st) = Some i /\ it_created i + exp <= s_clock st).
  Proof. exact (fseq_step_mono sha1 ed_verify v exp st e t a). Qed.

  Theorem C13_monotone_seq_faulty v exp t evs st a :
    seq_of t (s_store st) = Some a -> mixed_alive sha1 ed_verify v exp t evs st ->
    exists b, seq_of t (s_store (mixed_run sha1 ed_verify v exp evs st)) = Some b /\ a <= b.
  Proof. exact (mixed_run_monotone sha1 ed_verify v exp t evs st a). Qed.

  (* a get over a failing store still sends a value only for the stored, unexpired, newer item *)
  Theorem C13_get_seq_faulty f exp now t sq s g s' bv k sg :
    handle_get_f f exp now t sq s = (FGReply g, s') -> gr_val g = Some (bv, k, sg) ->
    exists i, store_get t s = Some i /\ now < it_created i + exp /\
              bv = it_bv i /\ k = it_k i /\ sg = it_sig i /\ gr_seq g = Some (it_seq i) /\
              match sq with Some n => n < it_seq i | None => True end.
  Proof. exact (handle_get_f_value f exp now t sq s g s' bv k sg). Qed.

  (* ---- an underlying Store that rebuilds items (bep44.Store is an exported interface: an implementation
          may keep bep44.Put records, bencoded blobs or database rows, and can then carry the exported
          fields only; [skind] says where the time stamp of Wrapper.Put is lost) ----
     The verdict on a put and the sequence numbers it leaves are those over bep44.Memory, so every
     statement above about seq and CAS holds over every kind of store. *)
  Theorem C13_rebuilding_store_put k v now i s t :
    fst (wrapper_put_k sha1 ed_verify k v now i s) = fst (wrapper_put v now i s) /\
    seq_of t (snd (wrapper_put_k sha1 ed_verify k v now i s)) = seq_of t (snd (wrapper_put v now i s)).
  Proof.
    exact (conj (wrapper_put_k_result sha1 ed_verify k v now i s) (wrapper_put_k_seqs sha1 ed_verify k v now i s t)).
  Qed.

  (* the step theorem over every kind of store *)
  Theorem C13_monotone_step_rebuilding k v exp st e t a :
    seq_of t (s_store st) = Some a ->
    (exists b, seq_of t (s_store (fst (kseq_step sha1 ed_verify k v exp st e))) = Some b /\ a <= b) \/
    (seq_of t (s_store (fst (kseq_step sha1 ed_verify k v exp st e))) = None /\
     (e = EGet t \/ exists sq, e = EWireGet t sq)).
  Proof. exact (kseq_step_mono sha1 ed_verify k v exp st e t a). Qed.

  (* expiry: whatever a get hands out is the stored item and has not expired by the stamp the store
     handed back; an item handed back WITHOUT its stamp counts as expired under every expiry a
     time.Duration can hold, at every time from 1970 on (it is never given a new lease by a read) *)
  Theorem C13_rebuilding_store_expiry k exp now t s :
    (forall i s', wrapper_get_k k exp now t s = (Some i, s') ->
       s' = s /\ now < it_created i + exp /\
       exists st, store_get t s = Some st /\ (i = st \/ i = forget st)) /\
    (0 <= now -> exp <= max_duration -> k_forget_get k = true \/ all_forgotten s ->
       wrapper_get_k k exp now t s = (None, store_del t s)).
  Proof.
    exact (conj (wrapper_get_k_served k exp now t s) (wrapper_get_k_forgotten k exp now t s)).
  Qed.

  (* ... hence over a store that forgets the stamp no get of any history, API or wire, hands out an item:
     none older than the configured expiry is ever served *)
  Theorem C13_rebuilding_store_never_serves k v exp evs st :
    exp <= max_duration -> 0 <= s_clock st -> kinv k (s_store st) -> Forall forward evs ->
    Forall (fun o => obs_serves o = false) (kseq_obs sha1 ed_verify k v exp evs st).
  Proof. exact (kseq_run_never_serves sha1 ed_verify k v exp evs st). Qed.

  (* ---- concurrency: any number of threads, each a Wrapper.Put or Wrapper.Get with its own clock
          reading; every schedule at store-call granularity ---- *)
  Section Sched.
    Variable v : variant.
    Variable exp : Z.
    Variable ths : list thread.
    Variable s0 : store.

    (* the lock invariant: at most one thread is inside a Wrapper method *)
    Theorem C13_mutual_exclusion sched tid1 tid2 p1 p2 :
      let g := g_run true v exp ths sched (g_init ths s0) in
      nth_error (g_pcs g) tid1 = Some p1 -> nth_error (g_pcs g) tid2 = Some p2 ->
      ~ idle p1 -> ~ idle p2 -> tid1 = tid2 /\ g_lock g = Some tid1.
    Proof. exact (mutual_exclusion sha1 ed_verify v exp ths s0 sched tid1 tid2 p1 p2). Qed.

    (* every step of every schedule: the stored seq of a slot does not decrease (or the slot was
       deleted by a get thread that found it expired) *)
    Theorem C13_monotone_sched_step sched tid t a :
      let g := g_run true v exp ths sched (g_init ths s0) in
      let g' := g_next true v exp ths g tid in
      seq_of t (g_store g) = Some a ->
      (exists b, seq_of t (g_store g') = Some b /\ a <= b) \/
      (seq_of t (g_store g') = None /\
       exists th i, In th ths /\ th_op th = TGet t /\ store_get t (g_store g) = Some i /\
                    it_created i + exp <= th_now th).
    Proof. exact (sched_step_monotone sha1 ed_verify v exp ths s0 sched tid t a). Qed.

    (* along every schedule, from any point of it: while the item lives its seq never decreases *)
    Theorem C13_monotone_sched t sched1 sched2 a :
      let g1 := g_run true v exp ths sched1 (g_init ths s0) in
      seq_of t (g_store g1) = Some a -> g_alive sha1 ed_verify v exp ths t sched2 g1 ->
      exists b, seq_of t (g_store (g_run true v exp ths sched2 g1)) = Some b /\ a <= b.
    Proof. exact (sched_monotone sha1 ed_verify v exp ths s0 t sched1 sched2 a). Qed.

    (* every complete run is a sequential execution of the threads in some order, each thread
       obtaining the result it obtains in that sequential execution *)
    Theorem C13_sched_linearizable sched :
      let g := g_run true v exp ths sched (g_init ths s0) in
      all_done ths g ->
      exists hist,
        lin sha1 ed_verify v exp ths s0 hist (g_store g) /\ NoDup (map fst hist) /\
        (forall tid r, nth_error (g_pcs g) tid = Some (PcDone r) <-> In (tid, r) hist) /\
        (forall tid, (tid < length ths)%nat <-> In tid (map fst hist)).
    Proof. exact (sched_linearizable sha1 ed_verify v exp ths s0 sched). Qed.

    (* concurrent puts: the final item of a slot is an accepted put of the greatest accepted seq
       (or the initial content when no put on the slot was accepted) *)
    Theorem C13_final_is_greatest_accepted sched t :
      let g := g_run true v exp ths sched (g_init ths s0) in
      (forall th, In th ths -> exists i, th_op th = TPut i) ->
      all_done ths g ->
      let accepted tid th i :=
        nth_error (g_pcs g) tid = Some (PcDone (RPut POk)) /\ nth_error ths tid = Some th /\
        th_op th = TPut i /\ target i = t in
      (store_get t (g_store g) = store_get t s0 /\ forall tid th i, ~ accepted tid th i) \/
      (exists tid th i,
         accepted tid th i /\ store_get t (g_store g) = Some (stamp (th_now th) i) /\
         forall tid' th' i', accepted tid' th' i' -> it_seq i' <= it_seq i).
    Proof. exact (sched_final_put sha1 ed_verify v exp ths s0 sched t). Qed.
  End Sched.
End C13.

(* ---- findings on the pinned tree ---- *)
(* D6: CheckIncoming compares the stored item's own cas field with the incoming cas *)
Theorem C13_cas_refuted_pinned :
  (exists hist : list event,
     let run v := seq_run sha1 ver_all v 1000 hist (mkSState 0 []) in
     let put := witem [x69; x32; x65] 3 6 in
     seq_of wt (s_store (run Pinned)) = Some 5 /\
     fst (wrapper_put sha1 ver_all Pinned 0 put (s_store (run Pinned))) = POk /\
     fst (wrapper_put sha1 ver_all Repaired 0 put (s_store (run Repaired))) = PErr 301) /\
  (exists hist : list event,
     let run v := seq_run sha1 ver_all v 1000 hist (mkSState 0 []) in
     let put := witem [x69; x32; x65] 5 6 in
     seq_of wt (s_store (run Pinned)) = Some 5 /\
     fst (wrapper_put sha1 ver_all Pinned 0 put (s_store (run Pinned))) = PErr 301 /\
     fst (wrapper_put sha1 ver_all Repaired 0 put (s_store (run Repaired))) = POk).
Proof. exact (conj cas_mismatch_accepted_pinned cas_match_rejected_pinned). Qed.

(* D7: without mutual exclusion the stored seq decreases (lost update) and a get deletes a fresh item *)
Theorem C13_monotone_sched_refuted_pinned :
  (exists (ths : list thread) (sched1 : list nat) (tid : nat),
     let s0 := snd (wrapper_put sha1 ver_all Pinned 0 (witem [x69; x31; x65] 0 1) []) in
     let g1 := g_run sha1 ver_all false Pinned 1000 ths sched1 (g_init ths s0) in
     let g2 := g_next sha1 ver_all false Pinned 1000 ths g1 tid in
     seq_of wt s0 = Some 1 /\
     seq_of wt (g_store g1) = Some 5 /\ seq_of wt (g_store g2) = Some 3 /\
     nth_error (g_pcs g2) 0 = Some (PcUnlock (RPut POk)) /\ nth_error (g_pcs g2) 1 = Some (PcUnlock (RPut POk))) /\
  (exists (ths : list thread) (sched : list nat),
     let s0 := snd (wrapper_put sha1 ver_all Pinned 0 (witem [x69; x31; x65] 0 1) []) in
     let g := g_run sha1 ver_all false Pinned 1000 ths sched (g_init ths s0) in
     g_pcs g = [PcDone (RGet None); PcDone (RPut POk)] /\ store_get wt (g_store g) = None).
Proof. exact (conj lost_update_pinned fresh_item_deleted_pinned). Qed.

(* ---- non-vacuity: concrete states meeting the hypotheses ---- *)
(* a history with an accepted update, a 302, a 301, a refresh, an expiry *)
Example C13_nonvacuous_history :
  let i1 := witem [x69; x31; x65] 0 1 in
  let i2 := witem [x69; x32; x65] 1 2 in
  let run evs := seq_run sha1 ver_all Repaired 1000 evs (mkSState 0 []) in
  check ver_all i1 = None /\
  seq_of wt (s_store (run [EPut i1])) = Some 1 /\
  seq_of wt (s_store (run [EPut i1; EPut i2])) = Some 2 /\
  snd (seq_step sha1 ver_all Repaired 1000 (run [EPut i1; EPut i2]) (EPut i1)) = OPut (PErr 302) /\
  snd (seq_step sha1 ver_all Repaired 1000 (run [EPut i1; EPut i2]) (EPut (witem [x69; x33; x65] 1 3))) = OPut (PErr 301) /\
  snd (seq_step sha1 ver_all Repaired 1000 (run [EPut i1; EPut i2]) (EPut (witem [x69; x33; x65] 2 3))) = OPut POk /\
  snd (seq_step sha1 ver_all Repaired 1000 (run [EPut i1; EAdvance 999]) (EGet wt)) = OGet (Some i1) /\
  snd (seq_step sha1 ver_all Repaired 1000 (run [EPut i1; EAdvance 1000]) (EGet wt)) = OGet None /\
  alive_run sha1 ver_all Repaired 1000 wt [EPut i2; EAdvance 5; EGet wt] (run [EPut i1]) /\
  quiet_run sha1 ver_all Repaired 1000 wt 1000 [EPut i1; EAdvance 5; EGet wt] (run [EPut i2]).
Proof. vm_compute. repeat split; discriminate. Qed.

(* a failing read while a stale put (seq 3 over stored seq 5) arrives: refused, nothing changes; the
   same history over the healthy store is a 302; a failing write refuses a valid update *)
Example C13_nonvacuous_faulty :
  let i5 := witem [x69; x35; x65] 0 5 in
  let i3 := witem [x69; x33; x65] 0 3 in
  let i6 := witem [x69; x36; x65] 0 6 in
  let s5 := snd (wrapper_put sha1 ver_all Repaired 0 i5 []) in
  let st := mkSState 7 s5 in
  seq_of wt s5 = Some 5 /\
  fseq_step sha1 ver_all Repaired 1000 st (FPut (mkFaults true false false) i3) = (st, FOPut POther) /\
  fseq_step sha1 ver_all Repaired 1000 st (FPut no_faults i3) = (st, FOPut (PErr 302)) /\
  fseq_step sha1 ver_all Repaired 1000 st (FPut (mkFaults false true false) i6) = (st, FOPut POther) /\
  fseq_step sha1 ver_all Repaired 1000 st (FWirePut (mkFaults true false false)
     (mkPutArgs [x69; x33; x65] wk [] wsig 0 (Some 3))) = (st, FOWirePut (SError 204)) /\
  fseq_step sha1 ver_all Repaired 1000 st (FWireGet (mkFaults true false false) wt None) = (st, FOWireGet (FGError 201)) /\
  fseq_step sha1 ver_all Repaired 1000 (mkSState 2000 s5) (FGet (mkFaults false false true) wt) = (mkSState 2000 s5, FOGet FGOther) /\
  seq_of wt (s_store (fst (fseq_step sha1 ver_all Repaired 1000 st (FPut no_faults i6)))) = Some 6 /\
  mixed_alive sha1 ver_all Repaired 1000 wt
    [inr (FPut (mkFaults true false false) i3); inl (EPut i6); inr (FGet (mkFaults true false true) wt)] st.
Proof. vm_compute. repeat split; discriminate. Qed.

(* a record store (stamp lost on write) and a rebuild-on-read store: the put decisions are those of the
   plain store (accepted, 302), a get right after the put serves nothing and deletes the slot; the same
   history over a store that keeps the stamp serves the item *)
Example C13_nonvacuous_rebuilding :
  let i5 := witem [x69; x35; x65] 0 5 in
  let i3 := witem [x69; x33; x65] 0 3 in
  let kw := mkKind true false in
  let kr := mkKind false true in
  let st0 := mkSState 7 [] in
  let after k := fst (kseq_step sha1 ver_all k Repaired 1000 st0 (EPut i5)) in
  kinv kw (s_store st0) /\ kinv kr (s_store st0) /\
  seq_of wt (s_store (after kw)) = Some 5 /\ seq_of wt (s_store (after kr)) = Some 5 /\
  snd (kseq_step sha1 ver_all kw Repaired 1000 (after kw) (EPut i3)) = OPut (PErr 302) /\
  snd (kseq_step sha1 ver_all kr Repaired 1000 (after kr) (EPut i3)) = OPut (PErr 302) /\
  kseq_step sha1 ver_all kw Repaired 1000 (after kw) (EGet wt) = (st0, OGet None) /\
  kseq_step sha1 ver_all kr Repaired 1000 (after kr) (EGet wt) = (st0, OGet None) /\
  kseq_step sha1 ver_all kr Repaired 1000 (after kr) (EWireGet wt None) = (st0, OWireGet (mkGetReply None None)) /\
  snd (kseq_step sha1 ver_all plain_kind Repaired 1000 (after plain_kind) (EGet wt)) = OGet (Some (stamp 7 i5)) /\
  kseq_obs sha1 ver_all kw Repaired 1000 [EPut i5; EAdvance 3; EGet wt; EWireGet wt (Some 1)] st0 =
    [OPut POk; ONone; OGet None; OWireGet (mkGetReply None None)].
Proof.
  cbv zeta. split; [apply kinv_empty; reflexivity|]. split; [apply kinv_empty; reflexivity|].
  vm_compute. repeat split; discriminate.
Qed.

(* a complete locked run of two puts and a get; all threads finish *)
Example C13_nonvacuous_sched :
  let ths := [mkThread (TPut (witem [x69; x35; x65] 0 5)) 10; mkThread (TPut (witem [x69; x33; x65] 0 3)) 10;
              mkThread (TGet wt) 20] in
  let s0 := snd (wrapper_put sha1 ver_all Repaired 0 (witem [x69; x31; x65] 0 1) []) in
  let g := g_run sha1 ver_all true Repaired 1000 ths [1; 0; 2; 1; 1; 1; 0; 2; 0; 0; 0; 2; 2; 2]%nat (g_init ths s0) in
  g_pcs g = [PcDone (RPut POk); PcDone (RPut POk); PcDone (RGet (Some (stamp 10 (witem [x69; x35; x65] 0 5))))] /\
  seq_of wt (g_store g) = Some 5 /\ g_lock g = None.
Proof. vm_compute. repeat split. Qed.

(* ---- pins: the constants the property names, as found in /repo now ---- *)
Example C13_pin_codes :
  bep44_ErrCasHashMismatched = 301 /\ bep44_ErrCasHashMismatched_ok = true /\
  bep44_ErrSequenceNumberLessThanCurrent = 302 /\ bep44_ErrSequenceNumberLessThanCurrent_ok = true /\
  err_CasHashMismatched = 301 /\ err_CasHashMismatched_ok = true /\
  err_SequenceNumberLessThanCurrent = 302 /\ err_SequenceNumberLessThanCurrent_ok = true.
Proof. repeat split. Qed.

Print Assumptions C13_decision.
Print Assumptions C13_monotone_step.
Print Assumptions C13_monotone_seq.
Print Assumptions C13_accepted_is_served.
Print Assumptions C13_expiry.
Print Assumptions C13_get_seq.
Print Assumptions C13_faulty_store_put.
Print Assumptions C13_faulty_store_lower_rejected.
Print Assumptions C13_faulty_store_wire.
Print Assumptions C13_monotone_step_faulty.
Print Assumptions C13_monotone_seq_faulty.
Print Assumptions C13_get_seq_faulty.
Print Assumptions C13_rebuilding_store_put.
Print Assumptions C13_monotone_step_rebuilding.
Print Assumptions C13_rebuilding_store_expiry.
Print Assumptions C13_rebuilding_store_never_serves.
Print Assumptions C13_mutual_exclusion.
Print Assumptions C13_monotone_sched_step.
Print Assumptions C13_monotone_sched.
Print Assumptions C13_sched_linearizable.
Print Assumptions C13_final_is_greatest_accepted.
Print Assumptions C13_cas_refuted_pinned.
Print Assumptions C13_monotone_sched_refuted_pinned.
