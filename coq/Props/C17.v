(* C17 — BEP 42 node-ID security is computed exactly as specified.
   This file holds statements only; every proof is `exact <lemma>` from proofs/SecurityProofs.v.
   The functions are the executable ones of model/Security.v, instantiated with the bitwise
   CRC-32C of model/Crc32c.v and the SHA-1 of model/Sha1.v (both compared with the Go library
   on every run by the `security` engine).  ids are 20-byte strings, an ip is [valid_ip] when it
   has 4 or 16 bytes (a Go net.IP of any other length makes crcIP panic or use garbage; the
   model shows that as [None], see [C17_short_ip_panics]). *)
From Dht Require Import Base Sha1 Crc32c Security Int160Proofs SecurityProofs.
From DhtGen Require Import Params.
Local Open Scope N_scope.

(* ---- no index panic for 4- and 16-byte addresses ---- *)
Theorem C17_no_panic id ip :
  valid_ip ip ->
  (exists id', secure_node_id id ip = Some id') /\ (exists b, node_id_secure id ip = Some b).
Proof. intros H. split; [exact (secure_no_panic crc32c id ip H) | exact (verify_no_panic crc32c id ip H)]. Qed.

(* ---- securing changes only the first 21 bits: bytes 3..19 and the low 3 bits of byte 2 are
        kept; as a 160-bit number the low 139 bits are kept ---- *)
Theorem C17_only_21_bits id ip id' :
  length id = 20%nat -> secure_node_id id ip = Some id' ->
  length id' = 20%nat
  /\ (forall k, (3 <= k)%nat -> nth k id' x00 = nth k id x00)
  /\ N.land (Byte.to_N (nthb 2 id')) 7 = N.land (Byte.to_N (nthb 2 id)) 7
  /\ toN id' mod 2 ^ 139 = toN id mod 2 ^ 139.
Proof. exact (only_21_bits crc32c id ip id'). Qed.

(* ---- idempotent ---- *)
Theorem C17_idempotent id ip id' :
  secure_node_id id ip = Some id' -> secure_node_id id' ip = Some id'.
Proof. exact (secure_idempotent crc32c id ip id'). Qed.

(* ---- the secured id verifies for that address ---- *)
Theorem C17_secures id ip :
  length id = 20%nat -> valid_ip ip ->
  exists id', secure_node_id id ip = Some id' /\ node_id_secure id' ip = Some true.
Proof. exact (secures crc32c id ip). Qed.

(* ---- verification = the BEP 42 rule, stated on words:
        local address, or  top 21 bits of id = top 21 bits of
        crc32c( ((ip & mask) | (id mod 8) << 29|61) as 4|8 big-endian bytes ) ---- *)
Theorem C17_agrees_spec id ip :
  length id = 20%nat -> valid_ip ip ->
  (node_id_secure id ip = Some true <-> bep42_ok ip id).
Proof. exact (verify_agrees_spec crc32c crc32c_lt id ip). Qed.

(* the byte-wise crcIP checksums exactly the word of the rule (IPv4, v4-mapped and IPv6) *)
Theorem C17_crc_ip_is_spec id ip :
  valid_ip ip -> length id = 20%nat -> crc_ip ip (nthb 19 id) = Some (spec_crc crc32c ip id).
Proof. exact (crc_ip_spec crc32c ip id). Qed.

(* ---- private, loopback and link-local addresses accept every id ---- *)
Theorem C17_local_exempt id ip :
  valid_ip ip -> spec_local ip = true -> node_id_secure id ip = Some true.
Proof. exact (local_exempt_spec crc32c id ip). Qed.

(* isLocalNetwork (IPNet.Contains / IsLinkLocalUnicast / IsLoopback on bytes) is exactly
   10/8, 172.16/12, 192.168/16, 169.254/16, 127/8 (plain or v4-mapped), fe80::/10 and ::1 *)
Theorem C17_is_local_spec ip : valid_ip ip -> is_local_network ip = spec_local ip.
Proof. exact (is_local_spec ip). Qed.

(* ---- the id a node generates for itself with a public ip verifies for that ip ---- *)
(* Conn and PublicIP present (what NewServer always produces when a PublicIP is configured and
   NodeId is left zero), whatever NoSecurity says: deterministic, secured, 20 bytes *)
Theorem C17_self_id c rnd nw addr ip :
  all_zero (cfg_node_id c) = true -> cfg_conn c = Some (nw, addr) -> cfg_public_ip c = Some ip ->
  valid_ip ip ->
  exists id, init_node_id c rnd = Some (id, true)
             /\ id = write_crc (hash_tuple [nw; addr; ip]) (spec_crc crc32c ip (hash_tuple [nw; addr; ip]))
             /\ length id = 20%nat /\ node_id_secure id ip = Some true.
Proof. exact (self_id_deterministic crc32c sha1 sha1_length c rnd nw addr ip). Qed.

(* direct InitNodeId call without a Conn, security on: the random id is secured *)
Theorem C17_self_id_random c rnd ip :
  all_zero (cfg_node_id c) = true -> cfg_conn c = None -> cfg_public_ip c = Some ip ->
  cfg_no_security c = false -> length rnd = 20%nat -> valid_ip ip ->
  exists id, init_node_id c rnd = Some (id, false)
             /\ length id = 20%nat /\ node_id_secure id ip = Some true.
Proof. exact (self_id_random_secure crc32c sha1 c rnd ip). Qed.

(* the remaining configuration stated as it is: no Conn and NoSecurity (the default of
   NewDefaultServerConfig) leaves the random id untouched even if a PublicIP is given; this is
   only reachable by calling InitNodeId directly, NewServer always sets Conn first *)
Theorem C17_self_id_no_conn_no_security c rnd :
  all_zero (cfg_node_id c) = true -> cfg_conn c = None -> cfg_no_security c = true ->
  init_node_id c rnd = Some (rnd, false).
Proof. exact (init_no_conn_no_security crc32c sha1 c rnd). Qed.

Theorem C17_init_keeps_configured_id c rnd :
  all_zero (cfg_node_id c) = false -> init_node_id c rnd = Some (cfg_node_id c, false).
Proof. exact (init_keeps_configured_id crc32c sha1 c rnd). Qed.

Theorem C17_init_no_panic c rnd :
  (forall ip, cfg_public_ip c = Some ip -> valid_ip ip) -> exists r, init_node_id c rnd = Some r.
Proof. exact (init_no_panic crc32c sha1 c rnd). Qed.

(* MakeDeterministicNodeID: sha1 of the address string, secured for the address' ip *)
Theorem C17_make_deterministic addr_str ip :
  valid_ip ip ->
  exists id, make_deterministic_node_id addr_str ip = Some id
             /\ length id = 20%nat /\ node_id_secure id ip = Some true.
Proof. exact (make_deterministic_verifies crc32c sha1 sha1_length addr_str ip). Qed.

(* the runner's acceptance of an observed InitNodeId result is exact *)
Theorem C17_accept_init_exact c obs det :
  length obs = 20%nat ->
  (accept_init_node_id c obs det = true <-> exists rnd, init_node_id c rnd = Some (obs, det)).
Proof. exact (accept_init_iff crc32c sha1 c obs det). Qed.

(* the two facts about the executable hashes the proofs rely on *)
Theorem C17_crc32c_is_32_bit m : crc32c m < 2 ^ 32.
Proof. exact (crc32c_lt m). Qed.
Theorem C17_sha1_is_20_bytes m : length (sha1 m) = 20%nat.
Proof. exact (sha1_length m). Qed.

(* ================= non-vacuity: concrete instances, computed through the real crc32c ======== *)
Definition ip4 (a b c d : N) : bytes := [byte_of_N a; byte_of_N b; byte_of_N c; byte_of_N d].
Definition id_rand (r : N) : bytes := repeat x00 19 ++ [byte_of_N r].
Definition first21 (o : option bytes) : option N := option_map (fun l => toN (firstn 3 l) / 8) o.

(* the five vectors of http://www.libtorrent.org/dht_sec.html (first 21 bits of the node id) *)
Example C17_spec_vector_1 : first21 (secure_node_id (id_rand 1) (ip4 124 31 75 21)) = Some (0x5fbfbf / 8).
Proof. vm_compute. reflexivity. Qed.
Example C17_spec_vector_2 : first21 (secure_node_id (id_rand 86) (ip4 21 75 31 124)) = Some (0x5a3ce9 / 8).
Proof. vm_compute. reflexivity. Qed.
Example C17_spec_vector_3 : first21 (secure_node_id (id_rand 22) (ip4 65 23 51 170)) = Some (0xa5d432 / 8).
Proof. vm_compute. reflexivity. Qed.
Example C17_spec_vector_4 : first21 (secure_node_id (id_rand 65) (ip4 84 124 73 14)) = Some (0x1b0321 / 8).
Proof. vm_compute. reflexivity. Qed.
Example C17_spec_vector_5 : first21 (secure_node_id (id_rand 90) (ip4 43 213 53 83)) = Some (0xe56f6c / 8).
Proof. vm_compute. reflexivity. Qed.

(* the full ids of the spec table verify; /repo/security_test.go's negative rows do not *)
Example C17_spec_ids_verify :
  node_id_secure (ofN 20 0x5fbfbff10c5d6a4ec8a88e4c6ab4c28b95eee401) (ip4 124 31 75 21) = Some true
  /\ node_id_secure (ofN 20 0x5a3ce9c14e7a08645677bbd1cfe7d8f956d53256) (ip4 21 75 31 124) = Some true
  /\ node_id_secure (ofN 20 0xa5d43220bc8f112a3d426c84764f8c2a1150e616) (ip4 65 23 51 170) = Some true
  /\ node_id_secure (ofN 20 0x1b0321dd1bb1fe518101ceef99462b947a01ff41) (ip4 84 124 73 14) = Some true
  /\ node_id_secure (ofN 20 0xe56f6cbf5b7c4be0237986d5243b87aa6d51305a) (ip4 43 213 53 83) = Some true.
Proof. vm_compute. repeat split; reflexivity. Qed.
Example C17_spec_ids_reject :
  (* 21st leading bit changed / 3rd last bit changed / not class A and wrong prefix *)
  node_id_secure (ofN 20 0x5a3ce1c14e7a08645677bbd1cfe7d8f956d53256) (ip4 21 75 31 124) = Some false
  /\ node_id_secure (ofN 20 0xe56f6cbf5b7c4be0237986d5243b87aa6d51303e) (ip4 43 213 53 83) = Some false
  /\ node_id_secure (ofN 20 0xe56f6cbf5b7c4be0237986d5243b87aa6d51305a) (ip4 12 213 53 83) = Some false.
Proof. vm_compute. repeat split; reflexivity. Qed.
(* the word-level rule holds / fails on the same rows (so [bep42_ok] is neither always true
   nor always false) *)
Example C17_spec_rule_holds : bep42_ok (ip4 124 31 75 21) (ofN 20 0x5fbfbff10c5d6a4ec8a88e4c6ab4c28b95eee401).
Proof. right. vm_compute. reflexivity. Qed.
Example C17_spec_rule_fails : ~ bep42_ok (ip4 21 75 31 124) (ofN 20 0x5a3ce1c14e7a08645677bbd1cfe7d8f956d53256).
Proof. intros [H|H]; vm_compute in H; discriminate H. Qed.

(* v4-mapped addresses are treated as their IPv4 address; IPv6 uses the 8-byte mask *)
Example C17_v4_mapped_same :
  secure_node_id (id_rand 1) (repeat x00 10 ++ [xff; xff] ++ ip4 124 31 75 21)
  = secure_node_id (id_rand 1) (ip4 124 31 75 21).
Proof. vm_compute. reflexivity. Qed.
Example C17_v6_example :
  let ip := ofN 16 0x20010db885a3000000008a2e03707334 in
  let id := id_rand 5 in
  match secure_node_id id ip with
  | Some id' => (negb (bytes_eqb id' id), node_id_secure id' ip, node_id_secure id ip)
  | None => (false, None, None)
  end = (true, Some true, Some false).
Proof. vm_compute. reflexivity. Qed.

(* local ranges and their boundaries *)
Example C17_local_examples :
  map is_local_network
    [ip4 10 255 255 255; ip4 11 0 0 0; ip4 172 15 255 255; ip4 172 16 0 0; ip4 172 31 255 255;
     ip4 172 32 0 0; ip4 192 168 0 1; ip4 192 169 0 1; ip4 169 254 1 1; ip4 127 0 0 1; ip4 128 0 0 1;
     repeat x00 10 ++ [xff; xff] ++ ip4 10 1 2 3;       (* v4-mapped private *)
     ofN 16 1;                                         (* ::1 *)
     ofN 16 0xfe800000000000000000000000000001;        (* fe80::1 *)
     ofN 16 0xfebfffffffffffffffffffffffffffff;        (* febf:ffff:... *)
     ofN 16 0xfec00000000000000000000000000001;        (* fec0::1 *)
     ofN 16 0x0a000001000000000000000000000001]        (* 0a00:1:: is not 10/8 *)
  = [true; false; false; true; true; false; true; false; true; true; false; true; true; true; true; false; false].
Proof. vm_compute. reflexivity. Qed.

(* the Go code indexes ip[i] for every mask byte: a net.IP shorter than the mask panics *)
Example C17_short_ip_panics :
  secure_node_id (id_rand 1) [x01; x02; x03] = None /\ node_id_secure (id_rand 1) [] = None
  /\ crc_ip [x01; x02; x03; x04; x05] x00 = None.
Proof. vm_compute. repeat split; reflexivity. Qed.

(* InitNodeId: a configuration with Conn and PublicIP (hypotheses of C17_self_id satisfiable) *)
Definition ex_cfg : node_cfg :=
  {| cfg_node_id := zero_bytes 20;
     cfg_conn := Some ([x75; x64; x70], [x30; x2e; x30; x2e; x30; x2e; x30; x3a; x34; x32]);  (* "udp", "0.0.0.0:42" *)
     cfg_public_ip := Some (ip4 124 31 75 21);
     cfg_no_security := true |}.
Example C17_self_id_example :
  let h := hash_tuple [[x75; x64; x70]; [x30; x2e; x30; x2e; x30; x2e; x30; x3a; x34; x32]; ip4 124 31 75 21] in
  match init_node_id ex_cfg (id_rand 9) with
  | Some (id, det) => (det, node_id_secure id (ip4 124 31 75 21), negb (bytes_eqb id h),
                       node_id_secure h (ip4 124 31 75 21))
  | None => (false, None, false, None)
  end = (true, Some true, true, Some false).
Proof. vm_compute. reflexivity. Qed.

(* ================= pins: the masks srcfacts read from security.go ================= *)
Example C17_pin_masks :
  mask4 = [3; 15; 63; 255]%Z /\ mask4_ok = true
  /\ mask6 = [1; 3; 7; 15; 31; 63; 127; 255]%Z /\ mask6_ok = true.
Proof. repeat split; reflexivity. Qed.
Example C17_pin_mask_words : toN mask4b = spec_mask4 /\ toN mask6b = spec_mask6
  /\ spec_mask4 = 0x030f3fff /\ spec_mask6 = 0x0103070f1f3f7fff.
Proof. repeat split; reflexivity. Qed.

Print Assumptions C17_no_panic.
Print Assumptions C17_only_21_bits.
Print Assumptions C17_idempotent.
Print Assumptions C17_secures.
Print Assumptions C17_agrees_spec.
Print Assumptions C17_crc_ip_is_spec.
Print Assumptions C17_local_exempt.
Print Assumptions C17_is_local_spec.
Print Assumptions C17_self_id.
Print Assumptions C17_self_id_random.
Print Assumptions C17_self_id_no_conn_no_security.
Print Assumptions C17_init_keeps_configured_id.
Print Assumptions C17_init_no_panic.
Print Assumptions C17_make_deterministic.
Print Assumptions C17_accept_init_exact.
Print Assumptions C17_crc32c_is_32_bit.
Print Assumptions C17_sha1_is_20_bytes.
Print Assumptions C17_pin_masks.
