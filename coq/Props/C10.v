(* C10 — writes (announce_peer, put) need a fresh token issued to the same IP.
   This file holds statements only; every proof is `exact <lemma>` from proofs/ServerC10.v.
   All theorems are about the executable model coq/model/Server.v and are parametric in the Section
   parameters (BEP 44 store wrapper, sha1, NodeIdSecure, configuration): no axioms.

   Times are nanoseconds since 1970 (time.UnixNano); [0 <= t] appears because the interval index is
   Go's truncating division.  The model's times are unbounded integers and be64 is the uint64
   conversion (mod 2^64), hence the int64 bounds in the rejection theorems.
   Rejection is stated twice: "... or SHA-1 collides on two named token preimages" (no hypothesis on
   sha1; meaningful for the real function) and under an explicit injectivity premise. *)
From Dht Require Import Base Int160 Msg Server ServerDefs ServerC10 Sha1.
From DhtGen Require Import Params.
Local Open Scope Z_scope.

Section C10.
  Variable Store : Type.
  Variable w_put : Store -> witem -> Z -> Store * put_result.
  Variable w_get : Store -> bytes -> Z -> Store * get_result.
  Variable sha1 : bytes -> bytes.
  Variable id_secure : N -> bytes -> bool.
  Variable cfg : config.

  Notation step := (step Store w_put w_get sha1 id_secure cfg).
  Notation token_for := (token_for sha1 cfg).
  Notation create_token := (create_token sha1 cfg).
  Notation valid_token := (valid_token sha1 cfg).
  Notation valid_token_from := (valid_token_from sha1 cfg).
  Notation collision := (collision sha1).
  Notation s_now := (s_now Store).
  Notation s_peers := (s_peers Store).
  Notation s_store := (s_store Store).
  Notation s_pending := (s_pending Store).
  Notation s_blocklist := (s_blocklist Store).
  Notation s_closed := (s_closed Store).
  Notation s_next_t := (s_next_t Store).
  Notation s_budget := (s_budget Store).

  (* ================= the token helper (tokens.go) ================= *)

  (* ValidToken = "is the token of the current interval or of one of the previous n" *)
  Theorem C10_valid_token_iff ip16 tok now n :
    valid_token_from ip16 tok now n = true <->
    exists j, (j <= n)%nat /\ tok = token_for ip16 (token_idx (now - Z.of_nat j * token_interval_ns)).
  Proof. exact (valid_token_iff sha1 cfg ip16 tok now n). Qed.

  (* a token validates iff it is a string this node issues to that address at the current time or
     one / two rotation intervals earlier.  No assumption on sha1: every other string — absent,
     mutated, truncated, extended, made by another node — is refused. *)
  Theorem C10_valid_iff_issuable tok a u :
    valid_token tok a u = Some true <->
    exists j, (j <= Z.to_nat token_max_delta)%nat /\
              create_token a (u - Z.of_nat j * token_interval_ns) = Some tok.
  Proof. exact (ServerC10.C10_valid_iff_issuable sha1 cfg tok a u). Qed.

  (* honoured for at least 10 minutes (max_delta * interval) after issue, from every address with the
     same To16 form: any source port, 4-byte or v4-mapped form *)
  Theorem C10_window_lower a a' x t u tok :
    0 <= t -> 0 <= u - t < token_max_delta * token_interval_ns ->
    to16 (ip a) = Some x -> to16 (ip a') = Some x ->
    create_token a t = Some tok -> valid_token tok a' u = Some true.
  Proof. exact (ServerC10.C10_window_lower sha1 cfg a a' x t u tok). Qed.

  Theorem C10_v4_mapped_same_to16 b : length b = 4%nat -> to16 (v4_prefix ++ b) = to16 b.
  Proof. exact (to16_mapped b). Qed.

  (* not honoured 15 minutes ((max_delta + 1) * interval) or more after issue, nor an interval or more
     before issue *)
  Theorem C10_window_upper_or_collision a a' x t u tok :
    0 <= t < 9223372036854775808 -> int64_range u ->
    to16 (ip a) = Some x -> to16 (ip a') = Some x ->
    create_token a t = Some tok -> valid_token tok a' u = Some true ->
    (u - t < (token_max_delta + 1) * token_interval_ns /\ (0 <= u -> - token_interval_ns < u - t))
    \/ exists j, (j <= Z.to_nat token_max_delta)%nat /\
         collision (tok_pre cfg x (token_idx t)) (tok_pre cfg x (token_idx (u - Z.of_nat j * token_interval_ns))).
  Proof. exact (ServerC10.C10_window_upper_or_collision sha1 cfg a a' x t u tok). Qed.

  Theorem C10_window_upper a a' x t u tok :
    (forall p q : bytes, sha1 p = sha1 q -> p = q) ->
    0 <= t < 9223372036854775808 -> int64_range u ->
    to16 (ip a) = Some x -> to16 (ip a') = Some x ->
    create_token a t = Some tok -> valid_token tok a' u = Some true ->
    u - t < (token_max_delta + 1) * token_interval_ns /\ (0 <= u -> - token_interval_ns < u - t).
  Proof. exact (ServerC10.C10_window_upper sha1 cfg a a' x t u tok). Qed.

  (* why the int64 bounds are premises: in the model (unbounded times, uint64 interval index) a token
     validates again 2^64 intervals after issue; not reachable with Go's int64 nanosecond clock *)
  Theorem C10_window_upper_needs_int64 a tok :
    create_token a 0 = Some tok ->
    valid_token tok a (18446744073709551616 * token_interval_ns) = Some true.
  Proof. exact (ServerC10.C10_window_upper_needs_int64 sha1 cfg a tok). Qed.

  (* the exact window on the 5-minute rotation grid *)
  Theorem C10_window_exact a a' x t u tok :
    (forall p q : bytes, sha1 p = sha1 q -> p = q) ->
    0 <= t < 9223372036854775808 -> 0 <= u < 9223372036854775808 ->
    to16 (ip a) = Some x -> to16 (ip a') = Some x ->
    create_token a t = Some tok ->
    (valid_token tok a' u = Some true <->
     0 <= u / token_interval_ns - t / token_interval_ns <= token_max_delta).
  Proof. exact (ServerC10.C10_window_exact sha1 cfg a a' x t u tok). Qed.

  (* issued to another IP: refused at every time *)
  Theorem C10_other_ip_rejected_or_collision a a' x x' t u tok :
    to16 (ip a) = Some x -> to16 (ip a') = Some x' -> x <> x' ->
    create_token a t = Some tok ->
    valid_token tok a' u = Some false
    \/ exists j, (j <= Z.to_nat token_max_delta)%nat /\
         collision (tok_pre cfg x (token_idx t)) (tok_pre cfg x' (token_idx (u - Z.of_nat j * token_interval_ns))).
  Proof. exact (ServerC10.C10_other_ip_rejected_or_collision sha1 cfg a a' x x' t u tok). Qed.

  Theorem C10_other_ip_rejected a a' x x' t u tok :
    (forall p q : bytes, sha1 p = sha1 q -> p = q) ->
    to16 (ip a) = Some x -> to16 (ip a') = Some x' -> x <> x' ->
    create_token a t = Some tok -> valid_token tok a' u = Some false.
  Proof. exact (ServerC10.C10_other_ip_rejected sha1 cfg a a' x x' t u tok). Qed.

  (* issued by another node (another secret, of any length): refused for all addresses and times *)
  Theorem C10_other_secret_rejected_or_collision cfg' a a' x x' t u tok :
    c_secret cfg' <> c_secret cfg ->
    to16 (ip a) = Some x -> to16 (ip a') = Some x' ->
    Server.create_token sha1 cfg' a t = Some tok ->
    valid_token tok a' u = Some false
    \/ exists j, (j <= Z.to_nat token_max_delta)%nat /\
         collision (tok_pre cfg' x (token_idx t)) (tok_pre cfg x' (token_idx (u - Z.of_nat j * token_interval_ns))).
  Proof. exact (ServerC10.C10_other_secret_rejected_or_collision sha1 cfg cfg' a a' x x' t u tok). Qed.

  Theorem C10_other_secret_rejected cfg' a a' x x' t u tok :
    (forall p q : bytes, sha1 p = sha1 q -> p = q) ->
    c_secret cfg' <> c_secret cfg ->
    to16 (ip a) = Some x -> to16 (ip a') = Some x' ->
    Server.create_token sha1 cfg' a t = Some tok -> valid_token tok a' u = Some false.
  Proof. exact (ServerC10.C10_other_secret_rejected sha1 cfg cfg' a a' x x' t u tok). Qed.

  (* ================= the handlers consult the token (server.go) ================= *)

  (* announce_peer / put whose token does not validate, in ANY state, for any choice: no datagram,
     no callback, no store call ([out] is empty); peer store, BEP 44 store, pending transactions,
     clock, blocklist, closed flag, transaction counter and limiter are unchanged (only the sender's
     routing-table entry may have been touched) *)
  Theorem C10_effect s src size m a ch s' out :
    m_y m = s_q -> (m_q m = s_announce_peer \/ m_q m = s_put) -> m_a m = Some a ->
    valid_token (a_token a) src (s_now s) = Some false ->
    step s (EPacket src size (Some m)) ch = SR Store s' out ->
    out = [] /\
    (s_now s' = s_now s /\ s_pending s' = s_pending s /\ s_peers s' = s_peers s /\
     s_store s' = s_store s /\ s_blocklist s' = s_blocklist s /\ s_closed s' = s_closed s /\
     s_next_t s' = s_next_t s /\ s_budget s' = s_budget s).
  Proof. exact (ServerC10.C10_effect Store w_put w_get sha1 id_secure cfg s src size m a ch s' out). Qed.

  (* conversely: a changed peer store or BEP 44 store, an announce callback, a peer-store call or a
     reply imply that the query carried a token that validated for its source at that moment *)
  Theorem C10_effect_only_with_valid_token s src size m ch s' out :
    m_y m = s_q -> (m_q m = s_announce_peer \/ m_q m = s_put) ->
    step s (EPacket src size (Some m)) ch = SR Store s' out ->
    (s_peers s' <> s_peers s \/ s_store s' <> s_store s \/ exists e, In e out /\ is_write_effect e = true) ->
    exists a, m_a m = Some a /\ valid_token (a_token a) src (s_now s) = Some true.
  Proof. exact (ServerC10.C10_effect_only_with_valid_token Store w_put w_get sha1 id_secure cfg s src size m ch s' out). Qed.

  (* tokens are handed out in get_peers replies (peer store configured) and get replies: the token
     for the querying address' To16 form and the current interval *)
  Theorem C10_issue s src size m ch s' out d rm k r :
    m_y m = s_q -> (m_q m = s_get_peers /\ c_peer_store cfg = true \/ m_q m = s_get) ->
    step s (EPacket src size (Some m)) ch = SR Store s' out ->
    In (ESend d rm k) out -> m_r rm = Some r ->
    exists x, to16 (ip src) = Some x /\
              r_token r = Some (token_for x (token_idx (s_now s))) /\
              r_token r = create_token src (s_now s).
  Proof. exact (ServerC10.C10_issue Store w_put w_get sha1 id_secure cfg s src size m ch s' out d rm k r). Qed.
End C10.

(* ================= non-vacuity: concrete instances, real SHA-1 ================= *)
Definition ex_cfg : config :=
  mkCfg 1 false true true true (fun _ => true) false ["s"; "e"; "c"; "r"; "e"; "t"]%byte.
Definition ex_put (st : unit) (_ : witem) (_ : Z) : unit * put_result := (st, PutOk).
Definition ex_get (st : unit) (_ : bytes) (_ : Z) : unit * get_result := (st, GetNotFound).
Definition ex_secure (_ : N) (_ : bytes) : bool := true.

Definition ip_a : bytes := [x01; x02; x03; x04].
Definition A1 : addr := mkAddr ip_a 6881.
Definition A1_other_port : addr := mkAddr ip_a 51413.
Definition A1_mapped : addr := mkAddr (v4_prefix ++ ip_a) 6881.
Definition B1 : addr := mkAddr [x01; x02; x03; x05] 6881.
Definition t0 : Z := 1700000000123456789.                 (* a time in 2023, off the grid *)
Definition sec : Z := 1000000000.

(* a token issued at t0 to 1.2.3.4:6881 is accepted 9 min 59 s later from another port and from
   ::ffff:1.2.3.4, refused 15 min later, refused from 1.2.3.5, refused by a node with another secret *)
Example C10_ex_token :
  match create_token sha1 ex_cfg A1 t0 with
  | Some tok =>
      length tok = 20%nat /\
      valid_token sha1 ex_cfg tok A1_other_port (t0 + 599 * sec) = Some true /\
      valid_token sha1 ex_cfg tok A1_mapped (t0 + 599 * sec) = Some true /\
      valid_token sha1 ex_cfg tok A1 (t0 + 900 * sec) = Some false /\
      valid_token sha1 ex_cfg tok B1 t0 = Some false /\
      valid_token sha1 (mkCfg 1 false true true true (fun _ => true) false ["o"; "t"; "h"; "e"; "r"]%byte) tok A1 t0 = Some false /\
      valid_token sha1 ex_cfg (removelast tok) A1 t0 = Some false /\
      valid_token sha1 ex_cfg (tok ++ [x00]) A1 t0 = Some false /\
      valid_token sha1 ex_cfg [] A1 t0 = Some false
  | None => False
  end.
Proof. vm_compute. repeat split. Qed.

(* the hypotheses of the window theorems are satisfiable *)
Example C10_ex_hyps :
  0 <= t0 < 9223372036854775808 /\ int64_range (t0 + 900 * sec) /\
  0 <= (t0 + 599 * sec) - t0 < token_max_delta * token_interval_ns /\
  to16 (ip A1) = to16 (ip A1_mapped) /\ to16 (ip A1) = to16 (ip A1_other_port) /\
  to16 (ip A1) <> to16 (ip B1).
Proof. vm_compute. repeat split; try discriminate; intros [= ]. Qed.

Definition mk_query (q : bytes) (a : msg_args) : msg := mkMsg q (Some a) ["a"; "a"]%byte s_q None None empty_na false [].
Definition ih1 : bytes := repeat x11 20.
Definition ann_args (id : N) (tok : bytes) (p : option Z) (implied : bool) : msg_args :=
  mkArgs (ofN 20 id) ih1 zero20 tok p implied None 0 0 None None 0 zero32 [] zero64.
Definition ex_s0 : sstate unit := init_state unit tt t0 [] None.

(* an announce_peer with a wrong token: no output at all and nothing stored; with the right token:
   callback, peer-store call and a reply *)
Example C10_ex_effect :
  (match step unit ex_put ex_get sha1 ex_secure ex_cfg ex_s0
           (EPacket A1 100 (Some (mk_query s_announce_peer (ann_args 5 [x00] (Some 7000) false)))) no_choice with
   | SR _ s' out => out = [] /\ s_peers unit s' = []
   | _ => False
   end) /\
  (match create_token sha1 ex_cfg A1 t0 with
   | Some tok =>
       match step unit ex_put ex_get sha1 ex_secure ex_cfg ex_s0
               (EPacket A1 100 (Some (mk_query s_announce_peer (ann_args 5 tok (Some 7000) false)))) no_choice with
       | SR _ s' [EAnnounceCb ih i p true; EPeerAdd ih' i' p'; ESend d rm SReply] =>
           ih = ih1 /\ i = ip_a /\ p = 7000 /\ d = A1 /\ s_peers unit s' = [mkPeer ih1 ip_a 7000]
       | _ => False
       end
   | None => False
   end).
Proof. vm_compute. repeat split. Qed.

(* ================= pins: the constants and dispatch facts the property names ================= *)
Example C10_pin_interval : token_interval_ns = 300000000000 /\ token_interval_ns_ok = true.
Proof. repeat split. Qed.
Example C10_pin_max_delta : token_max_delta = 2 /\ token_max_delta_ok = true.
Proof. repeat split. Qed.
From Coq Require Import String.
Example C10_pin_methods_with_token :
  methods_with_token = ["announce_peer"; "put"]%string /\ methods_with_token_ok = true.
Proof. repeat split. Qed.
Example C10_pin_methods_with_mktoken :
  methods_with_mktoken = ["get"; "get_peers"]%string /\ methods_with_mktoken_ok = true.
Proof. repeat split. Qed.
Example C10_pin_ten_minutes : token_max_delta * token_interval_ns = 10 * 60 * sec.
Proof. reflexivity. Qed.
Example C10_pin_fifteen_minutes : (token_max_delta + 1) * token_interval_ns = 15 * 60 * sec.
Proof. reflexivity. Qed.

(* ---- structural pin (srcfacts): the token check is made by the query dispatcher ---- *)
Example C10_pin_token_check_site :
  valid_token_callers = ["handleQuery"]%string /\ valid_token_callers_ok = true.
Proof. repeat split. Qed.

Print Assumptions C10_valid_token_iff.
Print Assumptions C10_valid_iff_issuable.
Print Assumptions C10_window_lower.
Print Assumptions C10_window_upper_or_collision.
Print Assumptions C10_window_upper.
Print Assumptions C10_window_exact.
Print Assumptions C10_other_ip_rejected_or_collision.
Print Assumptions C10_other_ip_rejected.
Print Assumptions C10_other_secret_rejected_or_collision.
Print Assumptions C10_other_secret_rejected.
Print Assumptions C10_effect.
Print Assumptions C10_effect_only_with_valid_token.
Print Assumptions C10_issue.
Print Assumptions C10_ex_token.
Print Assumptions C10_ex_effect.
Print Assumptions C10_window_upper_needs_int64.
