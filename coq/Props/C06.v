(* C06 — only directly verified contacts enter the routing table; good ones are never evicted;
   an eligible sender is admitted whenever its bucket has room.
   This file holds statements only; every proof is `exact <lemma>` from proofs/ServerC06.v
   (and proofs/ServerInv.v for the step from `reachable` to the table invariant `Inv`).
   Vocabulary (proofs/ServerC06.v, proofs/ServerDefs.v):
     keys s              = map node_key (s_nodes s), node_key n = (n_id n, addr_key (n_addr n))
     passes_filters s src size = size <> udp_buf /\ port src <> 0 /\ not closed /\ src not blocked
     solicited s src m   = some pending transaction of s has src's address key and m's t *)
From Dht Require Import Base Int160 Msg Server ServerDefs ServerInv ServerC06.
From DhtGen Require Import Params.
Local Open Scope N_scope.

Section C06.
  Variable Store : Type.
  Variable w_put : Store -> witem -> Z -> Store * put_result.
  Variable w_get : Store -> bytes -> Z -> Store * get_result.
  Variable sha1 : bytes -> bytes.
  Variable id_secure : N -> bytes -> bool.
  Variable cfg : config.

  Notation sstate := (sstate Store).
  Notation step := (step Store w_put w_get sha1 id_secure cfg).
  Notation reachable := (reachable Store w_put w_get sha1 id_secure cfg).
  Notation Inv := (Inv Store cfg).
  Notation node_bad := (node_bad id_secure cfg).
  Notation node_good := (node_good id_secure cfg).
  Notation slot_of := (slot_of cfg).
  Notation s_nodes := (s_nodes Store).
  Notation s_now := (s_now Store).
  Notation s_blocklist := (s_blocklist Store).
  Notation keys := (keys Store).
  Notation passes_filters := (passes_filters Store).
  Notation solicited := (solicited Store).
  Notation SR := (SR Store).

  (* ---- the vocabulary, spelled out ---- *)
  Theorem C06_vocabulary (s : sstate) src size m :
    (passes_filters s src size <->
       size <> Z.to_N udp_buf /\ port src <> 0 /\ s_closed Store s = false /\
       blocked (s_blocklist s) (ip src) = false) /\
    (solicited s src m <->
       exists x, In x (s_pending Store s) /\ txn_match (addr_key src) (m_t m) x = true) /\
    keys s = map node_key (s_nodes s).
  Proof. exact (conj (iff_refl _) (conj (iff_refl _) eq_refl)). Qed.

  (* ---- who may enter: for ANY state, event and choice ---- *)
  Theorem C06_entry s e ch s' out n :
    step s e ch = SR s' out -> In n (s_nodes s') -> ~ In (node_key n) (keys s) ->
    node_bad n = false /\
    ((exists src size m idb,
         e = EPacket src size (Some m) /\ passes_filters s src size /\ m_ro m = false /\
         sender_id m = Some idb /\ toN idb = n_id n /\ n_addr n = src /\
         (m_y m = s_q \/ (m_y m <> s_q /\ solicited s src m)))
     \/ (exists b p, e = EAddNode b p (n_id n) /\ n_addr n = mkAddr b p)).
  Proof. exact (ServerC06.C06_entry Store w_put w_get sha1 id_secure cfg s e ch s' out n). Qed.

  (* whatever a message lists besides its own sender (nodes, nodes6, values, target, ...) never
     becomes an entry *)
  Theorem C06_never_from_hearsay s src size m ch s' out n :
    step s (EPacket src size (Some m)) ch = SR s' out ->
    In n (s_nodes s') -> ~ In (node_key n) (keys s) ->
    n_addr n = src /\ option_map toN (sender_id m) = Some (n_id n).
  Proof. exact (ServerC06.C06_never_from_hearsay Store w_put w_get sha1 id_secure cfg s src size m ch s' out n). Qed.

  Theorem C06_never_from_hearsay_listed s src size m ch s' out id' a' :
    step s (EPacket src size (Some m)) ch = SR s' out ->
    (a' <> src \/ option_map toN (sender_id m) <> Some id') ->
    ~ exists n, In n (s_nodes s') /\ ~ In (node_key n) (keys s) /\ n_id n = id' /\ n_addr n = a'.
  Proof. exact (ServerC06.C06_never_from_hearsay_listed Store w_put w_get sha1 id_secure cfg s src size m ch s' out id' a'). Qed.

  (* an unsolicited or mismatched (other t, other address) response changes nothing *)
  Theorem C06_never_from_unsolicited s src size m ch s' out :
    step s (EPacket src size (Some m)) ch = SR s' out -> m_y m <> s_q -> ~ solicited s src m ->
    s' = s /\ out = [].
  Proof. exact (ServerC06.C06_never_from_unsolicited Store w_put w_get sha1 id_secure cfg s src size m ch s' out). Qed.

  (* a read-only sender is never added *)
  Theorem C06_never_readonly s src size m ch s' out :
    step s (EPacket src size (Some m)) ch = SR s' out -> m_ro m = true -> keys s' = keys s.
  Proof. exact (ServerC06.C06_never_readonly Store w_put w_get sha1 id_secure cfg s src size m ch s' out). Qed.

  (* a blocked source (likewise port 0, oversize, closed) changes nothing *)
  Theorem C06_never_blocked s src size dec ch s' out :
    step s (EPacket src size dec) ch = SR s' out -> blocked (s_blocklist s) (ip src) = true ->
    s' = s /\ out = [].
  Proof. exact (ServerC06.C06_never_blocked Store w_put w_get sha1 id_secure cfg s src size dec ch s' out). Qed.

  Theorem C06_never_filtered s src size dec ch s' out :
    step s (EPacket src size dec) ch = SR s' out -> ~ passes_filters s src size -> s' = s /\ out = [].
  Proof. exact (ServerC06.C06_never_filtered Store w_put w_get sha1 id_secure cfg s src size dec ch s' out). Qed.

  (* with the security extension enforced, a new entry has an id valid for its ip; (always) it is
     neither the own id nor the zero id *)
  Theorem C06_never_insecure s e ch s' out n :
    c_no_security cfg = false ->
    step s e ch = SR s' out -> In n (s_nodes s') -> ~ In (node_key n) (keys s) ->
    id_secure (n_id n) (ip (n_addr n)) = true.
  Proof. exact (ServerC06.C06_never_insecure Store w_put w_get sha1 id_secure cfg s e ch s' out n). Qed.

  Theorem C06_never_own_or_zero_id s e ch s' out n :
    step s e ch = SR s' out -> In n (s_nodes s') -> ~ In (node_key n) (keys s) ->
    n_id n <> c_root cfg /\ n_id n <> 0.
  Proof. exact (ServerC06.C06_never_own_or_zero_id Store w_put w_get sha1 id_secure cfg s e ch s' out n). Qed.

  (* ---- who may be displaced: for any state satisfying the table invariant ---- *)
  Theorem C06_good_kept s e ch s' out n :
    Inv s -> step s e ch = SR s' out -> In n (s_nodes s) -> node_good (s_now s) n = true ->
    In (node_key n) (keys s').
  Proof. exact (ServerC06.C06_good_kept Store w_put w_get sha1 id_secure cfg s e ch s' out n). Qed.

  Theorem C06_displaced_only s e ch s' out n :
    Inv s -> step s e ch = SR s' out -> In n (s_nodes s) -> ~ In (node_key n) (keys s') ->
    exists n',
      In n' (s_nodes s') /\ ~ In (node_key n') (keys s) /\ n_slot n' = n_slot n /\ node_bad n' = false /\
      (K <= length (bucket (s_nodes s) (n_slot n)))%nat /\
      (node_bad n = true \/
       (n_lr n = None /\ node_good (s_now s) n' = true /\ n_lr n' = Some (s_now s) /\
        exists src size m idb,
          e = EPacket src size (Some m) /\ passes_filters s src size /\ m_y m <> s_q /\
          solicited s src m /\ m_ro m = false /\ sender_id m = Some idb /\
          n_id n' = toN idb /\ n_addr n' = src)).
  Proof. exact (ServerC06.C06_displaced_only Store w_put w_get sha1 id_secure cfg s e ch s' out n). Qed.

  (* ---- admission: for ANY state ---- *)
  Theorem C06_admitted s src size m idb ch s' out :
    step s (EPacket src size (Some m)) ch = SR s' out ->
    passes_filters s src size -> m_ro m = false -> sender_id m = Some idb ->
    (m_y m = s_q \/ solicited s src m) ->
    toN idb <> c_root cfg -> toN idb <> 0 ->
    (c_no_security cfg = true \/ id_secure (toN idb) (ip src) = true) ->
    (length (bucket (s_nodes s) (slot_of (toN idb))) < K)%nat ->
    In (toN idb, addr_key src) (keys s') /\ ch_victim ch = None.
  Proof. exact (ServerC06.C06_admitted Store w_put w_get sha1 id_secure cfg s src size m idb ch s' out). Qed.

  (* the hypotheses of C06_admitted are jointly satisfiable in every state: an eligible solicited
     response is accepted with every choice that names no victim *)
  Theorem C06_admitted_possible s src size m idb ch :
    passes_filters s src size -> m_y m <> s_q -> solicited s src m ->
    m_ro m = false -> sender_id m = Some idb ->
    toN idb <> c_root cfg -> toN idb <> 0 ->
    (c_no_security cfg = true \/ id_secure (toN idb) (ip src) = true) ->
    (length (bucket (s_nodes s) (slot_of (toN idb))) < K)%nat ->
    ch_victim ch = None ->
    exists s' qid, step s (EPacket src size (Some m)) ch = SR s' [ECompleted qid m] /\
                   In (toN idb, addr_key src) (keys s').
  Proof. exact (ServerC06.C06_admitted_possible Store w_put w_get sha1 id_secure cfg s src size m idb ch). Qed.

  Theorem C06_admitted_api s b p id ch s' out :
    step s (EAddNode b p id) ch = SR s' out ->
    id <> c_root cfg -> id <> 0 ->
    (c_no_security cfg = true \/ id_secure id b = true) ->
    (length (bucket (s_nodes s) (slot_of id)) < K)%nat ->
    In (id, addr_key (mkAddr b p)) (keys s') /\ ch_victim ch = None.
  Proof. exact (ServerC06.C06_admitted_api Store w_put w_get sha1 id_secure cfg s b p id ch s' out). Qed.

  (* ---- liveness evidence of an existing entry ---- *)
  Theorem C06_timestamps s e ch s' out n n' :
    Inv s -> step s e ch = SR s' out -> In n (s_nodes s) -> In n' (s_nodes s') ->
    node_key n' = node_key n ->
    (n_lr n' <> n_lr n ->
     exists src size m idb,
       e = EPacket src size (Some m) /\ passes_filters s src size /\ m_y m <> s_q /\
       solicited s src m /\ sender_id m = Some idb /\ toN idb = n_id n /\
       addr_key src = addr_key (n_addr n) /\ n_lr n' = Some (s_now s)) /\
    (n_lq n' <> n_lq n ->
     exists src size m idb,
       e = EPacket src size (Some m) /\ passes_filters s src size /\ m_y m = s_q /\
       sender_id m = Some idb /\ toN idb = n_id n /\
       addr_key src = addr_key (n_addr n) /\ n_lq n' = Some (s_now s)).
  Proof. exact (ServerC06.C06_timestamps Store w_put w_get sha1 id_secure cfg s e ch s' out n n'). Qed.

  (* ---- the same for every state reachable by any history of well-formed events ---- *)
  Theorem C06_good_kept_reachable s e ch s' out n :
    wf_cfg cfg -> reachable s -> step s e ch = SR s' out -> In n (s_nodes s) ->
    node_good (s_now s) n = true -> In (node_key n) (keys s').
  Proof.
    intros Hc Hr.
    exact (ServerC06.C06_good_kept Store w_put w_get sha1 id_secure cfg s e ch s' out n
             (inv_reachable Store w_put w_get sha1 id_secure cfg Hc s Hr)).
  Qed.

  Theorem C06_displaced_only_reachable s e ch s' out n :
    wf_cfg cfg -> reachable s -> step s e ch = SR s' out -> In n (s_nodes s) ->
    ~ In (node_key n) (keys s') ->
    exists n',
      In n' (s_nodes s') /\ ~ In (node_key n') (keys s) /\ n_slot n' = n_slot n /\ node_bad n' = false /\
      (K <= length (bucket (s_nodes s) (n_slot n)))%nat /\
      (node_bad n = true \/
       (n_lr n = None /\ node_good (s_now s) n' = true /\ n_lr n' = Some (s_now s) /\
        exists src size m idb,
          e = EPacket src size (Some m) /\ passes_filters s src size /\ m_y m <> s_q /\
          solicited s src m /\ m_ro m = false /\ sender_id m = Some idb /\
          n_id n' = toN idb /\ n_addr n' = src)).
  Proof.
    intros Hc Hr.
    exact (ServerC06.C06_displaced_only Store w_put w_get sha1 id_secure cfg s e ch s' out n
             (inv_reachable Store w_put w_get sha1 id_secure cfg Hc s Hr)).
  Qed.

  Theorem C06_timestamps_reachable s e ch s' out n n' :
    wf_cfg cfg -> reachable s -> step s e ch = SR s' out -> In n (s_nodes s) -> In n' (s_nodes s') ->
    node_key n' = node_key n ->
    (n_lr n' <> n_lr n ->
     exists src size m idb,
       e = EPacket src size (Some m) /\ passes_filters s src size /\ m_y m <> s_q /\
       solicited s src m /\ sender_id m = Some idb /\ toN idb = n_id n /\
       addr_key src = addr_key (n_addr n) /\ n_lr n' = Some (s_now s)) /\
    (n_lq n' <> n_lq n ->
     exists src size m idb,
       e = EPacket src size (Some m) /\ passes_filters s src size /\ m_y m = s_q /\
       sender_id m = Some idb /\ toN idb = n_id n /\
       addr_key src = addr_key (n_addr n) /\ n_lq n' = Some (s_now s)).
  Proof.
    intros Hc Hr.
    exact (ServerC06.C06_timestamps Store w_put w_get sha1 id_secure cfg s e ch s' out n n'
             (inv_reachable Store w_put w_get sha1 id_secure cfg Hc s Hr)).
  Qed.
End C06.

(* ---- non-vacuity: a concrete configuration and a populated table built by a history ---- *)
Definition X_wput (st : unit) (_ : witem) (_ : Z) : unit * put_result := (st, PutOk).
Definition X_wget (st : unit) (_ : bytes) (_ : Z) : unit * get_result := (st, GetNotFound).
Definition X_sha1 (b : bytes) : bytes := b.
Definition X_secure (id : N) (_ : bytes) : bool := negb (N.eqb id 13).     (* id 13 is "insecure" *)
Definition X_cfg : config := mkCfg (2 ^ 159) false false false false (fun _ => true) false [].
Definition X_step := step unit X_wput X_wget X_sha1 X_secure X_cfg.
Definition X_reachable := reachable unit X_wput X_wget X_sha1 X_secure X_cfg.

Definition ip4 (d : N) : bytes := [byte_of_N 10; byte_of_N 0; byte_of_N 0; byte_of_N d].
Definition A (d : N) : addr := mkAddr (ip4 d) (1000 + d).
Definition X_args (id : N) : msg_args :=
  mkArgs (ofN 20 id) zero20 zero20 [] None false None 0 0 None None 0 zero32 [] zero64.
Definition q_ping (id : N) (t : bytes) : msg :=
  mkMsg s_ping (Some (X_args id)) t s_q None None empty_na false [].
Definition resp (id : N) (t : bytes) : msg :=
  mkMsg [] None t s_r
        (Some (mkRet (ofN 20 id) None None None None None None None None None [] zero32 zero64 None))
        None empty_na false [].

(* eight contacts fill bucket 0 (own id 2^159); 3 fails a ping (bad); 1 answers a query (good);
   a query to 10.0.0.10 is still pending *)
Definition X_hist : list (event * choice) :=
  map (fun i => (EAddNode (ip4 i) (1000 + i) i, no_choice)) [1; 2; 3; 4; 5; 6; 7; 8] ++
  [ (EFailedPing (A 3) 3, no_choice);
    (EQueryStart 1 (A 1) s_ping empty_args true [x00], no_choice);
    (EPacket (A 1) 100 (Some (resp 1 [x00])), no_choice);
    (EAdvance 5, no_choice);
    (EQueryStart 2 (A 10) s_ping empty_args true [x01], no_choice) ].

Definition X_run :=
  run unit X_wput X_wget X_sha1 X_secure X_cfg (init_state unit tt 1000 [] None) X_hist.
Definition X_S0 : sstate unit :=
  Eval vm_compute in match X_run with Some (s, _) => s | None => init_state unit tt 0 [] None end.
Definition X_nth (s : sstate unit) (i : nat) : node :=
  nth i (s_nodes unit s) (mkNode 0 (A 0) None None false 0).

Example C06_witness_wf_cfg : wf_cfg X_cfg.
Proof. split; vm_compute; [reflexivity | repeat constructor]. Qed.

Example C06_witness_reachable : X_reachable X_S0.
Proof.
  apply (run_reachable_b unit X_wput X_wget X_sha1 X_secure X_cfg tt 1000%Z [] None X_hist X_S0
           (match X_run with Some (_, o) => o | None => [] end)); vm_compute; reflexivity.
Qed.

Example C06_witness_inv : Inv unit X_cfg X_S0.
Proof. exact (inv_reachable unit X_wput X_wget X_sha1 X_secure X_cfg C06_witness_wf_cfg X_S0 C06_witness_reachable). Qed.

(* the table: bucket 0 is full (8 = K); entry 0 is good, entry 2 is bad, the others never answered *)
Example C06_witness_table :
  length (bucket (s_nodes unit X_S0) 0) = K /\
  node_good X_secure X_cfg (s_now unit X_S0) (X_nth X_S0 0) = true /\
  node_bad X_secure X_cfg (X_nth X_S0 2) = true /\
  n_lr (X_nth X_S0 1) = None /\ node_bad X_secure X_cfg (X_nth X_S0 1) = false.
Proof. vm_compute. repeat split. Qed.

(* (1) a fresh sender's query, the bad entry 3 is the victim: accepted; 9 enters, 3 leaves, the good
       entry 1 stays *)
Definition X_e1 := EPacket (A 9) 100 (Some (q_ping 9 ["A"%byte])).
Definition X_ch1 := mkChoice (Some (addr_key (A 3), 3)) [] [] [].
Definition X_S1 : sstate unit :=
  Eval vm_compute in match X_step X_S0 X_e1 X_ch1 with SR _ s _ => s | _ => X_S0 end.

Example C06_witness_step1 : exists out, X_step X_S0 X_e1 X_ch1 = SR unit X_S1 out.
Proof. eexists. vm_compute. reflexivity. Qed.

Example C06_witness_displace_bad :
  map n_id (s_nodes unit X_S0) = [1; 2; 3; 4; 5; 6; 7; 8] /\
  map n_id (s_nodes unit X_S1) = [1; 2; 4; 5; 6; 7; 8; 9].
Proof. vm_compute. split; reflexivity. Qed.

(* the hypotheses of C06_entry and C06_displaced_only hold together for this step *)
Example C06_witness_entry_applies :
  In (X_nth X_S1 7) (s_nodes unit X_S1) /\ ~ In (node_key (X_nth X_S1 7)) (keys unit X_S0) /\
  In (X_nth X_S0 2) (s_nodes unit X_S0) /\ ~ In (node_key (X_nth X_S0 2)) (keys unit X_S1).
Proof.
  split; [vm_compute; tauto|]. split; [vm_compute; intuition discriminate|].
  split; [vm_compute; tauto|vm_compute; intuition discriminate].
Qed.

(* (2) the same datagram with the good entry 1 (or the never-answered entry 2) as victim, or with no
       victim at all, is NOT an allowed outcome *)
Example C06_witness_good_not_evictable :
  X_step X_S0 X_e1 (mkChoice (Some (addr_key (A 1), 1)) [] [] []) = SRBadChoice unit /\
  X_step X_S0 X_e1 (mkChoice (Some (addr_key (A 2), 2)) [] [] []) = SRBadChoice unit /\
  X_step X_S0 X_e1 no_choice = SRBadChoice unit.
Proof. vm_compute. repeat split. Qed.

(* (3) the awaited answer from 10.0.0.10 arrives: the responder is good at once and may displace the
       never-answered entry 2 — but still not the good entry 1 *)
Definition X_e3 := EPacket (A 10) 100 (Some (resp 10 [x01])).
Definition X_ch3 := mkChoice (Some (addr_key (A 2), 2)) [] [] [].
Definition X_S3 : sstate unit :=
  Eval vm_compute in match X_step X_S0 X_e3 X_ch3 with SR _ s _ => s | _ => X_S0 end.

Example C06_witness_displace_never_answered :
  (exists out, X_step X_S0 X_e3 X_ch3 = SR unit X_S3 out) /\
  map n_id (s_nodes unit X_S3) = [1; 3; 4; 5; 6; 7; 8; 10] /\
  n_lr (X_nth X_S3 7) = Some (s_now unit X_S0) /\
  X_step X_S0 X_e3 (mkChoice (Some (addr_key (A 1), 1)) [] [] []) = SRBadChoice unit.
Proof. split; [eexists; vm_compute; reflexivity|]. vm_compute. repeat split. Qed.

(* (4) hearsay, unsolicited, read-only, insecure: nothing enters *)
Example C06_witness_refused :
  (* a response nobody asked for *)
  X_step X_S0 (EPacket (A 11) 100 (Some (resp 11 [x07]))) no_choice = SR unit X_S0 [] /\
  (* the right t from the wrong address *)
  X_step X_S0 (EPacket (A 11) 100 (Some (resp 10 [x01]))) no_choice = SR unit X_S0 [] /\
  (* an id that is not valid for its ip (id_secure false), security enforced *)
  (exists out, X_step X_S0 (EPacket (A 13) 100 (Some (q_ping 13 ["B"%byte]))) no_choice = SR unit X_S0 out).
Proof. split; [vm_compute; reflexivity|]. split; [vm_compute; reflexivity|]. eexists. vm_compute. reflexivity. Qed.

(* (5) admission with room: after two adds a third sender is admitted with no victim *)
Definition X_S5 : sstate unit :=
  Eval vm_compute in
    match run unit X_wput X_wget X_sha1 X_secure X_cfg (init_state unit tt 1000 [] None) (firstn 2 X_hist)
    with Some (s, _) => s | None => init_state unit tt 0 [] None end.

Example C06_witness_admitted :
  exists s' out,
    X_step X_S5 X_e1 no_choice = SR unit s' out /\ map n_id (s_nodes unit s') = [1; 2; 9] /\
    (length (bucket (s_nodes unit X_S5) (slot_of X_cfg 9)) < K)%nat.
Proof. eexists. eexists. split; [vm_compute; reflexivity|]. split; [reflexivity|vm_compute; repeat constructor]. Qed.

(* ---- table maintenance (Server.TableMaintainer: model/Maint.v, proofs/MaintProofs.v) ----
   The maintainer is the only other writer of routing-table state besides the packet path: it pings the
   questionable entries of a bucket and marks the ones that do not answer (failedLastQuestionablePing: bad,
   evictable).  For every table, every outcome of every ping, every behaviour of the bucket refreshes:
   a good entry is never pinged as questionable, never marked, and is still in the table, unchanged, when
   the pass is over - provided the refresh traversals (ordinary packet-path traffic, covered by
   C06_good_kept above) do not remove good entries themselves. *)
From Dht Require Import Maint MaintProofs RunServer RunMaint.

Section C06_maintenance.
  Variable id_secure : N -> bytes -> bool.
  Variable cfg : config.
  Variable now : Z.
  Variable answers : node -> ping_outcome.
  Variable refresh : nat -> list node -> list node.

  Theorem C06_maint_pings_only_questionable nodes j tg n :
    In (PPing j tg) (fst (pass id_secure cfg now answers refresh nodes)) -> In n tg ->
    n_slot n = j /\ m_good id_secure cfg now n = false /\ m_bad id_secure cfg n = false.
  Proof. exact (pass_from_pings_questionable id_secure cfg nbuckets 0 now answers refresh nodes j tg n). Qed.

  Theorem C06_maint_flag_only_unanswered_questionable nodes i m :
    In m (after_pings id_secure cfg now answers nodes i) -> n_failed m = true ->
    In m nodes \/
    exists n, In n nodes /\ n_slot n = i /\ m_quest id_secure cfg now n = true /\ answers n = PSilent /\
              m = apply_update now UFailedPing n.
  Proof. exact (after_pings_flagged id_secure cfg now answers nodes i m). Qed.

  Theorem C06_maint_answered_ping_makes_good n :
    answers n = PSameId -> m_quest id_secure cfg now n = true ->
    m_good id_secure cfg now (settle_ping now answers n) = true.
  Proof. exact (settle_answered_good id_secure cfg now answers n). Qed.

  Theorem C06_maint_pass_keeps_good nodes n :
    good_preserving id_secure cfg now refresh -> In n nodes -> m_good id_secure cfg now n = true ->
    In n (snd (pass id_secure cfg now answers refresh nodes)).
  Proof. exact (pass_from_good_kept id_secure cfg nbuckets 0 now answers refresh nodes n). Qed.
End C06_maintenance.

(* the pass model's write-back of an unanswered ping IS the server LTS's EFailedPing event (the transition system the
   theorems of the first part of this file are about): on an entry of the table it applies apply_update UFailedPing to
   the first entry of that bucket with that id and address, emits nothing, changes nothing else *)
From Dht Require Import MaintRefine.
Section C06_maintenance_refines.
  Variable Store : Type.
  Variable w_put : Store -> witem -> Z -> Store * put_result.
  Variable w_get : Store -> bytes -> Z -> Store * get_result.
  Variable sha1 : bytes -> bytes.
  Variable id_secure : N -> bytes -> bool.
  Variable cfg : config.

  Theorem C06_maint_failed_ping_is_server_event (s : sstate Store) (n : node) :
    In n (s_nodes Store s) -> n_slot n = slot_of cfg (n_id n) -> N.eqb (n_id n) (c_root cfg) = false ->
    step Store w_put w_get sha1 id_secure cfg s (EFailedPing (n_addr n) (n_id n)) no_choice =
    SR Store (with_nodes Store s
                (replace_node cfg (addr_key (n_addr n)) (n_id n) (apply_update (s_now Store s) UFailedPing)
                              (s_nodes Store s))) [].
  Proof. exact (failed_ping_is_server_event Store w_put w_get sha1 id_secure cfg s n). Qed.

  Theorem C06_maint_failed_ping_step_flags (s : sstate Store) (n m : node) :
    In n (s_nodes Store s) -> n_slot n = slot_of cfg (n_id n) -> N.eqb (n_id n) (c_root cfg) = false ->
    forall s' out, step Store w_put w_get sha1 id_secure cfg s (EFailedPing (n_addr n) (n_id n)) no_choice = SR Store s' out ->
    In m (s_nodes Store s') -> n_failed m = true ->
    In m (s_nodes Store s) \/
    exists x, In x (s_nodes Store s) /\ same_node (addr_key (n_addr n)) (n_id n) x = true /\
              m = apply_update (s_now Store s) UFailedPing x.
  Proof. exact (failed_ping_step_flags Store w_put w_get sha1 id_secure cfg s n m). Qed.
  Theorem C06_maint_answered_ping_is_server_event (s : sstate Store) (n : node) (size : N) (m : msg) (x : txn) :
    In n (s_nodes Store s) -> n_slot n = slot_of cfg (n_id n) -> N.eqb (n_id n) (c_root cfg) = false ->
    N.eqb size (Z.to_N udp_buf) = false -> N.eqb (port (n_addr n)) 0 = false ->
    s_closed Store s = false -> blocked (s_blocklist Store s) (ip (n_addr n)) = false ->
    bytes_eqb (m_y m) s_q = false ->
    option_map id_of (sender_id m) = Some (n_id n) ->
    find (txn_match (addr_key (n_addr n)) (m_t m)) (s_pending Store s) = Some x ->
    exists s',
      step Store w_put w_get sha1 id_secure cfg s (EPacket (n_addr n) size (Some m)) no_choice =
      SR Store s' [ECompleted (tx_qid x) m] /\
      s_nodes Store s' =
      replace_node cfg (addr_key (n_addr n)) (n_id n) (apply_update (s_now Store s) UResponse) (s_nodes Store s).
  Proof. exact (answered_ping_is_server_event Store w_put w_get sha1 id_secure cfg s n size m x). Qed.
End C06_maintenance_refines.

(* a whole ping round of the pass model is a SEQUENCE of such LTS write-backs: applying, in the order of the targets,
   the table update of each target's ping outcome (replace_node with apply_update UResponse / UFailedPing / nothing:
   the node-list effect of the two steps above) yields exactly after_pings - on every table whose entries have pairwise
   distinct (id, address) keys and sit in the bucket of their id, i.e. every table satisfying C05's invariant *)
From Dht Require Import MaintCompose.
Section C06_maintenance_composes.
  Variable id_secure : N -> bytes -> bool.
  Variable cfg : config.

  Theorem C06_maint_ping_round_is_lts_steps now answers l i :
    NoDup (map nkey l) -> placed cfg l ->
    fold_left (write_back cfg now answers) (ping_targets id_secure cfg now l i) l =
    after_pings id_secure cfg now answers l i.
  Proof. exact (ping_round_is_lts_steps id_secure cfg now answers l i). Qed.
End C06_maintenance_composes.

(* non-vacuity: a bucket with a good entry, a questionable one that answers and one that does not: two pings,
   the silent one is marked, the bucket (3 of 8) is refreshed with the two not-bad entries as seeds, the pass ends
   there; the good entry is still there *)
Definition MX_cfg := rm_cfg 1 true.
Definition MX_now : Z := 1000000000000000%Z.
Definition MX_g := rm_node 1000 [Byte.x0a; Byte.x00; Byte.x00; Byte.x01] 6881 None (Some MX_now) false O.
Definition MX_q1 := rm_node 1001 [Byte.x0a; Byte.x00; Byte.x00; Byte.x02] 6881 None None false O.
Definition MX_q2 := rm_node 1002 [Byte.x0a; Byte.x00; Byte.x00; Byte.x03] 6881 None (Some 0%Z) false O.
Example C06_maint_nonvacuous :
  let r := rm_pass MX_cfg MX_now false [(1001, addr_key (n_addr MX_q1))] [] [] [MX_g; MX_q1; MX_q2] in
  map (fun p => fst (rm_phase_view p)) (fst r) = [0; 1; 2] /\
  (exists tg, nth_error (fst r) O = Some (PPing O tg) /\ tg = [MX_q1; MX_q2]) /\
  In MX_g (snd r) /\ map (rm_class MX_cfg MX_now) (snd r) = [0; 0; 2] /\
  good_preserving id_secure_impl MX_cfg MX_now refresh_silent.
Proof.
  split; [vm_compute; reflexivity|]. split; [eexists; split; vm_compute; reflexivity|].
  split; [vm_compute; left; reflexivity|]. split; [vm_compute; reflexivity|].
  exact (refresh_silent_good_preserving id_secure_impl MX_cfg MX_now).
Qed.

(* ---- pins: constants the property depends on, as found in /repo now ---- *)
Example C06_pin_k : table_k = 8%Z /\ table_k_ok = true.
Proof. repeat split. Qed.
Example C06_pin_good_window :
  good_windows_ns = [900000000000; 900000000000]%Z /\ good_windows_ns_ok = true.
Proof. repeat split. Qed.

Print Assumptions C06_entry.
Print Assumptions C06_never_from_hearsay.
Print Assumptions C06_never_from_hearsay_listed.
Print Assumptions C06_never_from_unsolicited.
Print Assumptions C06_never_readonly.
Print Assumptions C06_never_blocked.
Print Assumptions C06_never_filtered.
Print Assumptions C06_never_insecure.
Print Assumptions C06_never_own_or_zero_id.
Print Assumptions C06_good_kept.
Print Assumptions C06_displaced_only.
Print Assumptions C06_admitted.
Print Assumptions C06_admitted_possible.
Print Assumptions C06_admitted_api.
Print Assumptions C06_timestamps.
Print Assumptions C06_good_kept_reachable.
Print Assumptions C06_displaced_only_reachable.
Print Assumptions C06_timestamps_reachable.
Print Assumptions C06_witness_inv.
Print Assumptions C06_maint_pings_only_questionable.
Print Assumptions C06_maint_flag_only_unanswered_questionable.
Print Assumptions C06_maint_answered_ping_makes_good.
Print Assumptions C06_maint_pass_keeps_good.
Print Assumptions C06_maint_nonvacuous.
Print Assumptions C06_maint_failed_ping_is_server_event.
Print Assumptions C06_maint_failed_ping_step_flags.
Print Assumptions C06_maint_answered_ping_is_server_event.
Print Assumptions C06_maint_ping_round_is_lts_steps.
