(* C02 — a finished lookup holds the K closest nodes that answered.
   Statements only; proofs are `exact <lemma>` from proofs/TraversalC02.v / TraversalC02Exact.v.
   Same LTS and conventions as Props/C04.v (repaired algorithm; `lookup sched` = state after any
   label list, i.e. any response graph, completion order, AddNodes / Stop placement).
   C02_sound holds in EVERY reachable state (in particular when the lookup stalls or is stopped),
   for every tie-break order of the K-nearest container that is a strict total order. *)
From Dht Require Import Base Int160 Order OrderProofs Traversal TraversalInv TraversalC02 TraversalC02Exact TraversalDefaults TraversalExamples.
From DhtGen Require Import Params.
From Coq Require Import Sorting.Sorted.

Section C02.
  Variable D : Type.
  Variable node_filter : ami -> bool.
  Variable data_filter : D -> bool.
  Variable tb : addrport -> addrport -> comparison.
  Hypothesis tb_refl : forall a, tb a a = Eq.
  Hypothesis tb_eq : forall a b, tb a b = Eq -> a = b.
  Hypothesis tb_antisym : forall a b, tb b a = CompOpp (tb a b).
  Hypothesis tb_trans : forall a b c, tb a b = Lt -> tb b c = Lt -> tb a c = Lt.
  Variable target : N.
  Variable K A : nat.

  Notation k := (eff_k K).
  Notation alpha := (eff_alpha A).
  Notation lookup := (run D node_filter data_filter tb true target k alpha).

  Theorem C02_sound sched :
    let s := lookup sched in
    (* at most K contacts *)
    length (st_closest s) <= k /\
    (* every member answered a query of this lookup and passed the node and data filters *)
    (forall e, In e (st_closest s) ->
       exists n d, e = kel_of D n d /\ responder_passing D node_filter data_filter s (n, d)) /\
    (* no responder that passed the filters but is absent is strictly closer than a member *)
    (forall x, responder_passing D node_filter data_filter s x -> ~ present D s (fst x) ->
       forall m, In m (st_closest s) -> (dist (k_id m) target <= dist (fst (fst x)) target)%N) /\
    (* kept in distance order *)
    StronglySorted (fun a b => (dist (k_id a) target <= dist (k_id b) target)%N) (st_closest s).
  Proof. exact (TraversalC02.C02_sound D node_filter data_filter tb tb_refl tb_eq tb_antisym tb_trans target k alpha sched). Qed.

  (* "answered a query of this lookup": a recorded responder is the ResponseFrom of a DoQuery
     return occurring in the schedule *)
  Theorem C02_responder_answered sched x :
    In x (st_responded (lookup sched)) ->
    exists i r, In (LDoQueryReturn i r) sched /\ r_from r = Some x.
  Proof. exact (TraversalC02.C02_responder_answered D node_filter data_filter tb target k alpha tb_refl tb_eq tb_antisym tb_trans sched x). Qed.

  (* Honest finite network Net (distinct IDs, distinct addresses, all pass the node filter; every
     contacted node answers as itself with data passing the data filter and lists the true K
     closest nodes; seeds and late contacts are addresses of Net passing the filter): at a stalled
     offer the closest set is exactly the K closest nodes of Net (all of Net when |Net| < K). *)
  Theorem C02_exact (Net : list ninfo) sched :
    NoDup (map fst Net) -> NoDup (map snd Net) ->
    (forall n, In n Net -> node_filter (ni_ami n) = true) ->
    honest_exec D node_filter data_filter tb target k alpha Net (k_closest tb target k Net) init sched ->
    at_stalled_offer (lookup sched) = true ->
    st_offered (lookup sched) <> [] ->
    forall x, In x (map (nkey D) (st_closest (lookup sched))) <-> In x (k_closest tb target k Net).
  Proof.
    exact (fun H1 H2 H3 =>
             C02_exact_k_closest D node_filter data_filter tb tb_refl tb_eq tb_antisym tb_trans
               target k alpha (eff_k_pos K) (eff_alpha_pos A) Net H1 H2 H3 sched).
  Qed.

  (* what k_closest is: the K nearest nodes of Net *)
  Theorem C02_k_closest_spec (Net : list ninfo) :
    NoDup (map fst Net) ->
    incl (k_closest tb target k Net) Net /\ NoDup (k_closest tb target k Net) /\
    length (k_closest tb target k Net) = Nat.min k (length Net) /\
    (forall a b, In a (k_closest tb target k Net) -> In b Net -> ~ In b (k_closest tb target k Net) ->
                 (dist (fst a) target < dist (fst b) target)%N).
  Proof.
    exact (fun H =>
          (conj (k_closest_incl tb tb_refl tb_eq tb_antisym tb_trans target k Net)
          (conj (k_closest_nodup tb tb_refl tb_eq tb_antisym tb_trans target k Net)
          (conj (k_closest_length tb tb_refl tb_eq tb_antisym tb_trans target k Net H)
                (k_closest_nearest tb tb_refl tb_eq tb_antisym tb_trans target k Net H))))).
  Qed.
End C02.

(* ---- non-vacuity: a concrete honest network and schedule reach a stalled offer with a
        non-empty closest set, and satisfy every hypothesis of C02_exact ---- *)
Example C02_nonvacuous_stalled :
  at_stalled_offer (ex_run ex_sched_stall) = true /\
  map (nkey N) (st_closest (ex_run ex_sched_stall)) = [ex_n1; ex_n2] /\
  k_closest ap_cmp 0%N 2 ex_net = [ex_n1; ex_n2] /\
  st_responded (ex_run ex_sched_stall) = [(ex_n3, 30%N); (ex_n2, 20%N); (ex_n1, 10%N)] /\
  st_offered (ex_run ex_sched_stall) <> [].
Proof. vm_compute. repeat split. discriminate. Qed.

Example C02_nonvacuous_honest :
  NoDup (map fst ex_net) /\ NoDup (map snd ex_net) /\
  honest_exec N (fun _ => true) (fun _ => true) ap_cmp 0%N 2 2 ex_net
              (k_closest ap_cmp 0%N 2 ex_net) init ex_sched_stall.
Proof.
  split; [|split].
  - repeat constructor; simpl; intuition discriminate.
  - repeat constructor; simpl; intuition discriminate.
  - assert (E : k_closest ap_cmp 0%N 2 ex_net = ex_nk) by (vm_compute; reflexivity).
    rewrite E. clear E.
    assert (Hresp : forall n d a, In n ex_net -> snd n = a ->
              honest_resp N (fun _ => true) ex_net ex_nk a (ex_resp n d)).
    { intros n d a Hn Ha. exists n, d. repeat split; try assumption; intros H; exact H. }
    cbn [honest_exec ex_sched_stall ex_sched_mid ex_complete app honest_label].
    repeat match goal with
           | |- _ /\ _ => split
           | |- True => exact I
           end;
      try (intros c [<-|[]]; split; [reflexivity|simpl; tauto]);
      try (intros q Hq; vm_compute in Hq; injection Hq as <-; apply Hresp; [simpl; tauto|reflexivity]).
Qed.

(* a lying / duplicate-ID graph: soundness still applies; the farther liar is trimmed *)
Example C02_nonvacuous_trim :
  map (nkey N) (st_closest (ex_run ([LAddNodes [ex_seed]; LRun] ++
        [LDoQueryReturn 0 (mkResp (Some ((7%N, ex_a3), 1%N)) [ex_n1; (1%N, ex_a2)] []); LResp 0; LAddN 0; LAddN6 0; LDone 0; LWake; LRun] ++
        [LDoQueryReturn 1 (mkResp (Some (ex_n1, 2%N)) [] []); LResp 1; LAddN 1; LAddN6 1; LDone 1] ++
        [LDoQueryReturn 2 (mkResp (Some ((1%N, ex_a2), 3%N)) [] []); LResp 2; LAddN 2; LAddN6 2; LDone 2; LWake; LRun])))
  = [ex_n1; (1%N, ex_a2)].
Proof. vm_compute. reflexivity. Qed.

Example C02_pin_defaults :
  traversal_default_k = 8%Z /\ traversal_default_k_ok = true /\
  traversal_default_alpha = 3%Z /\ traversal_default_alpha_ok = true /\ eff_k 0 = 8 /\ eff_alpha 0 = 3.
Proof. vm_compute. repeat split. Qed.

Print Assumptions C02_sound.
Print Assumptions C02_responder_answered.
Print Assumptions C02_exact.
Print Assumptions C02_k_closest_spec.

(* The model runner's treatment of replies processed at overlapping times (harness line `tdonem`:
   several DoQuery calls return together, their locked sections interleave with each other and
   with the run loop): every state the runner ever holds for such a line is the state after some
   label list of the same LTS, so C02_sound / C02_exact (and C03, C04) apply to it. *)
From Dht Require Import RunTraversal TraversalConc.
Theorem C02_overlapping_replies_runner_sound (c : tcfg) (pf : bool) s rs ids s1 n s' :
  rt_conc_begin c pf s rs = Some (ids, s1) ->
  In s' (map (rt_quiesce c pf) (conc_explore c pf n ids [s1])) ->
  exists ls, s' = rt_exec c pf s ls.
Proof. exact (rt_conc_reach c pf s rs ids s1 n s'). Qed.
Print Assumptions C02_overlapping_replies_runner_sound.

(* Lookups engine, honest-network cases (harness/cmd/h/lookups_closest.go, line `lkexact`): the list the runner
   answers with (RunLookupsClosest.rlc_exact: every node of the network pushed into the K-nearest container of
   Lookups.v) IS "the K closest nodes of that network" of the property's second sentence, whatever the order in which
   the nodes are listed: it is the first K of the sorted whole, the sorted whole misses no node of the network, and
   nothing that was left out is closer to the target than a member. *)
From Dht Require Lookups RunLookupsClosest RunLookupsClosestProofs.
Theorem C02_lookups_exact_first_k t k es :
  RunLookupsClosest.rlc_run t k es = firstn k (RunLookupsClosest.rlc_all t es).
Proof. exact (RunLookupsClosestProofs.rlc_run_spec t k es). Qed.
Theorem C02_lookups_exact_covers t es x :
  In x es -> exists y, In y (RunLookupsClosest.rlc_all t es) /\ Lookups.lk_cmp t y x = Eq.
Proof. exact (RunLookupsClosestProofs.rlc_all_covers t es x). Qed.
Theorem C02_lookups_exact_nearest t k es m e :
  In m (RunLookupsClosest.rlc_run t k es) -> In e (RunLookupsClosest.rlc_all t es) ->
  ~ In e (RunLookupsClosest.rlc_run t k es) ->
  Lookups.lk_cmp t m e = Lt /\
  (N.lxor (Lookups.e_id m) t <= N.lxor (Lookups.e_id e) t)%N.
Proof. exact (RunLookupsClosestProofs.rlc_nearest t k es m e). Qed.
Theorem C02_lookups_exact_members t k net a :
  In a (RunLookupsClosest.rlc_exact t k net) -> In a (map snd net).
Proof. exact (RunLookupsClosestProofs.rlc_exact_incl t k net a). Qed.
Example C02_lookups_exact_nonvacuous :
  RunLookupsClosest.rlc_exact 8 2 [(1, 101); (9, 102); (12, 103); (10, 104); (200, 105)]%N = [102; 104]%N /\
  RunLookupsClosest.rlc_exact 8 2 [(200, 105); (10, 104); (12, 103); (9, 102); (1, 101)]%N = [102; 104]%N.
Proof. exact RunLookupsClosestProofs.rlc_exact_example. Qed.
Print Assumptions C02_lookups_exact_first_k.
Print Assumptions C02_lookups_exact_covers.
Print Assumptions C02_lookups_exact_nearest.
Print Assumptions C02_lookups_exact_members.
