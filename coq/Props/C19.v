(* C19 — blocklisted addresses and passive mode are honoured on every path.
   Statements only; every proof is `exact <lemma>` from proofs/ServerC08.v.
   The statements hold for ANY state (so for every blocklist, installed at construction through
   init_state or later through the ESetBlocklist event), every event constructor, every choice.
   `blocked (s_blocklist s) ip` is the blocklist in force when the event is processed. *)
From Dht Require Import Base Int160 Msg Server ServerDefs ServerC08.
From DhtGen Require Import Params.

Section C19.
  Variable Store : Type.
  Variable w_put : Store -> witem -> Z -> Store * put_result.
  Variable w_get : Store -> bytes -> Z -> Store * get_result.
  Variable sha1 : bytes -> bytes.
  Variable id_secure : N -> bytes -> bool.
  Variable cfg : config.

  Notation sstate := (sstate Store).
  Notation step := (step Store w_put w_get sha1 id_secure cfg).
  Notation SR := (SR Store).

  (* ---- outbound: one write routine, one check; replies, errors and queries alike ---- *)
  Theorem C19_no_send_to_blocked (s : sstate) e ch s' out d rm k :
    step s e ch = SR s' out -> In (ESend d rm k) out -> blocked (s_blocklist Store s) (ip d) = false.
  Proof. exact (C19_no_send_to_blocked Store w_put w_get sha1 id_secure cfg s e ch s' out d rm k). Qed.

  (* ---- inbound: a datagram from a blocked address changes nothing and outputs nothing: no reply,
          no table entry, no stored peer/item, no completed query, no token spent ---- *)
  Theorem C19_blocked_inert (s : sstate) src size dec ch s' out :
    blocked (s_blocklist Store s) (ip src) = true ->
    step s (EPacket src size dec) ch = SR s' out -> s' = s /\ out = [].
  Proof. exact (C19_blocked_inert Store w_put w_get sha1 id_secure cfg s src size dec ch s' out). Qed.

  Theorem C19_blocked_inert_total (s : sstate) src size dec ch :
    blocked (s_blocklist Store s) (ip src) = true ->
    step s (EPacket src size dec) ch = SR s [].
  Proof. exact (C19_blocked_inert_total Store w_put w_get sha1 id_secure cfg s src size dec ch). Qed.

  (* ---- lookups: the node filter of every traversal rejects blocked addresses (and port 0,
          0.x.x.x, and insecure ids when security is enforced) ---- *)
  Theorem C19_lookup_filter (s : sstate) i p id :
    blocked (s_blocklist Store s) i = true -> traversal_node_filter Store id_secure cfg s i p id = false.
  Proof. exact (C19_lookup_filter Store id_secure cfg s i p id). Qed.

  Theorem C04_filter_spec (s : sstate) i p id :
    traversal_node_filter Store id_secure cfg s i p id = true <->
    p <> 0%N /\ (forall x r, to4 i = Some (x :: r) -> Byte.to_N x <> 0%N) /\
    blocked (s_blocklist Store s) i = false /\
    (forall x, id = Some x -> c_no_security cfg = true \/ id_secure x i = true).
  Proof. exact (C04_filter_spec Store id_secure cfg s i p id). Qed.

  (* ---- passive mode ---- *)
  Theorem C19_passive_silent (s : sstate) src size dec ch s' out :
    c_passive cfg = true -> step s (EPacket src size dec) ch = SR s' out -> sends out = [].
  Proof. exact (C19_passive_silent Store w_put w_get sha1 id_secure cfg s src size dec ch s' out). Qed.

  Theorem C19_passive_only_queries (s : sstate) e ch s' out d rm k :
    c_passive cfg = true -> step s e ch = SR s' out -> In (ESend d rm k) out -> k = SQuery.
  Proof. exact (C19_passive_only_queries Store w_put w_get sha1 id_secure cfg s e ch s' out d rm k). Qed.

  Theorem C19_passive_ro (s : sstate) e ch s' out d rm :
    c_passive cfg = true -> step s e ch = SR s' out -> In (ESend d rm SQuery) out -> m_ro rm = true.
  Proof. exact (C19_passive_ro Store w_put w_get sha1 id_secure cfg s e ch s' out d rm). Qed.

  Theorem C19_query_ro (s : sstate) e ch s' out d rm :
    step s e ch = SR s' out -> In (ESend d rm SQuery) out -> m_ro rm = c_passive cfg.
  Proof. exact (C19_query_ro Store w_put w_get sha1 id_secure cfg s e ch s' out d rm). Qed.

  (* ---- closed server ---- *)
  Theorem C19_closed_silent (s : sstate) e ch s' out :
    s_closed Store s = true -> step s e ch = SR s' out -> sends out = [].
  Proof. exact (C19_closed_silent Store w_put w_get sha1 id_secure cfg s e ch s' out). Qed.

  (* ---- at every point of every history (with the blocklist then in force) ---- *)
  Theorem C19_histories evs (s s' : sstate) outs :
    run Store w_put w_get sha1 id_secure cfg s evs = Some (s', outs) ->
    exists states, length states = length evs /\ length outs = length evs /\
      forall i e ch, nth_error evs i = Some (e, ch) ->
        exists si si' out, nth_error (s :: states) i = Some si /\ nth_error states i = Some si' /\
                           nth_error outs i = Some out /\ step si e ch = SR si' out /\
                           forall d rm k, In (ESend d rm k) out -> blocked (s_blocklist Store si) (ip d) = false.
  Proof.
    exact (run_all_steps Store w_put w_get sha1 id_secure cfg
             (fun si e ch si' out => forall d rm k, In (ESend d rm k) out -> blocked (s_blocklist Store si) (ip d) = false)
             (fun si e ch si' out H d rm k => ServerC08.C19_no_send_to_blocked Store w_put w_get sha1 id_secure cfg si e ch si' out d rm k H)
             evs s s' outs).
  Qed.
End C19.

(* ---- non-vacuity: a concrete server; 10.0.0.0/24 blocked ---- *)
Definition C19_ex_put (st : unit) (_ : witem) (_ : Z) : unit * put_result := (st, PutOk).
Definition C19_ex_get (st : unit) (_ : bytes) (_ : Z) : unit * get_result := (st, GetNotFound).
Definition C19_ex_sha1 (b : bytes) : bytes := b.
Definition C19_ex_secure (_ : N) (_ : bytes) : bool := true.
Definition C19_ex_cfg (passive : bool) : config :=
  mkCfg 1 passive false true true (fun _ => true) false [x2a].
Definition C19_ex_bl : list (N * N) :=
  [(toN (v4_prefix ++ [x0a; x00; x00; x00]), toN (v4_prefix ++ [x0a; x00; x00; xff]))].
Definition C19_ex_blocked_src : addr := mkAddr [x0a; x00; x00; x01] 6881.      (* 10.0.0.1 *)
Definition C19_ex_free_src : addr := mkAddr [x0a; x00; x01; x01] 6881.         (* 10.0.1.1 *)
Definition C19_ex_args : msg_args :=
  mkArgs (ofN 20 5) zero20 zero20 [] None false None 0 0 None None 0 zero32 [] zero64.
Definition C19_ex_ping : msg := mkMsg s_ping (Some C19_ex_args) [x61; x61] s_q None None empty_na false [].
Definition C19_ex_init : sstate unit := init_state unit tt 1000 C19_ex_bl None.
Definition C19_ex_step (passive : bool) (s : sstate unit) (e : event) : step_result unit :=
  step unit C19_ex_put C19_ex_get C19_ex_sha1 C19_ex_secure (C19_ex_cfg passive) s e no_choice.

(* a ping from the blocked source is ignored entirely (state unchanged, nothing output), also in its
   v4-mapped 16-byte form; the same ping from an unblocked source is answered *)
Example C19_ex_blocked_ignored :
  blocked C19_ex_bl (ip C19_ex_blocked_src) = true /\
  C19_ex_step false C19_ex_init (EPacket C19_ex_blocked_src 60 (Some C19_ex_ping)) = SR unit C19_ex_init [] /\
  C19_ex_step false C19_ex_init (EPacket (mkAddr (v4_prefix ++ [x0a; x00; x00; x01]) 6881) 60 (Some C19_ex_ping))
    = SR unit C19_ex_init [] /\
  match C19_ex_step false C19_ex_init (EPacket C19_ex_free_src 60 (Some C19_ex_ping)) with
  | Server.SR _ s' out => sends out = [ESend C19_ex_free_src (reply_msg (C19_ex_cfg false) C19_ex_free_src [x61; x61] empty_return) SReply]
                          /\ length (s_nodes unit s') = 1%nat
  | _ => False
  end.
Proof. vm_compute. repeat split. Qed.

(* a query towards a blocked address fails without a datagram; towards an unblocked one it is sent *)
Example C19_ex_query_to_blocked :
  C19_ex_step false C19_ex_init (EQueryStart 7 C19_ex_blocked_src s_ping empty_args true (uvarint 0))
    = SR unit (with_pending unit C19_ex_init [] 1) [EDropped 2; EQueryFailed 7] /\
  match C19_ex_step false C19_ex_init (EQueryStart 7 C19_ex_free_src s_ping empty_args true (uvarint 0)) with
  | Server.SR _ _ out => out = [ESend C19_ex_free_src (query_msg (C19_ex_cfg false) s_ping empty_args (uvarint 0)) SQuery]
  | _ => False
  end.
Proof. vm_compute. split; reflexivity. Qed.

(* the lookup filter: blocked and port-0 and 0.x.x.x addresses rejected, others accepted *)
Example C19_ex_filter :
  traversal_node_filter unit C19_ex_secure (C19_ex_cfg false) C19_ex_init [x0a; x00; x00; x01] 6881 None = false /\
  traversal_node_filter unit C19_ex_secure (C19_ex_cfg false) C19_ex_init [x0a; x00; x01; x01] 0 None = false /\
  traversal_node_filter unit C19_ex_secure (C19_ex_cfg false) C19_ex_init [x00; x01; x01; x01] 6881 None = false /\
  traversal_node_filter unit C19_ex_secure (C19_ex_cfg false) C19_ex_init [x0a; x00; x01; x01] 6881 (Some 5%N) = true.
Proof. vm_compute. repeat split. Qed.

(* a passive node: silent towards the ping, and its own queries carry ro = 1 *)
Example C19_ex_passive :
  c_passive (C19_ex_cfg true) = true /\
  match C19_ex_step true C19_ex_init (EPacket C19_ex_free_src 60 (Some C19_ex_ping)) with
  | Server.SR _ _ out => out = []
  | _ => False
  end /\
  match C19_ex_step true C19_ex_init (EQueryStart 7 C19_ex_free_src s_ping empty_args true (uvarint 0)) with
  | Server.SR _ _ [ESend d rm SQuery] => d = C19_ex_free_src /\ m_ro rm = true
  | _ => False
  end.
Proof. vm_compute. repeat split. Qed.

(* a blocklist installed later is honoured from then on *)
Example C19_ex_installed_later :
  match C19_ex_step false (init_state unit tt 1000 [] None) (ESetBlocklist C19_ex_bl) with
  | Server.SR _ s1 _ =>
      C19_ex_step false s1 (EPacket C19_ex_blocked_src 60 (Some C19_ex_ping)) = SR unit s1 []
  | _ => False
  end.
Proof. vm_compute. reflexivity. Qed.

From Coq Require Import String.
(* ---- structural pins (srcfacts): every datagram leaves through the one routine that consults the
        blocklist, and the blocklist is consulted on the inbound path and by the lookup filter ---- *)
Example C19_pin_single_write_routine :
  socket_writeto_callers = ["writeToNode"]%string /\ socket_writeto_callers_ok = true /\
  write_to_node_callers = ["reply"; "sendError"; "transactionQuerySender"]%string /\
  blocklist_lookup_callers = ["TraversalNodeFilter"; "ipBlocked"; "serve"; "writeToNode"]%string.
Proof. repeat split. Qed.

Print Assumptions C19_no_send_to_blocked.
Print Assumptions C19_blocked_inert.
Print Assumptions C19_blocked_inert_total.
Print Assumptions C19_lookup_filter.
Print Assumptions C04_filter_spec.
Print Assumptions C19_passive_silent.
Print Assumptions C19_passive_only_queries.
Print Assumptions C19_passive_ro.
Print Assumptions C19_query_ro.
Print Assumptions C19_closed_silent.
Print Assumptions C19_histories.


(* ================= C19, outbound queries: every send (first or resend) re-checks closed flag and blocklist =================
   (Query.v, QueryProofs.v; tied to /repo by the `query` engine: Server.SetIPBlockList covering the destination
   between two sends of a NumTries 2..4 query) *)
From Dht Require Query QueryProofs.

Section C19_query.
  Import Query QueryProofs.

  (* a datagram leaves only if at that very send the server is open and the destination is not blocked *)
  Theorem C19_query_send_rechecks c s :
    (enabled c s ESendOk = true -> q_closed s = false /\ q_blocked s = false) /\
    (enabled c s (ESendErr CShort) = true -> q_closed s = false /\ q_blocked s = false).
  Proof. exact (conj (send_rechecks c s) (send_rechecks_short c s)). Qed.

  (* a send attempted while the destination is blocked fails with the blocklist error *)
  Theorem C19_query_blocked_send_error c s x :
    q_closed s = false -> q_blocked s = true -> enabled c s (ESendErr x) = true -> x = CBlocked.
  Proof. exact (blocked_send_error c s x). Qed.

  (* once the destination is on the blocklist -- before the query or between two of its sends -- no further
     datagram goes to it, on any schedule *)
  Theorem C19_query_blocked_no_write c ls s :
    q_blocked s = true -> q_blocked (exec c s ls) = true /\ q_writes (exec c s ls) = q_writes s.
  Proof. exact (blocked_no_write c ls s). Qed.
End C19_query.

(* non-vacuity: NumTries 3, blocklist installed after the first send: one datagram, the resend is refused *)
Example C19_query_nonvacuous :
  let c := Query.mkQC 3 false Query.rl_zero false in
  let s := Query.run c false 0 [Query.LRegister; Query.ESendOk; Query.EBlockDest; Query.EDelayElapsed; Query.ESendErr Query.CBlocked;
                                Query.LSelSendErr; Query.LCancelSend; Query.LJoin; Query.LDeregister] in
  (Query.q_writes s, Query.q_result s, Query.all_done s) = (1, Some (Query.RSendErr Query.CBlocked), true) /\
  Query.enabled c (Query.run c false 0 [Query.LRegister; Query.ESendOk; Query.EBlockDest; Query.EDelayElapsed]) Query.ESendOk = false.
Proof. vm_compute. split; reflexivity. Qed.

Print Assumptions C19_query_send_rechecks.
Print Assumptions C19_query_blocked_send_error.
Print Assumptions C19_query_blocked_no_write.
