(* C12 — BEP 44 store never accepts or serves a forged or oversized item.
   Statements only; every proof is `exact <lemma>` from proofs/Bep44Proofs.v, Bep44SchedProofs.v.
   All theorems are parametric in [sha1] and [ed_verify] (Section variables, no axioms); they hold for
   both variants of the model (pinned and repaired) unless a variant is named.

   Layout: Part 1 store side (this slice), Part 2 client side (getput acceptance rule),
           Part 3 reserved for the wire / server theorems (put/get datagrams -> [handle_put]/[handle_get]);
           add them inside [Section C12] before its [End], and their Print Assumptions at the end. *)
From Dht Require Import Base Bep44 Bep44Proofs Bep44SchedProofs Sha1.
From DhtGen Require Import Params.
Local Open Scope Z_scope.

Section C12.
  Variable sha1 : bytes -> bytes.
  Variable ed_verify : bytes -> bytes -> bytes -> bool.
  Notation target := (target sha1).
  Notation check := (check ed_verify).
  Notation wrapper_put := (wrapper_put sha1 ed_verify).
  Notation handle_put := (handle_put sha1 ed_verify).
  Notation server_put_local := (server_put_local sha1 ed_verify).
  Notation seq_run := (seq_run sha1 ed_verify).
  Notation client_accept := (client_accept sha1 ed_verify).
  Notation client_get := (client_get sha1 ed_verify).

  (* ================= Part 1: the store ================= *)

  (* every item in any store reachable from the empty one by any history of API puts/gets, wire
     puts/gets, Server.Put calls and time steps passed Check and sits under its own target *)
  Theorem C12_store_inv v exp evs clock t i :
    store_get t (s_store (seq_run v exp evs (mkSState clock []))) = Some i ->
    blen (it_bv i) <= 1000 /\
    (is_mutable i = true ->
       ed_verify (it_k i) (buffer_to_sign (it_salt i) (it_bv i) (it_seq i)) (it_sig i) = true /\
       blen (it_salt i) <= 64 /\
       t = sha1 (it_k i ++ it_salt i)) /\
    (is_mutable i = false -> t = sha1 (it_bv i)).
  Proof. exact (seq_run_store_ok sha1 ed_verify v exp evs (mkSState clock []) (store_ok_empty sha1 ed_verify) t i). Qed.

  (* the same in every reachable state of every schedule of concurrent Wrapper operations *)
  Theorem C12_store_inv_sched v exp ths sched t i :
    store_get t (g_store (g_run sha1 ed_verify true v exp ths sched (g_init ths []))) = Some i ->
    blen (it_bv i) <= 1000 /\
    (is_mutable i = true ->
       ed_verify (it_k i) (buffer_to_sign (it_salt i) (it_bv i) (it_seq i)) (it_sig i) = true /\
       blen (it_salt i) <= 64 /\
       t = sha1 (it_k i ++ it_salt i)) /\
    (is_mutable i = false -> t = sha1 (it_bv i)).
  Proof. exact (sched_store_ok sha1 ed_verify v exp ths [] sched (store_ok_empty sha1 ed_verify) t i). Qed.

  (* what a get returns is the stored item of the requested target (API and wire reply fields) *)
  Theorem C12_served exp now t s :
    (forall i s', wrapper_get exp now t s = (Some i, s') ->
                  store_get t s = Some i /\ s' = s /\ now < it_created i + exp) /\
    (forall sq g s', handle_get exp now t sq s = (g, s') ->
       (forall q, gr_seq g = Some q ->
          exists i, store_get t s = Some i /\ it_seq i = q /\ now < it_created i + exp) /\
       (forall bv k sg, gr_val g = Some (bv, k, sg) ->
          exists i, store_get t s = Some i /\ now < it_created i + exp /\
                    bv = it_bv i /\ k = it_k i /\ sg = it_sig i /\ gr_seq g = Some (it_seq i))).
  Proof.
    split; [exact (wrapper_get_served exp now t s)|exact (fun sq g s' => handle_get_served exp now t sq s g s')].
  Qed.

  (* 205 / 207 / 206 exactly when the respective clause fails, with the code's priority
     (value size, then salt size, then signature; the last two for mutable items only) *)
  Theorem C12_reject_codes i :
    (check i = Some 205 <-> 1000 < blen (it_bv i)) /\
    (check i = Some 207 <-> blen (it_bv i) <= 1000 /\ is_mutable i = true /\ 64 < blen (it_salt i)) /\
    (check i = Some 206 <->
       blen (it_bv i) <= 1000 /\ is_mutable i = true /\ blen (it_salt i) <= 64 /\
       ed_verify (it_k i) (buffer_to_sign (it_salt i) (it_bv i) (it_seq i)) (it_sig i) = false) /\
    (check i = None <->
       blen (it_bv i) <= 1000 /\
       (is_mutable i = true ->
          blen (it_salt i) <= 64 /\
          ed_verify (it_k i) (buffer_to_sign (it_salt i) (it_bv i) (it_seq i)) (it_sig i) = true)) /\
    (forall e, check i = Some e -> e = 205 \/ e = 207 \/ e = 206).
  Proof. exact (check_spec ed_verify i). Qed.

  (* the code reaches the caller: Wrapper.Put returns it, the wire handler sends it (203 without seq;
     any non-KRPC error would become 204, and the wrapper over this store never produces one) *)
  Theorem C12_reject_codes_reach_the_caller v now s :
    (forall i e, check i = Some e -> wrapper_put v now i s = (PErr e, s)) /\
    (forall a, pa_seq a = None -> handle_put v now a s = (SError 203, s)) /\
    (forall a q, pa_seq a = Some q ->
       handle_put v now a s =
       (put_result_to_wire (fst (wrapper_put v now (item_of_args a q) s)),
        snd (wrapper_put v now (item_of_args a q) s))) /\
    (forall c, put_result_to_wire (PErr c) = SError c) /\ put_result_to_wire POther = SError 204 /\
    (forall i, fst (wrapper_put v now i s) <> POther).
  Proof.
    split; [exact (fun i e => wrapper_put_check_failed sha1 ed_verify v now i s e)|].
    split; [exact (fun a => proj1 (handle_put_codes sha1 ed_verify v now a s))|].
    split; [exact (fun a => proj2 (handle_put_codes sha1 ed_verify v now a s))|].
    split; [exact (fun c => eq_refl)|].
    split; [exact eq_refl|exact (fun i => wrapper_put_never_other sha1 ed_verify v now i s)].
  Qed.

  (* a rejected put leaves the store unchanged, through every entry point *)
  Theorem C12_reject_unchanged v now s :
    (forall i r s', wrapper_put v now i s = (r, s') -> r <> POk -> s' = s) /\
    (forall a c s', handle_put v now a s = (SError c, s') -> s' = s) /\
    (forall p r s', server_put_local v now p s = (LErr r, s') -> s' = s /\ r <> POk) /\
    (forall p a s', server_put_local v now p s = (LQuery a, s') ->
       wrapper_put v now (put_to_item p) s = (POk, s') /\ a = args_of_put p).
  Proof.
    split; [exact (fun i r s' => wrapper_put_rejected_unchanged sha1 ed_verify v now i s r s')|].
    split; [exact (fun a c s' => handle_put_rejected_unchanged sha1 ed_verify v now a s c s')|].
    split; [exact (fun p r s' => server_put_local_rejected_unchanged sha1 ed_verify v now p s r s')|
            exact (fun p a s' => server_put_local_query sha1 ed_verify v now p s a s')].
  Qed.

  (* the canonical buffer: decimal rendering loses nothing (so distinct seqs give distinct buffers) *)
  Theorem C12_decimal_exact n : undec (dec_N n) = n.
  Proof. exact (dec_N_roundtrip n). Qed.

  (* ================= Part 2: the client (getput) ================= *)

  (* whatever the remote nodes reply (any list, any subset of fields): a value handed to the caller
     hashes to the requested target, or verifies under a key that, with the requested salt, hashes to it *)
  Theorem C12_client v tgt salt replies g :
    client_get v tgt salt replies None = COResult (Some g) ->
    ((res_mutable g = false /\ sha1 (res_v g) = tgt) \/
     (res_mutable g = true /\
      exists k, sha1 (k ++ salt) = tgt /\
                ed_verify k (buffer_to_sign salt (res_v g) (res_seq g)) (res_sig g) = true)) /\
    exists r, In r replies /\ res_v g = r_v r /\ res_sig g = r_sig r.
  Proof. exact (client_get_sound sha1 ed_verify v tgt salt replies g). Qed.

  (* ... and a mutable result has the greatest seq among all accepted mutable values *)
  Theorem C12_client_max v tgt salt replies g :
    client_get v tgt salt replies None = COResult (Some g) -> res_mutable g = true ->
    forall r g', In r replies -> client_accept v tgt salt r = AccMut g' -> res_seq g' <= res_seq g.
  Proof. exact (client_get_max sha1 ed_verify v tgt salt replies g). Qed.

  (* "value not found" only when no reply was acceptable *)
  Theorem C12_client_none v tgt salt replies :
    client_get v tgt salt replies None = COResult None ->
    forall r, In r replies -> client_accept v tgt salt r = AccNone.
  Proof. exact (client_get_none sha1 ed_verify v tgt salt replies). Qed.

  (* the repaired client never panics; Put's autoSeq bounds every accepted mutable seq *)
  Theorem C12_client_total_repaired tgt salt replies cur : client_get Repaired tgt salt replies cur <> COPanic.
  Proof. exact (client_get_repaired_total sha1 ed_verify tgt salt replies cur). Qed.

  Theorem C12_client_autoseq v tgt salt replies q :
    client_autoseq sha1 ed_verify v tgt salt replies 0 = Some q ->
    0 <= q /\
    (forall r g, In r replies -> client_accept v tgt salt r = AccMut g -> res_seq g <= q) /\
    (q = 0 \/ exists r g, In r replies /\ client_accept v tgt salt r = AccMut g /\ res_seq g = q).
  Proof. exact (client_autoseq_spec sha1 ed_verify v tgt salt replies 0 q). Qed.

  (* ================= Part 3: wire / server (to be added) ================= *)
End C12.

(* D2 on the pinned tree: a reply with the right key and no seq crashes the client *)
Theorem C12_client_panic_refuted_pinned :
  exists (tgt salt : bytes) (replies : list reply),
    client_get sha1 ver_all Pinned tgt salt replies None = COPanic /\
    client_get sha1 ver_all Repaired tgt salt replies None = COResult None.
Proof. exact client_panic_pinned. Qed.

(* ---- non-vacuity ---- *)
Definition C12_ver_none (k m sg : bytes) : bool := false.

Example C12_nonvacuous :
  let good := witem [x69; x31; x65] 0 1 in
  let big := witem (repeat x61 1001) 0 1 in
  let salty := mkItem [x69; x31; x65] wk (repeat x61 65) wsig 0 1 0 in
  let imm := mkItem [x69; x31; x65] (repeat x00 32) [] wsig 0 0 0 in
  (* a mutable and an immutable item stored and served; rejects with each code; store untouched *)
  check ver_all good = None /\ check ver_all imm = None /\
  check ver_all big = Some 205 /\ check ver_all salty = Some 207 /\ check C12_ver_none good = Some 206 /\
  check C12_ver_none imm = None /\
  (let st := seq_run sha1 ver_all Repaired 1000 [EPut good; EPut imm; EPut big; EPut salty] (mkSState 0 []) in
   length (s_store st) = 2%nat /\
   store_get wt (s_store st) = Some good /\
   store_get (sha1 [x69; x31; x65]) (s_store st) = Some imm) /\
  fst (handle_put sha1 ver_all Repaired 0 (mkPutArgs [x69; x31; x65] wk [] wsig 0 None) []) = SError 203 /\
  (* client: two genuine mutable replies, the higher seq wins whatever the order *)
  (let r1 := mkReply [x69; x31; x65] wk wsig (Some 1) in
   let r2 := mkReply [x69; x32; x65] wk wsig (Some 2) in
   client_get sha1 ver_all Repaired wt [] [r1; r2] None = COResult (Some (mkGetResult 2 [x69; x32; x65] wsig true)) /\
   client_get sha1 ver_all Repaired wt [] [r2; r1] None = COResult (Some (mkGetResult 2 [x69; x32; x65] wsig true)) /\
   client_get sha1 C12_ver_none Repaired wt [] [r2; r1] None = COResult None).
Proof. vm_compute. repeat split. Qed.

(* ---- pins: the constants the property names, as found in /repo now ---- *)
Example C12_pin_limits :
  bep44_max_v = 1000 /\ bep44_max_v_ok = true /\ bep44_max_salt = 64 /\ bep44_max_salt_ok = true.
Proof. repeat split. Qed.

Example C12_pin_codes :
  bep44_ErrValueFieldTooBig = 205 /\ bep44_ErrValueFieldTooBig_ok = true /\
  bep44_ErrInvalidSignature = 206 /\ bep44_ErrInvalidSignature_ok = true /\
  bep44_ErrSaltFieldTooBig = 207 /\ bep44_ErrSaltFieldTooBig_ok = true /\
  err_MessageValueFieldTooBig = 205 /\ err_MessageValueFieldTooBig_ok = true /\
  err_InvalidSignature = 206 /\ err_InvalidSignature_ok = true /\
  err_SaltFieldTooBig = 207 /\ err_SaltFieldTooBig_ok = true /\
  err_ProtocolError = 203 /\ err_ProtocolError_ok = true /\
  err_value_method_unknown = 204 /\ err_value_method_unknown_ok = true.
Proof. repeat split. Qed.

Print Assumptions C12_store_inv.
Print Assumptions C12_store_inv_sched.
Print Assumptions C12_served.
Print Assumptions C12_reject_codes.
Print Assumptions C12_reject_codes_reach_the_caller.
Print Assumptions C12_reject_unchanged.
Print Assumptions C12_client.
Print Assumptions C12_client_max.
Print Assumptions C12_client_none.
Print Assumptions C12_client_total_repaired.
Print Assumptions C12_client_autoseq.
Print Assumptions C12_client_panic_refuted_pinned.


(* ================= Part 4: the client inside the real traversals =================
   getput.Get / getput.Put as OWNERS of a traversal (Lookups.v): whatever the schedule of queries, replies
   (any subset of fields, any order, forged / stale / field-missing), deliveries on vChan, ctx cancellation
   and stalls, what Get hands to its caller is [client_get] of the replies that reached it (so
   C12_client / C12_client_max apply), and the seq Put passes to seqToPut is [client_autoseq] of them.
   Tied to /repo by the `lookups` engine (real getput.Get / getput.Put against simulated nodes with real
   ed25519 keys). *)
From Dht Require Lookups LookupsProofs.

Section C12_traversal.
  Import Lookups LookupsProofs.
  Variable sha1 : bytes -> bytes.
  Variable ed_verify : bytes -> bytes -> bytes -> bool.
  Variable node_ok : addr -> N -> bool.
  Variable push : list elem -> elem -> list elem.
  Hypothesis push_incl : forall l e x, In x (push l e) -> x = e \/ In x l.
  Variable c : lcfg.
  Notation reachable := (reachable sha1 ed_verify node_ok push c).
  Notation client_accept := (client_accept sha1 ed_verify (lc_variant c) (lc_tgt c) (lc_salt c)).

  Theorem C12_client_traversal_get s :
    reachable s -> lc_api c = AGet -> owner_done s = true ->
    client_get sha1 ed_verify (lc_variant c) (lc_tgt c) (lc_salt c) (l_recv s) None = COResult (l_cur s) /\
    (l_err s = None -> l_cur s <> None) /\
    (forall it, In it (l_recv s) -> exists q a r, In (q, a, r) (l_log s) /\ gr_item r = it /\ gr_has_r r = true).
  Proof. exact (get_result_is_client_get sha1 ed_verify node_ok push c s). Qed.

  (* the value handed to the caller of Get: vouched for by the requested target, taken from a reply of this
     traversal, and of the highest seq among the accepted mutable values *)
  Theorem C12_client_traversal_get_sound s g :
    reachable s -> lc_api c = AGet -> owner_done s = true -> l_cur s = Some g ->
    ((res_mutable g = false /\ sha1 (res_v g) = lc_tgt c) \/
     (res_mutable g = true /\
      exists k, sha1 (k ++ lc_salt c) = lc_tgt c /\
                ed_verify k (buffer_to_sign (lc_salt c) (res_v g) (res_seq g)) (res_sig g) = true)) /\
    (exists q a r, In (q, a, r) (l_log s) /\ gr_has_r r = true /\
                   res_v g = Bep44.r_v (gr_item r) /\ res_sig g = Bep44.r_sig (gr_item r)) /\
    (res_mutable g = true -> forall it g', In it (l_recv s) -> client_accept it = AccMut g' -> res_seq g' <= res_seq g).
  Proof. exact (get_result_sound sha1 ed_verify node_ok push c s g). Qed.

  (* the seq Put builds its item from: 0 or the greatest accepted mutable seq; every put carries it *)
  Theorem C12_client_traversal_put s :
    reachable s -> lc_api c = APut -> owner_done s = true ->
    0 <= l_autoseq s /\
    (forall it g, In it (l_recv s) -> client_accept it = AccMut g -> res_seq g <= l_autoseq s) /\
    (l_autoseq s = 0 \/ exists it g, In it (l_recv s) /\ client_accept it = AccMut g /\ res_seq g = l_autoseq s) /\
    (forall r, In r (l_sends s) -> sr_seq r = l_autoseq s).
  Proof. exact (put_seq_sound sha1 ed_verify node_ok push push_incl c s). Qed.

  (* the repaired client survives every reply *)
  Theorem C12_client_traversal_total_repaired s : reachable s -> lc_variant c = Repaired -> l_panic s = false.
  Proof. exact (repaired_no_panic sha1 ed_verify node_ok push c s). Qed.
End C12_traversal.

(* D2 inside the traversal: on the pinned tree one get reply with the right key and no seq kills the process
   (l_panic); the repaired client ignores it and Get ends with "value not found" *)
Theorem C12_client_traversal_panic_refuted_pinned :
  exists (k salt : bytes) (ls : list Lookups.label),
    let tgt := k ++ salt in
    let c v := Lookups.mkLC Lookups.AGet v false Lookups.SNOk 3 7%N None tgt salt in
    Lookups.l_panic (Lookups.run (fun b => b) (fun _ _ _ => true) (fun _ _ => true) (Lookups.lk_push 7%N 8) (c Pinned) ls) = true /\
    let s := Lookups.run (fun b => b) (fun _ _ _ => true) (fun _ _ => true) (Lookups.lk_push 7%N 8) (c Repaired)
               (ls ++ [Lookups.QFinish 0; Lookups.OStalled; Lookups.OStopStep]) in
    (Lookups.l_panic s, Lookups.owner_done s, Lookups.l_err s, Lookups.l_cur s) = (false, true, Some Lookups.ErrNotFound, None).
Proof.
  exists (repeat x11 32), [x73],
    [Lookups.OStartTrav; Lookups.OGetNodes; Lookups.TIssue 101%N;
     Lookups.QReturn 0 (Some (Lookups.mkGR true 5%N (Some [x74]) [] (mkReply [x69; x31; x65] (repeat x11 32) (repeat x22 64) None)))].
  vm_compute. split; reflexivity.
Qed.

Print Assumptions C12_client_traversal_get.
Print Assumptions C12_client_traversal_get_sound.
Print Assumptions C12_client_traversal_put.
Print Assumptions C12_client_traversal_total_repaired.
Print Assumptions C12_client_traversal_panic_refuted_pinned.
