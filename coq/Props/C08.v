(* C08 — replies go to the asker, echo its transaction id, and use the right KRPC form.
   Statements only; every proof is `exact <lemma>` from proofs/ServerC08.v.
   All statements hold for ANY state of the server model (reachable or not), any choice the
   implementation makes where Go leaves it open, any decoded message.  None needs the routing-table
   invariant, so there is no `reachable` hypothesis to discharge.
   `step s e ch = SR s' out` reads: processing event e in state s, with the observed choice ch,
   yields state s' and the effects out (ESend = a datagram written to the socket). *)
From Dht Require Import Base Int160 Msg Server ServerDefs ServerC08.
From DhtGen Require Import Params.
From Coq Require String.

Section C08.
  Variable Store : Type.
  Variable w_put : Store -> witem -> Z -> Store * put_result.
  Variable w_get : Store -> bytes -> Z -> Store * get_result.
  Variable sha1 : bytes -> bytes.
  Variable id_secure : N -> bytes -> bool.
  Variable cfg : config.

  Notation sstate := (sstate Store).
  Notation step := (step Store w_put w_get sha1 id_secure cfg).
  Notation SR := (SR Store).
  Notation open_gate := (open_gate Store cfg).
  Notation tokens_ok := (tokens_ok Store sha1 cfg).

  (* ---- destination, transaction id, uniqueness ---- *)
  Theorem C08_dest_and_t (s : sstate) src size dec ch s' out d rm k :
    step s (EPacket src size dec) ch = SR s' out -> In (ESend d rm k) out ->
    d = src /\ exists m, dec = Some m /\ m_y m = s_q /\ m_t rm = m_t m.
  Proof. exact (C08_dest_and_t Store w_put w_get sha1 id_secure cfg s src size dec ch s' out d rm k). Qed.

  Theorem C08_at_most_one (s : sstate) src size dec ch s' out :
    step s (EPacket src size dec) ch = SR s' out -> (length (sends out) <= 1)%nat.
  Proof. exact (C08_at_most_one Store w_put w_get sha1 id_secure cfg s src size dec ch s' out). Qed.

  Theorem C08_silent_on_non_query (s : sstate) src size dec ch s' out :
    step s (EPacket src size dec) ch = SR s' out ->
    dec = None \/ (exists m, dec = Some m /\ m_y m <> s_q) -> sends out = [].
  Proof. exact (C08_silent_on_non_query Store w_put w_get sha1 id_secure cfg s src size dec ch s' out). Qed.

  (* ---- every query is answered, by exactly one datagram ----
     open_gate: size <> 64 KiB buffer, source port <> 0, not closed, source not blocked, budget not
     exhausted, hook does not veto, not passive.  tokens_ok: IF the method is announce_peer or put
     AND it carries arguments THEN its token is valid now for the source.  So ping, find_node,
     get_peers, get, any unknown method, any method without its arguments all qualify outright. *)
  Theorem C08_exactly_one (s : sstate) src size m ch s' out :
    step s (EPacket src size (Some m)) ch = SR s' out ->
    m_y m = s_q -> open_gate s src size m -> tokens_ok s src m ->
    length (sends out) = 1%nat.
  Proof. exact (C08_exactly_one Store w_put w_get sha1 id_secure cfg s src size m ch s' out). Qed.

  Theorem C08_exactly_one_form (s : sstate) src size m ch s' out :
    step s (EPacket src size (Some m)) ch = SR s' out ->
    m_y m = s_q -> open_gate s src size m -> tokens_ok s src m ->
    exists rm k, sends out = [ESend src rm k] /\ answer_form cfg src (m_t m) rm k.
  Proof. exact (C08_exactly_one_form Store w_put w_get sha1 id_secure cfg s src size m ch s' out). Qed.

  Theorem C08_tokens_ok_other (s : sstate) src m :
    m_q m <> s_announce_peer -> m_q m <> s_put -> tokens_ok s src m.
  Proof. exact (tokens_ok_other Store sha1 cfg s src m). Qed.

  Theorem C08_tokens_ok_no_args (s : sstate) src m : m_a m = None -> tokens_ok s src m.
  Proof. exact (tokens_ok_no_args Store sha1 cfg s src m). Qed.

  Theorem C08_ping_reply (s : sstate) src size m ch s' out :
    step s (EPacket src size (Some m)) ch = SR s' out -> m_y m = s_q -> m_q m = s_ping ->
    open_gate s src size m ->
    sends out = [ESend src (reply_msg cfg src (m_t m) empty_return) SReply].
  Proof. exact (C08_ping_reply Store w_put w_get sha1 id_secure cfg s src size m ch s' out). Qed.

  (* ---- KRPC form ---- *)
  Theorem C08_response_form (s : sstate) src size dec ch s' out d rm :
    step s (EPacket src size dec) ch = SR s' out -> In (ESend d rm SReply) out ->
    m_y rm = s_r /\ m_q rm = [] /\ m_a rm = None /\ m_e rm = None /\ m_ro rm = false /\
    m_ip rm = addr_krpc src /\
    exists r, m_r rm = Some r /\ r_id r = own_id_bytes cfg.
  Proof. exact (C08_response_form Store w_put w_get sha1 id_secure cfg s src size dec ch s' out d rm). Qed.

  Theorem C08_error_form (s : sstate) src size dec ch s' out d rm :
    step s (EPacket src size dec) ch = SR s' out -> In (ESend d rm SError) out ->
    m_y rm = s_e /\ m_q rm = [] /\ m_a rm = None /\ m_r rm = None /\ exists e, m_e rm = Some e.
  Proof. exact (C08_error_form Store w_put w_get sha1 id_secure cfg s src size dec ch s' out d rm). Qed.

  Theorem C08_reply_kinds (s : sstate) src size dec ch s' out d rm k :
    step s (EPacket src size dec) ch = SR s' out -> In (ESend d rm k) out -> k = SReply \/ k = SError.
  Proof. exact (C08_reply_kinds Store w_put w_get sha1 id_secure cfg s src size dec ch s' out d rm k). Qed.

  (* ---- error codes ---- *)
  Theorem C08_unknown_204 (s : sstate) src size m ch s' out :
    step s (EPacket src size (Some m)) ch = SR s' out -> m_y m = s_q -> unknown_method m ->
    e_code err_method_unknown = err_value_method_unknown /\
    (sends out = [] \/ sends out = [ESend src (error_msg (m_t m) err_method_unknown) SError]) /\
    (open_gate s src size m -> sends out = [ESend src (error_msg (m_t m) err_method_unknown) SError]).
  Proof. exact (C08_unknown_204 Store w_put w_get sha1 id_secure cfg s src size m ch s' out). Qed.

  (* find_node, get_peers, get, announce_peer, put without an `a` dictionary *)
  Theorem C08_missing_args_203 (s : sstate) src size m ch s' out :
    step s (EPacket src size (Some m)) ch = SR s' out -> m_y m = s_q ->
    In (m_q m) args_methods -> m_a m = None ->
    e_code err_missing_args = err_value_missing_arguments /\
    (sends out = [] \/ sends out = [ESend src (error_msg (m_t m) err_missing_args) SError]) /\
    (open_gate s src size m -> sends out = [ESend src (error_msg (m_t m) err_missing_args) SError]).
  Proof. exact (C08_missing_args_203 Store w_put w_get sha1 id_secure cfg s src size m ch s' out). Qed.

  (* ---- passive mode / hook veto ---- *)
  Theorem C08_passive_or_veto_silent (s : sstate) src size dec ch s' out :
    step s (EPacket src size dec) ch = SR s' out ->
    c_passive cfg = true \/ (exists m, dec = Some m /\ c_hook cfg m = false) ->
    sends out = [] /\ (forall m, dec = Some m -> m_y m = s_q -> out = []).
  Proof. exact (C08_passive_or_veto_silent Store w_put w_get sha1 id_secure cfg s src size dec ch s' out). Qed.

  (* ---- every other event: only the query it starts, to the destination it names ---- *)
  Theorem C08_only_queries_elsewhere (s : sstate) e ch s' out d rm k :
    step s e ch = SR s' out ->
    match e with EPacket _ _ _ => False | _ => True end ->
    In (ESend d rm k) out ->
    exists qid q a rated t, e = EQueryStart qid d q a rated t /\ k = SQuery /\ rm = query_msg cfg q a t /\
                            out = [ESend d rm k].
  Proof. exact (C08_only_queries_elsewhere Store w_put w_get sha1 id_secure cfg s e ch s' out d rm k). Qed.

  Theorem C08_kinds (s : sstate) e ch s' out d rm k :
    step s e ch = SR s' out -> In (ESend d rm k) out ->
    match e with
    | EPacket src _ _ => d = src /\ (k = SReply \/ k = SError)
    | EQueryStart _ dst _ _ _ _ => d = dst /\ k = SQuery
    | _ => False
    end.
  Proof. exact (C08_kinds Store w_put w_get sha1 id_secure cfg s e ch s' out d rm k). Qed.

  (* ---- the same at every point of every history ---- *)
  Theorem C08_histories (P : sstate -> event -> choice -> sstate -> list effect -> Prop) :
    (forall s e ch s' out, step s e ch = SR s' out -> P s e ch s' out) ->
    forall evs s s' outs, run Store w_put w_get sha1 id_secure cfg s evs = Some (s', outs) ->
    exists states, length states = length evs /\ length outs = length evs /\
      forall i e ch, nth_error evs i = Some (e, ch) ->
        exists si si' out, nth_error (s :: states) i = Some si /\ nth_error states i = Some si' /\
                           nth_error outs i = Some out /\ step si e ch = SR si' out /\ P si e ch si' out.
  Proof. exact (run_all_steps Store w_put w_get sha1 id_secure cfg P). Qed.
End C08.

(* ---- non-vacuity: a concrete server (Store = unit, sha1 = identity, every id secure) ---- *)
Definition C08_ex_put (st : unit) (_ : witem) (_ : Z) : unit * put_result := (st, PutOk).
Definition C08_ex_get (st : unit) (_ : bytes) (_ : Z) : unit * get_result := (st, GetNotFound).
Definition C08_ex_sha1 (b : bytes) : bytes := b.
Definition C08_ex_secure (_ : N) (_ : bytes) : bool := true.
Definition C08_ex_cfg (passive : bool) : config :=
  mkCfg 1 passive false true true (fun _ => true) false [x2a].
Definition C08_ex_src : addr := mkAddr [x0a; x00; x00; x01] 6881.          (* 10.0.0.1:6881 *)
Definition C08_ex_t : bytes := [x61; x00; xff].                            (* binary transaction id *)
Definition C08_ex_args (tok : bytes) : msg_args :=
  mkArgs (ofN 20 5) zero20 zero20 tok (Some 7000%Z) false None 0 0 None None 0 zero32 [] zero64.
Definition C08_ex_query (q : bytes) (a : option msg_args) : msg :=
  mkMsg q a C08_ex_t s_q None None empty_na false [].
Definition C08_ex_init (bl : list (N * N)) (budget : option N) : sstate unit :=
  init_state unit tt 1000 bl budget.
Definition C08_ex_step (passive : bool) (s : sstate unit) (e : event) : step_result unit :=
  step unit C08_ex_put C08_ex_get C08_ex_sha1 C08_ex_secure (C08_ex_cfg passive) s e no_choice.
Definition C08_ex_sends (r : step_result unit) : option (list effect) :=
  match r with Server.SR _ _ out => Some (sends out) | _ => None end.
Definition C08_ex_token : bytes :=
  match create_token C08_ex_sha1 (C08_ex_cfg false) C08_ex_src 1000 with Some t => t | None => [] end.

(* a ping is answered: one response, to the source, same t, own id, requester's address in `ip` *)
Example C08_ex_ping_answered :
  C08_ex_sends (C08_ex_step false (C08_ex_init [] None)
                  (EPacket C08_ex_src 60 (Some (C08_ex_query s_ping (Some (C08_ex_args []))))))
  = Some [ESend C08_ex_src (reply_msg (C08_ex_cfg false) C08_ex_src C08_ex_t empty_return) SReply]
  /\ m_t (reply_msg (C08_ex_cfg false) C08_ex_src C08_ex_t empty_return) = [x61; x00; xff]
  /\ m_ip (reply_msg (C08_ex_cfg false) C08_ex_src C08_ex_t empty_return) = mkNA [x0a; x00; x00; x01] 6881.
Proof. vm_compute. repeat split. Qed.

(* the hypotheses of C08_exactly_one are satisfiable *)
Example C08_ex_gate_open :
  open_gate unit (C08_ex_cfg false) (C08_ex_init [] None) C08_ex_src 60
            (C08_ex_query s_ping (Some (C08_ex_args []))) /\
  tokens_ok unit C08_ex_sha1 (C08_ex_cfg false) (C08_ex_init [] None) C08_ex_src
            (C08_ex_query s_announce_peer (Some (C08_ex_args C08_ex_token))).
Proof.
  split.
  - unfold open_gate. repeat split; vm_compute; congruence.
  - intros a _ E. injection E as <-. vm_compute. reflexivity.
Qed.

(* an unknown method is answered 204 *)
Example C08_ex_unknown_204 :
  C08_ex_sends (C08_ex_step false (C08_ex_init [] None)
                  (EPacket C08_ex_src 60 (Some (C08_ex_query [x66; x6f; x6f] (Some (C08_ex_args []))))))
  = Some [ESend C08_ex_src (error_msg C08_ex_t (mkErr 204 ["M";"e";"t";"h";"o";"d";" ";"U";"n";"k";"n";"o";"w";"n"]%byte)) SError].
Proof. vm_compute. reflexivity. Qed.

(* announce_peer without an argument dictionary is answered 203 (defect D1 repaired) *)
Example C08_ex_announce_no_args_203 :
  C08_ex_sends (C08_ex_step false (C08_ex_init [] None)
                  (EPacket C08_ex_src 60 (Some (C08_ex_query s_announce_peer None))))
  = Some [ESend C08_ex_src (error_msg C08_ex_t err_missing_args) SError]
  /\ e_code err_missing_args = 203%Z.
Proof. vm_compute. split; reflexivity. Qed.

(* announce_peer with a valid token is answered; with a bad token it is not (so the token
   hypothesis of C08_exactly_one cannot be dropped) *)
Example C08_ex_announce_token :
  C08_ex_sends (C08_ex_step false (C08_ex_init [] None)
                  (EPacket C08_ex_src 60 (Some (C08_ex_query s_announce_peer (Some (C08_ex_args C08_ex_token))))))
  = Some [ESend C08_ex_src (reply_msg (C08_ex_cfg false) C08_ex_src C08_ex_t empty_return) SReply]
  /\
  C08_ex_sends (C08_ex_step false (C08_ex_init [] None)
                  (EPacket C08_ex_src 60 (Some (C08_ex_query s_announce_peer (Some (C08_ex_args [x00]))))))
  = Some [].
Proof. vm_compute. split; reflexivity. Qed.

(* a response-typed message is never answered; a passive node stays silent *)
Example C08_ex_silent :
  C08_ex_sends (C08_ex_step false (C08_ex_init [] None)
                  (EPacket C08_ex_src 60 (Some (mkMsg [] None C08_ex_t s_r (Some empty_return) None empty_na false []))))
  = Some []
  /\
  C08_ex_sends (C08_ex_step true (C08_ex_init [] None)
                  (EPacket C08_ex_src 60 (Some (C08_ex_query s_ping (Some (C08_ex_args []))))))
  = Some [].
Proof. vm_compute. split; reflexivity. Qed.

(* ---- pins: constants and tables the property names, as found in /repo now ---- *)
Import String.
Example C08_pin_codes :
  err_value_method_unknown = 204%Z /\ err_value_method_unknown_ok = true /\
  err_value_missing_arguments = 203%Z /\ err_value_missing_arguments_ok = true.
Proof. repeat split. Qed.

Example C08_pin_methods :
  dispatch_methods = ["announce_peer"; "find_node"; "get"; "get_peers"; "ping"; "put"]%string /\
  dispatch_methods_ok = true /\
  methods_with_token = ["announce_peer"; "put"]%string /\ methods_with_token_ok = true.
Proof. repeat split. Qed.

(* the model's dispatch knows exactly the methods of the source's switch; those reading the argument
   dictionary are all of them but ping; those checking a token are announce_peer and put *)
Example C08_pin_methods_model :
  map list_byte_of_string dispatch_methods = [s_announce_peer; s_find_node; s_get; s_get_peers; s_ping; s_put] /\
  (forall q, In q known_methods <-> In q (map list_byte_of_string dispatch_methods)) /\
  (forall q, In q args_methods <-> In q known_methods /\ q <> s_ping) /\
  map list_byte_of_string methods_with_token = [s_announce_peer; s_put].
Proof.
  split; [reflexivity|]. split; [|split; [|reflexivity]].
  - intros q. cbn. tauto.
  - intros q. unfold args_methods, known_methods. cbn [In]. split.
    + intros [H|[H|[H|[H|[H|[]]]]]]; subst q; (split; [tauto | discriminate]).
    + intros [[H|[H|[H|[H|[H|[H|[]]]]]]] Hn]; subst q; first [tauto | contradiction].
Qed.

(* ================================================================================================
   The same over RAW DATAGRAMS (proofs/ServerBytes.v): the codec model (C15) composed with the server
   model.  processPacket drops b unless len(b) >= 2 && b[0] == 'd' (pre_check) and
   bencode.Unmarshal(b, &msg) returns nil or ErrUnusedTrailingBytes; `decoded b` is the message it
   then works with, `packet_of_bytes src b = EPacket src (len b) (decoded b)`.
   NB: `String` is imported above, so `length` on lists is written `List.length` from here on.
   ================================================================================================ *)
From Dht Require Import Krpc ServerInv ServerInv2 ServerExamples ServerBytes.

Section C08Bytes.
  Variable Store : Type.
  Variable w_put : Store -> witem -> Z -> Store * put_result.
  Variable w_get : Store -> bytes -> Z -> Store * get_result.
  Variable sha1 : bytes -> bytes.
  Variable id_secure : N -> bytes -> bool.
  Variable cfg : config.

  Notation sstate := (sstate Store).
  Notation step := (step Store w_put w_get sha1 id_secure cfg).
  Notation SR := (SR Store).

  (* what `decoded` is, in terms of the codec model's decoder *)
  Theorem C08_decoded_spec b :
    (forall m, decoded b = Some m <->
       pre_check b = true /\ (decode_msg_fixed b = DOk m \/ exists n, decode_msg_fixed b = DOkTrailing m n)) /\
    (decoded b = None <-> pre_check b = false \/ decode_msg_fixed b = DReject).
  Proof. exact (conj (decoded_some_iff b) (decoded_none_iff b)). Qed.

  (* for EVERY byte string: whatever is sent goes to the source of the datagram, answers a message
     that did decode from these bytes and was a query, echoes its transaction id; at most one
     datagram is sent *)
  Theorem C08_bytes (s : sstate) src (b : bytes) ch s' out :
    step s (packet_of_bytes src b) ch = SR s' out ->
    (forall d rm k, In (ESend d rm k) out ->
       d = src /\ exists m, decoded b = Some m /\ m_y m = s_q /\ m_t rm = m_t m) /\
    (List.length (sends out) <= 1)%nat.
  Proof. exact (ServerBytes.C08_bytes Store w_put w_get sha1 id_secure cfg s src b ch s' out). Qed.

  (* what fails the pre-check or the decoder has no effect at all: same state, no output ... *)
  Theorem C08_bytes_silent_on_undecodable (s : sstate) src (b : bytes) ch s' out :
    pre_check b = false \/ decode_msg_fixed b = DReject ->
    step s (packet_of_bytes src b) ch = SR s' out -> s' = s /\ out = [].
  Proof. exact (ServerBytes.C08_bytes_silent_on_undecodable Store w_put w_get sha1 id_secure cfg s src b ch s' out). Qed.

  (* ... and that is the only outcome, for every choice *)
  Theorem C08_bytes_undecodable_total (s : sstate) src (b : bytes) ch :
    pre_check b = false \/ decode_msg_fixed b = DReject -> step s (packet_of_bytes src b) ch = SR s [].
  Proof. exact (ServerBytes.C08_bytes_undecodable_total Store w_put w_get sha1 id_secure cfg s src b ch). Qed.
End C08Bytes.

(* ---- concrete datagrams, computed by the kernel (parameters and state s0 of ServerExamples.v) ---- *)
Definition C08_src : addr := mkAddr ip4 99.
Definition C08_dg_announce : bytes := ascii_bytes "d1:q13:announce_peer1:t2:aa1:y1:qe".
Definition C08_dg_ping_trailing : bytes := ascii_bytes "d1:q4:ping1:t2:aa1:y1:qeXYZ".
Definition C08_dg_list : bytes := ascii_bytes "li1ee".
Definition C08_dg_truncated : bytes := ascii_bytes "d1:q4:ping1:t2:aa1:y1:q".
(* a response-typed message decodes but is not answered *)
Definition C08_dg_response : bytes := ascii_bytes "d1:rd2:id20:abcdefghij0123456789e1:t2:aa1:y1:re".

Definition C08_bytes_sends (b : bytes) : option (list effect) :=
  match step0 s0 (packet_of_bytes C08_src b) no_choice with
  | Server.SR _ _ out => Some (sends out)
  | _ => None
  end.

(* the 34-byte announce_peer without an `a` dictionary decodes and is answered with error 203 *)
Example C08_bytes_announce_203 :
  List.length C08_dg_announce = 34%nat /\
  (exists m, decoded C08_dg_announce = Some m /\ m_y m = s_q /\ m_t m = ascii_bytes "aa") /\
  C08_bytes_sends C08_dg_announce = Some [ESend C08_src (error_msg (ascii_bytes "aa") err_missing_args) SError] /\
  e_code err_missing_args = 203%Z.
Proof. vm_compute. repeat split. eexists. repeat split. Qed.

(* a ping followed by unused trailing bytes is used and answered, t echoed *)
Example C08_bytes_trailing_answered :
  (exists m, decode_msg_fixed C08_dg_ping_trailing = DOkTrailing m 3) /\
  C08_bytes_sends C08_dg_ping_trailing
  = Some [ESend C08_src (reply_msg cfg0 C08_src (ascii_bytes "aa") empty_return) SReply].
Proof. vm_compute. split; [eexists|]; reflexivity. Qed.

(* a list, a truncated message: dropped, state unchanged; a response: decoded, not answered *)
Example C08_bytes_dropped :
  pre_check C08_dg_list = false /\ decode_msg_fixed C08_dg_truncated = DReject /\
  step0 s0 (packet_of_bytes C08_src C08_dg_list) no_choice = Server.SR unit s0 [] /\
  step0 s0 (packet_of_bytes C08_src C08_dg_truncated) no_choice = Server.SR unit s0 [] /\
  (exists m, decoded C08_dg_response = Some m /\ m_y m = s_r) /\
  C08_bytes_sends C08_dg_response = Some [].
Proof. vm_compute. repeat split. eexists. repeat split. Qed.

(* ================================================================================================
   The bytes PUT ON THE WIRE (proofs/ServerEncode.v): the server model composed with the codec
   model's encoder (bencode.Marshal of krpc.Msg: Krpc.encode_msg) and decoder.
   Hypotheses (see Props/C01.v, C01_reply_encodes, for what each one stands for): sha1_ok,
   wf_store_items relative to a store invariant store_ok, the inductive invariant EncInv (table ports
   below 65536, store_ok), enc_event (source / AddNode ports below 65536; the decoded message is what
   the decoder delivers; the caller's arguments of an own query are encodable).
   ================================================================================================ *)
From Dht Require Import Bencode ServerEncode.

Section C08Wire.
  Variable Store : Type.
  Variable w_put : Store -> witem -> Z -> Store * put_result.
  Variable w_get : Store -> bytes -> Z -> Store * get_result.
  Variable sha1 : bytes -> bytes.
  Variable id_secure : N -> bytes -> bool.
  Variable cfg : config.
  Variable store_ok : Store -> Prop.

  Notation sstate := (sstate Store).
  Notation step := (step Store w_put w_get sha1 id_secure cfg).
  Notation SR := (SR Store).

  (* every datagram of every step is well-formed in the codec's sense (C15: Krpc.wf_msg) *)
  Theorem C08_sent_messages_wf (s : sstate) e ch s' out dst m kind :
    wf_cfg cfg -> sha1_ok sha1 -> wf_store_items Store w_put w_get store_ok ->
    Inv Store cfg s -> EncInv Store store_ok s -> wf_event e -> enc_event e ->
    step s e ch = SR s' out -> In (ESend dst m kind) out -> Krpc.wf_msg m.
  Proof. exact (server_msgs_wf Store w_put w_get sha1 id_secure cfg store_ok s e ch s' out dst m kind). Qed.

  (* the bytes of every datagram the model emits decode back to EXACTLY the model's message: equality
     of Msg.msg records (with either NodeInfo decoder); at the level the codec observes (xmsg: msg plus
     the three nil-vs-empty flags) the flags come back in the normal form x_of_msg — a.salt and r.v
     non-nil iff non-empty, ip nil iff the whole NodeAddr is the zero value *)
  Theorem C08_wire_roundtrip (s : sstate) e ch s' out dst m kind :
    wf_cfg cfg -> sha1_ok sha1 -> wf_store_items Store w_put w_get store_ok ->
    Inv Store cfg s -> EncInv Store store_ok s -> wf_event e -> enc_event e ->
    step s e ch = SR s' out -> In (ESend dst m kind) out ->
    forall b, encode_msg m = Some b ->
      decode_msg_fixed b = DOk m /\ decode_xmsg_fixed b = DOk (x_of_msg m) /\ decode_msg_pinned b = DOk m.
  Proof. exact (ServerEncode.C08_wire_roundtrip Store w_put w_get sha1 id_secure cfg store_ok s e ch s' out dst m kind). Qed.

  (* end to end over bytes: a datagram `bin` from `src` that elicits a send — the send goes to src, the
     model's message does encode, the bytes decode to that very message, and its transaction id is the
     one of the message `bin` decoded to (a query): `t` is echoed byte for byte *)
  Theorem C08_t_echo_bytes (s : sstate) src (bin : bytes) ch s' out d rm k :
    wf_cfg cfg -> sha1_ok sha1 -> wf_store_items Store w_put w_get store_ok ->
    Inv Store cfg s -> EncInv Store store_ok s ->
    wf_addr src -> (port src < 65536)%N -> (N.of_nat (List.length bin) <= max_str_len)%N ->
    step s (packet_of_bytes src bin) ch = SR s' out -> In (ESend d rm k) out ->
    d = src /\
    exists min bout mout,
      decoded bin = Some min /\ m_y min = s_q /\
      encode_msg rm = Some bout /\ decode_msg_fixed bout = DOk mout /\ mout = rm /\ m_t mout = m_t min.
  Proof. exact (ServerEncode.C08_t_echo_bytes Store w_put w_get sha1 id_secure cfg store_ok s src bin ch s' out d rm k). Qed.
End C08Wire.

(* ---- concrete datagrams in, concrete datagrams out (state sE of ServerEncode.v: the parameters of
        ServerExamples.v, two pings answered by an IPv4 and an IPv6 node; s0 itself has no good
        contact to offer).  Hypotheses of the theorems on this instance: C01_encode_hypotheses. ---- *)
Definition C08_wire_check (r : step_result unit) (tin : bytes)
  : option (addr * send_kind * bytes * bool * bytes * bool) :=
  match r with
  | Server.SR _ _ [ESend d m k] =>
      match encode_msg m with
      | Some b =>
          match decode_msg_fixed b with
          | DOk m' =>
              (* destination, kind, bytes, decoded message re-encodes to the same bytes, its t, t echoed *)
              Some (d, k, b, match encode_msg m' with Some b' => bytes_eqb b' b | None => false end,
                    m_t m', bytes_eqb (m_t m') tin)
          | _ => None
          end
      | None => None
      end
  | _ => None
  end.

(* find_node with want [n4; n6]: the reply carries `nodes` (26 bytes) and `nodes6` (38 bytes) *)
Example C08_find_node_wire :
  (exists m, decoded dgE_find_node = Some m /\ m_t m = ascii_bytes "aa" /\ m_q m = s_find_node) /\
  C08_wire_check (stepE sE (packet_of_bytes srcE dgE_find_node) chE) (ascii_bytes "aa")
  = Some (srcE, SReply, wireE_find_node, true, ascii_bytes "aa", true).
Proof. vm_compute. split; [eexists; repeat split | reflexivity]. Qed.

(* the bytes decode to exactly the message of the model *)
Example C08_find_node_wire_decodes :
  match stepE sE (packet_of_bytes srcE dgE_find_node) chE with
  | Server.SR _ _ [ESend _ m _] =>
      decode_msg_fixed wireE_find_node = DOk m /\
      option_map r_nodes (m_r m) = Some (Some [niA]) /\ option_map r_nodes6 (m_r m) = Some (Some [niB])
  | _ => False
  end.
Proof. vm_compute. repeat split. Qed.

(* the 203 error for announce_peer without arguments *)
Example C08_error_203_wire :
  C08_wire_check (stepE sE (packet_of_bytes srcE dgE_announce) no_choice) (ascii_bytes "aa")
  = Some (srcE, SError, wireE_203, true, ascii_bytes "aa", true) /\
  decode_msg_fixed wireE_203 = DOk (error_msg (ascii_bytes "aa") err_missing_args).
Proof. vm_compute. split; reflexivity. Qed.

(* why `port < 65536` is a hypothesis: a contact recorded under port 65536 + 7 (the model's ports are
   unbounded; a UDP socket never reports one) is offered as 65543 and comes back from the wire as 7 *)
Example C08_roundtrip_needs_port_bound :
  Forall (fun ec => wf_event (fst ec)) evsP /\ ports_sent_and_decoded = Some ([65543%Z], [7%Z]).
Proof. exact roundtrip_needs_port_bound. Qed.

Print Assumptions C08_dest_and_t.
Print Assumptions C08_at_most_one.
Print Assumptions C08_silent_on_non_query.
Print Assumptions C08_exactly_one.
Print Assumptions C08_exactly_one_form.
Print Assumptions C08_ping_reply.
Print Assumptions C08_response_form.
Print Assumptions C08_error_form.
Print Assumptions C08_reply_kinds.
Print Assumptions C08_unknown_204.
Print Assumptions C08_missing_args_203.
Print Assumptions C08_passive_or_veto_silent.
Print Assumptions C08_only_queries_elsewhere.
Print Assumptions C08_kinds.
Print Assumptions C08_histories.
Print Assumptions C08_decoded_spec.
Print Assumptions C08_bytes.
Print Assumptions C08_bytes_silent_on_undecodable.
Print Assumptions C08_bytes_undecodable_total.
Print Assumptions C08_bytes_announce_203.
Print Assumptions C08_bytes_trailing_answered.
Print Assumptions C08_bytes_dropped.
Print Assumptions C08_sent_messages_wf.
Print Assumptions C08_wire_roundtrip.
Print Assumptions C08_t_echo_bytes.
Print Assumptions C08_find_node_wire.
Print Assumptions C08_find_node_wire_decodes.
Print Assumptions C08_error_203_wire.
Print Assumptions C08_roundtrip_needs_port_bound.
