(* C05 — the routing table is always a well-formed Kademlia table.
   This file holds statements only; every proof is `exact <lemma>` from proofs/ServerInv*.v.
   The model is coq/model/Server.v (table.go, bucket.go, node.go, Server.updateNode/addNode);
   [Inv], [reachable], [wf_event], [wf_cfg] are defined in proofs/ServerDefs.v. *)
From Dht Require Import Base Int160 Msg Server ServerDefs ServerInv ServerInv2 ServerExamples.
From Dht Require Import RunApi ApiProofs.
From DhtGen Require Import Params.

Section C05.
  (* the theorems hold for every store wrapper, sha1, NodeIdSecure and configuration *)
  Variable Store : Type.
  Variable w_put : Store -> witem -> Z -> Store * put_result.
  Variable w_get : Store -> bytes -> Z -> Store * get_result.
  Variable sha1 : bytes -> bytes.
  Variable id_secure : N -> bytes -> bool.
  Variable cfg : config.

  Notation step := (step Store w_put w_get sha1 id_secure cfg).
  Notation reachable := (reachable Store w_put w_get sha1 id_secure cfg).

  (* ---- the invariant is inductive over every event, every choice of the implementation ---- *)
  Theorem C05_inv_init st now bl budget : Inv Store cfg (init_state Store st now bl budget).
  Proof. exact (inv_init Store cfg st now bl budget). Qed.

  Theorem C05_inv_step s e ch s' out :
    wf_cfg cfg -> Inv Store cfg s -> wf_event e -> step s e ch = SR Store s' out -> Inv Store cfg s'.
  Proof. exact (inv_step Store w_put w_get sha1 id_secure cfg s e ch s' out). Qed.

  Theorem C05_inv s : wf_cfg cfg -> reachable s -> Inv Store cfg s.
  Proof. intros H. exact (inv_reachable Store w_put w_get sha1 id_secure cfg H s). Qed.

  (* ---- every entry sits in the bucket given by the length of the prefix shared with the own id ---- *)
  Theorem C05_bucket_is_shared_prefix s n :
    wf_cfg cfg -> reachable s -> In n (s_nodes Store s) ->
    n_slot n = shared_prefix_len (c_root cfg) (n_id n) /\ (n_slot n < 160)%nat.
  Proof. exact (ServerInv2.C05_bucket_is_shared_prefix Store w_put w_get sha1 id_secure cfg s n). Qed.

  (* ---- no bucket holds more than K entries ---- *)
  Theorem C05_capacity s i :
    wf_cfg cfg -> reachable s -> (length (bucket (s_nodes Store s) i) <= K)%nat.
  Proof. exact (ServerInv2.C05_capacity Store w_put w_get sha1 id_secure cfg s i). Qed.

  (* ---- no two entries share both id and address ---- *)
  Theorem C05_no_duplicate s :
    wf_cfg cfg -> reachable s -> NoDup (map node_key (s_nodes Store s)).
  Proof. exact (ServerInv2.C05_no_duplicate Store w_put w_get sha1 id_secure cfg s). Qed.

  (* ---- neither the own id nor the zero id ever appears ---- *)
  Theorem C05_no_own_or_zero_id s n :
    wf_cfg cfg -> reachable s -> In n (s_nodes Store s) -> n_id n <> c_root cfg /\ n_id n <> 0%N.
  Proof. exact (ServerInv2.C05_no_own_or_zero_id Store w_put w_get sha1 id_secure cfg s n). Qed.

  (* ---- the per-address index mirrors the buckets ---- *)
  Theorem C05_index_agrees s :
    wf_cfg cfg -> reachable s ->
    s_index Store s = map (fun n => (addr_key (n_addr n), n_id n)) (s_nodes Store s).
  Proof. exact (ServerInv2.C05_index_agrees Store w_put w_get sha1 id_secure cfg s). Qed.

  (* ---- the table code never panics (dropNode / addNode error returns) on any step ---- *)
  Theorem C05_no_table_panic s a id try_add u victim :
    wf_cfg cfg -> Inv Store cfg s -> update_node Store id_secure cfg s a id try_add u victim <> Panic _.
  Proof. exact (update_node_ok Store id_secure cfg s a id try_add u victim). Qed.

  (* ---- the API views agree with the entries ---- *)
  Theorem C05_api_agree (s : sstate Store) :
    num_nodes Store s = length (s_nodes Store s) /\
    num_good Store id_secure cfg s =
      length (filter (node_good id_secure cfg (s_now Store s)) (s_nodes Store s)) /\
    exported_nodes Store id_secure cfg s =
      map node_info_of (filter (fun n => negb (node_bad id_secure cfg n)) (s_nodes Store s)).
  Proof. exact (ServerInv2.C05_api_agree Store id_secure cfg s). Qed.
End C05.

(* ---- overlapping callers (engine `api`): the table read at rest after AddNode / AddNodesFromFile /
        inbound messages ran concurrently is ACCEPTED or rejected by RunApi.ra_accept against the
        candidates offered. An accepted table satisfies the clauses of C05 on its entries, and a
        candidate certainly offered is present unless inadmissible or its bucket is full; every serial
        order of the offers yields an accepted table (so only outcomes that no linearisation explains,
        e.g. an (id, address) pair stored twice, are rejected) ---- *)
Theorem C05_concurrent_accept_wf root must may obs :
  ra_accept root must may obs = true ->
  NoDup (map fst obs) /\
  (forall e b, In (e, b) obs ->
     ra_id e <> root /\ ra_id e <> 0%N /\ b = bucket_index root (ra_id e) /\ (In e must \/ In e may)) /\
  (forall b, (ra_count root b (map fst obs) <= K)%nat) /\
  (forall e, In e must -> ra_id e <> root -> ra_id e <> 0%N ->
     In e (map fst obs) \/ (K <= ra_count root (ra_bucket root e) (map fst obs))%nat).
Proof. exact (ra_accept_wf root must may obs). Qed.

Theorem C05_concurrent_every_serial_order_accepted root offers :
  ra_accept root offers [] (ra_observe root (ra_run root offers)) = true.
Proof. exact (ra_seq_accept root offers). Qed.

(* ---- nodes files and a node that enforces the security extension (engine `api`, kind nodesfile,
        `atables` lines): hand-built files with records of unknown (all-zero) id, the own id, ids not
        valid for their address, duplicates, over-subscribed buckets. With the extension off the
        relation is ra_accept; with it on no entry may carry an id that is not valid for its address and
        such candidates are not owed an entry; every serial order of the offers is accepted ---- *)
Theorem C05_nodesfile_relation_without_security root must may obs :
  ra_accept_s true root must may obs = ra_accept root must may obs.
Proof. exact (ra_accept_s_nosec root must may obs). Qed.

Theorem C05_nodesfile_accept_wf root must may obs :
  ra_accept_s false root must may obs = true ->
  (forall e b, In (e, b) obs -> ra_secure e = true /\ ra_id e <> root /\ ra_id e <> 0%N) /\
  NoDup (map fst obs) /\
  (forall b, (ra_count root b (map fst obs) <= K)%nat) /\
  (forall e, In e must -> ra_id e <> root -> ra_id e <> 0%N -> ra_secure e = true ->
     In e (map fst obs) \/ (K <= ra_count root (ra_bucket root e) (map fst obs))%nat).
Proof. exact (ra_accept_s_wf root must may obs). Qed.

Theorem C05_nodesfile_every_serial_order_accepted nosec root offers :
  ra_accept_s nosec root offers [] (ra_observe root (ra_run_s nosec root offers)) = true.
Proof. exact (ra_seq_accept_s nosec root offers). Qed.

Example C05_nodesfile_rejects_zero_and_insecure :
  ra_accept_s true 1 [ex_e 0 7; ex_e 2 7] [] [(ex_e 2 7, 158%nat)] = true /\
  ra_accept_s true 1 [ex_e 0 7; ex_e 2 7] [] [(ex_e 2 7, 158%nat); (ex_e 0 7, 159%nat)] = false /\
  ra_why_s true 1 [ex_e 0 7; ex_e 2 7] [] [(ex_e 2 7, 158%nat); (ex_e 0 7, 159%nat)] = 2%nat /\
  ra_secure (ex_e 2 7) = false /\
  ra_accept_s false 1 [ex_e 2 7] [] [(ex_e 2 7, 158%nat)] = false /\
  ra_why_s false 1 [ex_e 2 7] [] [(ex_e 2 7, 158%nat)] = 7%nat /\
  ra_accept_s false 1 [ex_e 2 7] [] [] = true /\
  ra_run_s false 1 [ex_e 2 7; ex_e 0 7; ex_e 1 7] = [] /\
  ra_run_s true 1 [ex_e 2 7; ex_e 0 7; ex_e 1 7] = [ex_e 2 7].
Proof. exact ra_rejects_zero_and_insecure. Qed.

(* the counters the `api` engine recomputes (`acount` lines) are the model's API views *)
Theorem C05_counters_are_the_models (Store : Type) (id_secure : N -> bytes -> bool) (cfg : config) (s : sstate Store) :
  ra_counts (map (fun n => (node_good id_secure cfg (s_now Store s) n, node_bad id_secure cfg n)) (s_nodes Store s))
  = (num_nodes Store s, num_good Store id_secure cfg s, length (exported_nodes Store id_secure cfg s)).
Proof. exact (ra_counts_model Store id_secure cfg s). Qed.

Example C05_concurrent_rejects_duplicate :
  ra_accept 1 [ex_e 2 7] [] [(ex_e 2 7, 158%nat)] = true /\
  ra_accept 1 [ex_e 2 7] [] [(ex_e 2 7, 158%nat); (ex_e 2 7, 158%nat)] = false /\
  ra_why 1 [ex_e 2 7] [] [(ex_e 2 7, 158%nat); (ex_e 2 7, 158%nat)] = 1%nat.
Proof. exact ra_rejects_duplicate. Qed.

(* ---- non-vacuity: a concrete configuration and a reachable state with a full bucket; a response
        that displaces an entry keeps the table well formed (ServerExamples.v) ---- *)
Example C05_nonvacuous :
  wf_cfg cfg0 /\ reachable unit wp0 wg0 sha0 sec0 cfg0 s0 /\
  map n_id (s_nodes unit s0) = [1; 2; 3; 4; 5; 6; 7; 8; 2 ^ 159 + 1]%N /\
  map n_slot (s_nodes unit s0) = [0; 0; 0; 0; 0; 0; 0; 0; 159]%nat /\
  length (bucket (s_nodes unit s0) 0) = K /\
  match step0 s0 (EPacket dstA 100 (Some (resp [x01] 77))) evict1 with
  | SR _ s' _ => (map n_id (s_nodes unit s'), map n_slot (s_nodes unit s'))
  | _ => ([], [])
  end = ([2; 3; 4; 5; 6; 7; 8; 2 ^ 159 + 1; 77]%N, [0; 0; 0; 0; 0; 0; 0; 159; 0]%nat).
Proof.
  split; [exact cfg0_wf|]. split; [exact s0_reachable|]. vm_compute. repeat split.
Qed.

(* ---- table maintenance (Server.TableMaintainer: model/Maint.v) writes liveness state only ----
   ids, addresses and bucket slots of the entries - hence the number of entries, every bucket's size and the placement
   of every entry - are the same after a pass of the maintainer as before it, for every outcome of every ping, provided
   the refresh traversals (packet-path traffic, covered by C05_inv above) keep them. *)
From Dht Require Import Maint MaintProofs.
Section C05_maintenance.
  Variable id_secure : N -> bytes -> bool.
  Variable cfg : config.
  Variable now : Z.
  Variable answers : node -> ping_outcome.
  Variable refresh : nat -> list node -> list node.

  Theorem C05_maint_pass_keeps_structure nodes :
    shape_preserving refresh ->
    map shape (snd (pass id_secure cfg now answers refresh nodes)) = map shape nodes.
  Proof. exact (pass_from_shape id_secure cfg nbuckets 0 now answers refresh nodes). Qed.

  Theorem C05_maint_pass_keeps_bucket_sizes nodes i :
    shape_preserving refresh ->
    length (bucket (snd (pass id_secure cfg now answers refresh nodes)) i) = length (bucket nodes i).
  Proof.
    exact (fun H => bucket_length_shape _ _ i (pass_from_shape id_secure cfg nbuckets 0 now answers refresh nodes H)).
  Qed.

  Theorem C05_maint_answered_refresh_keeps_structure answersf : shape_preserving (refresh_answering id_secure cfg now answersf).
  Proof. exact (fun i l => refresh_answering_shape id_secure cfg now answersf i l). Qed.
End C05_maintenance.

(* ---- pins: constants the property names, as found in /repo now ---- *)
Example C05_pin_k : table_k = 8%Z /\ table_k_ok = true /\ K = 8%nat.
Proof. repeat split. Qed.

Print Assumptions C05_inv_step.
Print Assumptions C05_inv.
Print Assumptions C05_bucket_is_shared_prefix.
Print Assumptions C05_capacity.
Print Assumptions C05_no_duplicate.
Print Assumptions C05_no_own_or_zero_id.
Print Assumptions C05_index_agrees.
Print Assumptions C05_no_table_panic.
Print Assumptions C05_api_agree.
Print Assumptions C05_nonvacuous.
Print Assumptions C05_concurrent_accept_wf.
Print Assumptions C05_concurrent_every_serial_order_accepted.
Print Assumptions C05_concurrent_rejects_duplicate.
Print Assumptions C05_counters_are_the_models.
Print Assumptions C05_nodesfile_relation_without_security.
Print Assumptions C05_nodesfile_accept_wf.
Print Assumptions C05_nodesfile_every_serial_order_accepted.
Print Assumptions C05_nodesfile_rejects_zero_and_insecure.
Print Assumptions C05_maint_pass_keeps_structure.
Print Assumptions C05_maint_pass_keeps_bucket_sizes.
Print Assumptions C05_maint_answered_refresh_keeps_structure.
