(* C07 — a query completes only with the reply that matches it.
   This file holds statements only; every proof is `exact <lemma>` from proofs/ServerInv*.v.
   The model is coq/model/Server.v: [s_pending] is Server.transactions (key = (remote address
   string, transaction id)), [EQueryStart] registers a query under the id [t] the implementation
   drew from the process-wide issuer, [ECompleted qid reply] is the hand-over of a reply to the
   waiting Query call, [EQueryEnd] its return (context done / timeout).
   [TxInv] (proofs/ServerDefs.v) holds in every reachable state ([C07_txinv]). *)
From Dht Require Import Base Int160 Msg Server ServerDefs ServerInv ServerInv2 ServerExamples.
From DhtGen Require Import Params.
From Dht Require Query RunLookups RunQueryProofs.

(* ---- transaction ids are varints of the issuer's counter: distinct counters, distinct ids ---- *)
Theorem C07_uvarint_roundtrip n : (n < 2 ^ 64)%N -> uvarint_decode (uvarint n) = Some n.
Proof. exact (uvarint_decode_uvarint n). Qed.

Theorem C07_uvarint_decode_inj a b n :
  uvarint_decode a = Some n -> uvarint_decode b = Some n -> a = b.
Proof. exact (uvarint_decode_inj a b n). Qed.

Section C07.
  Variable Store : Type.
  Variable w_put : Store -> witem -> Z -> Store * put_result.
  Variable w_get : Store -> bytes -> Z -> Store * get_result.
  Variable sha1 : bytes -> bytes.
  Variable id_secure : N -> bytes -> bool.
  Variable cfg : config.

  Notation step := (step Store w_put w_get sha1 id_secure cfg).
  Notation run := (run Store w_put w_get sha1 id_secure cfg).
  Notation reachable := (reachable Store w_put w_get sha1 id_secure cfg).
  Notation s_pending := (s_pending Store).

  Theorem C07_txinv_step s e ch s' out :
    TxInv Store s -> step s e ch = SR Store s' out -> TxInv Store s'.
  Proof. exact (txinv_step Store w_put w_get sha1 id_secure cfg s e ch s' out). Qed.

  Theorem C07_txinv s : reachable s -> TxInv Store s.
  Proof. exact (txinv_reachable Store w_put w_get sha1 id_secure cfg s). Qed.

  (* ---- queries outstanding at the same time never share a transaction id ---- *)
  Theorem C07_unique_t s : reachable s -> NoDup (map tx_t (s_pending s)).
  Proof. exact (ServerInv2.C07_unique_t Store w_put w_get sha1 id_secure cfg s). Qed.

  (* ---- a transaction is registered only by starting a query: under the destination the query
          datagram is sent to and the transaction id that datagram carries ---- *)
  Theorem C07_registered s e ch s' out x :
    step s e ch = SR Store s' out -> In x (s_pending s') -> ~ In x (s_pending s) ->
    exists qid dst q a rated t,
      e = EQueryStart qid dst q a rated t /\ x = mkTxn (addr_key dst) t qid /\
      s_closed Store s = false /\ blocked (s_blocklist Store s) (ip dst) = false /\
      out = [ESend dst (query_msg cfg q a t) SQuery].
  Proof. exact (ServerInv2.C07_registered Store w_put w_get sha1 id_secure cfg s e ch s' out x). Qed.

  (* ---- a completion hands the datagram to a pending query registered for exactly the source
          address (ip and port) with exactly the datagram's transaction id; the datagram passed the
          serve-loop filters and is not a query; that query is no longer pending afterwards and
          nothing else is completed ---- *)
  Theorem C07_match s src size dec ch s' out qid m :
    TxInv Store s -> step s (EPacket src size dec) ch = SR Store s' out ->
    In (ECompleted qid m) out ->
    dec = Some m /\
    (size <> Z.to_N udp_buf /\ port src <> 0%N /\ s_closed Store s = false /\
     blocked (s_blocklist Store s) (ip src) = false) /\
    bytes_eqb (m_y m) s_q = false /\
    exists x, In x (s_pending s) /\ tx_qid x = qid /\ tx_key x = addr_key src /\ tx_t x = m_t m /\
              ~ In x (s_pending s') /\ out = [ECompleted qid m].
  Proof. exact (ServerInv2.C07_match Store w_put w_get sha1 id_secure cfg s src size dec ch s' out qid m). Qed.

  (* ---- each datagram completes at most one query; no other kind of event completes any ---- *)
  Theorem C07_at_most_one s src size dec ch s' out :
    step s (EPacket src size dec) ch = SR Store s' out ->
    (length (filter is_completed out) <= 1)%nat.
  Proof. exact (ServerInv2.C07_at_most_one Store w_put w_get sha1 id_secure cfg s src size dec ch s' out). Qed.

  Theorem C07_only_packets_complete s e ch s' out :
    step s e ch = SR Store s' out -> (forall src size dec, e <> EPacket src size dec) ->
    filter is_completed out = [].
  Proof. exact (ServerInv2.C07_only_packets_complete Store w_put w_get sha1 id_secure cfg s e ch s' out). Qed.

  (* ---- a pending query leaves the pending set only by its own return or by the matching reply:
          every other event of every kind keeps it ---- *)
  Theorem C07_pending_change s e ch s' out x :
    step s e ch = SR Store s' out -> In x (s_pending s) ->
    In x (s_pending s') \/ e = EQueryEnd (tx_qid x) \/
    (exists src size m, e = EPacket src size (Some m) /\
       (size <> Z.to_N udp_buf /\ port src <> 0%N /\ s_closed Store s = false /\
        blocked (s_blocklist Store s) (ip src) = false) /\
       bytes_eqb (m_y m) s_q = false /\ tx_key x = addr_key src /\ tx_t x = m_t m).
  Proof. exact (ServerInv2.C07_pending_change Store w_put w_get sha1 id_secure cfg s e ch s' out x). Qed.

  (* datagrams from other addresses or with other transaction ids (or queries, or filtered ones)
     do not affect it *)
  Theorem C07_unaffected s src size dec ch s' out x :
    step s (EPacket src size dec) ch = SR Store s' out -> In x (s_pending s) ->
    ~ (exists m, dec = Some m /\ tx_key x = addr_key src /\ tx_t x = m_t m /\
                 bytes_eqb (m_y m) s_q = false /\
                 (size <> Z.to_N udp_buf /\ port src <> 0%N /\ s_closed Store s = false /\
                  blocked (s_blocklist Store s) (ip src) = false)) ->
    In x (s_pending s').
  Proof. exact (ServerInv2.C07_unaffected Store w_put w_get sha1 id_secure cfg s src size dec ch s' out x). Qed.

  Theorem C07_query_never_touches_pending s src size m ch s' out :
    bytes_eqb (m_y m) s_q = true -> step s (EPacket src size (Some m)) ch = SR Store s' out ->
    s_pending s' = s_pending s /\ filter is_completed out = [].
  Proof. exact (ServerInv2.C07_query_never_touches_pending Store w_put w_get sha1 id_secure cfg s src size m ch s' out). Qed.

  (* ---- duplicates and replays: after a completion the same datagram delivered again completes
          nothing; nor does any datagram with that transaction id, from any address, after any
          further history ---- *)
  Theorem C07_replay_inert s src size m ch s' out qid :
    TxInv Store s -> step s (EPacket src size (Some m)) ch = SR Store s' out ->
    In (ECompleted qid m) out ->
    forall size' ch' s'' out', step s' (EPacket src size' (Some m)) ch' = SR Store s'' out' ->
      filter is_completed out' = [] /\ s_pending s'' = s_pending s'.
  Proof. exact (ServerInv2.C07_replay_inert Store w_put w_get sha1 id_secure cfg s src size m ch s' out qid). Qed.

  Theorem C07_replay_inert_forever s src size dec ch s1 out qid m :
    TxInv Store s -> step s (EPacket src size dec) ch = SR Store s1 out ->
    In (ECompleted qid m) out ->
    forall evs s2 outs, run s1 evs = Some (s2, outs) ->
    forall src' size' m' ch' s3 out', m_t m' = m_t m ->
      step s2 (EPacket src' size' (Some m')) ch' = SR Store s3 out' ->
      filter is_completed out' = [] /\ s_pending s3 = s_pending s2.
  Proof. exact (ServerInv2.C07_replay_inert_forever Store w_put w_get sha1 id_secure cfg s src size dec ch s1 out qid m). Qed.
End C07.

(* ---- non-vacuity (ServerExamples.v): two pings outstanding to the same destination with ids 00
        and 01; the reply with id 01 from that address completes query 2 only; the same id from
        another port, an adjacent id (02), a prefix (empty id) and the replayed reply complete
        nothing ---- *)
Example C07_nonvacuous :
  reachable unit wp0 wg0 sha0 sec0 cfg0 s0 /\
  map (fun x => (tx_t x, tx_qid x)) (s_pending unit s0) = [([x00], 1%N); ([x01], 2%N)] /\
  match step0 s0 (EPacket dstA 100 (Some (resp [x01] 77))) evict1 with
  | SR _ s1 out =>
      (map (fun e => match e with ECompleted q _ => Some q | _ => None end) out,
       map tx_qid (s_pending unit s1),
       match step0 s1 (EPacket dstA 100 (Some (resp [x01] 77))) no_choice with
       | SR _ s2 out2 => Some (out2, map tx_qid (s_pending unit s2))
       | _ => None
       end)
  | _ => ([], [], None)
  end = ([Some 2%N], [1%N], Some ([], [1%N])) /\
  step0 s0 (EPacket (mkAddr ip4 7001) 100 (Some (resp [x01] 77))) no_choice = SR unit s0 [] /\
  step0 s0 (EPacket dstA 100 (Some (resp [x02] 77))) no_choice = SR unit s0 [] /\
  step0 s0 (EPacket dstA 100 (Some (resp [] 77))) no_choice = SR unit s0 [] /\
  uvarint 300 = [xac; x02].
Proof.
  split; [exact s0_reachable|]. vm_compute. repeat split.
Qed.

(* ---- the one-query model of the query engine (Query.v; scripts of RunLookups.v): copies of the reply and
        datagrams that are not the reply.  The copy the server takes removes the transaction; every further
        copy, back to back or after any schedule of further events, is no event at all; a script with stray
        datagrams (other source address / port / zone, other transaction id: action QAStray) has exactly the
        outcomes of the script with pauses in their place ---- *)
Theorem C07_query_reply_copy_no_effect c s :
  Query.step_en c (Query.step_en c s Query.EReplyArrives) Query.EReplyArrives
  = Query.step_en c s Query.EReplyArrives.
Proof. exact (RunQueryProofs.reply_copy_no_effect c s). Qed.

Theorem C07_query_reply_copies_no_effect c s :
  Query.enabled c s Query.EReplyArrives = true -> Query.q_caller s <> Query.CStart ->
  forall ls, Query.step_en c (Query.exec c (Query.step_en c s Query.EReplyArrives) ls) Query.EReplyArrives
             = Query.exec c (Query.step_en c s Query.EReplyArrives) ls.
Proof. exact (RunQueryProofs.reply_copies_no_effect c s). Qed.

Theorem C07_query_strays_no_effect sc :
  RunLookups.rq_outcomes (RunQueryProofs.scn_destray sc) = RunLookups.rq_outcomes sc.
Proof. exact (RunQueryProofs.rq_outcomes_destray sc). Qed.

Example C07_query_strays_nonvacuous :
  RunLookups.rq_outcomes (RunLookups.rq_mk_scn 1 false false false false None false false 0
     [(RunLookups.QPGate 1, RunLookups.QAStray); (RunLookups.QPGate 1, RunLookups.QAStray)]) = [(1, 1, 2, false, false)]%nat /\
  RunLookups.rq_outcomes (RunLookups.rq_mk_scn 1 false false false false None false false 0
     [(RunLookups.QPGate 1, RunLookups.QAStray); (RunLookups.QPGate 1, RunLookups.QAStray); (RunLookups.QPGate 1, RunLookups.QAReply)])
    = [(1, 1, 0, false, false)]%nat /\
  RunLookups.rq_outcomes (RunLookups.rq_mk_scn 1 false false false false None false false 0
     (repeat (RunLookups.QPWrite 1, RunLookups.QAReply) 6))
    = RunLookups.rq_outcomes (RunLookups.rq_mk_scn 1 false false false false None false false 0 [(RunLookups.QPWrite 1, RunLookups.QAReply)]).
Proof.
  exact (conj RunQueryProofs.strays_only_times_out (conj RunQueryProofs.strays_then_reply RunQueryProofs.six_copies_in_write)).
Qed.

Print Assumptions C07_uvarint_roundtrip.
Print Assumptions C07_uvarint_decode_inj.
Print Assumptions C07_txinv.
Print Assumptions C07_unique_t.
Print Assumptions C07_registered.
Print Assumptions C07_match.
Print Assumptions C07_at_most_one.
Print Assumptions C07_only_packets_complete.
Print Assumptions C07_pending_change.
Print Assumptions C07_unaffected.
Print Assumptions C07_query_never_touches_pending.
Print Assumptions C07_replay_inert.
Print Assumptions C07_replay_inert_forever.
Print Assumptions C07_nonvacuous.
Print Assumptions C07_query_reply_copy_no_effect.
Print Assumptions C07_query_reply_copies_no_effect.
Print Assumptions C07_query_strays_no_effect.
Print Assumptions C07_query_strays_nonvacuous.
