(* C18 — XOR metric, bucket index and closeness orders obey their laws.
   This file holds statements only; every proof is `exact <lemma>` from proofs/. *)
From Dht Require Import Base Int160 Order Int160Proofs OrderProofs.
From DhtGen Require Import Params.
From Coq Require Import Sorting.Sorted.
Local Open Scope N_scope.

(* ---- the byte-level code model refines the unsigned-integer spec ---- *)
Theorem C18_xor_refines a b :
  length a = length b -> toN (xorl a b) = N.lxor (toN a) (toN b).
Proof. exact (toN_xorl a b). Qed.

Theorem C18_cmp_refines a b :
  length a = length b -> cmp160 a b = N.compare (toN a) (toN b).
Proof. exact (lex_cmp_toN a b). Qed.

Theorem C18_distance_order_is_unsigned_order t a b :
  length t = 20%nat -> length a = 20%nat -> length b = 20%nat ->
  cmp160 (distance a t) (distance b t) = N.compare (dist (toN a) (toN t)) (dist (toN b) (toN t)).
Proof. exact (cmp160_dist_spec t a b). Qed.

(* ---- XOR distance: symmetric, zero exactly for equal ids ---- *)
Theorem C18_dist_symmetric a b : dist a b = dist b a.
Proof. exact (dist_sym a b). Qed.

Theorem C18_dist_zero_iff_equal a b : dist a b = 0 <-> a = b.
Proof. exact (dist_zero_iff a b). Qed.

(* ---- bucket index = length of the shared bit prefix; byte-level code agrees ---- *)
Theorem C18_bucket_index_is_shared_prefix root id :
  root < 2 ^ 160 -> id < 2 ^ 160 -> root <> id ->
  bucket_index root id = shared_prefix_len root id /\ (bucket_index root id < 160)%nat.
Proof. intros H1 H2 H3. split; [exact (bucket_index_shared_prefix root id H1 H2 H3) | exact (bucket_index_lt root id H1 H2 H3)]. Qed.

Theorem C18_bucket_index_code_refines root id :
  length root = 20%nat -> length id = 20%nat ->
  bucket_index_bytes root id =
    if N.eqb (toN root) (toN id) then None else Some (bucket_index (toN root) (toN id)).
Proof. exact (bucket_index_bytes_spec root id). Qed.

(* ---- a random id drawn for bucket i lands in bucket i (any random base) ---- *)
Theorem C18_random_bucket root base i :
  root < 2 ^ 160 -> base < 2 ^ 160 -> (i < 160)%nat ->
  random_in_bucket root base i <> root /\ bucket_index root (random_in_bucket root base i) = i.
Proof. exact (random_in_bucket_index root base i). Qed.

Theorem C18_random_bucket_code_refines root base i :
  length root = 20%nat -> length base = 20%nat -> (i < 160)%nat ->
  toN (random_in_bucket_bytes root base i) = random_in_bucket (toN root) (toN base) i.
Proof. exact (random_in_bucket_bytes_toN root base i). Qed.

(* ---- closer-than is a strict total order; known ids first, then by distance ---- *)
Theorem C18_closer_irreflexive t a : closer_than t a a = false.
Proof. exact (closer_than_irrefl t a). Qed.

Theorem C18_closer_transitive t a b c :
  closer_than t a b = true -> closer_than t b c = true -> closer_than t a c = true.
Proof. exact (closer_than_trans t a b c). Qed.

Theorem C18_closer_asymmetric t a b : closer_than t a b = true -> closer_than t b a = false.
Proof. exact (closer_than_asym t a b). Qed.

Theorem C18_closer_total t a b : a <> b -> closer_than t a b = true \/ closer_than t b a = true.
Proof. exact (closer_than_total t a b). Qed.

Theorem C18_known_before_unknown t a b ia :
  ami_id a = Some ia -> ami_id b = None -> closer_than t a b = true.
Proof. exact (closer_known_before_unknown t a b ia). Qed.

Theorem C18_known_by_distance t a b ia ib :
  ami_id a = Some ia -> ami_id b = Some ib ->
  (dist ia t < dist ib t -> closer_than t a b = true) /\
  (closer_than t a b = true -> dist ia t <= dist ib t).
Proof. intros Ha Hb. split; [exact (closer_known_by_distance t a b ia ib Ha Hb) | exact (closer_known_by_distance_conv t a b ia ib Ha Hb)]. Qed.

(* ---- the K-nearest container: for every push sequence and every tie-break that is a strict
        total order, the contents are the first K of the sorted de-duplicated pushes ---- *)
Section KNearest.
  Variable D : Type.
  Variable tb : addrport -> addrport -> comparison.
  Hypothesis tb_refl : forall a, tb a a = Eq.
  Hypothesis tb_eq : forall a b, tb a b = Eq -> a = b.
  Hypothesis tb_antisym : forall a b, tb b a = CompOpp (tb a b).
  Hypothesis tb_trans : forall a b c, tb a b = Lt -> tb b c = Lt -> tb a c = Lt.

  Theorem C18_knearest_spec t k (pushes : list (kelem D)) :
    kn_run D tb t k pushes = firstn k (kn_all D tb t pushes)
    /\ length (kn_run D tb t k pushes) = Nat.min k (length (kn_all D tb t pushes))
    /\ StronglySorted (fun a b => dist (k_id a) t <= dist (k_id b) t) (kn_run D tb t k pushes).
  Proof.
    split; [exact (kn_run_spec D tb tb_refl tb_eq tb_antisym tb_trans t k pushes)|].
    split; [exact (kn_run_length D tb tb_refl tb_eq tb_antisym tb_trans t k pushes)|].
    exact (kn_run_sorted_by_distance D tb tb_refl tb_eq tb_antisym tb_trans t k pushes).
  Qed.

  Theorem C18_knearest_retains_nearest t k (pushes : list (kelem D)) m e :
    In m (kn_run D tb t k pushes) -> In e (kn_all D tb t pushes) -> ~ In e (kn_run D tb t k pushes) ->
    dist (k_id m) t <= dist (k_id e) t.
  Proof. intros H1 H2 H3. exact (proj2 (kn_run_nearest D tb tb_refl tb_eq tb_antisym tb_trans t k pushes m e H1 H2 H3)). Qed.
End KNearest.

(* ---- non-vacuity: concrete ids meeting the hypotheses ---- *)
Example C18_nonvacuous :
  bucket_index 5 4 = 159%nat /\ bucket_index 0 (2 ^ 159) = 0%nat /\
  random_in_bucket 0 0 7 = 2 ^ 152 /\
  closer_than 9 (mkAmi (mkAP 32 1 1) (Some 8)) (mkAmi (mkAP 32 1 1) None) = true.
Proof. vm_compute. repeat split. Qed.

(* ---- pins: constants the property names, as found in /repo now ---- *)
Example C18_pin_k : table_k = 8%Z /\ table_k_ok = true /\ traversal_default_k = 8%Z /\ traversal_default_k_ok = true.
Proof. repeat split. Qed.

Print Assumptions C18_xor_refines.
Print Assumptions C18_cmp_refines.
Print Assumptions C18_bucket_index_is_shared_prefix.
Print Assumptions C18_bucket_index_code_refines.
Print Assumptions C18_random_bucket.
Print Assumptions C18_random_bucket_code_refines.
Print Assumptions C18_closer_transitive.
Print Assumptions C18_closer_total.
Print Assumptions C18_knearest_spec.
Print Assumptions C18_knearest_retains_nearest.
