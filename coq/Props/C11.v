(* C11 — announced peers come back from get_peers, and only those, per BEP 5 / BEP 32.
   This file holds statements only; every proof is `exact <lemma>` from proofs/ServerC11.v.
   All theorems are about the executable model coq/model/Server.v, for ANY state (hence for every
   reachable one) and any choice, parametric in the Section parameters: no axioms, no hypothesis on
   sha1.  Histories are [run] of ServerDefs.v: sequential, each event settles before the next (the
   asynchronous `go AddPeer` is awaited; see DESIGN.md C11).
   "Same IP" for the peer store = same raw IP bytes (DESIGN.md Appendix B): the 4-byte and the
   v4-mapped form of one address are two keys. *)
From Dht Require Import Base Int160 Msg Server ServerDefs ServerC10 ServerC11 ServerHook Sha1.
From Dht Require Import RunApi ApiProofs.
From DhtGen Require Import Params.
From Coq Require Import Permutation.
Local Open Scope Z_scope.

Section C11.
  Variable Store : Type.
  Variable w_put : Store -> witem -> Z -> Store * put_result.
  Variable w_get : Store -> bytes -> Z -> Store * get_result.
  Variable sha1 : bytes -> bytes.
  Variable id_secure : N -> bytes -> bool.
  Variable cfg : config.

  Notation sstate := (sstate Store).
  Notation step := (step Store w_put w_get sha1 id_secure cfg).
  Notation run := (run Store w_put w_get sha1 id_secure cfg).
  Notation create_token := (create_token sha1 cfg).
  Notation valid_token := (valid_token sha1 cfg).
  Notation passes := (passes Store cfg).
  Notation announce_of := (announce_of Store sha1 cfg).
  Notation announced := (announced Store w_put w_get sha1 id_secure cfg).
  Notation expected_values := (expected_values Store).
  Notation s_now := (s_now Store).
  Notation s_peers := (s_peers Store).

  (* ================= the in-memory peer store ================= *)

  (* AddPeer: the new entry is listed under its infohash; entries of every other (infohash, raw ip)
     pair are untouched; an older entry of the same pair is gone *)
  Theorem C11_add_peer_lookup ps p :
    In p (filter (fun q => bytes_eqb (p_ih q) (p_ih p)) (add_peer ps p)) /\
    (forall q, ~ same_key q p -> (In q (add_peer ps p) <-> In q ps)) /\
    (forall q, In q (add_peer ps p) -> same_key q p -> q = p).
  Proof. exact (add_peer_lookup ps p). Qed.

  (* an accepted announce: an announce_peer query that passes the serve filters, the OnQuery hook
     and is not ignored by a passive node, with the peer store configured and a token that validates
     for its source; it stores (infohash, source ip, chosen port) *)
  Theorem C11_accepted_announce_spec s e p :
    announce_of s e = Some p <->
    exists src size m a,
      e = EPacket src size (Some m) /\ passes s src size m = true /\ m_y m = s_q /\
      m_q m = s_announce_peer /\ c_peer_store cfg = true /\ m_a m = Some a /\
      valid_token (a_token a) src (s_now s) = Some true /\
      p = mkPeer (a_info_hash a) (ip src) (chosen_port src a).
  Proof. exact (announce_of_spec Store sha1 cfg s e p). Qed.

  (* port selection: the announced port, the UDP source port when implied_port is set *)
  Theorem C11_chosen_port src a :
    chosen_port src a = if a_implied_port a then Z.of_N (port src)
                        else match a_port a with Some p => p | None => 0 end.
  Proof. exact eq_refl. Qed.

  (* for EVERY event and choice the peer store changes exactly by accepted announces *)
  Theorem C11_step_peers s e ch s' out :
    step s e ch = SR Store s' out ->
    s_peers s' = match announce_of s e with
                 | Some p => add_peer (s_peers s) p
                 | None => s_peers s
                 end.
  Proof. exact (step_peers Store w_put w_get sha1 id_secure cfg s e ch s' out). Qed.

  Theorem C11_store_changes_only_by_accepted_announce s e ch s' out :
    step s e ch = SR Store s' out ->
    s_peers s' = s_peers s \/
    exists src size m a,
      e = EPacket src size (Some m) /\ passes s src size m = true /\ m_y m = s_q /\
      m_q m = s_announce_peer /\ c_peer_store cfg = true /\ m_a m = Some a /\
      valid_token (a_token a) src (s_now s) = Some true /\
      s_peers s' = add_peer (s_peers s) (mkPeer (a_info_hash a) (ip src) (chosen_port src a)).
  Proof. exact (ServerC11.C11_store_changes_only_by_accepted_announce Store w_put w_get sha1 id_secure cfg s e ch s' out). Qed.

  (* ================= histories ================= *)

  (* after any history the store is the fold of AddPeer over its accepted announces, in order *)
  Theorem C11_store_is_fold_of_announces s evs s' outs :
    run s evs = Some (s', outs) ->
    s_peers s' = fold_left add_peer (announced s evs) (s_peers s).
  Proof. exact (ServerC11.C11_store_is_fold_of_announces Store w_put w_get sha1 id_secure cfg s evs s' outs). Qed.

  Theorem C11_announced_spec s evs s' outs p :
    run s evs = Some (s', outs) -> In p (announced s evs) ->
    exists pre e ch post sp op,
      evs = pre ++ (e, ch) :: post /\ run s pre = Some (sp, op) /\ announce_of sp e = Some p.
  Proof. exact (announced_spec Store w_put w_get sha1 id_secure cfg s evs s' outs p). Qed.

  (* "until a later announce from the same IP replaces it": after the last accepted announce of a
     key the store holds that endpoint, and only that one, for the key *)
  Theorem C11_last_announce_wins s evs s' outs l1 p l2 :
    run s evs = Some (s', outs) ->
    announced s evs = l1 ++ p :: l2 -> (forall x, In x l2 -> ~ same_key x p) ->
    In p (s_peers s') /\ (forall q, In q (s_peers s') -> same_key q p -> q = p).
  Proof. exact (ServerC11.C11_last_announce_wins Store w_put w_get sha1 id_secure cfg s evs s' outs l1 p l2). Qed.

  (* roundtrip: after an accepted announce p = (H, A's raw ip, chosen port) in any state s0, for every
     continuation [mid] without another accepted announce of the same (H, raw ip), every datagram sent
     in answer to a get_peers for H from a requester for which p is representable
     (filter_peer = Some v) is a reply whose values contain the endpoint, and carries a token *)
  Theorem C11_roundtrip s0 ea cha s1 outa p mid s2 outs src size m a chg s3 outg v d rm k :
    step s0 ea cha = SR Store s1 outa -> announce_of s0 ea = Some p ->
    run s1 mid = Some (s2, outs) ->
    (forall q, In q (announced s1 mid) -> ~ same_key q p) ->
    m_y m = s_q -> m_q m = s_get_peers -> m_a m = Some a -> a_info_hash a = p_ih p ->
    step s2 (EPacket src size (Some m)) chg = SR Store s3 outg ->
    filter_peer (should_return_nodes (want_list a) (ip src)) (should_return_nodes6 (want_list a) (ip src)) p = Some v ->
    In (ESend d rm k) outg ->
    exists r vs tok, m_r rm = Some r /\ r_values r = Some vs /\
      In (mkNA (na_ip v) (wire_port (na_port v))) vs /\ r_token r = Some tok.
  Proof. exact (ServerC11.C11_roundtrip Store w_put w_get sha1 id_secure cfg s0 ea cha s1 outa p mid s2 outs src size m a chg s3 outg v d rm k). Qed.

  (* representable: a peer with a 4-byte or 16-byte address is returned to every requester wanting
     IPv6, and to a requester wanting IPv4 when the address is IPv4 or v4-mapped; same family: as is *)
  Theorem C11_representable r4 r6 p :
    wf_ip (p_ip p) -> (r4 = true /\ to4 (p_ip p) <> None) \/ r6 = true ->
    exists v, filter_peer r4 r6 p = Some v.
  Proof. exact (filter_peer_representable r4 r6 p). Qed.

  Theorem C11_same_family_as_is r4 r6 p :
    (r4 = true /\ length (p_ip p) = 4%nat) \/ (r6 = true /\ length (p_ip p) = 16%nat) ->
    filter_peer r4 r6 p = Some (mkNA (p_ip p) (p_port p)).
  Proof. exact (filter_peer_same_family r4 r6 p). Qed.

  Theorem C11_port_on_the_wire p : 0 <= p < 65536 -> wire_port p = p.
  Proof. exact (wire_port_id p). Qed.

  (* never an endpoint that was not announced for that infohash: every value of every get_peers reply
     after a history from ANY state s0 is (the BEP 32 conversion of) a peer of s0's store or of an
     accepted announce of the history, for that infohash: same port, same address *)
  Theorem C11_only_announced s0 evs s outs src size m a ch s' out d rm k r vs v :
    run s0 evs = Some (s, outs) ->
    m_y m = s_q -> m_q m = s_get_peers -> m_a m = Some a ->
    step s (EPacket src size (Some m)) ch = SR Store s' out ->
    In (ESend d rm k) out -> m_r rm = Some r -> r_values r = Some vs -> In v vs ->
    exists p v0, (In p (s_peers s0) \/ In p (announced s0 evs)) /\ p_ih p = a_info_hash a /\
      filter_peer (should_return_nodes (want_list a) (ip src)) (should_return_nodes6 (want_list a) (ip src)) p = Some v0 /\
      v = mkNA (na_ip v0) (wire_port (na_port v0)) /\
      na_port v0 = p_port p /\
      (na_ip v0 = p_ip p \/ to4 (p_ip p) = Some (na_ip v0) \/ to16 (p_ip p) = Some (na_ip v0)).
  Proof. exact (ServerC11.C11_only_announced Store w_put w_get sha1 id_secure cfg s0 evs s outs src size m a ch s' out d rm k r vs v). Qed.

  (* from a fresh server (hence for every reachable state): an accepted announce of the history *)
  Theorem C11_only_announced_from_init st now bl budget evs s outs src size m a ch s' out d rm k r vs v :
    run (init_state Store st now bl budget) evs = Some (s, outs) ->
    m_y m = s_q -> m_q m = s_get_peers -> m_a m = Some a ->
    step s (EPacket src size (Some m)) ch = SR Store s' out ->
    In (ESend d rm k) out -> m_r rm = Some r -> r_values r = Some vs -> In v vs ->
    exists p v0 pre e che post sp op,
      evs = pre ++ (e, che) :: post /\ run (init_state Store st now bl budget) pre = Some (sp, op) /\
      announce_of sp e = Some p /\ p_ih p = a_info_hash a /\
      filter_peer (should_return_nodes (want_list a) (ip src)) (should_return_nodes6 (want_list a) (ip src)) p = Some v0 /\
      v = mkNA (na_ip v0) (wire_port (na_port v0)).
  Proof. exact (ServerC11.C11_only_announced_from_init Store w_put w_get sha1 id_secure cfg st now bl budget evs s outs src size m a ch s' out d rm k r vs v). Qed.

  (* ================= BEP 32 and the token ================= *)

  (* an entry of the filtered list has a 4-byte address and IPv4 was wanted, or a 16-byte address and
     IPv6 was wanted (6 / 18 bytes with the port); no other width *)
  Theorem C11_family r4 r6 p v :
    filter_peer r4 r6 p = Some v ->
    (length (na_ip v) = 4%nat /\ r4 = true) \/ (length (na_ip v) = 16%nat /\ r6 = true).
  Proof. exact (ServerC11.C11_family r4 r6 p v). Qed.

  Theorem C11_family_reply s src size m a ch s' out d rm k r vs v :
    m_y m = s_q -> m_q m = s_get_peers -> m_a m = Some a ->
    step s (EPacket src size (Some m)) ch = SR Store s' out ->
    In (ESend d rm k) out -> m_r rm = Some r -> r_values r = Some vs -> In v vs ->
    (length (na_ip v) = 4%nat /\ should_return_nodes (want_list a) (ip src) = true) \/
    (length (na_ip v) = 16%nat /\ should_return_nodes6 (want_list a) (ip src) = true).
  Proof. exact (ServerC11.C11_family_reply Store w_put w_get sha1 id_secure cfg s src size m a ch s' out d rm k r vs v). Qed.

  (* wanting IPv4 / IPv6: explicit `want`, else the address family of the query's source *)
  Theorem C11_wants4 ws src :
    should_return_nodes ws src = true <-> (ws = [] /\ to4 src <> None) \/ (ws <> [] /\ In s_n4 ws).
  Proof. exact (ServerC11.C11_wants4 ws src). Qed.

  Theorem C11_wants6 ws src :
    should_return_nodes6 ws src = true <-> (ws = [] /\ to4 src = None) \/ (ws <> [] /\ In s_n6 ws).
  Proof. exact (ServerC11.C11_wants6 ws src). Qed.

  (* the accepted `values` are exactly the permutations of the filtered store content for the
     infohash, ports as uint16; an empty list is sent as absent *)
  Theorem C11_values_perm s src size m a ch s' out d rm k r :
    c_peer_store cfg = true -> m_y m = s_q -> m_q m = s_get_peers -> m_a m = Some a ->
    step s (EPacket src size (Some m)) ch = SR Store s' out ->
    In (ESend d rm k) out -> m_r rm = Some r ->
    Permutation (values_of r) (expected_values s src a) /\ r_values r <> Some [] /\
    r_values r = opt_nonempty (ch_values ch).
  Proof. exact (ServerC11.C11_values_perm Store w_put w_get sha1 id_secure cfg s src size m a ch s' out d rm k r). Qed.

  Theorem C11_accept_is_permutation a b : is_perm_na a b = true <-> Permutation a b.
  Proof. exact (is_perm_na_iff a b). Qed.

  (* every get_peers reply of a node with a peer store carries a token: the one C10 validates *)
  Theorem C11_token s src size m a ch s' out d rm k :
    c_peer_store cfg = true -> m_y m = s_q -> m_q m = s_get_peers -> m_a m = Some a ->
    step s (EPacket src size (Some m)) ch = SR Store s' out ->
    In (ESend d rm k) out ->
    exists r tok, m_r rm = Some r /\ r_token r = Some tok /\ create_token src (s_now s) = Some tok.
  Proof. exact (ServerC11.C11_token Store w_put w_get sha1 id_secure cfg s src size m a ch s' out d rm k). Qed.
  (* the application's OnAnnouncePeer hook is not part of the node: the announce step stores the peer
     whether or not a hook is configured ([announce_of] does not read c_announce_cb, see
     C11_accepted_announce_spec / C11_step_peers) and however long the hook runs.  The harness event
     `hookrel` (the blocked hook calls return) is replayed on the model as [EAdvance 0]: the identity. *)
  Theorem C11_hook_release_is_noop s ch : step s (EAdvance 0) ch = SR Store s [].
  Proof. exact (step_advance_zero_noop Store w_put w_get sha1 id_secure cfg s ch). Qed.
End C11.

(* ================= bursts of first announces (engine `api`) =================
   The server hands every accepted announce to InMemory.AddPeer on its own goroutine; announces that
   arrive back to back run AddPeer concurrently and the store's lock serialises them in some order.
   For a burst with pairwise distinct (infohash, raw ip) keys the store after the burst does not
   depend on that order, from any earlier store; every announcer of a burst of first announces comes
   back from GetPeers and nothing else does. The runner folds add_peer in the order listed and
   compares sorted listings with what GetPeers / get_peers returned at rest. *)
Theorem C11_burst_order_irrelevant l l' ps q :
  Permutation l l' -> distinct_keys l ->
  (In q (fold_left add_peer l ps) <-> In q (fold_left add_peer l' ps)).
Proof. exact (ra_fold_perm l l' ps q). Qed.

Theorem C11_burst_listing_order_irrelevant ih l l' a :
  Permutation l l' -> distinct_keys l -> (In a (ra_store_get ih l) <-> In a (ra_store_get ih l')).
Proof. exact (ra_store_get_perm ih l l' a). Qed.

Theorem C11_burst_complete anns p :
  distinct_keys anns -> In p anns -> In (mkNA (p_ip p) (p_port p)) (ra_store_get (p_ih p) anns).
Proof. exact (ra_burst_complete anns p). Qed.

Theorem C11_burst_only_announced ih anns a :
  In a (ra_store_get ih anns) -> exists p, In p anns /\ p_ih p = ih /\ a = mkNA (p_ip p) (p_port p).
Proof. exact (ra_store_get_only ih anns a). Qed.

Theorem C11_burst_one_listing_per_host anns p q :
  In p (ra_peers anns) -> In q (ra_peers anns) -> same_key p q -> p = q.
Proof. exact (ra_store_one_per_host anns p q). Qed.

(* floods of hundreds to thousands of announces, then re-announces with new ports once the store is at
   rest (engine `api`, srv_api_flood.go): the model history is flood 1 ++ flood 2, each in any order *)
Theorem C11_two_floods_order_irrelevant l1 l1' l2 l2' q :
  Permutation l1 l1' -> Permutation l2 l2' -> distinct_keys l1 -> distinct_keys l2 ->
  (In q (ra_peers (l1 ++ l2)) <-> In q (ra_peers (l1' ++ l2'))).
Proof. exact (ra_two_bursts_perm l1 l1' l2 l2' q). Qed.

Theorem C11_two_floods_complete l1 l2 p :
  distinct_keys l1 -> distinct_keys l2 ->
  (In p l2 \/ (In p l1 /\ forall x, In x l2 -> ~ same_key p x)) ->
  In (mkNA (p_ip p) (p_port p)) (ra_store_get (p_ih p) (l1 ++ l2)).
Proof. exact (ra_two_floods_complete l1 l2 p). Qed.

Theorem C11_reannounce_replaces l1 l2 p q :
  distinct_keys l2 -> In q l2 -> same_key p q -> p <> q -> ~ In p (ra_peers (l1 ++ l2)).
Proof. exact (ra_reannounce_replaces l1 l2 p q). Qed.

(* ================= non-vacuity: concrete histories, real SHA-1 ================= *)
Definition ex_cfg : config :=
  mkCfg 1 false true true true (fun _ => true) false ["s"; "e"; "c"; "r"; "e"; "t"]%byte.
Definition ex_put (st : unit) (_ : witem) (_ : Z) : unit * put_result := (st, PutOk).
Definition ex_get (st : unit) (_ : bytes) (_ : Z) : unit * get_result := (st, GetNotFound).
Definition ex_secure (_ : N) (_ : bytes) : bool := true.
Definition t0 : Z := 1700000000123456789.
Definition ex_s0 : sstate unit := init_state unit tt t0 [] None.

Definition ip_a : bytes := [x01; x02; x03; x04].
Definition A1 : addr := mkAddr ip_a 6881.
Definition A1_other_port : addr := mkAddr ip_a 51413.
Definition R4 : addr := mkAddr [x09; x09; x09; x09] 4000.                (* an IPv4 requester *)
Definition R6 : addr := mkAddr (x20 :: x01 :: repeat x00 13 ++ [x07]) 4000.   (* an IPv6 requester *)
Definition ih1 : bytes := repeat x11 20.
Definition ih2 : bytes := repeat x22 20.

Definition mk_query (q : bytes) (a : msg_args) : msg := mkMsg q (Some a) ["a"; "a"]%byte s_q None None empty_na false [].
Definition ann_args (id : N) (ih tok : bytes) (p : option Z) (implied : bool) : msg_args :=
  mkArgs (ofN 20 id) ih zero20 tok p implied None 0 0 None None 0 zero32 [] zero64.
Definition gp_args (id : N) (ih : bytes) : msg_args :=
  mkArgs (ofN 20 id) ih zero20 [] None false None 0 0 None None 0 zero32 [] zero64.
Definition tok_for (a : addr) : bytes :=
  match create_token sha1 ex_cfg a t0 with Some t => t | None => [] end.
Definition announce (a : addr) (ih : bytes) (p : option Z) (implied : bool) : event * choice :=
  (EPacket a 100 (Some (mk_query s_announce_peer (ann_args 5 ih (tok_for a) p implied))), no_choice).
Definition get_peers (r : addr) (ih : bytes) (vals : list node_addr) : event * choice :=
  (EPacket r 100 (Some (mk_query s_get_peers (gp_args 6 ih))), mkChoice None [] [] vals).
Definition ex_run (evs : list (event * choice)) : option (list (list (option (list node_addr) * bool))) :=
  option_map (fun x => map reply_values (snd x)) (run unit ex_put ex_get sha1 ex_secure ex_cfg ex_s0 evs).

(* announce (port 7000) from 1.2.3.4:6881, then get_peers for that infohash returns 1.2.3.4:7000 with
   a token; for another infohash no values (but still a token) *)
Example C11_ex_roundtrip :
  ex_run [announce A1 ih1 (Some 7000) false; get_peers R4 ih1 [mkNA ip_a 7000]; get_peers R4 ih2 []]
  = Some [[(None, false)]; [(Some [mkNA ip_a 7000], true)]; [(None, true)]].
Proof. vm_compute. reflexivity. Qed.

(* implied_port: the UDP source port wins over the port argument *)
Example C11_ex_implied_port :
  ex_run [announce A1 ih1 (Some 7000) true; get_peers R4 ih1 [mkNA ip_a 6881]]
  = Some [[(None, false)]; [(Some [mkNA ip_a 6881], true)]].
Proof. vm_compute. reflexivity. Qed.

(* a later announce from the same IP (another source port) replaces the endpoint; the old one is not
   an accepted outcome any more *)
Example C11_ex_replaced :
  ex_run [announce A1 ih1 (Some 7000) false; announce A1_other_port ih1 (Some 8000) false;
          get_peers R4 ih1 [mkNA ip_a 8000]]
  = Some [[(None, false)]; [(None, false)]; [(Some [mkNA ip_a 8000], true)]] /\
  ex_run [announce A1 ih1 (Some 7000) false; announce A1_other_port ih1 (Some 8000) false;
          get_peers R4 ih1 [mkNA ip_a 7000]] = None /\
  ex_run [announce A1 ih1 (Some 7000) false; announce A1_other_port ih1 (Some 8000) false;
          get_peers R4 ih1 [mkNA ip_a 8000; mkNA ip_a 7000]] = None.
Proof. vm_compute. repeat split. Qed.

(* BEP 32: an IPv6 requester gets the 16-byte (v4-mapped) form, never the 4-byte one *)
Example C11_ex_family :
  ex_run [announce A1 ih1 (Some 7000) false; get_peers R6 ih1 [mkNA (v4_prefix ++ ip_a) 7000]]
  = Some [[(None, false)]; [(Some [mkNA (v4_prefix ++ ip_a) 7000], true)]] /\
  ex_run [announce A1 ih1 (Some 7000) false; get_peers R6 ih1 [mkNA ip_a 7000]] = None.
Proof. vm_compute. repeat split. Qed.

(* an unannounced endpoint is never an accepted outcome; a wrong token stores nothing *)
Example C11_ex_only_announced :
  ex_run [announce A1 ih1 (Some 7000) false; get_peers R4 ih1 [mkNA ip_a 7000; mkNA [x05; x06; x07; x08] 7000]] = None /\
  ex_run [(EPacket A1 100 (Some (mk_query s_announce_peer (ann_args 5 ih1 [x00] (Some 7000) false))), no_choice);
          get_peers R4 ih1 []] = Some [[]; [(None, true)]].
Proof. vm_compute. repeat split. Qed.

(* the hypotheses of C11_roundtrip hold in the first example *)
Example C11_ex_hyps :
  announce_of unit sha1 ex_cfg ex_s0 (fst (announce A1 ih1 (Some 7000) false)) = Some (mkPeer ih1 ip_a 7000) /\
  filter_peer (should_return_nodes [] (ip R4)) (should_return_nodes6 [] (ip R4)) (mkPeer ih1 ip_a 7000)
    = Some (mkNA ip_a 7000) /\
  filter_peer (should_return_nodes [] (ip R6)) (should_return_nodes6 [] (ip R6)) (mkPeer ih1 ip_a 7000)
    = Some (mkNA (v4_prefix ++ ip_a) 7000).
Proof. vm_compute. repeat split. Qed.

(* adjacent observations (outside the property's quantifier, faithful to server.go / in-memory.go):
   an announce without `port` and without implied_port is stored with port 0 and served as such; a
   port outside uint16 is served modulo 65536; the 4-byte and the v4-mapped form of one address are
   two store keys, so an IPv4 requester can be served the same endpoint twice *)
Definition A1_mapped : addr := mkAddr (v4_prefix ++ ip_a) 6881.
Example C11_ex_adjacent :
  ex_run [announce A1 ih1 None false; get_peers R4 ih1 [mkNA ip_a 0]]
  = Some [[(None, false)]; [(Some [mkNA ip_a 0], true)]] /\
  ex_run [announce A1 ih1 (Some 70000) false; get_peers R4 ih1 [mkNA ip_a 4464]]
  = Some [[(None, false)]; [(Some [mkNA ip_a 4464], true)]] /\
  ex_run [announce A1 ih1 (Some 7000) false; announce A1_mapped ih1 (Some 7000) false;
          get_peers R4 ih1 [mkNA ip_a 7000; mkNA ip_a 7000]]
  = Some [[(None, false)]; [(None, false)]; [(Some [mkNA ip_a 7000; mkNA ip_a 7000], true)]].
Proof. vm_compute. repeat split. Qed.

(* ================= pins ================= *)
Example C11_pin_entry_widths :
  elem_CompactIPv4NodeAddrs = 4 + 2 /\ elem_CompactIPv4NodeAddrs_ok = true /\
  elem_CompactIPv6NodeAddrs = 16 + 2 /\ elem_CompactIPv6NodeAddrs_ok = true.
Proof. repeat split. Qed.
From Coq Require Import String.
Example C11_pin_methods_with_token :
  methods_with_token = ["announce_peer"; "put"]%string /\ methods_with_token_ok = true /\
  methods_with_mktoken = ["get"; "get_peers"]%string /\ methods_with_mktoken_ok = true.
Proof. repeat split. Qed.

Print Assumptions C11_add_peer_lookup.
Print Assumptions C11_accepted_announce_spec.
Print Assumptions C11_step_peers.
Print Assumptions C11_hook_release_is_noop.
Print Assumptions C11_store_changes_only_by_accepted_announce.
Print Assumptions C11_store_is_fold_of_announces.
Print Assumptions C11_announced_spec.
Print Assumptions C11_last_announce_wins.
Print Assumptions C11_roundtrip.
Print Assumptions C11_representable.
Print Assumptions C11_only_announced.
Print Assumptions C11_only_announced_from_init.
Print Assumptions C11_family.
Print Assumptions C11_family_reply.
Print Assumptions C11_wants4.
Print Assumptions C11_wants6.
Print Assumptions C11_values_perm.
Print Assumptions C11_accept_is_permutation.
Print Assumptions C11_token.
Print Assumptions C11_ex_roundtrip.
Print Assumptions C11_ex_replaced.
Print Assumptions C11_ex_adjacent.
Print Assumptions C11_burst_order_irrelevant.
Print Assumptions C11_burst_listing_order_irrelevant.
Print Assumptions C11_burst_complete.
Print Assumptions C11_burst_only_announced.
Print Assumptions C11_burst_one_listing_per_host.
Print Assumptions C11_two_floods_order_irrelevant.
Print Assumptions C11_two_floods_complete.
Print Assumptions C11_reannounce_replaces.
